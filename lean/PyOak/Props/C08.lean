import PyOak.Spec.Pattern
namespace PyOak
namespace PM

def Matcher.isAny : Matcher → Bool
  | .any _ => true
  | _ => false

def NoAny : Matchers → Prop
  | .nil => True
  | .cons m r => m.isAny = false ∧ NoAny r

/-- a SequenceMatcher without tail holds at least one matcher, none of them an AnyMatcher -/
def SeqOk : Matcher → Prop
  | .seq _ ms none => ms ≠ .nil ∧ NoAny ms
  | _ => True

/-- the matchers `PatternDefInterpreter.value` builds -/
def Matcher.isValueKind : Matcher → Bool
  | .node _ _ _ => true
  | .var _ _ => true
  | .valNone _ => true
  | .regex _ _ => true
  | _ => false

/-- result of the field loop for a specification result, given the accumulated `ret_vars` -/
def accRes (r : Ctx) : Option Ctx → Bool × Ctx
  | some c => (true, c ++ r)
  | none => (false, [])

/-- result of the zip loop for a specification result, given `local_ctx` and `ret_vars` -/
def zipRes (l r : Ctx) : Option Ctx → Option (Ctx × Ctx)
  | some c => some (c ++ l, c ++ r)
  | none => none

/-- keys of a tail capture -/
def tailKeys : Option (Option Str) → List Str
  | some (some t) => [t]
  | _ => []

/-! the keys of the capture dict a successful match returns, in the order the model lists them -/
mutual
def Pat.capsR : Pat → List Str
  | .mk _ fields => fields.capsR
def Fields.capsR : Fields → List Str
  | .nil => []
  | .cons _ spec cap rest => rest.capsR ++ (spec.capsR ++ capOpt cap)
def FSpec.capsR : FSpec → List Str
  | .any => []
  | .val v => v.capsR
  | .seq items tail => tailKeys tail ++ items.capsR
def Items.capsR : Items → List Str
  | .nil => []
  | .cons v cap rest => rest.capsR ++ (v.capsR ++ capOpt cap)
def PVal.capsR : PVal → List Str
  | .tree p => p.capsR
  | .var _ => []
  | .none => []
  | .re _ => []
end

end PM
namespace C08
open PM

/-! ### helper facts about the interpreter -/

theorem resolveNames_ok (K : CEnv) : ∀ (l ts : List Str), resolveNames K l = .ok ts → ts = l := by
  intro l
  induction l with
  | nil => intro ts h; simp [resolveNames] at h; exact h
  | cons c r ih =>
    intro ts h
    simp only [resolveNames] at h
    split at h <;> try contradiction
    split at h <;> try contradiction
    rename_i ts' hts
    injection h with h
    rw [← h, ih ts' hts]

theorem resolve_any (K : CEnv) (cls : ClassSpec) (types : List Str) (n : Node)
    (h : resolveClasses K cls = .ok types) : types.any (instOf n) = classOk cls n := by
  cases cls with
  | any =>
    simp only [resolveClasses] at h
    injection h with h
    subst h
    simp [classOk, instOf]
  | names f r =>
    simp only [resolveClasses] at h
    rw [resolveNames_ok K _ _ h]
    rfl

theorem splitTail_noAny : ∀ ms : Matchers, NoAny ms → ms.splitTail = (ms, none)
  | .nil, _ => rfl
  | .cons m r, h => by
    have ih := splitTail_noAny r h.2
    have hm := h.1
    cases m <;> simp_all [Matchers.splitTail, Matcher.isAny]

theorem snoc_ne_nil (ms : Matchers) (x : Matcher) : ms.snoc x ≠ .nil := by
  cases ms <;> simp [Matchers.snoc]

theorem splitTail_snoc : ∀ (ms : Matchers) (t : Option Str), (ms.snoc (.any t)).splitTail = (ms, some t)
  | .nil, _ => rfl
  | .cons m r, t => by
    have ih := splitTail_snoc r t
    simp only [Matchers.snoc]
    have hne := snoc_ne_nil r (.any t)
    cases hr : r.snoc (.any t) with
    | nil => exact absurd hr hne
    | cons m2 r2 =>
      rw [hr] at ih
      cases m <;> simp [Matchers.splitTail, ih]

theorem valueKind_notAny (m : Matcher) (h : m.isValueKind = true) : m.isAny = false := by
  cases m <;> simp_all [Matcher.isValueKind, Matcher.isAny]

theorem valueKind_seqOk (m : Matcher) (h : m.isValueKind = true) : SeqOk m := by
  cases m <;> simp_all [Matcher.isValueKind, SeqOk]

/-- `replace(m, name=nm)` changes the name and nothing else (in particular a sequence keeps its tail) -/
theorem setName_spec (m : Matcher) (nm : Str) (hok : SeqOk m) :
    ∃ m', m.setName nm = .ok m' ∧ m'.name = some nm ∧ (∀ S v ctx, m'.core S v ctx = m.core S v ctx)
      ∧ m'.isValueKind = m.isValueKind := by
  cases m with
  | seq n ms tail =>
    cases tail with
    | some t => exact ⟨_, rfl, rfl, fun _ _ _ => by simp [Matcher.core], rfl⟩
    | none =>
      obtain ⟨hne, hno⟩ := hok
      cases ms with
      | nil => exact absurd rfl hne
      | cons m r =>
        refine ⟨_, rfl, rfl, fun S v ctx => ?_, rfl⟩
        rw [splitTail_noAny _ hno]
        simp [Matcher.core]
  | _ => exact ⟨_, rfl, rfl, fun _ _ _ => by simp [Matcher.core], rfl⟩

theorem applyCap_spec (m : Matcher) (cap : Option Str) (seen : List Str) (m' : Matcher) (seen' : List Str)
    (hok : SeqOk m) (hn : m.name = none) (h : applyCap m cap seen = .ok (m', seen')) :
    m'.name = cap ∧ (∀ S v ctx, m'.core S v ctx = m.core S v ctx) ∧ m'.isValueKind = m.isValueKind
      ∧ seen' = capOpt cap ++ seen ∧ (∀ c, cap = some c → c ∉ seen) := by
  cases cap with
  | none =>
    simp only [applyCap] at h
    injection h with h; injection h with h1 h2
    subst h1; subst h2
    exact ⟨hn, fun _ _ _ => rfl, rfl, rfl, fun c hc => by cases hc⟩
  | some c =>
    simp only [applyCap, checkCap] at h
    obtain ⟨m2, hset, hname, hcore, hkind⟩ := setName_spec m c hok
    rw [hset] at h
    simp only [List.contains_iff_mem] at h
    by_cases hc : c ∈ seen
    · simp [hc] at h
    · simp only [hc, if_false] at h
      injection h with h; injection h with h1 h2
      subst h1; subst h2
      refine ⟨hname, hcore, hkind, rfl, fun c' hc' => ?_⟩
      injection hc' with hc'
      subst hc'
      exact hc

theorem wrap_map (cap : Option Str) (v : MVal) (sr : SRes) :
    wrap cap v (sr.map specRes) = sr.map (fun o => specRes (o.map (bindCap cap v))) := by
  cases sr with
  | error e => rfl
  | ok o =>
    cases o with
    | none => rfl
    | some c => cases cap <;> rfl

theorem mkSeq_snoc (nm : Option Str) (ms : Matchers) (t : Option Str) :
    mkSeq nm (ms.snoc (.any t)) none = .ok (.seq nm ms (some t)) := by
  have hs := splitTail_snoc ms t
  cases hsn : ms.snoc (.any t) with
  | nil => exact absurd hsn (snoc_ne_nil _ _)
  | cons a b =>
    rw [hsn] at hs
    simp only [mkSeq, hs]

theorem mkSeq_noAny (nm : Option Str) (m : Matcher) (r : Matchers) (h : NoAny (.cons m r)) :
    mkSeq nm (.cons m r) none = .ok (.seq nm (.cons m r) none) := by
  simp only [mkSeq, splitTail_noAny _ h]

theorem items_len_zero : ∀ items : Items, items.length = 0 → items = .nil
  | .nil, _ => rfl
  | .cons _ _ _, h => by simp [Items.length] at h

/-- `SequenceMatcher._match` (early length test, zip loop, tail) = the sequence clause of the
specification, given that the zip loop computes `specItems` -/
theorem seq_core (S : Sem) (items : Items) (ms : Matchers) (tl : Option (Option Str)) (nm : Option Str)
    (hlen : ms.length = items.length)
    (hzip : ∀ xs l r, items.length ≤ xs.length →
      ms.runZip S xs l r = (specItems S items xs l).map (zipRes l r))
    (v : MVal) (ctx : Ctx) :
    (Matcher.seq nm ms tl).core S v ctx = (specFSpec S (.seq items tl) v ctx).map specRes := by
  cases v with
  | tup xs =>
    simp only [Matcher.core, specFSpec, hlen]
    cases tl with
    | none =>
      by_cases hx : xs.length = items.length
      · have hle : items.length ≤ xs.length := by omega
        simp only [Option.isNone_none, Option.isSome_none, hx, bne_self_eq_false, Bool.and_false,
          Bool.false_and, Bool.or_false, if_true, hzip xs ctx [] hle]
        simp
        cases specItems S items xs ctx with
        | error e => rfl
        | ok o => cases o <;> simp [Except.map, zipRes, specRes]
      · have : (xs.length != items.length) = true := by simpa using hx
        simp [this, hx, Except.map, specRes]
    | some t =>
      by_cases hx : items.length ≤ xs.length
      · have : ¬ xs.length < items.length := by omega
        simp only [Option.isNone_some, Option.isSome_some, Bool.false_and, Bool.true_and, Bool.false_or,
          decide_eq_true_eq, this, if_false, hx, if_true, hzip xs ctx [] hx]
        cases specItems S items xs ctx with
        | error e => rfl
        | ok o => cases o <;> simp [Except.map, zipRes, specRes]
      · have : xs.length < items.length := by omega
        simp [this, hx, Except.map, specRes]
  | node n => simp [Matcher.core, specFSpec, Except.map, specRes]
  | atom t a => simp [Matcher.core, specFSpec, Except.map, specRes]
  | none => simp [Matcher.core, specFSpec, Except.map, specRes]

/-! ### the interpreter's matcher graph computes the specification -/

mutual
theorem pat_ok (K : CEnv) (S : Sem) : ∀ (p : Pat) (seen : List Str) (m : Matcher) (seen' : List Str),
    compilePat K p seen = .ok (m, seen') →
    m.name = none ∧ m.isValueKind = true ∧ ∀ v ctx, m.core S v ctx = (specPat S p v ctx).map specRes
  | .mk cls fields, seen, m, seen', h => by
    simp only [compilePat] at h
    split at h
    · contradiction
    · rename_i types htypes
      split at h
      · contradiction
      · rename_i content seen2 hf
        injection h with h; injection h with h1 h2
        subst h1
        refine ⟨rfl, rfl, fun v ctx => ?_⟩
        have ihf := fields_ok K S fields seen content seen2 hf
        cases v with
        | node n =>
          simp only [Matcher.core, specPat, resolve_any K cls types n htypes]
          split
          · rw [ihf n ctx []]
            cases specFields S fields n ctx with
            | error e => rfl
            | ok o => cases o <;> simp [Except.map, accRes, specRes]
          · rfl
        | tup xs => rfl
        | atom t a => rfl
        | none => rfl
theorem fields_ok (K : CEnv) (S : Sem) : ∀ (fs : Fields) (seen : List Str) (c : Content) (seen' : List Str),
    compileFields K fs seen = .ok (c, seen') →
    ∀ n l r, c.run S n l r = (specFields S fs n l).map (accRes r)
  | .nil, seen, c, seen', h => by
    simp only [compileFields] at h
    injection h with h; injection h with h1 h2
    subst h1
    intro n l r
    simp [Content.run, specFields, Except.map, accRes]
  | .cons name spec cap rest, seen, c, seen', h => by
    simp only [compileFields] at h
    split at h
    · contradiction
    rename_i m seen1 hs
    split at h
    · contradiction
    rename_i m' seen2 hcap
    split at h
    · contradiction
    rename_i c2 seen3 hrest
    injection h with h; injection h with h1 h2
    subst h1
    obtain ⟨hname, hseq, hcore⟩ := fspec_ok K S spec seen m seen1 hs
    obtain ⟨hn', hcore', -, -, -⟩ := applyCap_spec m cap seen1 m' seen2 hseq hname hcap
    have ih := fields_ok K S rest seen2 c2 seen3 hrest
    intro n l r
    simp only [Content.run, specFields]
    cases hg : getField n name with
    | none => rfl
    | some fv =>
      simp only []
      rw [hn', hcore' S fv l, hcore fv l, wrap_map]
      cases hsp : specFSpec S spec fv l with
      | error e => rfl
      | ok o =>
        cases o with
        | none => rfl
        | some c0 =>
          simp only [Except.map, Option.map, specRes]
          rw [ih n _ _]
          cases specFields S rest n (Ctx.update l (bindCap cap fv c0)) with
          | error e => rfl
          | ok o2 => cases o2 <;> simp [Except.map, accRes, Ctx.update]
theorem fspec_ok (K : CEnv) (S : Sem) : ∀ (spec : FSpec) (seen : List Str) (m : Matcher) (seen' : List Str),
    compileFSpec K spec seen = .ok (m, seen') →
    m.name = none ∧ SeqOk m ∧ ∀ v ctx, m.core S v ctx = (specFSpec S spec v ctx).map specRes
  | .any, seen, m, seen', h => by
    simp only [compileFSpec] at h
    injection h with h; injection h with h1 h2
    subst h1
    exact ⟨rfl, trivial, fun v ctx => rfl⟩
  | .val pv, seen, m, seen', h => by
    simp only [compileFSpec] at h
    obtain ⟨hn, hk, hc⟩ := val_ok K S pv seen m seen' h
    exact ⟨hn, valueKind_seqOk m hk, fun v ctx => by rw [hc]; rfl⟩
  | .seq items tail, seen, m, seen', h => by
    simp only [compileFSpec] at h
    split at h
    · contradiction
    rename_i ms seen1 hi
    obtain ⟨hlen, hno, hzip⟩ := items_ok K S items seen ms seen1 hi
    cases tail with
    | none =>
      cases ms with
      | nil =>
        simp only [finishSeq] at h
        injection h with h; injection h with h1 h2
        subst h1
        refine ⟨rfl, trivial, fun v ctx => ?_⟩
        have hnil := items_len_zero items (by simpa [Matchers.length] using hlen.symm)
        subst hnil
        cases v with
        | tup xs => cases xs <;> simp [Matcher.core, MVal.isEmptyTup, specFSpec, specItems, Items.length, Except.map, specRes]
        | node n => rfl
        | atom t a => rfl
        | none => rfl
      | cons m0 r0 =>
        simp only [finishSeq, mkSeq_noAny none m0 r0 hno] at h
        injection h with h; injection h with h1 h2
        subst h1
        exact ⟨rfl, ⟨by simp, hno⟩, seq_core S items _ none none hlen hzip⟩
    | some t =>
      cases t with
      | none =>
        simp only [finishSeq, mkSeq_snoc] at h
        injection h with h; injection h with h1 h2
        subst h1
        exact ⟨rfl, trivial, seq_core S items ms (some none) none hlen hzip⟩
      | some c =>
        simp only [finishSeq, mkSeq_snoc] at h
        split at h
        · contradiction
        injection h with h; injection h with h1 h2
        subst h1
        exact ⟨rfl, trivial, seq_core S items ms (some (some c)) none hlen hzip⟩
theorem items_ok (K : CEnv) (S : Sem) : ∀ (items : Items) (seen : List Str) (ms : Matchers) (seen' : List Str),
    compileItems K items seen = .ok (ms, seen') →
    ms.length = items.length ∧ NoAny ms ∧
      ∀ xs l r, items.length ≤ xs.length → ms.runZip S xs l r = (specItems S items xs l).map (zipRes l r)
  | .nil, seen, ms, seen', h => by
    simp only [compileItems] at h
    injection h with h; injection h with h1 h2
    subst h1
    exact ⟨rfl, trivial, fun xs l r _ => by simp [Matchers.runZip, specItems, Except.map, zipRes]⟩
  | .cons pv cap rest, seen, ms, seen', h => by
    simp only [compileItems] at h
    split at h
    · contradiction
    rename_i m seen1 hv
    split at h
    · contradiction
    rename_i m' seen2 hcap
    split at h
    · contradiction
    rename_i ms2 seen3 hrest
    injection h with h; injection h with h1 h2
    subst h1
    obtain ⟨hname, hkind, hcore⟩ := val_ok K S pv seen m seen1 hv
    obtain ⟨hn', hcore', hk', -, -⟩ := applyCap_spec m cap seen1 m' seen2 (valueKind_seqOk m hkind) hname hcap
    obtain ⟨hlen, hno, hzip⟩ := items_ok K S rest seen2 ms2 seen3 hrest
    refine ⟨by simp [Matchers.length, Items.length, hlen], ⟨valueKind_notAny m' (by rw [hk', hkind]), hno⟩, ?_⟩
    intro xs l r hle
    cases xs with
    | nil => simp [Items.length] at hle
    | cons x xs' =>
      have hle' : rest.length ≤ xs'.length := by simpa [Items.length] using hle
      simp only [Matchers.runZip, specItems]
      rw [hn', hcore' S x l, hcore x l, wrap_map]
      cases hsp : specVal S pv x l with
      | error e => rfl
      | ok o =>
        cases o with
        | none => rfl
        | some c0 =>
          simp only [Except.map, Option.map, specRes]
          rw [hzip xs' _ _ hle']
          cases specItems S rest xs' (Ctx.update l (bindCap cap x c0)) with
          | error e => rfl
          | ok o2 => cases o2 <;> simp [Except.map, zipRes, Ctx.update]
theorem val_ok (K : CEnv) (S : Sem) : ∀ (pv : PVal) (seen : List Str) (m : Matcher) (seen' : List Str),
    compileVal K pv seen = .ok (m, seen') →
    m.name = none ∧ m.isValueKind = true ∧ ∀ v ctx, m.core S v ctx = (specVal S pv v ctx).map specRes
  | .tree p, seen, m, seen', h => by
    simp only [compileVal] at h
    obtain ⟨hn, hk, hc⟩ := pat_ok K S p seen m seen' h
    exact ⟨hn, hk, fun v ctx => by rw [hc]; rfl⟩
  | .var x, seen, m, seen', h => by
    simp only [compileVal] at h
    split at h
    · injection h with h; injection h with h1 h2
      subst h1
      refine ⟨rfl, rfl, fun v ctx => ?_⟩
      simp only [Matcher.core, specVal]
      cases ctx.lookup x with
      | none => rfl
      | some c => cases hv : varEq S c v <;> simp [Except.map, specRes, hv]
    · contradiction
  | .none, seen, m, seen', h => by
    simp only [compileVal] at h
    injection h with h; injection h with h1 h2
    subst h1
    refine ⟨rfl, rfl, fun v ctx => ?_⟩
    simp only [Matcher.core, specVal]
    cases v.isNone <;> simp [Except.map, specRes]
  | .re s, seen, m, seen', h => by
    simp only [compileVal] at h
    split at h
    · injection h with h; injection h with h1 h2
      subst h1
      refine ⟨rfl, rfl, fun v ctx => ?_⟩
      simp only [Matcher.core, specVal]
      cases S.rx s v.strText <;> simp [Except.map, specRes]
    · contradiction
end

/-! ### capture names: keys of the result, uniqueness, variables are always bound -/

theorem keys_update (a b : Ctx) : (Ctx.update a b).keys = b.keys ++ a.keys := by
  simp [Ctx.update, Ctx.keys]

theorem keys_bindCap (cap : Option Str) (v : MVal) (c : Ctx) : (bindCap cap v c).keys = c.keys ++ capOpt cap := by
  cases cap <;> simp [bindCap, Ctx.update, Ctx.keys, capOpt]

theorem keys_tailVars (t : Option Str) (rest : List MVal) : (tailVars t rest).keys = capOpt t := by
  cases t <;> simp [tailVars, Ctx.keys, capOpt]

mutual
theorem pat_keys (S : Sem) : ∀ (p : Pat) (v : MVal) (ctx caps : Ctx),
    specPat S p v ctx = .ok (some caps) → caps.keys = p.capsR
  | .mk cls fields, v, ctx, caps, h => by
    cases v with
    | node n =>
      simp only [specPat] at h
      split at h
      · exact fields_keys S fields n ctx caps h
      · cases h
    | tup xs => simp [specPat] at h
    | atom t a => simp [specPat] at h
    | none => simp [specPat] at h
theorem fields_keys (S : Sem) : ∀ (fs : Fields) (n : Node) (ctx caps : Ctx),
    specFields S fs n ctx = .ok (some caps) → caps.keys = fs.capsR
  | .nil, n, ctx, caps, h => by
    simp only [specFields] at h
    injection h with h; injection h with h; subst h; rfl
  | .cons name spec cap rest, n, ctx, caps, h => by
    simp only [specFields] at h
    split at h
    · cases h
    rename_i fv hg
    split at h
    · cases h
    · cases h
    rename_i c0 h0
    split at h
    · cases h
    · cases h
    rename_i c2 h2
    injection h with h; injection h with h; subst h
    rw [keys_update, keys_bindCap, fields_keys S rest n _ c2 h2, fspec_keys S spec fv ctx c0 h0]
    rfl
theorem fspec_keys (S : Sem) : ∀ (spec : FSpec) (v : MVal) (ctx caps : Ctx),
    specFSpec S spec v ctx = .ok (some caps) → caps.keys = spec.capsR
  | .any, v, ctx, caps, h => by
    simp only [specFSpec] at h
    injection h with h; injection h with h; subst h; rfl
  | .val pv, v, ctx, caps, h => by
    simp only [specFSpec] at h
    exact val_keys S pv v ctx caps h
  | .seq items tail, v, ctx, caps, h => by
    cases v with
    | tup xs =>
      simp only [specFSpec] at h
      cases tail with
      | none =>
        simp only [] at h
        split at h
        · rw [items_keys S items xs ctx caps h]; simp [FSpec.capsR, tailKeys]
        · cases h
      | some t =>
        simp only [] at h
        split at h
        · split at h
          · cases h
          · cases h
          rename_i c hc
          injection h with h; injection h with h; subst h
          rw [keys_update, keys_tailVars, items_keys S items xs ctx c hc]
          cases t <;> simp [FSpec.capsR, tailKeys, capOpt]
        · cases h
    | node n => simp [specFSpec] at h
    | atom t a => simp [specFSpec] at h
    | none => simp [specFSpec] at h
theorem items_keys (S : Sem) : ∀ (items : Items) (xs : List MVal) (ctx caps : Ctx),
    specItems S items xs ctx = .ok (some caps) → caps.keys = items.capsR
  | .nil, xs, ctx, caps, h => by
    simp only [specItems] at h
    injection h with h; injection h with h; subst h; rfl
  | .cons pv cap rest, [], ctx, caps, h => by simp [specItems] at h
  | .cons pv cap rest, x :: xs, ctx, caps, h => by
    simp only [specItems] at h
    split at h
    · cases h
    · cases h
    rename_i c0 h0
    split at h
    · cases h
    · cases h
    rename_i c2 h2
    injection h with h; injection h with h; subst h
    rw [keys_update, keys_bindCap, items_keys S rest xs _ c2 h2, val_keys S pv x ctx c0 h0]
    rfl
theorem val_keys (S : Sem) : ∀ (pv : PVal) (v : MVal) (ctx caps : Ctx),
    specVal S pv v ctx = .ok (some caps) → caps.keys = pv.capsR
  | .tree p, v, ctx, caps, h => by
    simp only [specVal] at h
    exact pat_keys S p v ctx caps h
  | .var x, v, ctx, caps, h => by
    simp only [specVal] at h
    split at h
    · cases h
    · split at h
      · injection h with h; injection h with h; subst h; rfl
      · cases h
  | .none, v, ctx, caps, h => by
    simp only [specVal] at h
    split at h
    · injection h with h; injection h with h; subst h; rfl
    · cases h
  | .re s, v, ctx, caps, h => by
    simp only [specVal] at h
    split at h
    · injection h with h; injection h with h; subst h; rfl
    · cases h
end

theorem tailKeys_eq (tail : Option (Option Str)) :
    tailKeys tail = (match tail with | some t => capOpt t | none => []) := by
  cases tail with
  | none => rfl
  | some t => cases t <;> rfl

mutual
theorem pat_perm : ∀ p : Pat, p.capsR.Perm p.caps
  | .mk _ fields => by simpa [Pat.capsR, Pat.caps] using fields_perm fields
theorem fields_perm : ∀ fs : Fields, fs.capsR.Perm fs.caps
  | .nil => by simp [Fields.capsR, Fields.caps]
  | .cons _ spec cap rest => by
    simp only [Fields.capsR, Fields.caps]
    have h1 := fspec_perm spec
    have h2 := fields_perm rest
    exact List.perm_append_comm.trans (by simpa [List.append_assoc] using (h1.append_right (capOpt cap)).append h2)
theorem fspec_perm : ∀ spec : FSpec, spec.capsR.Perm spec.caps
  | .any => by simp [FSpec.capsR, FSpec.caps]
  | .val v => by simpa [FSpec.capsR, FSpec.caps] using val_perm v
  | .seq items tail => by
    simp only [FSpec.capsR, FSpec.caps, tailKeys_eq]
    exact List.perm_append_comm.trans ((items_perm items).append_right _)
theorem items_perm : ∀ items : Items, items.capsR.Perm items.caps
  | .nil => by simp [Items.capsR, Items.caps]
  | .cons v cap rest => by
    simp only [Items.capsR, Items.caps]
    have h1 := val_perm v
    have h2 := items_perm rest
    exact List.perm_append_comm.trans (by simpa [List.append_assoc] using (h1.append_right (capOpt cap)).append h2)
theorem val_perm : ∀ pv : PVal, pv.capsR.Perm pv.caps
  | .tree p => by simpa [PVal.capsR, PVal.caps] using pat_perm p
  | .var _ => by simp [PVal.capsR, PVal.caps]
  | .none => by simp [PVal.capsR, PVal.caps]
  | .re _ => by simp [PVal.capsR, PVal.caps]
end

theorem capOpt_reverse (c : Option Str) : (capOpt c).reverse = capOpt c := by
  cases c <;> rfl

/-- what `applyCap` does to `_captures_seen` -/
theorem applyCap_seen (m : Matcher) (cap : Option Str) (seen : List Str) (m' : Matcher) (seen' : List Str)
    (h : applyCap m cap seen = .ok (m', seen')) :
    seen' = capOpt cap ++ seen ∧ (seen.Nodup → seen'.Nodup) := by
  cases cap with
  | none =>
    simp only [applyCap] at h
    injection h with h; injection h with h1 h2
    subst h2
    exact ⟨rfl, id⟩
  | some c =>
    simp only [applyCap, checkCap, List.contains_iff_mem] at h
    by_cases hc : c ∈ seen
    · simp [hc] at h
    · simp only [hc, if_false] at h
      split at h
      · cases h
      · injection h with h; injection h with h1 h2
        subst h2
        exact ⟨rfl, fun hn => by simp [hc, hn]⟩

theorem finishSeq_seen (ms : Matchers) (tail : Option (Option Str)) (seen : List Str) (m : Matcher) (seen' : List Str)
    (h : finishSeq ms tail seen = .ok (m, seen')) :
    seen' = tailKeys tail ++ seen ∧ (seen.Nodup → seen'.Nodup) := by
  cases tail with
  | none =>
    simp only [finishSeq] at h
    split at h
    · injection h with h; injection h with h1 h2; subst h2; exact ⟨rfl, id⟩
    · split at h
      · cases h
      · injection h with h; injection h with h1 h2; subst h2; exact ⟨rfl, id⟩
  | some t =>
    cases t with
    | none =>
      simp only [finishSeq] at h
      split at h
      · cases h
      · injection h with h; injection h with h1 h2; subst h2; exact ⟨rfl, id⟩
    | some c =>
      simp only [finishSeq, checkCap, List.contains_iff_mem] at h
      by_cases hc : c ∈ seen
      · simp [hc] at h
      · simp only [hc, if_false] at h
        split at h
        · cases h
        · injection h with h; injection h with h1 h2
          subst h2
          exact ⟨rfl, fun hn => by simp [hc, hn]⟩

/-! the interpreter's `_captures_seen` after a construct = its capture names (text order, newest
first) in front of what was seen before; it never holds a name twice -/
mutual
theorem pat_seen (K : CEnv) : ∀ (p : Pat) (seen : List Str) (m : Matcher) (seen' : List Str),
    compilePat K p seen = .ok (m, seen') → seen' = p.caps.reverse ++ seen ∧ (seen.Nodup → seen'.Nodup)
  | .mk cls fields, seen, m, seen', h => by
    simp only [compilePat] at h
    split at h
    · cases h
    split at h
    · cases h
    rename_i content seen2 hf
    injection h with h; injection h with h1 h2
    subst h2
    exact fields_seen K fields seen content seen2 hf
theorem fields_seen (K : CEnv) : ∀ (fs : Fields) (seen : List Str) (c : Content) (seen' : List Str),
    compileFields K fs seen = .ok (c, seen') → seen' = fs.caps.reverse ++ seen ∧ (seen.Nodup → seen'.Nodup)
  | .nil, seen, c, seen', h => by
    simp only [compileFields] at h
    injection h with h; injection h with h1 h2
    subst h2
    exact ⟨rfl, id⟩
  | .cons name spec cap rest, seen, c, seen', h => by
    simp only [compileFields] at h
    split at h
    · cases h
    rename_i m seen1 hs
    split at h
    · cases h
    rename_i m' seen2 hcap
    split at h
    · cases h
    rename_i c2 seen3 hrest
    injection h with h; injection h with h1 h2
    subst h2
    obtain ⟨e1, n1⟩ := fspec_seen K spec seen m seen1 hs
    obtain ⟨e2, n2⟩ := applyCap_seen m cap seen1 m' seen2 hcap
    obtain ⟨e3, n3⟩ := fields_seen K rest seen2 c2 seen3 hrest
    refine ⟨?_, fun hn => n3 (n2 (n1 hn))⟩
    rw [e3, e2, e1]
    simp [Fields.caps, List.reverse_append, capOpt_reverse, List.append_assoc]
theorem fspec_seen (K : CEnv) : ∀ (spec : FSpec) (seen : List Str) (m : Matcher) (seen' : List Str),
    compileFSpec K spec seen = .ok (m, seen') → seen' = spec.caps.reverse ++ seen ∧ (seen.Nodup → seen'.Nodup)
  | .any, seen, m, seen', h => by
    simp only [compileFSpec] at h
    injection h with h; injection h with h1 h2
    subst h2
    exact ⟨rfl, id⟩
  | .val pv, seen, m, seen', h => by
    simp only [compileFSpec] at h
    exact val_seen K pv seen m seen' h
  | .seq items tail, seen, m, seen', h => by
    simp only [compileFSpec] at h
    split at h
    · cases h
    rename_i ms seen1 hi
    obtain ⟨e1, n1⟩ := items_seen K items seen ms seen1 hi
    obtain ⟨e2, n2⟩ := finishSeq_seen ms tail seen1 m seen' h
    refine ⟨?_, fun hn => n2 (n1 hn)⟩
    rw [e2, e1, tailKeys_eq]
    cases tail with
    | none => simp [FSpec.caps]
    | some t => simp [FSpec.caps, List.reverse_append, capOpt_reverse, List.append_assoc]
theorem items_seen (K : CEnv) : ∀ (items : Items) (seen : List Str) (ms : Matchers) (seen' : List Str),
    compileItems K items seen = .ok (ms, seen') → seen' = items.caps.reverse ++ seen ∧ (seen.Nodup → seen'.Nodup)
  | .nil, seen, ms, seen', h => by
    simp only [compileItems] at h
    injection h with h; injection h with h1 h2
    subst h2
    exact ⟨rfl, id⟩
  | .cons pv cap rest, seen, ms, seen', h => by
    simp only [compileItems] at h
    split at h
    · cases h
    rename_i m seen1 hv
    split at h
    · cases h
    rename_i m' seen2 hcap
    split at h
    · cases h
    rename_i ms2 seen3 hrest
    injection h with h; injection h with h1 h2
    subst h2
    obtain ⟨e1, n1⟩ := val_seen K pv seen m seen1 hv
    obtain ⟨e2, n2⟩ := applyCap_seen m cap seen1 m' seen2 hcap
    obtain ⟨e3, n3⟩ := items_seen K rest seen2 ms2 seen3 hrest
    refine ⟨?_, fun hn => n3 (n2 (n1 hn))⟩
    rw [e3, e2, e1]
    simp [Items.caps, List.reverse_append, capOpt_reverse, List.append_assoc]
theorem val_seen (K : CEnv) : ∀ (pv : PVal) (seen : List Str) (m : Matcher) (seen' : List Str),
    compileVal K pv seen = .ok (m, seen') → seen' = pv.caps.reverse ++ seen ∧ (seen.Nodup → seen'.Nodup)
  | .tree p, seen, m, seen', h => by
    simp only [compileVal] at h
    exact pat_seen K p seen m seen' h
  | .var x, seen, m, seen', h => by
    simp only [compileVal] at h
    split at h
    · injection h with h; injection h with h1 h2; subst h2; exact ⟨rfl, id⟩
    · cases h
  | .none, seen, m, seen', h => by
    simp only [compileVal] at h
    injection h with h; injection h with h1 h2; subst h2; exact ⟨rfl, id⟩
  | .re s, seen, m, seen', h => by
    simp only [compileVal] at h
    split at h
    · injection h with h; injection h with h1 h2; subst h2; exact ⟨rfl, id⟩
    · cases h
end

theorem lookup_of_mem_keys : ∀ (ctx : Ctx) (x : Str), x ∈ ctx.keys → ∃ c, ctx.lookup x = some c
  | [], x, h => by simp [Ctx.keys] at h
  | (k, v) :: es, x, h => by
    simp only [List.lookup]
    cases hxk : x == k with
    | true => exact ⟨v, rfl⟩
    | false =>
      simp only [Ctx.keys, List.map_cons, List.mem_cons] at h
      rcases h with h | h
      · subst h; simp at hxk
      · exact lookup_of_mem_keys es x h

theorem inv_step (seen seen1 seen2 caps capsR : List Str) (cap : Option Str) (ctx c0 : Ctx) (fv : MVal)
    (e1 : seen1 = caps.reverse ++ seen) (e2 : seen2 = capOpt cap ++ seen1) (hk : c0.keys = capsR)
    (hp : capsR.Perm caps) (hinv : ∀ y ∈ seen, y ∈ ctx.keys) :
    ∀ y ∈ seen2, y ∈ (Ctx.update ctx (bindCap cap fv c0)).keys := by
  intro y hy
  rw [keys_update, keys_bindCap, hk]
  subst e2; subst e1
  simp only [List.mem_append, List.mem_reverse] at hy ⊢
  rcases hy with h | h | h
  · exact Or.inl (Or.inr h)
  · exact Or.inl (Or.inl (hp.mem_iff.mpr h))
  · exact Or.inr (hinv y h)

/-! a pattern the interpreter accepts never meets an unbound variable at match time: the
specification (hence, by `run_eq_spec`, the matcher) has no definition error -/
mutual
theorem pat_total (K : CEnv) (S : Sem) : ∀ (p : Pat) (seen : List Str) (m : Matcher) (seen' : List Str),
    compilePat K p seen = .ok (m, seen') → ∀ v ctx, (∀ y ∈ seen, y ∈ ctx.keys) → ∃ r, specPat S p v ctx = .ok r
  | .mk cls fields, seen, m, seen', h => by
    simp only [compilePat] at h
    split at h
    · cases h
    split at h
    · cases h
    rename_i content seen2 hf
    intro v ctx hinv
    cases v with
    | node n =>
      simp only [specPat]
      split
      · exact fields_total K S fields seen content seen2 hf n ctx hinv
      · exact ⟨_, rfl⟩
    | tup xs => exact ⟨_, rfl⟩
    | atom t a => exact ⟨_, rfl⟩
    | none => exact ⟨_, rfl⟩
theorem fields_total (K : CEnv) (S : Sem) : ∀ (fs : Fields) (seen : List Str) (c : Content) (seen' : List Str),
    compileFields K fs seen = .ok (c, seen') → ∀ n ctx, (∀ y ∈ seen, y ∈ ctx.keys) → ∃ r, specFields S fs n ctx = .ok r
  | .nil, seen, c, seen', h => fun n ctx _ => ⟨_, rfl⟩
  | .cons name spec cap rest, seen, c, seen', h => by
    simp only [compileFields] at h
    split at h
    · cases h
    rename_i m seen1 hs
    split at h
    · cases h
    rename_i m' seen2 hcap
    split at h
    · cases h
    rename_i c2 seen3 hrest
    intro n ctx hinv
    simp only [specFields]
    cases hg : getField n name with
    | none => exact ⟨_, rfl⟩
    | some fv =>
      obtain ⟨r0, hr0⟩ := fspec_total K S spec seen m seen1 hs fv ctx hinv
      simp only [hr0]
      cases r0 with
      | none => exact ⟨_, rfl⟩
      | some c0 =>
        have hinv2 := inv_step seen seen1 seen2 spec.caps spec.capsR cap ctx c0 fv
          (fspec_seen K spec seen m seen1 hs).1 (applyCap_seen m cap seen1 m' seen2 hcap).1
          (fspec_keys S spec fv ctx c0 hr0) (fspec_perm spec) hinv
        obtain ⟨r2, hr2⟩ := fields_total K S rest seen2 c2 seen3 hrest n _ hinv2
        simp only [hr2]
        cases r2 <;> exact ⟨_, rfl⟩
theorem fspec_total (K : CEnv) (S : Sem) : ∀ (spec : FSpec) (seen : List Str) (m : Matcher) (seen' : List Str),
    compileFSpec K spec seen = .ok (m, seen') → ∀ v ctx, (∀ y ∈ seen, y ∈ ctx.keys) → ∃ r, specFSpec S spec v ctx = .ok r
  | .any, seen, m, seen', h => fun v ctx _ => ⟨_, rfl⟩
  | .val pv, seen, m, seen', h => by
    simp only [compileFSpec] at h
    intro v ctx hinv
    simp only [specFSpec]
    exact val_total K S pv seen m seen' h v ctx hinv
  | .seq items tail, seen, m, seen', h => by
    simp only [compileFSpec] at h
    split at h
    · cases h
    rename_i ms seen1 hi
    intro v ctx hinv
    cases v with
    | tup xs =>
      obtain ⟨r0, hr0⟩ := items_total K S items seen ms seen1 hi xs ctx hinv
      simp only [specFSpec]
      cases tail with
      | none =>
        simp only []
        split
        · exact ⟨_, hr0⟩
        · exact ⟨_, rfl⟩
      | some t =>
        simp only [hr0]
        split
        · cases r0 <;> exact ⟨_, rfl⟩
        · exact ⟨_, rfl⟩
    | node n => exact ⟨_, rfl⟩
    | atom t a => exact ⟨_, rfl⟩
    | none => exact ⟨_, rfl⟩
theorem items_total (K : CEnv) (S : Sem) : ∀ (items : Items) (seen : List Str) (ms : Matchers) (seen' : List Str),
    compileItems K items seen = .ok (ms, seen') → ∀ xs ctx, (∀ y ∈ seen, y ∈ ctx.keys) → ∃ r, specItems S items xs ctx = .ok r
  | .nil, seen, ms, seen', h => fun xs ctx _ => ⟨_, rfl⟩
  | .cons pv cap rest, seen, ms, seen', h => by
    simp only [compileItems] at h
    split at h
    · cases h
    rename_i m seen1 hv
    split at h
    · cases h
    rename_i m' seen2 hcap
    split at h
    · cases h
    rename_i ms2 seen3 hrest
    intro xs ctx hinv
    cases xs with
    | nil => exact ⟨_, rfl⟩
    | cons x xs' =>
      simp only [specItems]
      obtain ⟨r0, hr0⟩ := val_total K S pv seen m seen1 hv x ctx hinv
      simp only [hr0]
      cases r0 with
      | none => exact ⟨_, rfl⟩
      | some c0 =>
        have hinv2 := inv_step seen seen1 seen2 pv.caps pv.capsR cap ctx c0 x
          (val_seen K pv seen m seen1 hv).1 (applyCap_seen m cap seen1 m' seen2 hcap).1
          (val_keys S pv x ctx c0 hr0) (val_perm pv) hinv
        obtain ⟨r2, hr2⟩ := items_total K S rest seen2 ms2 seen3 hrest xs' _ hinv2
        simp only [hr2]
        cases r2 <;> exact ⟨_, rfl⟩
theorem val_total (K : CEnv) (S : Sem) : ∀ (pv : PVal) (seen : List Str) (m : Matcher) (seen' : List Str),
    compileVal K pv seen = .ok (m, seen') → ∀ v ctx, (∀ y ∈ seen, y ∈ ctx.keys) → ∃ r, specVal S pv v ctx = .ok r
  | .tree p, seen, m, seen', h => by
    simp only [compileVal] at h
    intro v ctx hinv
    simp only [specVal]
    exact pat_total K S p seen m seen' h v ctx hinv
  | .var x, seen, m, seen', h => by
    simp only [compileVal] at h
    split at h
    · rename_i hx
      intro v ctx hinv
      obtain ⟨c, hc⟩ := lookup_of_mem_keys ctx x (hinv x (by simpa using hx))
      simp only [specVal, hc]
      exact ⟨_, rfl⟩
    · cases h
  | .none, seen, m, seen', h => fun v ctx _ => ⟨_, rfl⟩
  | .re s, seen, m, seen', h => fun v ctx _ => ⟨_, rfl⟩
end

/-! ### C08, main statements -/

/-- **model = specification.**  For every pattern the interpreter accepts, every value and every
context, `matcher.match(value, ctx)` returns exactly what the documented semantics prescribes:
`(True, captures)` on a match — the captures being the very objects (`MVal.node n` carries the
node's identity `uid`) —, `(False, {})` on a mismatch, and the definition error where the
specification has one. -/
theorem run_eq_spec (K : CEnv) (S : Sem) (p : Pat) (m : Matcher) (h : compile K p = .ok m)
    (v : MVal) (ctx : Ctx) : m.run S v ctx = (specPat S p v ctx).map specRes := by
  simp only [compile] at h
  split at h
  · contradiction
  rename_i m' seen' hc
  injection h with h
  subst h
  obtain ⟨hn, -, hcore⟩ := pat_ok K S p [] m' seen' hc
  simp only [Matcher.run, hn, hcore, wrap_map]
  cases specPat S p v ctx with
  | error e => rfl
  | ok o => cases o <;> rfl

/-- `NodeMatcher.from_pattern(text)[0].match(node)` -/
theorem match_eq_spec (K : CEnv) (S : Sem) (p : Pat) (m : Matcher) (h : compile K p = .ok m) (n : Node) :
    matchNode S m n = (specMatch S p n).map specRes :=
  run_eq_spec K S p m h (.node n) []

/-- success with captures `caps` exactly when the specification matches with `caps` -/
theorem match_iff (K : CEnv) (S : Sem) (p : Pat) (m : Matcher) (h : compile K p = .ok m) (n : Node) (caps : Ctx) :
    matchNode S m n = .ok (true, caps) ↔ specMatch S p n = .ok (some caps) := by
  rw [match_eq_spec K S p m h n]
  cases specMatch S p n with
  | error e => simp [Except.map]
  | ok o => cases o <;> simp [Except.map, specRes]

/-- a failed match returns the empty capture dict (any matcher, any value, any context) -/
theorem fail_empty (S : Sem) (m : Matcher) (v : MVal) (ctx caps : Ctx)
    (h : m.run S v ctx = .ok (false, caps)) : caps = [] := by
  simp only [Matcher.run, wrap] at h
  split at h
  · contradiction
  · injection h with h; injection h with _ h; exact h.symm
  · split at h <;> (injection h with h; injection h with h _; cases h)

/-- `multiMatch` over compiled rules = `specMulti` over their patterns -/
theorem multi_eq_spec (K : CEnv) (S : Sem) (defs : List (Str × Pat)) (tbl : List (Str × Matcher))
    (htbl : ∀ r, match defs.lookup r, tbl.lookup r with
      | some p, some m => compile K p = .ok m
      | none, none => True
      | _, _ => False)
    (order : List Str) (n : Node) :
    multiMatch S tbl order n = specMulti S defs order n := by
  induction order with
  | nil => rfl
  | cons r rest ih =>
    simp only [multiMatch, specMulti]
    have := htbl r
    cases hd : defs.lookup r with
    | none => cases ht : tbl.lookup r with
      | none => rfl
      | some m => simp [hd, ht] at this
    | some p => cases ht : tbl.lookup r with
      | none => simp [hd, ht] at this
      | some m =>
        simp only [hd, ht] at this
        simp only [match_eq_spec K S p m this n]
        cases specMatch S p n with
        | error e => rfl
        | ok o => cases o with
          | none => simp only [Except.map, specRes]; exact ih
          | some c => rfl

/-- **first matching rule in the given order**: the result is rule `r` with captures `caps` exactly
when `r`'s pattern matches with `caps` and every rule listed before it does not match -/
theorem multi_first (S : Sem) (defs : List (Str × Pat)) (order : List Str) (n : Node) (r : Str) (caps : Ctx) :
    specMulti S defs order n = .ok (some (r, caps)) ↔
      ∃ pre post, order = pre ++ r :: post
        ∧ (∀ q ∈ pre, ∃ p, defs.lookup q = some p ∧ specMatch S p n = .ok none)
        ∧ ∃ p, defs.lookup r = some p ∧ specMatch S p n = .ok (some caps) := by
  induction order with
  | nil => simp [specMulti]
  | cons q rest ih =>
    -- what the head rule does
    have key : ∀ (pre post : List Str), q :: rest = pre ++ r :: post →
        (pre = [] ∧ q = r ∧ rest = post) ∨ (∃ pre', pre = q :: pre' ∧ rest = pre' ++ r :: post) := by
      intro pre post ho
      cases pre with
      | nil => simp at ho; exact Or.inl ⟨rfl, ho.1, ho.2⟩
      | cons a pre' => simp at ho; exact Or.inr ⟨pre', by rw [ho.1], ho.2⟩
    cases hd : defs.lookup q with
    | none =>
      simp only [specMulti, hd]
      constructor
      · intro h; cases h
      · rintro ⟨pre, post, ho, hpre, p, hp, hm⟩
        rcases key pre post ho with ⟨-, hq, -⟩ | ⟨pre', hp', -⟩
        · rw [← hq, hd] at hp; cases hp
        · obtain ⟨p', hp2, -⟩ := hpre q (by simp [hp'])
          rw [hd] at hp2; cases hp2
    | some p =>
      cases hs : specMatch S p n with
      | error e =>
        simp only [specMulti, hd, hs]
        constructor
        · intro h; cases h
        · rintro ⟨pre, post, ho, hpre, p2, hp2, hm⟩
          rcases key pre post ho with ⟨-, hq, -⟩ | ⟨pre', hp', -⟩
          · rw [← hq, hd] at hp2; injection hp2 with hp2; subst hp2; rw [hs] at hm; cases hm
          · obtain ⟨p', hp3, hm'⟩ := hpre q (by simp [hp'])
            rw [hd] at hp3; injection hp3 with hp3; subst hp3; rw [hs] at hm'; cases hm'
      | ok o =>
        cases o with
        | some c =>
          simp only [specMulti, hd, hs]
          constructor
          · intro h
            injection h with h; injection h with h; injection h with h1 h2
            subst h1; subst h2
            exact ⟨[], rest, rfl, by simp, p, hd, hs⟩
          · rintro ⟨pre, post, ho, hpre, p2, hp2, hm⟩
            rcases key pre post ho with ⟨-, hq, -⟩ | ⟨pre', hp', -⟩
            · rw [← hq, hd] at hp2; injection hp2 with hp2; subst hp2
              rw [hs] at hm; injection hm with hm; injection hm with hm; subst hm
              rw [hq]
            · obtain ⟨p', hp3, hm'⟩ := hpre q (by simp [hp'])
              rw [hd] at hp3; injection hp3 with hp3; subst hp3; rw [hs] at hm'; cases hm'
        | none =>
          simp only [specMulti, hd, hs]
          rw [ih]
          constructor
          · rintro ⟨pre, post, ho, hpre, hr⟩
            refine ⟨q :: pre, post, by simp [ho], ?_, hr⟩
            intro x hx
            cases hx with
            | head => exact ⟨p, hd, hs⟩
            | tail _ hx => exact hpre x hx
          · rintro ⟨pre, post, ho, hpre, p2, hp2, hm⟩
            rcases key pre post ho with ⟨-, hq, -⟩ | ⟨pre', hp', hrest⟩
            · rw [← hq, hd] at hp2; injection hp2 with hp2; subst hp2
              rw [hs] at hm; cases hm
            · exact ⟨pre', post, hrest, fun x hx => hpre x (by simp [hp', hx]), p2, hp2, hm⟩

/-- **no unbound variable at match time**: for an accepted pattern the specification (and so the
matcher) never ends in the definition error -/
theorem no_unbound (K : CEnv) (S : Sem) (p : Pat) (m : Matcher) (h : compile K p = .ok m) (n : Node) :
    ∃ r, specMatch S p n = .ok r ∧ matchNode S m n = .ok (specRes r) := by
  have hm := match_eq_spec K S p m h n
  simp only [compile] at h
  split at h
  · contradiction
  rename_i m' seen' hc
  obtain ⟨r, hr⟩ := pat_total K S p [] m' seen' hc (.node n) [] (by simp)
  exact ⟨r, hr, by rw [hm]; simp only [specMatch] at hr ⊢; rw [hr]; rfl⟩

/-- the capture names of an accepted pattern are pairwise distinct, and a successful match binds
exactly these names, each once (so the association list *is* a dict: nothing is shadowed) -/
theorem caps_nodup (K : CEnv) (S : Sem) (p : Pat) (m : Matcher) (h : compile K p = .ok m) (n : Node) (caps : Ctx)
    (hs : specMatch S p n = .ok (some caps)) :
    p.caps.Nodup ∧ caps.keys.Nodup ∧ caps.keys.Perm p.caps := by
  simp only [compile] at h
  split at h
  · contradiction
  rename_i m' seen' hc
  obtain ⟨e, hn⟩ := pat_seen K p [] m' seen' hc
  have hnd : p.caps.Nodup := by
    have := hn List.nodup_nil
    rw [e, List.append_nil] at this
    exact (List.reverse_perm p.caps).nodup_iff.mp this
  have hk := pat_keys S p (.node n) [] caps hs
  have hp := pat_perm p
  exact ⟨hnd, by rw [hk]; exact hp.nodup_iff.mpr hnd, by rw [hk]; exact hp⟩

/-- **captures are the very objects matched** (unfolding of the specification for one field spec):
`@f=… -> c` binds `c` to the value stored in field `f` itself, a sequence element's capture binds the
element itself, and the capture after `*` binds the tuple of the remaining elements -/
theorem captures_exact (S : Sem) (n : Node) (f c : Str) (fv : MVal) (ctx : Ctx) (hf : getField n f = some fv) :
    specFields S (.cons f .any (some c) .nil) n ctx = .ok (some [(c, fv)])
    ∧ (∀ xs t, specFSpec S (.seq .nil (some (some t))) (.tup xs) ctx = .ok (some [(t, .tup xs)]))
    ∧ (∀ x xs t, specFSpec S (.seq (.cons (.tree (.mk .any .nil)) (some c) .nil) (some (some t))) (.tup (.node x :: xs)) ctx
        = .ok (some [(t, .tup xs), (c, .node x)])) := by
  refine ⟨by simp [specFields, hf, specFSpec, bindCap, Ctx.update], ?_, ?_⟩
  · intro xs t
    simp [specFSpec, specItems, Items.length, tailVars, Ctx.update]
  · intro x xs t
    simp [specFSpec, specItems, specVal, specPat, classOk, specFields, Items.length, tailVars, Ctx.update, bindCap]

/-- F8 (repaired): `replace(SequenceMatcher, name=…)` keeps the tail -/
theorem setName_keeps_tail (nm : Option Str) (ms : Matchers) (t : Option Str) (c : Str) :
    (Matcher.seq nm ms (some t)).setName c = .ok (.seq (some c) ms (some t)) := rfl

/-- F7 (repaired): a sequence with a `*` tail needs at least as many elements as it lists -/
theorem tail_length_exact (S : Sem) (nm : Option Str) (ms : Matchers) (t : Option Str) (xs : List MVal) (ctx : Ctx)
    (h : xs.length < ms.length) : (Matcher.seq nm ms (some t)).run S (.tup xs) ctx = .ok (false, []) := by
  simp [Matcher.run, Matcher.core, h, wrap]

/-! ### non-vacuity: concrete patterns, nodes and parameters -/
section Examples

def exK : CEnv := { cls := fun c => if c = ['L'] ∨ c = ['T'] then .node else .unknown, rxOk := fun _ => true }
def exS : Sem := { rx := fun p t => p.isPrefixOf t, ceq := fun a b => a.cls == b.cls, neq := fun a b => a.uid == b.uid,
                   aeq := fun _ _ => false }
def exLeaf (u : Nat) : Node := .mk { uid := u, cls := ['L'], mro := [['L']], org := ⟨0, []⟩, props := [], truthy := true } []
def exTup (ns : List Node) : Node :=
  .mk { uid := 0, cls := ['T'], mro := [['T']], org := ⟨0, []⟩, props := [], truthy := true } [.mk ['i'] true ns]
def leafP : PVal := .tree (.mk (.names ['L'] []) .nil)
/-- `(T @i=[(L) (L) *])` -/
def exP7 : Pat := .mk (.names ['T'] []) (.cons ['i'] (.seq (.cons leafP none (.cons leafP none .nil)) (some none)) none .nil)
/-- `(T @i=[*] -> c)` -/
def exP8 : Pat := .mk (.names ['T'] []) (.cons ['i'] (.seq .nil (some none)) (some ['c']) .nil)
/-- `(T @i=[(L) -> a $a * -> r])` -/
def exP9 : Pat := .mk (.names ['T'] [])
  (.cons ['i'] (.seq (.cons leafP (some ['a']) (.cons (.var ['a']) none .nil)) (some (some ['r']))) none .nil)

def okTrue : Res → Bool
  | .ok (true, _) => true
  | _ => false
def okFalse : Res → Bool
  | .ok (false, []) => true
  | _ => false
def capKeys : Res → List Str
  | .ok (_, c) => c.keys
  | _ => []

example : ∃ m, compile exK exP7 = .ok m ∧ okFalse (matchNode exS m (exTup [exLeaf 1])) = true
    ∧ okTrue (matchNode exS m (exTup [exLeaf 1, exLeaf 2])) = true := ⟨_, rfl, by decide, by decide⟩
example : ∃ m, compile exK exP8 = .ok m ∧ okTrue (matchNode exS m (exTup [exLeaf 1, exLeaf 2])) = true
    ∧ capKeys (matchNode exS m (exTup [exLeaf 1, exLeaf 2])) = [['c']] := ⟨_, rfl, by decide, by decide⟩
example : ∃ m, compile exK exP9 = .ok m
    ∧ capKeys (matchNode exS m (exTup [exLeaf 1, exLeaf 2, exLeaf 3])) = [['r'], ['a']]
    ∧ okFalse (matchNode exS m (exTup [exLeaf 1])) = true := ⟨_, rfl, by decide, by decide⟩
-- a variable used before its capture, a repeated capture name, an unknown class are rejected
example : compile exK (.mk .any (.cons ['i'] (.val (.var ['a'])) none .nil)) = .error .unboundVar := rfl
example : compile exK (.mk .any (.cons ['i'] .any (some ['a']) (.cons ['j'] .any (some ['a']) .nil))) = .error .dupCapture := rfl
example : compile exK (.mk (.names ['X'] []) .nil) = .error .unknownClass := rfl
-- the hypotheses of `multi_eq_spec` / `multi_first` are satisfiable
example : (match specMulti exS [(['p'], exP7), (['q'], exP8)] [['p'], ['q']] (exTup [exLeaf 1]) with
    | .ok (some (r, c)) => (r, c.keys)
    | _ => ([], [])) = (['q'], [['c']]) := by decide

end Examples

end C08
end PyOak
