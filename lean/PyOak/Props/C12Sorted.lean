/- C12, part 4: the order used under `sort_keys=True` is *the* name order; the sorted variant is the unsorted variant
   sorted by field name; `to_properties_dict`. -/
import PyOak.Props.C12Acc
namespace PyOak
namespace Acc
namespace C12

/-! ## F. name order -/

/-- the order used under `sort_keys=True` is *the* name order of the fields -/
theorem ordered_isNameOrder (ds : List FDecl) : IsNameOrder (ordered true ds) ds :=
  ⟨sortByName_perm FDecl.name ds, sortByName_pairwise FDecl.name ds⟩

/-- … and name order is unique when the names are pairwise distinct (as the fields of a class are) -/
theorem nameOrder_unique (out₁ out₂ ds : List FDecl) (hn : (ds.map FDecl.name).Nodup)
    (h₁ : IsNameOrder out₁ ds) (h₂ : IsNameOrder out₂ ds) : out₁ = out₂ := by
  apply keyOrder_unique FDecl.name out₁ out₂ (h₁.1.trans h₂.1.symm) h₁.2 h₂.2
  exact (List.Perm.nodup_iff (h₁.1.map FDecl.name)).mpr hn

theorem nodup_filter_names (ds : List FDecl) (p : FDecl → Bool) (hn : (ds.map FDecl.name).Nodup) :
    ((ds.filter p).map FDecl.name).Nodup :=
  List.Pairwise.sublist (List.Sublist.map _ List.filter_sublist) hn

/-- filtering commutes with sorting by (pairwise distinct) names -/
theorem filter_sortByName (ds : List FDecl) (p : FDecl → Bool) (hn : (ds.map FDecl.name).Nodup) :
    (sortByName FDecl.name ds).filter p = sortByName FDecl.name (ds.filter p) := by
  apply keyOrder_unique FDecl.name
  · exact ((sortByName_perm FDecl.name ds).filter p).trans (sortByName_perm FDecl.name _).symm
  · exact List.Pairwise.sublist List.filter_sublist (sortByName_pairwise FDecl.name ds)
  · exact sortByName_pairwise FDecl.name _
  · apply nodup_filter_names
    exact (List.Perm.nodup_iff ((sortByName_perm FDecl.name ds).map FDecl.name)).mpr hn

theorem props_names_nodup (c : ClassDecl) : ((c.fields.filter FDecl.isProp).map FDecl.name).Nodup :=
  nodup_filter_names _ _ (fields_names_nodup c)

/-- **sorted variant = the unsorted variant sorted by field name** (fields) -/
theorem property_fields_sorted (c : ClassDecl) (fl : Flags) :
    specPropertyFields c fl true = sortByName FDecl.name (specPropertyFields c fl false) := by
  simp only [specPropertyFields, ordered, if_true, Bool.false_eq_true, if_false]
  exact filter_sortByName _ _ (props_names_nodup c)

/-- **`get_properties(sort_keys=True)` = `sorted(get_properties(), key=field name)`** -/
theorem get_properties_sorted (c : ClassDecl) (i : Inst) (fl : Flags) :
    getProperties c i fl true = sortByName (fun p => p.2.name) (getProperties c i fl false) := by
  rw [get_properties_eq_spec, get_properties_eq_spec]
  unfold specProperties
  rw [property_fields_sorted, sortByName_map]

/-- the fields yielded under `sort_keys=True` are the name order of the static result -/
theorem get_properties_sorted_fields (c : ClassDecl) (i : Inst) (fl : Flags) :
    IsNameOrder ((getProperties c i fl true).map (·.2)) (getPropertyFields c fl) := by
  rw [get_properties_eq_spec, get_property_fields_eq_spec]
  simp only [specProperties, List.map_map, Function.comp_def, List.map_id']
  rw [property_fields_sorted]
  exact ⟨sortByName_perm _ _, sortByName_pairwise _ _⟩

/-- sorted and unsorted `get_child_nodes_with_field` enumerate the same positions -/
theorem child_nodes_sorted_perm (c : ClassDecl) (i : Inst) :
    (getChildNodesWithField c i true).Perm (getChildNodesWithField c i false) := by
  rw [get_child_nodes_with_field_eq_spec, get_child_nodes_with_field_eq_spec]
  unfold specChildNodesWithField
  exact List.Perm.flatMap_right _ (sortByName_perm FDecl.name _)

/-! ## G. `to_properties_dict` -/

theorem foldl_dictPut (l : List FDecl) (i : Inst) (acc : List (Str × FVal))
    (hn : (l.map FDecl.name).Nodup) (hd : ∀ d ∈ l, ∀ e ∈ acc, e.1 ≠ d.name) :
    (l.map fun d => (i.get d.name, d)).foldl (fun d (p : FVal × FDecl) => dictPut d p.2.name p.1) acc
      = acc ++ l.map fun d => (d.name, i.get d.name) := by
  induction l generalizing acc with
  | nil => simp
  | cons d r ih =>
    simp only [List.map_cons, List.foldl_cons]
    simp only [List.map_cons, List.nodup_cons, List.mem_map, not_exists, not_and] at hn
    have hput : dictPut acc d.name (i.get d.name) = acc ++ [(d.name, i.get d.name)] := by
      have : ∀ e ∈ acc, e.1 ≠ d.name := hd d (by simp)
      clear ih hd
      induction acc with
      | nil => rfl
      | cons e t iht =>
        simp only [dictPut, this e (by simp), if_false, List.cons_append]
        rw [iht (fun x hx => this x (by simp [hx]))]
    rw [hput, ih _ hn.2]
    · simp
    · intro x hx e he
      simp only [List.mem_append, List.mem_singleton] at he
      rcases he with he | he
      · exact hd x (by simp [hx]) e he
      · subst he
        exact fun eq => hn.1 x hx eq.symm

/-- **`to_properties_dict`** maps the name of every user property (defaults: no `id`, `content_id`,
`origin`; non-comparable and non-init properties included) to its value, in declaration order -/
theorem to_properties_dict_eq_spec (c : ClassDecl) (i : Inst) :
    toPropertiesDict c i = specPropertiesDict c i := by
  unfold toPropertiesDict specPropertiesDict
  rw [get_properties_eq_spec]
  unfold specProperties
  have := foldl_dictPut (specPropertyFields c Flags.default false) i []
    (by unfold specPropertyFields ordered
        simp only [Bool.false_eq_true, if_false]
        exact nodup_filter_names _ _ (props_names_nodup c))
    (by simp)
  simpa using this

end C12
end Acc
end PyOak
