/-
C20 — `ParentClean` (Props/C20Heap.lean: a node without `_parent_id` has no `_parent_field`, a node without
`_parent_field` has no `_parent_index`) holds in EVERY state the legacy machine can reach: the three slots are
written only by `_set_parent` (all three, id and field non-`None`) and `_clear_parent` / `__post_init__` (all three
`None`).  One step keeps it WHATEVER its outcome (returned, rejected with roll-back, endless walk), so it holds
after every history from the empty world, and together with `C18.inv_ranked_run_init` the three hypotheses of the
heap-level theorems are available after every admissible history (`reachable_ok`).

  parentClean_step / parentClean_run / parentClean_run_init
  reachable_ok              `AdmRun` from `init`  ⇒  `Inv ∧ Ranked ∧ ParentClean`
  legacy_match_heap_run     **corollary over histories** of `legacy_match_heap_successor` / `legacy_match_heap`
-/
import PyOak.Props.C20HeapMatch
namespace PyOak
namespace C20
open Legacy Legacy.C18 LState

variable (H Hc : Str → Str)

/-- the per-object form -/
def PCo (o : LObj) : Prop := (o.pid = none → o.pfield = none) ∧ (o.pfield = none → o.pindex = none)

theorem parentClean_iff (s : LState) : ParentClean s ↔ ∀ u, PCo (s.obj u) := Iff.rfl

theorem pc_modify {s : LState} (h : ParentClean s) (u : Nat) (g : LObj → LObj) (hg : ∀ o, PCo o → PCo (g o)) :
    ParentClean (s.modify u g) := by
  intro v
  show PCo ((s.modify u g).obj v)
  rw [modify_obj]
  split
  · exact hg _ (h u)
  · exact h v

theorem pc_alloc {s : LState} (h : ParentClean s) (o : LObj) (ho : PCo o) : ParentClean (s.alloc o).1 := by
  intro v
  show PCo (if v = s.size then o else s.heap v)
  split
  · exact ho
  · exact h v

theorem pc_register {s : LState} (h : ParentClean s) (u : Nat) : ParentClean (s.register u) := h
theorem pc_unregister {s : LState} (h : ParentClean s) (k : Str) : ParentClean (s.unregister k) := h

theorem pc_setContentId {s : LState} (h : ParentClean s) (u : Nat) : ParentClean (s.setContentId Hc u) :=
  pc_modify h u _ (fun _ ho => ho)

theorem pc_clearParent {s : LState} (h : ParentClean s) (u : Nat) : ParentClean (s.clearParent u) :=
  pc_modify h u _ (fun _ _ => ⟨fun _ => rfl, fun _ => rfl⟩)

theorem pc_setParent {s : LState} (h : ParentClean s) (c p : Nat) (f : Str) (i : Option Nat) :
    ParentClean (s.setParent c p f i) :=
  pc_modify h c _ (fun _ _ => ⟨fun e => (by simp at e), fun e => (by simp at e)⟩)

theorem pc_resetContentId : ∀ (fuel : Nat) (s : LState) (u : Nat), ParentClean s →
    ParentClean (s.resetContentId Hc fuel u).1 := by
  intro fuel
  induction fuel with
  | zero => intro s u h; exact h
  | succ fuel ih =>
    intro s u h
    unfold LState.resetContentId
    simp only
    split
    · exact pc_setContentId Hc h u
    · exact ih _ _ (pc_setContentId Hc h u)

theorem pc_reparent (n : Nat) : ∀ (l : List (Nat × Str × Option Nat)) (s : LState), ParentClean s →
    ParentClean (reparent n s l) := by
  intro l
  induction l with
  | nil => intro s h; exact h
  | cons e r ih =>
    intro s h
    obtain ⟨c, f, i⟩ := e
    simp only [reparent]
    exact ih _ (pc_setParent h c n f i)

theorem pc_commitOne {s : LState} (h : ParentClean s) (n : Nat) : ParentClean (commitOne Hc s n) := by
  unfold commitOne
  exact pc_register (pc_setContentId Hc (pc_reparent n _ s h) n) n

theorem pc_foldl_commitOne : ∀ (l : List Nat) (s : LState), ParentClean s → ParentClean (l.foldl (commitOne Hc) s) := by
  intro l
  induction l with
  | nil => intro s h; exact h
  | cons a r ih => intro s h; simp only [List.foldl_cons]; exact ih _ (pc_commitOne Hc h a)

theorem pc_attach (fuel : Nat) {s : LState} (h : ParentClean s) (u : Nat) : ParentClean (attach Hc fuel s u).1 := by
  unfold attach
  split
  · exact h
  · exact h
  · exact pc_foldl_commitOne Hc _ s h

theorem pc_detachKids (rec : LState → Nat → LState × Option Bool)
    (hrec : ∀ s c, ParentClean s → ParentClean (rec s c).1) (os : Bool) :
    ∀ (ks : List Nat) (s : LState), ParentClean s → ParentClean (detachKids rec os s ks).1 := by
  intro ks
  induction ks with
  | nil => intro s h; exact h
  | cons c cs ih =>
    intro s h
    unfold detachKids
    simp only
    split
    · exact ih _ (pc_clearParent h c)
    · have h1 := hrec (s.clearParent c) c (pc_clearParent h c)
      split
      · next s2 heq => rw [heq] at h1; exact h1
      · next s2 b heq => rw [heq] at h1; exact ih _ h1

theorem pc_detachGo : ∀ (fuel : Nat) (os : Bool) (s : LState) (u : Nat), ParentClean s →
    ParentClean (detachGo fuel os s u).1 := by
  intro fuel
  induction fuel with
  | zero => intro os s u h; exact h
  | succ fuel ih =>
    intro os s u h
    unfold detachGo
    split
    · exact h
    · split
      · exact h
      · have hk := pc_detachKids (detachGo fuel false) (fun s c hs => ih false s c hs) os (s.obj u).kidList s h
        split
        · next s1 heq => rw [heq] at hk; exact hk
        · next s1 heq => rw [heq] at hk; exact pc_unregister hk _

theorem pc_takeOver {s : LState} (h : ParentClean s) (u n : Nat) : ParentClean (takeOver s u n).1 := by
  unfold takeOver
  simp only
  split
  · exact pc_modify (pc_unregister h _) n _ (fun _ ho => ho)
  · exact pc_modify h n _ (fun _ ho => ho)

theorem pc_setField {s : LState} (h : ParentClean s) (p : Nat) (f : Str) (ks : List Nat) :
    ParentClean (setField s p f ks) := pc_modify h p _ (fun _ ho => ho)

theorem pc_shiftDown (p : Nat) (f : Str) : ∀ (cs : List Nat) (s : LState), ParentClean s →
    ParentClean (shiftDown p f s cs) := by
  intro cs
  induction cs with
  | nil => intro s h; exact h
  | cons c r ih => intro s h; simp only [shiftDown]; exact ih _ (pc_setParent h c p f _)

theorem pc_replaceChild (fuel : Nat) {s : LState} (h : ParentClean s) (p old : Nat) (f : Str) (idx : Option Nat)
    (new : Option Nat) : ParentClean (replaceChild Hc fuel s p old f idx new).1 := by
  unfold replaceChild
  cases idx with
  | none =>
    cases new with
    | none =>
      simp only [↓reduceIte]
      exact pc_resetContentId Hc _ _ _ (pc_setField h _ _ _)
    | some n =>
      simp only
      split
      · exact pc_resetContentId Hc _ _ _ (pc_setParent (pc_setField h _ _ _) _ _ _ _)
      · exact pc_setParent (pc_setField h _ _ _) _ _ _ _
  | some i =>
    cases new with
    | none =>
      simp only [↓reduceIte]
      exact pc_resetContentId Hc _ _ _ (pc_shiftDown _ _ _ _ (pc_setField h _ _ _))
    | some n =>
      simp only
      split
      · exact pc_resetContentId Hc _ _ _ (pc_setParent (pc_setField h _ _ _) _ _ _ _)
      · exact pc_setParent (pc_setField h _ _ _) _ _ _ _

theorem pCo_newObj (n : NewSpec) : PCo (newObj n) := ⟨fun _ => rfl, fun _ => rfl⟩

theorem pc_finishConstruct (fuel : Nat) {s : LState} (h : ParentClean s) (u : Nat) (det : Bool) :
    ParentClean (finishConstruct Hc fuel s u det).1 := by
  unfold finishConstruct
  split
  · exact pc_setContentId Hc h u
  · have h1 := pc_attach Hc fuel h u
    split
    · next s2 e heq => rw [heq] at h1; exact h1
    · next s2 heq => rw [heq] at h1; exact pc_setContentId Hc h1 u

theorem pc_construct (fuel : Nat) {s : LState} (h : ParentClean s) (n : NewSpec) :
    ParentClean (construct H Hc fuel s n).1 := by
  unfold construct
  have h0 := pc_alloc h (newObj n) (pCo_newObj n)
  simp only
  split
  · exact h0
  · split
    · exact h0
    · exact pc_finishConstruct Hc fuel (pc_modify h0 _ _ (fun _ _ => ⟨fun _ => rfl, fun _ => rfl⟩)) _ _

theorem pc_replace (fuel : Nat) {s : LState} (h : ParentClean s) (u : Nat) (ch : Changes) :
    ParentClean (replace H Hc fuel s u ch).1 := by
  unfold replace
  split
  · exact h
  · simp only
    have h1 : ParentClean (if (s.parent u).isSome then s.clearParent u else s) := by
      split
      · exact pc_clearParent h u
      · exact h
    generalize (if (s.parent u).isSome then s.clearParent u else s) = s1 at h1 ⊢
    have h2 : ParentClean (if (!s1.detached u) = true then (detachGo (fuel + 1) true s1 u).1 else s1) := by
      split
      · exact pc_detachGo _ _ _ _ h1
      · exact h1
    generalize (if (!s1.detached u) = true then (detachGo (fuel + 1) true s1 u).1 else s1) = s2 at h2 ⊢
    generalize hcs : construct H Hc fuel s2 _ = res
    have h3 : ParentClean res.1 := by rw [← hcs]; exact pc_construct H Hc fuel h2 _
    obtain ⟨s3, r⟩ := res
    simp only at h3
    cases r with
    | error e =>
      simp only
      have h4 : ParentClean (if (!s1.detached u) = true then reparent u (s3.register u) (s3.obj u).kidsPos else s3) := by
        split
        · exact pc_reparent _ _ _ (pc_register h3 u)
        · exact h3
      cases s.parent u with
      | none => exact h4
      | some p => exact pc_setParent h4 _ _ _ _
    | ok n =>
      simp only
      cases hp : s.parent u with
      | none =>
        simp only
        split <;> (dsimp only; exact pc_modify h3 n _ (fun _ ho => ho))
      | some p =>
        simp only
        have h4 := pc_replaceChild Hc fuel h3 p u ((s.obj u).pfield.getD []) (s.obj u).pindex (some n)
        generalize replaceChild Hc fuel s3 p u ((s.obj u).pfield.getD []) (s.obj u).pindex (some n) = rc at h4 ⊢
        obtain ⟨s4, fin⟩ := rc
        simp only at h4 ⊢
        split <;> (dsimp only; exact pc_modify h4 n _ (fun _ ho => ho))

theorem pc_replaceWith (fuel : Nat) {s : LState} (h : ParentClean s) (u : Nat) (new : Option Nat) :
    ParentClean (replaceWith Hc fuel s u new).1 := by
  unfold replaceWith
  cases new with
  | none =>
    simp only [Bool.false_eq_true, ↓reduceIte]
    cases hp : s.parent u with
    | some p =>
      simp only
      cases hf : (s.obj u).pfield with
      | none => exact h
      | some f =>
        simp only
        cases hfl : (s.obj p).fields.find? (·.name = f) with
        | none => exact h
        | some fl =>
          simp only
          split
          · exact h
          · have hd := pc_detachGo (fuel + 1) false (s.clearParent u) u (pc_clearParent h u)
            generalize detachGo (fuel + 1) false (s.clearParent u) u = r at hd ⊢
            obtain ⟨s2, ob⟩ := r
            simp only at hd
            cases ob with
            | none => exact hd
            | some b =>
              simp only
              have h3 := pc_replaceChild Hc fuel hd p u f (s.obj u).pindex none
              generalize replaceChild Hc fuel s2 p u f (s.obj u).pindex none = rc at h3 ⊢
              obtain ⟨s3, fin⟩ := rc
              simp only at h3 ⊢
              split <;> exact h3
    | none =>
      simp only
      have hd := pc_detachGo (fuel + 1) false s u h
      generalize detachGo (fuel + 1) false s u = r at hd ⊢
      obtain ⟨s1, ob⟩ := r
      cases ob <;> exact hd
  | some n =>
    simp only
    split
    · exact h
    · cases hp : s.parent u with
      | some p =>
        simp only
        cases hf : (s.obj u).pfield with
        | none => exact h
        | some f =>
          simp only
          cases hfl : (s.obj p).fields.find? (·.name = f) with
          | none => exact h
          | some fl =>
            simp only
            split
            · exact h
            · have hd := pc_detachGo (fuel + 1) false (s.clearParent u) u (pc_clearParent h u)
              generalize detachGo (fuel + 1) false (s.clearParent u) u = r at hd ⊢
              obtain ⟨s2, ob⟩ := r
              simp only at hd
              cases ob with
              | none => exact hd
              | some b =>
                simp only
                have h3 := pc_takeOver hd u n
                generalize takeOver s2 u n = rt at h3 ⊢
                obtain ⟨s3, nwa⟩ := rt
                simp only at h3 ⊢
                have h4 := pc_attach Hc fuel h3 n
                generalize attach Hc fuel s3 n = ra at h4 ⊢
                obtain ⟨s4, oa⟩ := ra
                simp only at h4
                cases oa with
                | error e =>
                  simp only
                  have h6 : ParentClean ((s4.modify n fun x =>
                      { x with id := (s2.obj n).id, origId := (s2.obj n).origId }).setParent u p f (s.obj u).pindex) :=
                    pc_setParent (pc_modify h4 n (fun x => { x with id := (s2.obj n).id, origId := (s2.obj n).origId })
                      (fun _ ho => ho)) _ _ _ _
                  have h7 := pc_attach Hc fuel h6 u
                  generalize attach Hc fuel _ u = ra2 at h7 ⊢
                  obtain ⟨s7, oa2⟩ := ra2
                  simp only at h7
                  cases oa2 with
                  | error e' => exact h7
                  | ok x =>
                    simp only
                    split
                    · exact pc_register h7 n
                    · exact h7
                | ok x =>
                  simp only
                  have h5 := pc_replaceChild Hc fuel h4 p u f (s.obj u).pindex (some n)
                  generalize replaceChild Hc fuel s4 p u f (s.obj u).pindex (some n) = rc at h5 ⊢
                  obtain ⟨s5, fin⟩ := rc
                  simp only at h5 ⊢
                  split <;> exact h5
      | none =>
        simp only
        have hd : ParentClean (if (!s.detached u) = true then detachGo (fuel + 1) false s u else (s, some true)).1 := by
          split
          · exact pc_detachGo _ _ _ _ h
          · exact h
        generalize (if (!s.detached u) = true then detachGo (fuel + 1) false s u else (s, some true)) = r at hd ⊢
        obtain ⟨s1, ob⟩ := r
        simp only at hd
        cases ob with
        | none => exact hd
        | some b =>
          simp only
          have h3 := pc_takeOver hd u n
          generalize takeOver s1 u n = rt at h3 ⊢
          obtain ⟨s2, nwa⟩ := rt
          simp only at h3 ⊢
          have h4 := pc_attach Hc fuel h3 n
          generalize attach Hc fuel s2 n = ra at h4 ⊢
          obtain ⟨s3, oa⟩ := ra
          simp only at h4
          cases oa with
          | ok x => exact h4
          | error e =>
            simp only
            have h5 : ParentClean (s3.modify n fun x => { x with id := (s1.obj n).id, origId := (s1.obj n).origId }) :=
              pc_modify h4 n _ (fun _ ho => ho)
            generalize (s3.modify n fun x => { x with id := (s1.obj n).id, origId := (s1.obj n).origId }) = s4 at h5 ⊢
            have h6 : ParentClean (if (!s.detached u) = true then attach Hc fuel s4 u else (s4, .ok ())).1 := by
              split
              · exact pc_attach Hc fuel h5 u
              · exact h5
            generalize (if (!s.detached u) = true then attach Hc fuel s4 u else (s4, .ok ())) = ra2 at h6 ⊢
            obtain ⟨s5, oa2⟩ := ra2
            simp only at h6
            cases oa2 with
            | error e' => exact h6
            | ok x =>
              simp only
              split
              · exact pc_register h6 n
              · exact h6

theorem pc_dupList (rec : LState → Nat → LState × Except Err Nat)
    (hrec : ∀ s c, ParentClean s → ParentClean (rec s c).1) :
    ∀ (cs : List Nat) (s : LState), ParentClean s → ParentClean (dupList rec s cs).1 := by
  intro cs
  induction cs with
  | nil => intro s h; exact h
  | cons c cs ih =>
    intro s h
    unfold dupList
    have h1 := hrec s c h
    generalize rec s c = r at h1 ⊢
    obtain ⟨s1, o⟩ := r
    cases o with
    | error e => exact h1
    | ok c' =>
      simp only
      have h2 := ih s1 h1
      generalize dupList rec s1 cs = r2 at h2 ⊢
      obtain ⟨s2, o2⟩ := r2
      cases o2 <;> exact h2

theorem pc_dupFields (rec : LState → Nat → LState × Except Err Nat)
    (hrec : ∀ s c, ParentClean s → ParentClean (rec s c).1) :
    ∀ (fs : List LField) (s : LState), ParentClean s → ParentClean (dupFields rec s fs).1 := by
  intro fs
  induction fs with
  | nil => intro s h; exact h
  | cons f fs ih =>
    intro s h
    unfold dupFields
    have h1 := pc_dupList rec hrec f.kids s h
    generalize dupList rec s f.kids = r at h1 ⊢
    obtain ⟨s1, o⟩ := r
    cases o with
    | error e => exact h1
    | ok ks =>
      simp only
      have h2 := ih s1 h1
      generalize dupFields rec s1 fs = r2 at h2 ⊢
      obtain ⟨s2, o2⟩ := r2
      cases o2 <;> exact h2

theorem pc_duplicate (cfuel : Nat) (clone : Bool) : ∀ (fuel : Nat) (s : LState) (u : Nat), ParentClean s →
    ParentClean (duplicate H Hc cfuel clone fuel s u).1 := by
  intro fuel
  induction fuel with
  | zero => intro s u h; exact h
  | succ fuel ih =>
    intro s u h
    unfold duplicate
    have h1 := pc_dupFields (duplicate H Hc cfuel clone fuel) (fun s c hs => ih s c hs) (s.obj u).fields s h
    generalize dupFields (duplicate H Hc cfuel clone fuel) s (s.obj u).fields = r at h1 ⊢
    obtain ⟨s1, o⟩ := r
    cases o with
    | error e => exact h1
    | ok fs =>
      simp only
      generalize hcs : construct H Hc cfuel s1 _ = res
      have h2 : ParentClean res.1 := by rw [← hcs]; exact pc_construct H Hc cfuel h1 _
      obtain ⟨s2, o2⟩ := res
      cases o2 with
      | error e => exact h2
      | ok n =>
        simp only
        exact pc_modify h2 n _ (fun _ ho => ho)

theorem ofNode_fst' (p : LState × Except Err Nat) : (ofNode p).1 = p.1 := by
  obtain ⟨s, r⟩ := p; cases r <;> rfl
theorem ofUnit_fst' (p : LState × Except Err Unit) : (ofUnit p).1 = p.1 := by
  obtain ⟨s, r⟩ := p; cases r <;> rfl

/-- **one step of the machine keeps the parent slots clean — whatever its outcome** -/
theorem parentClean_step {s : LState} (h : ParentClean s) (op : LOp) : ParentClean (step H Hc s op).1 := by
  unfold step
  split
  · exact h
  · cases op with
    | new sp => simp only [ofNode_fst']; exact pc_construct H Hc _ h sp
    | attach u =>
      simp only
      split
      · exact h
      · rw [ofUnit_fst']; exact pc_attach Hc _ h u
    | detach u os =>
      simp only
      have hk := pc_detachGo (fuelOf s + 1) os s u h
      split
      · next s1 b heq => rw [heq] at hk; exact hk
      · next s1 heq => rw [heq] at hk; exact hk
    | replace u ch => simp only [ofNode_fst']; exact pc_replace H Hc _ h u ch
    | rwith u n => simp only [ofUnit_fst']; exact pc_replaceWith Hc _ h u n
    | dup u c => simp only [ofNode_fst']; exact pc_duplicate H Hc _ c _ s u h

theorem parentClean_init : ParentClean init := fun _ => ⟨fun _ => rfl, fun _ => rfl⟩

/-- **every history** -/
theorem parentClean_run : ∀ (ops : List LOp) (s : LState), ParentClean s → ParentClean (run H Hc s ops) := by
  intro ops
  induction ops with
  | nil => intro s h; exact h
  | cons op r ih =>
    intro s h
    unfold run
    simp only [List.foldl_cons]
    exact ih _ (parentClean_step H Hc h op)

theorem parentClean_run_init (ops : List LOp) : ParentClean (run H Hc init ops) :=
  parentClean_run H Hc ops init parentClean_init

/-- after every admissible history from the empty world the three hypotheses of the heap-level theorems hold -/
theorem reachable_ok (ops : List LOp) (hg : AdmRun H Hc init ops) :
    Inv Hc (run H Hc init ops) ∧ Ranked (run H Hc init ops) ∧ ParentClean (run H Hc init ops) :=
  ⟨(inv_ranked_run_init H Hc ops hg).1, (inv_ranked_run_init H Hc ops hg).2, parentClean_run_init H Hc ops⟩

/-- **target 2 over histories**: after ANY admissible history of legacy operations from the empty world (accepted
and rejected operations mixed), for every live (attached) object `u` and every element list a legacy `ASTXpath` can
hold: legacy `match(u)`, run on the heap, ends and answers exactly what the successor's
`ASTXpath.match(Tree(root), node)` answers on the tree the heap represents below the root of `u`; and the successor's
`findall` on that tree contains the node iff legacy `match` says True -/
theorem legacy_match_heap_run (ops : List LOp) (hg : AdmRun H Hc init ops) {u : Nat}
    (hu : Att (run H Hc init ops) u) (L : List LElem) (hL : HeadOK L) :
    let s := run H Hc init ops
    ∃ l b, UpChain s u l ∧ IsChain (treeOf s (topOf u l)) (heapChain s u l) ∧
      lxmatchH s L u = some b ∧ b = sat (heapChain s u l) (shift L).reverse ∧
      xmatch (shift L) (treeOf s (topOf u l)) (treeOf s u) = .ok b ∧
      (treeOf s u ∈ findall (shift L).reverse (treeOf s (topOf u l)) ↔ b = true) := by
  intro s
  obtain ⟨hI, hR, hP⟩ := reachable_ok H Hc ops hg
  obtain ⟨l, hl, _, hc, _, hm⟩ := legacy_match_heap Hc hI hR hP hu L hL
  obtain ⟨l', b, hl', hb, hx, hf⟩ := legacy_match_heap_successor Hc hI hR hP hu L hL
  have := upChain_unique hl' hl
  subst this
  refine ⟨l', b, hl, hc, hb, ?_, hx, hf⟩
  rw [hb] at hm
  exact Option.some.inj hm

end C20
end PyOak
