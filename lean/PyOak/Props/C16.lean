/-
C16 — serialization options apply to the whole call and to nothing after it.

Theorems about the executable model `PyOak/Model/SerOpts.lean` (the functions the driver runs
against the real pyoak on every check).  For all global states, calls, histories, option
subsets and object trees; no size bounds.
-/
import PyOak.Model.SerOpts
namespace PyOak
namespace C16
open SerOpts

/-! ## 1. the globals are back to default after every call, whatever its outcome -/

/-- Every call whose input reaches the wrapper leaves the two slots at their defaults,
whether the body returned or raised (at any nested object). -/
theorem reset_after (g : G) (c : Call) (h : c.input ≠ .unparsable) : (call g c).1 = {} := by
  unfold call
  split
  · contradiction
  · dsimp only; cases body (enter g c) c.input <;> rfl

/-- the same, spelled out for a call that raised -/
theorem reset_after_raise (g : G) (c : Call) (e : Unit) (h : c.input ≠ .unparsable)
    (_hr : (call g c).2 = .error e) : (call g c).1 = {} := reset_after g c h

/-- text that the front end rejects never reaches the wrapper: state untouched, call raises -/
theorem call_unparsable (g : G) (c : Call) (h : c.input = .unparsable) :
    call g c = (g, .error ()) := by
  unfold call; rw [h]

theorem call_default_state (c : Call) : (call {} c).1 = {} := by
  unfold call
  split
  · rfl
  · dsimp only; cases body (enter {} c) c.input <;> rfl

theorem update_empty (o : Opts) : Opts.update {} o = o := by
  cases o with
  | mk a b c d => cases a <;> cases b <;> cases c <;> cases d <;> rfl

/-- In a history started from the default state, every call behaves as if it were the only one:
its outcome is the outcome of that call from the default state, and the state after it is the
default state. -/
theorem seq_independent (cs : List Call) :
    runSeq {} cs = (cs.map fun c => ((call {} c).2, ({} : G)), {}) := by
  induction cs with
  | nil => rfl
  | cons c r ih =>
    have h1 := call_default_state c
    simp only [runSeq, List.map_cons]
    generalize hc : call {} c = p at h1
    obtain ⟨g1, out⟩ := p
    simp only at h1
    subst h1
    simp only [ih]

theorem seq_final_default (cs : List Call) : (runSeq {} cs).2 = {} := by
  rw [seq_independent]

/-- the outcome of a call from the default state is a function of its own arguments: the body
run under exactly the options and dialect the call was given -/
theorem call_depends_on_own_args (c : Call) :
    (call {} c).2 = body { opts := c.opts.getD {}, md := effMd c.kind c.md } c.input := by
  have hent : enter {} c = { opts := c.opts.getD {}, md := effMd c.kind c.md } := by
    unfold enter
    cases hc : c.opts with
    | none => rfl
    | some o => simp [update_empty]
  unfold call
  split
  · next h => rw [h]; rfl
  · rw [hent]; dsimp only
    cases body { opts := c.opts.getD {}, md := effMd c.kind c.md } c.input <;> rfl

/-! ## 2. order on keys, sorting -/

theorem strLt_irrefl (a : Str) : strLt a a = false := by
  induction a with
  | nil => rfl
  | cons x r ih => simp [strLt, ih]

theorem strLt_asymm (a b : Str) (h : strLt a b = true) : strLt b a = false := by
  induction a generalizing b with
  | nil => cases b <;> simp_all [strLt]
  | cons x r ih =>
    cases b with
    | nil => simp_all [strLt]
    | cons y s =>
      simp only [strLt] at h ⊢
      split at h
      · next h1 => have : ¬ y.toNat < x.toNat := by omega
                   simp [this, h1]
      · split at h
        · simp at h
        · next h1 h2 => simp [h1, h2]; exact ih s h

/-- `a ≤ b ≤ c → a ≤ c` for `x ≤ y := ¬ y < x` -/
theorem strLe_trans (a b c : Str) (h1 : strLt b a = false) (h2 : strLt c b = false) :
    strLt c a = false := by
  induction a generalizing b c with
  | nil => cases c <;> simp [strLt]
  | cons x r ih =>
    cases b with
    | nil => simp [strLt] at h1
    | cons y s =>
      cases c with
      | nil => simp [strLt] at h2
      | cons z t =>
        simp only [strLt] at h1 h2 ⊢
        split at h1
        · simp at h1
        · next hyx =>
          split at h1
          · next hxy =>
            -- x < y
            split at h2
            · simp at h2
            · next hzy =>
              have : ¬ z.toNat < x.toNat := by omega
              have : x.toNat < z.toNat := by omega
              simp [*]
          · next hxy =>
            -- x = y
            split at h2
            · simp at h2
            · next hzy =>
              split at h2
              · next hyz =>
                have : ¬ z.toNat < x.toNat := by omega
                have : x.toNat < z.toNat := by omega
                simp [*]
              · next hyz =>
                have : ¬ z.toNat < x.toNat := by omega
                have : ¬ x.toNat < z.toNat := by omega
                simp [*]
                exact ih s t h1 h2

/-- `l` is sorted by key (non-strictly) -/
def KSorted (l : List JF) : Prop := l.Pairwise fun a b => strLt b.key a.key = false

abbrev keyLt : JF → JF → Bool := fun a b => strLt a.key b.key

theorem mem_insertBy (x y : JF) (l : List JF) : y ∈ insertBy keyLt x l ↔ y = x ∨ y ∈ l := by
  induction l with
  | nil => simp [insertBy]
  | cons z r ih =>
    simp only [insertBy]
    split
    · simp [ih]; constructor
      · rintro (h | h | h) <;> simp [h]
      · rintro (h | h | h) <;> simp [h]
    · simp

theorem mem_sortKeys (y : JF) (l : List JF) : y ∈ sortKeys l ↔ y ∈ l := by
  unfold sortKeys sortByName
  induction l with
  | nil => simp [sortBy]
  | cons x r ih =>
    simp only [sortBy]
    rw [show (fun a b => strLt (JF.key a) (JF.key b)) = keyLt from rfl] at ih ⊢
    rw [mem_insertBy, ih]; simp

theorem sorted_insertBy (x : JF) (l : List JF) (h : KSorted l) : KSorted (insertBy keyLt x l) := by
  induction l with
  | nil => simp [insertBy, KSorted]
  | cons z r ih =>
    simp only [KSorted, List.pairwise_cons] at h
    simp only [insertBy]
    split
    · next hlt =>
      simp only [KSorted, List.pairwise_cons]
      refine ⟨?_, ih h.2⟩
      intro w hw
      rcases (mem_insertBy x w r).1 hw with rfl | hw
      · exact strLt_asymm _ _ hlt
      · exact h.1 w hw
    · next hlt =>
      simp only [KSorted, List.pairwise_cons]
      have hzx : strLt z.key x.key = false := by simpa [keyLt] using hlt
      refine ⟨?_, h⟩
      intro w hw
      rcases List.mem_cons.1 hw with rfl | hw
      · exact hzx
      · exact strLe_trans _ _ _ hzx (h.1 w hw)

theorem sorted_sortKeys (l : List JF) : KSorted (sortKeys l) := by
  unfold sortKeys sortByName
  induction l with
  | nil => simp [sortBy, KSorted]
  | cons x r ih =>
    simp only [sortBy]
    exact sorted_insertBy x _ ih

/-! ## 3. "every nested mapping": predicates over the output tree and over the object tree -/

mutual
/-- every mapping nested in the output (the output itself included) satisfies `P` -/
def AllMaps (P : List JF → Prop) : J → Prop
  | .str _ => True
  | .lit _ => True
  | .arr xs => AllMapsL P xs
  | .map fs => P fs ∧ AllMapsF P fs
def AllMapsL (P : List JF → Prop) : List J → Prop
  | [] => True
  | x :: r => AllMaps P x ∧ AllMapsL P r
def AllMapsF (P : List JF → Prop) : List JF → Prop
  | [] => True
  | f :: r => AllMapsJF P f ∧ AllMapsF P r
def AllMapsJF (P : List JF → Prop) : JF → Prop
  | .mk _ v => AllMaps P v
end

theorem allMapsF_iff (P : List JF → Prop) (l : List JF) :
    AllMapsF P l ↔ ∀ f ∈ l, AllMaps P f.val := by
  induction l with
  | nil => simp [AllMapsF]
  | cons f r ih => cases f; simp [AllMapsF, AllMapsJF, ih, JF.val]

mutual
theorem allObj_true (o : SObj) : allObj (fun _ => true) o = true := by
  match o with
  | .empty => rfl
  | .mk k c i fs cn => simp only [allObj, Bool.true_and]; exact allObjFs_true fs
theorem allObjFs_true (fs : List SField) : allObjFs (fun _ => true) fs = true := by
  match fs with
  | [] => rfl
  | f :: r => simp only [allObjFs, Bool.and_eq_true]; exact ⟨allObjF_true f, allObjFs_true r⟩
theorem allObjF_true (f : SField) : allObjF (fun _ => true) f = true := by
  match f with
  | .mk _ v => simp only [allObjF]; exact allObjV_true v
theorem allObjV_true (v : SVal) : allObjV (fun _ => true) v = true := by
  match v with
  | .atom _ _ => rfl
  | .seq xs => simp only [allObjV]; exact allObjVs_true xs
  | .obj o => simp only [allObjV]; exact allObj_true o
  | .bomb => rfl
theorem allObjVs_true (xs : List SVal) : allObjVs (fun _ => true) xs = true := by
  match xs with
  | [] => rfl
  | x :: r => simp only [allObjVs, Bool.and_eq_true]; exact ⟨allObjV_true x, allObjVs_true r⟩
end

theorem scalar_allMaps (P : List JF → Prop) (s : Scalar) : AllMaps P s.toJ := by
  cases s <;> simp [Scalar.toJ, AllMaps]

section generic
set_option linter.unusedSectionVars false
variable (P : List JF → Prop) (w : SObj → Bool) (g : G)
variable (hE : P [])
variable (hI : g.opts.srcOn = true → ∀ n, P [.mk idxKey (.lit n)])
variable (hPost : ∀ kind cls idx fields cn d, w (.mk kind cls idx fields cn) = true →
    serFields g fields = .ok d → AllMapsF P d →
    (P (post g.opts kind cls cn d) ∧ AllMapsF P (post g.opts kind cls cn d)))
include hE hI hPost

mutual
theorem serVal_allMaps (v : SVal) (j : J) (hw : allObjV w v = true) (h : serVal g v = .ok j) :
    AllMaps P j := by
  match v with
  | .atom d c =>
    simp only [serVal] at h
    cases h
    split <;> exact scalar_allMaps P _
  | .seq xs =>
    simp only [serVal] at h
    split at h
    · next js hjs =>
      cases h
      simp only [AllMaps]
      exact serVals_allMaps xs js (by simpa [allObjV] using hw) hjs
    · cases h
  | .obj o =>
    simp only [serVal] at h
    exact serObj_allMaps o j (by simpa [allObjV] using hw) h
  | .bomb => simp [serVal] at h
theorem serVals_allMaps (xs : List SVal) (js : List J) (hw : allObjVs w xs = true)
    (h : serVals g xs = .ok js) : AllMapsL P js := by
  match xs with
  | [] => simp only [serVals] at h; cases h; simp [AllMapsL]
  | x :: r =>
    simp only [allObjVs, Bool.and_eq_true] at hw
    simp only [serVals] at h
    split at h
    · cases h
    · next j hj =>
      split at h
      · cases h
      · next js' hjs =>
        cases h
        exact ⟨serVal_allMaps x j hw.1 hj, serVals_allMaps r js' hw.2 hjs⟩
theorem serObj_allMaps (o : SObj) (j : J) (hw : allObj w o = true) (h : serObj g o = .ok j) :
    AllMaps P j := by
  match o with
  | .empty => simp only [serObj] at h; cases h; exact ⟨hE, by simp [AllMapsF]⟩
  | .mk kind cls idx fields cn =>
    simp only [allObj, Bool.and_eq_true] at hw
    simp only [serObj] at h
    split at h
    · next hc =>
      cases h
      exact ⟨hI hc.2 _, by simp [AllMapsF, AllMapsJF, AllMaps]⟩
    · split at h
      · cases h
      · next d hd =>
        cases h
        have := serFields_allMaps fields d hw.2 hd
        exact hPost kind cls idx fields cn d hw.1 hd this
theorem serFields_allMaps (fs : List SField) (d : List JF) (hw : allObjFs w fs = true)
    (h : serFields g fs = .ok d) : AllMapsF P d := by
  match fs with
  | [] => simp only [serFields] at h; cases h; simp [AllMapsF]
  | f :: r =>
    simp only [allObjFs, Bool.and_eq_true] at hw
    simp only [serFields] at h
    split at h
    · cases h
    · next jf hjf =>
      split at h
      · cases h
      · next d' hd' =>
        cases h
        exact ⟨serField_allMaps f jf hw.1 hjf, serFields_allMaps r d' hw.2 hd'⟩
theorem serField_allMaps (f : SField) (jf : JF) (hw : allObjF w f = true)
    (h : serField g f = .ok jf) : AllMapsJF P jf := by
  match f with
  | .mk n v =>
    simp only [serField] at h
    split at h
    · cases h
    · next j hj =>
      cases h
      exact serVal_allMaps v j (by simpa [allObjF] using hw) hj
end
end generic

/-! ## 4. how the hooks treat keys and nested values -/

theorem mem_keys_sortKeys (k : Str) (l : List JF) : k ∈ keys (sortKeys l) ↔ k ∈ keys l := by
  simp only [keys, List.mem_map, mem_sortKeys]

theorem allMapsF_sortKeys (P : List JF → Prop) (d : List JF) :
    AllMapsF P (sortKeys d) ↔ AllMapsF P d := by
  simp only [allMapsF_iff, mem_sortKeys]

theorem mem_setKey_self (k : Str) (v : J) (l : List JF) : JF.mk k v ∈ setKey k v l := by
  induction l with
  | nil => simp [setKey]
  | cons f r ih =>
    cases f with
    | mk k' v' =>
      simp only [setKey]
      split
      · simp
      · simp [ih]

theorem mem_setKey (k : Str) (v : J) (l : List JF) (x : JF) (h : x ∈ setKey k v l) :
    x = .mk k v ∨ x ∈ l := by
  induction l with
  | nil => simpa [setKey] using h
  | cons f r ih =>
    cases f with
    | mk k' v' =>
      simp only [setKey] at h
      split at h
      · rcases List.mem_cons.1 h with h | h
        · exact .inl h
        · exact .inr (List.mem_cons_of_mem _ h)
      · rcases List.mem_cons.1 h with h | h
        · exact .inr (by simp [h])
        · rcases ih h with h | h
          · exact .inl h
          · exact .inr (List.mem_cons_of_mem _ h)

theorem keys_setKey_of_mem (k : Str) (v : J) (l : List JF) (h : k ∈ keys l) :
    keys (setKey k v l) = keys l := by
  induction l with
  | nil => simp [keys] at h
  | cons f r ih =>
    cases f with
    | mk k' v' =>
      simp only [setKey]
      split
      · next he => simp [keys, JF.key, he]
      · next hne =>
        have : k ∈ keys r := by
          simp only [keys, List.map_cons, List.mem_cons, JF.key] at h
          rcases h with h | h
          · exact absurd h.symm hne
          · exact h
        simp only [keys, List.map_cons] at ih ⊢
        rw [ih this]

theorem allMapsF_setKey (P : List JF → Prop) (k : Str) (v : J) (l : List JF)
    (hl : AllMapsF P l) (hv : AllMaps P v) : AllMapsF P (setKey k v l) := by
  rw [allMapsF_iff] at hl ⊢
  intro f hf
  rcases mem_setKey k v l f hf with rfl | h
  · exact hv
  · exact hl f h

theorem allMapsF_popKey (P : List JF → Prop) (k : Str) (l : List JF) (hl : AllMapsF P l) :
    AllMapsF P (popKey k l) := by
  rw [allMapsF_iff] at hl ⊢
  intro f hf
  exact hl f (List.mem_filter.1 hf).1

/-- the entries of `d` in the order the mixin hook emits them -/
def bodyOf (o : Opts) (d : List JF) : List JF := if o.sortOn = true then sortKeys d else d

theorem postMixin_eq (o : Opts) (cls : Str) (d : List JF) :
    postMixin o cls d =
      if o.skipOn = true then bodyOf o d else .mk TYPE_KEY (.str cls) :: bodyOf o d := rfl

theorem mem_bodyOf (o : Opts) (d : List JF) (x : JF) : x ∈ bodyOf o d ↔ x ∈ d := by
  unfold bodyOf
  split
  · exact mem_sortKeys x d
  · rfl

theorem allMapsF_bodyOf (P : List JF → Prop) (o : Opts) (d : List JF) :
    AllMapsF P (bodyOf o d) ↔ AllMapsF P d := by
  simp only [allMapsF_iff, mem_bodyOf]

theorem allMapsF_postMixin (P : List JF → Prop) (o : Opts) (cls : Str) (d : List JF)
    (hd : AllMapsF P d) : AllMapsF P (postMixin o cls d) := by
  rw [postMixin_eq]
  have hb := (allMapsF_bodyOf P o d).2 hd
  split
  · exact hb
  · exact ⟨by simp [AllMapsJF, AllMaps], hb⟩

theorem mem_postMixin (o : Opts) (cls : Str) (d : List JF) (x : JF) (h : x ∈ postMixin o cls d) :
    x = .mk TYPE_KEY (.str cls) ∨ x ∈ d := by
  rw [postMixin_eq] at h
  split at h
  · exact .inr ((mem_bodyOf o d x).1 h)
  · rcases List.mem_cons.1 h with h | h
    · exact .inl h
    · exact .inr ((mem_bodyOf o d x).1 h)

theorem mem_postMixin_of_mem (o : Opts) (cls : Str) (d : List JF) (x : JF) (h : x ∈ d) :
    x ∈ postMixin o cls d := by
  rw [postMixin_eq]
  have hb := (mem_bodyOf o d x).2 h
  split
  · exact hb
  · exact List.mem_cons_of_mem _ hb

theorem keys_patchOrigin (dm : J) (l : List JF) : keys (patchOrigin dm l) = keys l := by
  induction l with
  | nil => rfl
  | cons f r ih =>
    cases f with
    | mk k v =>
      simp only [patchOrigin]
      split
      · split <;> simp [keys, JF.key]
      · simp only [keys, List.map_cons] at ih ⊢
        rw [ih]

theorem allMaps_children (P : List JF → Prop) (cn : List Str) :
    AllMaps P (.arr (cn.map .str)) := by
  simp only [AllMaps]
  induction cn with
  | nil => simp [AllMapsL]
  | cons c r ih => exact ⟨by simp [AllMaps], ih⟩

theorem allMaps_testSource (P : List JF → Prop) (o : Opts)
    (h : P (postMixin o sourceCls [.mk sourceUriKey (.str []), .mk sourceTypeKey (.str [])])) :
    AllMaps P (testSource o) := by
  unfold testSource
  refine ⟨h, allMapsF_postMixin P o _ _ ?_⟩
  simp [AllMapsF, AllMapsJF, AllMaps]

/-- the patched output keeps `AllMaps`, provided every origin mapping stays good when its
`source` entry is (re)assigned -/
theorem allMapsF_patchOrigin (P : List JF → Prop) (dm : J) (l : List JF) (hl : AllMapsF P l)
    (hdm : AllMaps P dm)
    (hP : ∀ fs, JF.mk originKey (.map fs) ∈ l → P fs → P (setKey sourceKey dm fs)) :
    AllMapsF P (patchOrigin dm l) := by
  induction l with
  | nil => simp [patchOrigin, AllMapsF]
  | cons f r ih =>
    cases f with
    | mk k v =>
      simp only [AllMapsF, AllMapsJF] at hl
      simp only [patchOrigin]
      split
      · next hk =>
        subst hk
        split
        · next fs =>
          simp only [AllMaps] at hl
          refine ⟨⟨hP fs (by simp) hl.1.1, allMapsF_setKey P _ _ _ hl.1.2 hdm⟩, hl.2⟩
        · exact ⟨hl.1, hl.2⟩
      · refine ⟨hl.1, ih hl.2 ?_⟩
        intro fs hm hp
        exact hP fs (List.mem_cons_of_mem _ hm) hp

theorem serFields_keys (g : G) (fs : List SField) (d : List JF) (h : serFields g fs = .ok d) :
    keys d = fs.map SField.name := by
  induction fs generalizing d with
  | nil => simp only [serFields] at h; cases h; rfl
  | cons f r ih =>
    simp only [serFields] at h
    split at h
    · cases h
    · next jf hjf =>
      split at h
      · cases h
      · next d' hd' =>
        cases h
        cases f with
        | mk n v =>
          simp only [serField] at hjf
          split at hjf
          · cases hjf
          · cases hjf
            simp [keys, JF.key, SField.name] at ih ⊢
            exact ih d' hd'

theorem serFields_mem (g : G) (fs : List SField) (d : List JF) (h : serFields g fs = .ok d)
    (jf : JF) (hm : jf ∈ d) : ∃ f ∈ fs, f.name = jf.key ∧ serVal g f.val = .ok jf.val := by
  induction fs generalizing d with
  | nil => simp only [serFields] at h; cases h; simp at hm
  | cons f r ih =>
    simp only [serFields] at h
    split at h
    · cases h
    · next jf0 hjf =>
      split at h
      · cases h
      · next d' hd' =>
        cases h
        rcases List.mem_cons.1 hm with rfl | hm
        · cases f with
          | mk n v =>
            simp only [serField] at hjf
            split at hjf
            · cases hjf
            · next j hj =>
              cases hjf
              exact ⟨.mk n v, by simp, rfl, hj⟩
        · obtain ⟨f', hf', h1, h2⟩ := ih d' hd' hm
          exact ⟨f', List.mem_cons_of_mem _ hf', h1, h2⟩

theorem mem_keys_iff (k : Str) (l : List JF) : k ∈ keys l ↔ ∃ f ∈ l, f.key = k := by
  simp [keys]

theorem mem_keys_postMixin (o : Opts) (cls : Str) (d : List JF) (k : Str)
    (h : k ∈ keys (postMixin o cls d)) : k = TYPE_KEY ∨ k ∈ keys d := by
  obtain ⟨f, hf, rfl⟩ := (mem_keys_iff _ _).1 h
  rcases mem_postMixin o cls d f hf with rfl | hf
  · exact .inl rfl
  · exact .inr ((mem_keys_iff _ _).2 ⟨f, hf, rfl⟩)

theorem mem_keys_setKey (k : Str) (v : J) (l : List JF) (x : Str) (h : x ∈ keys (setKey k v l)) :
    x = k ∨ x ∈ keys l := by
  obtain ⟨f, hf, rfl⟩ := (mem_keys_iff _ _).1 h
  rcases mem_setKey k v l f hf with rfl | hf
  · exact .inl rfl
  · exact .inr ((mem_keys_iff _ _).2 ⟨f, hf, rfl⟩)

theorem mem_keys_popKey (k : Str) (l : List JF) (x : Str) (h : x ∈ keys (popKey k l)) :
    x ∈ keys l := by
  obtain ⟨f, hf, rfl⟩ := (mem_keys_iff _ _).1 h
  exact (mem_keys_iff _ _).2 ⟨f, (List.mem_filter.1 hf).1, rfl⟩

/-! ## 5. tag suppression: no nested mapping carries a type tag -/

def NoTag (fs : List JF) : Prop := TYPE_KEY ∉ keys fs

def NoTagFields (o : SObj) : Prop := allObj noTagField1 o = true

theorem noTag_postMixin (o : Opts) (hs : o.skipOn = true) (cls : Str) (d : List JF)
    (hd : TYPE_KEY ∉ keys d) : NoTag (postMixin o cls d) := by
  intro hk
  obtain ⟨f, hf, hfk⟩ := (mem_keys_iff _ _).1 hk
  rw [postMixin_eq, if_pos hs] at hf
  exact hd ((mem_keys_iff _ _).2 ⟨f, (mem_bodyOf o d f).1 hf, hfk⟩)

theorem noTag_testSource (o : Opts) (hs : o.skipOn = true) : AllMaps NoTag (testSource o) :=
  allMaps_testSource NoTag o (noTag_postMixin o hs _ _ (by decide))

theorem untagged_post (o : Opts) (hs : o.skipOn = true) (kind : Kind) (cls : Str) (cn : List Str)
    (d : List JF) (hk : TYPE_KEY ∉ keys d) (hd : AllMapsF NoTag d) :
    NoTag (post o kind cls cn d) ∧ AllMapsF NoTag (post o kind cls cn d) := by
  have hnode : NoTag (postNode o cls cn d) ∧ AllMapsF NoTag (postNode o cls cn d) := by
    unfold postNode
    have hk1 : TYPE_KEY ∉ keys (if o.ast = some .explorer then
        setKey childrenKey (.arr (cn.map .str)) d else d) := by
      split
      · intro h
        rcases mem_keys_setKey _ _ _ _ h with h | h
        · exact absurd h (by decide)
        · exact hk h
      · exact hk
    have hd1 : AllMapsF NoTag (if o.ast = some .explorer then
        setKey childrenKey (.arr (cn.map .str)) d else d) := by
      split
      · exact allMapsF_setKey _ _ _ _ hd (allMaps_children _ _)
      · exact hd
    have h1 := noTag_postMixin o hs cls _ hk1
    have h2 := allMapsF_postMixin NoTag o cls _ hd1
    dsimp only
    split
    · refine ⟨?_, allMapsF_patchOrigin NoTag _ _ h2 (noTag_testSource o hs) ?_⟩
      · unfold NoTag; rw [keys_patchOrigin]; exact h1
      · intro fs _ hfs h
        rcases mem_keys_setKey _ _ _ _ h with h | h
        · exact absurd h (by decide)
        · exact hfs h
    · exact ⟨h1, h2⟩
  cases kind
  case node => exact hnode
  case source =>
    simp only [post]
    refine ⟨?_, allMapsF_popKey _ _ _ (allMapsF_postMixin NoTag o cls d hd)⟩
    intro h
    exact noTag_postMixin o hs cls d hk (mem_keys_popKey _ _ _ h)
  all_goals exact ⟨noTag_postMixin o hs cls d hk, allMapsF_postMixin NoTag o cls d hd⟩

/-- **With tag suppression no nested mapping carries a type tag** — for every object tree (over
any class model whose fields are not themselves called `__type`), every other option, every
dialect. -/
theorem untagged_all (g : G) (hs : g.opts.skipOn = true) (o : SObj) (j : J) (hw : NoTagFields o)
    (h : serObj g o = .ok j) : AllMaps NoTag j := by
  refine serObj_allMaps NoTag noTagField1 g (by simp [NoTag, keys])
    (fun _ n => by simp only [NoTag, keys, List.map, JF.key]; decide) ?_ o j hw h
  intro kind cls idx fields cn d hwf hser hd
  refine untagged_post g.opts hs kind cls cn d ?_ hd
  rw [serFields_keys g fields d hser]
  intro hm
  obtain ⟨f, hf, hfn⟩ := List.mem_map.1 hm
  simp only [noTagField1, List.all_eq_true] at hwf
  have := hwf f hf
  simp [hfn] at this

/-! ## 6. by default every serialized object carries its class tag, first -/

theorem popKey_tag_cons (cls : Str) (l : List JF) :
    popKey rawKey (.mk TYPE_KEY (.str cls) :: l) = .mk TYPE_KEY (.str cls) :: popKey rawKey l := by
  have : (TYPE_KEY == rawKey) = false := by decide
  simp [popKey, JF.key, this]

theorem patchOrigin_tag_cons (dm : J) (cls : Str) (l : List JF) :
    patchOrigin dm (.mk TYPE_KEY (.str cls) :: l) = .mk TYPE_KEY (.str cls) :: patchOrigin dm l := by
  have : ¬ TYPE_KEY = originKey := by decide
  simp [patchOrigin, this]

/-- without tag suppression the hook output of *every* kind of object starts with the class tag -/
theorem post_head (o : Opts) (hs : o.skipOn = false) (kind : Kind) (cls : Str) (cn : List Str)
    (d : List JF) : ∃ rest, post o kind cls cn d = .mk TYPE_KEY (.str cls) :: rest := by
  have hpm : ∀ d, postMixin o cls d = .mk TYPE_KEY (.str cls) :: bodyOf o d := by
    intro d; rw [postMixin_eq]; simp [hs]
  cases kind
  case node =>
    simp only [post, postNode, hpm]
    split
    · exact ⟨_, patchOrigin_tag_cons _ _ _⟩
    · exact ⟨_, rfl⟩
  case source => exact ⟨popKey rawKey (bodyOf o d), by simp only [post, hpm, popKey_tag_cons]⟩
  all_goals exact ⟨bodyOf o d, by simp only [post, hpm]⟩

/-- **A serialized node / origin / source / position / code point that is neither an empty
`No*` placeholder nor written as an index reference carries its class name as type tag, as the
first key** (whenever tags are not suppressed; in particular by default). -/
theorem mk_carries_class_tag (g : G) (hs : g.opts.skipOn = false) (kind : Kind) (cls : Str)
    (idx : Nat) (fs : List SField) (cn : List Str) (j : J)
    (hidx : ¬ (kind = .source ∧ g.opts.srcOn = true))
    (h : serObj g (.mk kind cls idx fs cn) = .ok j) :
    ∃ rest, j = .map (.mk TYPE_KEY (.str cls) :: rest) := by
  simp only [serObj, if_neg hidx] at h
  split at h
  · cases h
  · next d _ =>
    cases h
    obtain ⟨rest, hr⟩ := post_head g.opts hs kind cls cn d
    exact ⟨rest, by rw [hr]⟩

/-- only the `No*` placeholders serialize to the empty mapping -/
theorem empty_only_placeholder (g : G) (hs : g.opts.skipOn = false) (o : SObj)
    (h : serObj g o = .ok (.map [])) : o = .empty := by
  cases o with
  | empty => rfl
  | mk kind cls idx fs cn =>
    exfalso
    by_cases hidx : kind = .source ∧ g.opts.srcOn = true
    · simp only [serObj, if_pos hidx] at h
      cases h
    · obtain ⟨rest, hr⟩ := mk_carries_class_tag g hs kind cls idx fs cn _ hidx h
      cases hr

/-- a mapping is empty, an index reference, or starts with the type tag -/
def TaggedMap (fs : List JF) : Prop :=
  fs = [] ∨ keys fs = [idxKey] ∨ (keys fs).head? = some TYPE_KEY

/-- a mapping is empty or starts with the type tag -/
def TaggedMap' (fs : List JF) : Prop := fs = [] ∨ (keys fs).head? = some TYPE_KEY

theorem tagged_post (P : List JF → Prop) (hP : ∀ fs, (keys fs).head? = some TYPE_KEY → P fs)
    (o : Opts) (hs : o.skipOn = false) (ht : o.ast ≠ some .test)
    (kind : Kind) (cls : Str) (cn : List Str) (d : List JF) (hd : AllMapsF P d) :
    P (post o kind cls cn d) ∧ AllMapsF P (post o kind cls cn d) := by
  constructor
  · obtain ⟨rest, hr⟩ := post_head o hs kind cls cn d
    rw [hr]; exact hP _ (by simp [keys, JF.key])
  · cases kind
    case node =>
      simp only [post, postNode, if_neg ht]
      apply allMapsF_postMixin
      split
      · exact allMapsF_setKey _ _ _ _ hd (allMaps_children _ _)
      · exact hd
    case source => exact allMapsF_popKey _ _ _ (allMapsF_postMixin P o cls d hd)
    all_goals exact allMapsF_postMixin P o cls d hd

/-- **Without tag suppression (and outside the AST_TEST dialect, which rewrites origins) every
nested mapping is an empty placeholder, an index reference, or starts with the type tag.** -/
theorem tagged_all (g : G) (hs : g.opts.skipOn = false) (ht : g.opts.ast ≠ some .test)
    (o : SObj) (j : J) (h : serObj g o = .ok j) : AllMaps TaggedMap j := by
  refine serObj_allMaps TaggedMap (fun _ => true) g (.inl rfl)
    (fun _ n => .inr (.inl (by simp [keys, JF.key]))) ?_ o j ?_ h
  · intro kind cls idx fields cn d _ _ hd
    exact tagged_post TaggedMap (fun _ h => .inr (.inr h)) g.opts hs ht kind cls cn d hd
  · have : ∀ o, allObj (fun _ => true) o = true := by
      intro o
      exact allObj_true o
    exact this o

/-- **By default** (no options at all) there are no index references either: every nested
mapping is an empty placeholder or starts with the type tag. -/
theorem default_tagged_all (md : Option MD) (o : SObj) (j : J)
    (h : serObj { opts := {}, md := md } o = .ok j) : AllMaps TaggedMap' j := by
  refine serObj_allMaps TaggedMap' (fun _ => true) _ (.inl rfl)
    (fun hc => by simp [Opts.srcOn] at hc) ?_ o j (allObj_true o) h
  intro kind cls idx fields cn d _ _ hd
  exact tagged_post TaggedMap' (fun _ h => .inr h) {} rfl (by decide) kind cls cn d hd

/-! ## 7. the explorer dialect lists each node's child field names -/

/-- **Under the AST_EXPLORER dialect the mapping of a node has the entry
`_children: [child field names]`** (with or without key sorting, tag suppression, …). -/
theorem explorer_lists_child_fields (g : G) (he : g.opts.ast = some .explorer) (cls : Str)
    (idx : Nat) (fs : List SField) (cn : List Str) (m : List JF)
    (h : serObj g (.mk .node cls idx fs cn) = .ok (.map m)) :
    JF.mk childrenKey (.arr (cn.map .str)) ∈ m := by
  have hidx : ¬ (Kind.node = .source ∧ g.opts.srcOn = true) := by simp
  simp only [serObj, if_neg hidx] at h
  split at h
  · cases h
  · next d _ =>
    cases h
    have hne : g.opts.ast ≠ some .test := by rw [he]; decide
    simp only [post, postNode, if_pos he, if_neg hne]
    exact mem_postMixin_of_mem _ _ _ _ (mem_setKey_self _ _ _)

/-! ## 8. key sorting: type tag first, remaining keys sorted, in every nested mapping -/

/-- drop a leading type tag -/
def dropTagK : List Str → List Str
  | [] => []
  | k :: r => if k = TYPE_KEY then r else k :: r

/-- the keys after a leading type tag (if any) are in sorted order -/
def SortedMap (fs : List JF) : Prop :=
  (dropTagK (keys fs)).Pairwise fun a b => strLt b a = false

instance (fs : List JF) : Decidable (SortedMap fs) := by unfold SortedMap; infer_instance

abbrev SortedK (ks : List Str) : Prop := ks.Pairwise fun a b => strLt b a = false

theorem sortedK_dropTagK (ks : List Str) (h : SortedK ks) : SortedK (dropTagK ks) := by
  cases ks with
  | nil => exact h
  | cons k r =>
    simp only [dropTagK]
    split
    · exact (List.pairwise_cons.1 h).2
    · exact h

theorem sortedMap_of_sorted (l : List JF) (h : SortedK (keys l)) : SortedMap l :=
  sortedK_dropTagK _ h

theorem sortedMap_tag_cons (v : J) (l : List JF) (h : SortedK (keys l)) :
    SortedMap (.mk TYPE_KEY v :: l) := by
  simpa [SortedMap, keys, JF.key, dropTagK] using h

theorem sortedK_keys_of_KSorted (l : List JF) (h : KSorted l) : SortedK (keys l) := by
  unfold KSorted at h
  simpa [SortedK, keys, List.pairwise_map] using h

theorem sortedK_bodyOf (o : Opts) (hs : o.sortOn = true) (d : List JF) :
    SortedK (keys (bodyOf o d)) := by
  unfold bodyOf
  rw [if_pos hs]
  exact sortedK_keys_of_KSorted _ (sorted_sortKeys d)

theorem sortedK_popKey (k : Str) (l : List JF) (h : SortedK (keys l)) :
    SortedK (keys (popKey k l)) := by
  have : keys (popKey k l) = (keys l).filter (fun x => !(x == k)) := by
    simp [keys, popKey, List.filter_map, Function.comp_def]
  rw [this]
  exact List.Pairwise.filter _ h

/-- whatever `d` is, with key sorting the mixin hook emits a sorted mapping -/
theorem sortedMap_postMixin (o : Opts) (hs : o.sortOn = true) (cls : Str) (d : List JF) :
    SortedMap (postMixin o cls d) := by
  rw [postMixin_eq]
  split
  · exact sortedMap_of_sorted _ (sortedK_bodyOf o hs d)
  · exact sortedMap_tag_cons _ _ (sortedK_bodyOf o hs d)

theorem sortedMap_pop_postMixin (o : Opts) (hs : o.sortOn = true) (cls : Str) (d : List JF) :
    SortedMap (popKey rawKey (postMixin o cls d)) := by
  rw [postMixin_eq]
  split
  · exact sortedMap_of_sorted _ (sortedK_popKey _ _ (sortedK_bodyOf o hs d))
  · rw [popKey_tag_cons]
    exact sortedMap_tag_cons _ _ (sortedK_popKey _ _ (sortedK_bodyOf o hs d))

theorem sortedMap_congr (a b : List JF) (h : keys a = keys b) : SortedMap a ↔ SortedMap b := by
  unfold SortedMap; rw [h]

/-- decidable well-formedness used by `sorted_all` (only the AST_TEST dialect needs it) -/
def OriginOK (o : SObj) : Prop := allObj originOK1 o = true

/-- an origin-like value serializes to `{}` or to a mapping that has the key `source` -/
theorem originLike_ser (g : G) (v : SVal) (hv : originLike v = true) (fs : List JF)
    (h : serVal g v = .ok (.map fs)) : fs = [] ∨ sourceKey ∈ keys fs := by
  match v, hv with
  | .obj .empty, _ =>
    simp only [serVal, serObj] at h
    cases h
    exact .inl rfl
  | .obj (.mk .origin c i fs' cn'), hv =>
    simp only [originLike, List.contains_iff_mem] at hv
    have hidx : ¬ (Kind.origin = .source ∧ g.opts.srcOn = true) := by simp
    simp only [serVal, serObj, if_neg hidx] at h
    split at h
    · cases h
    · next d' hd' =>
      cases h
      right
      have hk : sourceKey ∈ keys d' := by rw [serFields_keys g fs' d' hd']; exact hv
      obtain ⟨f, hf, hfk⟩ := (mem_keys_iff _ _).1 hk
      exact (mem_keys_iff _ _).2 ⟨f, mem_postMixin_of_mem _ _ _ _ hf, hfk⟩

theorem sortedMap_setSource (dm : J) (fs : List JF) (h : fs = [] ∨ sourceKey ∈ keys fs)
    (hs : SortedMap fs) : SortedMap (setKey sourceKey dm fs) := by
  rcases h with rfl | h
  · simp only [setKey]
    apply sortedMap_of_sorted
    simp [keys]
  · exact (sortedMap_congr _ _ (keys_setKey_of_mem _ _ _ h)).2 hs

theorem sorted_post (g : G) (hs : g.opts.sortOn = true) (kind : Kind) (cls : Str) (idx : Nat)
    (fields : List SField) (cn : List Str) (d : List JF)
    (hw : originOK1 (.mk kind cls idx fields cn) = true) (hser : serFields g fields = .ok d)
    (hd : AllMapsF SortedMap d) :
    SortedMap (post g.opts kind cls cn d) ∧ AllMapsF SortedMap (post g.opts kind cls cn d) := by
  cases kind
  case node =>
    simp only [post, postNode]
    have hd1 : AllMapsF SortedMap (if g.opts.ast = some .explorer then
        setKey childrenKey (.arr (cn.map .str)) d else d) := by
      split
      · exact allMapsF_setKey _ _ _ _ hd (allMaps_children _ _)
      · exact hd
    have h1 := sortedMap_postMixin g.opts hs cls (if g.opts.ast = some .explorer then
        setKey childrenKey (.arr (cn.map .str)) d else d)
    have h2 := allMapsF_postMixin SortedMap g.opts cls _ hd1
    split
    · next ht =>
      have hne : g.opts.ast ≠ some .explorer := by rw [ht]; decide
      simp only [if_neg hne] at h1 h2 ⊢
      refine ⟨(sortedMap_congr _ _ (keys_patchOrigin _ _)).2 h1,
        allMapsF_patchOrigin SortedMap _ _ h2
          (allMaps_testSource SortedMap g.opts (sortedMap_postMixin g.opts hs _ _)) ?_⟩
      intro fs hm hfs
      refine sortedMap_setSource _ fs ?_ hfs
      rcases mem_postMixin _ _ _ _ hm with he | hm
      · exact absurd (show originKey = TYPE_KEY from congrArg JF.key he) (by decide)
      · obtain ⟨f, hf, hfn, hfv⟩ := serFields_mem g fields d hser _ hm
        simp only [originOK1, List.all_eq_true] at hw
        have := hw f hf
        simp only [JF.key] at hfn
        simp only [hfn, beq_self_eq_true, Bool.not_true, Bool.false_or] at this
        exact originLike_ser g f.val this fs hfv
    · exact ⟨h1, h2⟩
  case source =>
    exact ⟨sortedMap_pop_postMixin g.opts hs cls d,
      allMapsF_popKey _ _ _ (allMapsF_postMixin SortedMap g.opts cls d hd)⟩
  all_goals
    exact ⟨sortedMap_postMixin g.opts hs cls d, allMapsF_postMixin SortedMap g.opts cls d hd⟩

/-- **With key sorting every nested mapping lists the type tag first (when it has one) and the
remaining keys in sorted order** — for every object tree, every other option (tag suppression,
explorer / test dialect, index-based sources), every mashumaro dialect. -/
theorem sorted_all (g : G) (hs : g.opts.sortOn = true) (o : SObj) (j : J) (hw : OriginOK o)
    (h : serObj g o = .ok j) : AllMaps SortedMap j := by
  refine serObj_allMaps SortedMap originOK1 g (by decide) (fun _ n => ?_) ?_ o j hw h
  · apply sortedMap_of_sorted; simp [keys]
  · intro kind cls idx fields cn d hwf hser hd
    exact sorted_post g hs kind cls idx fields cn d hwf hser hd

/-! ## 9. every nested object is written under the options of the call -/

mutual
/-- all values nested in an output (the output itself included) -/
def subsJ : J → List J
  | .str s => [.str s]
  | .lit s => [.lit s]
  | .arr xs => .arr xs :: subsJL xs
  | .map fs => .map fs :: subsJF fs
def subsJL : List J → List J
  | [] => []
  | x :: r => subsJ x ++ subsJL r
def subsJF : List JF → List J
  | [] => []
  | f :: r => subsJFld f ++ subsJF r
def subsJFld : JF → List J
  | .mk _ v => subsJ v
end

theorem self_mem_subsJ (j : J) : j ∈ subsJ j := by
  cases j <;> simp [subsJ]

theorem mem_subsJF (m : List JF) (jf : JF) (hm : jf ∈ m) (x : J) (hx : x ∈ subsJ jf.val) :
    x ∈ subsJF m := by
  induction m with
  | nil => simp at hm
  | cons f r ih =>
    simp only [subsJF, List.mem_append]
    rcases List.mem_cons.1 hm with rfl | hm
    · left; cases jf; simpa [subsJFld, JF.val] using hx
    · right; exact ih hm

mutual
/-- the objects a serialization under `g` reaches (itself included): it does not descend into a
source that is written as an index reference, nor into the `_raw` field of a source -/
def subObjs (g : G) : SObj → List SObj
  | .empty => [.empty]
  | .mk kind cls idx fs cn => .mk kind cls idx fs cn ::
      (if kind = .source ∧ g.opts.srcOn = true then [] else subObjsFs g kind fs)
def subObjsFs (g : G) (kind : Kind) : List SField → List SObj
  | [] => []
  | f :: r => subObjsF g kind f ++ subObjsFs g kind r
def subObjsF (g : G) (kind : Kind) : SField → List SObj
  | .mk n v => if kind = .source ∧ n = rawKey then [] else subObjsV g v
def subObjsV (g : G) : SVal → List SObj
  | .atom _ _ => []
  | .seq xs => subObjsVs g xs
  | .obj o => subObjs g o
  | .bomb => []
def subObjsVs (g : G) : List SVal → List SObj
  | [] => []
  | x :: r => subObjsV g x ++ subObjsVs g r
end

theorem mem_post_of_mem (o : Opts) (ht : o.ast ≠ some .test) (kind : Kind) (cls : Str)
    (cn : List Str) (d : List JF) (hc : childrenKey ∉ keys d) (jf : JF) (hm : jf ∈ d)
    (hraw : ¬ (kind = .source ∧ jf.key = rawKey)) : jf ∈ post o kind cls cn d := by
  cases kind
  case node =>
    simp only [post, postNode, if_neg ht]
    apply mem_postMixin_of_mem
    split
    · -- `_children` is not a key of `d`, so the assignment appends and keeps every entry
      have : ∀ l : List JF, jf ∈ l → jf.key ≠ childrenKey →
          jf ∈ setKey childrenKey (.arr (cn.map .str)) l := by
        intro l
        induction l with
        | nil => intro h; simp at h
        | cons f r ih =>
          intro h hne
          cases f with
          | mk k v =>
            simp only [setKey]
            rcases List.mem_cons.1 h with rfl | h
            · simp only [JF.key] at hne
              simp [hne]
            · split
              · exact List.mem_cons_of_mem _ h
              · exact List.mem_cons_of_mem _ (ih h hne)
      refine this d hm ?_
      intro he
      exact hc ((mem_keys_iff _ _).2 ⟨jf, hm, he⟩)
    · exact hm
  case source =>
    simp only [post, popKey, List.mem_filter]
    refine ⟨mem_postMixin_of_mem _ _ _ _ hm, ?_⟩
    simp only [true_and] at hraw
    simpa using hraw
  all_goals exact mem_postMixin_of_mem _ _ _ _ hm

section nested
set_option linter.unusedSectionVars false
variable (g : G) (ht : g.opts.ast ≠ some .test)
include ht

/-- what "reached object `o'` is written under `g` inside `j`" means -/
abbrev Written (g : G) (o' : SObj) (within : List J) : Prop :=
  ∃ j', j' ∈ within ∧ serObj g o' = .ok j'

mutual
theorem serVal_nested (v : SVal) (j : J) (hw : allObjV noChildrenField1 v = true)
    (h : serVal g v = .ok j) : ∀ o' ∈ subObjsV g v, Written g o' (subsJ j) := by
  match v with
  | .atom d c => intro o' ho; simp [subObjsV] at ho
  | .bomb => intro o' ho; simp [subObjsV] at ho
  | .seq xs =>
    simp only [serVal] at h
    split at h
    · next js hjs =>
      cases h
      intro o' ho
      obtain ⟨j', hj', hs⟩ := serVals_nested xs js (by simpa [allObjV] using hw) hjs o'
        (by simpa [subObjsV] using ho)
      exact ⟨j', by simp [subsJ, hj'], hs⟩
    · cases h
  | .obj o =>
    simp only [serVal] at h
    intro o' ho
    exact serObj_nested o j (by simpa [allObjV] using hw) h o' (by simpa [subObjsV] using ho)
theorem serVals_nested (xs : List SVal) (js : List J) (hw : allObjVs noChildrenField1 xs = true)
    (h : serVals g xs = .ok js) : ∀ o' ∈ subObjsVs g xs, Written g o' (subsJL js) := by
  match xs with
  | [] => intro o' ho; simp [subObjsVs] at ho
  | x :: r =>
    simp only [allObjVs, Bool.and_eq_true] at hw
    simp only [serVals] at h
    split at h
    · cases h
    · next j hj =>
      split at h
      · cases h
      · next js' hjs =>
        cases h
        intro o' ho
        simp only [subObjsVs, List.mem_append] at ho
        rcases ho with ho | ho
        · obtain ⟨j', hj', hs⟩ := serVal_nested x j hw.1 hj o' ho
          exact ⟨j', by simp [subsJL, hj'], hs⟩
        · obtain ⟨j', hj', hs⟩ := serVals_nested r js' hw.2 hjs o' ho
          exact ⟨j', by simp [subsJL, hj'], hs⟩
theorem serObj_nested (o : SObj) (j : J) (hw : allObj noChildrenField1 o = true)
    (h : serObj g o = .ok j) : ∀ o' ∈ subObjs g o, Written g o' (subsJ j) := by
  match o with
  | .empty =>
    intro o' ho
    simp only [subObjs, List.mem_singleton] at ho
    subst ho
    exact ⟨j, self_mem_subsJ j, h⟩
  | .mk kind cls idx fields cn =>
    simp only [allObj, Bool.and_eq_true] at hw
    intro o' ho
    simp only [subObjs, List.mem_cons] at ho
    rcases ho with rfl | ho
    · exact ⟨j, self_mem_subsJ j, h⟩
    · simp only [serObj] at h
      split at h
      · next hc => simp [hc] at ho
      · next hc =>
        simp only [if_neg hc] at ho
        split at h
        · cases h
        · next d hd =>
          cases h
          obtain ⟨jf, hjf, hraw, j', hj', hs⟩ := serFields_nested kind fields d hw.2 hd o' ho
          have hck : childrenKey ∉ keys d := by
            rw [serFields_keys g fields d hd]
            intro hm
            obtain ⟨f, hf, hfn⟩ := List.mem_map.1 hm
            have := hw.1
            simp only [noChildrenField1, List.all_eq_true] at this
            have := this f hf
            simp [hfn] at this
          have := mem_post_of_mem g.opts ht kind cls cn d hck jf hjf hraw
          exact ⟨j', by simp only [subsJ]; exact List.mem_cons_of_mem _ (mem_subsJF _ jf this j' hj'), hs⟩
theorem serFields_nested (kind : Kind) (fs : List SField) (d : List JF)
    (hw : allObjFs noChildrenField1 fs = true) (h : serFields g fs = .ok d) :
    ∀ o' ∈ subObjsFs g kind fs, ∃ jf ∈ d, ¬ (kind = .source ∧ jf.key = rawKey) ∧
      Written g o' (subsJ jf.val) := by
  match fs with
  | [] => intro o' ho; simp [subObjsFs] at ho
  | f :: r =>
    simp only [allObjFs, Bool.and_eq_true] at hw
    simp only [serFields] at h
    split at h
    · cases h
    · next jf hjf =>
      split at h
      · cases h
      · next d' hd' =>
        cases h
        intro o' ho
        simp only [subObjsFs, List.mem_append] at ho
        rcases ho with ho | ho
        · obtain ⟨hraw, hwr⟩ := serField_nested kind f jf hw.1 hjf o' ho
          exact ⟨jf, by simp, hraw, hwr⟩
        · obtain ⟨jf', hm, hraw, hwr⟩ := serFields_nested kind r d' hw.2 hd' o' ho
          exact ⟨jf', List.mem_cons_of_mem _ hm, hraw, hwr⟩
theorem serField_nested (kind : Kind) (f : SField) (jf : JF)
    (hw : allObjF noChildrenField1 f = true) (h : serField g f = .ok jf) :
    ∀ o' ∈ subObjsF g kind f, ¬ (kind = .source ∧ jf.key = rawKey) ∧
      Written g o' (subsJ jf.val) := by
  match f with
  | .mk n v =>
    simp only [serField] at h
    split at h
    · cases h
    · next j hj =>
      cases h
      intro o' ho
      simp only [subObjsF] at ho
      split at ho
      · simp at ho
      · next hc =>
        exact ⟨by simpa [JF.key] using hc, serVal_nested v j (by simpa [allObjF] using hw) hj o' ho⟩
end
end nested

/-- **The options of a call take effect on every nested object of that call**: each object the
serialization reaches is written exactly as the same `_serialize` under the same global state
writes it on its own, and that output occurs inside the output of the call.  (Outside the
AST_TEST dialect, which by design overwrites the `source` of node origins afterwards.) -/
theorem nested_same_options (g : G) (ht : g.opts.ast ≠ some .test) (o : SObj) (j : J)
    (hw : allObj noChildrenField1 o = true) (h : serObj g o = .ok j) (o' : SObj)
    (ho : o' ∈ subObjs g o) : ∃ j', j' ∈ subsJ j ∧ serObj g o' = .ok j' :=
  serObj_nested g ht o j hw h o' ho

/-- consequently, under the explorer dialect **each** nested node lists its child field names -/
theorem explorer_lists_child_fields_nested (g : G) (he : g.opts.ast = some .explorer) (o : SObj)
    (j : J) (hw : allObj noChildrenField1 o = true) (h : serObj g o = .ok j)
    (cls : Str) (idx : Nat) (fs : List SField) (cn : List Str)
    (ho : SObj.mk .node cls idx fs cn ∈ subObjs g o) :
    ∃ m, J.map m ∈ subsJ j ∧ JF.mk childrenKey (.arr (cn.map .str)) ∈ m := by
  have hne : g.opts.ast ≠ some .test := by rw [he]; decide
  obtain ⟨j', hj', hs⟩ := nested_same_options g hne o j hw h _ ho
  have hidx : ¬ (Kind.node = .source ∧ g.opts.srcOn = true) := by simp
  have hs' := hs
  simp only [serObj, if_neg hidx] at hs'
  split at hs'
  · cases hs'
  · cases hs'
    exact ⟨_, hj', explorer_lists_child_fields g he cls idx fs cn _ hs⟩

/-! ## 10. deserialization: nested hooks see the state the call entered -/

mutual
theorem deser_sees (g : G) (d : DJ) (l : List G) (h : deser g d = .ok l) : ∀ x ∈ l, x = g := by
  match d with
  | .plain => simp only [deser] at h; cases h; simp
  | .int c => simp only [deser] at h; split at h <;> cases h; simp
  | .bad => simp [deser] at h
  | .node p xs =>
    simp only [deser] at h
    split at h
    · cases h
    · next l' hl' =>
      cases h
      have := deserL_sees g xs l' hl'
      intro x hx
      split at hx
      · rcases List.mem_cons.1 hx with rfl | hx
        · rfl
        · exact this x hx
      · exact this x hx
theorem deserL_sees (g : G) (ds : List DJ) (l : List G) (h : deserL g ds = .ok l) :
    ∀ x ∈ l, x = g := by
  match ds with
  | [] => simp only [deserL] at h; cases h; simp
  | d :: r =>
    simp only [deserL] at h
    split at h
    · cases h
    · next l1 h1 =>
      split at h
      · cases h
      · next l2 h2 =>
        cases h
        intro x hx
        rcases List.mem_append.1 hx with hx | hx
        · exact deser_sees g d l1 h1 x hx
        · exact deserL_sees g r l2 h2 x hx
end

/-- **Every nested hook of a deserialization call sees exactly the options and dialect that call
was given** (call started from the default state), and nothing else. -/
theorem deser_sees_call_state (c : Call) (d : DJ) (hc : c.input = .deser d) (l : List G)
    (h : (call {} c).2 = .ok (.seen l)) :
    ∀ x ∈ l, x = { opts := c.opts.getD {}, md := effMd c.kind c.md } := by
  rw [call_depends_on_own_args, hc] at h
  simp only [body] at h
  split at h
  · next l' hl' => cases h; exact deser_sees _ d _ hl'
  · cases h

/-! ## 11. the two defects of the unrepaired hook, on concrete witnesses

`postNodeOld` is `ASTNode.__post_serialize__` as it stood before the repairs F15 / F21: `_children`
assigned after the mixin hook had sorted, and the AST_TEST placeholder source written as a
literal `{__type, source_uri, source_type}`. -/

def postNodeOld (o : Opts) (cls : Str) (cn : List Str) (d : List JF) : List JF :=
  let out := postMixin o cls d
  let out1 := if o.ast = some .explorer then setKey childrenKey (.arr (cn.map .str)) out else out
  if o.ast = some .test then
    patchOrigin (.map [.mk TYPE_KEY (.str sourceCls), .mk sourceUriKey (.str []),
      .mk sourceTypeKey (.str [])]) out1
  else out1

def idKey : Str := "id".toList

/-- F15: SORT_KEYS + AST_EXPLORER — `_children` ends up after `id`: not sorted. -/
theorem unpatched_children_unsorted_fails :
    ¬ SortedMap (postNodeOld { sort := some true, ast := some .explorer } "N".toList []
        [.mk idKey (.str [])]) := by decide

/-- … while the repaired hook sorts it in -/
example : SortedMap (postNode { sort := some true, ast := some .explorer } "N".toList []
    [.mk idKey (.str [])]) := by decide

/-- F21a: SKIP_CLASS + AST_TEST — the placeholder source carries a type tag. -/
theorem unpatched_test_source_tagged_fails :
    ¬ AllMapsF NoTag (postNodeOld { skip := some true, ast := some .test } "N".toList []
        [.mk originKey (.map [])]) := by
  intro h
  have h1 : AllMapsF NoTag [JF.mk originKey (.map [JF.mk sourceKey
      (.map [.mk TYPE_KEY (.str sourceCls), .mk sourceUriKey (.str []),
        .mk sourceTypeKey (.str [])])])] := h
  simp only [AllMapsF, AllMapsJF, AllMaps, NoTag, keys, List.map, JF.key] at h1
  exact h1.1.2.1.1 (by decide)

/-- F21b: SORT_KEYS + AST_TEST — the placeholder source lists `source_uri` before `source_type`. -/
theorem unpatched_test_source_unsorted_fails :
    ¬ SortedMap [.mk TYPE_KEY (.str sourceCls), .mk sourceUriKey (.str []),
        .mk sourceTypeKey (.str [])] := by decide

example (o : Opts) (hs : o.sortOn = true) :
    AllMaps SortedMap (testSource o) :=
  allMaps_testSource SortedMap o (sortedMap_postMixin o hs _ _)

/-! ## 12. non-vacuity: concrete trees, calls and histories -/

def sc (s : String) : Scalar := .str s.toList
def fld (n : String) (v : SVal) : SField := .mk n.toList v
def at1 (s : String) : SVal := .atom (sc s) (sc s)

def demoSource : SObj :=
  .mk .source "MemoryTextSource".toList 3
    [fld "source_uri" (at1 "mem0"), fld "source_type" (at1 "<memory>"), fld "_raw" (at1 "text")] []
def demoPoint : SObj :=
  .mk .point "CodePoint".toList 0
    [fld "index" (.atom (.lit "4".toList) (sc "#4")), fld "line" (.atom (.lit "1".toList) (sc "#1"))] []
def demoOrigin : SObj :=
  .mk .origin "CodeOrigin".toList 0
    [fld "source" (.obj demoSource),
     fld "position" (.obj (.mk .position "CodeRange".toList 0 [fld "start" (.obj demoPoint)] []))] []
def demoLeaf (v : SVal) : SObj :=
  .mk .node "Leaf".toList 0
    [fld "id" (at1 "L"), fld "content_id" (at1 "cl"), fld "origin" (.obj .empty), fld "v" v] []
def demoTree (v : SVal) : SObj :=
  .mk .node "Tup".toList 0
    [fld "id" (at1 "T"), fld "content_id" (at1 "ct"), fld "origin" (.obj demoOrigin),
     fld "items" (.seq [.obj (demoLeaf v), .obj (demoLeaf (at1 "z"))])] ["items".toList]
def good : SObj := demoTree (.atom (.lit "7".toList) (sc "#7"))
def bombed : SObj := demoTree .bomb      -- the raising property sits two levels down

def gAll : G := { opts := { skip := some true, sort := some true, src := some true, ast := some .test },
                  md := some .custom }
def gSortExplorer : G := { opts := { sort := some true, ast := some .explorer } }

def cAll (o : SObj) : Call :=
  { kind := .asDict, opts := some gAll.opts, md := some .custom, input := .ser o }
def cPlain (o : SObj) : Call := { kind := .asDict, opts := none, md := none, input := .ser o }

/-- a call with every option raises two levels down — the slots are reset all the same … -/
example : (call {} (cAll bombed)).2 = .error () ∧ (call {} (cAll bombed)).1 = {} :=
  ⟨rfl, reset_after _ _ (by simp [cAll])⟩
example (g : G) : (call g (cAll bombed)).1 = {} :=
  reset_after_raise g _ () (by simp [cAll]) rfl
example (g : G) : call g { kind := .fromJson, opts := some gAll.opts, md := none, input := .unparsable }
    = (g, .error ()) := call_unparsable g _ rfl

/-- … and the next call without options produces the default output: tagged, unsorted, no
index reference, ints in plain format (history: options + raise, options + success, plain) -/
example : ((runSeq {} [cAll bombed, cAll good, cPlain good]).1.map (·.2)) = [{}, {}, {}] ∧
    ((runSeq {} [cAll bombed, cAll good, cPlain good]).1.map (·.1))[2]? =
      some (body {} (.ser good)) := by
  rw [seq_independent]; exact ⟨rfl, by simp [call_depends_on_own_args, cPlain, effMd]⟩
example : (runSeq {} [cAll bombed, cAll good, cPlain good]).2 = {} := seq_final_default _

example : (call {} (cAll good)).2 = body gAll (.ser good) := call_depends_on_own_args _

/-- hypotheses of the shape theorems are satisfiable on a tree with an origin, a source, a code
point and nested nodes, and the conclusions are about a real (successful) output -/
example : ∃ j, serObj gSortExplorer good = .ok j ∧ AllMaps SortedMap j :=
  ⟨_, rfl, sorted_all gSortExplorer rfl good _ rfl rfl⟩
example : ∃ j, serObj gAll good = .ok j ∧ AllMaps SortedMap j ∧ AllMaps NoTag j :=
  ⟨_, rfl, sorted_all gAll rfl good _ rfl rfl, untagged_all gAll rfl good _ rfl rfl⟩
example : ∃ j, serObj { opts := { src := some true } } good = .ok j ∧ AllMaps TaggedMap j :=
  ⟨_, rfl, tagged_all { opts := { src := some true } } rfl (by decide) good _ rfl⟩
example : ∃ j, serObj {} good = .ok j ∧ AllMaps TaggedMap' j :=
  ⟨_, rfl, default_tagged_all none good _ rfl⟩
example : (serObj {} demoSource).toBool = true := rfl
example (j : J) (h : serObj {} demoSource = .ok j) :
    ∃ rest, j = .map (.mk TYPE_KEY (.str "MemoryTextSource".toList) :: rest) :=
  mk_carries_class_tag {} rfl .source _ 3 _ [] j (by decide) h
example : serObj {} .empty = .ok (.map []) := rfl
example (o : SObj) (h : serObj {} o = .ok (.map [])) : o = .empty := empty_only_placeholder {} rfl o h
example : (serObj gSortExplorer good).toBool = true := rfl
example (m : List JF) (h : serObj gSortExplorer good = .ok (.map m)) :
    JF.mk childrenKey (.arr [.str "items".toList]) ∈ m :=
  explorer_lists_child_fields gSortExplorer rfl _ _ _ _ m h

theorem self_mem_subObjs (g : G) (o : SObj) : o ∈ subObjs g o := by
  cases o <;> simp [subObjs]

theorem leaf_reached : demoLeaf (at1 "z") ∈ subObjs gSortExplorer good := by
  simp [good, demoTree, fld, subObjs, subObjsFs, subObjsF, subObjsV, subObjsVs, self_mem_subObjs]

/-- the nested leaf is reached, written under the same options, and lists its (zero) child fields -/
example (j : J) (h : serObj gSortExplorer good = .ok j) :
    ∃ m, J.map m ∈ subsJ j ∧ JF.mk childrenKey (.arr []) ∈ m :=
  explorer_lists_child_fields_nested gSortExplorer rfl good j rfl h "Leaf".toList 0 _ [] leaf_reached

/-- deserialization: a probe two levels down sees the entered state; a malformed spot raises and
the state is reset -/
def cDeser (d : DJ) : Call :=
  { kind := .fromMsgpck, opts := some gAll.opts, md := none, input := .deser d }
example : (call {} (cDeser (.node false [.plain, .node true [.int false]]))).2 =
    .ok (.seen [{ opts := gAll.opts, md := some .msgpack }]) := rfl
example : call {} (cDeser (.node false [.plain, .node true [.bad]])) = ({}, .error ()) := rfl
example (l : List G) (h : (call {} (cDeser (.node false [.plain, .node true [.int false]]))).2
      = .ok (.seen l)) : ∀ x ∈ l, x = { opts := gAll.opts, md := some .msgpack } :=
  deser_sees_call_state _ _ rfl l h

end C16
end PyOak
