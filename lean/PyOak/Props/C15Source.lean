/-
C15 (additions, target 3) — `==` on sources is an equivalence; consequences for `mergeable` and for the source of a
multi-origin.

`MultiOrigin.__post_init__` (origin.py):

    if all(origin.source == self.origins[0].source for origin in self.origins[1:]):  source = origins[0].source
    else:                                         source = SourceSet(tuple([origin.source for origin in self.origins]))

so the decision compares every member with the FIRST one.  Because `==` (`SrcV.beq`: same class and same compared
fields; a `SourceSet` member-wise) is reflexive, symmetric and transitive (`srcBeq_refl/symm/trans`), that test is the
order-independent statement "all members have pairwise `==` sources" (`common_iff_pairwise`, `commonSrc_perm`).
In the common case the source is the first member's source — `==` to every member's source, and `==` to what any other
operand order would give (`mkMulti_common_perm`); otherwise it is the `SourceSet` of ALL members' sources in operand order,
duplicates included (NOT the distinct sources: `sourceSet_keeps_duplicates`).
-/
import PyOak.Props.C15
namespace PyOak.C15
open PyOak.Gen PyOak.OriginAlg

/-! ### `SrcV.beq` is an equivalence relation -/

mutual
theorem srcBeq_refl : ∀ a : SrcV, SrcV.beq a a = true
  | .one s => by simp [SrcV.beq]
  | .set ms => by rw [SrcV.beq]; exact srcBeqList_refl ms
theorem srcBeqList_refl : ∀ xs : List SrcV, SrcV.beqList xs xs = true
  | [] => by simp [SrcV.beqList]
  | x :: r => by rw [SrcV.beqList, srcBeq_refl x, srcBeqList_refl r]; rfl
end

mutual
theorem srcBeq_symm : ∀ a b : SrcV, SrcV.beq a b = SrcV.beq b a
  | .one s, .one t => by simp only [SrcV.beq]; exact Bool.beq_comm
  | .set xs, .set ys => by rw [SrcV.beq, SrcV.beq]; exact srcBeqList_symm xs ys
  | .one _, .set _ => by simp [SrcV.beq]
  | .set _, .one _ => by simp [SrcV.beq]
theorem srcBeqList_symm : ∀ xs ys : List SrcV, SrcV.beqList xs ys = SrcV.beqList ys xs
  | [], [] => rfl
  | x :: xs, y :: ys => by rw [SrcV.beqList, SrcV.beqList, srcBeq_symm x y, srcBeqList_symm xs ys]
  | [], _ :: _ => by simp [SrcV.beqList]
  | _ :: _, [] => by simp [SrcV.beqList]
end

mutual
theorem srcBeq_trans : ∀ a b c : SrcV, SrcV.beq a b = true → SrcV.beq b c = true → SrcV.beq a c = true
  | .one s, b, c => by
      cases b <;> cases c
      case one.one t u => simp only [SrcV.beq, beq_iff_eq]; intro h1 h2; exact h1.trans h2
      all_goals simp [SrcV.beq]
  | .set xs, b, c => by
      cases b <;> cases c
      case set.set ys zs => simp only [SrcV.beq]; exact srcBeqList_trans xs ys zs
      all_goals simp [SrcV.beq]
theorem srcBeqList_trans : ∀ xs ys zs : List SrcV,
    SrcV.beqList xs ys = true → SrcV.beqList ys zs = true → SrcV.beqList xs zs = true
  | [], ys, zs => by
      cases ys <;> cases zs <;> simp [SrcV.beqList]
  | x :: xs, ys, zs => by
      cases ys <;> cases zs
      case cons.cons y ys z zs =>
        simp only [SrcV.beqList, Bool.and_eq_true]
        intro h1 h2
        exact ⟨srcBeq_trans x y z h1.1 h2.1, srcBeqList_trans xs ys zs h1.2 h2.2⟩
      all_goals simp [SrcV.beqList]
end

/-- the three laws for the `==` the model actually uses (`instance : BEq SrcV := ⟨SrcV.beq⟩`) -/
theorem src_eq_refl (a : SrcV) : (a == a) = true := srcBeq_refl a
theorem src_eq_symm (a b : SrcV) : (a == b) = (b == a) := srcBeq_symm a b
theorem src_eq_trans (a b c : SrcV) (h1 : (a == b) = true) (h2 : (b == c) = true) : (a == c) = true :=
  srcBeq_trans a b c h1 h2

/-- a leaf source is `==` exactly to the leaf sources of its key; a source set exactly to the source sets that are
member-wise `==` (same length) -/
theorem src_eq_one (s t : Src) : (SrcV.one s == SrcV.one t) = (s.key == t.key) := by
  show SrcV.beq _ _ = _; simp [SrcV.beq]
theorem src_eq_one_set (s : Src) (ms : List SrcV) : (SrcV.one s == SrcV.set ms) = false ∧ (SrcV.set ms == SrcV.one s) = false :=
  ⟨by show SrcV.beq _ _ = _; simp [SrcV.beq], by show SrcV.beq _ _ = _; simp [SrcV.beq]⟩
theorem srcBeqList_iff (xs ys : List SrcV) :
    SrcV.beqList xs ys = true ↔ xs.length = ys.length ∧ ∀ i (h1 : i < xs.length) (h2 : i < ys.length), (xs[i] == ys[i]) = true := by
  induction xs generalizing ys with
  | nil => cases ys <;> simp [SrcV.beqList]
  | cons x xs ih =>
    cases ys with
    | nil => simp [SrcV.beqList]
    | cons y ys =>
      simp only [SrcV.beqList, Bool.and_eq_true, ih, List.length_cons, Nat.add_right_cancel_iff]
      constructor
      · rintro ⟨h0, hl, hi⟩
        refine ⟨hl, ?_⟩
        intro i h1 h2
        cases i with
        | zero => exact h0
        | succ i => exact hi i (by simpa using h1) (by simpa using h2)
      · rintro ⟨hl, hi⟩
        refine ⟨hi 0 (by simp) (by simp), hl, ?_⟩
        intro i h1 h2
        exact hi (i + 1) (by simpa using h1) (by simpa using h2)
theorem src_eq_set (xs ys : List SrcV) :
    (SrcV.set xs == SrcV.set ys) = true ↔
      xs.length = ys.length ∧ ∀ i (h1 : i < xs.length) (h2 : i < ys.length), (xs[i] == ys[i]) = true := by
  rw [← srcBeqList_iff]; show SrcV.beq _ _ = _ ↔ _; simp [SrcV.beq]

/-! ### `mergeable` is symmetric -/

/-- the fusing decision of `CodeOrigin.__add__` does not depend on which operand is on the left -/
theorem mergeable_symm (a b : Origin) : mergeable a b = mergeable b a := by
  cases a <;> cases b <;> simp only [mergeable]
  rw [src_eq_symm, overlaps_symm]

/-- … and a code origin is always fusable with itself when its range is well-ordered -/
theorem mergeable_self (g : Bool) (s : SrcV) (r : CodeRange) (h : r.valid = true) :
    mergeable (.code g s r) (.code g s r) = true := by
  simp only [mergeable, src_eq_refl, Bool.true_and]
  revert h; grind

/-! ### the source of a multi-origin -/

/-- the test of `MultiOrigin.__post_init__`: every member after the first has a source `==` to the first one's -/
def commonSrc : List Origin → Bool
  | [] => true
  | x :: r => r.all (fun o => o.source == x.source)

/-- that test is the symmetric statement "all members have pairwise `==` sources" -/
theorem common_iff_pairwise (xs : List Origin) :
    commonSrc xs = true ↔ ∀ a ∈ xs, ∀ b ∈ xs, (a.source == b.source) = true := by
  cases xs with
  | nil => simp [commonSrc]
  | cons x r =>
    simp only [commonSrc, List.all_eq_true]
    constructor
    · intro h
      have hx : ∀ a ∈ x :: r, (a.source == x.source) = true := by
        intro a ha
        rcases List.mem_cons.mp ha with rfl | ha
        · exact src_eq_refl _
        · exact h a ha
      intro a ha b hb
      exact src_eq_trans _ _ _ (hx a ha) (by rw [src_eq_symm]; exact hx b hb)
    · intro h o ho
      exact h o (List.mem_cons_of_mem _ ho) x (by simp)

/-- so it does not depend on the order of the members -/
theorem commonSrc_perm (xs ys : List Origin) (h : xs.Perm ys) : commonSrc xs = commonSrc ys := by
  have key : ∀ xs ys : List Origin, xs.Perm ys → commonSrc xs = true → commonSrc ys = true := by
    intro xs ys h hx
    rw [common_iff_pairwise] at hx ⊢
    intro a ha b hb
    exact hx a (h.mem_iff.mpr ha) b (h.mem_iff.mpr hb)
  cases hx : commonSrc xs with
  | true => exact (key xs ys h hx).symm
  | false =>
    cases hy : commonSrc ys with
    | false => rfl
    | true => rw [key ys xs h.symm hy] at hx; cases hx

/-- **source of a constructed MultiOrigin.**  With at least two members: if all members have pairwise `==` sources the
source is the first member's source, which is `==` to the source of every member; otherwise it is the `SourceSet` of ALL
members' sources in operand order.  The position is always the `PositionSet` of the members' positions in order, and the
members are kept as they are. -/
theorem mkMulti_common (x y : Origin) (t : List Origin) :
    ((∀ a ∈ x :: y :: t, ∀ b ∈ x :: y :: t, (a.source == b.source) = true) →
        mkMulti (x :: y :: t) = .ok (.multi x.source (.set ((x :: y :: t).map Origin.position)) (x :: y :: t))) ∧
    (¬(∀ a ∈ x :: y :: t, ∀ b ∈ x :: y :: t, (a.source == b.source) = true) →
        mkMulti (x :: y :: t) = .ok (.multi (.set ((x :: y :: t).map Origin.source))
          (.set ((x :: y :: t).map Origin.position)) (x :: y :: t))) := by
  rw [← common_iff_pairwise, mkMulti_spec]
  constructor
  · intro h
    have : (y :: t).all (fun o => o.source == x.source) = true := h
    rw [if_pos this]
  · intro h
    have : ¬ (y :: t).all (fun o => o.source == x.source) = true := h
    rw [if_neg this]

/-- the source of the multi-origin a constructor call returns, as a function of the member list -/
theorem mkMulti_source (xs : List Origin) (m : Origin) (h : mkMulti xs = .ok m) :
    m.source = (if commonSrc xs then (xs.head?.map Origin.source).getD (.one noSrc) else .set (xs.map Origin.source)) ∧
    m.position = .set (xs.map Origin.position) ∧ leaves m = xs ∧ 2 ≤ xs.length := by
  match xs, h with
  | [], h => cases h
  | [_], h => cases h
  | x :: y :: t, h =>
    rw [mkMulti_spec] at h
    cases h
    refine ⟨?_, rfl, rfl, by simp⟩
    show (if _ then _ else _) = _
    rfl

/-- **independence of operand order**: for two orders of the same members, either both multi-origins take a common
source — and the two (each the source of its own first member) are `==` — or both get a `SourceSet`, listing the
members' sources in the respective order (so the two sets list the same sources, permuted). -/
theorem mkMulti_common_perm (xs ys : List Origin) (hp : xs.Perm ys) (m m' : Origin)
    (h : mkMulti xs = .ok m) (h' : mkMulti ys = .ok m') :
    (commonSrc xs = true ∧ commonSrc ys = true ∧ (m.source == m'.source) = true ∧
        (∀ o ∈ xs, (o.source == m.source) = true) ∧ (∀ o ∈ ys, (o.source == m'.source) = true)) ∨
    (commonSrc xs = false ∧ commonSrc ys = false ∧ m.source = .set (xs.map Origin.source) ∧
        m'.source = .set (ys.map Origin.source) ∧ (xs.map Origin.source).Perm (ys.map Origin.source)) := by
  have s1 := (mkMulti_source xs m h).1
  have s2 := (mkMulti_source ys m' h').1
  have hc := commonSrc_perm xs ys hp
  cases hx : commonSrc xs with
  | true =>
    left
    have hy : commonSrc ys = true := by rw [← hc, hx]
    rw [hx, if_pos rfl] at s1
    rw [hy, if_pos rfl] at s2
    have px := (common_iff_pairwise xs).mp hx
    match xs, ys, h, h' with
    | x :: y :: t, x' :: y' :: t', _, _ =>
      simp only [List.head?_cons, Option.map_some, Option.getD_some] at s1 s2
      have hx'mem : x' ∈ x :: y :: t := hp.mem_iff.mpr (by simp)
      refine ⟨rfl, hy, ?_, ?_, ?_⟩
      · rw [s1, s2]; exact px x (by simp) x' hx'mem
      · intro o ho; rw [s1]; exact px o ho x (by simp)
      · intro o ho; rw [s2]; exact px o (hp.mem_iff.mpr ho) x' hx'mem
  | false =>
    right
    have hy : commonSrc ys = false := by rw [← hc, hx]
    rw [hx] at s1
    rw [hy] at s2
    exact ⟨rfl, hy, by simpa using s1, by simpa using s2, hp.map _⟩

/-- the source set keeps duplicates and operand order: it is NOT "the distinct sources in order of first appearance" -/
theorem sourceSet_keeps_duplicates :
    mkMulti [c02, xB, c57] = .ok (.multi (.set [sA, sB, sA])
      (.set [.code ⟨⟨0, 1, 0⟩, ⟨2, 1, 2⟩⟩, .xml ['/', 'r', '/', 'x'], .code ⟨⟨5, 1, 5⟩, ⟨7, 1, 7⟩⟩]) [c02, xB, c57]) := rfl

/-- **the source of `merge_origins(..)`** on flat operands that list at least two single origins: decided on the LISTED
single origins (operands with NoOrigin dropped and multi-origins flattened), by the order-independent test -/
theorem merge_source (os : List Origin) (hf : ∀ o ∈ os, Flat o) (x y : Origin) (t : List Origin)
    (hl : os.flatMap leaves = x :: y :: t) :
    ∃ m, merge os = .ok m ∧ leaves m = x :: y :: t ∧
      m.source = (if commonSrc (x :: y :: t) then x.source else .set ((x :: y :: t).map Origin.source)) ∧
      m.position = .set ((x :: y :: t).map Origin.position) := by
  have h := ((merge_flat_cases os hf).2.2 x y t hl)
  rw [mkMulti_spec] at h
  exact ⟨_, h, rfl, rfl, rfl⟩

/-! ### non-vacuity -/
/-- two different objects of one `==`-class (same key, different text): common source = the FIRST one's -/
def sA' : SrcV := .one { key := 1, fqn := ['a'], raw := .text ['x', 'y'] }
example : (sA == sA') = true ∧ (sA == sB) = false := by decide
example : commonSrc [c02, .code false sA' ⟨⟨5, 1, 5⟩, ⟨7, 1, 7⟩⟩] = true ∧ commonSrc [c02, xB, c57] = false := by decide
example : mergeable c02 c24 = true ∧ mergeable c24 c02 = true := by decide
/-- hypotheses of `mkMulti_common_perm`, set case: two orders of three members over two sources -/
example : [c02, xB, c57].Perm [xB, c57, c02] ∧ (∃ m, mkMulti [c02, xB, c57] = .ok m) ∧
    (∃ m', mkMulti [xB, c57, c02] = .ok m') ∧ commonSrc [c02, xB, c57] = false :=
  ⟨(List.perm_append_comm : ([c02] ++ [xB, c57]).Perm ([xB, c57] ++ [c02])), ⟨_, rfl⟩, ⟨_, rfl⟩, by decide⟩
/-- … and common case: the two orders take DIFFERENT objects (texts "hello world" / "xy") of one `==`-class as source -/
example : let d : Origin := .code false sA' ⟨⟨5, 1, 5⟩, ⟨7, 1, 7⟩⟩
    [c02, d].Perm [d, c02] ∧ (mkMulti [c02, d]).toOption.map Origin.source = some sA ∧
    (mkMulti [d, c02]).toOption.map Origin.source = some sA' ∧ (sA == sA') = true :=
  ⟨List.Perm.swap _ _ _, rfl, rfl, by decide⟩
/-- hypotheses of `merge_source`: flat operands listing three single origins -/
example : (∀ o ∈ [c02, Origin.none, xB, c57], Flat o) ∧ [c02, Origin.none, xB, c57].flatMap leaves = [c02, xB, c57] :=
  ⟨by intro o ho; simp at ho; rcases ho with rfl | rfl | rfl | rfl <;> trivial, rfl⟩

end PyOak.C15
