/-
Bridge for the LEGACY xpath matcher (C20, an OPTIONAL obligation — harness/kernels_tie.py `optional_legacy_xpath`).

`Gen/KernelsLegacyXPath.lean` is regenerated on every run of `./check C20` from `_match_node_xpath` of
src/pyoak/legacy/match/xpath.py (py2lean_k.py `generate_legacy_xpath`): a function over an ABSTRACT node type with the
primitives `isinstance`, `parent`, `parent_field`, `parent_index`, `ancestors` (the legacy source has no separate
`_match_node_element`: the per-element test is inline, so there is ONE generated function).  This file instantiates the
primitives with what the heap model of C18 / C20 stores (`LState.parent`, `LObj.pfield`, `LObj.pindex`, `LObj.mro`,
`Legacy.ancestors`) and proves the hand-written heap-level model equal to the generated function wherever it returns:

  lmatchH_eq_gen        lmatchH s fuel on L = some b  →  gen s fuel on (L.map toLEl) = b        (every heap, fuel, node | None, list)
  lxmatchH_eq_gen       lxmatchH s L u = some b       →  gen s (fuelOf s) (some u) (L.map toLEl) = b
  lmatchElemH_eq_gen    the inline per-element test: on an object without parent and a one-element list (no `anywhere`)
                        the generated function IS `lmatchElemH`
  legacy_gen_eq_sat     Inv + Ranked + ParentClean, u attached, HeadOK L: the generated function decides the documented
                        semantics `sat` along the heap's chain of u (composition with C20.legacy_match_heap)
  legacy_gen_eq_sat_detached   the same for objects that are not attached (one-member chain)
  legacy_gen_run        … hence after every admissible history from the empty world (C20.legacy_match_heap_run)
  lmatch_eq_gen_chain   the chain-level model: lmatchH and lmatch agree (C20.lmatchH_eq_lmatch), so `lmatch` on the chain read
                        off the heap = the generated function
-/
import PyOak.Gen.KernelsLegacyXPath
import PyOak.Props.C20ParentClean
namespace PyOak.GenBridgeLX
open PyOak Legacy Legacy.C18 LState C20
open PyOak.GenK.LX

/-! ### the primitives, read off the heap -/

/-- `isinstance(node, cls)`: the class is in the object's MRO -/
def isinstH (s : LState) (u : Nat) (c : Str) : Bool := (s.obj u).mro.contains c
/-- `node.parent_field` (the model stores the field's name) -/
def pfieldH (s : LState) (u : Nat) : Option FieldR := (s.obj u).pfield.map FieldR.mk
/-- `node.parent_index` -/
def pindexH (s : LState) (u : Nat) : Option Int := (s.obj u).pindex.map Int.ofNat
/-- `list(node.ancestors())` (a walk that does not end: the model answers `none`, the theorems below are about walks that end) -/
def ancH (s : LState) (u : Nat) : List Nat := (Legacy.ancestors s u).getD []

def toEl (e : XElem) : ASTXpathElement Str :=
  { ast_class := e.cls, parent_field := e.field, parent_index := e.idx.map Int.ofNat, anywhere := e.anywhere }

def toLEl : LElem → LegacyEl Str
  | .el e => .element (toEl e)
  | .anyw => .anywhereElement

/-- the generated `_match_node_xpath` over the heap `s` -/
abbrev gen (s : LState) : Nat → Option Nat → List (LegacyEl Str) → Bool :=
  match_node_xpath (isinstH s) s.parent (pfieldH s) (pindexH s) (ancH s)

/-! ### the bridge -/

/-- the inline per-element test of the generated function, in the model's vocabulary -/
theorem elem_test (s : LState) (u : Nat) (e : XElem) :
    (isinstH s u (toEl e).ast_class
      && (((toEl e).parent_field.isNone
            || ((toEl e).parent_field == (if (pfieldH s u).isSome then (pfieldH s u).map (·.name) else none)))
          && ((toEl e).parent_index.isNone || ((toEl e).parent_index == pindexH s u))))
      = lmatchElemH (s.obj u) e := by
  unfold lmatchElemH isinstH pfieldH pindexH toEl
  cases e.field <;> cases e.idx <;> cases (s.obj u).pfield <;> cases (s.obj u).pindex <;> simp <;>
    (rw [Bool.eq_iff_iff]; simp only [Bool.and_eq_true, beq_iff_eq, Int.natCast_inj]; grind)

theorem anyAnc_any (f : Nat → Option Bool) (h : Nat → Bool) :
    ∀ (as : List Nat) (b : Bool), (∀ a ∈ as, ∀ b', f a = some b' → h a = b') → anyAnc f as = some b → as.any h = b := by
  intro as
  induction as with
  | nil => intro b _ hr; simp [anyAnc] at hr; simp [← hr]
  | cons a r ih =>
    intro b hfh hr
    simp only [anyAnc] at hr
    cases hfa : f a with
    | none => simp [hfa] at hr
    | some v =>
      have hv := hfh a (by simp) v hfa
      cases v with
      | true => simp [hfa] at hr; simp [hv, ← hr]
      | false =>
        simp only [hfa] at hr
        have := ih b (fun x hx => hfh x (by simp [hx])) hr
        simp [hv, this]

/-- **model = generated**: wherever the heap-level model of `_match_node_xpath` returns (it answers `none` only when the
fuel runs out, i.e. on a cyclic heap), the function generated from the source returns the same — for every heap, every
fuel, `node` an object or `None`, every element list. -/
theorem lmatchH_eq_gen (s : LState) : ∀ (fuel : Nat) (on : Option Nat) (L : List LElem) (b : Bool),
    lmatchH s fuel on L = some b → gen s fuel on (L.map toLEl) = b := by
  intro fuel
  induction fuel with
  | zero => intro on L b h; simp [lmatchH] at h
  | succ fuel ih =>
    intro on L b h
    cases L with
    | nil =>
      cases on <;> simp [lmatchH] at h <;> simp [gen, match_node_xpath, ← h]
    | cons x tail =>
      cases x with
      | anyw =>
        cases on <;> simp [lmatchH] at h <;> simp [gen, match_node_xpath, toLEl, LegacyEl.isAnywhere, ← h]
      | el e =>
        cases on with
        | none => simp [lmatchH] at h; simp [gen, match_node_xpath, toLEl, LegacyEl.isAnywhere, ← h]
        | some u =>
          have hown : ∀ b', (if lmatchElemH (s.obj u) e then lmatchH s fuel (s.parent u) tail else some false) = some b' →
              (if lmatchElemH (s.obj u) e then gen s fuel (s.parent u) (tail.map toLEl) else false) = b' := by
            intro b' hb'
            by_cases hm : lmatchElemH (s.obj u) e = true
            · simp only [hm, if_true] at hb' ⊢
              exact ih _ _ _ hb'
            · simp only [hm] at hb' ⊢
              simpa using hb'
          simp only [lmatchH] at h
          simp only [gen, List.map_cons, toLEl, match_node_xpath, elem_test]
          by_cases ha : e.anywhere = true
          · have ha' : (toEl e).anywhere = true := ha
            simp only [ha, if_true] at h
            simp only [ha', if_true]
            cases hanc : Legacy.ancestors s u with
            | none => simp [hanc] at h
            | some as =>
              simp only [hanc] at h
              have hA : ancH s u = as := by simp [ancH, hanc]
              rw [hA]
              cases hany : anyAnc (fun a => lmatchH s fuel (some a) (.el e :: tail)) as with
              | none => simp [hany] at h
              | some v =>
                have := anyAnc_any _ (fun a => gen s fuel (some a) ((LElem.el e :: tail).map toLEl)) as v
                  (fun a _ b' hb' => ih _ _ _ hb') hany
                simp only [List.map_cons, toLEl, gen] at this
                rw [this]
                cases v with
                | true => simp [hany] at h; simp [← h]
                | false =>
                  simp only [hany] at h
                  simpa using hown b h
          · have ha0 : e.anywhere = false := by simpa using ha
            have ha' : (toEl e).anywhere = false := ha0
            simp only [ha0, Bool.false_eq_true, if_false] at h
            simp only [ha', Bool.false_eq_true, if_false]
            simpa using hown b h

/-- legacy `ASTXpath.match(node)` on the heap = the generated function started with the model's fuel -/
theorem lxmatchH_eq_gen (s : LState) (L : List LElem) (u : Nat) (b : Bool) (h : lxmatchH s L u = some b) :
    gen s (fuelOf s) (some u) (L.map toLEl) = b :=
  lmatchH_eq_gen s _ _ _ _ h

/-- the per-element test is inline in the legacy source; it is pinned by the generated function on an object without
parent (then `_match_node_xpath(None, [])` answers True): for a one-element list without the `anywhere` flag the
generated function IS `lmatchElemH` -/
theorem lmatchElemH_eq_gen (s : LState) (u : Nat) (e : XElem) (fuel : Nat) (hp : s.parent u = none)
    (ha : e.anywhere = false) :
    gen s (fuel + 2) (some u) [toLEl (.el e)] = lmatchElemH (s.obj u) e := by
  have ha' : (toEl e).anywhere = false := ha
  simp only [gen, toLEl, match_node_xpath, elem_test, ha', hp]
  cases lmatchElemH (s.obj u) e <;> simp

/-! ### the generated function decides `sat` -/

variable (H Hc : Str → Str)

/-- **C20 (xpath) for the source as it is now**: in every state that satisfies the C18 invariant, is acyclic and
parent-clean, for every attached object and every element list a legacy `ASTXpath` can hold, the function generated from
the legacy `_match_node_xpath`, run over the heap's parent pointers, decides the documented path semantics `sat` along the
heap's chain of the object. -/
theorem legacy_gen_eq_sat {s : LState} (hI : Inv Hc s) (hR : Ranked s) (hP : ParentClean s) {u : Nat} (hu : Att s u)
    (L : List LElem) (hL : HeadOK L) :
    ∃ l, UpChain s u l ∧ IsChain (treeOf s (topOf u l)) (heapChain s u l) ∧
      gen s (fuelOf s) (some u) (L.map toLEl) = sat (heapChain s u l) (shift L).reverse := by
  obtain ⟨l, hl, _, hc, _, hm⟩ := legacy_match_heap Hc hI hR hP hu L hL
  exact ⟨l, hl, hc, lxmatchH_eq_gen s L u _ hm⟩

/-- objects that are not attached: the one-member chain -/
theorem legacy_gen_eq_sat_detached {s : LState} (hI : Inv Hc s) (hP : ParentClean s) {u : Nat} (hus : u < s.size)
    (hd : ¬ Att s u) (L : List LElem) (hL : HeadOK L) :
    gen s (fuelOf s) (some u) (L.map toLEl) = sat [(treeOf s u, none)] (shift L).reverse :=
  lxmatchH_eq_gen s L u _ (legacy_match_heap_detached Hc hI hP hus hd L hL).2.2

/-- … after every admissible history of legacy operations from the empty world -/
theorem legacy_gen_run (ops : List LOp) (hg : AdmRun H Hc init ops) {u : Nat}
    (hu : Att (run H Hc init ops) u) (L : List LElem) (hL : HeadOK L) :
    let s := run H Hc init ops
    ∃ l, UpChain s u l ∧ IsChain (treeOf s (topOf u l)) (heapChain s u l) ∧
      gen s (fuelOf s) (some u) (L.map toLEl) = sat (heapChain s u l) (shift L).reverse := by
  intro s
  obtain ⟨hI, hR, hP⟩ := reachable_ok H Hc ops hg
  exact legacy_gen_eq_sat Hc hI hR hP hu L hL

/-- the chain-level model `lmatch` (Model/LegacyXPath.lean) on the chain read off a parent-clean heap = the generated
function (through `C20.lmatchH_eq_lmatch`) -/
theorem lmatch_eq_gen_chain {s : LState} (hP : ParentClean s) (fuel u : Nat) (l : List Nat) (L : List LElem)
    (h : UpChain s u l) (hsz : l.length < s.size) (hf : l.length + 1 < fuel) :
    lmatch fuel (upList s u l) L = gen s fuel (some u) (L.map toLEl) :=
  (lmatchH_eq_gen s fuel (some u) L _ (lmatchH_eq_lmatch hP fuel u l L h hsz hf)).symm

/-! ### non-vacuity: the hypotheses hold on a concrete reachable heap, and the generated function computes there -/
section Examples
open PyOak.Legacy.Ex

private abbrev sA : LState := st (histAdm.take 10)
private theorem okA : Inv id sA ∧ Ranked sA ∧ ParentClean sA :=
  reachable_ok id id _ (admRun_of_B id id _ init (by decide))
-- `//U/@arg L` and `/U/U//L` as legacy element lists
private def lUL : List LElem :=
  [.el ⟨"L".toList, some "arg".toList, none, false⟩, .el ⟨"U".toList, none, none, false⟩, .anyw]
private def lUUL : List LElem :=
  [.el ⟨"L".toList, none, none, false⟩, .el ⟨"U".toList, none, none, true⟩, .el ⟨"U".toList, none, none, false⟩]
example : HeadOK lUL ∧ HeadOK lUUL ∧ Att sA 0 ∧ ¬ Att sA 1 := by decide
-- hypothesis of lmatchH_eq_gen / lxmatchH_eq_gen: the model returns
example : lxmatchH sA lUL 0 = some true ∧ lxmatchH sA lUUL 0 = some true ∧ lxmatchH sA lUUL 4 = some false := by decide
-- the generated function itself, evaluated on the heap (answers of both kinds)
example : gen sA (fuelOf sA) (some 0) (lUL.map toLEl) = true ∧ gen sA (fuelOf sA) (some 7) (lUL.map toLEl) = false ∧
    gen sA (fuelOf sA) (some 0) (lUUL.map toLEl) = true ∧ gen sA (fuelOf sA) (some 4) (lUUL.map toLEl) = false ∧
    gen sA (fuelOf sA) none [] = true ∧ gen sA (fuelOf sA) none (lUL.map toLEl) = false := by decide
example := lxmatchH_eq_gen sA lUUL 0 true (by decide)
example := legacy_gen_eq_sat id okA.1 okA.2.1 okA.2.2 (u := 0) (by decide) lUUL (by decide)
example := legacy_gen_eq_sat_detached id okA.1 okA.2.2 (u := 1) (by decide) (by decide) lUL (by decide)
example := legacy_gen_run id id (histAdm.take 10) (admRun_of_B id id _ init (by decide)) (u := 0) (by decide) lUL (by decide)
-- lmatchElemH_eq_gen: object 3 is the root of the live tree (no parent)
example : sA.parent 3 = none := by decide
example := lmatchElemH_eq_gen sA 3 ⟨"U".toList, none, none, false⟩ 0 (by decide) rfl
example := lmatch_eq_gen_chain okA.2.2 (fuelOf sA) 0 [7, 4, 3] lUL
  (.step (by decide) (.step (by decide) (.step (by decide) (.root (by decide))))) (by decide) (by decide)
end Examples

end PyOak.GenBridgeLX
