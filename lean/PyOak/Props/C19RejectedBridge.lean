/-
The frame vocabulary of Props/C19Rejected.lean (`FrameN`) is the one of the transform-visitor theorems
(`C19T.FrameG`, Props/C19Transform.lean); kept apart only to keep the import graph acyclic
(C19Transform imports C18Transform, which imports the acyclicity theorems, which use `inv_step_any`).
-/
import PyOak.Props.C19Rejected
import PyOak.Props.C19RwithErr
import PyOak.Props.C19Transform
namespace PyOak.Legacy.C19
open PyOak PyOak.Legacy LState

theorem frameN_iff_frameG {s s' : LState} : FrameN s s' ↔ C19T.FrameG s s' :=
  ⟨fun h => ⟨h.obj, h.keep, h.fresh⟩, fun h => ⟨h.obj, h.keep, h.fresh⟩⟩

/-- `fail_frame_step` in the vocabulary of the transform-visitor theorems -/
theorem fail_frame_step_G (H Hc : Str → Str) {s s' : LState} {op : LOp} {e : Err} (hI : Inv Hc s)
    (hp : C18.LOp.proved s op) (h : step H Hc s op = (s', .raised e)) (hd : Documented op e) : C19T.FrameG s s' :=
  frameN_iff_frameG.mp (fail_frame_step H Hc hI hp h hd)

example : C19T.FrameG (Ex.st histD) (step id id (Ex.st histD) (.dup 2 true)).1 :=
  fail_frame_step_G id id (s := Ex.st histD) (op := .dup 2 true) (e := .dupChildren)
    (inv_run_mixed_init id id _ (by decide)) trivial (mk_eq _ _ (by decide)) (by decide)

#print axioms fail_frame_step_G

end PyOak.Legacy.C19
