/- C11: import-only aggregate (LEAN_MODULE of harness/props/c11.py) -/
import PyOak.Props.C11
import PyOak.Props.C11Shapes
import PyOak.Props.C11Fwd
import PyOak.Props.C11NewType
import PyOak.Props.C11Perm
import PyOak.Props.C11Class
import PyOak.Props.C11Fields
