/-
C07, assembled: the table-level matcher (`ASTXpath.match` on a `Tree`) decides the documented
semantics `sat`, and `findall` finds exactly the positions that satisfy it — hence
`n ∈ findall(root) ↔ match(root, n)` for trees without repeated objects.
(Instantiates `C07.matchUpT_eq_sat` with the table-correctness theorems of C06.)
-/
import PyOak.Props.C06
import PyOak.Props.C07
namespace PyOak
namespace C07

theorem chain_length_le (root : Node) (chain : Chain) (hc : IsChain root chain) :
    chain.length ≤ root.size := by
  cases hc with
  | root => have := root.size_pos; simp; omega
  | snoc c p pe n e h hm =>
    have := C06.chain_length_lt root (c ++ [(p, pe)]) n (some e) (IsChain.snoc c p pe n e h hm)
    simp at this ⊢; omega

/-- `ASTXpath.match(tree, n)` = documented semantics along the chain of `n` -/
theorem match_eq_sat (root : Node) (h : NoRepeat root) (c : Chain) (n : Node) (oe : Option Edge)
    (els : List XElem) (hc : IsChain root (c ++ [(n, oe)])) :
    matchUpT (TreeT.build root) (root.size + 1) n els.reverse = .ok (sat (c ++ [(n, oe)]) els) :=
  matchUpT_eq_sat root
    (fun c p pe n e hc => C06.parentInfo_chain root h c p pe n e hc)
    (C06.parentInfo_root root)
    (fun c n oe hc => C06.ancestors_chain root h c n oe hc)
    (chain_length_le root) c n oe els hc

end C07
end PyOak
