/-
C16 (addition, AUDIT C16 §4 (i), (ii)) — "with key sorting every nested mapping lists the type
tag FIRST and the remaining keys sorted".

`C16.SortedMap` only says "after dropping a LEADING tag the keys are sorted"; a mapping with the tag
in second position and sorted keys satisfies it (`sortedMap_too_weak`).  Here:

  TagFirstSorted fs   keys fs = __type :: rest, rest sorted, __type ∉ rest
  STShape g fs        fs is  {}                              (a `No*` placeholder)
                          |  {idx}          only if SOURCE_OPTIMIZED is on (index reference)
                          |  {source}       only under the AST_TEST dialect (the patched origin of a
                                            node whose origin is `NoOrigin`: `out.get("origin", {})["source"] = …`)
                          |  TagFirstSorted
  sorted_tagged_all   sortOn ∧ ¬skipOn ∧ OriginOK o ∧ NoTagFields o ⇒ EVERY nested mapping of the
                      output satisfies `STShape g` — all AST dialects, all mashumaro dialects, with
                      or without index-based sources
  sorted_tagged_plain … and outside AST_TEST / SOURCE_OPTIMIZED only `{}` and tag-first remain
  sorted_untagged_all sortOn ∧ skipOn (the AST_TEST combination): ALL keys sorted, no tag anywhere
  nested_tag_is_class / nested_source_is_idx
                      the tag VALUE is the class name at every depth; every reached source is written
                      `{idx: n}` under SOURCE_OPTIMIZED (corollaries of `nested_same_options`)
-/
import PyOak.Props.C16
namespace PyOak
namespace C16
open SerOpts

/-! ### the stronger shape predicate -/

/-- the type tag is the FIRST key, the remaining keys are sorted and none of them is the tag -/
def TagFirstSorted (fs : List JF) : Prop :=
  ∃ rest, keys fs = TYPE_KEY :: rest ∧ SortedK rest ∧ TYPE_KEY ∉ rest

/-- the four shapes a mapping can have in a key-sorted, tagged serialization under `g` -/
def STShape (g : G) (fs : List JF) : Prop :=
  fs = [] ∨ (g.opts.srcOn = true ∧ keys fs = [idxKey]) ∨
  (g.opts.ast = some .test ∧ keys fs = [sourceKey]) ∨ TagFirstSorted fs

/-- the old predicate accepts a mapping whose tag is NOT first -/
theorem sortedMap_too_weak :
    SortedMap [.mk "ARGS".toList (.lit []), .mk TYPE_KEY (.str []), .mk "a".toList (.lit [])] ∧
    ¬ TagFirstSorted [.mk "ARGS".toList (.lit []), .mk TYPE_KEY (.str []), .mk "a".toList (.lit [])] := by
  refine ⟨by decide, ?_⟩
  rintro ⟨rest, h, -⟩
  simp only [keys, List.map_cons, JF.key, List.cons.injEq] at h
  exact absurd h.1 (by decide)

theorem tagFirstSorted_congr (a b : List JF) (h : keys a = keys b) :
    TagFirstSorted a ↔ TagFirstSorted b := by
  unfold TagFirstSorted; rw [h]

theorem stShape_congr (g : G) (a b : List JF) (h : keys a = keys b) (hne : a = [] ↔ b = []) :
    STShape g a ↔ STShape g b := by
  unfold STShape; rw [h, tagFirstSorted_congr a b h, hne]

theorem tagFirstSorted_cons (v : J) (l : List JF) (hs : SortedK (keys l)) (hn : TYPE_KEY ∉ keys l) :
    TagFirstSorted (.mk TYPE_KEY v :: l) := ⟨keys l, rfl, hs, hn⟩

/-- a tag-first mapping is in particular `SortedMap` and `TaggedMap`: the new predicate implies both old ones -/
theorem TagFirstSorted.sortedMap {fs : List JF} (h : TagFirstSorted fs) : SortedMap fs := by
  obtain ⟨rest, hk, hs, -⟩ := h
  simpa [SortedMap, hk, dropTagK] using hs

theorem TagFirstSorted.head {fs : List JF} (h : TagFirstSorted fs) : (keys fs).head? = some TYPE_KEY := by
  obtain ⟨rest, hk, -, -⟩ := h
  simp [hk]

/-- the tag occurs exactly once -/
theorem TagFirstSorted.count {fs : List JF} (h : TagFirstSorted fs) : (keys fs).count TYPE_KEY = 1 := by
  obtain ⟨rest, hk, -, hn⟩ := h
  simp [hk, List.count_eq_zero.mpr hn]

/-! ### the hooks -/

theorem noTag_bodyOf (o : Opts) (d : List JF) (h : TYPE_KEY ∉ keys d) : TYPE_KEY ∉ keys (bodyOf o d) := by
  intro hk
  obtain ⟨f, hf, hfk⟩ := (mem_keys_iff _ _).1 hk
  exact h ((mem_keys_iff _ _).2 ⟨f, (mem_bodyOf o d f).1 hf, hfk⟩)

theorem postMixin_tagged (o : Opts) (hk : o.skipOn = false) (cls : Str) (d : List JF) :
    postMixin o cls d = .mk TYPE_KEY (.str cls) :: bodyOf o d := by
  rw [postMixin_eq]; simp [hk]

/-- the mixin hook: tag first, the entries of `d` sorted behind it -/
theorem tfs_postMixin (o : Opts) (hs : o.sortOn = true) (hk : o.skipOn = false) (cls : Str)
    (d : List JF) (hn : TYPE_KEY ∉ keys d) : TagFirstSorted (postMixin o cls d) := by
  rw [postMixin_tagged o hk]
  exact tagFirstSorted_cons _ _ (sortedK_bodyOf o hs d) (noTag_bodyOf o d hn)

theorem tfs_pop_postMixin (o : Opts) (hs : o.sortOn = true) (hk : o.skipOn = false) (cls : Str)
    (d : List JF) (hn : TYPE_KEY ∉ keys d) : TagFirstSorted (popKey rawKey (postMixin o cls d)) := by
  rw [postMixin_tagged o hk, popKey_tag_cons]
  refine tagFirstSorted_cons _ _ (sortedK_popKey _ _ (sortedK_bodyOf o hs d)) ?_
  intro h
  exact noTag_bodyOf o d hn (mem_keys_popKey _ _ _ h)

theorem tfs_testSource (g : G) (hs : g.opts.sortOn = true) (hk : g.opts.skipOn = false) :
    AllMaps (STShape g) (testSource g.opts) :=
  allMaps_testSource _ _ (.inr (.inr (.inr (tfs_postMixin g.opts hs hk _ _ (by decide)))))

/-- assigning `source` in a (serialized) origin mapping keeps the shape -/
theorem stShape_setSource (g : G) (ht : g.opts.ast = some .test) (dm : J) (fs : List JF)
    (h : fs = [] ∨ sourceKey ∈ keys fs) (hsh : STShape g fs) : STShape g (setKey sourceKey dm fs) := by
  rcases h with rfl | h
  · exact .inr (.inr (.inl ⟨ht, rfl⟩))
  · have hk := keys_setKey_of_mem sourceKey dm fs h
    have hne : setKey sourceKey dm fs = [] ↔ fs = [] := by
      constructor
      · intro e; rw [e] at hk; cases fs with
        | nil => rfl
        | cons a r => simp [keys] at hk
      · intro e; rw [e] at h; simp [keys] at h
    exact (stShape_congr g _ _ hk hne).2 hsh

theorem st_post (g : G) (hs : g.opts.sortOn = true) (hk : g.opts.skipOn = false) (kind : Kind)
    (cls : Str) (idx : Nat) (fields : List SField) (cn : List Str) (d : List JF)
    (hw : originOK1 (.mk kind cls idx fields cn) = true)
    (hn : noTagField1 (.mk kind cls idx fields cn) = true)
    (hser : serFields g fields = .ok d) (hd : AllMapsF (STShape g) d) :
    STShape g (post g.opts kind cls cn d) ∧ AllMapsF (STShape g) (post g.opts kind cls cn d) := by
  have hnd : TYPE_KEY ∉ keys d := by
    rw [serFields_keys g fields d hser]
    intro hm
    obtain ⟨f, hf, hfn⟩ := List.mem_map.1 hm
    simp only [noTagField1, List.all_eq_true] at hn
    have := hn f hf
    simp [hfn] at this
  cases kind
  case node =>
    simp only [post, postNode]
    have hd1 : AllMapsF (STShape g) (if g.opts.ast = some .explorer then
        setKey childrenKey (.arr (cn.map .str)) d else d) := by
      split
      · exact allMapsF_setKey _ _ _ _ hd (allMaps_children _ _)
      · exact hd
    have hn1 : TYPE_KEY ∉ keys (if g.opts.ast = some .explorer then
        setKey childrenKey (.arr (cn.map .str)) d else d) := by
      split
      · intro h
        rcases mem_keys_setKey _ _ _ _ h with h | h
        · exact absurd h (by decide)
        · exact hnd h
      · exact hnd
    have h1 := tfs_postMixin g.opts hs hk cls _ hn1
    have h2 := allMapsF_postMixin (STShape g) g.opts cls _ hd1
    split
    · next ht =>
      have hne : g.opts.ast ≠ some .explorer := by rw [ht]; decide
      simp only [if_neg hne] at h1 h2 ⊢
      refine ⟨.inr (.inr (.inr ((tagFirstSorted_congr _ _ (keys_patchOrigin _ _)).2 h1))),
        allMapsF_patchOrigin (STShape g) _ _ h2 (tfs_testSource g hs hk) ?_⟩
      intro fs hm hfs
      refine stShape_setSource g ht _ fs ?_ hfs
      rcases mem_postMixin _ _ _ _ hm with he | hm
      · exact absurd (show originKey = TYPE_KEY from congrArg JF.key he) (by decide)
      · obtain ⟨f, hf, hfn, hfv⟩ := serFields_mem g fields d hser _ hm
        simp only [originOK1, List.all_eq_true] at hw
        have := hw f hf
        simp only [JF.key] at hfn
        simp only [hfn, beq_self_eq_true, Bool.not_true, Bool.false_or] at this
        exact originLike_ser g f.val this fs hfv
    · exact ⟨.inr (.inr (.inr h1)), h2⟩
  case source =>
    exact ⟨.inr (.inr (.inr (tfs_pop_postMixin g.opts hs hk cls d hnd))),
      allMapsF_popKey _ _ _ (allMapsF_postMixin (STShape g) g.opts cls d hd)⟩
  all_goals
    exact ⟨.inr (.inr (.inr (tfs_postMixin g.opts hs hk cls d hnd))),
      allMapsF_postMixin (STShape g) g.opts cls d hd⟩

/-! ### side conditions combined -/

mutual
theorem allObj_and (a b : SObj → Bool) (o : SObj) (ha : allObj a o = true) (hb : allObj b o = true) :
    allObj (fun x => a x && b x) o = true := by
  match o with
  | .empty => simp [allObj]
  | .mk k c i fs cn =>
    simp only [allObj, Bool.and_eq_true] at ha hb ⊢
    exact ⟨⟨ha.1, hb.1⟩, allObjFs_and a b fs ha.2 hb.2⟩
theorem allObjFs_and (a b : SObj → Bool) (fs : List SField) (ha : allObjFs a fs = true)
    (hb : allObjFs b fs = true) : allObjFs (fun x => a x && b x) fs = true := by
  match fs with
  | [] => simp [allObjFs]
  | f :: r =>
    simp only [allObjFs, Bool.and_eq_true] at ha hb ⊢
    exact ⟨allObjF_and a b f ha.1 hb.1, allObjFs_and a b r ha.2 hb.2⟩
theorem allObjF_and (a b : SObj → Bool) (f : SField) (ha : allObjF a f = true)
    (hb : allObjF b f = true) : allObjF (fun x => a x && b x) f = true := by
  match f with
  | .mk _ v =>
    simp only [allObjF] at ha hb ⊢
    exact allObjV_and a b v ha hb
theorem allObjV_and (a b : SObj → Bool) (v : SVal) (ha : allObjV a v = true)
    (hb : allObjV b v = true) : allObjV (fun x => a x && b x) v = true := by
  match v with
  | .atom _ _ => simp [allObjV]
  | .bomb => simp [allObjV]
  | .seq xs =>
    simp only [allObjV] at ha hb ⊢
    exact allObjVs_and a b xs ha hb
  | .obj o =>
    simp only [allObjV] at ha hb ⊢
    exact allObj_and a b o ha hb
theorem allObjVs_and (a b : SObj → Bool) (xs : List SVal) (ha : allObjVs a xs = true)
    (hb : allObjVs b xs = true) : allObjVs (fun x => a x && b x) xs = true := by
  match xs with
  | [] => simp [allObjVs]
  | x :: r =>
    simp only [allObjVs, Bool.and_eq_true] at ha hb ⊢
    exact ⟨allObjV_and a b x ha.1 hb.1, allObjVs_and a b r ha.2 hb.2⟩
end

/-! ### the theorem -/

/-- **With key sorting (and tags not suppressed) every nested mapping lists the type tag FIRST,
the remaining keys in sorted order, and the tag only once** — except the three tag-less shapes
that the library writes by design: the empty `No*` placeholder, the index reference of a source
(only under SOURCE_OPTIMIZED) and `{source: …}` (only under AST_TEST, the patched `NoOrigin`).
For every object tree, every AST dialect, every mashumaro dialect. -/
theorem sorted_tagged_all (g : G) (hs : g.opts.sortOn = true) (hk : g.opts.skipOn = false)
    (o : SObj) (j : J) (hw : OriginOK o) (hn : NoTagFields o) (h : serObj g o = .ok j) :
    AllMaps (STShape g) j := by
  refine serObj_allMaps (STShape g) (fun x => originOK1 x && noTagField1 x) g (.inl rfl)
    (fun hsrc n => .inr (.inl ⟨hsrc, rfl⟩)) ?_ o j (allObj_and _ _ o hw hn) h
  intro kind cls idx fields cn d hwf hser hd
  simp only [Bool.and_eq_true] at hwf
  exact st_post g hs hk kind cls idx fields cn d hwf.1 hwf.2 hser hd

section imp
variable {P Q : List JF → Prop} (hPQ : ∀ fs, P fs → Q fs)
include hPQ
mutual
theorem AllMaps.imp (j : J) (h : AllMaps P j) : AllMaps Q j := by
  match j with
  | .str _ => trivial
  | .lit _ => trivial
  | .arr xs => simp only [AllMaps] at h ⊢; exact AllMapsL.imp xs h
  | .map fs => simp only [AllMaps] at h ⊢; exact ⟨hPQ _ h.1, AllMapsF.imp fs h.2⟩
theorem AllMapsL.imp (l : List J) (h : AllMapsL P l) : AllMapsL Q l := by
  match l with
  | [] => trivial
  | x :: r => simp only [AllMapsL] at h ⊢; exact ⟨AllMaps.imp x h.1, AllMapsL.imp r h.2⟩
theorem AllMapsF.imp (l : List JF) (h : AllMapsF P l) : AllMapsF Q l := by
  match l with
  | [] => trivial
  | .mk k v :: r =>
    simp only [AllMapsF, AllMapsJF] at h ⊢; exact ⟨AllMaps.imp v h.1, AllMapsF.imp r h.2⟩
end
end imp

/-- a mapping is the empty placeholder or lists the tag first and the rest sorted -/
def EmptyOrTagFirst (fs : List JF) : Prop := fs = [] ∨ TagFirstSorted fs

/-- outside AST_TEST and without index-based sources (e.g. SORT_KEYS alone, or with the explorer
dialect) only the placeholder `{}` is tag-less -/
theorem sorted_tagged_plain (g : G) (hs : g.opts.sortOn = true) (hk : g.opts.skipOn = false)
    (ht : g.opts.ast ≠ some .test) (hsrc : g.opts.srcOn = false)
    (o : SObj) (j : J) (hw : OriginOK o) (hn : NoTagFields o) (h : serObj g o = .ok j) :
    AllMaps EmptyOrTagFirst j := by
  refine AllMaps.imp ?_ j (sorted_tagged_all g hs hk o j hw hn h)
  rintro fs (h | ⟨h, -⟩ | ⟨h, -⟩ | h)
  · exact .inl h
  · rw [hsrc] at h; cases h
  · exact absurd h ht
  · exact .inr h

/-- the serialized top-level object itself (not a placeholder, not an index reference): tag
first — its class name —, the remaining keys sorted -/
theorem sorted_tagged_top (g : G) (hs : g.opts.sortOn = true) (hk : g.opts.skipOn = false)
    (kind : Kind) (cls : Str) (idx : Nat) (fs : List SField) (cn : List Str) (j : J)
    (hidx : ¬ (kind = .source ∧ g.opts.srcOn = true))
    (hw : OriginOK (.mk kind cls idx fs cn)) (hn : NoTagFields (.mk kind cls idx fs cn))
    (h : serObj g (.mk kind cls idx fs cn) = .ok j) :
    ∃ rest, j = .map (.mk TYPE_KEY (.str cls) :: rest) ∧ SortedK (keys rest) ∧ TYPE_KEY ∉ keys rest := by
  obtain ⟨rest, rfl⟩ := mk_carries_class_tag g hk kind cls idx fs cn j hidx h
  have := sorted_tagged_all g hs hk _ _ hw hn h
  simp only [AllMaps] at this
  rcases this.1 with h0 | ⟨-, h1⟩ | ⟨-, h1⟩ | ⟨r, h1, h2, h3⟩
  · cases h0
  · simp only [keys, List.map_cons, JF.key, List.cons.injEq] at h1
    exact absurd h1.1 (by decide)
  · simp only [keys, List.map_cons, JF.key, List.cons.injEq] at h1
    exact absurd h1.1 (by decide)
  · simp only [keys, List.map_cons, JF.key, List.cons.injEq, true_and] at h1
    exact ⟨rest, rfl, by rw [keys, h1]; exact h2, by rw [keys, h1]; exact h3⟩

/-! ### SORT_KEYS together with SKIP_CLASS (the AST_TEST combination): all keys sorted, no tag -/

/-- all keys in sorted order and no type tag among them -/
def SortedNoTag (fs : List JF) : Prop := SortedK (keys fs) ∧ TYPE_KEY ∉ keys fs

theorem sortedNoTag_of (fs : List JF) (h1 : SortedMap fs) (h2 : NoTag fs) : SortedNoTag fs := by
  refine ⟨?_, h2⟩
  unfold SortedMap at h1
  unfold NoTag at h2
  cases hk : keys fs with
  | nil => exact List.Pairwise.nil
  | cons k r =>
    rw [hk] at h1 h2
    have : k ≠ TYPE_KEY := fun e => h2 (by simp [e])
    simpa [dropTagK, this] using h1

mutual
theorem AllMaps.and {P Q : List JF → Prop} (j : J) (h : AllMaps P j) (g : AllMaps Q j) :
    AllMaps (fun fs => P fs ∧ Q fs) j := by
  match j with
  | .str _ => trivial
  | .lit _ => trivial
  | .arr xs => simp only [AllMaps] at h g ⊢; exact AllMapsL.and xs h g
  | .map fs => simp only [AllMaps] at h g ⊢; exact ⟨⟨h.1, g.1⟩, AllMapsF.and fs h.2 g.2⟩
theorem AllMapsL.and {P Q : List JF → Prop} (l : List J) (h : AllMapsL P l) (g : AllMapsL Q l) :
    AllMapsL (fun fs => P fs ∧ Q fs) l := by
  match l with
  | [] => trivial
  | x :: r => simp only [AllMapsL] at h g ⊢; exact ⟨AllMaps.and x h.1 g.1, AllMapsL.and r h.2 g.2⟩
theorem AllMapsF.and {P Q : List JF → Prop} (l : List JF) (h : AllMapsF P l) (g : AllMapsF Q l) :
    AllMapsF (fun fs => P fs ∧ Q fs) l := by
  match l with
  | [] => trivial
  | .mk k v :: r =>
    simp only [AllMapsF, AllMapsJF] at h g ⊢; exact ⟨AllMaps.and v h.1 g.1, AllMapsF.and r h.2 g.2⟩
end

/-- **With key sorting and tag suppression every nested mapping has ALL its keys in sorted order
and no type tag** — every dialect (this is what the AST_TEST front end asks for) -/
theorem sorted_untagged_all (g : G) (hs : g.opts.sortOn = true) (hk : g.opts.skipOn = true)
    (o : SObj) (j : J) (hw : OriginOK o) (hn : NoTagFields o) (h : serObj g o = .ok j) :
    AllMaps SortedNoTag j :=
  AllMaps.imp (fun fs hh => sortedNoTag_of fs hh.1 hh.2) j
    (AllMaps.and j (sorted_all g hs o j hw h) (untagged_all g hk o j hn h))

/-! ### the tag VALUE and the index references, at every depth -/

/-- **every object the serialization reaches** (not a placeholder, not an index reference) is
written somewhere in the output as a mapping whose first entry is `__type: <its class name>` -/
theorem nested_tag_is_class (g : G) (hk : g.opts.skipOn = false) (ht : g.opts.ast ≠ some .test)
    (o : SObj) (j : J) (hw : allObj noChildrenField1 o = true) (h : serObj g o = .ok j)
    (kind : Kind) (cls : Str) (idx : Nat) (fs : List SField) (cn : List Str)
    (ho : SObj.mk kind cls idx fs cn ∈ subObjs g o)
    (hidx : ¬ (kind = .source ∧ g.opts.srcOn = true)) :
    ∃ rest, J.map (.mk TYPE_KEY (.str cls) :: rest) ∈ subsJ j := by
  obtain ⟨j', hj', hs'⟩ := nested_same_options g ht o j hw h _ ho
  obtain ⟨rest, rfl⟩ := mk_carries_class_tag g hk kind cls idx fs cn j' hidx hs'
  exact ⟨rest, hj'⟩

/-- under SOURCE_OPTIMIZED **every** reached source is written as `{idx: <registry index>}` -/
theorem nested_source_is_idx (g : G) (hsrc : g.opts.srcOn = true) (ht : g.opts.ast ≠ some .test)
    (o : SObj) (j : J) (hw : allObj noChildrenField1 o = true) (h : serObj g o = .ok j)
    (cls : Str) (idx : Nat) (fs : List SField) (cn : List Str)
    (ho : SObj.mk .source cls idx fs cn ∈ subObjs g o) :
    J.map [.mk idxKey (.lit (natStr idx))] ∈ subsJ j := by
  obtain ⟨j', hj', hs'⟩ := nested_same_options g ht o j hw h _ ho
  simp only [serObj, hsrc, and_self, if_true] at hs'
  cases hs'
  exact hj'

/-! ### non-vacuity -/

def gSort : G := { opts := { sort := some true } }
def gSortTest : G := { opts := { sort := some true, ast := some .test, src := some true } }
def gSortSkip : G := { opts := { sort := some true, skip := some true, ast := some .test } }

example : ∃ j, serObj gSort good = .ok j ∧ AllMaps EmptyOrTagFirst j :=
  ⟨_, rfl, sorted_tagged_plain gSort rfl rfl (by decide) rfl good _ rfl rfl rfl⟩
example : ∃ j, serObj gSortExplorer good = .ok j ∧ AllMaps EmptyOrTagFirst j :=
  ⟨_, rfl, sorted_tagged_plain gSortExplorer rfl rfl (by decide) rfl good _ rfl rfl rfl⟩
example : ∃ j, serObj gSortTest good = .ok j ∧ AllMaps (STShape gSortTest) j :=
  ⟨_, rfl, sorted_tagged_all gSortTest rfl rfl good _ rfl rfl rfl⟩
example : ∃ j, serObj gSortSkip good = .ok j ∧ AllMaps SortedNoTag j :=
  ⟨_, rfl, sorted_untagged_all gSortSkip rfl rfl good _ rfl rfl rfl⟩
/-- the output is a mapping whose entry `origin` is a mapping with the single key `source` -/
def hasBareSourceOrigin : J → Bool
  | .map fs => fs.any fun f => f.key == originKey &&
      (match f.val with | .map m => keys m == [sourceKey] | _ => false)
  | _ => false

/-- the `{source}` shape really occurs (AST_TEST, a leaf whose origin is `NoOrigin`) -/
theorem test_patches_noOrigin :
    ∃ j, serObj gSortTest (demoLeaf (at1 "z")) = .ok j ∧ hasBareSourceOrigin j = true :=
  ⟨_, rfl, by decide⟩

theorem not_strict_of_bareSource (j : J) (hw : hasBareSourceOrigin j = true) :
    ¬ AllMaps (fun fs => fs = [] ∨ keys fs = [idxKey] ∨ TagFirstSorted fs) j := by
  intro h
  cases j with
  | map fs =>
    simp only [AllMaps] at h
    simp only [hasBareSourceOrigin, List.any_eq_true, Bool.and_eq_true] at hw
    obtain ⟨f, hf, -, hm⟩ := hw
    have hv := (allMapsF_iff _ _).1 h.2 f hf
    cases hfv : f.val with
    | map m =>
      rw [hfv] at hm hv
      simp only [beq_iff_eq] at hm
      simp only [AllMaps] at hv
      rcases hv.1 with h0 | h1 | ⟨rest, h2, -, -⟩
      · rw [h0] at hm; simp [keys] at hm
      · rw [hm] at h1; exact absurd h1 (by decide)
      · rw [hm] at h2
        injection h2 with h2 _
        exact absurd h2 (by decide)
    | str _ => rw [hfv] at hm; simp at hm
    | lit _ => rw [hfv] at hm; simp at hm
    | arr _ => rw [hfv] at hm; simp at hm
  | str _ => simp [hasBareSourceOrigin] at hw
  | lit _ => simp [hasBareSourceOrigin] at hw
  | arr _ => simp [hasBareSourceOrigin] at hw

/-- the STRICT reading of the property text ("with key sorting EVERY nested mapping lists the type
tag first", allowing only the placeholder `{}` and the index reference) is false of the model — and
of the library (checked on /repo: `Leaf().as_dict(serialization_options={SORT_KEYS: True,
AST_SERIALIZE_DIALECT_KEY: AST_TEST})["origin"] == {"source": {...}}`, no `__type`): under AST_TEST
the `NoOrigin` of a node is patched into `{source: …}`.  Hence the third shape of `STShape`. -/
theorem sorted_tagged_strict_fails :
    ∃ j, serObj gSortTest (demoLeaf (at1 "z")) = .ok j ∧
      ¬ AllMaps (fun fs => fs = [] ∨ keys fs = [idxKey] ∨ TagFirstSorted fs) j :=
  ⟨_, rfl, not_strict_of_bareSource _ (by decide)⟩

example (j : J) (h : serObj gSortExplorer good = .ok j) :
    ∃ rest, J.map (.mk TYPE_KEY (.str "Leaf".toList) :: rest) ∈ subsJ j :=
  nested_tag_is_class gSortExplorer rfl (by decide) good j rfl h .node _ 0 _ [] leaf_reached (by decide)
/-- NoTagFields is needed: a class with a field called `__type` gets the tag twice -/
example : ∃ fs, serObj gSort (.mk .other "C".toList 0 [fld "__type" (at1 "x")] []) = .ok (.map fs) ∧
    ¬ TagFirstSorted fs := by
  refine ⟨_, rfl, ?_⟩
  rintro ⟨rest, h, -, hn⟩
  have h' : TYPE_KEY :: [TYPE_KEY] = TYPE_KEY :: rest := h
  injection h' with _ h'
  exact hn (by rw [← h']; simp)

end C16
end PyOak
