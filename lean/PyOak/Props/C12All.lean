import PyOak.Props.GenBridge
import PyOak.Props.C12
import PyOak.Props.C12Extra
import PyOak.Props.C12MI
import PyOak.Props.C12FirstUse
