/-
C06 (addition, AUDIT C06 §4 (iii)) — SOUNDNESS of `follow`.

`C06X.follow_getXpath` says that following `get_xpath(n)` from the root reaches `n`; it would be
cheap if `follow` could reach nodes it should not.  Here: whatever text `follow` accepts, the node
it returns is the end of a genuine root-first chain of the tree whose steps (field, index or 0,
class) are exactly the steps written in the text — so "following the path from the root reaches
that node and no other" is a statement about the downward structure, not about `follow`.
-/
import PyOak.Props.C06Xpath
import PyOak.Props.C06Total
namespace PyOak
namespace C06X

/-- a successful walk follows a downward path whose steps are the given ones -/
theorem walkDown_sound : ∀ (steps : List (Str × Nat × Str)) (n m : Node), walkDown n steps = some m →
    ∃ p, C07.Path n p ∧ C07.lastNode n p = m ∧ p.map stepOf = steps
  | [], n, m, h => by
    simp only [walkDown, Option.some.injEq] at h
    exact ⟨[], trivial, h, rfl⟩
  | (f, i, c) :: r, n, m, h => by
    simp only [walkDown] at h
    cases hfind : n.edges.find? (fun ce => ce.2.field == f && ce.2.idx.getD 0 == i) with
    | none => simp [hfind] at h
    | some x =>
      obtain ⟨ch, e⟩ := x
      simp only [hfind] at h
      have hmem := List.mem_of_find?_eq_some hfind
      have hpred := List.find?_some hfind
      simp only [Bool.and_eq_true, beq_iff_eq] at hpred
      by_cases hc : (ch.cls == c) = true
      · simp only [hc, if_true] at h
        obtain ⟨p, hp, hl, hs⟩ := walkDown_sound r ch m h
        refine ⟨(ch, some e) :: p, ⟨⟨e, rfl, hmem⟩, hp⟩, by rw [C07.lastNode_cons]; exact hl, ?_⟩
        simp only [List.map_cons, stepOf, hs, List.cons.injEq, Prod.mk.injEq, and_true]
        exact ⟨hpred.1, hpred.2, by simpa using hc⟩
      · simp [hc] at h

/-- **soundness of `follow`**: an accepted text leads to the last node of a root-first chain of
the tree, and the text's steps are the steps of that chain -/
theorem follow_sound (root : Node) (s : Str) (n : Node) (h : follow root s = some n) :
    ∃ chain, IsChain root chain ∧ chain.getLast?.map (·.1) = some n ∧
      parseSpell s.length s = some (chain.map stepOf) := by
  unfold follow at h
  cases hp : parseSpell s.length s with
  | none => simp [hp] at h
  | some steps =>
    cases steps with
    | nil => simp [hp] at h
    | cons st r =>
      obtain ⟨f, i, c⟩ := st
      simp only [hp] at h
      by_cases hc : (f == rootField && i == 0 && c == root.cls) = true
      · simp only [hc, if_true] at h
        obtain ⟨p, hpath, hl, hs⟩ := walkDown_sound r root n h
        refine ⟨(root, none) :: p, (C07.isChain_iff root _).2 ⟨p, rfl, hpath⟩, ?_, ?_⟩
        · rw [C07.getLast?_cons_lastNode, hl]
        · simp only [Bool.and_eq_true, beq_iff_eq] at hc
          simp only [List.map_cons, stepOf, hs, hc.1.1, hc.1.2, hc.2]
      · simp [hc] at h

/-- hence the node reached is a node of the tree -/
theorem follow_mem (root : Node) (s : Str) (n : Node) (h : follow root s = some n) : n ∈ allNodes root := by
  obtain ⟨chain, hc, hl, -⟩ := follow_sound root s n h
  cases hg : chain.getLast? with
  | none => simp [hg] at hl
  | some x =>
    simp only [hg, Option.map_some, Option.some.injEq] at hl
    have := C06.chain_mem root chain hc x (List.mem_of_getLast? hg)
    rw [hl] at this
    exact this

/-- … and under `NoRepeat` the chain that the text spells is THE chain of that node: two texts
that `follow` accepts lead to the same node only if they have the same steps (no two nodes share a
path, no node has two paths) -/
theorem follow_steps_unique (root : Node) (hR : NoRepeat root) (s1 s2 : Str) (n : Node)
    (h1 : follow root s1 = some n) (h2 : follow root s2 = some n) :
    parseSpell s1.length s1 = parseSpell s2.length s2 := by
  obtain ⟨c1, hc1, hl1, hs1⟩ := follow_sound root s1 n h1
  obtain ⟨c2, hc2, hl2, hs2⟩ := follow_sound root s2 n h2
  have split : ∀ (c : Chain), c.getLast?.map (·.1) = some n → ∃ c' oe, c = c' ++ [(n, oe)] := by
    intro c hl
    rcases C06.eq_nil_or_snoc c with rfl | ⟨c', x, rfl⟩
    · simp at hl
    · obtain ⟨m, oe⟩ := x
      simp only [List.getLast?_append, List.getLast?_singleton, Option.some_or, Option.map_some,
        Option.some.injEq] at hl
      exact ⟨c', oe, by rw [← hl]⟩
  obtain ⟨c1', o1, rfl⟩ := split c1 hl1
  obtain ⟨c2', o2, rfl⟩ := split c2 hl2
  obtain ⟨e1, e2⟩ := C06.chain_unique root hR c1' n o1 hc1 c2' o2 hc2
  rw [hs1, hs2, e1, e2]

/-! non-vacuity: on the demo tree of C06Total -/
open C06.DemoT in
theorem follow_demo : follow tree "/@root[0]R/@a[1]M/@x[0]L".toList = some (leaf 3) := by rfl
open C06.DemoT in
example : leaf 3 ∈ allNodes tree := follow_mem tree _ _ follow_demo
-- a zero-padded index is accepted as well and has the same steps (`follow_steps_unique` is about steps, not texts)
open C06.DemoT in
example : (follow tree "/@root[0]R/@a[01]M/@x[0]L".toList).map (·.uid) = some 3 := by decide
-- wrong class / wrong index / no such field are rejected
open C06.DemoT in
example : (follow tree "/@root[0]R/@a[1]L".toList).isNone ∧ (follow tree "/@root[0]R/@a[2]M".toList).isNone ∧
    (follow tree "/@root[0]R/@q[0]M".toList).isNone := by decide

end C06X
end PyOak
