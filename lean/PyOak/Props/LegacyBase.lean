/-
Shared definitions and lemmas of C18 / C19: the invariant of the legacy state machine, the
primitive facts about the registry and the heap, and the "frame" vocabulary.
-/
import PyOak.Model.Legacy
namespace PyOak.Legacy
open LState

/-! ### registry -/

theorem regGet_regDel (r : Reg) (k k' : Str) :
    regGet (regDel r k) k' = if k = k' then none else regGet r k' := by
  induction r with
  | nil => simp [regDel, regGet]
  | cons e r ih =>
    obtain ⟨a, b⟩ := e
    by_cases h : a = k
    · subst h
      by_cases h' : a = k'
      · subst h'; simpa [regDel, regGet] using ih
      · simp [regDel, regGet, h', ih]
    · by_cases h' : a = k'
      · subst h'
        have : ¬ (k = a) := fun e => h e.symm
        simp [regDel, regGet, h, this]
      · simp [regDel, regGet, h, h', ih]

theorem regGet_regSet (r : Reg) (k : Str) (u : Nat) (k' : Str) :
    regGet (regSet r k u) k' = if k = k' then some u else regGet r k' := by
  by_cases h : k = k'
  · simp [regSet, regGet, h]
  · simp [regSet, regGet, h, regGet_regDel]

/-! ### state accessors -/

@[simp] theorem modify_reg (s : LState) (u : Nat) (f : LObj → LObj) : (s.modify u f).reg = s.reg := rfl
@[simp] theorem modify_size (s : LState) (u : Nat) (f : LObj → LObj) : (s.modify u f).size = s.size := rfl
@[simp] theorem modify_lookup (s : LState) (u : Nat) (f : LObj → LObj) (k : Str) :
    (s.modify u f).lookup k = s.lookup k := rfl
theorem modify_obj (s : LState) (u : Nat) (f : LObj → LObj) (v : Nat) :
    (s.modify u f).obj v = if v = u then f (s.obj u) else s.obj v := rfl
@[simp] theorem modify_obj_same (s : LState) (u : Nat) (f : LObj → LObj) : (s.modify u f).obj u = f (s.obj u) := by
  simp [modify_obj]
theorem modify_obj_ne (s : LState) (u : Nat) (f : LObj → LObj) (v : Nat) (h : v ≠ u) :
    (s.modify u f).obj v = s.obj v := by
  simp [modify_obj, h]

@[simp] theorem unregister_obj (s : LState) (k : Str) (v : Nat) : (s.unregister k).obj v = s.obj v := rfl
@[simp] theorem unregister_size (s : LState) (k : Str) : (s.unregister k).size = s.size := rfl
@[simp] theorem unregister_idOf (s : LState) (k : Str) (v : Nat) : (s.unregister k).idOf v = s.idOf v := rfl
theorem unregister_lookup (s : LState) (k k' : Str) :
    (s.unregister k).lookup k' = if k = k' then none else s.lookup k' := by
  simp [LState.unregister, LState.lookup, regGet_regDel]

@[simp] theorem register_obj (s : LState) (u v : Nat) : (s.register u).obj v = s.obj v := rfl
@[simp] theorem register_size (s : LState) (u : Nat) : (s.register u).size = s.size := rfl
@[simp] theorem register_idOf (s : LState) (u v : Nat) : (s.register u).idOf v = s.idOf v := rfl
theorem register_lookup (s : LState) (u : Nat) (k' : Str) :
    (s.register u).lookup k' = if s.idOf u = k' then some u else s.lookup k' := by
  simp [LState.register, LState.lookup, regGet_regSet]

/-- `clearParent` and `setParent` only touch the three parent slots -/
structure SameButParent (a b : LObj) : Prop where
  cls : a.cls = b.cls
  mro : a.mro = b.mro
  fqn : a.fqn = b.fqn
  props : a.props = b.props
  id : a.id = b.id
  origId : a.origId = b.origId
  collWith : a.collWith = b.collWith
  cid : a.cid = b.cid
  fields : a.fields = b.fields

theorem SameButParent.refl (a : LObj) : SameButParent a a := ⟨rfl, rfl, rfl, rfl, rfl, rfl, rfl, rfl, rfl⟩
theorem SameButParent.trans {a b c : LObj} (h1 : SameButParent a b) (h2 : SameButParent b c) : SameButParent a c :=
  ⟨h1.cls.trans h2.cls, h1.mro.trans h2.mro, h1.fqn.trans h2.fqn, h1.props.trans h2.props, h1.id.trans h2.id,
   h1.origId.trans h2.origId, h1.collWith.trans h2.collWith, h1.cid.trans h2.cid, h1.fields.trans h2.fields⟩

@[simp] theorem clearParent_reg (s : LState) (u : Nat) : (s.clearParent u).reg = s.reg := rfl
@[simp] theorem clearParent_size (s : LState) (u : Nat) : (s.clearParent u).size = s.size := rfl
@[simp] theorem clearParent_lookup (s : LState) (u : Nat) (k : Str) : (s.clearParent u).lookup k = s.lookup k := rfl
theorem clearParent_obj (s : LState) (u v : Nat) :
    (s.clearParent u).obj v =
      if v = u then { s.obj u with pid := none, pfield := none, pindex := none } else s.obj v := rfl
@[simp] theorem clearParent_idOf (s : LState) (u v : Nat) : (s.clearParent u).idOf v = s.idOf v := by
  unfold LState.idOf; rw [clearParent_obj]; split <;> simp_all

@[simp] theorem setParent_reg (s : LState) (c p : Nat) (f : Str) (i : Option Nat) : (s.setParent c p f i).reg = s.reg := rfl
@[simp] theorem setParent_size (s : LState) (c p : Nat) (f : Str) (i : Option Nat) :
    (s.setParent c p f i).size = s.size := rfl
@[simp] theorem setParent_lookup (s : LState) (c p : Nat) (f : Str) (i : Option Nat) (k : Str) :
    (s.setParent c p f i).lookup k = s.lookup k := rfl
theorem setParent_obj (s : LState) (c p : Nat) (f : Str) (i : Option Nat) (v : Nat) :
    (s.setParent c p f i).obj v =
      if v = c then { s.obj c with pid := some (s.idOf p), pfield := some f, pindex := i } else s.obj v := rfl
@[simp] theorem setParent_idOf (s : LState) (c p : Nat) (f : Str) (i : Option Nat) (v : Nat) :
    (s.setParent c p f i).idOf v = s.idOf v := by
  unfold LState.idOf; rw [setParent_obj]; split <;> simp_all

/-! ### attachment -/

/-- `not node.detached` -/
def Att (s : LState) (u : Nat) : Prop := s.lookup (s.idOf u) = some u

theorem detached_eq_false_iff (s : LState) (u : Nat) : s.detached u = false ↔ Att s u := by
  simp [LState.detached, Att]

theorem detached_eq_true_iff (s : LState) (u : Nat) : s.detached u = true ↔ ¬ Att s u := by
  simp [LState.detached, Att]

instance (s : LState) (u : Nat) : Decidable (Att s u) := by unfold Att; infer_instance

/-! ### the invariant (C18) -/

/-- a child position `e = (child, field, index)` of `u` is consistent: the child is attached and
reports `u` as its parent with that field and index -/
def KidOk (s : LState) (u : Nat) (e : Nat × Str × Option Nat) : Prop :=
  Att s e.1 ∧ (s.obj e.1).pid = some (s.idOf u) ∧ (s.obj e.1).pfield = some e.2.1 ∧ (s.obj e.1).pindex = e.2.2

/-- child fields are well formed: distinct names, a single (required / optional) field holds at
most one node -/
def LField.wf (f : LField) : Prop := f.kind.isSeq = true ∨ f.kids.length ≤ 1
def LObj.wf (o : LObj) : Prop := (o.fields.map (·.name)).Nodup ∧ ∀ f ∈ o.fields, f.wf

instance (f : LField) : Decidable f.wf := by unfold LField.wf; infer_instance
instance (o : LObj) : Decidable o.wf := by unfold LObj.wf; infer_instance

/-- The invariant, with two sets of exceptions used inside `replace` / `replace_with`, where for a
moment a parent holds a detached child ("hole") and content ids above the hole are stale:
`X p e` exempts position `e` of `p` from `down`, `Y u` exempts `u` from `cid`. -/
structure InvX (Hc : Str → Str) (X : Nat → (Nat × Str × Option Nat) → Prop) (Y : Nat → Prop) (s : LState) :
    Prop where
  /-- the registry maps an id only to an existing object carrying that id -/
  regSound : ∀ k u, s.lookup k = some u → u < s.size ∧ s.idOf u = k
  /-- every attached node's children are attached and report it as parent with the right field and index -/
  down : ∀ u, Att s u → ∀ e ∈ (s.obj u).kidsPos, ¬ X u e → KidOk s u e
  /-- an attached node with a parent is stored in that parent at exactly that position -/
  up : ∀ u, Att s u → ∀ p, s.parent u = some p →
    ∃ f, (s.obj u).pfield = some f ∧ (u, f, (s.obj u).pindex) ∈ (s.obj p).kidsPos
  /-- the cached content id of an attached node is the digest of its own content and the cached
  content ids of its children (see `cid_eq_spec`: hence of the whole subtree) -/
  cid : ∀ u, Att s u → ¬ Y u → (s.obj u).cid = Hc (cidPre s (s.obj u))
  /-- a stored parent id always resolves, and only attached nodes store one -/
  noDangling : ∀ u k, (s.obj u).pid = some k → Att s u ∧ (s.lookup k).isSome
  /-- the children of an existing object exist -/
  closed : ∀ u, u < s.size → ∀ c ∈ (s.obj u).kidList, c < s.size
  /-- no node is its own parent -/
  noSelf : ∀ u, s.parent u ≠ some u
  /-- child fields are well formed -/
  wf : ∀ u, (s.obj u).wf

abbrev NoX : Nat → (Nat × Str × Option Nat) → Prop := fun _ _ => False
abbrev NoY : Nat → Prop := fun _ => False

/-- **the invariant of C18** -/
abbrev Inv (Hc : Str → Str) (s : LState) : Prop := InvX Hc NoX NoY s

theorem Inv.down' {Hc : Str → Str} {s : LState} (h : Inv Hc s) (u : Nat) (hu : Att s u)
    (e : Nat × Str × Option Nat) (he : e ∈ (s.obj u).kidsPos) : KidOk s u e := h.down u hu e he (fun x => x)

theorem Inv.cid' {Hc : Str → Str} {s : LState} (h : Inv Hc s) (u : Nat) (hu : Att s u) :
    (s.obj u).cid = Hc (cidPre s (s.obj u)) := h.cid u hu (fun x => x)

/-- exceptions can only be added -/
theorem InvX.weaken {Hc : Str → Str} {X X' : Nat → (Nat × Str × Option Nat) → Prop} {Y Y' : Nat → Prop} {s : LState}
    (h : InvX Hc X Y s) (hX : ∀ u e, X u e → X' u e) (hY : ∀ u, Y u → Y' u) : InvX Hc X' Y' s :=
  ⟨h.regSound, fun u hu e he hx => h.down u hu e he (fun x => hx (hX u e x)), h.up,
   fun u hu hy => h.cid u hu (fun y => hy (hY u y)), h.noDangling, h.closed, h.noSelf, h.wf⟩

/-- the initial state: no object, empty registry -/
def init : LState := {}

theorem att_lt {Hc : Str → Str} {X : Nat → (Nat × Str × Option Nat) → Prop} {Y : Nat → Prop} {s : LState}
    (h : InvX Hc X Y s) {u : Nat} (hu : Att s u) : u < s.size :=
  (h.regSound _ _ hu).1

/-- two attached nodes with the same id are the same node -/
theorem att_inj {s : LState} {u v : Nat} (hu : Att s u) (hv : Att s v) (h : s.idOf u = s.idOf v) : u = v := by
  unfold Att at hu hv; rw [h] at hu; rw [hu] at hv; exact Option.some.inj hv

/-- `kidList` is the first projection of `kidsPos` -/
theorem posFrom_map_fst (name : Str) (i : Nat) (ks : List Nat) : (posFrom name i ks).map (·.1) = ks := by
  induction ks generalizing i with
  | nil => rfl
  | cons c r ih => simp [posFrom, ih]

theorem LField.pos_map_fst (f : LField) : f.pos.map (·.1) = f.kids := by
  unfold LField.pos; split
  · exact posFrom_map_fst _ _ _
  · simp [List.map_map, Function.comp_def]

theorem kidsPos_map_fst (o : LObj) : o.kidsPos.map (·.1) = o.kidList := by
  unfold LObj.kidsPos LObj.kidList
  induction o.fields with
  | nil => rfl
  | cons f r ih => simp [List.flatMap_cons, LField.pos_map_fst, ih]

theorem mem_kidList_iff (o : LObj) (c : Nat) : c ∈ o.kidList ↔ ∃ e ∈ o.kidsPos, e.1 = c := by
  rw [← kidsPos_map_fst]; simp

end PyOak.Legacy

namespace PyOak.Legacy

/-- sorting keeps the elements -/
theorem mem_insertBy {α : Type} (lt : α → α → Bool) (x y : α) (l : List α) :
    y ∈ insertBy lt x l ↔ y = x ∨ y ∈ l := by
  induction l with
  | nil => simp [insertBy]
  | cons z r ih =>
    unfold insertBy; split
    · simp [ih]; constructor
      · rintro (h | h | h) <;> simp [h]
      · rintro (h | h | h) <;> simp [h]
    · simp

theorem mem_sortBy {α : Type} (lt : α → α → Bool) (y : α) (l : List α) : y ∈ sortBy lt l ↔ y ∈ l := by
  induction l with
  | nil => simp [sortBy]
  | cons z r ih => simp [sortBy, mem_insertBy, ih]

theorem flatMap_congr' {α β : Type} {l : List α} {f g : α → List β} (h : ∀ x ∈ l, f x = g x) :
    l.flatMap f = l.flatMap g := by
  induction l with
  | nil => rfl
  | cons a r ih =>
    simp only [List.flatMap_cons]
    rw [h a (List.mem_cons_self ..), ih (fun x hx => h x (List.mem_cons_of_mem _ hx))]

/-- the content-id pre-image depends on the object's class, properties, child positions and on
the cached content ids of the children only -/
theorem cidPre_congr {s s' : LState} {o o' : LObj} (hc : o'.cls = o.cls) (hp : o'.props = o.props)
    (hf : o'.fields = o.fields) (hk : ∀ c ∈ o.kidList, (s'.obj c).cid = (s.obj c).cid) :
    cidPre s' o' = cidPre s o := by
  unfold cidPre kidsText LObj.kidsPos
  rw [hc, hp, hf]
  congr 1
  apply flatMap_congr'
  intro e he
  have he' : e ∈ o.kidsPos := by
    unfold sortByName at he
    exact (mem_sortBy _ _ _).mp he
  have : e.1 ∈ o.kidList := (mem_kidList_iff _ _).mpr ⟨e, he', rfl⟩
  simp only [hk _ this]

theorem nodup_of_nodup_map {α β : Type} (f : α → β) : ∀ (l : List α), (l.map f).Nodup → l.Nodup := by
  intro l
  induction l with
  | nil => intro _; exact List.nodup_nil
  | cons a r ih =>
    intro h
    simp only [List.map_cons, List.nodup_cons] at h
    exact List.nodup_cons.mpr ⟨fun hm => h.1 (List.mem_map.mpr ⟨a, hm, rfl⟩), ih h.2⟩

theorem eq_of_nodup_map {α β : Type} (f : α → β) : ∀ (l : List α), (l.map f).Nodup →
    ∀ a ∈ l, ∀ b ∈ l, f a = f b → a = b := by
  intro l
  induction l with
  | nil => intro _ a ha; cases ha
  | cons x r ih =>
    intro hnd a ha b hb hab
    simp only [List.map_cons, List.nodup_cons] at hnd
    rcases List.mem_cons.mp ha with ha' | ha'
    · rcases List.mem_cons.mp hb with hb' | hb'
      · rw [ha', hb']
      · subst ha'
        exact absurd (List.mem_map.mpr ⟨b, hb', hab.symm⟩) hnd.1
    · rcases List.mem_cons.mp hb with hb' | hb'
      · subst hb'
        exact absurd (List.mem_map.mpr ⟨a, ha', hab⟩) hnd.1
      · exact ih hnd.2 a ha' b hb' hab

end PyOak.Legacy

namespace PyOak.Legacy

theorem insertBy_map {α β : Type} (g : α → β) (lt : β → β → Bool) (x : α) (l : List α) :
    insertBy lt (g x) (l.map g) = (insertBy (fun a b => lt (g a) (g b)) x l).map g := by
  induction l with
  | nil => rfl
  | cons y r ih =>
    simp only [List.map_cons, insertBy]
    split
    · simp [ih]
    · simp

theorem sortBy_map {α β : Type} (g : α → β) (lt : β → β → Bool) (l : List α) :
    sortBy lt (l.map g) = (sortBy (fun a b => lt (g a) (g b)) l).map g := by
  induction l with
  | nil => rfl
  | cons y r ih => simp only [List.map_cons, sortBy, ih, insertBy_map]

/-- what construction / attachment never does to existing objects: ids and child fields stay, and
no registry entry is lost -/
structure Grows (s s' : LState) : Prop where
  size : s.size ≤ s'.size
  same : ∀ x, x < s.size → s'.idOf x = s.idOf x ∧ (s'.obj x).fields = (s.obj x).fields
  reg : ∀ k v, s.lookup k = some v → s'.lookup k = some v

theorem Grows.refl (s : LState) : Grows s s := ⟨Nat.le_refl _, fun _ _ => ⟨rfl, rfl⟩, fun _ _ h => h⟩

theorem Grows.trans {a b c : LState} (h1 : Grows a b) (h2 : Grows b c) : Grows a c :=
  ⟨Nat.le_trans h1.size h2.size,
   fun x hx => ⟨((h2.same x (Nat.lt_of_lt_of_le hx h1.size)).1).trans (h1.same x hx).1,
                ((h2.same x (Nat.lt_of_lt_of_le hx h1.size)).2).trans (h1.same x hx).2⟩,
   fun k v h => h2.reg k v (h1.reg k v h)⟩

end PyOak.Legacy

/-! ### concrete data for the non-vacuity examples of C18 / C19 -/
namespace PyOak.Legacy.Ex
open PyOak PyOak.Legacy

def leaf (v : String) : NewSpec :=
  { cls := "L".toList, mro := ["L".toList], fqn := [], props := [⟨"v".toList, v.toList, true⟩], idArg := none,
    ensureUnique := false, asDuplicate := false, createDetached := false, fields := [] }
def un (c : Nat) (det : Bool := false) : NewSpec :=
  { cls := "U".toList, mro := ["U".toList], fqn := [], props := [], idArg := none,
    ensureUnique := false, asDuplicate := false, createDetached := det,
    fields := [⟨"arg".toList, .one, ["L".toList, "U".toList], [c]⟩] }
def tup (cs : List Nat) : NewSpec :=
  { cls := "T".toList, mro := ["T".toList], fqn := [], props := [], idArg := none,
    ensureUnique := false, asDuplicate := false, createDetached := false,
    fields := [⟨"items".toList, .tup, ["L".toList, "U".toList], cs⟩] }

/-- the state after a history from the empty world (digests = identity) -/
abbrev st (ops : List LOp) : LState := run id id init ops
/-- what one more operation answers -/
abbrev outOf (ops : List LOp) (op : LOp) : LOut := (step id id (st ops) op).2

end PyOak.Legacy.Ex
