import PyOak.Props.C16
import PyOak.Props.C16Tag
import PyOak.Props.C16Finally
