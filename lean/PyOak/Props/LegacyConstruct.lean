/-
`__post_init__` (construction over existing children) and `duplicate` preserve the invariant;
a rejected construction leaves every pre-existing record and the registry untouched.
-/
import PyOak.Props.LegacyAttach
namespace PyOak.Legacy
open LState

section
variable (H Hc : Str → Str)

/-! ### changing a node that is not in the registry -/

/-- Rewriting an object that the registry does not mention (under any key) is invisible to the
invariant, as long as no parent link is stored and the child fields stay (or the object is
beyond `size`, where nothing is claimed about child fields). -/
theorem inv_modify_unregistered {X : Nat → (Nat × Str × Option Nat) → Prop} {Y : Nat → Prop} {s : LState} {u : Nat} (hI : InvX Hc X Y s)
    (hreg : ∀ k, s.lookup k ≠ some u)
    (f : LObj → LObj) (hf : s.size ≤ u ∨ (f (s.obj u)).fields = (s.obj u).fields)
    (hp : (f (s.obj u)).pid = none) (hwf : (f (s.obj u)).wf) (hXu : ∀ q e, X q e → e.1 ≠ u) :
    InvX Hc X Y (s.modify u f) := by
  have hobj : ∀ v, v ≠ u → (s.modify u f).obj v = s.obj v := fun v hv => modify_obj_ne s u f v hv
  have hid : ∀ v, v ≠ u → (s.modify u f).idOf v = s.idOf v := by
    intro v hv; unfold LState.idOf; rw [hobj v hv]
  have hnatt' : ¬ Att (s.modify u f) u := by unfold Att; rw [modify_lookup]; exact hreg _
  have hatt : ∀ v, Att (s.modify u f) v ↔ Att s v ∧ v ≠ u := by
    intro v
    by_cases hv : v = u
    · subst hv; simp [hnatt']
    · unfold Att; rw [modify_lookup, hid v hv]; simp [hv]
  -- children of attached nodes are attached, hence not u
  have kid_ne : ∀ w, Att s w → ∀ e ∈ (s.obj w).kidsPos, e.1 ≠ u := by
    intro w hw e he h
    by_cases hx : X w e
    · exact hXu w e hx h
    · have := (hI.down w hw e he hx).1
      rw [h] at this
      exact hreg _ this
  refine ⟨?_, ?_, ?_, ?_, ?_, ?_, ?_, ?_⟩
  · intro k v hk
    rw [modify_lookup] at hk
    have hv : v ≠ u := fun h => hreg k (h ▸ hk)
    rw [modify_size, hid v hv]
    exact hI.regSound k v hk
  · intro w hw e he hx
    obtain ⟨hws, hwu⟩ := (hatt w).mp hw
    rw [hobj w hwu] at he
    have hne := kid_ne w hws e he
    obtain ⟨a, b, c, d⟩ := hI.down w hws e he hx
    exact ⟨(hatt _).mpr ⟨a, hne⟩, by rw [hobj _ hne, hid w hwu]; exact b, by rw [hobj _ hne]; exact c,
      by rw [hobj _ hne]; exact d⟩
  · intro x hx p hpp
    obtain ⟨hxs, hxu⟩ := (hatt x).mp hx
    unfold LState.parent at hpp
    rw [hobj x hxu] at hpp ⊢
    have hps : p ≠ u := by
      intro h
      cases hk : (s.obj x).pid with
      | none => rw [hk] at hpp; cases hpp
      | some k => rw [hk] at hpp; exact hreg k (h ▸ hpp)
    rw [hobj p hps]
    exact hI.up x hxs p (by unfold LState.parent; exact hpp)
  · intro x hx hy
    obtain ⟨hxs, hxu⟩ := (hatt x).mp hx
    rw [hobj x hxu, hI.cid x hxs hy]
    congr 1
    symm
    apply cidPre_congr rfl rfl rfl
    intro c hc
    obtain ⟨e, he, he1⟩ := (mem_kidList_iff _ _).mp hc
    rw [hobj c (he1 ▸ kid_ne x hxs e he)]
  · intro x k hk
    by_cases hxu : x = u
    · subst hxu; rw [modify_obj_same, hp] at hk; cases hk
    · rw [hobj x hxu] at hk
      obtain ⟨a, b⟩ := hI.noDangling x k hk
      exact ⟨(hatt x).mpr ⟨a, hxu⟩, by rw [modify_lookup]; exact b⟩
  · intro v hv c hc
    rw [modify_size] at hv ⊢
    by_cases hvu : v = u
    · subst hvu
      rcases hf with h | h
      · omega
      · unfold LObj.kidList at hc; rw [modify_obj_same, h] at hc
        exact hI.closed v hv c hc
    · rw [hobj v hvu] at hc
      exact hI.closed v hv c hc
  · intro x hx
    unfold LState.parent at hx
    by_cases hxu : x = u
    · subst hxu; rw [modify_obj_same, hp] at hx; cases hx
    · rw [hobj x hxu] at hx
      exact hI.noSelf x (by unfold LState.parent; exact hx)
  · intro v
    by_cases hvu : v = u
    · subst hvu; rw [modify_obj_same]; exact hwf
    · rw [hobj v hvu]; exact hI.wf v

/-- nothing beyond `size` is registered -/
theorem not_registered_of_ge {X : Nat → (Nat × Str × Option Nat) → Prop} {Y : Nat → Prop} {s : LState} (hI : InvX Hc X Y s) {u : Nat} (hu : s.size ≤ u) : ∀ k, s.lookup k ≠ some u := by
  intro k h
  have := (hI.regSound k u h).1
  omega

/-- one more object counts as existing -/
theorem inv_grow {X : Nat → (Nat × Str × Option Nat) → Prop} {Y : Nat → Prop} {t : LState} (hI : InvX Hc X Y t) (hk : ∀ c ∈ (t.obj t.size).kidList, c < t.size) :
    InvX Hc X Y { t with size := t.size + 1 } := by
  refine ⟨?_, hI.down, hI.up, hI.cid, hI.noDangling, ?_, hI.noSelf, hI.wf⟩
  · intro k u hu
    obtain ⟨a, b⟩ := hI.regSound k u hu
    exact ⟨Nat.lt_succ_of_lt a, b⟩
  · intro v hv c hc
    have hv' : v < t.size + 1 := hv
    show c < t.size + 1
    by_cases h : v = t.size
    · subst h; exact Nat.lt_succ_of_lt (hk c hc)
    · exact Nat.lt_succ_of_lt (hI.closed v (by omega) c hc)

theorem alloc_eq (s : LState) (o : LObj) :
    (s.alloc o).1 = { s.modify s.size (fun _ => o) with size := s.size + 1 } ∧ (s.alloc o).2 = s.size := by
  unfold LState.alloc LState.modify; exact ⟨rfl, rfl⟩

/-- allocating a fresh, unlinked object -/
theorem alloc_inv {X : Nat → (Nat × Str × Option Nat) → Prop} {Y : Nat → Prop} {s : LState} (hI : InvX Hc X Y s) (o : LObj) (hp : o.pid = none)
    (hk : ∀ c ∈ o.kidList, c < s.size) (hwf : o.wf) (hXs : ∀ q e, X q e → e.1 ≠ s.size) :
    InvX Hc X Y (s.alloc o).1 := by
  rw [(alloc_eq s o).1]
  have h0 := inv_modify_unregistered Hc hI (not_registered_of_ge Hc hI (Nat.le_refl _)) (fun _ => o)
    (.inl (Nat.le_refl _)) hp hwf hXs
  have := inv_grow Hc h0 (by rw [modify_size, modify_obj_same]; exact hk)
  simpa using this

/-- recomputing a content id that is already right changes nothing -/
theorem setContentId_noop (s : LState) (u : Nat) (h : (s.obj u).cid = Hc (cidPre s (s.obj u))) :
    s.setContentId Hc u = s := by
  unfold LState.setContentId LState.modify
  cases s with
  | mk heap size reg =>
    simp only [LState.mk.injEq, and_true]
    funext v
    split
    · next hv =>
      subst hv
      have h' : (heap v).cid = Hc (cidPre ⟨heap, size, reg⟩ (heap v)) := h
      rw [← h']
    · rfl

theorem finishConstruct_inv {X : Nat → (Nat × Str × Option Nat) → Prop} {Y : Nat → Prop} {s1 s' : LState} {u r fuel : Nat} {det : Bool} (hI : InvX Hc X Y s1)
    (hu : u < s1.size) (hreg : ∀ k, s1.lookup k ≠ some u)
    (hXu : ∀ q e, X q e → e.1 ≠ u ∧ s1.idOf e.1 = s1.idOf u) (hYu : ¬ Y u)
    (h : finishConstruct Hc fuel s1 u det = (s', .ok r)) :
    InvX Hc X Y s' ∧ r = u ∧ s'.size = s1.size ∧ (det = false → Att s' u) ∧ Grows s1 s' := by
  unfold finishConstruct at h
  by_cases hd : det = true
  · simp only [hd, if_true, Prod.mk.injEq, Except.ok.injEq] at h
    obtain ⟨rfl, rfl⟩ := h
    refine ⟨?_, rfl, rfl, by simp [hd], ⟨Nat.le_refl _, fun x _ => ⟨setContentId_idOf Hc s1 u x, ?_⟩, fun _ _ h => h⟩⟩
    rotate_left
    · rw [setContentId_obj]; split
      · next hx => subst hx; rfl
      · rfl
    have hp : (s1.obj u).pid = none := by
      cases hk : (s1.obj u).pid with
      | none => rfl
      | some k => exact absurd (hI.noDangling u k hk).1 (hreg _)
    exact inv_modify_unregistered Hc hI hreg _ (.inr rfl) hp (hI.wf u) (fun q e hx => (hXu q e hx).1)
  · simp only [hd, Bool.false_eq_true, if_false] at h
    cases ha : attach Hc fuel s1 u with
    | mk s2 res =>
      rw [ha] at h
      cases res with
      | error e => simp at h
      | ok x =>
        cases x
        simp only [Prod.mk.injEq, Except.ok.injEq] at h
        obtain ⟨rfl, rfl⟩ := h
        obtain ⟨hI2, hatt, hsz, hg, _⟩ := attach_invX Hc hI hu hXu ha
        rw [setContentId_noop Hc s2 u (hI2.cid u hatt hYu)]
        exact ⟨hI2, rfl, hsz, fun _ => hatt, hg⟩

/-- construction over existing children preserves the invariant; with a hole `X` the hole child
must carry the id the new node is going to get (it is the node being replaced) -/
theorem construct_invX {X : Nat → (Nat × Str × Option Nat) → Prop} {Y : Nat → Prop} {s s' : LState} {n : NewSpec} {fuel u : Nat} (hI : InvX Hc X Y s)
    (hk : ∀ c ∈ n.fields.flatMap (·.kids), c < s.size) (hwf : (newObj n).wf)
    (hXc : ∀ q e, X q e → e.1 < s.size ∧
      ∀ nid coll orig, chooseId H (s.alloc (newObj n)).1 s.size n = .ok (nid, coll, orig) → s.idOf e.1 = nid)
    (hYn : ¬ Y s.size)
    (h : construct H Hc fuel s n = (s', .ok u)) :
    InvX Hc X Y s' ∧ u = s.size ∧ s'.size = s.size + 1 ∧ (n.createDetached = false → Att s' u) ∧ Grows s s' ∧
      (∀ nid coll orig, chooseId H (s.alloc (newObj n)).1 s.size n = .ok (nid, coll, orig) → s'.idOf s.size = nid) := by
  unfold construct at h
  simp only at h
  have hI0 : InvX Hc X Y (s.alloc (newObj n)).1 :=
    alloc_inv Hc hI (newObj n) rfl hk hwf (fun q e hx => Nat.ne_of_lt (hXc q e hx).1)
  have hsz0 : (s.alloc (newObj n)).1.size = s.size + 1 := rfl
  have hreg0 : ∀ k, (s.alloc (newObj n)).1.lookup k ≠ some s.size :=
    fun k => not_registered_of_ge Hc hI (Nat.le_refl _) k
  have hid0 : ∀ v, v ≠ s.size → (s.alloc (newObj n)).1.idOf v = s.idOf v := by
    intro v hv; unfold LState.alloc LState.idOf LState.obj; simp [hv]
  have hobj0 : ∀ v, v ≠ s.size → (s.alloc (newObj n)).1.obj v = s.obj v := by
    intro v hv; unfold LState.alloc LState.obj; simp [hv]
  have hlk0 : ∀ k, (s.alloc (newObj n)).1.lookup k = s.lookup k := fun _ => rfl
  generalize (s.alloc (newObj n)).1 = s0 at h hI0 hsz0 hreg0 hXc hid0 hobj0 hlk0 ⊢
  split at h
  · simp at h
  · split at h
    · simp at h
    · next nid coll orig hch =>
      have hI1 : InvX Hc X Y (s0.modify s.size (setIds nid coll orig)) :=
        inv_modify_unregistered Hc hI0 hreg0 _ (.inr rfl) rfl (hI0.wf _)
          (fun q e hx => Nat.ne_of_lt (hXc q e hx).1)
      obtain ⟨a, b, c, d, g⟩ := finishConstruct_inv Hc hI1 (by rw [modify_size, hsz0]; omega)
        (by intro k; rw [modify_lookup]; exact hreg0 k)
        (by
          intro q e hx
          obtain ⟨hlt, hid⟩ := hXc q e hx
          have hne : e.1 ≠ s.size := Nat.ne_of_lt hlt
          refine ⟨hne, ?_⟩
          unfold LState.idOf
          rw [modify_obj_ne _ _ _ _ hne, modify_obj_same]
          show s0.idOf e.1 = nid
          rw [hid0 e.1 hne]; exact hid nid coll orig hch) hYn h
      refine ⟨a, b, by rw [c, modify_size, hsz0], by rw [b]; exact d, ?_⟩
      have g0 : Grows s (s0.modify s.size (setIds nid coll orig)) := by
        refine ⟨by rw [modify_size, hsz0]; omega, fun x hx => ?_, fun k v hk => by rw [modify_lookup, hlk0]; exact hk⟩
        have hne : x ≠ s.size := Nat.ne_of_lt hx
        unfold LState.idOf
        rw [modify_obj_ne _ _ _ _ hne, hobj0 x hne]
        exact ⟨rfl, rfl⟩
      refine ⟨g0.trans g, ?_⟩
      intro nid' coll' orig' hch'
      rw [hch] at hch'
      simp only [Except.ok.injEq, Prod.mk.injEq] at hch'
      rw [← hch'.1]
      have := (g.same s.size (by rw [modify_size, hsz0]; omega)).1
      rw [this]
      unfold LState.idOf; rw [modify_obj_same]; rfl

theorem construct_inv {s s' : LState} {n : NewSpec} {fuel u : Nat} (hI : Inv Hc s)
    (hk : ∀ c ∈ n.fields.flatMap (·.kids), c < s.size) (hwf : (newObj n).wf)
    (h : construct H Hc fuel s n = (s', .ok u)) : Inv Hc s' ∧ u = s.size ∧ s'.size = s.size + 1 := by
  obtain ⟨a, b, c, _, _, _⟩ := construct_invX H Hc hI hk hwf (fun _ _ hx => hx.elim) (fun h => h) h
  exact ⟨a, b, c⟩

/-- a successful construction went through the id assignment -/
theorem construct_ok_chooseId {s s' : LState} {n : NewSpec} {fuel u : Nat}
    (h : construct H Hc fuel s n = (s', .ok u)) :
    ∃ nid coll orig, chooseId H (s.alloc (newObj n)).1 s.size n = .ok (nid, coll, orig) := by
  unfold construct at h
  simp only at h
  split at h
  · simp at h
  · split at h
    · simp at h
    · next nid coll orig hch => exact ⟨nid, coll, orig, hch⟩

/-- a rejected construction leaves every pre-existing record and the registry untouched (C19) -/
theorem construct_fail_frame {s s' : LState} {n : NewSpec} {fuel : Nat} {e : Err}
    (h : construct H Hc fuel s n = (s', .error e)) :
    s'.reg = s.reg ∧ ∀ v, v ≠ s.size → s'.obj v = s.obj v := by
  unfold construct at h
  simp only at h
  have hobj0 : ∀ v, v ≠ s.size → (s.alloc (newObj n)).1.obj v = s.obj v := by
    intro v hv; unfold LState.alloc LState.obj; simp [hv]
  have hreg0 : (s.alloc (newObj n)).1.reg = s.reg := rfl
  generalize (s.alloc (newObj n)).1 = s0 at h hobj0 hreg0
  split at h
  · simp only [Prod.mk.injEq] at h; obtain ⟨rfl, _⟩ := h; exact ⟨hreg0, hobj0⟩
  · split at h
    · simp only [Prod.mk.injEq] at h; obtain ⟨rfl, _⟩ := h; exact ⟨hreg0, hobj0⟩
    · next nid coll orig _ =>
      unfold finishConstruct at h
      split at h
      · simp at h
      · cases ha : attach Hc fuel (s0.modify s.size (setIds nid coll orig)) s.size with
        | mk s2 res =>
          rw [ha] at h
          cases res with
          | ok x => cases x; simp at h
          | error e' =>
            simp only [Prod.mk.injEq] at h
            obtain ⟨rfl, _⟩ := h
            have := attach_fail_frame Hc _ _ _ _ _ ha
            rw [this]
            exact ⟨hreg0, fun v hv => by rw [modify_obj_ne _ _ _ _ hv]; exact hobj0 v hv⟩

/-! ### the fields of a replacement -/

theorem applyFields_names (fs : List LField) (ch : List (Str × List Nat)) :
    (applyFields fs ch).map (·.name) = fs.map (·.name) := by
  unfold applyFields
  rw [List.map_map]
  apply List.map_congr_left
  intro f _
  simp only [Function.comp]
  split <;> rfl

/-- the changes of a `replace` keep single fields single -/
def Changes.wfFor (o : LObj) (ch : Changes) : Prop := ∀ f ∈ applyFields o.fields ch.fields, f.wf

instance (o : LObj) (ch : Changes) : Decidable (ch.wfFor o) := by unfold Changes.wfFor; infer_instance

theorem applyFields_wf {o : LObj} {ch : Changes} (ho : o.wf) (hc : ch.wfFor o) (sp : NewSpec)
    (hsp : sp.fields = applyFields o.fields ch.fields) : (newObj sp).wf := by
  unfold LObj.wf
  show ((sp.fields).map (·.name)).Nodup ∧ ∀ f ∈ sp.fields, f.wf
  rw [hsp, applyFields_names]
  exact ⟨ho.1, hc⟩

/-! ### duplicate -/

/-- `original_id` / `id_collision_with` are not mentioned by the invariant -/
theorem inv_modify_meta {X : Nat → (Nat × Str × Option Nat) → Prop} {Y : Nat → Prop} {s : LState} (hI : InvX Hc X Y s) (n : Nat) (a b : LObj → Option Str) :
    InvX Hc X Y (s.modify n fun x => { x with collWith := a x, origId := b x }) := by
  let t := s.modify n fun x => { x with collWith := a x, origId := b x }
  have hid : ∀ v, t.idOf v = s.idOf v := by
    intro v; show (t.obj v).id = (s.obj v).id; rw [modify_obj]; split
    · next h => subst h; rfl
    · rfl
  have hf : ∀ v, (t.obj v).fields = (s.obj v).fields := by
    intro v; rw [modify_obj]; split
    · next h => subst h; rfl
    · rfl
  have hpp : ∀ v, (t.obj v).pid = (s.obj v).pid ∧ (t.obj v).pfield = (s.obj v).pfield ∧
      (t.obj v).pindex = (s.obj v).pindex ∧ (t.obj v).cid = (s.obj v).cid ∧ (t.obj v).cls = (s.obj v).cls ∧
      (t.obj v).props = (s.obj v).props := by
    intro v; rw [modify_obj]; split
    · next h => subst h; exact ⟨rfl, rfl, rfl, rfl, rfl, rfl⟩
    · exact ⟨rfl, rfl, rfl, rfl, rfl, rfl⟩
  have hkp : ∀ v, (t.obj v).kidsPos = (s.obj v).kidsPos := by intro v; unfold LObj.kidsPos; rw [hf]
  have hkl : ∀ v, (t.obj v).kidList = (s.obj v).kidList := by intro v; unfold LObj.kidList; rw [hf]
  have hatt : ∀ v, Att t v ↔ Att s v := by intro v; unfold Att; rw [hid]; rfl
  refine ⟨?_, ?_, ?_, ?_, ?_, ?_, ?_, ?_⟩
  · intro k v hk; obtain ⟨x, y⟩ := hI.regSound k v hk; exact ⟨x, by rw [hid]; exact y⟩
  · intro w hw e he hx
    rw [hkp] at he
    obtain ⟨x, y, z, q⟩ := hI.down w ((hatt w).mp hw) e he hx
    exact ⟨(hatt _).mpr x, by rw [(hpp _).1, hid]; exact y, by rw [(hpp _).2.1]; exact z,
      by rw [(hpp _).2.2.1]; exact q⟩
  · intro x hx p hp
    have : s.parent x = some p := by
      unfold LState.parent at hp ⊢; rw [(hpp x).1] at hp; exact hp
    obtain ⟨f, hf1, hf2⟩ := hI.up x ((hatt x).mp hx) p this
    exact ⟨f, by rw [(hpp x).2.1]; exact hf1, by rw [(hpp x).2.2.1, hkp]; exact hf2⟩
  · intro x hx hy
    rw [(hpp x).2.2.2.1, hI.cid x ((hatt x).mp hx) hy]
    congr 1
    symm
    exact cidPre_congr (hpp x).2.2.2.2.1 (hpp x).2.2.2.2.2 (hf x) (fun c _ => (hpp c).2.2.2.1)
  · intro x k hk
    rw [(hpp x).1] at hk
    obtain ⟨x1, x2⟩ := hI.noDangling x k hk
    exact ⟨(hatt x).mpr x1, x2⟩
  · intro v hv c hc
    rw [hkl] at hc
    exact hI.closed v hv c hc
  · intro x hx
    apply hI.noSelf x
    unfold LState.parent at hx ⊢; rw [(hpp x).1] at hx; exact hx
  · intro v; unfold LObj.wf; rw [hf v]; exact hI.wf v

/-- what we carry through `duplicate`: the invariant, the result exists, the heap only grows -/
def DupOk (s s' : LState) (r : Nat) : Prop := Inv Hc s' ∧ r < s'.size ∧ s.size ≤ s'.size

theorem dupList_ok (rec : LState → Nat → LState × Except Err Nat)
    (hrec : ∀ s c s' r, Inv Hc s → c < s.size → rec s c = (s', .ok r) → DupOk Hc s s' r) :
    ∀ (ks : List Nat) (s s' : LState) (rs : List Nat), Inv Hc s → (∀ c ∈ ks, c < s.size) →
      dupList rec s ks = (s', .ok rs) → Inv Hc s' ∧ (∀ r ∈ rs, r < s'.size) ∧ s.size ≤ s'.size := by
  intro ks
  induction ks with
  | nil =>
    intro s s' rs hI _ h
    simp only [dupList, Prod.mk.injEq, Except.ok.injEq] at h
    obtain ⟨rfl, rfl⟩ := h
    exact ⟨hI, by simp, Nat.le_refl _⟩
  | cons c cs ih =>
    intro s s' rs hI hks h
    unfold dupList at h
    cases h1 : rec s c with
    | mk s1 res1 =>
      rw [h1] at h
      cases res1 with
      | error e => simp at h
      | ok c' =>
        simp only at h
        obtain ⟨hI1, hc1, hs1⟩ := hrec s c s1 c' hI (hks c (List.mem_cons_self ..)) h1
        cases h2 : dupList rec s1 cs with
        | mk s2 res2 =>
          rw [h2] at h
          cases res2 with
          | error e => simp at h
          | ok cs' =>
            simp only [Prod.mk.injEq, Except.ok.injEq] at h
            obtain ⟨rfl, rfl⟩ := h
            obtain ⟨hI2, hr2, hs2⟩ := ih s1 s2 cs' hI1
              (fun x hx => Nat.lt_of_lt_of_le (hks x (List.mem_cons_of_mem _ hx)) hs1) h2
            refine ⟨hI2, ?_, Nat.le_trans hs1 hs2⟩
            intro r hr
            rcases List.mem_cons.mp hr with rfl | hr
            · exact Nat.lt_of_lt_of_le hc1 hs2
            · exact hr2 r hr

theorem dupFields_ok (rec : LState → Nat → LState × Except Err Nat)
    (hrec : ∀ s c s' r, Inv Hc s → c < s.size → rec s c = (s', .ok r) → DupOk Hc s s' r) :
    ∀ (fs : List LField) (s s' : LState) (fs' : List LField), Inv Hc s →
      (∀ c ∈ fs.flatMap (·.kids), c < s.size) → dupFields rec s fs = (s', .ok fs') →
      Inv Hc s' ∧ (∀ r ∈ fs'.flatMap (·.kids), r < s'.size) ∧ s.size ≤ s'.size := by
  intro fs
  induction fs with
  | nil =>
    intro s s' fs' hI _ h
    simp only [dupFields, Prod.mk.injEq, Except.ok.injEq] at h
    obtain ⟨rfl, rfl⟩ := h
    exact ⟨hI, by simp, Nat.le_refl _⟩
  | cons f fr ih =>
    intro s s' fs' hI hks h
    unfold dupFields at h
    cases h1 : dupList rec s f.kids with
    | mk s1 res1 =>
      rw [h1] at h
      cases res1 with
      | error e => simp at h
      | ok ks =>
        simp only at h
        obtain ⟨hI1, hk1, hs1⟩ := dupList_ok Hc rec hrec f.kids s s1 ks hI
          (fun c hc => hks c (by simp only [List.flatMap_cons]; exact List.mem_append_left _ hc)) h1
        cases h2 : dupFields rec s1 fr with
        | mk s2 res2 =>
          rw [h2] at h
          cases res2 with
          | error e => simp at h
          | ok fr' =>
            simp only [Prod.mk.injEq, Except.ok.injEq] at h
            obtain ⟨rfl, rfl⟩ := h
            obtain ⟨hI2, hr2, hs2⟩ := ih s1 s2 fr' hI1
              (fun c hc => Nat.lt_of_lt_of_le
                (hks c (by simp only [List.flatMap_cons]; exact List.mem_append_right _ hc)) hs1) h2
            refine ⟨hI2, ?_, Nat.le_trans hs1 hs2⟩
            intro r hr
            simp only [List.flatMap_cons] at hr
            rcases List.mem_append.mp hr with hr | hr
            · exact Nat.lt_of_lt_of_le (hk1 r hr) hs2
            · exact hr2 r hr

theorem dupList_length (rec : LState → Nat → LState × Except Err Nat) : ∀ (ks : List Nat) (s s' : LState)
    (rs : List Nat), dupList rec s ks = (s', .ok rs) → rs.length = ks.length := by
  intro ks
  induction ks with
  | nil => intro s s' rs h; simp only [dupList, Prod.mk.injEq, Except.ok.injEq] at h; rw [← h.2]
  | cons c cs ih =>
    intro s s' rs h
    unfold dupList at h
    cases h1 : rec s c with
    | mk s1 res1 =>
      rw [h1] at h
      cases res1 with
      | error e => simp at h
      | ok c' =>
        simp only at h
        cases h2 : dupList rec s1 cs with
        | mk s2 res2 =>
          rw [h2] at h
          cases res2 with
          | error e => simp at h
          | ok cs' =>
            simp only [Prod.mk.injEq, Except.ok.injEq] at h
            rw [← h.2]; simp [ih s1 s2 cs' h2]

/-- the shape of a child field: name, kind, number of children -/
def LField.shape (f : LField) : Str × FKind × Nat := (f.name, f.kind, f.kids.length)

theorem dupFields_shape (rec : LState → Nat → LState × Except Err Nat) : ∀ (fs : List LField) (s s' : LState)
    (fs' : List LField), dupFields rec s fs = (s', .ok fs') → fs'.map LField.shape = fs.map LField.shape := by
  intro fs
  induction fs with
  | nil => intro s s' fs' h; simp only [dupFields, Prod.mk.injEq, Except.ok.injEq] at h; rw [← h.2]
  | cons f fr ih =>
    intro s s' fs' h
    unfold dupFields at h
    cases h1 : dupList rec s f.kids with
    | mk s1 res1 =>
      rw [h1] at h
      cases res1 with
      | error e => simp at h
      | ok ks =>
        simp only at h
        cases h2 : dupFields rec s1 fr with
        | mk s2 res2 =>
          rw [h2] at h
          cases res2 with
          | error e => simp at h
          | ok fr' =>
            simp only [Prod.mk.injEq, Except.ok.injEq] at h
            rw [← h.2]
            simp only [List.map_cons, ih s1 s2 fr' h2]
            congr 1
            simp [LField.shape, dupList_length rec f.kids s s1 ks h1]

theorem wf_of_shape {fs fs' : List LField} (h : fs'.map LField.shape = fs.map LField.shape) (o o' : LObj)
    (ho : o.fields = fs) (ho' : o'.fields = fs') (hw : o.wf) : o'.wf := by
  unfold LObj.wf at hw ⊢
  rw [ho] at hw; rw [ho']
  have hn : fs'.map (·.name) = fs.map (·.name) := by
    have := congrArg (List.map (·.1)) h
    simpa [List.map_map, Function.comp_def, LField.shape] using this
  refine ⟨by rw [hn]; exact hw.1, ?_⟩
  intro f' hf'
  have hm : f'.shape ∈ fs.map LField.shape := by rw [← h]; exact List.mem_map.mpr ⟨f', hf', rfl⟩
  obtain ⟨f, hf, hsh⟩ := List.mem_map.mp hm
  have := hw.2 f hf
  unfold LField.wf at this ⊢
  simp only [LField.shape, Prod.mk.injEq] at hsh
  rw [← hsh.2.1, ← hsh.2.2]; exact this

/-- `duplicate` (both variants) preserves the invariant -/
theorem duplicate_ok (cfuel : Nat) (clone : Bool) : ∀ (fuel : Nat) (s : LState) (u : Nat) (s' : LState) (r : Nat),
    Inv Hc s → u < s.size → duplicate H Hc cfuel clone fuel s u = (s', .ok r) → DupOk Hc s s' r := by
  intro fuel
  induction fuel with
  | zero => intro s u s' r _ _ h; simp [duplicate] at h
  | succ fuel ih =>
    intro s u s' r hI hu h
    unfold duplicate at h
    cases h1 : dupFields (duplicate H Hc cfuel clone fuel) s (s.obj u).fields with
    | mk s1 res1 =>
      rw [h1] at h
      cases res1 with
      | error e => simp at h
      | ok fs =>
        simp only at h
        obtain ⟨hI1, hk1, hs1⟩ := dupFields_ok Hc _ (fun s c s' r a b c' => ih s c s' r a b c')
          (s.obj u).fields s s1 fs hI (fun c hc => hI.closed u hu c hc) h1
        split at h
        · simp at h
        · next s2 n hc =>
          simp only [Prod.mk.injEq, Except.ok.injEq] at h
          obtain ⟨rfl, rfl⟩ := h
          have hsh := dupFields_shape _ _ _ _ _ h1
          have hwf : ∀ sp : NewSpec, sp.fields = fs → (newObj sp).wf :=
            fun sp hsp => wf_of_shape hsh (s.obj u) (newObj sp) rfl hsp (hI.wf u)
          obtain ⟨hI2, hn, hs2⟩ := construct_inv H Hc hI1 hk1 (hwf _ rfl) hc
          refine ⟨inv_modify_meta Hc hI2 n _ _, ?_, ?_⟩
          · rw [modify_size, hs2, hn]; omega
          · rw [modify_size, hs2]; omega

end

end PyOak.Legacy
