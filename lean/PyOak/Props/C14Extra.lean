/-
C14 (additions after the audit, AUDIT.md item #2).

**duplicate.**  `C14.dup_copy`, `dup_fresh`, `dup_independent` are all satisfied by a SHALLOW copy (a
new root that re-uses the original children): `C14.isCopy s n a a` holds for every node
(`isCopy_self` below).  Here:

* `isCopyNew old s n a b` — `b ∉ old`, `b` has the class / mro of `a`, and the children of `b` are,
  position by position, `isCopyNew` copies of the children of `a`;  `isCopyP P` is the same with an
  arbitrary predicate `P` on the nodes of the copy.
* `dup_all_new`: EVERY node of the duplicate is an object that did not exist before
  (`old = s.heap.map (·.uid)`); a shallow copy does not satisfy it (`isCopyNew_kids_new`,
  `not_isCopyNew_self`, example `shallow_is_not_new`).
* `dup_all_registered`: every node of the duplicate is registered under its id, and that id is the
  key of no registered node of the original state (`NewReg`).
* `dup_descendants_new`: the same read off the model's own traversal `descendants` (`self.dfs()`).
* `duplicate_step`: the statement for the public operation, in the state after the final `gc`.

NOT provable in this model: "same base digest" — the digest of every created node is an INPUT of the
machine (observed on the real node), as are property values, origins and content ids (see AUDIT.md).

**replace.**  The statement says: `replace` "gives the new node the id a fresh construction with the
original absent would get (the original's id when only non-comparable fields change and it has no
registered twin)".

* `replace_id_fresh_absent`, `replace_id_eq_construct_absent`: the main clause, for registered AND
  detached originals: the id is `freshId` in the registry from which every entry of the original
  was removed, which is the id `construct` hands out in that registry.
* `freshId_least`, `freshId_skipped`: `_get_next_unique_id` returns the LEAST free suffix.
* the parenthetical is FALSE as written.  `C14.replace_same_digest_keeps_id` has the premise "new
  digest = the original's *id*", which never holds for an original carrying a suffixed id.  Precisely
  (`replace_keeps_id_iff`): with an unchanged digest `d`, an original with id `d` keeps it; an original
  with id `d_j` keeps it iff `d, d_1, …, d_(j-1)` are all still registered (by other nodes).  Hence
  an original with a suffixed id whose twin died gets the plain digest back
  (`replace_suffixed_twin_dead`), contradicting the parenthetical although it "has no registered
  twin": `replace_keeps_id_naive_fails` (concrete history, `decide`).  The real code does the same
  (checked: ids `X_1` → `X`), i.e. code and model follow the main clause; the parenthetical of the
  statement is imprecise.
* `replace_detached`, `replace_new_node`, `dcReplace_new_node`: detached originals; class, children
  and registration of the new node.
-/
import PyOak.Props.C14
import PyOak.Props.C10Extra
namespace PyOak
namespace C14X
open RState RegL C03 C14

/-! ### copies all of whose nodes satisfy a predicate -/

/-- `isCopyP P s n a b`: `b` is a structural copy of `a` (class, mro, children position by position,
down to depth `n`) and EVERY node of the copy satisfies `P` -/
def isCopyP (P : Nat → Prop) (s : RState) : Nat → Nat → Nat → Prop
  | 0, _, _ => False
  | n + 1, a, b => P b ∧ ∃ oa ob, s.obj? a = some oa ∧ s.obj? b = some ob ∧ ob.cls = oa.cls ∧ ob.mro = oa.mro ∧
      Forall₂ (isCopyP P s n) oa.kids ob.kids

/-- `isCopyNew old s n a b`: a structural copy none of whose nodes is in `old` -/
def isCopyNew (old : List Nat) (s : RState) : Nat → Nat → Nat → Prop
  | 0, _, _ => False
  | n + 1, a, b => b ∉ old ∧ ∃ oa ob, s.obj? a = some oa ∧ s.obj? b = some ob ∧ ob.cls = oa.cls ∧ ob.mro = oa.mro ∧
      Forall₂ (isCopyNew old s n) oa.kids ob.kids

theorem forall₂_iff {α β : Type} {R S : α → β → Prop} (h : ∀ a b, R a b ↔ S a b) {l1 : List α} {l2 : List β} :
    Forall₂ R l1 l2 ↔ Forall₂ S l1 l2 :=
  ⟨forall₂_imp (fun a b => (h a b).mp), forall₂_imp (fun a b => (h a b).mpr)⟩

theorem isCopyNew_iff (old : List Nat) (s : RState) :
    ∀ (n a b : Nat), isCopyNew old s n a b ↔ isCopyP (fun b => b ∉ old) s n a b
  | 0, _, _ => Iff.rfl
  | n + 1, a, b => by
    have ih : ∀ (l1 l2 : List Nat), Forall₂ (isCopyNew old s n) l1 l2 ↔ Forall₂ (isCopyP (fun b => b ∉ old) s n) l1 l2 :=
      fun _ _ => forall₂_iff (isCopyNew_iff old s n)
    constructor
    · rintro ⟨h0, oa, ob, h1, h2, h3, h4, h5⟩; exact ⟨h0, oa, ob, h1, h2, h3, h4, (ih _ _).mp h5⟩
    · rintro ⟨h0, oa, ob, h1, h2, h3, h4, h5⟩; exact ⟨h0, oa, ob, h1, h2, h3, h4, (ih _ _).mpr h5⟩

/-- a list-relation lemma that remembers where the right element comes from -/
theorem forall₂_imp_mem {α β : Type} {R S : α → β → Prop} :
    ∀ {l1 : List α} {l2 : List β}, (∀ a b, b ∈ l2 → R a b → S a b) → Forall₂ R l1 l2 → Forall₂ S l1 l2
  | _, _, _, .nil => .nil
  | _, _, h, .cons hab t =>
    .cons (h _ _ (by simp) hab) (forall₂_imp_mem (fun a b hb => h a b (List.mem_cons_of_mem _ hb)) t)

theorem forall₂_mem_right {α β : Type} {R : α → β → Prop} :
    ∀ {l1 : List α} {l2 : List β}, Forall₂ R l1 l2 → ∀ b ∈ l2, ∃ a ∈ l1, R a b
  | _, _, .nil, b, hb => by simp at hb
  | _, _, .cons hab t, b, hb => by
    rcases List.mem_cons.mp hb with rfl | hb
    · exact ⟨_, by simp, hab⟩
    · obtain ⟨a, ha, hr⟩ := forall₂_mem_right t b hb
      exact ⟨a, List.mem_cons_of_mem _ ha, hr⟩

/-- a copy is a copy -/
theorem isCopyP_isCopy {P : Nat → Prop} {s : RState} : ∀ (n a b : Nat), isCopyP P s n a b → isCopy s n a b
  | 0, _, _, h => h.elim
  | n + 1, _, _, ⟨_, oa, ob, h1, h2, h3, h4, h5⟩ => ⟨oa, ob, h1, h2, h3, h4, forall₂_imp (isCopyP_isCopy n) h5⟩

/-- the predicate may be weakened using the record of the node -/
theorem isCopyP_imp {P Q : Nat → Prop} {s : RState} (h : ∀ b ob, s.obj? b = some ob → P b → Q b) :
    ∀ (n a b : Nat), isCopyP P s n a b → isCopyP Q s n a b
  | 0, _, _, hc => hc.elim
  | n + 1, _, _, ⟨h0, oa, ob, h1, h2, h3, h4, h5⟩ =>
    ⟨h _ _ h2 h0, oa, ob, h1, h2, h3, h4, forall₂_imp (isCopyP_imp h n) h5⟩

theorem isCopyP_mono {P : Nat → Prop} {s s' : RState} (h : ∀ u o, s.obj? u = some o → s'.obj? u = some o) :
    ∀ (n a b : Nat), isCopyP P s n a b → isCopyP P s' n a b
  | 0, _, _, hc => hc.elim
  | n + 1, _, _, ⟨h0, oa, ob, h1, h2, h3, h4, h5⟩ =>
    ⟨h0, oa, ob, h _ _ h1, h _ _ h2, h3, h4, forall₂_imp (isCopyP_mono h n) h5⟩

/-- `isCopyP` only depends on the heap -/
theorem isCopyP_congr {P : Nat → Prop} {s s' : RState} (h : s.heap = s'.heap) (n a b : Nat) :
    isCopyP P s n a b → isCopyP P s' n a b :=
  isCopyP_mono (fun u o hu => by simpa [obj?, ← h] using hu) n a b

theorem kidsOf_of_obj {s : RState} {b : Nat} {ob : RObj} (h : s.obj? b = some ob) : s.kidsOf b = ob.kids := by
  simp [kidsOf, h]

/-- every node the model's traversal (`self.dfs()`) finds in the copy satisfies `P` -/
theorem isCopyP_descendants {P : Nat → Prop} {s : RState} :
    ∀ (n a b : Nat), isCopyP P s n a b → ∀ c ∈ b :: s.descendants n b, P c
  | 0, _, _, h, _, _ => h.elim
  | n + 1, a, b, ⟨h0, oa, ob, h1, h2, h3, h4, h5⟩, c, hc => by
    rcases List.mem_cons.mp hc with rfl | hc
    · exact h0
    · simp only [descendants, kidsOf_of_obj h2, List.mem_flatMap] at hc
      obtain ⟨k, hk, hck⟩ := hc
      obtain ⟨a', _, hr⟩ := forall₂_mem_right h5 k hk
      exact isCopyP_descendants n a' k hr c hck

/-- the nodes of the copy of a live root are live -/
theorem isCopyP_live {P : Nat → Prop} {s : RState} (hnd : (s.heap.map (·.uid)).Nodup) :
    ∀ (n a b : Nat), isCopyP P s n a b → s.isLive b = true → isCopyP (fun c => P c ∧ s.isLive c = true) s n a b
  | 0, _, _, h, _ => h.elim
  | n + 1, a, b, ⟨h0, oa, ob, h1, h2, h3, h4, h5⟩, hl => by
    refine ⟨⟨h0, hl⟩, oa, ob, h1, h2, h3, h4, forall₂_imp_mem ?_ h5⟩
    intro a' k hk hr
    exact isCopyP_live hnd n a' k hr (isLive_kid hnd hl (by rw [kidsOf_of_obj h2]; exact hk))

/-! ### a shallow copy is NOT new -/

theorem forall₂_left_self {α β : Type} {R : α → β → Prop} {S : α → α → Prop} (h : ∀ a b, R a b → S a a) :
    ∀ {l1 : List α} {l2 : List β}, Forall₂ R l1 l2 → Forall₂ S l1 l1
  | _, _, .nil => .nil
  | _, _, .cons hab t => .cons (h _ _ hab) (forall₂_left_self h t)

/-- the weakness of `C14.isCopy`: whenever anything is a copy of `a`, `a` is a "copy" of itself; so
the conclusion of `C14.dup_copy` cannot tell a duplicate from the original, and a new root over
the original children satisfies `dup_copy` / `dup_fresh` / `dup_independent` -/
theorem isCopy_self {s : RState} : ∀ (n a b : Nat), isCopy s n a b → isCopy s n a a
  | 0, _, _, h => h.elim
  | n + 1, _, _, ⟨oa, _, h1, _, _, _, h5⟩ => ⟨oa, oa, h1, h1, rfl, rfl, forall₂_left_self (isCopy_self n) h5⟩

/-- the children of an `isCopyNew` copy are new: a root over the ORIGINAL children is refuted -/
theorem isCopyNew_kids_new {old : List Nat} {s : RState} {n a b : Nat} (h : isCopyNew old s (n + 2) a b) {ob : RObj}
    (hb : s.obj? b = some ob) : ∀ k ∈ ob.kids, k ∉ old := by
  obtain ⟨_, oa, ob', _, h2, _, _, h5⟩ := h
  rw [hb] at h2
  cases h2
  intro k hk
  obtain ⟨a', _, hr⟩ := forall₂_mem_right h5 k hk
  exact hr.1

theorem not_isCopyNew_self {old : List Nat} {s : RState} {n a : Nat} (ha : a ∈ old) : ¬ isCopyNew old s n a a := by
  cases n with
  | zero => exact fun h => h
  | succ n => exact fun h => h.1 ha

/-! ### `duplicate`: every node of the copy is new -/

/-- the induction behind `dup_all_new`: every node of the copy satisfies any predicate that all the
fresh tokens satisfy -/
theorem dup_copyP (P : Nat → Prop) : ∀ (fuel : Nat) (s : RState) (x : Nat) (fresh : Fresh) (s' : RState) (u : Nat) (fr : Fresh),
    Inv s → FreshOk s fresh → (∀ t ∈ fresh.map (·.1), P t) → s.dupAux fuel x fresh = some (s', u, fr) →
    isCopyP P s' fuel x u
  | 0, s, x, fresh, s', u, fr, _, _, _, h => by simp [dupAux_zero] at h
  | fuel + 1, s, x, fresh, s', u, fr, hI, hf, hP, h => by
    obtain ⟨o, s1, ks, base, ho, hfold, rfl⟩ := dupAux_inv h
    have key : ∀ (kids done : List Nat) (s0 : RState) (ks0 : List Nat) (f0 : Fresh)
        (res : RState × List Nat × Fresh), Inv s0 → FreshOk s0 f0 → (∀ t ∈ f0.map (·.1), P t) →
        Forall₂ (isCopyP P s0 fuel) done ks0 →
        dupFold fuel kids (some (s0, ks0, f0)) = some res →
        Inv res.1 ∧ FreshOk res.1 res.2.2 ∧ (∀ t ∈ res.2.2.map (·.1), P t) ∧
        Forall₂ (isCopyP P res.1 fuel) (done ++ kids) res.2.1 ∧
        (∀ u o, s0.obj? u = some o → res.1.obj? u = some o) := by
      intro kids
      induction kids with
      | nil =>
        intro done s0 ks0 f0 res hI0 hf0 hP0 hd h
        simp [dupFold_nil] at h; subst h
        exact ⟨hI0, hf0, hP0, by simpa using hd, fun _ _ h => h⟩
      | cons c rest ih =>
        intro done s0 ks0 f0 res hI0 hf0 hP0 hd h
        obtain ⟨s1, c', fr1, hdup, hr⟩ := dupFold_cons_inv h
        have hE := dupAux_evol _ _ _ _ _ _ _ hdup
        obtain ⟨hI1, hf1⟩ := evol_good hE hI0 hf0
        obtain ⟨q, hq⟩ := hE.suffix
        have hP1 : ∀ t ∈ fr1.map (·.1), P t := by
          intro t ht; apply hP0; rw [hq]
          simp only [List.map_append, List.mem_append]; exact Or.inr ht
        have hc := dup_copyP P fuel s0 c f0 s1 c' fr1 hI0 hf0 hP0 hdup
        have hst : ∀ u o, s0.obj? u = some o → s1.obj? u = some o := fun u o => evol_obj_stable hE hI0 hf0
        have hd1 : Forall₂ (isCopyP P s1 fuel) (done ++ [c]) (ks0 ++ [c']) :=
          forall₂_snoc hc (forall₂_imp (isCopyP_mono hst fuel) hd)
        obtain ⟨a1, a2, a3, a4, a5⟩ := ih (done ++ [c]) s1 (ks0 ++ [c']) fr1 res hI1 hf1 hP1 hd1 hr
        exact ⟨a1, a2, a3, by simpa using a4, fun u o h => a5 u o (hst u o h)⟩
    obtain ⟨hI1, hf1, hP1, hks, hst⟩ := key o.kids [] s [] fresh _ hI hf hP .nil hfold
    simp only [List.nil_append] at hks
    have hI2 := pNew_inv hI1 hf1.head o.cls o.mro base ks
    have hst2 : ∀ w ow, s1.obj? w = some ow → (s1.pNew u o.cls o.mro base ks).obj? w = some ow := by
      intro w ow hw
      obtain ⟨hm, rfl⟩ := obj?_some hw
      exact obj?_of_mem hI2.heapNodup (List.mem_append_left _ hm)
    refine ⟨hP1 u (by simp), o,
      { uid := u, cls := o.cls, mro := o.mro, base := base, id := s1.freshId base, kids := ks },
      hst2 _ _ (hst _ _ ho), ?_, rfl, rfl, forall₂_imp (isCopyP_mono hst2 fuel) hks⟩
    exact obj?_of_mem (o := { uid := u, cls := o.cls, mro := o.mro, base := base, id := s1.freshId base, kids := ks })
      hI2.heapNodup (List.mem_append_right _ (List.mem_singleton.mpr rfl))

/-- **duplicate: EVERY node of the copy is a newly created object** (not an object of the state
before the call), at every position of the tree; in particular no child is shared with the
original.  (`C14.dup_copy` + `dup_independent` only say this of the root.) -/
theorem dup_all_new {s : RState} {fuel x : Nat} {fresh : Fresh} {s' : RState} {u : Nat} {fr : Fresh}
    (hI : Inv s) (hf : FreshOk s fresh) (h : s.dupAux fuel x fresh = some (s', u, fr)) :
    isCopyNew (s.heap.map (·.uid)) s' fuel x u :=
  (isCopyNew_iff _ _ _ _ _).mpr (dup_copyP _ fuel s x fresh s' u fr hI hf hf.2 h)

/-- what the state after an evolution without forced ids holds: old records, or new ones that are
registered under an id that was not a key of the old registry -/
theorem evol_new_objs {K L : Nat → Prop} {C : Bool} {s f s1 f1} (hE : Evol K L false C s f s1 f1) :
    (∀ e ∈ s.reg, e ∈ s1.reg) ∧
    ∀ o ∈ s1.heap, o ∈ s.heap ∨ ((o.id, o.uid) ∈ s1.reg ∧ o.id ∉ s.reg.map (·.1)) := by
  induction hE with
  | refl => exact ⟨fun e he => he, fun o ho => Or.inl ho⟩
  | @new s1 tok base fr hE cls mro ks hk hl ih =>
    obtain ⟨hreg0, hobj⟩ := ih
    have hreg : (s1.pNew tok cls mro base ks).reg = s1.reg ++ [(s1.freshId base, tok)] :=
      regSet_of_free tok (RegL.freshId_free s1 base)
    refine ⟨fun e he => by rw [hreg]; exact List.mem_append_left _ (hreg0 e he), ?_⟩
    intro o ho
    rw [hreg]
    simp only [pNew] at ho
    rcases List.mem_append.mp ho with ho' | ho'
    · rcases hobj o ho' with h | ⟨h1, h2⟩
      · exact Or.inl h
      · exact Or.inr ⟨List.mem_append_left _ h1, h2⟩
    · simp only [List.mem_singleton] at ho'
      subst ho'
      refine Or.inr ⟨by simp, ?_⟩
      intro hm
      apply RegL.freshId_free s1 base
      obtain ⟨e, he, hk'⟩ := List.mem_map.mp hm
      exact List.mem_map.mpr ⟨e, hreg0 e he, hk'⟩
  | newForce hF => cases hF

/-- `NewReg s s' b`: `b` did not exist in `s`; in `s'` it is registered under its id; and no
registered node of `s` uses that id -/
def NewReg (s s' : RState) (b : Nat) : Prop :=
  b ∉ s.heap.map (·.uid) ∧
  ∃ ob, s'.obj? b = some ob ∧ s'.regGet ob.id = some b ∧ ∀ k w, s.regGet k = some w → k ≠ ob.id

/-- **duplicate: every node of the copy is new, registered, and its id is used by no registered
node of the original** -/
theorem dup_all_registered {s : RState} {fuel x : Nat} {fresh : Fresh} {s' : RState} {u : Nat} {fr : Fresh}
    (hI : Inv s) (hf : FreshOk s fresh) (h : s.dupAux fuel x fresh = some (s', u, fr)) :
    isCopyP (NewReg s s') s' fuel x u := by
  have hE := dupAux_evol _ _ _ _ _ _ _ h
  have hI' := (evol_good hE hI hf).1
  obtain ⟨_, hobj⟩ := evol_new_objs hE
  refine isCopyP_imp ?_ fuel x u (dup_copyP _ fuel s x fresh s' u fr hI hf hf.2 h)
  intro b ob hb hnew
  obtain ⟨hm, hu⟩ := obj?_some hb
  rcases hobj ob hm with h1 | ⟨h1, h2⟩
  · exact absurd (List.mem_map.mpr ⟨ob, h1, hu⟩) hnew
  · refine ⟨hnew, ob, hb, ?_, ?_⟩
    · rw [hu] at h1; exact rget_of_mem hI'.keysNodup h1
    · intro k w hk e
      subst e
      exact h2 (List.mem_map.mpr ⟨_, rget_some_mem hk, rfl⟩)

/-- the same, read off the model's traversal of the copy (`dup.dfs()`): the root of the duplicate
and every node below it is new, registered, under an id no registered original uses -/
theorem dup_descendants_new {s : RState} {fuel x : Nat} {fresh : Fresh} {s' : RState} {u : Nat} {fr : Fresh}
    (hI : Inv s) (hf : FreshOk s fresh) (h : s.dupAux fuel x fresh = some (s', u, fr)) :
    ∀ c ∈ u :: s'.descendants fuel u, NewReg s s' c :=
  isCopyP_descendants fuel x u (dup_all_registered hI hf h)

/-! ### the public operation -/

theorem step_duplicate_ok {s : RState} {v x : Nat} {fresh : Fresh} {u : Nat} {flag : Option Bool}
    (h : (s.step (.duplicate v x fresh)).2 = .ok (some u) flag) :
    s.isLive x = true ∧ ∃ s', s.dupAux (s.heap.length + 1) x fresh = some (s', u, []) ∧
      (s.step (.duplicate v x fresh)).1 = (s'.bind v u).gc := by
  by_cases hx : s.isLive x = true
  · refine ⟨hx, ?_⟩
    cases hd : s.dupAux (s.heap.length + 1) x fresh with
    | none => simp [step, hx, hd] at h
    | some r =>
      obtain ⟨s', u', fr⟩ := r
      cases fr with
      | nil =>
        simp [step, hx, hd, finish] at h ⊢
        exact ⟨s', ⟨rfl, h.1⟩, by rw [h.1]⟩
      | cons e r => simp [step, hx, hd, finish] at h
  · simp [step, hx] at h

/-- **`v = x.duplicate()`**, in the state after the operation (after `gc`): the result is a copy of
`x` every node of which is a new object, registered under an id that no registered node of the
state before the call uses; the same for every node the traversal of the result finds. -/
theorem duplicate_step {s : RState} {v x : Nat} {fresh : Fresh} {u : Nat} {flag : Option Bool}
    (hI : Inv s) (hok : OpOk s (.duplicate v x fresh))
    (h : (s.step (.duplicate v x fresh)).2 = .ok (some u) flag) :
    isCopyP (NewReg s (s.step (.duplicate v x fresh)).1) (s.step (.duplicate v x fresh)).1 (s.heap.length + 1) x u ∧
    ∀ c ∈ u :: (s.step (.duplicate v x fresh)).1.descendants (s.heap.length + 1) u,
      NewReg s (s.step (.duplicate v x fresh)).1 c := by
  obtain ⟨_, s', hd, hs2⟩ := step_duplicate_ok h
  have hE := dupAux_evol _ _ _ _ _ _ _ hd
  have hI' := (evol_good hE hI hok).1
  have hIb : Inv (s'.bind v u) := bind_inv hI' v u
  have h1 : isCopyP (NewReg s s') (s'.bind v u) (s.heap.length + 1) x u :=
    isCopyP_congr (s := s') (s' := s'.bind v u) rfl _ _ _ (dup_all_registered hI hok hd)
  have hlu : (s'.bind v u).isLive u = true :=
    isLive_root hIb.heapNodup (r := (v, u)) (by simp [RState.bind])
  have h2 := isCopyP_live hIb.heapNodup _ _ _ h1 hlu
  have h3 : isCopyP (NewReg s (s'.bind v u).gc) (s'.bind v u) (s.heap.length + 1) x u := by
    refine isCopyP_imp ?_ _ _ _ h2
    rintro b ob hb ⟨⟨hn, ob', hb', hreg, hid⟩, hl⟩
    refine ⟨hn, ob', hb', ?_, hid⟩
    apply rget_of_mem (gc_inv hIb).keysNodup
    exact List.mem_filter.mpr ⟨rget_some_mem hreg, hl⟩
  have h4 : isCopyP (NewReg s (s'.bind v u).gc) (s'.bind v u).gc (s.heap.length + 1) x u :=
    isCopyP_congr (s := s'.bind v u) (s' := (s'.bind v u).gc) rfl _ _ _ h3
  rw [hs2]
  exact ⟨h4, isCopyP_descendants _ _ _ h4⟩


/-! ### `_get_next_unique_id` returns the least free suffix -/

theorem suffixed_ne_base (base : Str) (j : Nat) : suffixed base j ≠ base := by
  intro h
  have := congrArg List.length h
  simp [suffixed] at this

theorem isKey_iff {s : RState} {k : Str} : (s.regGet k).isSome = true ↔ k ∈ s.reg.map (·.1) := by
  rw [regGet_def]; exact rget_isSome_iff

theorem nextUniqueFrom_least (s : RState) (base : Str) :
    ∀ (fuel i j : Nat), i ≤ j → j ≤ i + fuel → (∀ m, i ≤ m → m < j → suffixed base m ∈ s.reg.map (·.1)) →
      suffixed base j ∉ s.reg.map (·.1) → s.nextUniqueFrom base fuel i = suffixed base j
  | 0, i, j, h1, h2, _, _ => by
    have : j = i := by omega
    subst this; rfl
  | fuel + 1, i, j, h1, h2, ht, hfree => by
    simp only [nextUniqueFrom]
    split
    · rename_i hs
      have hne : i ≠ j := by
        intro e; subst e
        exact hfree (isKey_iff.mp hs)
      exact nextUniqueFrom_least s base fuel (i + 1) j (by omega) (by omega)
        (fun m hm1 hm2 => ht m (by omega) hm2) hfree
    · rename_i hs
      by_cases e : i = j
      · subst e; rfl
      · exact absurd (isKey_iff.mpr (ht i (Nat.le_refl _) (by omega))) hs

/-- every suffix skipped by the search is taken -/
theorem nextUniqueFrom_skipped (s : RState) (base : Str) :
    ∀ (fuel i r : Nat), s.nextUniqueFrom base fuel i = suffixed base r →
      ∀ m, i ≤ m → m < r → suffixed base m ∈ s.reg.map (·.1)
  | 0, i, r, h, m, h1, h2 => by
    have : i = r := suffixed_injective base h
    omega
  | fuel + 1, i, r, h, m, h1, h2 => by
    simp only [nextUniqueFrom] at h
    split at h
    · rename_i hs
      by_cases e : m = i
      · subst e; exact isKey_iff.mp hs
      · exact nextUniqueFrom_skipped s base fuel (i + 1) r h m (by omega) h2
    · have : i = r := suffixed_injective base h
      omega

/-- **the id of a new node**: the digest if it is free, otherwise `digest_j` for the LEAST `j ≥ 1`
such that `digest_j` is free -/
theorem freshId_least (s : RState) (base : Str) (j : Nat) (h0 : base ∈ s.reg.map (·.1)) (hj : 1 ≤ j)
    (ht : ∀ m, 1 ≤ m → m < j → suffixed base m ∈ s.reg.map (·.1)) (hfree : suffixed base j ∉ s.reg.map (·.1)) :
    s.freshId base = suffixed base j := by
  have hb : (s.regGet base).isSome = true := isKey_iff.mpr h0
  simp only [freshId, hb, if_true]
  obtain ⟨j', h1, h2, h3⟩ := pigeon (suffixed base) (suffixed_injective base) s.reg.length (s.reg.map (·.1)) 1 (by simp)
  have : j ≤ j' := by
    by_cases hlt : j' < j
    · exact absurd (ht j' h1 hlt) h3
    · omega
  exact nextUniqueFrom_least s base _ 1 j hj (by omega) ht hfree

/-- conversely: if the id handed out is `digest_j` then the digest and all lower suffixes are taken -/
theorem freshId_skipped (s : RState) (base : Str) (j : Nat) (h : s.freshId base = suffixed base j) :
    base ∈ s.reg.map (·.1) ∧ ∀ m, 1 ≤ m → m < j → suffixed base m ∈ s.reg.map (·.1) := by
  unfold freshId at h
  split at h
  · rename_i hs
    exact ⟨isKey_iff.mp hs, nextUniqueFrom_skipped s base _ 1 j h⟩
  · exact absurd h.symm (suffixed_ne_base base j)

/-! ### `replace`: the id of a fresh construction with the original absent -/

/-- the state in which the original `x` is absent from the registry (every entry of `x` removed) -/
def absent (s : RState) (x : Nat) : RState := { s with reg := s.reg.filter (fun e => e.2 != x) }

/-- what `detach_self` computes by key is the removal of the object's entries -/
theorem pDetachSelf_reg_eq {s : RState} (hI : Inv s) (x : Nat) : (s.pDetachSelf x).1.reg = (absent s x).reg := by
  cases hb : (s.pDetachSelf x).2 with
  | false =>
    obtain ⟨hne, heq⟩ := pDetachSelf_false hb
    rw [heq]
    symm
    apply List.filter_eq_self.mpr
    intro e he
    simp only [bne_iff_ne, ne_eq]
    intro e2
    apply hne
    have : (e.1, x) ∈ s.reg := by rw [← e2]; exact he
    rw [key_of_mem hI this]
    exact rget_of_mem hI.keysNodup this
  | true =>
    obtain ⟨hreg, heq⟩ := pDetachSelf_true hb
    rw [heq]
    show regDel s.reg (s.idOf x) = s.reg.filter (fun e => e.2 != x)
    unfold regDel
    apply List.filter_congr
    intro e he
    have hxm := rget_some_mem hreg
    by_cases e1 : e.1 = s.idOf x
    · have h2 : (s.idOf x, e.2) ∈ s.reg := by rw [← e1]; exact he
      have := reg_functional hI h2 hxm
      simp [e1, this]
    · have : e.2 ≠ x := by
        intro e2
        have h2 : (e.1, x) ∈ s.reg := by rw [← e2]; exact he
        exact e1 (key_of_mem hI h2).symm
      have h1 : (e.1 != s.idOf x) = true := by simpa using e1
      have h2 : (e.2 != x) = true := by simpa using this
      rw [h1, h2]

theorem step_construct_ok {s : RState} {v : Nat} {cls : Str} {mro : List Str} {kids : List Nat} {tok : Nat} {base : Str}
    (hk : kids.all s.isLive = true) :
    (s.step (.construct v cls mro kids [(tok, base)])).1 = ((s.pNew tok cls mro base kids).bind v tok).gc := by
  simp [step, hk]

theorem idOf_bind_gc (s : RState) (v u w : Nat) : ((s.bind v u).gc).idOf w = s.idOf w := rfl

/-- the id `construct` hands out -/
theorem construct_id {s : RState} {v : Nat} {cls : Str} {mro : List Str} {kids : List Nat} {tok : Nat} {base : Str}
    (hok : OpOk s (.construct v cls mro kids [(tok, base)])) (hk : kids.all s.isLive = true) :
    (s.step (.construct v cls mro kids [(tok, base)])).1.idOf tok = s.freshId base := by
  rw [step_construct_ok hk, idOf_bind_gc]
  exact idOf_pNew (FreshOk.head hok) _ _ _ _

/-- **replace, main clause**, registered and detached originals alike: the new node gets the id
`__post_init__` computes in the registry from which the original is absent -/
theorem replace_id_fresh_absent {s : RState} (hI : Inv s) {v x : Nat} {kids : List Nat} {tok : Nat} {base : Str} {o : RObj}
    (hok : OpOk s (.replace v x kids false [(tok, base)]))
    (hx : s.isLive x = true) (hk : kids.all s.isLive = true) (ho : s.obj? x = some o) :
    (s.step (.replace v x kids false [(tok, base)])).1.idOf tok = (absent s x).freshId base := by
  rw [step_replace_ok hx hk ho, idOf_bind_gc]
  have htok : tok ∉ (s.pDetachSelf x).1.heap.map (·.uid) := by
    rw [pDetachSelf_fst_heap]; exact FreshOk.head hok
  rw [idOf_pNew htok]
  exact freshId_congr (pDetachSelf_reg_eq hI x) base

/-- … which is, literally, **the id a fresh construction (same class, children, digest) gets in the
state where the original is absent** -/
theorem replace_id_eq_construct_absent {s : RState} (hI : Inv s) {v x : Nat} {kids : List Nat} {tok : Nat} {base : Str}
    {o : RObj} (hok : OpOk s (.replace v x kids false [(tok, base)]))
    (hx : s.isLive x = true) (hk : kids.all s.isLive = true) (ho : s.obj? x = some o) :
    (s.step (.replace v x kids false [(tok, base)])).1.idOf tok =
      ((absent s x).step (.construct v o.cls o.mro kids [(tok, base)])).1.idOf tok := by
  have hk' : kids.all (absent s x).isLive = true := by
    rw [List.all_eq_true] at hk ⊢
    intro k hk1
    rw [isLive_congr (s := absent s x) (s' := s) rfl rfl]
    exact hk k hk1
  rw [replace_id_fresh_absent hI hok hx hk ho, construct_id (s := absent s x) hok hk']

/-- the original's own id is free once the original is absent -/
theorem own_id_free {s : RState} (hI : Inv s) {x : Nat} (hreg : s.regGet (s.idOf x) = some x) :
    s.idOf x ∉ (absent s x).reg.map (·.1) := by
  intro hm
  obtain ⟨e, he, hk⟩ := List.mem_map.mp hm
  obtain ⟨he1, he2⟩ := List.mem_filter.mp he
  have h2 : (s.idOf x, e.2) ∈ s.reg := by rw [← hk]; exact he1
  have := reg_functional hI h2 (rget_some_mem hreg)
  simp [this] at he2

theorem idOf_of_obj {s : RState} {x : Nat} {o : RObj} (ho : s.obj? x = some o) : s.idOf x = o.id := by
  simp [idOf, ho]

/-- a registered original that carries the plain digest and whose digest does not change keeps its
id (no assumption about twins is needed) -/
theorem replace_keeps_plain_id {s : RState} (hI : Inv s) {v x : Nat} {kids : List Nat} {tok : Nat} {base : Str} {o : RObj}
    (hok : OpOk s (.replace v x kids false [(tok, base)]))
    (hx : s.isLive x = true) (hk : kids.all s.isLive = true) (ho : s.obj? x = some o)
    (hreg : s.regGet (s.idOf x) = some x) (hb : base = o.base) (hid : o.id = o.base) :
    (s.step (.replace v x kids false [(tok, base)])).1.idOf tok = o.id := by
  rw [replace_id_fresh_absent hI hok hx hk ho, hb, ← hid]
  apply RegL.id_fresh_is_base
  rw [regGet_def]
  apply rget_none_iff.mpr
  rw [← idOf_of_obj ho]
  exact own_id_free hI hreg

/-- **the parenthetical of the statement fails**: a registered original with a SUFFIXED id `d_j`,
unchanged digest `d`, and no registered node under `d` (its twin died) gets `d`, not `d_j` -/
theorem replace_suffixed_twin_dead {s : RState} (hI : Inv s) {v x : Nat} {kids : List Nat} {tok : Nat} {base : Str}
    {o : RObj} {j : Nat} (hok : OpOk s (.replace v x kids false [(tok, base)]))
    (hx : s.isLive x = true) (hk : kids.all s.isLive = true) (ho : s.obj? x = some o)
    (hb : base = o.base) (hid : o.id = suffixed o.base j) (hfree : base ∉ (absent s x).reg.map (·.1)) :
    (s.step (.replace v x kids false [(tok, base)])).1.idOf tok = o.base ∧
    (s.step (.replace v x kids false [(tok, base)])).1.idOf tok ≠ s.idOf x := by
  have h1 : (s.step (.replace v x kids false [(tok, base)])).1.idOf tok = o.base := by
    rw [replace_id_fresh_absent hI hok hx hk ho]
    subst hb
    apply RegL.id_fresh_is_base
    rw [regGet_def]
    exact rget_none_iff.mpr hfree
  refine ⟨h1, ?_⟩
  rw [h1, idOf_of_obj ho, hid]
  exact fun e => suffixed_ne_base _ _ e.symm

/-- **when exactly a suffixed id is kept**: a registered original with id `d_j` (`j ≥ 1`) and unchanged
digest `d` keeps its id iff `d, d_1, …, d_(j-1)` are all still keys of the registry (held by other
nodes) -/
theorem replace_keeps_id_iff {s : RState} (hI : Inv s) {v x : Nat} {kids : List Nat} {tok : Nat} {base : Str}
    {o : RObj} {j : Nat} (hok : OpOk s (.replace v x kids false [(tok, base)]))
    (hx : s.isLive x = true) (hk : kids.all s.isLive = true) (ho : s.obj? x = some o)
    (hreg : s.regGet (s.idOf x) = some x) (hb : base = o.base) (hid : o.id = suffixed o.base j) (hj : 1 ≤ j) :
    (s.step (.replace v x kids false [(tok, base)])).1.idOf tok = o.id ↔
      (o.base ∈ (absent s x).reg.map (·.1) ∧ ∀ m, 1 ≤ m → m < j → suffixed o.base m ∈ (absent s x).reg.map (·.1)) := by
  rw [replace_id_fresh_absent hI hok hx hk ho, hb, hid]
  constructor
  · exact freshId_skipped _ _ _
  · rintro ⟨h0, ht⟩
    apply freshId_least _ _ _ h0 hj ht
    rw [← hid, ← idOf_of_obj ho]
    exact own_id_free hI hreg

/-- detached original: the new node gets the id of a plain fresh construction, the original stays
unregistered -/
theorem replace_detached {s : RState} (hI : Inv s) {v x : Nat} {kids : List Nat} {tok : Nat} {base : Str} {o : RObj}
    (hok : OpOk s (.replace v x kids false [(tok, base)]))
    (hx : s.isLive x = true) (hk : kids.all s.isLive = true) (ho : s.obj? x = some o)
    (hreg : s.regGet (s.idOf x) ≠ some x) :
    (s.step (.replace v x kids false [(tok, base)])).1.idOf tok = s.freshId base ∧
    ∀ k, (s.step (.replace v x kids false [(tok, base)])).1.getAny k ≠ some x := by
  refine ⟨?_, C10X.replace_unregisters hI hok hx hk ho⟩
  rw [step_replace_ok hx hk ho, idOf_bind_gc]
  have hb : (s.pDetachSelf x).2 = false := by simp [pDetachSelf, hreg]
  rw [(pDetachSelf_false hb).2]
  exact idOf_pNew (FreshOk.head hok) _ _ _ _

/-- the node created by `pNew` and bound to a variable: its record, and it is registered -/
theorem new_node_registered {s : RState} (hI : Inv s) {tok : Nat} (htok : tok ∉ s.heap.map (·.uid))
    (cls : Str) (mro : List Str) (base : Str) (kids : List Nat) (v : Nat) :
    ∃ o', ((s.pNew tok cls mro base kids).bind v tok).gc.obj? tok = some o' ∧ o'.cls = cls ∧ o'.mro = mro ∧
      o'.kids = kids ∧ o'.base = base ∧ ((s.pNew tok cls mro base kids).bind v tok).gc.getAny o'.id = some tok := by
  have hI2 : Inv ((s.pNew tok cls mro base kids).bind v tok) := bind_inv (pNew_inv hI htok _ _ _ _) _ _
  refine ⟨{ uid := tok, cls := cls, mro := mro, base := base, id := s.freshId base, kids := kids }, ?_, rfl, rfl, rfl, rfl, ?_⟩
  · exact obj?_of_mem (s := ((s.pNew tok cls mro base kids).bind v tok).gc)
      (o := { uid := tok, cls := cls, mro := mro, base := base, id := s.freshId base, kids := kids })
      hI2.heapNodup (List.mem_append_right _ (List.mem_singleton.mpr rfl))
  · apply rget_of_mem (gc_inv hI2).keysNodup
    refine List.mem_filter.mpr ⟨?_, ?_⟩
    · exact mem_regSet.mpr (Or.inr rfl)
    · exact isLive_root hI2.heapNodup (r := (v, tok)) (by simp [RState.bind])

/-- **replace**: the new node has the class (and mro) of the original, holds the given children, is
registered; the original is returned under no id -/
theorem replace_new_node {s : RState} (hI : Inv s) {v x : Nat} {kids : List Nat} {tok : Nat} {base : Str} {o : RObj}
    (hok : OpOk s (.replace v x kids false [(tok, base)]))
    (hx : s.isLive x = true) (hk : kids.all s.isLive = true) (ho : s.obj? x = some o) :
    (∃ o', (s.step (.replace v x kids false [(tok, base)])).1.obj? tok = some o' ∧ o'.cls = o.cls ∧ o'.mro = o.mro ∧
      o'.kids = kids ∧ o'.base = base ∧ (s.step (.replace v x kids false [(tok, base)])).1.getAny o'.id = some tok) ∧
    ∀ k, (s.step (.replace v x kids false [(tok, base)])).1.getAny k ≠ some x := by
  refine ⟨?_, C10X.replace_unregisters hI hok hx hk ho⟩
  rw [step_replace_ok hx hk ho]
  exact new_node_registered (pDetachSelf_inv hI x) (by rw [pDetachSelf_fst_heap]; exact FreshOk.head hok) _ _ _ _ _

/-- **dataclasses.replace**: the same for the new node; the registry entries of all pre-existing
objects (the original included, registered or not) are as before as long as they are alive -/
theorem dcReplace_new_node {s : RState} (hI : Inv s) {v x : Nat} {kids : List Nat} {tok : Nat} {base : Str} {o : RObj}
    (hok : OpOk s (.dcReplace v x kids [(tok, base)]))
    (hx : s.isLive x = true) (hk : kids.all s.isLive = true) (ho : s.obj? x = some o) :
    (∃ o', (s.step (.dcReplace v x kids [(tok, base)])).1.obj? tok = some o' ∧ o'.cls = o.cls ∧ o'.mro = o.mro ∧
      o'.kids = kids ∧ o'.base = base ∧ (s.step (.dcReplace v x kids [(tok, base)])).1.getAny o'.id = some tok) ∧
    (∀ k, (s.step (.dcReplace v x kids [(tok, base)])).1.isLive x = true →
      ((s.step (.dcReplace v x kids [(tok, base)])).1.getAny k = some x ↔ s.getAny k = some x)) := by
  constructor
  · rw [step_dcReplace_ok hx hk ho]
    exact new_node_registered hI (FreshOk.head hok) _ _ _ _ _
  · intro k hl
    have hm : x ∈ s.heap.map (·.uid) := by
      obtain ⟨hm, hu⟩ := obj?_some ho
      exact List.mem_map.mpr ⟨o, hm, hu⟩
    exact C10X.reg_frame_get hI hok hm hl (by simp [C10X.mayUnregister]) k

/-! ### every id is the digest or a suffixed digest (histories without `as_obj`)

`_deserialize` may force an arbitrary serialized id; in every other history a node's id is its
digest `d` or `d_j`, `j ≥ 1`, so `replace_keeps_plain_id` and `replace_keeps_id_iff` cover all
originals. -/

def IdShape (s : RState) : Prop :=
  ∀ o ∈ s.heap, o.id = o.base ∨ ∃ j, 1 ≤ j ∧ o.id = suffixed o.base j

theorem idShape_pNew {s : RState} (h : IdShape s) (tok : Nat) (cls : Str) (mro : List Str) (base : Str) (kids : List Nat) :
    IdShape (s.pNew tok cls mro base kids) := by
  intro o ho
  simp only [pNew] at ho
  rcases List.mem_append.mp ho with ho | ho
  · exact h o ho
  · simp only [List.mem_singleton] at ho
    subst ho
    exact freshId_shape s base

theorem idShape_of_heap {s s' : RState} (hh : s'.heap = s.heap) (h : IdShape s) : IdShape s' := by
  intro o ho; rw [hh] at ho; exact h o ho

theorem evol_idShape {K L : Nat → Prop} {C : Bool} {s f s1 f1} (hE : Evol K L false C s f s1 f1) (h : IdShape s) :
    IdShape s1 := by
  induction hE with
  | refl => exact h
  | new _ cls mro ks hk hl ih => exact idShape_pNew ih _ _ _ _ _
  | newForce hF => cases hF

theorem idShape_pre {s : RState} {op : ROp} {s1 : RState} (hp : Pre s op s1) (hop : isAsObj op = false)
    (h : IdShape s) : IdShape s1 := by
  cases hp with
  | construct hk => exact idShape_of_heap rfl (idShape_pNew h _ _ _ _ _)
  | @duplicate v x fresh s' u hx hd =>
    exact idShape_of_heap (s := s') rfl (evol_idShape (dupAux_evol _ _ _ _ _ _ _ hd) h)
  | duplicateD hx hd => exact evol_idShape (dupAux_evol _ _ _ _ _ _ _ hd) h
  | dcReplace hx hk ho => exact idShape_of_heap rfl (idShape_pNew h _ _ _ _ _)
  | @replaceFail v x kids hx hk =>
    apply idShape_of_heap _ h
    split
    · simp [pRestore, pDetachSelf_fst_heap]
    · simp [pDetachSelf_fst_heap]
  | @replaceOk v x kids tok base o hx hk ho =>
    exact idShape_of_heap rfl (idShape_pNew (idShape_of_heap (pDetachSelf_fst_heap s x) h) _ _ _ _ _)
  | detach hx => exact idShape_of_heap (by rw [detachAll_heap, pDetachSelf_fst_heap]) h
  | detachSelf hx => exact idShape_of_heap (pDetachSelf_fst_heap _ _) h
  | asObj hd => cases hop
  | asObjD hd => cases hop
  | alias hu => exact idShape_of_heap rfl h
  | drop => exact idShape_of_heap rfl h

theorem idShape_step {s : RState} {op : ROp} (hop : isAsObj op = false) (h : IdShape s) : IdShape (s.step op).1 := by
  rcases step_shape s op with e | ⟨s1, hp, e⟩
  · rw [e]; exact h
  · rw [e]; exact idShape_of_heap (s := s1) rfl (idShape_pre hp hop h)

theorem idShape_run : ∀ (ops : List ROp) (s : RState), (∀ op ∈ ops, isAsObj op = false) → IdShape s → IdShape (run s ops)
  | [], _, _, h => h
  | op :: r, s, hops, h =>
    idShape_run r _ (fun o ho => hops o (List.mem_cons_of_mem _ ho)) (idShape_step (hops op (by simp)) h)

/-- **replace with an unchanged digest, all cases** (histories without forced ids): a registered
original keeps its id iff it carries the plain digest, or it carries `d_j` and `d, d_1 … d_(j-1)` are
all still registered by other nodes.  "No registered twin" is neither necessary (plain id) nor
sufficient (suffixed id). -/
theorem replace_same_digest_keeps_id_iff {s : RState} (hI : Inv s) (hS : IdShape s) {v x : Nat} {kids : List Nat}
    {tok : Nat} {base : Str} {o : RObj} (hok : OpOk s (.replace v x kids false [(tok, base)]))
    (hx : s.isLive x = true) (hk : kids.all s.isLive = true) (ho : s.obj? x = some o)
    (hreg : s.regGet (s.idOf x) = some x) (hb : base = o.base) :
    (s.step (.replace v x kids false [(tok, base)])).1.idOf tok = o.id ↔
      (o.id = o.base ∨ ∃ j, 1 ≤ j ∧ o.id = suffixed o.base j ∧ o.base ∈ (absent s x).reg.map (·.1) ∧
        ∀ m, 1 ≤ m → m < j → suffixed o.base m ∈ (absent s x).reg.map (·.1)) := by
  rcases hS o (obj?_some ho).1 with hid | ⟨j, hj, hid⟩
  · constructor
    · exact fun _ => Or.inl hid
    · exact fun _ => replace_keeps_plain_id hI hok hx hk ho hreg hb hid
  · rw [replace_keeps_id_iff hI hok hx hk ho hreg hb hid hj]
    constructor
    · exact fun h => Or.inr ⟨j, hj, hid, h⟩
    · rintro (h | ⟨j', _, hid', h⟩)
      · rw [hid] at h; exact absurd h (suffixed_ne_base _ _)
      · have : j' = j := suffixed_injective o.base (hid'.symm.trans hid)
        subst this; exact h

/-! ### non-vacuity and the failing reading -/

section Examples

private def A : Str := "A".toList
private def B : Str := "B".toList
private def a : Str := "a".toList
private def b : Str := "b".toList
private def ab : Str := "ab".toList

/-- leaf 1 shared twice under 2, 3 = B(2, 1) -/
def hist : List ROp :=
  [ .construct 0 A [A] [] [(1, a)],
    .construct 1 B [B] [1, 1] [(2, b)],
    .construct 2 B [B] [2, 1] [(3, "c".toList)] ]
def s0 : RState := run {} hist
def dupOp : ROp := .duplicate 3 3 [(10, a), (11, a), (12, b), (13, a), (14, "c".toList)]

example : AllOk {} (hist ++ [dupOp]) := by decide
example : Inv s0 := inv_run hist (by decide)
example : OpOk s0 dupOp ∧ (s0.step dupOp).2 = .ok (some 14) none := by decide
example : s0.dupAux (s0.heap.length + 1) 3 [(10, a), (11, a), (12, b), (13, a), (14, "c".toList)] ≠ none := by decide
-- the copy: 14 = B(12 = B(10, 11), 13): the shared leaf is copied once per position, all tokens new
example : ((s0.step dupOp).1.heap.map (fun o => (o.uid, o.kids))).drop 3 =
    [(10, []), (11, []), (12, [10, 11]), (13, []), (14, [12, 13])] := by decide
example : (s0.step dupOp).1.reg = s0.reg ++
    [("a_1".toList, 10), ("a_2".toList, 11), ("b_1".toList, 12), ("a_3".toList, 13), ("c_1".toList, 14)] := by decide
example : 14 :: (s0.step dupOp).1.descendants (s0.heap.length + 1) 14 = [14, 12, 10, 11, 13] := by decide

/-- a SHALLOW copy (new root 4 over the original children 2, 1) is a `C14.isCopy` of 3 and its
root is new, but it is not `isCopyNew` -/
def shallow : RState := s0.step (.construct 4 B [B] [2, 1] [(4, "c".toList)]) |>.1
theorem shallow_is_not_new :
    4 ∉ s0.heap.map (·.uid) ∧ (shallow.obj? 4).map (·.kids) = some [2, 1] ∧
    ¬ isCopyNew (s0.heap.map (·.uid)) shallow 3 3 4 := by
  refine ⟨by decide, by decide, ?_⟩
  intro h
  have hk := isCopyNew_kids_new (ob := ⟨4, B, [B], "c".toList, "c_1".toList, [2, 1]⟩) h rfl 2 (by simp)
  exact hk (by decide)

/-! the suffixed-twin corner: 101 carries `ab_1`; its twin 100 (`ab`) dies; `replace` with the
digest unchanged gives `ab` although 101 "has no registered twin". -/
def twinHist : List ROp :=
  [ .construct 0 A [A] [] [(100, ab)], .construct 1 A [A] [] [(101, ab)], .drop 0 ]
def sT : RState := run {} twinHist
def replOp : ROp := .replace 2 101 [] false [(102, ab)]

/-- the NAIVE reading of the parenthetical — "digest unchanged and no registered twin ⇒ the
original's id is kept" — is false: all its hypotheses hold here, the conclusion does not -/
theorem replace_keeps_id_naive_fails :
    AllOk {} (twinHist ++ [replOp]) ∧ sT.isLive 101 = true ∧
    sT.regGet (sT.idOf 101) = some 101 ∧                                  -- registered original
    (sT.obj? 101).map (·.base) = some ab ∧                                -- digest unchanged (`replOp` supplies `ab`)
    (∀ e ∈ sT.reg, e.2 ≠ 101 → (sT.obj? e.2).map (·.base) ≠ some ab) ∧    -- no registered twin
    sT.idOf 101 = "ab_1".toList ∧
    (sT.step replOp).2 = .ok (some 102) none ∧
    (sT.step replOp).1.idOf 102 = ab ∧ (sT.step replOp).1.idOf 102 ≠ sT.idOf 101 := by decide

-- with the twin alive the suffixed id IS kept (`replace_keeps_id_iff`, right-to-left)
example : ((run {} (twinHist.take 2)).step replOp).1.idOf 102 = "ab_1".toList := by decide
-- an original with the plain digest keeps it (`replace_keeps_plain_id`)
example : ((run {} (twinHist.take 2)).step (.replace 2 100 [] false [(102, ab)])).1.idOf 102 = ab := by decide
-- hypotheses of `replace_suffixed_twin_dead` / `replace_keeps_id_iff` are satisfiable
example : OpOk sT replOp ∧ ab ∉ (absent sT 101).reg.map (·.1) ∧ sT.idOf 101 = suffixed ab 1 := by decide
example : ab ∈ (absent (run {} (twinHist.take 2)) 101).reg.map (·.1) := by decide
-- detached original
example : ((sT.step (.detachSelf 101)).1.step replOp).1.idOf 102 = ab ∧
    (sT.step (.detachSelf 101)).1.regGet "ab_1".toList = none := by decide
example : IdShape sT := idShape_run twinHist {} (by decide) (by intro o ho; simp at ho)
-- `freshId_least`: `ab`, `ab_1` taken, `ab_2` free
example : (run {} (twinHist.take 2)).freshId ab = suffixed ab 2 := by decide

end Examples

end C14X
end PyOak

#print axioms PyOak.C14X.dup_all_new
#print axioms PyOak.C14X.dup_all_registered
#print axioms PyOak.C14X.dup_descendants_new
#print axioms PyOak.C14X.duplicate_step
#print axioms PyOak.C14X.isCopy_self
#print axioms PyOak.C14X.shallow_is_not_new
#print axioms PyOak.C14X.freshId_least
#print axioms PyOak.C14X.freshId_skipped
#print axioms PyOak.C14X.replace_id_fresh_absent
#print axioms PyOak.C14X.replace_id_eq_construct_absent
#print axioms PyOak.C14X.replace_keeps_plain_id
#print axioms PyOak.C14X.replace_suffixed_twin_dead
#print axioms PyOak.C14X.replace_keeps_id_iff
#print axioms PyOak.C14X.replace_keeps_id_naive_fails
#print axioms PyOak.C14X.idShape_run
#print axioms PyOak.C14X.replace_same_digest_keeps_id_iff
#print axioms PyOak.C14X.replace_detached
#print axioms PyOak.C14X.replace_new_node
#print axioms PyOak.C14X.dcReplace_new_node
