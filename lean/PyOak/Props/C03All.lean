import PyOak.Props.C03
import PyOak.Props.C03Extra
