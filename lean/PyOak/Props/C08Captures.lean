/-
C08, additions after the audit (AUDIT.md, C08 §4):

 (1) general capture exactness (the audited `captures_exact` unfolds three fixed tiny patterns):
   * `cap_field` — `@f=<any spec> -> c` (any later fields): `c` is bound to the value stored in field `f`;
   * `cap_item`  — `[… <any value> -> c …]`: `c` is bound to the sequence element at that position;
   * `cap_tail`  — `[<any items> * -> t]`: `t` is bound to the tuple of the remaining elements, and the tuple
                   has at least as many elements as listed;
   * `caps_inner_field` / `caps_inner_item` — the captures made INSIDE a value and by the LATER fields /
                   elements survive into the result (so the three facts above apply at nested positions);
   * `lookup_of_mem` + `capture_lookup` — with `caps_nodup`: the returned association list is a dict and
                   `caps[c]` IS that object (`MVal.node n` carries the object identity `uid`);
   * `caps_are_parts` — nothing else is ever bound: every captured value is the subject itself, a field
                   value, a sequence element, or a suffix tuple, at some depth (`Part`).
 (2) `MultiPatternMatcher`: the constructor is now a model definition (`Model/PatternMulti.lean`,
     `multiInit`, called by the protocol handler) and the table hypothesis `htbl` of `multi_eq_spec` is
     CONSTRUCTED from it:
   * `hasDup_false_iff`, `multiInit_some_iff`, `multiInit_none_iff` — the constructor succeeds iff the names
                   are pairwise distinct and every definition compiles; the table lists the matchers in
                   definition order;
   * `multiInit_htbl`   — the hypothesis of `multi_eq_spec`, derived;
   * `multi_text_eq_spec` — `multi_eq_spec` restated WITHOUT `htbl`: from the pattern TEXTS;
   * `multiRun_first`   — `MultiPatternMatcher(defs).match(node, rules)`: first matching rule in the given
                   order (definition order when `rules is None`), with that pattern's captures.
 (3) `var_node_contentEq` — "content equality for nodes": with `S.ceq := isEqual H` (Model/Encode.lean,
     injective digest) a `$x` bound to a node matches a node exactly when the two are `ContentEq`
     (origins, uids, non-comparable fields ignored: C01).
-/
import PyOak.Props.C08Rel
import PyOak.Model.PatternMulti
import PyOak.Props.C01
namespace PyOak
namespace PM

/-- `w` is the subject `v` itself or sits inside it: a field value of a node, an element of a tuple, or
the tuple of the elements from some index on (what `value[len(matchers):]` builds), at any depth -/
inductive Part : MVal → MVal → Prop
  | refl {v : MVal} : Part v v
  | field {w fv : MVal} {n : Node} {f : Str} : getField n f = some fv → Part w fv → Part w (.node n)
  | elem {w x : MVal} {xs : List MVal} : x ∈ xs → Part w x → Part w (.tup xs)
  | suffix {xs : List MVal} {k : Nat} : k ≤ xs.length → Part (.tup (xs.drop k)) (.tup xs)

/-- the two lists have the same length and are related position by position -/
inductive AllPairs {α β : Type} (R : α → β → Prop) : List α → List β → Prop
  | nil : AllPairs R [] []
  | cons {a : α} {b : β} {as : List α} {bs : List β} : R a b → AllPairs R as bs → AllPairs R (a :: as) (b :: bs)

end PM
namespace C08
open PM

/-! ## (1) captures are the very objects -/

/-- `@f=spec -> c`: whatever the spec, whatever follows — `c` is bound to the value of field `f` -/
theorem cap_field (S : Sem) (f : Str) (spec : FSpec) (c : Str) (rest : Fields) (n : Node) (ctx caps : Ctx)
    (h : specFields S (.cons f spec (some c) rest) n ctx = .ok (some caps)) :
    ∃ fv, getField n f = some fv ∧ (c, fv) ∈ caps := by
  simp only [specFields] at h
  split at h
  · cases h
  rename_i fv hg
  split at h
  · cases h
  · cases h
  rename_i c0 h0
  split at h
  · cases h
  · cases h
  rename_i c2 h2
  injection h with h; injection h with h; subst h
  exact ⟨fv, hg, by simp [Ctx.update, bindCap]⟩

/-- `[… value -> c …]`: `c` is bound to the element the value is matched against -/
theorem cap_item (S : Sem) (pv : PVal) (c : Str) (rest : Items) (x : MVal) (xs : List MVal) (ctx caps : Ctx)
    (h : specItems S (.cons pv (some c) rest) (x :: xs) ctx = .ok (some caps)) : (c, x) ∈ caps := by
  simp only [specItems] at h
  split at h
  · cases h
  · cases h
  split at h
  · cases h
  · cases h
  injection h with h; injection h with h; subst h
  simp [Ctx.update, bindCap]

/-- `[items * -> t]`: at least as many elements as listed, and `t` is bound to the tuple of the remaining ones -/
theorem cap_tail (S : Sem) (items : Items) (t : Str) (xs : List MVal) (ctx caps : Ctx)
    (h : specFSpec S (.seq items (some (some t))) (.tup xs) ctx = .ok (some caps)) :
    items.length ≤ xs.length ∧ (t, .tup (xs.drop items.length)) ∈ caps := by
  simp only [specFSpec] at h
  split at h
  · rename_i hl
    split at h
    · cases h
    · cases h
    injection h with h; injection h with h; subst h
    exact ⟨hl, by simp [Ctx.update, tailVars]⟩
  · cases h

/-- the captures made inside a field's value, and those of the later fields, are all in the result -/
theorem caps_inner_field (S : Sem) (f : Str) (spec : FSpec) (cap : Option Str) (rest : Fields) (n : Node)
    (ctx caps : Ctx) (h : specFields S (.cons f spec cap rest) n ctx = .ok (some caps)) :
    ∃ fv c0 c2, getField n f = some fv ∧ specFSpec S spec fv ctx = .ok (some c0)
      ∧ specFields S rest n (Ctx.update ctx (bindCap cap fv c0)) = .ok (some c2)
      ∧ (∀ e ∈ c0, e ∈ caps) ∧ (∀ e ∈ c2, e ∈ caps) := by
  simp only [specFields] at h
  split at h
  · cases h
  rename_i fv hg
  split at h
  · cases h
  · cases h
  rename_i c0 h0
  split at h
  · cases h
  · cases h
  rename_i c2 h2
  injection h with h; injection h with h; subst h
  refine ⟨fv, c0, c2, hg, h0, h2, ?_, ?_⟩
  · intro e he
    cases cap <;> simp [Ctx.update, bindCap, he]
  · intro e he
    simp [Ctx.update, he]

/-- the captures made inside a sequence element, and those of the later elements, are all in the result -/
theorem caps_inner_item (S : Sem) (pv : PVal) (cap : Option Str) (rest : Items) (x : MVal) (xs : List MVal)
    (ctx caps : Ctx) (h : specItems S (.cons pv cap rest) (x :: xs) ctx = .ok (some caps)) :
    ∃ c0 c2, specVal S pv x ctx = .ok (some c0)
      ∧ specItems S rest xs (Ctx.update ctx (bindCap cap x c0)) = .ok (some c2)
      ∧ (∀ e ∈ c0, e ∈ caps) ∧ (∀ e ∈ c2, e ∈ caps) := by
  simp only [specItems] at h
  split at h
  · cases h
  · cases h
  rename_i c0 h0
  split at h
  · cases h
  · cases h
  rename_i c2 h2
  injection h with h; injection h with h; subst h
  refine ⟨c0, c2, h0, h2, ?_, ?_⟩
  · intro e he
    cases cap <;> simp [Ctx.update, bindCap, he]
  · intro e he
    simp [Ctx.update, he]

/-- in an association list without repeated keys, membership is lookup: the list IS a dict -/
theorem lookup_of_mem : ∀ (caps : Ctx) (c : Str) (v : MVal), caps.keys.Nodup → (c, v) ∈ caps →
    caps.lookup c = some v
  | [], _, _, _, h => by cases h
  | (k, w) :: es, c, v, hn, h => by
    simp only [Ctx.keys, List.map_cons, List.nodup_cons] at hn
    simp only [List.mem_cons] at h
    rcases h with h | h
    · injection h with h1 h2
      subst h1; subst h2
      simp [List.lookup]
    · have hk : c ≠ k := by
        rintro rfl
        exact hn.1 (List.mem_map.mpr ⟨(c, v), h, rfl⟩)
      have : (c == k) = false := by simpa using hk
      simp only [List.lookup, this]
      exact lookup_of_mem es c v hn.2 h

/-- **the capture dict maps the name to that very object** (top-level field capture of an accepted
pattern, on the matcher the interpreter built): `caps[c]` is the value stored in field `f` -/
theorem capture_lookup (K : CEnv) (S : Sem) (cls : ClassSpec) (f : Str) (spec : FSpec) (c : Str) (rest : Fields)
    (m : Matcher) (hc : compile K (.mk cls (.cons f spec (some c) rest)) = .ok m) (n : Node) (caps : Ctx)
    (hm : matchNode S m n = .ok (true, caps)) :
    ∃ fv, getField n f = some fv ∧ caps.lookup c = some fv := by
  have hs := (match_iff K S _ m hc n caps).1 hm
  obtain ⟨-, hnd, -⟩ := caps_nodup K S _ m hc n caps hs
  simp only [specMatch, specPat] at hs
  split at hs
  · obtain ⟨fv, hg, hmem⟩ := cap_field S f spec c rest n [] caps hs
    exact ⟨fv, hg, lookup_of_mem caps c fv hnd hmem⟩
  · cases hs

private theorem part_of_elem {w : MVal} {xs : List MVal} (h : ∃ x ∈ xs, Part w x) : Part w (.tup xs) := by
  obtain ⟨x, hx, hp⟩ := h
  exact .elem hx hp

mutual
theorem pat_parts (S : Sem) : ∀ (p : Pat) (v : MVal) (ctx caps : Ctx),
    specPat S p v ctx = .ok (some caps) → ∀ e ∈ caps, Part e.2 v
  | .mk cls fields, v, ctx, caps, h => by
    cases v with
    | node n =>
      simp only [specPat] at h
      split at h
      · exact fields_parts S fields n ctx caps h
      · cases h
    | tup xs => simp [specPat] at h
    | atom t a => simp [specPat] at h
    | none => simp [specPat] at h
theorem fields_parts (S : Sem) : ∀ (fs : Fields) (n : Node) (ctx caps : Ctx),
    specFields S fs n ctx = .ok (some caps) → ∀ e ∈ caps, Part e.2 (.node n)
  | .nil, n, ctx, caps, h => by
    simp only [specFields] at h
    injection h with h; injection h with h; subst h
    intro e he; cases he
  | .cons f spec cap rest, n, ctx, caps, h => by
    simp only [specFields] at h
    split at h
    · cases h
    rename_i fv hg
    split at h
    · cases h
    · cases h
    rename_i c0 h0
    split at h
    · cases h
    · cases h
    rename_i c2 h2
    injection h with h; injection h with h; subst h
    have ih0 := fspec_parts S spec fv ctx c0 h0
    have ih2 := fields_parts S rest n _ c2 h2
    intro e he
    simp only [Ctx.update, List.mem_append] at he
    rcases he with he | he
    · exact ih2 e he
    · cases cap with
      | none => exact .field hg (ih0 e he)
      | some c =>
        simp only [bindCap, Ctx.update, List.mem_append, List.mem_singleton] at he
        rcases he with he | he
        · exact .field hg (ih0 e he)
        · subst he; exact .field hg .refl
theorem fspec_parts (S : Sem) : ∀ (spec : FSpec) (v : MVal) (ctx caps : Ctx),
    specFSpec S spec v ctx = .ok (some caps) → ∀ e ∈ caps, Part e.2 v
  | .any, v, ctx, caps, h => by
    simp only [specFSpec] at h
    injection h with h; injection h with h; subst h
    intro e he; cases he
  | .val pv, v, ctx, caps, h => by
    simp only [specFSpec] at h
    exact val_parts S pv v ctx caps h
  | .seq items tail, v, ctx, caps, h => by
    cases v with
    | tup xs =>
      cases tail with
      | none =>
        simp only [specFSpec] at h
        split at h
        · exact fun e he => part_of_elem (items_parts S items xs ctx caps h e he)
        · cases h
      | some tcap =>
        simp only [specFSpec] at h
        split at h
        · rename_i hl
          split at h
          · cases h
          · cases h
          rename_i c hc
          injection h with h; injection h with h; subst h
          intro e he
          simp only [Ctx.update, List.mem_append] at he
          rcases he with he | he
          · cases tcap with
            | none => simp [tailVars] at he
            | some t =>
              simp only [tailVars, List.mem_singleton] at he
              subst he
              exact .suffix hl
          · exact part_of_elem (items_parts S items xs ctx c hc e he)
        · cases h
    | node n => simp [specFSpec] at h
    | atom t a => simp [specFSpec] at h
    | none => simp [specFSpec] at h
theorem items_parts (S : Sem) : ∀ (items : Items) (xs : List MVal) (ctx caps : Ctx),
    specItems S items xs ctx = .ok (some caps) → ∀ e ∈ caps, ∃ x ∈ xs, Part e.2 x
  | .nil, xs, ctx, caps, h => by
    simp only [specItems] at h
    injection h with h; injection h with h; subst h
    intro e he; cases he
  | .cons pv cap rest, [], ctx, caps, h => by simp [specItems] at h
  | .cons pv cap rest, x :: xs, ctx, caps, h => by
    simp only [specItems] at h
    split at h
    · cases h
    · cases h
    rename_i c0 h0
    split at h
    · cases h
    · cases h
    rename_i c2 h2
    injection h with h; injection h with h; subst h
    have ih0 := val_parts S pv x ctx c0 h0
    have ih2 := items_parts S rest xs _ c2 h2
    intro e he
    simp only [Ctx.update, List.mem_append] at he
    rcases he with he | he
    · obtain ⟨y, hy, hp⟩ := ih2 e he
      exact ⟨y, by simp [hy], hp⟩
    · cases cap with
      | none => exact ⟨x, by simp, ih0 e he⟩
      | some c =>
        simp only [bindCap, Ctx.update, List.mem_append, List.mem_singleton] at he
        rcases he with he | he
        · exact ⟨x, by simp, ih0 e he⟩
        · subst he; exact ⟨x, by simp, .refl⟩
theorem val_parts (S : Sem) : ∀ (pv : PVal) (v : MVal) (ctx caps : Ctx),
    specVal S pv v ctx = .ok (some caps) → ∀ e ∈ caps, Part e.2 v
  | .tree p, v, ctx, caps, h => by
    simp only [specVal] at h
    exact pat_parts S p v ctx caps h
  | .var x, v, ctx, caps, h => by
    simp only [specVal] at h
    split at h
    · cases h
    split at h
    · injection h with h; injection h with h; subst h; intro e he; cases he
    · injection h with h; cases h
  | .none, v, ctx, caps, h => by
    simp only [specVal] at h
    split at h
    · injection h with h; injection h with h; subst h; intro e he; cases he
    · injection h with h; cases h
  | .re s, v, ctx, caps, h => by
    simp only [specVal] at h
    split at h
    · injection h with h; injection h with h; subst h; intro e he; cases he
    · injection h with h; cases h
end

/-- **nothing else is ever bound**: every value in the capture dict of a successful match is a part of the
matched node — a field value, a sequence element or a tuple of remaining elements, at some depth -/
theorem caps_are_parts (K : CEnv) (S : Sem) (p : Pat) (m : Matcher) (h : compile K p = .ok m) (n : Node) (caps : Ctx)
    (hm : matchNode S m n = .ok (true, caps)) : ∀ c w, (c, w) ∈ caps → Part w (.node n) := by
  intro c w hcw
  have hs := (match_iff K S p m h n caps).1 hm
  exact pat_parts S p (.node n) [] caps hs (c, w) hcw

/-! ## (2) MultiPatternMatcher: the table is constructed -/

theorem hasDup_false_iff : ∀ l : List Str, hasDup l = false ↔ l.Nodup
  | [] => by simp [hasDup]
  | a :: r => by
    simp only [hasDup, Bool.or_eq_false_iff, List.nodup_cons, hasDup_false_iff r]
    simp

/-- the table pairs every definition, in order, with the matcher its text compiles to -/
def TableOf (K : CEnv) (defs : List (Str × Str)) (tbl : List (Str × Matcher)) : Prop :=
  AllPairs (fun d e => e.1 = d.1 ∧ compilePattern K d.2 = .ok e.2) defs tbl

private theorem compiled_all_ok (K : CEnv) : ∀ (defs : List (Str × Str)),
    (defs.map fun d => (d.1, compilePattern K d.2)).any isRejected = false →
    TableOf K defs ((defs.map fun d => (d.1, compilePattern K d.2)).filterMap accepted?)
  | [], _ => .nil
  | d :: r, h => by
    simp only [List.map_cons, List.any_cons, Bool.or_eq_false_iff] at h
    obtain ⟨h1, h2⟩ := h
    have ih := compiled_all_ok K r h2
    cases hc : compilePattern K d.2 with
    | error e => simp [isRejected, hc] at h1
    | ok m =>
      simp only [List.map_cons, hc, List.filterMap_cons, accepted?]
      exact .cons ⟨rfl, hc⟩ ih

private theorem tableOf_all_ok (K : CEnv) : ∀ (defs : List (Str × Str)) (tbl : List (Str × Matcher)),
    TableOf K defs tbl →
    (defs.map fun d => (d.1, compilePattern K d.2)).any isRejected = false
      ∧ (defs.map fun d => (d.1, compilePattern K d.2)).filterMap accepted? = tbl
  | [], _, h => by cases h; exact ⟨rfl, rfl⟩
  | d :: r, _, h => by
    cases h with
    | cons hd ht =>
      rename_i e tbl'
      obtain ⟨h1, h2⟩ := tableOf_all_ok K r tbl' ht
      obtain ⟨hn, hc⟩ := hd
      obtain ⟨en, em⟩ := e
      simp only at hn hc
      subst hn
      simp [hc, isRejected, accepted?, h1, h2]

theorem multiInit_eq (K : CEnv) (defs : List (Str × Str)) :
    multiInit K defs =
      if hasDup (defs.map (·.1)) then none
      else if (defs.map fun d => (d.1, compilePattern K d.2)).any isRejected then none
      else some ((defs.map fun d => (d.1, compilePattern K d.2)).filterMap accepted?) := rfl

/-- **the constructor succeeds exactly when the names are pairwise distinct and every definition compiles**;
its table lists the compiled matchers in definition order -/
theorem multiInit_some_iff (K : CEnv) (defs : List (Str × Str)) (tbl : List (Str × Matcher)) :
    multiInit K defs = some tbl ↔ (defs.map (·.1)).Nodup ∧ TableOf K defs tbl := by
  rw [multiInit_eq]
  constructor
  · intro h
    split at h
    · cases h
    rename_i hd
    have hd' : hasDup (defs.map (·.1)) = false := by simpa using hd
    split at h
    · cases h
    rename_i ha
    have ha' : (defs.map fun d => (d.1, compilePattern K d.2)).any isRejected = false := by simpa using ha
    injection h with h
    subst h
    exact ⟨(hasDup_false_iff _).1 hd', compiled_all_ok K defs ha'⟩
  · rintro ⟨hn, ht⟩
    obtain ⟨h1, h2⟩ := tableOf_all_ok K defs tbl ht
    simp only [(hasDup_false_iff _).2 hn, h1, h2]
    simp

/-- **the constructor raises the definition error exactly when a name is repeated or some definition is
rejected** (syntax error or interpreter error) -/
theorem multiInit_none_iff (K : CEnv) (defs : List (Str × Str)) :
    multiInit K defs = none ↔ ¬ (defs.map (·.1)).Nodup ∨ ∃ d ∈ defs, ∃ e, compilePattern K d.2 = .error e := by
  rw [multiInit_eq]
  constructor
  · intro h
    split at h
    · rename_i hd
      exact Or.inl (fun hn => by rw [(hasDup_false_iff _).2 hn] at hd; cases hd)
    · split at h
      · rename_i ha
        simp only [List.any_map, List.any_eq_true, Function.comp] at ha
        obtain ⟨d, hd, hr⟩ := ha
        cases hc : compilePattern K d.2 with
        | error e => exact Or.inr ⟨d, hd, e, hc⟩
        | ok m => simp [isRejected, hc] at hr
      · cases h
  · rintro (hn | ⟨d, hd, e, he⟩)
    · have : hasDup (defs.map (·.1)) = true := by
        cases hh : hasDup (defs.map (·.1)) with
        | true => rfl
        | false => exact absurd ((hasDup_false_iff _).1 hh) hn
      simp [this]
    · split
      · rfl
      · have : (defs.map fun d => (d.1, compilePattern K d.2)).any isRejected = true := by
          simp only [List.any_map, List.any_eq_true, Function.comp]
          exact ⟨d, hd, by simp [isRejected, he]⟩
        simp [this]

/-- the parsed definitions behind a table -/
def ParsedOf (defs : List (Str × Str)) (pdefs : List (Str × Pat)) : Prop :=
  AllPairs (fun d pd => pd.1 = d.1 ∧ parsePattern d.2 = some pd.2) defs pdefs

/-- **`htbl` is constructible**: the table the constructor builds satisfies the hypothesis of
`multi_eq_spec` w.r.t. the parsed definitions -/
theorem multiInit_htbl (K : CEnv) : ∀ (defs : List (Str × Str)) (tbl : List (Str × Matcher)), TableOf K defs tbl →
    ∃ pdefs, ParsedOf defs pdefs ∧ ∀ r, match pdefs.lookup r, tbl.lookup r with
      | some p, some m => compile K p = .ok m
      | none, none => True
      | _, _ => False
  | [], _, h => by cases h; exact ⟨[], .nil, fun r => by simp [List.lookup]⟩
  | d :: defs, _, h => by
    cases h with
    | cons hd ht =>
      rename_i e tbl'
      obtain ⟨pdefs, hp, hl⟩ := multiInit_htbl K defs tbl' ht
      obtain ⟨hn, hc⟩ := hd
      obtain ⟨en, em⟩ := e
      simp only at hn hc
      subst hn
      -- the text parses and its tree compiles to `em`
      simp only [compilePattern] at hc
      split at hc
      · cases hc
      rename_i p hpp
      split at hc
      · cases hc
      rename_i m hm
      injection hc with hc
      subst hc
      refine ⟨(d.1, p) :: pdefs, .cons ⟨rfl, hpp⟩ hp, fun r => ?_⟩
      simp only [List.lookup]
      cases hr : r == d.1 with
      | true => simpa using hm
      | false => exact hl r

/-- **`multi_eq_spec` without the table hypothesis**: for the table `MultiPatternMatcher(defs)` builds from
the pattern TEXTS, `match` is `specMulti` over the parsed definitions -/
theorem multi_text_eq_spec (K : CEnv) (S : Sem) (defs : List (Str × Str)) (tbl : List (Str × Matcher))
    (h : multiInit K defs = some tbl) :
    ∃ pdefs, ParsedOf defs pdefs ∧ ∀ order n, multiMatch S tbl order n = specMulti S pdefs order n := by
  obtain ⟨-, ht⟩ := (multiInit_some_iff K defs tbl).1 h
  obtain ⟨pdefs, hp, hl⟩ := multiInit_htbl K defs tbl ht
  exact ⟨pdefs, hp, fun order n => multi_eq_spec K S pdefs tbl hl order n⟩

theorem tableOf_names (K : CEnv) : ∀ (defs : List (Str × Str)) (tbl : List (Str × Matcher)), TableOf K defs tbl →
    tbl.map (·.1) = defs.map (·.1)
  | [], _, h => by cases h; rfl
  | d :: defs, _, h => by
    cases h with
    | cons hd ht => simp [hd.1, tableOf_names K defs _ ht]

/-- **`MultiPatternMatcher(defs).match(node, rules)` returns the first matching rule in the given order**
(definition order when `rules is None`) with that pattern's captures -/
theorem multiRun_first (K : CEnv) (S : Sem) (defs : List (Str × Str)) (rules : Option (List Str)) (n : Node)
    (res : Except MultiErr (Option (Str × Ctx))) (h : multiRun K S defs rules n = some res) :
    ∃ pdefs, ParsedOf defs pdefs ∧
      ∀ r caps, res = .ok (some (r, caps)) ↔
        ∃ pre post, rules.getD (defs.map (·.1)) = pre ++ r :: post
          ∧ (∀ q ∈ pre, ∃ p, pdefs.lookup q = some p ∧ specMatch S p n = .ok none)
          ∧ ∃ p, pdefs.lookup r = some p ∧ specMatch S p n = .ok (some caps) := by
  unfold multiRun at h
  split at h
  · cases h
  rename_i tbl hi
  injection h with h
  subst h
  obtain ⟨pdefs, hp, hm⟩ := multi_text_eq_spec K S defs tbl hi
  refine ⟨pdefs, hp, fun r caps => ?_⟩
  have ho : ruleOrder tbl rules = rules.getD (defs.map (·.1)) := by
    cases rules with
    | some o => rfl
    | none => exact tableOf_names K defs tbl ((multiInit_some_iff K defs tbl).1 hi).2
  rw [hm, ho]
  exact multi_first S pdefs _ n r caps

/-! ## (3) content equality for nodes -/

/-- **`$x` on nodes is content equality**: with the `is_equal` of the digest model as `S.ceq`, a variable bound
to node `a` matches node `b` exactly when they have equal content (`ContentEq`: class, comparable
properties, children — origins, identities and non-comparable fields play no role) -/
theorem var_node_contentEq (S : Sem) (H : Str → Str) (hinj : Function.Injective H) (hsep : ∀ s, ∀ c ∈ H s, c ≠ ':')
    (hS : S.ceq = isEqual H) (a b : Node) (ha : WFN a) (hb : WFN b) (x : Str) (ctx : Ctx)
    (hx : ctx.lookup x = some (.node a)) :
    specVal S (.var x) (.node b) ctx = .ok (some []) ↔ ContentEq a b := by
  rw [← C01.isEqual_iff H hinj hsep a b ha hb]
  simp only [specVal, hx, varEq, hS]
  cases isEqual H a b <;> simp

/-! ## non-vacuity -/
section Examples
-- `(T @i=[(L) -> a $a * -> r])` on `T(i=(L1, L2, L3))`: `a` is element 0, `r` the tuple of the rest
example : specMatch exS exP9 (exTup [exLeaf 1, exLeaf 1, exLeaf 3]) =
    .ok (some [(['r'], .tup [.node (exLeaf 3)]), (['a'], .node (exLeaf 1))]) := by rfl
-- the constructor: accepted, repeated name, rejected definition
/-- `(T@i=[*]->c)` -/
def tT : Str := ['(', 'T', '@', 'i', '=', '[', '*', ']', '-', '>', 'c', ')']
/-- `(T@i=$a)` -/
def tBad : Str := ['(', 'T', '@', 'i', '=', '$', 'a', ')']
example : (multiInit exK [(['p'], tT), (['q'], tT)]).map (·.map (·.1)) = some [['p'], ['q']] := by decide
example : (multiInit exK [(['p'], tT), (['p'], tT)]).isNone = true := by decide
example : (multiInit exK [(['p'], tT), (['q'], tBad)]).isNone = true := by decide
example : (defs : List (Str × Str)) → defs = [(['p'], tT), (['q'], tT)] → (defs.map (·.1)).Nodup := by
  intro defs h; subst h; decide
def resKeys : Option (Except MultiErr (Option (Str × Ctx))) → Option (Str × List Str)
  | some (.ok (some (r, c))) => some (r, c.keys)
  | _ => none
example : resKeys (multiRun exK exS [(['p'], ['(', 'L', ')']), (['q'], tT)] none (exTup [exLeaf 1])) = some (['q'], [['c']]) := by
  decide
example : resKeys (multiRun exK exS [(['p'], ['(', 'T', ')']), (['q'], tT)] (some [['q'], ['p']]) (exTup [exLeaf 1]))
    = some (['q'], [['c']]) := by decide
-- the hypotheses of `multi_text_eq_spec` / `multiRun_first` are satisfiable
example : ∃ tbl, multiInit exK [(['p'], tT), (['q'], tT)] = some tbl :=
  Option.isSome_iff_exists.mp (by decide)
-- `var_node_contentEq` applies: the digest `C01.Hesc` is injective and colon-free, `n1`, `n2` (C01.Demo: same
-- content, different uid / origin / non-comparable field / truthiness) are well-formed and content-equal
example : specVal ⟨exS.rx, isEqual C01.Hesc, exS.neq, exS.aeq⟩ (.var ['x']) (.node C01.Demo.n2)
    [(['x'], .node C01.Demo.n1)] = .ok (some []) :=
  (var_node_contentEq ⟨exS.rx, isEqual C01.Hesc, exS.neq, exS.aeq⟩ C01.Hesc C01.Hesc_injective C01.Hesc_no_colon rfl
    C01.Demo.n1 C01.Demo.n2 C01.Demo.wf_n1 C01.Demo.wf_n2 ['x'] _ (by rfl)).2
    ((C01.cid_eq_iff C01.Hesc C01.Hesc_injective C01.Hesc_no_colon _ _ C01.Demo.wf_n1 C01.Demo.wf_n2).mp (by decide))
-- `Part`: the tail capture of `[(L) -> a * -> r]` is a suffix tuple of the field value
example : Part (.tup [.node (exLeaf 3)]) (.node (exTup [exLeaf 1, exLeaf 2, exLeaf 3])) :=
  .field (f := ['i']) (fv := .tup [.node (exLeaf 1), .node (exLeaf 2), .node (exLeaf 3)]) (by rfl)
    (.suffix (xs := [.node (exLeaf 1), .node (exLeaf 2), .node (exLeaf 3)]) (k := 2) (by decide))
end Examples

end C08
end PyOak
