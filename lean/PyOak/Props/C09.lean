/-
C09 — Visitor dispatch and transformation follow the rules and keep untouched parts.

Model: `Model/Visitor.lean` (implementation-shaped: `accept` lookup, the flat loop of
`_transform_children` with its dict and changed-set, `generic_visit`, fuel).
Specification: `Spec/Visitor.lean` (`nearest`, and the bottom-up rewrite `T` by structural recursion).

Theorems (all visitors = all rule tables, strict and non-strict; all trees, no size bound):

* dispatch: `dispatch_strict`, `dispatch_eq_nearest`, `dispatch_nearest`, `dispatch_generic`,
  `dispatch_skips_last` (the last MRO entry, `object`, is never consulted);
* `transform_eq_spec`: the implementation-shaped model = `T` on every well-formed tree value
  (`wf`: field names of a node pairwise distinct, a single field holds at most one node) and the
  fuel `n.size` is sufficient;
* `unchanged_identity` / `unchanged_tree_returns_itself` / `quiet_same`: a subtree in which no rule
  other than generic (keep, return-the-node-itself) fires is returned as the very same object and
  nothing is allocated;
* `generic_result_same_or_new`, `changed_ancestors_new`: every ancestor of a change is a NEW object
  (identity from the counter, never used before) of the same class;
* `removed_dropped_in_order`, `anyChanged_of_removed`, `removed_single_none`, `unchanged_field_kept`;
* `input_untouched`: the output consists of newly allocated objects and of literally unchanged
  node values of the input / of replacement nodes (no existing identity ever carries new content).

Identities: `uid`s are object identities.  Theorems that say "new object" assume the counter is
fresh (`uidsLt c n`: every identity in the tree is `< c`), which is how the harness calls the model.
-/
import PyOak.Spec.Visitor
namespace PyOak
namespace C09

@[simp] theorem Node.uid_mk (h : Head) (ks : List Kid) : (Node.mk h ks).uid = h.uid := rfl
@[simp] theorem Node.hd_mk (h : Head) (ks : List Kid) : (Node.mk h ks).hd = h := rfl
@[simp] theorem Node.kids_mk (h : Head) (ks : List Kid) : (Node.mk h ks).kids = ks := rfl

/-! ### dispatch -/

theorem dispatch_strict (v : Visitor) (h : Head) (hs : v.strict = true) :
    v.method h = v.getattr h.cls := by
  simp [Visitor.method, hs]

theorem findSome_eq_nearest (has : Str → Option Rule) (l : List Str) :
    l.findSome? has = nearest has l := by
  induction l with
  | nil => rfl
  | cons c r ih =>
    simp only [List.findSome?_cons, nearest]
    cases has c <;> simp [ih]

theorem dispatch_eq_nearest (v : Visitor) (h : Head) (hs : v.strict = false) :
    v.method h = nearest v.getattr h.mro.dropLast := by
  simp [Visitor.method, hs, findSome_eq_nearest]

theorem nearest_some_iff (has : Str → Option Rule) (l : List Str) (r : Rule) :
    nearest has l = some r ↔
      ∃ pre c post, l = pre ++ c :: post ∧ has c = some r ∧ ∀ d ∈ pre, has d = none := by
  induction l with
  | nil => simp [nearest]
  | cons a t ih =>
    simp only [nearest]
    cases ha : has a with
    | some m =>
      constructor
      · intro h; simp at h; subst h
        exact ⟨[], a, t, rfl, ha, by simp⟩
      · rintro ⟨pre, c, post, hl, hc, hp⟩
        cases pre with
        | nil => simp at hl; obtain ⟨rfl, rfl⟩ := hl; simp_all
        | cons b pre' =>
          simp at hl; obtain ⟨rfl, _⟩ := hl
          have := hp a (by simp); simp_all
    | none =>
      simp only []
      rw [ih]
      constructor
      · rintro ⟨pre, c, post, hl, hc, hp⟩
        refine ⟨a :: pre, c, post, by simp [hl], hc, ?_⟩
        intro d hd; simp at hd; rcases hd with rfl | hd
        · exact ha
        · exact hp d hd
      · rintro ⟨pre, c, post, hl, hc, hp⟩
        cases pre with
        | nil => simp at hl; obtain ⟨rfl, rfl⟩ := hl; simp_all
        | cons b pre' =>
          simp at hl; obtain ⟨rfl, rfl⟩ := hl
          exact ⟨pre', c, post, rfl, hc, fun d hd => hp d (by simp [hd])⟩

theorem nearest_none_iff (has : Str → Option Rule) (l : List Str) :
    nearest has l = none ↔ ∀ c ∈ l, has c = none := by
  induction l with
  | nil => simp [nearest]
  | cons a t ih =>
    simp only [nearest]
    cases ha : has a with
    | some m => simp [ha]
    | none => simp [ih, ha]

/-- non-strict: the method called is the one of the NEAREST class in `mro[:-1]` that has one -/
theorem dispatch_nearest (v : Visitor) (h : Head) (hs : v.strict = false) (r : Rule) :
    v.method h = some r ↔
      ∃ pre c post, h.mro.dropLast = pre ++ c :: post ∧ v.getattr c = some r ∧
        ∀ d ∈ pre, v.getattr d = none := by
  rw [dispatch_eq_nearest v h hs, nearest_some_iff]

/-- `generic_visit` is called exactly when no (admissible) class has a method -/
theorem dispatch_generic (v : Visitor) (h : Head) :
    v.method h = none ↔
      (if v.strict then v.getattr h.cls = none else ∀ c ∈ h.mro.dropLast, v.getattr c = none) := by
  cases hs : v.strict with
  | true => simp [dispatch_strict v h hs]
  | false => simp [dispatch_eq_nearest v h hs, nearest_none_iff]

/-- the last MRO entry (`object`) is never consulted -/
theorem dispatch_skips_last (v : Visitor) (h : Head) (init : List Str) (a b : Str) :
    v.method { h with mro := init ++ [a] } = v.method { h with mro := init ++ [b] } := by
  simp [Visitor.method]


/-! ### the implementation-shaped loop equals the specification -/

/-- `TNodes` with the visit function as a parameter -/
def nodesS (visit : Node → Nat → VRes) : List Node → Nat → Except Err (List Node × Bool × Nat)
  | [], c => .ok ([], false, c)
  | x :: r, c =>
    match visit x c with
    | .error e => .error e
    | .ok (rx, c1) =>
      match nodesS visit r c1 with
      | .error e => .error e
      | .ok (out, chg, c2) => .ok (rx.toList ++ out, !(sameObj rx x) || chg, c2)

/-- per-field record: the field, the new children, whether it changed -/
structure KR where
  k : Kid
  out : List Node
  chg : Bool

def kidsR (visit : Node → Nat → VRes) : List Kid → Nat → Except Err (List KR × Nat)
  | [], c => .ok ([], c)
  | k :: r, c =>
    match nodesS visit k.nodes c with
    | .error e => .error e
    | .ok (out, chg, c1) =>
      match kidsR visit r c1 with
      | .error e => .error e
      | .ok (rs, c2) => .ok (⟨k, out, chg⟩ :: rs, c2)

def KR.chgVal (r : KR) : Chg := if r.k.coll then .seq r.out else .single r.out.head?
def KR.entry (r : KR) : Dict := if r.k.nodes = [] then [] else [(r.k.name, r.chgVal)]
def KR.newKid (r : KR) : Kid := if r.chg then .mk r.k.name r.k.coll r.out else r.k

theorem TNodes_eq (v : Visitor) (ns : List Node) (c : Nat) : TNodes v ns c = nodesS (T v) ns c := by
  induction ns generalizing c with
  | nil => simp [TNodes, nodesS]
  | cons x r ih =>
    simp only [TNodes, nodesS]
    cases T v x c with
    | error e => rfl
    | ok p => simp only [ih] <;> rfl

theorem TKids_eq (v : Visitor) (ks : List Kid) (c : Nat) :
    TKids v ks c = match kidsR (T v) ks c with
      | .error e => .error e
      | .ok (rs, c') => .ok (rs.map KR.newKid, rs.any (·.chg), c') := by
  induction ks generalizing c with
  | nil => simp [TKids, kidsR]
  | cons k r ih =>
    cases k with
    | mk name coll ns =>
      simp only [TKids, kidsR, TKid, TNodes_eq, Kid.nodes]
      cases nodesS (T v) ns c with
      | error e => rfl
      | ok p =>
        obtain ⟨out, chg, c1⟩ := p
        simp only [ih]
        cases kidsR (T v) r c1 with
        | error e => rfl
        | ok q =>
          obtain ⟨rs, c2⟩ := q
          cases chg <;> simp [KR.newKid, Kid.name, Kid.coll]

theorem nodesS_congr (f g : Node → Nat → VRes) (ns : List Node)
    (h : ∀ x ∈ ns, ∀ c, f x c = g x c) (c : Nat) : nodesS f ns c = nodesS g ns c := by
  induction ns generalizing c with
  | nil => rfl
  | cons x r ih =>
    simp only [nodesS, h x (by simp)]
    cases g x c with
    | error e => rfl
    | ok p => simp only [ih (fun y hy => h y (by simp [hy]))]

theorem nodesS_facts (f : Node → Nat → VRes) (ns : List Node) (c : Nat) (out : List Node) (chg : Bool)
    (c' : Nat) (h : nodesS f ns c = .ok (out, chg, c')) :
    out.length ≤ ns.length ∧ (ns = [] → chg = false) := by
  induction ns generalizing c out chg c' with
  | nil => simp [nodesS] at h; simp [h]
  | cons x r ih =>
    unfold nodesS at h
    split at h
    · simp at h
    · rename_i rx c1 _
      split at h
      · simp at h
      · rename_i out' chg' c2 hr
        simp at h; obtain ⟨rfl, _, _⟩ := h
        have := (ih c1 out' chg' c2 hr).1
        cases rx <;> simp <;> omega

/-! dict / set lemmas -/

theorem has_append (D E : Dict) (f : Str) : Dict.has (D ++ E) f = (D.has f || E.has f) := by
  simp [Dict.has]

theorem has_single (f g : Str) (x : Chg) : Dict.has [(g, x)] f = (g == f) := by
  simp [Dict.has]

theorem push_nohas (D : Dict) (f : Str) (y : Node) (h : D.has f = false) : D.push f y = D := by
  induction D with
  | nil => rfl
  | cons e r ih =>
    simp only [Dict.has, List.any_cons, Bool.or_eq_false_iff] at h
    simp only [Dict.push, List.map_cons, h.1, Bool.false_eq_true, if_false]
    congr 1
    exact ih (by simpa [Dict.has] using h.2)

theorem push_last (D : Dict) (f : Str) (acc : List Node) (y : Node) (h : D.has f = false) :
    (D ++ [(f, Chg.seq acc)]).push f y = D ++ [(f, Chg.seq (acc ++ [y]))] := by
  have := push_nohas D f y h
  simp only [Dict.push] at this
  simp only [Dict.push, List.map_append, this, List.map_cons, List.map_nil, BEq.rfl, if_true]

theorem set_nohas (D : Dict) (f : Str) (x : Chg) (h : D.has f = false) : D.set f x = D ++ [(f, x)] := by
  simp [Dict.set, h]

theorem mem_setAdd (s : List Str) (k x : Str) : x ∈ setAdd s k ↔ x ∈ s ∨ x = k := by
  unfold setAdd
  split
  · rename_i h; simp at h
    constructor
    · exact .inl
    · rintro (h' | rfl) <;> assumption
  · simp

theorem setAdd_idem (s : List Str) (k : Str) : setAdd (setAdd s k) k = setAdd s k := by
  unfold setAdd
  by_cases h : k ∈ s <;> simp [h]

theorem tcLoop_append (visit : Node → Nat → VRes) (a b : List (Node × Edge)) (st : TC) :
    tcLoop visit (a ++ b) st = match tcLoop visit a st with
      | .error e => .error e
      | .ok st' => tcLoop visit b st' := by
  induction a generalizing st with
  | nil => simp [tcLoop]
  | cons x r ih =>
    simp only [List.cons_append, tcLoop]
    cases tcStep visit st x with
    | error e => rfl
    | ok st' => exact ih st'

/-- the loop over the elements of ONE sequence field, entered with the list already in the dict -/
theorem seq_loop (visit : Node → Nat → VRes) (f : Str) (D : Dict) (hD : D.has f = false) :
    ∀ (ns : List Node) (i : Nat) (acc : List Node) (chd : List Str) (c : Nat),
    tcLoop visit ((enumFrom i ns).map fun p => (p.2, (⟨f, some p.1⟩ : Edge)))
        ⟨D ++ [(f, Chg.seq acc)], chd, c⟩ =
      match nodesS visit ns c with
      | .error e => .error e
      | .ok (out, chg, c') =>
        .ok ⟨D ++ [(f, Chg.seq (acc ++ out))], if chg then setAdd chd f else chd, c'⟩
  | [], i, acc, chd, c => by simp [enumFrom, tcLoop, nodesS]
  | x :: r, i, acc, chd, c => by
    have hh : Dict.has (D ++ [(f, Chg.seq acc)]) f = true := by simp [has_append, has_single]
    simp only [enumFrom, List.map_cons, tcLoop, tcStep, nodesS, hh, if_true]
    cases hv : visit x c with
    | error e => rfl
    | ok p =>
      obtain ⟨rx, c1⟩ := p
      cases rx with
      | none =>
        simp only []
        rw [seq_loop visit f D hD r (i + 1) acc (setAdd chd f) c1]
        cases nodesS visit r c1 with
        | error e => rfl
        | ok q =>
          obtain ⟨out, chg, c2⟩ := q
          cases chg <;> simp [sameObj, setAdd_idem]
      | some y =>
        simp only [push_last D f acc y hD]
        rw [seq_loop visit f D hD r (i + 1) (acc ++ [y])]
        cases nodesS visit r c1 with
        | error e => rfl
        | ok q =>
          obtain ⟨out, chg, c2⟩ := q
          by_cases hy : y.uid = x.uid <;> cases chg <;> simp [sameObj, hy, setAdd_idem]


/-- the loop over the edges of ONE child field -/
theorem kid_loop (visit : Node → Nat → VRes) (k : Kid) (hk : k.coll = false → k.nodes.length ≤ 1)
    (D : Dict) (hD : D.has k.name = false) (chd : List Str) (c : Nat) :
    tcLoop visit k.edges ⟨D, chd, c⟩ =
      match nodesS visit k.nodes c with
      | .error e => .error e
      | .ok (out, chg, c') =>
        .ok ⟨D ++ KR.entry ⟨k, out, chg⟩, if chg then setAdd chd k.name else chd, c'⟩ := by
  cases k with
  | mk f coll ns =>
    simp only [Kid.name, Kid.coll, Kid.nodes] at hk hD ⊢
    cases coll with
    | true =>
      cases ns with
      | nil => simp [Kid.edges, enumFrom, tcLoop, nodesS, KR.entry, Kid.nodes]
      | cons x r =>
        have h0 := seq_loop visit f D hD (x :: r) 0 [] chd c
        have hh : Dict.has (D ++ [(f, Chg.seq [])]) f = true := by simp [has_append, has_single]
        have : tcLoop visit (Kid.edges (.mk f true (x :: r))) ⟨D, chd, c⟩ =
            tcLoop visit ((enumFrom 0 (x :: r)).map fun p => (p.2, (⟨f, some p.1⟩ : Edge)))
              ⟨D ++ [(f, Chg.seq [])], chd, c⟩ := by
          simp only [Kid.edges, enumFrom, List.map_cons, tcLoop, tcStep, hD, hh]
          rfl
        rw [this, h0]
        cases nodesS visit (x :: r) c with
        | error e => rfl
        | ok q =>
          obtain ⟨out, chg, c2⟩ := q
          simp [KR.entry, KR.chgVal, Kid.nodes, Kid.coll, Kid.name]
    | false =>
      have hl := hk rfl
      cases ns with
      | nil => simp [Kid.edges, tcLoop, nodesS, KR.entry, Kid.nodes]
      | cons x r =>
        cases r with
        | cons y r' => simp at hl
        | nil =>
          simp only [Kid.edges, List.map_cons, List.map_nil, tcLoop, tcStep, nodesS]
          cases hv : visit x c with
          | error e => rfl
          | ok p =>
            obtain ⟨rx, c1⟩ := p
            simp only [set_nohas D f _ hD]
            cases hs : sameObj rx x <;>
              cases rx <;> simp [KR.entry, KR.chgVal, Kid.nodes, Kid.coll, Kid.name]

def chdOf (rs : List KR) (chd : List Str) : List Str :=
  rs.foldl (fun s r => if r.chg then setAdd s r.k.name else s) chd

/-- the whole flat loop of `_transform_children` -/
theorem kids_loop (visit : Node → Nat → VRes) :
    ∀ (ks : List Kid), (∀ k ∈ ks, k.coll = false → k.nodes.length ≤ 1) → (ks.map Kid.name).Nodup →
    ∀ (D : Dict), (∀ k ∈ ks, D.has k.name = false) → ∀ (chd : List Str) (c : Nat),
    tcLoop visit (ks.flatMap Kid.edges) ⟨D, chd, c⟩ =
      match kidsR visit ks c with
      | .error e => .error e
      | .ok (rs, c') => .ok ⟨D ++ rs.flatMap KR.entry, chdOf rs chd, c'⟩
  | [], _, _, D, _, chd, c => by simp [tcLoop, kidsR, chdOf]
  | k :: r, hwf, hnd, D, hD, chd, c => by
    simp only [List.flatMap_cons, tcLoop_append, kidsR]
    rw [kid_loop visit k (hwf k (by simp)) D (hD k (by simp)) chd c]
    cases nodesS visit k.nodes c with
    | error e => rfl
    | ok q =>
      obtain ⟨out, chg, c1⟩ := q
      simp only [List.map_cons, List.nodup_cons] at hnd
      have hD' : ∀ k' ∈ r, Dict.has (D ++ KR.entry ⟨k, out, chg⟩) k'.name = false := by
        intro k' hk'
        have h1 := hD k' (by simp [hk'])
        have h2 : k.name ≠ k'.name := fun e => hnd.1 (by rw [e]; exact List.mem_map_of_mem hk')
        simp only [has_append, h1, KR.entry, Bool.false_or]
        split
        · rfl
        · simp [has_single, h2]
      simp only []
      rw [kids_loop visit r (fun k' hk' => hwf k' (by simp [hk'])) hnd.2 _ hD']
      cases kidsR visit r c1 with
      | error e => rfl
      | ok q2 =>
        obtain ⟨rs, c2⟩ := q2
        simp [chdOf, List.append_assoc]

theorem kidsR_facts (visit : Node → Nat → VRes) (ks : List Kid) (c : Nat) (rs : List KR) (c' : Nat)
    (h : kidsR visit ks c = .ok (rs, c')) :
    rs.map (·.k) = ks ∧ ∀ r ∈ rs, (r.k.nodes = [] → r.chg = false) ∧ r.out.length ≤ r.k.nodes.length := by
  induction ks generalizing c rs c' with
  | nil => simp [kidsR] at h; simp [h]
  | cons k t ih =>
    unfold kidsR at h
    split at h
    · simp at h
    · rename_i out chg c1 hn
      split at h
      · simp at h
      · rename_i rs' c2 hr
        simp at h; obtain ⟨rfl, _⟩ := h
        obtain ⟨i1, i2⟩ := ih c1 rs' c2 hr
        have := nodesS_facts visit k.nodes c out chg c1 hn
        refine ⟨by simp [i1], ?_⟩
        intro r hr
        simp at hr
        rcases hr with rfl | hr
        · exact ⟨this.2, this.1⟩
        · exact i2 r hr

theorem mem_chdOf (rs : List KR) (chd : List Str) (x : Str) :
    x ∈ chdOf rs chd ↔ x ∈ chd ∨ ∃ r ∈ rs, r.chg = true ∧ r.k.name = x := by
  induction rs generalizing chd with
  | nil => simp [chdOf]
  | cons r t ih =>
    simp only [chdOf, List.foldl_cons] at ih ⊢
    rw [ih]
    cases hc : r.chg
    · simp [hc]
    · simp only [if_true, mem_setAdd, List.mem_cons, exists_eq_or_imp, hc, true_and]
      constructor
      · rintro ((h | h) | h)
        · exact .inl h
        · exact .inr (.inl h.symm)
        · exact .inr (.inr h)
      · rintro (h | h | h)
        · exact .inl (.inl h)
        · exact .inl (.inr h.symm)
        · exact .inr h

theorem lookup_entry (P : Str → Bool) (r : KR) (x : Str) :
    List.lookup x (r.entry.filter fun e => P e.1) =
      if (x == r.k.name) = true ∧ P r.k.name = true ∧ r.k.nodes ≠ [] then some r.chgVal else none := by
  unfold KR.entry
  by_cases hn : r.k.nodes = []
  · simp [hn]
  · by_cases hp : P r.k.name = true
    · by_cases hx : (x == r.k.name) = true
      · simp [hn, hp, hx, List.lookup_cons]
      · have hx' : (x == r.k.name) = false := by simpa using hx
        simp only [hn, if_false, List.filter_cons, hp, if_true, List.filter_nil, List.lookup_cons, hx',
          List.lookup_nil]
        simp
    · simp [hn, hp]

theorem lookup_notin (P : Str → Bool) (rs : List KR) (x : Str) (h : ∀ r ∈ rs, r.k.name ≠ x) :
    List.lookup x ((rs.flatMap KR.entry).filter fun e => P e.1) = none := by
  induction rs with
  | nil => simp
  | cons r t ih =>
    have h1 := h r (by simp)
    have h2 := ih (fun r' hr' => h r' (by simp [hr']))
    have hx : (x == r.k.name) = false := by simp; exact fun e => h1 e.symm
    rw [List.flatMap_cons, List.filter_append, List.lookup_append, lookup_entry, h2]
    simp [hx]

theorem lookup_filtered (P : Str → Bool) (rs : List KR) (hnd : (rs.map (·.k.name)).Nodup) :
    ∀ r ∈ rs, List.lookup r.k.name ((rs.flatMap KR.entry).filter fun e => P e.1) =
      if P r.k.name = true ∧ r.k.nodes ≠ [] then some r.chgVal else none := by
  induction rs with
  | nil => simp
  | cons r0 t ih =>
    simp only [List.map_cons, List.nodup_cons, List.mem_map, not_exists, not_and] at hnd
    intro r hr
    simp only [List.mem_cons] at hr
    rw [List.flatMap_cons, List.filter_append, List.lookup_append, lookup_entry]
    rcases hr with rfl | hr
    · have hno := lookup_notin P t r.k.name (fun r' hr' e => hnd.1 r' hr' e)
      rw [hno]
      simp
    · have hne : (r.k.name == r0.k.name) = false := by simp; exact fun e => hnd.1 r hr e
      rw [ih hnd.2 r hr]
      simp [hne]

theorem name_inj (rs : List KR) (hnd : (rs.map (·.k.name)).Nodup) :
    ∀ r ∈ rs, ∀ r' ∈ rs, r'.k.name = r.k.name → r' = r := by
  induction rs with
  | nil => simp
  | cons r0 t ih =>
    simp only [List.map_cons, List.nodup_cons, List.mem_map, not_exists, not_and] at hnd
    intro r hr r' hr' e
    simp only [List.mem_cons] at hr hr'
    rcases hr with rfl | hr <;> rcases hr' with rfl | hr'
    · rfl
    · exact absurd e (hnd.1 r' hr')
    · exact absurd e.symm (hnd.1 r hr)
    · exact ih hnd.2 r hr r' hr' e

theorem chgVal_nodes (r : KR) (h : r.k.coll = false → r.out.length ≤ 1) : r.chgVal.nodes = r.out := by
  unfold KR.chgVal
  cases hc : r.k.coll
  · have := h hc
    simp only [Bool.false_eq_true, if_false, Chg.nodes]
    cases ho : r.out with
    | nil => rfl
    | cons a t => cases t <;> simp_all
  · simp [Chg.nodes]

theorem chdOf_nochg (rs : List KR) (chd : List Str) (h : rs.any (·.chg) = false) : chdOf rs chd = chd := by
  induction rs generalizing chd with
  | nil => rfl
  | cons r t ih =>
    simp only [List.any_cons, Bool.or_eq_false_iff] at h
    simp only [chdOf, List.foldl_cons, h.1, Bool.false_eq_true, if_false]
    exact ih chd h.2

/-- `generic_visit` with the flat loop = rebuild from the per-field records -/
theorem genericVisit_eq (visit : Node → Nat → VRes) (h : Head) (ks : List Kid)
    (hwf : ∀ k ∈ ks, k.coll = false → k.nodes.length ≤ 1) (hnd : (ks.map Kid.name).Nodup) (c : Nat) :
    genericVisit visit (.mk h ks) c =
      rebuilt h ks (match kidsR visit ks c with
        | .error e => .error e
        | .ok (rs, c') => .ok (rs.map KR.newKid, rs.any (·.chg), c')) := by
  have hl := kids_loop visit ks hwf hnd [] (by simp [Dict.has]) [] c
  simp only [genericVisit, transformChildren, Node.edges, Node.kids, hl]
  cases hk : kidsR visit ks c with
  | error e => simp [rebuilt]
  | ok q =>
    obtain ⟨rs, c'⟩ := q
    obtain ⟨hmap, hfacts⟩ := kidsR_facts visit ks c rs c' hk
    simp only [List.nil_append]
    cases hany : rs.any (·.chg) with
    | false =>
      simp [chdOf_nochg rs [] hany, rebuilt]
    | true =>
      obtain ⟨r1, hr1, hc1⟩ := List.any_eq_true.mp hany
      have hndr : (rs.map (·.k.name)).Nodup := by
        have : rs.map (·.k.name) = (rs.map (·.k)).map Kid.name := by simp
        rw [this, hmap]; exact hnd
      have hP : ∀ r ∈ rs, (chdOf rs []).contains r.k.name = r.chg := by
        intro r hr
        cases hc : r.chg
        · apply Bool.eq_false_iff.mpr
          intro hcon
          have := (mem_chdOf rs [] r.k.name).mp (by simpa using hcon)
          rcases this with h0 | ⟨r', hr', hc', hn'⟩
          · simp at h0
          · have := name_inj rs hndr r hr r' hr' hn'
            subst this; rw [hc] at hc'; cases hc'
        · have := (mem_chdOf rs [] r.k.name).mpr (.inr ⟨r, hr, hc, rfl⟩)
          simpa using this
      have hne : (chdOf rs []).isEmpty = false := by
        have := (mem_chdOf rs [] r1.k.name).mpr (.inr ⟨r1, hr1, hc1, rfl⟩)
        cases hh : chdOf rs [] with
        | nil => rw [hh] at this; simp at this
        | cons a t => rfl
      have hlook := lookup_filtered (fun x => (chdOf rs []).contains x) rs hndr
      have hne2 : ((rs.flatMap KR.entry).filter fun e => (chdOf rs []).contains e.1).isEmpty = false := by
        have := hlook r1 hr1
        have hnn : r1.k.nodes ≠ [] := fun e => by
          have := (hfacts r1 hr1).1 e; rw [hc1] at this; cases this
        rw [hP r1 hr1, hc1] at this
        simp only [true_and, hnn, ne_eq, not_false_eq_true, if_true] at this
        cases hh : (rs.flatMap KR.entry).filter fun e => (chdOf rs []).contains e.1 with
        | nil => rw [hh] at this; simp at this
        | cons a t => rfl
      simp only [hne, Bool.false_eq_true, if_false, hne2, rebuilt, if_true]
      congr 3
      simp only [dcReplace, Node.hd_mk, Node.kids_mk, Node.mk.injEq, true_and]
      rw [← hmap, List.map_map]
      apply List.map_congr_left
      intro r hr
      simp only [Function.comp]
      rw [hlook r hr, hP r hr]
      cases hc : r.chg
      · simp [KR.newKid, hc]
      · have hnn : r.k.nodes ≠ [] := fun e => by
          have := (hfacts r hr).1 e; rw [hc] at this; cases this
        have hlen : r.k.coll = false → r.out.length ≤ 1 := fun hcoll => by
          have h1 := (hfacts r hr).2
          have h2 := hwf r.k (by rw [← hmap]; exact List.mem_map_of_mem hr) hcoll
          omega
        simp [hnn, KR.newKid, hc, chgVal_nodes r hlen]

theorem kidsR_congr (f g : Node → Nat → VRes) (ks : List Kid)
    (h : ∀ k ∈ ks, ∀ x ∈ k.nodes, ∀ c, f x c = g x c) (c : Nat) : kidsR f ks c = kidsR g ks c := by
  induction ks generalizing c with
  | nil => rfl
  | cons k r ih =>
    simp only [kidsR, nodesS_congr f g k.nodes (h k (by simp))]
    cases nodesS g k.nodes c with
    | error e => rfl
    | ok q =>
      obtain ⟨out, chg, c1⟩ := q
      simp only [ih (fun k' hk' => h k' (by simp [hk']))]

theorem wfNodes_mem (ns : List Node) (h : wfNodes ns = true) : ∀ x ∈ ns, wf x = true := by
  induction ns with
  | nil => simp
  | cons n r ih =>
    simp only [wfNodes, Bool.and_eq_true] at h
    intro x hx; simp at hx; rcases hx with rfl | hx
    · exact h.1
    · exact ih h.2 x hx

theorem wfKids_mem (ks : List Kid) (h : wfKids ks = true) :
    ∀ k ∈ ks, (k.coll = false → k.nodes.length ≤ 1) ∧ ∀ x ∈ k.nodes, wf x = true := by
  induction ks with
  | nil => simp
  | cons k r ih =>
    simp only [wfKids, Bool.and_eq_true] at h
    intro k' hk'; simp at hk'; rcases hk' with rfl | hk'
    · cases k' with
      | mk name coll ns =>
        simp only [wfKid, Bool.and_eq_true, Bool.or_eq_true, decide_eq_true_eq] at h
        refine ⟨fun hc => ?_, wfNodes_mem ns h.1.2⟩
        simp only [Kid.coll] at hc
        rcases h.1.1 with h' | h'
        · rw [hc] at h'; cases h'
        · exact h'
    · exact ih h.2 k' hk'

theorem size_mem_nodes (ns : List Node) : ∀ x ∈ ns, x.size ≤ nodesSize ns := by
  induction ns with
  | nil => simp
  | cons n r ih =>
    intro x hx; simp at hx
    simp only [nodesSize]
    rcases hx with rfl | hx
    · omega
    · have := ih x hx; omega

theorem size_mem_kids (ks : List Kid) : ∀ k ∈ ks, ∀ x ∈ k.nodes, x.size ≤ kidsSize ks := by
  induction ks with
  | nil => simp
  | cons k r ih =>
    intro k' hk' x hx; simp at hk'
    simp only [kidsSize]
    rcases hk' with rfl | hk'
    · cases k' with
      | mk name coll ns =>
        have := size_mem_nodes ns x hx
        simp only [Kid.size]; omega
    · have := ih k' hk' x hx; omega

theorem visitF_eq (v : Visitor) : ∀ (fuel : Nat) (n : Node) (c : Nat),
    wf n = true → n.size ≤ fuel → visitF v fuel n c = T v n c := by
  intro fuel
  induction fuel with
  | zero => intro n c _ hs; have := Node.size_pos n; omega
  | succ fuel ih =>
    intro n c hw hs
    cases n with
    | mk h ks =>
      simp only [wf, Bool.and_eq_true, decide_eq_true_eq] at hw
      have hk := wfKids_mem ks hw.2
      have hg : genericVisit (visitF v fuel) (.mk h ks) c = rebuilt h ks (TKids v ks c) := by
        rw [genericVisit_eq _ h ks (fun k hk' => (hk k hk').1) hw.1, TKids_eq]
        rw [kidsR_congr (visitF v fuel) (T v) ks]
        intro k hk' x hx c'
        apply ih x c' ((hk k hk').2 x hx)
        have := size_mem_kids ks k hk' x hx
        simp only [Node.size] at hs
        omega
      unfold visitF T
      simp only [Node.hd_mk]
      cases v.action h <;> simp only [hg]

/-- **transform_eq_spec**: for every visitor and every (well-formed) tree the implementation-shaped
model (flat loop, dict, changed-set, fuel) computes exactly the bottom-up rewrite `T`; the fuel
handed to it is always sufficient. -/
theorem transform_eq_spec (v : Visitor) (n : Node) (c : Nat) (hw : wf n = true) :
    transform v n c = T v n c :=
  visitF_eq v n.size n c hw (Nat.le_refl _)

/-! ### fresh identities, quiet subtrees -/

mutual
def quiet (v : Visitor) : Node → Bool
  | .mk h ks => match v.action h with
    | .keep => true
    | .replaceBy k => k.uid == h.uid
    | .generic => quietKids v ks
    | _ => false
termination_by structural n => n
def quietKids (v : Visitor) : List Kid → Bool
  | [] => true
  | k :: r => quietKid v k && quietKids v r
termination_by structural ks => ks
def quietKid (v : Visitor) : Kid → Bool
  | .mk _ _ ns => quietNodes v ns
termination_by structural k => k
def quietNodes (v : Visitor) : List Node → Bool
  | [] => true
  | n :: r => quiet v n && quietNodes v r
termination_by structural ns => ns
end

mutual
theorem uidsLt_mono {c c' : Nat} (h : c ≤ c') : ∀ n, uidsLt c n = true → uidsLt c' n = true
  | .mk hd ks, hu => by
    simp only [uidsLt, Bool.and_eq_true, decide_eq_true_eq] at hu ⊢
    exact ⟨by omega, uidsLtKids_mono h ks hu.2⟩
termination_by structural n => n
theorem uidsLtKids_mono {c c' : Nat} (h : c ≤ c') : ∀ ks, uidsLtKids c ks = true → uidsLtKids c' ks = true
  | [], _ => by simp [uidsLtKids]
  | k :: r, hu => by
    simp only [uidsLtKids, Bool.and_eq_true] at hu ⊢
    exact ⟨uidsLtKid_mono h k hu.1, uidsLtKids_mono h r hu.2⟩
termination_by structural ks => ks
theorem uidsLtKid_mono {c c' : Nat} (h : c ≤ c') : ∀ k, uidsLtKid c k = true → uidsLtKid c' k = true
  | .mk _ _ ns, hu => by
    simp only [uidsLtKid] at hu ⊢
    exact uidsLtNodes_mono h ns hu
termination_by structural k => k
theorem uidsLtNodes_mono {c c' : Nat} (h : c ≤ c') : ∀ ns, uidsLtNodes c ns = true → uidsLtNodes c' ns = true
  | [], _ => by simp [uidsLtNodes]
  | n :: r, hu => by
    simp only [uidsLtNodes, Bool.and_eq_true] at hu ⊢
    exact ⟨uidsLt_mono h n hu.1, uidsLtNodes_mono h r hu.2⟩
termination_by structural ns => ns
end

theorem setProp_uid {n : Node} {p : PropV} {u : Nat} {n' : Node} (h : setProp n p u = some n') :
    n'.uid = u := by
  unfold setProp at h
  split at h
  · simp at h; subst h; simp
  · simp at h

theorem rebuilt_ok {h : Head} {ks : List Kid} {res : Except Err (List Kid × Bool × Nat)}
    {r : Option Node} {c' : Nat} (e : rebuilt h ks res = .ok (r, c')) :
    ∃ ks' chg c1, res = .ok (ks', chg, c1) ∧
      ((chg = true ∧ r = some (.mk { h with uid := c1 } ks') ∧ c' = c1 + 1) ∨
       (chg = false ∧ r = some (.mk h ks) ∧ c' = c1)) := by
  unfold rebuilt at e
  split at e
  · simp at e
  · rename_i ks' chg c1
    refine ⟨ks', chg, c1, rfl, ?_⟩
    cases chg <;> simp at e <;> simp [e]

theorem finishRewrite_ok {p : PropV} {res : VRes} {r : Option Node} {c' : Nat}
    (e : finishRewrite p res = .ok (r, c')) :
    ∃ n1 c1 n2, res = .ok (some n1, c1) ∧ setProp n1 p c1 = some n2 ∧ r = some n2 ∧ c' = c1 + 1 := by
  unfold finishRewrite at e
  split at e
  · simp at e
  · simp at e
  · rename_i n1 c1
    split at e
    · rename_i n2 hs
      simp at e
      exact ⟨n1, c1, n2, rfl, hs, e.1.symm, e.2.symm⟩
    · simp at e

theorem sameObj_fresh {n' n : Node} (h : n.uid < n'.uid) : sameObj (some n') n = false := by
  simp [sameObj]; omega

mutual
theorem core_T (v : Visitor) : ∀ (n : Node) (c : Nat) (r : Option Node) (c' : Nat),
    uidsLt c n = true → T v n c = .ok (r, c') →
    c ≤ c' ∧ sameObj r n = quiet v n ∧ (quiet v n = true → c' = c)
  | .mk h ks, c, r, c', hu, ht => by
    unfold T at ht
    unfold quiet
    simp only [uidsLt, Bool.and_eq_true, decide_eq_true_eq] at hu
    split at ht
    · simp at ht; obtain ⟨rfl, rfl⟩ := ht
      rename_i ha; simp [ha, sameObj]
    · rename_i k ha; simp at ht; obtain ⟨rfl, rfl⟩ := ht
      simp [ha, sameObj]
    · rename_i ha; simp at ht; obtain ⟨rfl, rfl⟩ := ht
      simp [ha, sameObj]
    · simp at ht
    · rename_i ha
      simp only [ha]
      obtain ⟨ks', chg, c1, hk, hcase⟩ := rebuilt_ok ht
      obtain ⟨h1, h2, h3⟩ := core_TKids v ks c ks' chg c1 hu.2 hk
      rcases hcase with ⟨rfl, rfl, rfl⟩ | ⟨rfl, rfl, rfl⟩
      · simp at h2
        refine ⟨by omega, ?_, by simp [h2]⟩
        rw [h2]; apply sameObj_fresh; simp; omega
      · simp at h2
        exact ⟨h1, by simp [sameObj, h2], fun _ => h3 h2⟩
    · rename_i p ha
      simp only [ha]
      obtain ⟨n1, c1', n2, hres, hsp, rfl, rfl⟩ := finishRewrite_ok ht
      obtain ⟨ks', chg, c1, hk, hcase⟩ := rebuilt_ok hres
      obtain ⟨h1, _, _⟩ := core_TKids v ks c ks' chg c1 hu.2 hk
      have hu2 := setProp_uid hsp
      refine ⟨?_, ?_, by simp⟩
      · rcases hcase with ⟨_, _, rfl⟩ | ⟨_, _, rfl⟩ <;> omega
      · apply sameObj_fresh; simp [hu2]
        rcases hcase with ⟨_, _, rfl⟩ | ⟨_, _, rfl⟩ <;> omega
termination_by structural n => n
theorem core_TKids (v : Visitor) : ∀ (ks : List Kid) (c : Nat) (ks' : List Kid) (chg : Bool) (c' : Nat),
    uidsLtKids c ks = true → TKids v ks c = .ok (ks', chg, c') →
    c ≤ c' ∧ chg = !quietKids v ks ∧ (quietKids v ks = true → c' = c)
  | [], c, ks', chg, c', _, ht => by
    simp [TKids] at ht; simp [quietKids, ht]
  | k :: r, c, ks', chg, c', hu, ht => by
    simp only [uidsLtKids, Bool.and_eq_true] at hu
    unfold TKids at ht
    split at ht
    · simp at ht
    · rename_i k' chg1 c1 hk
      obtain ⟨a1, a2, a3⟩ := core_TKid v k c k' chg1 c1 hu.1 hk
      split at ht
      · simp at ht
      · rename_i r' chg2 c2 hr
        have hu' : uidsLtKids c1 r = true := uidsLtKids_mono a1 r hu.2
        obtain ⟨b1, b2, b3⟩ := core_TKids v r c1 r' chg2 c2 hu' hr
        simp at ht; obtain ⟨_, rfl, rfl⟩ := ht
        simp only [quietKids]
        refine ⟨by omega, by simp [a2, b2], ?_⟩
        intro hq; simp at hq
        have := a3 hq.1; subst this
        exact b3 hq.2
termination_by structural ks => ks
theorem core_TKid (v : Visitor) : ∀ (k : Kid) (c : Nat) (k' : Kid) (chg : Bool) (c' : Nat),
    uidsLtKid c k = true → TKid v k c = .ok (k', chg, c') →
    c ≤ c' ∧ chg = !quietKid v k ∧ (quietKid v k = true → c' = c)
  | .mk name coll ns, c, k', chg, c', hu, ht => by
    simp only [uidsLtKid] at hu
    unfold TKid at ht
    split at ht
    · simp at ht
    · rename_i out chg1 c1 hn
      simp at ht; obtain ⟨_, rfl, rfl⟩ := ht
      simpa [quietKid] using core_TNodes v ns c out chg1 c1 hu hn
termination_by structural k => k
theorem core_TNodes (v : Visitor) : ∀ (ns : List Node) (c : Nat) (out : List Node) (chg : Bool) (c' : Nat),
    uidsLtNodes c ns = true → TNodes v ns c = .ok (out, chg, c') →
    c ≤ c' ∧ chg = !quietNodes v ns ∧ (quietNodes v ns = true → c' = c)
  | [], c, out, chg, c', _, ht => by
    simp [TNodes] at ht; simp [quietNodes, ht]
  | x :: r, c, out, chg, c', hu, ht => by
    simp only [uidsLtNodes, Bool.and_eq_true] at hu
    unfold TNodes at ht
    split at ht
    · simp at ht
    · rename_i rx c1 hx
      obtain ⟨a1, a2, a3⟩ := core_T v x c rx c1 hu.1 hx
      split at ht
      · simp at ht
      · rename_i out' chg2 c2 hr
        have hu' : uidsLtNodes c1 r = true := uidsLtNodes_mono a1 r hu.2
        obtain ⟨b1, b2, b3⟩ := core_TNodes v r c1 out' chg2 c2 hu' hr
        simp at ht; obtain ⟨_, rfl, rfl⟩ := ht
        simp only [quietNodes]
        refine ⟨by omega, by simp [a2, b2], ?_⟩
        intro hq; simp at hq
        have := a3 hq.1; subst this
        exact b3 hq.2
termination_by structural ns => ns
end

/-! ### identity clauses -/

def childrenOf (n : Node) : List Node := n.kids.flatMap Kid.nodes

/-- `Below v a d`: `d` is visited strictly below `a`, every node on the way (from `a` to the parent of
`d`) being dispatched to `generic_visit` -/
inductive Below (v : Visitor) : Node → Node → Prop where
  | child {a x : Node} : v.action a.hd = .generic → x ∈ childrenOf a → Below v a x
  | trans {a x d : Node} : v.action a.hd = .generic → x ∈ childrenOf a → Below v x d → Below v a d

theorem quietNodes_mem (v : Visitor) (ns : List Node) (h : quietNodes v ns = true) :
    ∀ x ∈ ns, quiet v x = true := by
  induction ns with
  | nil => simp
  | cons n r ih =>
    simp only [quietNodes, Bool.and_eq_true] at h
    intro x hx; simp at hx; rcases hx with rfl | hx
    · exact h.1
    · exact ih h.2 x hx

theorem quietKids_mem (v : Visitor) (ks : List Kid) (h : quietKids v ks = true) :
    ∀ x ∈ ks.flatMap Kid.nodes, quiet v x = true := by
  induction ks with
  | nil => simp
  | cons k r ih =>
    simp only [quietKids, Bool.and_eq_true] at h
    intro x hx; simp only [List.flatMap_cons, List.mem_append] at hx
    rcases hx with hx | hx
    · cases k with
      | mk name coll ns => exact quietNodes_mem v ns (by simpa [quietKid] using h.1) x hx
    · exact ih h.2 x hx

theorem quiet_child (v : Visitor) (a x : Node) (ha : v.action a.hd = .generic) (hx : x ∈ childrenOf a)
    (hq : quiet v a = true) : quiet v x = true := by
  cases a with
  | mk h ks =>
    simp only [Node.hd_mk] at ha
    unfold quiet at hq; simp only [ha] at hq
    exact quietKids_mem v ks hq x hx

theorem below_not_quiet (v : Visitor) (a d : Node) (hb : Below v a d) (hd : quiet v d = false) :
    quiet v a = false := by
  induction hb with
  | child ha hx =>
    cases hq : quiet v _ with
    | false => rfl
    | true => rw [quiet_child v _ _ ha hx hq] at hd; cases hd
  | trans ha hx _ ih =>
    cases hq : quiet v _ with
    | false => rfl
    | true => rw [quiet_child v _ _ ha hx hq] at ih; exact absurd (ih hd) (by simp)

/-- **a node dispatched to `generic_visit` is returned either as the very same object (and then
nothing was created at all) or as a NEW object** (identity not used before the call) of the same
class, origin and properties. -/
theorem generic_result_same_or_new (v : Visitor) (h : Head) (ks : List Kid) (c c' : Nat)
    (r : Option Node) (ha : v.action h = .generic) (hu : uidsLt c (.mk h ks) = true)
    (ht : T v (.mk h ks) c = .ok (r, c')) :
    (r = some (.mk h ks) ∧ c' = c ∧ quiet v (.mk h ks) = true) ∨
    (∃ ks' u, r = some (.mk { h with uid := u } ks') ∧ c ≤ u ∧ u < c' ∧ quiet v (.mk h ks) = false) := by
  obtain ⟨h1, h2, h3⟩ := core_T v _ c r c' hu ht
  unfold T at ht; simp only [ha] at ht
  obtain ⟨ks', chg, c1, hk, hcase⟩ := rebuilt_ok ht
  simp only [uidsLt, Bool.and_eq_true, decide_eq_true_eq] at hu
  obtain ⟨k1, _, _⟩ := core_TKids v ks c ks' chg c1 hu.2 hk
  rcases hcase with ⟨rfl, rfl, rfl⟩ | ⟨rfl, rfl, rfl⟩
  · right
    refine ⟨ks', c1, rfl, k1, by omega, ?_⟩
    rw [← h2]; apply sameObj_fresh; simp; omega
  · left
    have : quiet v (.mk h ks) = true := by rw [← h2]; simp [sameObj]
    exact ⟨rfl, h3 this, this⟩

/-- **every subtree in which nothing changed is returned as the very same object**: if the visit of
`n` fires only `generic` / `keep` rules (or rules that return the node they are given), the result
is `n` itself and no object is created. -/
theorem quiet_same (v : Visitor) (n : Node) (c c' : Nat) (r : Option Node)
    (hu : uidsLt c n = true) (ht : T v n c = .ok (r, c')) :
    (sameObj r n = true ↔ quiet v n = true) ∧ (quiet v n = true → c' = c) := by
  obtain ⟨_, h2, h3⟩ := core_T v n c r c' hu ht
  exact ⟨by rw [h2], h3⟩

/-- **every ancestor of a change is a new node**: if `d` is visited below `a` and the visit of `d`
does not return `d` itself (`quiet v d = false`: a remove / rewrite / replace-by-other rule fires
at or below `d`), then the result for `a` is a new object. -/
theorem changed_ancestors_new (v : Visitor) (a d : Node) (c c' : Nat) (r : Option Node)
    (hu : uidsLt c a = true) (hb : Below v a d) (hd : quiet v d = false)
    (ht : T v a c = .ok (r, c')) :
    ∃ a', r = some a' ∧ c ≤ a'.uid ∧ a'.uid < c' ∧ a'.cls = a.cls ∧ a'.uid ≠ a.uid := by
  have hq := below_not_quiet v a d hb hd
  have ha : v.action a.hd = .generic := by cases hb <;> assumption
  cases a with
  | mk h ks =>
    simp only [Node.hd_mk] at ha
    rcases generic_result_same_or_new v h ks c c' r ha hu ht with ⟨_, _, hq'⟩ | ⟨ks', u, rfl, h1, h2, _⟩
    · rw [hq] at hq'; cases hq'
    · simp only [uidsLt, Bool.and_eq_true, decide_eq_true_eq] at hu
      exact ⟨_, rfl, by simpa using h1, by simpa using h2, rfl, by simp; omega⟩

/-! ### unchanged subtrees (syntactic form) -/

mutual
/-- no rule other than `generic` (or `keep`) fires in the subtree -/
def still (v : Visitor) : Node → Bool
  | .mk h ks => match v.action h with
    | .keep => true
    | .generic => stillKids v ks
    | _ => false
termination_by structural n => n
def stillKids (v : Visitor) : List Kid → Bool
  | [] => true
  | k :: r => stillKid v k && stillKids v r
termination_by structural ks => ks
def stillKid (v : Visitor) : Kid → Bool
  | .mk _ _ ns => stillNodes v ns
termination_by structural k => k
def stillNodes (v : Visitor) : List Node → Bool
  | [] => true
  | n :: r => still v n && stillNodes v r
termination_by structural ns => ns
end

mutual
/-- **unchanged_identity**: a subtree in which no rule other than generic/keep fires is returned as
the very same object — the same value, in particular the same `uid` — and no object is created.
No hypothesis on identities is needed. -/
theorem unchanged_identity (v : Visitor) (c : Nat) :
    ∀ n : Node, still v n = true → T v n c = .ok (some n, c)
  | .mk h ks, hs => by
    unfold still at hs
    unfold T
    split at hs
    · rename_i ha; simp [ha]
    · rename_i ha; simp [ha, rebuilt, still_TKids v c ks hs]
    · simp at hs
termination_by structural n => n
theorem still_TKids (v : Visitor) (c : Nat) :
    ∀ ks : List Kid, stillKids v ks = true → TKids v ks c = .ok (ks, false, c)
  | [], _ => by simp [TKids]
  | k :: r, hs => by
    simp [stillKids] at hs
    simp [TKids, still_TKid v c k hs.1, still_TKids v c r hs.2]
termination_by structural ks => ks
theorem still_TKid (v : Visitor) (c : Nat) :
    ∀ k : Kid, stillKid v k = true → TKid v k c = .ok (k, false, c)
  | .mk name coll ns, hs => by
    simp [stillKid] at hs
    simp [TKid, still_TNodes v c ns hs]
termination_by structural k => k
theorem still_TNodes (v : Visitor) (c : Nat) :
    ∀ ns : List Node, stillNodes v ns = true → TNodes v ns c = .ok (ns, false, c)
  | [], _ => by simp [TNodes]
  | n :: r, hs => by
    simp [stillNodes] at hs
    simp [TNodes, unchanged_identity v c n hs.1, still_TNodes v c r hs.2, sameObj]
termination_by structural ns => ns
end

/-! ### removals -/

/-- the results of visiting the children of one field, left to right, with the counter threaded -/
inductive Visits (v : Visitor) : List Node → Nat → List (Option Node) → Nat → Prop where
  | nil (c : Nat) : Visits v [] c [] c
  | cons {x : Node} {r : List Node} {c c1 c2 : Nat} {rx : Option Node} {rs : List (Option Node)} :
      T v x c = .ok (rx, c1) → Visits v r c1 rs c2 → Visits v (x :: r) c (rx :: rs) c2

/-- is some result not the very same object as the child it was computed from -/
def anyChanged : List Node → List (Option Node) → Bool
  | x :: r, rx :: rs => !(sameObj rx x) || anyChanged r rs
  | _, _ => false

/-- **removed tuple elements are dropped, the others keep their order** and the field counts as
changed iff some element's result is not the element itself (in particular when one is removed) -/
theorem removed_dropped_in_order (v : Visitor) (ns : List Node) (c : Nat) (out : List Node)
    (chg : Bool) (c' : Nat) (ht : TNodes v ns c = .ok (out, chg, c')) :
    ∃ rs, Visits v ns c rs c' ∧ rs.length = ns.length ∧ out = rs.filterMap id ∧
      chg = anyChanged ns rs := by
  induction ns generalizing c out chg c' with
  | nil =>
    simp [TNodes] at ht
    exact ⟨[], by rw [← ht.2.2]; exact .nil c, rfl, by simp [ht.1], by simp [anyChanged, ht.2.1]⟩
  | cons x r ih =>
    unfold TNodes at ht
    split at ht
    · simp at ht
    · rename_i rx c1 hx
      split at ht
      · simp at ht
      · rename_i out' chg' c2 hr
        simp at ht; obtain ⟨rfl, rfl, rfl⟩ := ht
        obtain ⟨rs, hv, hl, ho, hc⟩ := ih c1 out' chg' c2 hr
        refine ⟨rx :: rs, .cons hx hv, by simp [hl], ?_, by simp [anyChanged, hc]⟩
        cases rx <;> simp [ho]

/-- a removed element makes the field changed -/
theorem anyChanged_of_removed (ns : List Node) (rs : List (Option Node)) (hl : rs.length = ns.length)
    (h : none ∈ rs) : anyChanged ns rs = true := by
  induction ns generalizing rs with
  | nil => cases rs <;> simp_all
  | cons x r ih =>
    cases rs with
    | nil => simp at hl
    | cons rx rs =>
      simp at h hl
      rcases h with rfl | h
      · simp [anyChanged, sameObj]
      · simp [anyChanged, ih rs hl h]

/-- **a removed single child becomes `None`** (the field is empty in the new node) -/
theorem removed_single_none (v : Visitor) (f : Str) (x : Node) (c c1 : Nat)
    (hx : T v x c = .ok (none, c1)) :
    TKid v (.mk f false [x]) c = .ok (.mk f false [], true, c1) := by
  simp [TKid, TNodes, hx, sameObj]

/-- **a field none of whose children changed keeps its old value** -/
theorem unchanged_field_kept (v : Visitor) (k k' : Kid) (c c' : Nat)
    (ht : TKid v k c = .ok (k', false, c')) : k' = k := by
  cases k with
  | mk name coll ns =>
    unfold TKid at ht
    split at ht
    · simp at ht
    · rename_i out chg c1 _
      simp at ht
      obtain ⟨h1, h2, _⟩ := ht
      subst h2; simpa using h1.symm

/-! ### the input is untouched: no old identity ever carries new content -/

mutual
def subs : Node → List Node
  | .mk h ks => .mk h ks :: subsKids ks
termination_by structural n => n
def subsKids : List Kid → List Node
  | [] => []
  | k :: r => subsKid k ++ subsKids r
termination_by structural ks => ks
def subsKid : Kid → List Node
  | .mk _ _ ns => subsNodes ns
termination_by structural k => k
def subsNodes : List Node → List Node
  | [] => []
  | n :: r => subs n ++ subsNodes r
termination_by structural ns => ns
end

/-- `m` is a sub-node of a node some rule returns as a replacement -/
def Repl (v : Visitor) (m : Node) : Prop := ∃ h k, v.action h = .replaceBy k ∧ m ∈ subs k

/-- where a node of the output comes from: created by the call, or a node *value* of the input,
or of a replacement node -/
def Origin (v : Visitor) (c c' : Nat) (olds : List Node) (m : Node) : Prop :=
  (c ≤ m.uid ∧ m.uid < c') ∨ m ∈ olds ∨ Repl v m

theorem Origin.widen {v : Visitor} {c c' d d' : Nat} {olds olds' : List Node} {m : Node}
    (h : Origin v c c' olds m) (h1 : d ≤ c) (h2 : c' ≤ d') (h3 : ∀ x ∈ olds, x ∈ olds') :
    Origin v d d' olds' m := by
  rcases h with ⟨a, b⟩ | h | h
  · exact .inl ⟨by omega, by omega⟩
  · exact .inr (.inl (h3 _ h))
  · exact .inr (.inr h)

theorem self_mem_subs (n : Node) : n ∈ subs n := by
  cases n; simp [subs]

theorem setProp_subs {n : Node} {p : PropV} {u : Nat} {n' : Node} (h : setProp n p u = some n') :
    ∀ m ∈ subs n', m = n' ∨ m ∈ subsKids n.kids := by
  unfold setProp at h
  split at h
  · simp at h; subst h
    intro m hm
    simp only [subs, List.mem_cons] at hm
    exact hm
  · simp at h

mutual
theorem frame_T (v : Visitor) : ∀ (n : Node) (c : Nat) (r : Option Node) (c' : Nat),
    T v n c = .ok (r, c') →
    c ≤ c' ∧ ∀ n', r = some n' → ∀ m ∈ subs n', Origin v c c' (subs n) m
  | .mk h ks, c, r, c', ht => by
    unfold T at ht
    split at ht
    · simp at ht; obtain ⟨rfl, rfl⟩ := ht
      exact ⟨Nat.le_refl _, fun n' hn m hm => by simp at hn; subst hn; exact .inr (.inl hm)⟩
    · rename_i k ha
      simp at ht; obtain ⟨rfl, rfl⟩ := ht
      exact ⟨Nat.le_refl _, fun n' hn m hm => by
        simp at hn; subst hn; exact .inr (.inr ⟨h, _, ha, hm⟩)⟩
    · simp at ht; obtain ⟨rfl, rfl⟩ := ht
      exact ⟨Nat.le_refl _, fun n' hn => by simp at hn⟩
    · simp at ht
    · obtain ⟨ks', chg, c1, hk, hcase⟩ := rebuilt_ok ht
      obtain ⟨h1, h2⟩ := frame_TKids v ks c ks' chg c1 hk
      rcases hcase with ⟨rfl, rfl, rfl⟩ | ⟨rfl, rfl, rfl⟩
      · refine ⟨by omega, fun n' hn m hm => ?_⟩
        simp at hn; subst hn
        simp only [subs, List.mem_cons] at hm
        rcases hm with rfl | hm
        · exact .inl ⟨by simpa using h1, by simp⟩
        · exact (h2 m hm).widen (Nat.le_refl _) (by omega) (fun x hx => by simp [subs, hx])
      · exact ⟨h1, fun n' hn m hm => by simp at hn; subst hn; exact .inr (.inl hm)⟩
    · rename_i p ha
      obtain ⟨n1, c1', n2, hres, hsp, rfl, rfl⟩ := finishRewrite_ok ht
      obtain ⟨ks', chg, c1, hk, hcase⟩ := rebuilt_ok hres
      obtain ⟨h1, h2⟩ := frame_TKids v ks c ks' chg c1 hk
      have hu2 := setProp_uid hsp
      have hs2 := setProp_subs hsp
      rcases hcase with ⟨rfl, hn1, rfl⟩ | ⟨rfl, hn1, rfl⟩
      · refine ⟨by omega, fun n' hn m hm => ?_⟩
        simp at hn; subst hn; simp at hn1; subst hn1
        rcases hs2 m hm with rfl | hm'
        · exact .inl ⟨by omega, by omega⟩
        · exact (h2 m hm').widen (Nat.le_refl _) (by omega) (fun x hx => by simp [subs, hx])
      · refine ⟨by omega, fun n' hn m hm => ?_⟩
        simp at hn; subst hn; simp at hn1; subst hn1
        rcases hs2 m hm with rfl | hm'
        · exact .inl ⟨by omega, by omega⟩
        · exact .inr (.inl (by simp [subs]; exact .inr hm'))
termination_by structural n => n
theorem frame_TKids (v : Visitor) : ∀ (ks : List Kid) (c : Nat) (ks' : List Kid) (chg : Bool) (c' : Nat),
    TKids v ks c = .ok (ks', chg, c') →
    c ≤ c' ∧ ∀ m ∈ subsKids ks', Origin v c c' (subsKids ks) m
  | [], c, ks', chg, c', ht => by
    simp [TKids] at ht; obtain ⟨rfl, _, rfl⟩ := ht
    exact ⟨Nat.le_refl _, by simp [subsKids]⟩
  | k :: r, c, ks', chg, c', ht => by
    unfold TKids at ht
    split at ht
    · simp at ht
    · rename_i k' chg1 c1 hk
      obtain ⟨a1, a2⟩ := frame_TKid v k c k' chg1 c1 hk
      split at ht
      · simp at ht
      · rename_i r' chg2 c2 hr
        obtain ⟨b1, b2⟩ := frame_TKids v r c1 r' chg2 c2 hr
        simp at ht; obtain ⟨rfl, _, rfl⟩ := ht
        refine ⟨by omega, fun m hm => ?_⟩
        simp only [subsKids, List.mem_append] at hm
        rcases hm with hm | hm
        · exact (a2 m hm).widen (Nat.le_refl _) b1 (fun x hx => by simp [subsKids, hx])
        · exact (b2 m hm).widen a1 (Nat.le_refl _) (fun x hx => by simp [subsKids, hx])
termination_by structural ks => ks
theorem frame_TKid (v : Visitor) : ∀ (k : Kid) (c : Nat) (k' : Kid) (chg : Bool) (c' : Nat),
    TKid v k c = .ok (k', chg, c') →
    c ≤ c' ∧ ∀ m ∈ subsKid k', Origin v c c' (subsKid k) m
  | .mk name coll ns, c, k', chg, c', ht => by
    unfold TKid at ht
    split at ht
    · simp at ht
    · rename_i out chg1 c1 hn
      obtain ⟨a1, a2⟩ := frame_TNodes v ns c out chg1 c1 hn
      simp at ht; obtain ⟨rfl, _, rfl⟩ := ht
      refine ⟨a1, fun m hm => ?_⟩
      cases chg1
      · simp [subsKid] at hm ⊢; exact .inr (.inl hm)
      · simp [subsKid] at hm ⊢; exact a2 m hm
termination_by structural k => k
theorem frame_TNodes (v : Visitor) : ∀ (ns : List Node) (c : Nat) (out : List Node) (chg : Bool) (c' : Nat),
    TNodes v ns c = .ok (out, chg, c') →
    c ≤ c' ∧ ∀ m ∈ subsNodes out, Origin v c c' (subsNodes ns) m
  | [], c, out, chg, c', ht => by
    simp [TNodes] at ht; obtain ⟨rfl, _, rfl⟩ := ht
    exact ⟨Nat.le_refl _, by simp [subsNodes]⟩
  | x :: r, c, out, chg, c', ht => by
    unfold TNodes at ht
    split at ht
    · simp at ht
    · rename_i rx c1 hx
      obtain ⟨a1, a2⟩ := frame_T v x c rx c1 hx
      split at ht
      · simp at ht
      · rename_i out' chg2 c2 hr
        obtain ⟨b1, b2⟩ := frame_TNodes v r c1 out' chg2 c2 hr
        simp at ht; obtain ⟨rfl, _, rfl⟩ := ht
        refine ⟨by omega, fun m hm => ?_⟩
        cases rx with
        | none =>
          simp at hm
          exact (b2 m hm).widen a1 (Nat.le_refl _) (fun x hx => by simp [subsNodes, hx])
        | some y =>
          simp [subsNodes] at hm
          rcases hm with hm | hm
          · exact (a2 y rfl m hm).widen (Nat.le_refl _) b1 (fun x hx => by simp [subsNodes, hx])
          · exact (b2 m hm).widen a1 (Nat.le_refl _) (fun x hx => by simp [subsNodes, hx])
termination_by structural ns => ns
end

/-- **input_untouched** (model side): every node of the output is either an object created by this
call (identity in `[c, c')`) or *literally* a node value of the input tree or of a replacement node
returned by a rule.  With fresh `c` (all existing identities `< c`) this says that no existing
identity ever appears with different content: the call only allocates, it never modifies.
(The real-code side — re-reading every field of every input object after the call, also when a
method raised — is done by the harness.) -/
theorem input_untouched (v : Visitor) (n : Node) (c c' : Nat) (n' : Node)
    (ht : T v n c = .ok (some n', c')) :
    ∀ m ∈ subs n', (c ≤ m.uid ∧ m.uid < c') ∨ m ∈ subs n ∨ Repl v m :=
  (frame_T v n c (some n') c' ht).2 n' rfl

/-- counters only grow: identities handed out by one call are never handed out again -/
theorem counter_mono (v : Visitor) (n : Node) (c c' : Nat) (r : Option Node)
    (ht : T v n c = .ok (r, c')) : c ≤ c' :=
  (frame_T v n c r c' ht).1

/-- **an unchanged tree returns itself** — stated for the implementation-shaped model -/
theorem unchanged_tree_returns_itself (v : Visitor) (n : Node) (c : Nat) (hw : wf n = true)
    (hs : still v n = true) : transform v n c = .ok (some n, c) := by
  rw [transform_eq_spec v n c hw]; exact unchanged_identity v c n hs

/-- a visitor without `visit_*` methods sends every node to `generic_visit` -/
theorem no_rule_fires_of_empty_table (strict : Bool) (h : Head) :
    (⟨strict, []⟩ : Visitor).action h = .generic := by
  have : ∀ l : List Str, l.findSome? (⟨strict, []⟩ : Visitor).getattr = none := by
    intro l; induction l <;> simp_all [Visitor.getattr, List.findSome?_cons]
  cases strict
  · simp [Visitor.action, Visitor.method, this]
  · simp [Visitor.action, Visitor.method, Visitor.getattr]

/-! ### non-vacuity: concrete trees and visitors -/
namespace Ex
def sLeaf : Str := ['L','e','a','f']
def sLeaf2 : Str := ['L','e','a','f','2']
def sExpr : Str := ['E','x','p','r']
def sTup : Str := ['T','u','p']
def sOpt : Str := ['O','p','t']
def sAST : Str := ['A','S','T','N','o','d','e']
def sObj : Str := ['o','b','j','e','c','t']
def pV (i : Int) : PropV :=
  { name := ['v'], ty := ['i'], txt := ['0'], canon := .int i, compare := true, init := true }
def hd (u : Nat) (cls : Str) (mro : List Str) (props : List PropV := []) : Head :=
  { uid := u, cls := cls, mro := mro, org := default, props := props, truthy := true }
def leaf (u : Nat) : Node := .mk (hd u sLeaf [sLeaf, sExpr, sAST, sObj] [pV 0]) []
def leaf2 (u : Nat) : Node := .mk (hd u sLeaf2 [sLeaf2, sLeaf, sExpr, sAST, sObj] [pV 0]) []
def tup (u : Nat) (xs : List Node) : Node :=
  .mk (hd u sTup [sTup, sExpr, sAST, sObj]) [.mk ['i','t','e','m','s'] true xs]
def opt (u : Nat) (x : List Node) : Node := .mk (hd u sOpt [sOpt, sExpr, sAST, sObj]) [.mk ['c'] false x]
/-- `Tup#0(items=(Leaf#1, Opt#2(c=Leaf2#3), Leaf#4))` -/
def tree : Node := tup 0 [leaf 1, opt 2 [leaf2 3], leaf 4]
/-- only `visit_Leaf` exists (a base class of `Leaf2`): remove object `u`, otherwise generic -/
def vRemove (u : Nat) (strict : Bool := false) : Visitor :=
  { strict := strict, rules := [(sLeaf, { dflt := .generic, per := [(u, .remove)] })] }
/-- only `visit_Expr`: act on object `u` -/
def vExpr (u : Nat) (a : Act) : Visitor :=
  { strict := false, rules := [(sExpr, { dflt := .generic, per := [(u, a)] })] }
def vRaise : Visitor := { strict := false, rules := [(sLeaf2, { dflt := .raise })] }
def vNoop : Visitor :=
  { strict := false, rules := [(sExpr, { dflt := .generic }), (sObj, { dflt := .remove })] }
def vObject : Visitor := { strict := false, rules := [(sObj, { dflt := .remove })] }

def isRemove : Act → Bool | .remove => true | _ => false
def isGeneric : Act → Bool | .generic => true | _ => false

/-- observable summary of a result: identity of the result, of its children and grandchildren -/
def obs (r : VRes) : Option (Option (Nat × List (Nat × List Nat)) × Nat) :=
  match r with
  | .ok (some n, c) =>
    some (some (n.uid, (childrenOf n).map fun x => (x.uid, (childrenOf x).map Node.uid)), c)
  | .ok (none, c) => some (none, c)
  | .error _ => none

example : wf tree = true := by decide
example : uidsLt 10 tree = true := by decide

-- dispatch: non-strict `Leaf2` → `visit_Leaf` (nearest base), strict → `generic_visit`;
-- a `visit_object` method is never used
example : isRemove ((vRemove 3).action (leaf2 3).hd) = true := by decide
example : isGeneric ((vRemove 3 true).action (leaf2 3).hd) = true := by decide
example : isGeneric (vObject.action (leaf 1).hd) = true := by decide
example : ∃ r, (vRemove 3).method (leaf2 3).hd = some r :=
  ⟨_, (dispatch_nearest (vRemove 3) (leaf2 3).hd rfl _).mpr
        ⟨[sLeaf2], sLeaf, [sExpr, sAST], by decide, rfl, by decide⟩⟩
example : (vRemove 3 true).method (leaf2 3).hd = none :=
  (dispatch_generic _ _).mpr (by decide)
example : vObject.method (leaf 1).hd = none := (dispatch_generic _ _).mpr (by decide)

-- removals at the first / middle / last tuple position: dropped, order kept, parent new (#10)
example : obs (transform (vRemove 1) tree 10) = some (some (10, [(2, [3]), (4, [])]), 11) := by decide
example : obs (transform (vExpr 2 .remove) tree 10) = some (some (10, [(1, []), (4, [])]), 11) := by decide
example : obs (transform (vRemove 4) tree 10) = some (some (10, [(1, []), (2, [3])]), 11) := by decide
-- removal in an optional single field: `Opt#2` is rebuilt as #10 with `c=None`, the root as #11,
-- the untouched siblings #1 and #4 are the same objects
example : obs (transform (vRemove 3) tree 10) = some (some (11, [(1, []), (10, []), (4, [])]), 12) := by decide
-- rewrite of a property deep in the tree: all ancestors new, siblings kept
example : obs (transform (vExpr 3 (.rewriteProp (pV 5))) tree 10) =
    some (some (12, [(1, []), (11, [10]), (4, [])]), 13) := by decide
-- replace by another node / by itself
example : obs (transform (vExpr 1 (.replaceBy (leaf 7))) tree 10) =
    some (some (10, [(7, []), (2, [3]), (4, [])]), 11) := by decide
example : obs (transform (vExpr 1 (.replaceBy (leaf 1))) tree 10) =
    some (some (0, [(1, []), (2, [3]), (4, [])]), 10) := by decide
-- strict: `visit_Leaf` does not apply to `Leaf2#3`: nothing changes
example : obs (transform (vRemove 3 true) tree 10) = some (some (0, [(1, []), (2, [3]), (4, [])]), 10) := by
  decide
-- a raising method
example : obs (transform vRaise tree 10) = none := by decide
-- the root removed
example : obs (transform (vExpr 0 .remove) tree 10) = some (none, 10) := by decide

-- unchanged_identity / unchanged_tree_returns_itself are not vacuous
example : still vNoop tree = true := by decide
example : transform vNoop tree 10 = .ok (some tree, 10) :=
  unchanged_tree_returns_itself vNoop tree 10 (by decide) (by decide)

-- changed_ancestors_new is not vacuous: `Leaf2#3` is below the root through generic dispatch and
-- is removed
example : Below (vRemove 3) tree (leaf2 3) :=
  .trans (x := opt 2 [leaf2 3]) rfl (by simp [childrenOf, tree, tup, Kid.nodes])
    (.child rfl (by simp [childrenOf, opt, Kid.nodes]))
example : quiet (vRemove 3) (leaf2 3) = false := by decide
example : ∃ a', (T (vRemove 3) tree 10).toOption.map (·.1) = some (some a') ∧ 10 ≤ a'.uid := by
  have hb : Below (vRemove 3) tree (leaf2 3) :=
    .trans (x := opt 2 [leaf2 3]) rfl (by simp [childrenOf, tree, tup, Kid.nodes])
      (.child rfl (by simp [childrenOf, opt, Kid.nodes]))
  cases ht : T (vRemove 3) tree 10 with
  | error e =>
    have : obs (T (vRemove 3) tree 10) = some (some (11, [(1, []), (10, []), (4, [])]), 12) := by decide
    rw [ht] at this; simp [obs] at this
  | ok p =>
    obtain ⟨r, c'⟩ := p
    obtain ⟨a', rfl, h1, _⟩ := changed_ancestors_new (vRemove 3) tree (leaf2 3) 10 c' r (by decide) hb
      (by decide) ht
    exact ⟨a', rfl, h1⟩

-- removed_dropped_in_order is not vacuous
example : ((TNodes (vRemove 1) [leaf 1, leaf 4] 10).toOption.map fun r => (r.1.map Node.uid, r.2.1)) =
    some ([4], true) := by decide
-- removed_single_none
example : (T (vRemove 3) (leaf2 3) 10).toOption.map (fun r => (r.1.map Node.uid, r.2)) = some (none, 10) := by
  decide
-- input_untouched: the hypothesis is satisfiable (see the `obs` examples above)
example (n' : Node) (c' : Nat) (h : T (vRemove 1) tree 10 = .ok (some n', c')) :
    ∀ m ∈ subs n', (10 ≤ m.uid ∧ m.uid < c') ∨ m ∈ subs tree ∨ Repl (vRemove 1) m :=
  input_untouched _ _ _ _ _ h
end Ex

end C09
end PyOak
