/- C12, multiple inheritance.

`dataclasses._process_class` collects, for `class C(B₁, …)`, the **resolved** field dicts of the
classes of `C.__mro__[1:]` in reverse order and then `C`'s own annotations, all written into one
dict: in the model that is `resolve (bases.map resolve ++ [own])`, where every base is given by
the levels it was itself built from.  `resolve_replay` shows that writing a base's resolved fields
is the same as *replaying the base's declarations*: so the fields of any class of any hierarchy
(diamonds, marker subclasses, mix-ins without fields) are `resolve` of one flat list of levels —
the own declarations of the classes met while expanding the reversed MRO recursively — which is
what the harness sends (`Hier.expand` in harness/zoo_c12.py), and every theorem about
`ClassDecl.fields` applies unchanged. -/
import PyOak.Props.C12Fields
namespace PyOak
namespace Acc
namespace C12

theorem dictSet_same_name (l : List FDecl) (g f : FDecl) (h : g.name = f.name) :
    dictSet (dictSet l g) f = dictSet l f := by
  induction l with
  | nil => simp [dictSet, h]
  | cons x r ih =>
    simp only [dictSet]
    by_cases hx : x.name = g.name
    · simp [hx, h, dictSet]
    · have hx' : ¬ x.name = f.name := fun e => hx (e.trans h.symm)
      simp [hx, hx', dictSet, ih]

theorem name_mem_dictSet (l : List FDecl) (h : FDecl) (n : Str) (hn : n ∈ l.map FDecl.name) :
    n ∈ (dictSet l h).map FDecl.name := by
  rw [dictSet_names]
  split
  · exact hn
  · exact List.mem_append_left _ hn

/-- an in-place update commutes with any write under another name -/
theorem dictSet_comm (l : List FDecl) (f h : FDecl) (hf : f.name ∈ l.map FDecl.name)
    (hne : h.name ≠ f.name) : dictSet (dictSet l h) f = dictSet (dictSet l f) h := by
  induction l with
  | nil => simp at hf
  | cons x r ih =>
    simp only [dictSet]
    by_cases hxf : x.name = f.name
    · have hxh : ¬ x.name = h.name := fun e => hne (e.symm.trans hxf)
      have hfh : ¬ f.name = h.name := fun e => hne e.symm
      simp [hxf, hfh, dictSet]
    · have hf' : f.name ∈ r.map FDecl.name := by
        simp only [List.map_cons, List.mem_cons] at hf
        rcases hf with e | e
        · exact absurd e.symm hxf
        · exact e
      by_cases hxh : x.name = h.name
      · have hhf : ¬ h.name = f.name := hne
        simp [hxh, hhf, dictSet]
      · simp [hxf, hxh, dictSet, ih hf']

theorem name_mem_foldl (R l : List FDecl) (n : Str) (hn : n ∈ l.map FDecl.name) :
    n ∈ (R.foldl dictSet l).map FDecl.name := by
  induction R generalizing l with
  | nil => exact hn
  | cons x r ih => exact ih _ (name_mem_dictSet l x n hn)

/-- pushing an in-place update through later writes under other names -/
theorem foldl_dictSet_push (R l : List FDecl) (f : FDecl) (hf : f.name ∈ l.map FDecl.name)
    (hR : ∀ x ∈ R, x.name ≠ f.name) :
    dictSet (R.foldl dictSet l) f = R.foldl dictSet (dictSet l f) := by
  induction R generalizing l with
  | nil => rfl
  | cons x r ih =>
    simp only [List.foldl_cons]
    rw [ih (dictSet l x) (name_mem_dictSet l x _ hf) (fun y hy => hR y (by simp [hy]))]
    rw [dictSet_comm l f x hf (hR x (by simp))]

theorem dictSet_split (R : List FDecl) (f : FDecl) (hn : (R.map FDecl.name).Nodup)
    (hf : f.name ∈ R.map FDecl.name) :
    ∃ R1 g R2, R = R1 ++ g :: R2 ∧ g.name = f.name ∧ dictSet R f = R1 ++ f :: R2 ∧
      ∀ x ∈ R2, x.name ≠ f.name := by
  induction R with
  | nil => simp at hf
  | cons x r ih =>
    simp only [List.map_cons, List.nodup_cons, List.mem_map, not_exists, not_and] at hn
    by_cases hx : x.name = f.name
    · refine ⟨[], x, r, rfl, hx, by simp [dictSet, hx], ?_⟩
      intro y hy e
      exact hn.1 y hy (e.trans hx.symm)
    · have hf' : f.name ∈ r.map FDecl.name := by
        simp only [List.map_cons, List.mem_cons] at hf
        rcases hf with e | e
        · exact absurd e.symm hx
        · exact e
      obtain ⟨R1, g, R2, h1, h2, h3, h4⟩ := ih hn.2 hf'
      exact ⟨x :: R1, g, R2, by simp [h1], h2, by simp [dictSet, hx, h3], h4⟩

/-- writing `dictSet R f` into a dict = writing `R`, then `f` -/
theorem foldl_dictSet_dictSet (acc R : List FDecl) (f : FDecl) (hn : (R.map FDecl.name).Nodup) :
    (dictSet R f).foldl dictSet acc = dictSet (R.foldl dictSet acc) f := by
  by_cases hf : f.name ∈ R.map FDecl.name
  · obtain ⟨R1, g, R2, h1, h2, h3, h4⟩ := dictSet_split R f hn hf
    rw [h3, h1]
    simp only [List.foldl_append, List.foldl_cons]
    have hmem : f.name ∈ (dictSet (R1.foldl dictSet acc) g).map FDecl.name := by
      rw [dictSet_names]
      split
      · rename_i h; rw [← h2]; exact h
      · simp [h2]
    rw [foldl_dictSet_push R2 _ f hmem h4, dictSet_same_name _ g f h2]
  · have : dictSet R f = R ++ [f] := by
      clear hn
      induction R with
      | nil => rfl
      | cons x r ih =>
        simp only [List.map_cons, List.mem_cons, not_or] at hf
        have hx : ¬ x.name = f.name := fun e => hf.1 e.symm
        simp [dictSet, hx, ih hf.2]
    rw [this]
    simp

/-- **writing the resolved fields of a class into a dict = replaying its declarations** -/
theorem foldl_resolved (acc ds : List FDecl) :
    (ds.foldl dictSet []).foldl dictSet acc = ds.foldl dictSet acc := by
  have key : ∀ (rev : List FDecl), (rev.reverse.foldl dictSet []).foldl dictSet acc
      = rev.reverse.foldl dictSet acc := by
    intro rev
    induction rev with
    | nil => rfl
    | cons f r ih =>
      simp only [List.reverse_cons, List.foldl_append, List.foldl_cons, List.foldl_nil]
      have hinv : ResInv (r.reverse.foldl dictSet []) ([] ++ r.reverse) :=
        ResInv.foldl (acc := []) (seen := []) ⟨rfl, by simp⟩ r.reverse
      rw [foldl_dictSet_dictSet acc _ f hinv.nodup, ih]
  simpa using key ds.reverse

/-- **`dataclasses` field collection under (multiple) inheritance**: the fields of a class whose
MRO bases (reversed) were built from the level lists `Ls`, with own declarations `own`, are
`resolve` of the flat replay of all those levels followed by `own` -/
theorem resolve_replay (Ls : List (List (List FDecl))) (own : List FDecl) :
    resolve (Ls.map resolve ++ [own]) = resolve (Ls.flatten ++ [own]) := by
  simp only [resolve_eq_foldl, List.flatten_append, List.foldl_append]
  congr 1
  generalize ([] : List FDecl) = acc
  induction Ls generalizing acc with
  | nil => rfl
  | cons L r ih =>
    simp only [List.map_cons, List.flatten_cons, List.foldl_append]
    rw [resolve_eq_foldl, foldl_resolved, ih]
    simp [List.foldl_append]

/-! non-vacuity: the quirk of diamonds with a common parent — `P: x`, `A(P)`, `B(P): x` (override),
`C(A, B)`: reversed MRO is P, B, A and A re-writes P's `x` over B's -/
private def px : FDecl := ⟨['x'], .prop, true, true, false⟩
private def bx : FDecl := ⟨['x'], .prop, false, true, false⟩
private def ay : FDecl := ⟨['y'], .childOne, true, true, false⟩
example : resolve ([[[px]], [[px], [bx]], [[px], [ay]]].map resolve ++ [[]]) = [px, ay] := by decide
example : resolve ([[[px]], [[px], [bx]], [[px], [ay]]].flatten ++ [[]]) = [px, ay] := by decide

end C12
end Acc
end PyOak
