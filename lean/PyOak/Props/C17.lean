/-
C17 — XPath and pattern text is either compiled or rejected with the definition error.

The model's entry points are total functions
  `parseXPath known : Str → Option (List XElem)`            (`none` = ASTXpathDefinitionError)
  `PM.compilePattern K : Str → Except DefErr Matcher`       (`error` = definition error)
so "compiled or rejected, nothing else" and "compiling the same text again yields the same
behaviour" hold of the model by construction (`compile_total`); that the *Python* entry points
let no other exception escape and agree with each other is decided by the correspondence
(harness/props/c17.py), not by a theorem.

Acceptance half, proved here:
 * `accepts_wellformed` — every pattern syntax tree whose class names are node classes, whose
   regexes compile, whose capture names are pairwise distinct and whose variables follow their
   captures is accepted by the interpreter (no `RuntimeError` path, in particular
   `[*] -> c` is accepted: F8);
 * `xpath_accepts_rendering` / `xpath_ws_irrelevant` — every string derived from the xpath grammar
   (steps with optional field, index digits, class; the last step with a class), rendered with
   arbitrary white space after every token, parses to the same element list as the token
   sequence itself: accepted, all digits significant, white space irrelevant.
 * the same text-level theorem for the pattern grammar is in Props/C17Pattern.lean
   (`parse_render`, `pattern_accepts_rendering`, `pattern_ws_irrelevant`).
-/
import PyOak.Model.XPath
import PyOak.Model.PatternParse
import PyOak.Props.C08
namespace PyOak
namespace PM

/-! ### well-formed pattern syntax trees -/

/-- the class names exist and are node classes -/
def ClassesOK (K : CEnv) : ClassSpec → Prop
  | .any => True
  | .names f r => ∀ c ∈ f :: r, K.cls c = .node

/-- a capture name is not among the names captured before -/
def CapFresh (cap : Option Str) (seen : List Str) : Prop := ∀ c, cap = some c → c ∉ seen

/-! `X.WF K x seen`: with the names in `seen` captured before `x` (text order), every class is a
node class, every regex compiles, every capture name is new, every variable was captured before -/
mutual
def Pat.WF (K : CEnv) : Pat → List Str → Prop
  | .mk cls fields, seen => ClassesOK K cls ∧ fields.WF K seen
def Fields.WF (K : CEnv) : Fields → List Str → Prop
  | .nil, _ => True
  | .cons _ spec cap rest, seen =>
    spec.WF K seen ∧ CapFresh cap (spec.caps.reverse ++ seen)
      ∧ rest.WF K (capOpt cap ++ (spec.caps.reverse ++ seen))
def FSpec.WF (K : CEnv) : FSpec → List Str → Prop
  | .any, _ => True
  | .val v, seen => v.WF K seen
  | .seq items tail, seen =>
    items.WF K seen ∧ (match tail with
      | some t => CapFresh t (items.caps.reverse ++ seen)
      | none => True)
def Items.WF (K : CEnv) : Items → List Str → Prop
  | .nil, _ => True
  | .cons v cap rest, seen =>
    v.WF K seen ∧ CapFresh cap (v.caps.reverse ++ seen)
      ∧ rest.WF K (capOpt cap ++ (v.caps.reverse ++ seen))
def PVal.WF (K : CEnv) : PVal → List Str → Prop
  | .tree p, seen => p.WF K seen
  | .var x, seen => x ∈ seen
  | .none, _ => True
  | .re s, _ => K.rxOk s = true
end

end PM
namespace C17
open PM

def dummySem : Sem := ⟨fun _ _ => false, fun _ _ => false, fun _ _ => false, fun _ _ => false⟩

theorem resolveNames_total (K : CEnv) : ∀ l : List Str, (∀ c ∈ l, K.cls c = .node) → resolveNames K l = .ok l
  | [], _ => rfl
  | c :: r, h => by
    have hc := h c (by simp)
    have hr := resolveNames_total K r (fun x hx => h x (by simp [hx]))
    simp [resolveNames, hc, hr]

theorem resolveClasses_total (K : CEnv) (cls : ClassSpec) (h : ClassesOK K cls) :
    ∃ ts, resolveClasses K cls = .ok ts := by
  cases cls with
  | any => exact ⟨_, rfl⟩
  | names f r => exact ⟨_, resolveNames_total K (f :: r) h⟩

theorem applyCap_ok (m : Matcher) (cap : Option Str) (seen : List Str) (hok : SeqOk m) (hf : CapFresh cap seen) :
    ∃ m', applyCap m cap seen = .ok (m', capOpt cap ++ seen) := by
  cases cap with
  | none => exact ⟨m, rfl⟩
  | some c =>
    obtain ⟨m', hset, -⟩ := C08.setName_spec m c hok
    have hc : ¬ c ∈ seen := hf c rfl
    refine ⟨m', ?_⟩
    simp [applyCap, checkCap, hc, hset, capOpt]

theorem finishSeq_ok (ms : Matchers) (tail : Option (Option Str)) (seen : List Str) (hno : NoAny ms)
    (hf : match tail with | some t => CapFresh t seen | none => True) :
    ∃ m seen', finishSeq ms tail seen = .ok (m, seen') := by
  cases tail with
  | none =>
    cases ms with
    | nil => exact ⟨_, _, rfl⟩
    | cons m r => exact ⟨.seq none (.cons m r) none, seen, by simp only [finishSeq, C08.mkSeq_noAny none m r hno]⟩
  | some t =>
    cases t with
    | none => exact ⟨.seq none ms (some none), seen, by simp only [finishSeq, C08.mkSeq_snoc]⟩
    | some c =>
      have hc : ¬ c ∈ seen := hf c rfl
      exact ⟨.seq none ms (some (some c)), c :: seen, by simp [finishSeq, checkCap, hc, C08.mkSeq_snoc]⟩

mutual
theorem pat_accept (K : CEnv) : ∀ (p : Pat) (seen : List Str), p.WF K seen →
    ∃ m seen', compilePat K p seen = .ok (m, seen')
  | .mk cls fields, seen, h => by
    obtain ⟨hcls, hf⟩ := h
    obtain ⟨ts, hts⟩ := resolveClasses_total K cls hcls
    obtain ⟨c, seen', hc⟩ := fields_accept K fields seen hf
    exact ⟨.node none ts c, seen', by simp only [compilePat, hts, hc]⟩
theorem fields_accept (K : CEnv) : ∀ (fs : Fields) (seen : List Str), fs.WF K seen →
    ∃ c seen', compileFields K fs seen = .ok (c, seen')
  | .nil, seen, _ => ⟨_, _, rfl⟩
  | .cons name spec cap rest, seen, h => by
    obtain ⟨hs, hfresh, hrest⟩ := h
    obtain ⟨m, seen1, hm⟩ := fspec_accept K spec seen hs
    have e1 := (C08.fspec_seen K spec seen m seen1 hm).1
    obtain ⟨-, hseq, -⟩ := C08.fspec_ok K dummySem spec seen m seen1 hm
    obtain ⟨m', hm'⟩ := applyCap_ok m cap seen1 hseq (by rw [e1]; exact hfresh)
    obtain ⟨c, seen3, hc⟩ := fields_accept K rest (capOpt cap ++ seen1) (by rw [e1]; exact hrest)
    exact ⟨.cons name m' c, seen3, by simp only [compileFields, hm, hm', hc]⟩
theorem fspec_accept (K : CEnv) : ∀ (spec : FSpec) (seen : List Str), spec.WF K seen →
    ∃ m seen', compileFSpec K spec seen = .ok (m, seen')
  | .any, seen, _ => ⟨_, _, rfl⟩
  | .val pv, seen, h => by
    obtain ⟨m, seen', hm⟩ := val_accept K pv seen h
    exact ⟨m, seen', by simp only [compileFSpec, hm]⟩
  | .seq items tail, seen, h => by
    obtain ⟨hi, ht⟩ := h
    obtain ⟨ms, seen1, hms⟩ := items_accept K items seen hi
    have e1 := (C08.items_seen K items seen ms seen1 hms).1
    obtain ⟨-, hno, -⟩ := C08.items_ok K dummySem items seen ms seen1 hms
    obtain ⟨m, seen', hm⟩ := finishSeq_ok ms tail seen1 hno (by rw [e1]; exact ht)
    exact ⟨m, seen', by simp only [compileFSpec, hms, hm]⟩
theorem items_accept (K : CEnv) : ∀ (items : Items) (seen : List Str), items.WF K seen →
    ∃ ms seen', compileItems K items seen = .ok (ms, seen')
  | .nil, seen, _ => ⟨_, _, rfl⟩
  | .cons pv cap rest, seen, h => by
    obtain ⟨hv, hfresh, hrest⟩ := h
    obtain ⟨m, seen1, hm⟩ := val_accept K pv seen hv
    have e1 := (C08.val_seen K pv seen m seen1 hm).1
    obtain ⟨-, hk, -⟩ := C08.val_ok K dummySem pv seen m seen1 hm
    obtain ⟨m', hm'⟩ := applyCap_ok m cap seen1 (C08.valueKind_seqOk m hk) (by rw [e1]; exact hfresh)
    obtain ⟨ms, seen3, hms⟩ := items_accept K rest (capOpt cap ++ seen1) (by rw [e1]; exact hrest)
    exact ⟨.cons m' ms, seen3, by simp only [compileItems, hm, hm', hms]⟩
theorem val_accept (K : CEnv) : ∀ (pv : PVal) (seen : List Str), pv.WF K seen →
    ∃ m seen', compileVal K pv seen = .ok (m, seen')
  | .tree p, seen, h => by
    obtain ⟨m, seen', hm⟩ := pat_accept K p seen h
    exact ⟨m, seen', by simp only [compileVal, hm]⟩
  | .var x, seen, h => by
    have h : x ∈ seen := h
    exact ⟨.var none x, seen, by simp [compileVal, h]⟩
  | .none, seen, _ => ⟨_, _, rfl⟩
  | .re s, seen, h => by
    have h : K.rxOk s = true := h
    exact ⟨.regex none s, seen, by simp [compileVal, h]⟩
end

/-- **every well-formed pattern is accepted by the interpreter** -/
theorem accepts_wellformed (K : CEnv) (p : Pat) (h : p.WF K []) : ∃ m, compile K p = .ok m := by
  obtain ⟨m, seen', hm⟩ := pat_accept K p [] h
  exact ⟨m, by simp only [compile, hm]⟩

/-! non-vacuity: `(T @i=[*] -> c)` (the F8 pattern), `(T @i=[(L) -> a $a * -> r])` are well-formed -/
example : C08.exP8.WF C08.exK [] := by
  simp [C08.exP8, Pat.WF, Fields.WF, FSpec.WF, Items.WF, ClassesOK, CapFresh, C08.exK, FSpec.caps, Items.caps, capOpt]
example : C08.exP9.WF C08.exK [] := by
  simp [C08.exP9, C08.leafP, Pat.WF, Fields.WF, FSpec.WF, Items.WF, PVal.WF, ClassesOK, CapFresh, C08.exK, FSpec.caps,
    Items.caps, PVal.caps, Pat.caps, Fields.caps, capOpt]
def outcome : Except DefErr Matcher → Nat
  | .ok _ => 0
  | .error .syntax => 1
  | .error (.interp _) => 2
example : outcome (compilePattern C08.exK ['(', 'T', '@', 'i', '=', '[', '*', ']', '-', '>', 'c', ')']) = 0 := by decide
example : outcome (compilePattern C08.exK ['(', ' ', 'T', ' ', '@', 'i', ' ', '=', ' ', '[', ' ', '*', ' ', ']', ' ', '-', '>', ' ', 'c', ' ', ')', ' ']) = 0 := by decide
example : outcome (compilePattern C08.exK ['(', 'T', '@', 'i', '=', '[', '*', ']', '-', '>', 'c', ' ', '@', 'j', '=', '$', 'd', ')']) = 2 := by decide
example : outcome (compilePattern C08.exK ['(', 'T', '@', 'i', '=', '[', '*', ']', '-', '>', 'c']) = 1 := by decide

/-- the model's entry points are total: a text is compiled or rejected, nothing else -/
theorem compile_total (K : CEnv) (known : Str → Bool) (text : Str) :
    ((∃ m, compilePattern K text = .ok m) ∨ (∃ e, compilePattern K text = .error e))
    ∧ ((∃ els, parseXPath known text = some els) ∨ parseXPath known text = none) := by
  constructor
  · cases compilePattern K text with
    | ok m => exact Or.inl ⟨m, rfl⟩
    | error e => exact Or.inr ⟨e, rfl⟩
  · cases parseXPath known text with
    | some els => exact Or.inl ⟨els, rfl⟩
    | none => exact Or.inr rfl


/-! ## the xpath grammar: every rendering of every derivation is accepted -/

/-! ### characters -/
theorem char_eq_iff (c d : Char) : c = d ↔ c.toNat = d.toNat := by
  constructor
  · intro h; rw [h]
  · intro h; exact Char.ext (UInt32.toNat_inj.mp h)
theorem char_le_iff (c d : Char) : c ≤ d ↔ c.toNat ≤ d.toNat := by
  rw [Char.le_def, UInt32.le_iff_toNat_le]; rfl
theorem beq_char (c d : Char) : (c == d) = decide (c.toNat = d.toNat) := by
  by_cases h : c = d
  · subst h; simp
  · have : c.toNat ≠ d.toNat := fun e => h ((char_eq_iff c d).mpr e)
    simp [h, this]

/-- decide facts about the character classes of the lexer by arithmetic on code points -/
macro "char_arith" : tactic => `(tactic| (
  simp only [isNameStart, isNameChar, isLetter, isWS, isDigitC, beq_char, char_le_iff, char_eq_iff, Bool.or_eq_true,
    Bool.and_eq_true, decide_eq_true_eq, ne_eq, Bool.or_eq_false_iff, Bool.and_eq_false_iff, decide_eq_false_iff_not] at *
  simp only [show 'a'.toNat = 97 from rfl, show 'z'.toNat = 122 from rfl, show 'A'.toNat = 65 from rfl,
    show 'Z'.toNat = 90 from rfl, show '_'.toNat = 95 from rfl, show ' '.toNat = 32 from rfl, show '\t'.toNat = 9 from rfl,
    show '\x0c'.toNat = 12 from rfl, show '\r'.toNat = 13 from rfl, show '\n'.toNat = 10 from rfl,
    show '/'.toNat = 47 from rfl, show '@'.toNat = 64 from rfl, show '['.toNat = 91 from rfl, show ']'.toNat = 93 from rfl,
    show '0'.toNat = 48 from rfl, show '9'.toNat = 57 from rfl] at *
  omega))

theorem nameStart_facts (c : Char) (h : isNameStart c = true) :
    isWS c = false ∧ (c == '/') = false ∧ (c == '@') = false ∧ (c == '[') = false ∧ (c == ']') = false
      ∧ isDigitC c = false := by
  refine ⟨?_, ?_, ?_, ?_, ?_, ?_⟩ <;> char_arith
theorem digit_facts (c : Char) (h : isDigitC c = true) :
    isWS c = false ∧ (c == '/') = false ∧ (c == '@') = false ∧ (c == '[') = false ∧ (c == ']') = false := by
  refine ⟨?_, ?_, ?_, ?_, ?_⟩ <;> char_arith
theorem ws_not_name (c : Char) (h : isWS c = true) : isNameChar c = false := by char_arith


/-! ### rendering of a token sequence with white space after every token -/

def tokStr : XTok → Str
  | .slash => ['/']
  | .at => ['@']
  | .lsqb => ['[']
  | .rsqb => [']']
  | .cname s => s
  | .digit c => [c]

def renderToks : List (XTok × Str) → Str
  | [] => []
  | (t, ws) :: r => tokStr t ++ (ws ++ renderToks r)

/-- a CNAME: `[A-Za-z_][A-Za-z0-9_]*` -/
def ValidName (s : Str) : Prop := ∃ c r, s = c :: r ∧ isNameStart c = true ∧ ∀ d ∈ r, isNameChar d = true

def TokOK : XTok → Prop
  | .cname s => ValidName s
  | .digit c => isDigitC c = true
  | _ => True

def startsName : Str → Bool
  | c :: _ => isNameChar c
  | [] => false

/-- the white space strings consist of WS characters, and a name is separated from a following
name or digit by at least one of them (the only place where the grammars need white space) -/
def SpacedOK : List (XTok × Str) → Prop
  | [] => True
  | (t, ws) :: r =>
    TokOK t ∧ (∀ c ∈ ws, isWS c = true)
      ∧ (match t with
         | .cname _ => ws ≠ [] ∨ startsName (renderToks r) = false
         | _ => True)
      ∧ SpacedOK r

theorem xlex_ws : ∀ (ws : Str), (∀ c ∈ ws, isWS c = true) → ∀ (s : Str) (fuel : Nat),
    xlex (fuel + ws.length) (ws ++ s) = xlex fuel s
  | [], _, s, fuel => rfl
  | c :: ws, h, s, fuel => by
    have hc := h c (by simp)
    have ih := xlex_ws ws (fun d hd => h d (by simp [hd])) s fuel
    simp only [List.length_cons, List.cons_append]
    rw [show fuel + (ws.length + 1) = (fuel + ws.length) + 1 from by omega]
    simp only [xlex, hc, if_true]
    exact ih

theorem takeWhile_split (p : Char → Bool) : ∀ (s t : Str), (∀ d ∈ s, p d = true) →
    (match t with | c :: _ => p c = false | [] => True) →
    (s ++ t).takeWhile p = s ∧ (s ++ t).dropWhile p = t
  | [], t, _, ht => by
    cases t with
    | nil => simp
    | cons c r => simp only [List.nil_append]; simp [List.takeWhile, List.dropWhile, ht]
  | d :: s, t, hs, ht => by
    have hd := hs d (by simp)
    obtain ⟨h1, h2⟩ := takeWhile_split p s t (fun x hx => hs x (by simp [hx])) ht
    simp [hd, h1, h2]

theorem xlex_render : ∀ (tws : List (XTok × Str)), SpacedOK tws → ∀ fuel, (renderToks tws).length < fuel →
    xlex fuel (renderToks tws) = some (tws.map (·.1))
  | [], _, fuel, _ => by cases fuel <;> rfl
  | (t, ws) :: r, h, fuel, hf => by
    obtain ⟨htok, hws, hsep, hr⟩ := h
    -- after the token: skip the white space, then the rest by induction
    have after : ∀ f, (ws ++ renderToks r).length < f → xlex f (ws ++ renderToks r) = some (r.map (·.1)) := by
      intro f hlt
      have : f = (f - ws.length) + ws.length := by simp at hlt; omega
      rw [this, xlex_ws ws hws]
      exact xlex_render r hr _ (by simp at hlt; omega)
    cases fuel with
    | zero => simp at hf
    | succ f =>
      cases t with
      | slash =>
        have hlt : (ws ++ renderToks r).length < f := by simp [renderToks, tokStr] at hf ⊢; omega
        simp [renderToks, tokStr, xlex, isWS, after f hlt]
      | «at» =>
        have hlt : (ws ++ renderToks r).length < f := by simp [renderToks, tokStr] at hf ⊢; omega
        simp [renderToks, tokStr, xlex, isWS, after f hlt]
      | lsqb =>
        have hlt : (ws ++ renderToks r).length < f := by simp [renderToks, tokStr] at hf ⊢; omega
        simp [renderToks, tokStr, xlex, isWS, after f hlt]
      | rsqb =>
        have hlt : (ws ++ renderToks r).length < f := by simp [renderToks, tokStr] at hf ⊢; omega
        simp [renderToks, tokStr, xlex, isWS, after f hlt]
      | digit c =>
        have hlt : (ws ++ renderToks r).length < f := by simp [renderToks, tokStr] at hf ⊢; omega
        obtain ⟨h1, h2, h3, h4, h5⟩ := digit_facts c htok
        have hd : isDigitC c = true := htok
        simp [renderToks, tokStr, xlex, h1, h2, h3, h4, h5, hd, after f hlt]
      | cname s =>
        obtain ⟨c, s', hs, hc, hs'⟩ := htok
        subst hs
        obtain ⟨h1, h2, h3, h4, h5, h6⟩ := nameStart_facts c hc
        have hhead : (match ws ++ renderToks r with | d :: _ => isNameChar d = false | [] => True) := by
          cases ws with
          | nil =>
            simp only [List.nil_append]
            rcases hsep with hne | hst
            · exact absurd rfl hne
            · cases hrr : renderToks r with
              | nil => trivial
              | cons d _ => simpa [hrr, startsName] using hst
          | cons w ws' => exact ws_not_name w (hws w (by simp))
        obtain ⟨ht, hd⟩ := takeWhile_split isNameChar s' (ws ++ renderToks r) hs' hhead
        have hlt : (ws ++ renderToks r).length < f := by simp [renderToks, tokStr] at hf ⊢; omega
        simp only [renderToks, tokStr, List.cons_append, xlex, h1, h2, h3, h4, h5, h6, hc, if_true, Bool.false_eq_true, if_false, ht, hd,
          after f hlt]
        simp

/-! ### the xpath grammar as data: steps, their tokens, their meaning -/

/-- `"/" field_spec? index_spec? class_spec?` -/
structure XStep where
  field : Option Str          -- `"@" CNAME`
  idx : Option (List Char)    -- `"[" DIGIT* "]"` (the digits)
  cls : Option Str            -- `CNAME`

def bodyToks (st : XStep) : List XTok :=
  (match st.field with | some f => [.at, .cname f] | none => [])
    ++ ((match st.idx with | some ds => .lsqb :: (ds.map .digit ++ [.rsqb]) | none => [])
    ++ (match st.cls with | some c => [.cname c] | none => []))

def stepToks (st : XStep) : List XTok := .slash :: bodyToks st

def pathToks (p : List XStep) : List XTok := p.flatMap stepToks

/-- all digits are significant; `[]` is "no index" -/
def idxVal (ds : List Char) : Option Nat := if ds.isEmpty then none else some (digitsVal ds)

/-- what the transformer's `element` callback returns for a step -/
def rawOf (st : XStep) : RawEl :=
  match st.field, st.idx, st.cls with
  | none, none, none => none
  | f, i, c => some (f, (i.map idxVal).getD none, c.getD astNodeName)

theorem digits_split (p : XTok → Bool) (hp : ∀ c, p (.digit c) = true) (hr : p .rsqb = false) :
    ∀ (ds : List Char) (more : List XTok),
      (ds.map XTok.digit ++ .rsqb :: more).takeWhile p = ds.map .digit
      ∧ (ds.map XTok.digit ++ .rsqb :: more).dropWhile p = .rsqb :: more
  | [], more => by simp [hr]
  | d :: ds, more => by
    obtain ⟨h1, h2⟩ := digits_split p hp hr ds more
    simp [hp, h1, h2]

theorem digits_filterMap (g : XTok → Option Char) (hg : ∀ c, g (.digit c) = some c) :
    ∀ ds : List Char, (ds.map XTok.digit).filterMap g = ds
  | [] => rfl
  | d :: ds => by simp [hg, digits_filterMap g hg ds]

theorem filterMap_some_id (g : Char → Option Char) (hg : ∀ c, g c = some c) : ∀ ds : List Char, ds.filterMap g = ds
  | [] => rfl
  | d :: ds => by simp [hg, filterMap_some_id g hg ds]

theorem idx_eq (g : Char → Option Char) (hg : ∀ c, g c = some c) (ds : List Char) :
    (if ∀ a, ¬ a ∈ ds then none else some (digitsVal (ds.filterMap g))) = idxVal ds := by
  rw [filterMap_some_id g hg]
  cases ds with
  | nil => simp [idxVal]
  | cons d ds =>
    have : ¬ ∀ a, ¬ a ∈ d :: ds := fun h => h d (by simp)
    rw [if_neg this]
    rfl

theorem parseStepBody_body (known : Str → Bool) (st : XStep) (rest : List XTok)
    (hrest : rest = [] ∨ ∃ r, rest = .slash :: r) (hknown : ∀ c, st.cls = some c → known c = true) :
    parseStepBody known (bodyToks st ++ rest) = some (st.field, st.idx.map idxVal, st.cls, rest) := by
  obtain ⟨fld, idx, cls⟩ := st
  have hk : ∀ c, cls = some c → known c = true := hknown
  cases fld <;> cases idx <;> cases cls <;> rcases hrest with rfl | ⟨r, rfl⟩ <;>
    simp [parseStepBody, bodyToks]
  all_goals first
    | exact hk _ rfl
    | exact idx_eq _ (fun _ => rfl) _
    | exact ⟨hk _ rfl, idx_eq _ (fun _ => rfl) _⟩

theorem pathToks_cons (st : XStep) (p : List XStep) : pathToks (st :: p) = .slash :: (bodyToks st ++ pathToks p) := by
  simp [pathToks, stepToks]

theorem pathToks_shape (p : List XStep) : pathToks p = [] ∨ ∃ r, pathToks p = .slash :: r := by
  cases p with
  | nil => exact Or.inl rfl
  | cons st p => exact Or.inr ⟨_, pathToks_cons st p⟩

/-- a derivation of `xpath: element* self`: at least one step, the last one names a class, every
class named is a node class -/
def PathOK (known : Str → Bool) : List XStep → Prop
  | [] => False
  | [st] => (∃ c, st.cls = some c) ∧ ∀ c, st.cls = some c → known c = true
  | st :: p => (∀ c, st.cls = some c → known c = true) ∧ PathOK known p

theorem parseSteps_path (known : Str → Bool) : ∀ (p : List XStep), PathOK known p → ∀ fuel, p.length < fuel →
    parseSteps known fuel (pathToks p) = some (p.map rawOf)
  | [], h, _, _ => by cases h
  | [st], h, fuel, hf => by
    obtain ⟨⟨c, hc⟩, hk⟩ := h
    cases fuel with
    | zero => simp at hf
    | succ f =>
      have hb := parseStepBody_body known st [] (Or.inl rfl) hk
      simp only [List.append_nil] at hb
      obtain ⟨fld, idx, cls⟩ := st
      simp only at hc
      subst hc
      simp only [pathToks, List.flatMap_cons, List.flatMap_nil, stepToks, List.append_nil, parseSteps, hb]
      cases fld <;> cases idx <;> simp [rawOf]
  | st :: st2 :: p, h, fuel, hf => by
    obtain ⟨hk, hp⟩ := h
    cases fuel with
    | zero => simp at hf
    | succ f =>
      have ih := parseSteps_path known (st2 :: p) hp f (by simp at hf ⊢; omega)
      have hb := parseStepBody_body known st (pathToks (st2 :: p)) (pathToks_shape _) hk
      rw [pathToks_cons]
      simp only [parseSteps, hb]
      rw [pathToks_cons] at ih ⊢
      simp only [ih]
      obtain ⟨fld, idx, cls⟩ := st
      cases fld <;> cases idx <;> cases cls <;> simp [rawOf]

theorem xwalk_some : ∀ (raws : List RawEl) (acc : List XElem), acc ≠ [] → ∃ els, xwalk raws acc = some els
  | [], acc, _ => ⟨_, rfl⟩
  | some (f, i, c) :: r, acc, _ => by
    simp only [xwalk]
    exact xwalk_some r _ (by simp)
  | none :: r, acc, h => by
    cases acc with
    | nil => exact absurd rfl h
    | cons e acc' =>
      simp only [xwalk]
      exact xwalk_some r _ (by simp)

theorem pathToks_length : ∀ p : List XStep, p.length ≤ (pathToks p).length
  | [] => by simp [pathToks]
  | st :: p => by
    have := pathToks_length p
    rw [pathToks_cons]
    simp only [List.length_cons, List.length_append]
    omega

theorem pathOK_last (known : Str → Bool) : ∀ p : List XStep, PathOK known p →
    ∃ init last c, p = init ++ [last] ∧ last.cls = some c
  | [], h => by cases h
  | [st], h => by
    obtain ⟨⟨c, hc⟩, -⟩ := h
    exact ⟨[], st, c, rfl, hc⟩
  | st :: st2 :: p, h => by
    obtain ⟨init, last, c, he, hc⟩ := pathOK_last known (st2 :: p) h.2
    exact ⟨st :: init, last, c, by rw [he]; rfl, hc⟩

theorem rawOf_cls (st : XStep) (c : Str) (h : st.cls = some c) : ∃ f i, rawOf st = some (f, i, c) := by
  obtain ⟨fld, idx, cls⟩ := st
  simp only at h
  subst h
  cases fld <;> cases idx <;> exact ⟨_, _, rfl⟩

/-- **every string of the xpath grammar is accepted, whatever white space follows its tokens**, and
its meaning is that of the token sequence (`xwalk` of the steps: all digits significant, `//` and
relative paths as "anywhere") -/
theorem xpath_accepts_rendering (known : Str → Bool) (path : List XStep) (tws : List (XTok × Str))
    (hp : PathOK known path) (ht : tws.map (·.1) = pathToks path) (hs : SpacedOK tws) :
    ∃ els, parseXPath known (renderToks tws) = some els ∧ xwalk (path.map rawOf).reverse [] = some els := by
  -- the text starts with "/"
  obtain ⟨st, p', hpath⟩ : ∃ st p', path = st :: p' := by
    cases path with
    | nil => cases hp
    | cons st p' => exact ⟨st, p', rfl⟩
  have hstart : ∃ r, renderToks tws = '/' :: r := by
    rw [hpath, pathToks_cons] at ht
    cases tws with
    | nil => simp at ht
    | cons tw r =>
      obtain ⟨t, ws⟩ := tw
      simp only [List.map_cons, List.cons.injEq] at ht
      obtain ⟨ht1, -⟩ := ht
      subst ht1
      exact ⟨_, rfl⟩
  obtain ⟨r, hr⟩ := hstart
  have hlex := xlex_render tws hs ((renderToks tws).length + 1) (by omega)
  have hparse := parseSteps_path known path hp ((pathToks path).length + 1) (by have := pathToks_length path; omega)
  -- the reversed walk succeeds because the last step has a class
  obtain ⟨init, last, c, he, hc⟩ := pathOK_last known path hp
  obtain ⟨f, i, hraw⟩ := rawOf_cls last c hc
  have hrev : (path.map rawOf).reverse = some (f, i, c) :: (init.map rawOf).reverse := by
    rw [he]; simp [hraw]
  obtain ⟨els, hels⟩ : ∃ els, xwalk (path.map rawOf).reverse [] = some els := by
    rw [hrev]
    simp only [xwalk]
    exact xwalk_some _ _ (by simp)
  refine ⟨els, ?_, hels⟩
  simp only [parseXPath, hr]
  rw [← hr, hlex, ht]
  simp only [hparse, hels]

/-- **white space between tokens never changes the meaning** of an xpath -/
theorem xpath_ws_irrelevant (known : Str → Bool) (path : List XStep) (tws tws' : List (XTok × Str))
    (hp : PathOK known path) (ht : tws.map (·.1) = pathToks path) (ht' : tws'.map (·.1) = pathToks path)
    (hs : SpacedOK tws) (hs' : SpacedOK tws') :
    parseXPath known (renderToks tws) = parseXPath known (renderToks tws') := by
  obtain ⟨e1, h1, w1⟩ := xpath_accepts_rendering known path tws hp ht hs
  obtain ⟨e2, h2, w2⟩ := xpath_accepts_rendering known path tws' hp ht' hs'
  rw [h1, h2, ← w1, ← w2]

theorem parseXPath_rel (known : Str → Bool) (text : Str) (h : ∀ r, text ≠ '/' :: r) :
    parseXPath known text = parseXPath known ('/' :: '/' :: text) := by
  cases text with
  | nil => rfl
  | cons c r =>
    have hc : c ≠ '/' := fun e => h r (by rw [e])
    simp only [parseXPath]

/-- **relative paths**: a derivation written without its leading "/" means the same as with "//" in front
(`ASTXpath.__init__`: "relative path is the same as absolute path starting with anywhere") -/
theorem xpath_relative (known : Str → Bool) (path : List XStep) (tws : List (XTok × Str))
    (hp : PathOK known path) (ht : XTok.slash :: tws.map (·.1) = pathToks path) (hs : SpacedOK tws)
    (hrel : ∀ r, renderToks tws ≠ '/' :: r) :
    ∃ els, parseXPath known (renderToks tws) = some els
      ∧ xwalk ((⟨none, none, none⟩ :: path).map rawOf).reverse [] = some els := by
  have hp' : PathOK known (⟨none, none, none⟩ :: path) := by
    cases path with
    | nil => cases hp
    | cons st p => exact ⟨fun c hc => by simp at hc, hp⟩
  have ht' : ((XTok.slash, ([] : Str)) :: (XTok.slash, []) :: tws).map (·.1) = pathToks (⟨none, none, none⟩ :: path) := by
    rw [pathToks_cons, ← ht]
    simp [bodyToks]
  have hs' : SpacedOK ((XTok.slash, ([] : Str)) :: (XTok.slash, []) :: tws) := by
    refine ⟨trivial, ?_, trivial, trivial, ?_, trivial, hs⟩ <;> (intro c hc; simp at hc)
  obtain ⟨els, h1, h2⟩ := xpath_accepts_rendering known _ _ hp' ht' hs'
  refine ⟨els, ?_, h2⟩
  rw [parseXPath_rel known _ hrel]
  simpa [renderToks, tokStr] using h1

/-! non-vacuity: `/ @items [1 2] Leaf // Expr` with assorted white space -/
section Examples
def exKnown : Str → Bool := fun c => c == ['L'] || c == ['E']
def exPath : List XStep := [⟨some ['i'], some ['1', '2'], some ['L']⟩, ⟨none, none, none⟩, ⟨none, none, some ['E']⟩]
def exTws : List (XTok × Str) :=
  [(.slash, [' ']), (.at, []), (.cname ['i'], ['\t']), (.lsqb, []), (.digit '1', [' ']), (.digit '2', []), (.rsqb, []),
   (.cname ['L'], ['\n']), (.slash, []), (.slash, []), (.cname ['E'], [' ', ' '])]
example : PathOK exKnown exPath := by simp [PathOK, exPath, exKnown]
example : SpacedOK exTws := by
  simp [SpacedOK, exTws, TokOK, ValidName, isWS, isNameStart, isLetter, isDigitC, renderToks, tokStr, startsName, isNameChar]
  exact ⟨⟨'i', [], by decide⟩, ⟨'L', [], by decide⟩, ⟨'E', [], by decide⟩⟩
example : exTws.map (·.1) = pathToks exPath := by decide
example : parseXPath exKnown (renderToks exTws) =
    some [⟨['E'], none, none, true⟩, ⟨['L'], some ['i'], some 12, false⟩] := by decide
end Examples

end C17
end PyOak
