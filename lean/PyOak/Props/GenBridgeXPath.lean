/-
Bridge for the bottom-up matcher: the hand-written model `matchUpT` (Model/XPath.lean, with fuel and the KeyError of a
foreign node) agrees with the definition GENERATED from `_match_node_xpath` (src/pyoak/match/xpath.py) wherever it returns:

  matchUpT_eq_gen   matchUpT t fuel n els = .ok b  →  GenK.match_node_xpath isInst (piOf t) (ancOf t) n (els.map toEl) = b
  match_gen_eq_sat  for every node of a tree without repeated objects the generated function, run over the tables of
                    `Tree(root)`, decides the documented semantics `sat` (corollary of C07.matchUpT_eq)
-/
import PyOak.Props.GenBridge
import PyOak.Gen.KernelsXPath
import PyOak.Props.C07Main
namespace PyOak.GenBridge
open PyOak

/-- `tree.get_parent_info(node)` as the generated function receives it (a foreign node: the model raises KeyError,
which this total view does not show; `matchUpT_eq_gen` is stated for runs that return) -/
def piOf (t : TreeT) (n : Node) : Option Node × Option GenK.FieldR × Option Int :=
  match t.getParentInfo n with
  | .ok (some p) => (some p.parent, some ⟨p.edge.field⟩, p.edge.idx.map Int.ofNat)
  | _ => (none, none, none)

/-- `list(tree.get_ancestors(node))` -/
def ancOf (t : TreeT) (n : Node) : List Node :=
  match t.getAncestors n with
  | .ok as => as
  | .error _ => []

theorem foldr_first_ok (g : Node → Except TErr Bool) (h : Node → Bool) :
    ∀ (as : List Node) (b : Bool), (∀ a ∈ as, ∀ b', g a = .ok b' → h a = b') →
      as.foldr (fun a (acc : Except TErr Bool) => match g a with
        | Except.error e => Except.error e
        | Except.ok true => Except.ok true
        | Except.ok false => acc) (Except.ok false) = Except.ok b → as.any h = b := by
  intro as
  induction as with
  | nil => intro b _ hr; simp only [List.foldr_nil, Except.ok.injEq] at hr; simp [← hr]
  | cons a r ih =>
    intro b hgh hr
    simp only [List.foldr_cons] at hr
    cases hga : g a with
    | error e => simp [hga] at hr
    | ok v =>
      have hv := hgh a (by simp) v hga
      cases v with
      | true =>
        simp [hga] at hr
        simp [hv, ← hr]
      | false =>
        simp only [hga] at hr
        have := ih b (fun x hx => hgh x (by simp [hx])) hr
        simp [hv, this]

theorem matchUpT_eq_gen (t : TreeT) : ∀ (els : List XElem) (fuel : Nat) (n : Node) (b : Bool),
    els.length ≤ fuel → matchUpT t fuel n els = .ok b →
    GenK.match_node_xpath Node.isInst (piOf t) (ancOf t) n (els.map toEl) = b := by
  intro els
  induction els with
  | nil =>
    intro fuel n b _ h
    cases fuel <;> simp [matchUpT] at h <;> simp [GenK.match_node_xpath, ← h]
  | cons el tail ih =>
    intro fuel n b hf h
    obtain ⟨f, rfl⟩ : ∃ f, fuel = f + 1 := ⟨fuel - 1, by simp at hf; omega⟩
    have hf' : tail.length ≤ f := by simp at hf; omega
    simp only [matchUpT] at h
    cases hpi : t.getParentInfo n with
    | error e => simp [hpi] at h
    | ok pi =>
      simp only [hpi] at h
      have helem := matchElem_eq_gen n (pi.map (·.parent)) (pi.map (·.edge)) el
      have hinfo : toInfo n (pi.map (·.parent)) (pi.map (·.edge)) =
          { node := n, parent := (piOf t n).1, field := (piOf t n).2.1, findex := (piOf t n).2.2 } := by
        cases pi <;> simp [toInfo, piOf, hpi]
      rw [hinfo] at helem
      simp only [List.map_cons, GenK.match_node_xpath]
      rw [← helem]
      by_cases hm : matchElem n (pi.map (·.edge)) el = true
      · simp only [hm, Bool.not_true] at h ⊢
        cases tail with
        | nil =>
          simp at h
          cases pi <;> simp_all [piOf, toEl]
        | cons t0 ts =>
          simp only [List.map_cons, List.isEmpty_cons] at h ⊢
          cases pi with
          | none => simp at h; simp [piOf, hpi, ← h]
          | some p =>
            simp only at h
            have hp1 : (piOf t n).1 = some p.parent := by simp [piOf, hpi]
            simp only [hp1]
            by_cases ha : el.anywhere = true
            · simp only [ha, if_true] at h
              cases hanc : t.getAncestors n with
              | error e => simp [hanc] at h
              | ok as =>
                simp only [hanc] at h
                have := foldr_first_ok (fun a => matchUpT t f a (t0 :: ts))
                  (fun a => GenK.match_node_xpath Node.isInst (piOf t) (ancOf t) a ((t0 :: ts).map toEl)) as b
                  (fun a _ b' hb' => ih f a b' hf' hb') h
                have hany : (toEl el).anywhere = true := by simp [toEl, ha]
                simp only [hany, if_true, ancOf, hanc]
                rw [List.map_cons] at this
                rw [this]
                cases b <;> rfl
            · have ha' : el.anywhere = false := by simpa using ha
              simp only [ha', Bool.false_eq_true, if_false] at h
              have := ih f p.parent b hf' h
              simpa [toEl, ha'] using this
      · have hm' : matchElem n (pi.map (·.edge)) el = false := by simpa using hm
        simp [hm'] at h ⊢
        exact h

/-- **C07 for the source as it is now**: on a tree without repeated objects, the function generated from
`_match_node_xpath`, run over the tables of `Tree(root)`, decides the documented path semantics `sat` along the chain of
the node -- for every path, with no bound on its length (the fuel of the hand-written model is instantiated large enough) -/
theorem match_gen_eq_sat (root : Node) (h : NoRepeat root) (c : Chain) (n : Node) (oe : Option Edge)
    (els : List XElem) (hc : IsChain root (c ++ [(n, oe)])) :
    GenK.match_node_xpath Node.isInst (piOf (TreeT.build root)) (ancOf (TreeT.build root)) n (els.reverse.map toEl)
      = sat (c ++ [(n, oe)]) els := by
  have hrun := C07.matchUpT_chain root
    (fun c p pe n e hc => C06.parentInfo_chain root h c p pe n e hc)
    (C06.parentInfo_root root)
    (fun c n oe hc => C06.ancestors_chain root h c n oe hc)
    ((c ++ [(n, oe)]).length + els.length) c n oe els.reverse hc (by omega)
  rw [C07.matchUpC_eq_sat] at hrun
  exact matchUpT_eq_gen _ _ _ _ _ (by simp) hrun

end PyOak.GenBridge
