/-
C19, transform visitor: the hypothesis `LocalRun` of `tvisit_fail_before_commit_frame_partial` DERIVED from the
shape of the visitor.  For an attached receiver the visitor works on a detached clone; every primitive step of the
visit of a subtree all of whose nodes were created by the call and are detached is clone-local
(`visitGo_local`), whatever the rule table does (provided the nodes it makes are constructor calls without
children: `RulesOk`, decidable).  Hence

  tvisit_fail_in_visit_frame   `transform` of an attached receiver that is rejected while the clone is being visited
                               (callback raises, removes a required child, builds a node that cannot be built):
                               `Inv Hc s'` and `FrameG s s'`, for ALL states, rule tables and receivers.
-/
import PyOak.Props.C19Transform
import PyOak.Props.C19RejectedBridge   -- + C19Rejected (the invariant survives rejected steps; uniform frame theorem)
namespace PyOak.Legacy.C19T
open PyOak PyOak.Legacy LState PyOak.Legacy.C19

/-- what the visit of one clone subtree does to everything that existed before it: the records stay,
detached nodes stay detached -/
structure Stable (t t' : LState) : Prop where
  size : t.size ≤ t'.size
  obj : ∀ v, v < t.size → t'.obj v = t.obj v
  det : ∀ v, v < t.size → t.detached v = true → t'.detached v = true

theorem Stable.refl (t : LState) : Stable t t := ⟨Nat.le_refl _, fun _ _ => rfl, fun _ _ h => h⟩

theorem Stable.trans {a b c : LState} (h1 : Stable a b) (h2 : Stable b c) : Stable a c :=
  ⟨Nat.le_trans h1.size h2.size,
   fun v hv => (h2.obj v (Nat.lt_of_lt_of_le hv h1.size)).trans (h1.obj v hv),
   fun v hv hd => h2.det v (Nat.lt_of_lt_of_le hv h1.size) (h1.det v hv hd)⟩

/-- same registry, same records below `t.size` -/
theorem stable_of_reg {t t' : LState} (hs : t.size ≤ t'.size) (hr : t'.reg = t.reg)
    (ho : ∀ v, v < t.size → t'.obj v = t.obj v) : Stable t t' := by
  refine ⟨hs, ho, ?_⟩
  intro v hv hd
  unfold LState.detached LState.lookup LState.idOf at hd ⊢
  rw [hr, ho v hv]; exact hd

section
variable (H Hc : Str → Str)

/-- a construction with `create_detached=True` touches nothing but the new record -/
theorem construct_detached_eff {t t' : LState} {sp : NewSpec} {fuel : Nat} {r : Except Err Nat}
    (hd : sp.createDetached = true) (h : construct H Hc fuel t sp = (t', r)) :
    t'.reg = t.reg ∧ t'.size = t.size + 1 ∧ (∀ v, v ≠ t.size → t'.obj v = t.obj v) ∧ ∀ n, r = .ok n → n = t.size := by
  have ha : ∀ v, v ≠ t.size → (t.alloc (newObj sp)).1.obj v = t.obj v := by
    intro v hv; unfold LState.alloc LState.obj; simp [hv]
  unfold construct at h
  simp only at h
  split at h
  · simp only [Prod.mk.injEq] at h; obtain ⟨rfl, rfl⟩ := h
    exact ⟨rfl, rfl, ha, fun n hn => by cases hn⟩
  · split at h
    · simp only [Prod.mk.injEq] at h; obtain ⟨rfl, rfl⟩ := h
      exact ⟨rfl, rfl, ha, fun n hn => by cases hn⟩
    · unfold finishConstruct at h
      rw [hd] at h
      simp only [if_true, Prod.mk.injEq] at h
      obtain ⟨rfl, rfl⟩ := h
      refine ⟨rfl, rfl, ?_, fun n hn => by cases hn; rfl⟩
      intro v hv
      rw [setContentId_obj]
      simp only [hv, if_false]
      rw [modify_obj_ne _ _ _ _ hv]
      exact ha v hv

/-- `replace` on a detached node without parent: nothing but the new record changes -/
theorem replace_detached_stable {t t' : LState} {c : Nat} {ch : Changes} {r : Except Err Nat} {fuel : Nat}
    (hpar : t.parent c = none) (hd : t.detached c = true) (h : replace H Hc fuel t c ch = (t', r)) :
    Stable t t' ∧ ∀ x, r = .ok x → x = t.size ∧ t'.size = t.size + 1 := by
  unfold replace at h
  split at h
  · simp only [Prod.mk.injEq] at h; obtain ⟨rfl, rfl⟩ := h; exact ⟨Stable.refl _, fun x hx => by cases hx⟩
  · simp only [hpar, Option.isSome_none, Bool.false_eq_true, if_false, hd, Bool.not_true] at h
    split at h
    · next s3 e hcs =>
      simp only [Prod.mk.injEq] at h
      obtain ⟨rfl, rfl⟩ := h
      obtain ⟨hr, hs, ho, _⟩ := construct_detached_eff H Hc (by simp) hcs
      exact ⟨stable_of_reg (by omega) hr (fun v hv => ho v (by omega)), fun x hx => by cases hx⟩
    · next s3 n hcs =>
      simp only [if_true, Prod.mk.injEq] at h
      obtain ⟨rfl, rfl⟩ := h
      obtain ⟨hr, hs, ho, hn⟩ := construct_detached_eff H Hc (by simp) hcs
      have hn' := hn n rfl
      refine ⟨stable_of_reg (by rw [modify_size]; omega) (by rw [modify_reg]; exact hr) ?_, ?_⟩
      · intro v hv
        rw [modify_obj_ne _ _ _ _ (by omega)]
        exact ho v (by omega)
      · intro x hx; cases hx; exact ⟨hn', by rw [modify_size]; exact hs⟩

/-- a constructor call without children -/
theorem new_kidless_stable {t t' : LState} {sp : NewSpec} {out : LOut} (hI : Inv Hc t)
    (hk : sp.fields.flatMap (·.kids) = []) (hwf : (newObj sp).wf) (h : step H Hc t (.new sp) = (t', out)) :
    Stable t t' ∧ ∀ x, out = .node x → x = t.size ∧ t'.size = t.size + 1 := by
  unfold step at h
  split at h
  · next hr => simp [LOp.refs, hk] at hr
  · simp only at h
    cases hc : construct H Hc (fuelOf t) t sp with
    | mk t1 r1 =>
      rw [hc] at h
      obtain ⟨_, hN1, hs1, hn1⟩ := construct_newOnly H Hc hI (NewOnly.refl t) (by rw [hk]; intro c hc; cases hc) hwf hc
      have hst : Stable t t1 := by
        refine ⟨hN1.size, hN1.obj, ?_⟩
        intro v hv hd
        rw [detached_eq_true_iff] at hd ⊢
        intro ha
        apply hd
        unfold Att at ha ⊢
        have hid : t1.idOf v = t.idOf v := by unfold LState.idOf; rw [hN1.obj v hv]
        rw [hid] at ha
        rcases hN1.fresh _ _ ha with h1 | h1
        · exact h1
        · omega
      cases r1 with
      | error e =>
        simp only [ofNode, Prod.mk.injEq] at h; obtain ⟨rfl, rfl⟩ := h
        exact ⟨hst, fun x hx => by cases hx⟩
      | ok n =>
        simp only [ofNode, Prod.mk.injEq] at h; obtain ⟨rfl, rfl⟩ := h
        exact ⟨hst, fun x hx => by cases hx; exact ⟨hn1 n rfl, hs1⟩⟩

end

/-! ### the visit of a clone is clone-local -/

/-- the whole subtree of `c` is detached -/
def CloneSub (t : LState) (c : Nat) : Prop := ∀ q, Desc t c q → t.detached q = true

theorem cloneSub_kid {t : LState} {c k : Nat} (h : CloneSub t c) (hk : k ∈ (t.obj c).kidList) : CloneSub t k :=
  fun q hd => h q (Desc.trans_kid hk hd)

section
variable (H Hc : Str → Str)

theorem cloneSub_stable {t t' : LState} (hI : Inv Hc t) (hS : Stable t t') {k : Nat} (hk : k < t.size)
    (h : CloneSub t k) : CloneSub t' k := by
  have key : ∀ q, Desc t' k q → q < t.size ∧ Desc t k q := by
    intro q hd
    induction hd with
    | refl => exact ⟨hk, .refl⟩
    | step _ hkq ih =>
      obtain ⟨h1, h2⟩ := ih
      rw [hS.obj _ h1] at hkq
      exact ⟨hI.closed _ h1 _ hkq, .step h2 hkq⟩
  intro q hd
  obtain ⟨h1, h2⟩ := key q hd
  exact hS.det q h1 (h q h2)

theorem localRun_append {s : LState} : ∀ (a b : List LOp) (t : LState),
    LocalRun H Hc s t (a ++ b) ↔ LocalRun H Hc s t a ∧ LocalRun H Hc s (run H Hc t a) b := by
  intro a
  induction a with
  | nil => intro b t; simp [LocalRun, run]
  | cons op r ih =>
    intro b t
    simp only [List.cons_append, LocalRun, run_cons, ih, and_assoc]

/-- the state after a traced, clone-local piece of work -/
theorem after_local {α : Type} {s t : LState} {r : TOut α} (hI : Inv Hc t) (hN : NewOnly s t) (htr : Tr H Hc t r)
    (hl : LocalRun H Hc s t r.ops) : Inv Hc r.s ∧ NewOnly s r.s := by
  rw [htr.1]; exact localRun_frameG H Hc _ t hI hN hl

/-- what is shown of `self.transform` on a node of a clone -/
def RecOk (s : LState) (rec : LState → Nat → TOut (Option Nat)) : Prop :=
  ∀ t c, Inv Hc t → NewOnly s t → s.size ≤ c → c < t.size → CloneSub t c →
    LocalRun H Hc s t (rec t c).ops ∧ Stable t (rec t c).s ∧
    ∀ x, (rec t c).res = .ok (some x) → s.size ≤ x ∧ x < (rec t c).s.size

theorem tKids_local {s : LState} (rec : LState → Nat → TOut (Option Nat)) (htr : ∀ t c, Tr H Hc t (rec t c))
    (hrec : RecOk H Hc s rec) : ∀ (ks : List Nat) (t : LState) (r : TOut (List Nat × Bool)), Inv Hc t → NewOnly s t →
      (∀ k ∈ ks, s.size ≤ k ∧ k < t.size ∧ CloneSub t k) → tKids rec t ks = r →
      LocalRun H Hc s t r.ops ∧ Stable t r.s ∧
      ∀ ks' ch, r.res = .ok (ks', ch) → (∀ x ∈ ks', s.size ≤ x ∧ x < r.s.size) ∧ ks'.length ≤ ks.length := by
  intro ks
  induction ks with
  | nil =>
    intro t r _ _ _ h
    simp only [tKids] at h; subst h
    refine ⟨trivial, Stable.refl _, ?_⟩
    intro ks' ch hr; cases hr
    exact ⟨fun x hx => (by cases hx), Nat.le_refl _⟩
  | cons c cs ih =>
    intro t r hI hN hks h
    obtain ⟨hc1, hc2, hc3⟩ := hks c (List.mem_cons_self ..)
    obtain ⟨hl1, hs1, hr1⟩ := hrec t c hI hN hc1 hc2 hc3
    have htr1 := htr t c
    obtain ⟨hI1, hN1⟩ := after_local H Hc hI hN htr1 hl1
    unfold tKids at h
    split at h
    · next s1 t1 e heq =>
      subst h; rw [heq] at hl1 hs1
      exact ⟨hl1, hs1, fun ks' ch hr => by cases hr⟩
    · next s1 t1 rr heq =>
      rw [heq] at hl1 hs1 hr1 htr1 hI1 hN1
      simp only at hl1 hs1 hr1 hI1 hN1
      have hks1 : ∀ k ∈ cs, s.size ≤ k ∧ k < s1.size ∧ CloneSub s1 k := by
        intro k hk
        obtain ⟨a, b, c'⟩ := hks k (List.mem_cons_of_mem _ hk)
        exact ⟨a, Nat.lt_of_lt_of_le b hs1.size, cloneSub_stable Hc hI hs1 b c'⟩
      obtain ⟨hl2, hs2, hr2⟩ := ih s1 _ hI1 hN1 hks1 rfl
      have hrun : s1 = run H Hc t t1 := htr1.1
      split at h
      · next s2 t2 e heq2 =>
        subst h; rw [heq2] at hl2 hs2
        refine ⟨(localRun_append H Hc _ _ _).mpr ⟨hl1, by rw [← hrun]; exact hl2⟩, hs1.trans hs2, ?_⟩
        intro ks' ch hr; cases hr
      · next s2 t2 ks2 ch2 heq2 =>
        rw [heq2] at hl2 hs2 hr2
        simp only at hl2 hs2 hr2
        obtain ⟨hx2, hlen2⟩ := hr2 ks2 ch2 rfl
        have hloc : LocalRun H Hc s t (t1 ++ t2) := (localRun_append H Hc _ _ _).mpr ⟨hl1, by rw [← hrun]; exact hl2⟩
        split at h
        · subst h
          refine ⟨hloc, hs1.trans hs2, ?_⟩
          intro ks' ch hr
          simp only [Except.ok.injEq, Prod.mk.injEq] at hr
          obtain ⟨rfl, _⟩ := hr
          exact ⟨hx2, by simp only [List.length_cons]; omega⟩
        · next c' =>
          subst h
          refine ⟨hloc, hs1.trans hs2, ?_⟩
          intro ks' ch hr
          simp only [Except.ok.injEq, Prod.mk.injEq] at hr
          obtain ⟨rfl, _⟩ := hr
          refine ⟨?_, by simp only [List.length_cons]; omega⟩
          intro x hx
          rcases List.mem_cons.mp hx with rfl | hx
          · have := hr1 x rfl
            exact ⟨this.1, Nat.lt_of_lt_of_le this.2 hs2.size⟩
          · exact hx2 x hx

theorem tFields_local {s : LState} (rec : LState → Nat → TOut (Option Nat)) (htr : ∀ t c, Tr H Hc t (rec t c))
    (hrec : RecOk H Hc s rec) : ∀ (fs : List LField) (t : LState) (r : TOut (List (Str × List Nat))), Inv Hc t →
      NewOnly s t → (∀ k ∈ fs.flatMap (·.kids), s.size ≤ k ∧ k < t.size ∧ CloneSub t k) → tFields rec t fs = r →
      LocalRun H Hc s t r.ops ∧ Stable t r.s ∧
      ∀ chs, r.res = .ok chs → ∀ e ∈ chs, (∀ x ∈ e.2, s.size ≤ x ∧ x < r.s.size) ∧
        ∃ f ∈ fs, f.name = e.1 ∧ e.2.length ≤ f.kids.length := by
  intro fs
  induction fs with
  | nil =>
    intro t r _ _ _ h
    simp only [tFields] at h; subst h
    refine ⟨trivial, Stable.refl _, ?_⟩
    intro chs hr; cases hr
    intro e he; cases he
  | cons f fr ih =>
    intro t r hI hN hks h
    have hkf : ∀ k ∈ f.kids, s.size ≤ k ∧ k < t.size ∧ CloneSub t k :=
      fun k hk => hks k (by simp only [List.flatMap_cons]; exact List.mem_append_left _ hk)
    obtain ⟨hl1, hs1, hr1⟩ := tKids_local H Hc rec htr hrec f.kids t _ hI hN hkf rfl
    have htr1 := tKids_tr H Hc rec htr f.kids t
    obtain ⟨hI1, hN1⟩ := after_local H Hc hI hN htr1 hl1
    unfold tFields at h
    split at h
    · next s1 t1 e heq =>
      subst h; rw [heq] at hl1 hs1
      exact ⟨hl1, hs1, fun chs hr => by cases hr⟩
    · next s1 t1 ks ch heq =>
      rw [heq] at hl1 hs1 hr1 htr1 hI1 hN1
      simp only at hl1 hs1 hr1 hI1 hN1
      obtain ⟨hx1, hlen1⟩ := hr1 ks ch rfl
      have hks1 : ∀ k ∈ fr.flatMap (·.kids), s.size ≤ k ∧ k < s1.size ∧ CloneSub s1 k := by
        intro k hk
        obtain ⟨a, b, c'⟩ := hks k (by simp only [List.flatMap_cons]; exact List.mem_append_right _ hk)
        exact ⟨a, Nat.lt_of_lt_of_le b hs1.size, cloneSub_stable Hc hI hs1 b c'⟩
      obtain ⟨hl2, hs2, hr2⟩ := ih s1 _ hI1 hN1 hks1 rfl
      have hrun : s1 = run H Hc t t1 := htr1.1
      split at h
      · next s2 t2 e heq2 =>
        subst h; rw [heq2] at hl2 hs2
        refine ⟨(localRun_append H Hc _ _ _).mpr ⟨hl1, by rw [← hrun]; exact hl2⟩, hs1.trans hs2, ?_⟩
        intro chs hr; cases hr
      · next s2 t2 chs2 heq2 =>
        rw [heq2] at hl2 hs2 hr2
        simp only at hl2 hs2 hr2
        have h2 := hr2 chs2 rfl
        subst h
        refine ⟨(localRun_append H Hc _ _ _).mpr ⟨hl1, by rw [← hrun]; exact hl2⟩, hs1.trans hs2, ?_⟩
        intro chs hr
        simp only [Except.ok.injEq] at hr
        subst hr
        intro e he
        have hrest : e ∈ chs2 → (∀ x ∈ e.2, s.size ≤ x ∧ x < s2.size) ∧
            ∃ f' ∈ f :: fr, f'.name = e.1 ∧ e.2.length ≤ f'.kids.length := by
          intro he2
          obtain ⟨a, f', hf', b⟩ := h2 e he2
          exact ⟨a, f', List.mem_cons_of_mem _ hf', b⟩
        split at he
        · rcases List.mem_cons.mp he with rfl | he2
          · exact ⟨fun x hx => ⟨(hx1 x hx).1, Nat.lt_of_lt_of_le (hx1 x hx).2 hs2.size⟩,
              f, List.mem_cons_self .., rfl, hlen1⟩
          · exact hrest he2
        · exact hrest he

/-- the nodes a callback makes are constructor calls without children (what the harness' rule interpreters do) -/
def actOk : Act → Prop
  | .make sp => sp.fields.flatMap (·.kids) = [] ∧ (newObj sp).wf
  | _ => True

instance (a : Act) : Decidable (actOk a) := by cases a <;> unfold actOk <;> infer_instance

def RulesOk (rules : List Rule) : Prop := ∀ r ∈ rules, actOk r.act

instance (rules : List Rule) : Decidable (RulesOk rules) := by unfold RulesOk; infer_instance

theorem ruleOf_mem {rules : List Rule} {o : LObj} {a : Act} (h : ruleOf rules o = some a) : ∃ r ∈ rules, r.act = a := by
  unfold ruleOf at h
  split at h
  · next r hf => exact ⟨r, List.mem_of_find?_eq_some hf, by simpa using h⟩
  · cases h

/-- the changes `_transform_children` produces fit the node they were computed from -/
theorem wfFor_of {o : LObj} (ho : o.wf) {chs : List (Str × List Nat)} {ps : List LProp}
    (h : ∀ e ∈ chs, ∃ f ∈ o.fields, f.name = e.1 ∧ e.2.length ≤ f.kids.length) :
    (⟨ps, chs, false⟩ : Changes).wfFor o := by
  unfold Changes.wfFor applyFields
  intro f hf
  obtain ⟨f0, hf0, rfl⟩ := List.mem_map.mp hf
  split
  · next nm ks hfind =>
    have hm := List.mem_of_find?_eq_some hfind
    have hp := List.find?_some hfind
    simp only [decide_eq_true_eq] at hp
    obtain ⟨f1, hf1, hn1, hlen⟩ := h (nm, ks) hm
    have : f1 = f0 := eq_of_nodup_map LField.name o.fields ho.1 f1 hf1 f0 hf0 (by rw [hn1]; exact hp)
    subst this
    rcases ho.2 f1 hf1 with h1 | h1
    · exact .inl h1
    · exact .inr (by simp only at hlen ⊢; omega)
  · exact ho.2 f0 hf0

theorem primNode_facts (s : LState) (op : LOp) : (primNode H Hc s op).ops = [op] ∧
    (primNode H Hc s op).s = (step H Hc s op).1 ∧
    ∀ x, (primNode H Hc s op).res = .ok x → ∃ n, x = some n ∧ (step H Hc s op).2 = .node n := by
  unfold primNode
  split
  · next s1 n h => rw [h]; exact ⟨rfl, rfl, fun x hx => by cases hx; exact ⟨n, rfl, rfl⟩⟩
  · next s1 e h => rw [h]; exact ⟨rfl, rfl, fun x hx => by cases hx⟩
  · next s1 o _ _ h => rw [h]; exact ⟨rfl, rfl, fun x hx => by cases hx⟩

theorem step_replace_stable {t t' : LState} {c : Nat} {ch : Changes} {out : LOut}
    (hpar : t.parent c = none) (hd : t.detached c = true) (h : step H Hc t (.replace c ch) = (t', out)) :
    Stable t t' ∧ ∀ x, out = .node x → x = t.size ∧ t'.size = t.size + 1 := by
  unfold step at h
  split at h
  · cases h; exact ⟨Stable.refl _, fun x hx => by cases hx⟩
  · simp only at h
    cases hc : replace H Hc (fuelOf t) t c ch with
    | mk t1 r1 =>
      rw [hc] at h
      obtain ⟨hst, hn⟩ := replace_detached_stable H Hc hpar hd hc
      cases r1 with
      | error e =>
        simp only [ofNode, Prod.mk.injEq] at h; obtain ⟨rfl, rfl⟩ := h
        exact ⟨hst, fun x hx => by cases hx⟩
      | ok n =>
        simp only [ofNode, Prod.mk.injEq] at h; obtain ⟨rfl, rfl⟩ := h
        exact ⟨hst, fun x hx => by cases hx; exact hn n rfl⟩

/-- `node.replace(**changes)` after `_transform_children`, on a node of the clone -/
theorem replace_step_local {s t s1 : LState} {c : Nat} {ps : List LProp} {chs : List (Str × List Nat)} {t1 : List LOp}
    (hI1 : Inv Hc s1) (hrun : s1 = run H Hc t t1) (hl1 : LocalRun H Hc s t t1) (hs1 : Stable t s1)
    (hc1 : s.size ≤ c) (hc2 : c < t.size) (hdet : t.detached c = true) (hwf : (t.obj c).wf)
    (hch : ∀ e ∈ chs, (∀ x ∈ e.2, s.size ≤ x ∧ x < s1.size) ∧
      ∃ f ∈ (t.obj c).fields, f.name = e.1 ∧ e.2.length ≤ f.kids.length)
    (r : TOut (Option Nat)) (hr : (primNode H Hc s1 (.replace c ⟨ps, chs, false⟩)).after t1 = r) :
    LocalRun H Hc s t r.ops ∧ Stable t r.s ∧ ∀ x, r.res = .ok (some x) → s.size ≤ x ∧ x < r.s.size := by
  obtain ⟨ho, hs, hres⟩ := primNode_facts H Hc s1 (.replace c ⟨ps, chs, false⟩)
  have hd1 : s1.detached c = true := hs1.det c hc2 hdet
  have hpar1 : s1.parent c = none := by
    unfold LState.parent
    cases hk : (s1.obj c).pid with
    | none => rfl
    | some k => exact absurd (hI1.noDangling c k hk).1 ((detached_eq_true_iff _ _).mp hd1)
  cases hstep : step H Hc s1 (.replace c ⟨ps, chs, false⟩) with
  | mk t2 o2 =>
    rw [hstep] at hs hres
    simp only at hs hres
    obtain ⟨hst, hn⟩ := step_replace_stable H Hc hpar1 hd1 hstep
    have hloc : LocalOp s s1 (.replace c ⟨ps, chs, false⟩) := by
      refine ⟨hc1, Nat.lt_of_lt_of_le hc2 hs1.size, hd1, ?_, ?_⟩
      · intro k hk
        obtain ⟨e, he, hke⟩ := List.mem_flatMap.mp hk
        exact (hch e he).1 k hke
      · rw [hs1.obj c hc2]
        exact wfFor_of hwf (fun e he => (hch e he).2)
    subst hr
    refine ⟨?_, ?_, ?_⟩
    · show LocalRun H Hc s t (t1 ++ (primNode H Hc s1 (.replace c ⟨ps, chs, false⟩)).ops)
      rw [ho, localRun_append, ← hrun]
      exact ⟨hl1, hloc, trivial⟩
    · show Stable t (primNode H Hc s1 (.replace c ⟨ps, chs, false⟩)).s
      rw [hs]; exact hs1.trans hst
    · intro x hx
      change (primNode H Hc s1 (.replace c ⟨ps, chs, false⟩)).res = .ok (some x) at hx
      obtain ⟨n, hn1, hn2⟩ := hres _ hx
      cases hn1
      obtain ⟨h1, h2⟩ := hn x hn2
      show s.size ≤ x ∧ x < (primNode H Hc s1 (.replace c ⟨ps, chs, false⟩)).s.size
      rw [hs, h2, h1]
      have := hs1.size
      omega

/-- the visitor's `generic_visit` (rule table, then the library's own) on a node of the clone -/
theorem visitBody_local {s : LState} {rules : List Rule} (hrules : RulesOk rules)
    (rec : LState → Nat → TOut (Option Nat)) (htr : ∀ t c, Tr H Hc t (rec t c)) (hrec : RecOk H Hc s rec) :
    RecOk H Hc s (visitBody H Hc rules rec) := by
  intro t c hI hN hc1 hc2 hsub
  have hfields : ∀ r, tFields rec t (t.obj c).fields = r →
      LocalRun H Hc s t r.ops ∧ Stable t r.s ∧
      ∀ chs, r.res = .ok chs → ∀ e ∈ chs, (∀ x ∈ e.2, s.size ≤ x ∧ x < r.s.size) ∧
        ∃ f ∈ (t.obj c).fields, f.name = e.1 ∧ e.2.length ≤ f.kids.length := by
    intro r hr
    refine tFields_local H Hc rec htr hrec (t.obj c).fields t r hI hN ?_ hr
    intro k hk
    exact ⟨hN.closed c hc1 hc2 k hk, hI.closed c hc2 k hk, cloneSub_kid hsub hk⟩
  have hdet : t.detached c = true := hsub c .refl
  generalize hr : visitBody H Hc rules rec t c = r
  unfold visitBody at hr
  split at hr
  · subst hr; exact ⟨trivial, Stable.refl _, fun x hx => by cases hx⟩
  · subst hr; exact ⟨trivial, Stable.refl _, fun x hx => by cases hx⟩
  · next sp hrule =>
    obtain ⟨rl, hrl, hact⟩ := ruleOf_mem hrule
    have hok := hrules rl hrl
    rw [hact] at hok
    obtain ⟨hk, hwf⟩ := hok
    obtain ⟨ho, hs, hres⟩ := primNode_facts H Hc t (.new sp)
    cases hstep : step H Hc t (.new sp) with
    | mk t2 o2 =>
      rw [hstep] at hs hres
      simp only at hs hres
      obtain ⟨hst, hn⟩ := new_kidless_stable H Hc hI hk hwf hstep
      subst hr
      refine ⟨?_, ?_, ?_⟩
      · rw [ho]; exact ⟨⟨(by rw [hk]; intro x hx; cases hx), hwf⟩, trivial⟩
      · rw [hs]; exact hst
      · intro x hx
        obtain ⟨n, hn1, hn2⟩ := hres _ hx
        cases hn1
        obtain ⟨h1, h2⟩ := hn x hn2
        rw [hs, h2, h1]
        have := hN.size
        omega
  · next ps hrule =>
    obtain ⟨hl1, hs1, hr1⟩ := hfields _ rfl
    have htr1 := tFields_tr H Hc rec htr (t.obj c).fields t
    obtain ⟨hI1, _⟩ := after_local H Hc hI hN htr1 hl1
    split at hr
    · next s1 t1 e heq =>
      subst hr; rw [heq] at hl1 hs1
      exact ⟨hl1, hs1, fun x hx => by cases hx⟩
    · next s1 t1 chs heq =>
      rw [heq] at hl1 hs1 hr1 htr1 hI1
      exact replace_step_local H Hc hI1 htr1.1 hl1 hs1 hc1 hc2 hdet (hI.wf c) (hr1 chs rfl) r hr
  · next hrule =>
    obtain ⟨hl1, hs1, hr1⟩ := hfields _ rfl
    have htr1 := tFields_tr H Hc rec htr (t.obj c).fields t
    obtain ⟨hI1, _⟩ := after_local H Hc hI hN htr1 hl1
    split at hr
    · next s1 t1 e heq =>
      subst hr; rw [heq] at hl1 hs1
      exact ⟨hl1, hs1, fun x hx => by cases hx⟩
    · next s1 t1 chs heq =>
      rw [heq] at hl1 hs1 hr1 htr1 hI1
      split at hr
      · subst hr
        refine ⟨hl1, hs1, ?_⟩
        intro x hx
        simp only [Except.ok.injEq, Option.some.injEq] at hx
        subst hx
        exact ⟨hc1, Nat.lt_of_lt_of_le hc2 hs1.size⟩
      · exact replace_step_local H Hc hI1 htr1.1 hl1 hs1 hc1 hc2 hdet (hI.wf c) (hr1 chs rfl) r hr

/-- `transform` on a node of the clone: never a second clone, never a `replace_with` -/
theorem visitGo_local {s : LState} {rules : List Rule} (hrules : RulesOk rules) :
    ∀ fuel, RecOk H Hc s (visitGo H Hc rules fuel) := by
  intro fuel
  induction fuel with
  | zero =>
    intro t c _ _ _ _ _
    exact ⟨trivial, Stable.refl _, fun x hx => by cases hx⟩
  | succ fuel ih =>
    intro t c hI hN hc1 hc2 hsub
    have hb := visitBody_local H Hc hrules (visitGo H Hc rules fuel) (visitGo_tr H Hc rules fuel) ih t c hI hN hc1 hc2 hsub
    unfold visitGo
    rw [if_pos (hsub c .refl)]
    split
    · next s1 t1 e heq => rw [heq] at hb; exact ⟨hb.1, hb.2.1, fun x hx => by cases hx⟩
    · next s1 t1 r heq => rw [heq] at hb; exact hb

/-- **(c)** `transform` of an ATTACHED receiver that is rejected while its clone is being visited (before the
one and only `replace_with`): every pre-existing record and registry entry is untouched, every additional
entry belongs to a temporary of the call, and the invariant still holds — for all states, receivers and rule
tables (whose made nodes are plain constructor calls).  `hreg`: `duplicate(as_detached_clone=True)` registers
nothing (decidable on a given state; a property of `duplicate` that is not proved separately here). -/
theorem tvisit_fail_in_visit_frame {rules : List Rule} {s s1 : LState} {u n : Nat} {e : Err} (hI : Inv Hc s)
    (hrules : RulesOk rules) (hatt : s.detached u = false) (hd : step H Hc s (.dup u true) = (s1, .node n))
    (hreg : s1.reg = s.reg)
    (hfail : (visitBody H Hc rules (visitGo H Hc rules s.size) s1 n).res = .error e) :
    (tvisit H Hc rules s u).res = .error (inTry e) ∧
    Inv Hc (tvisit H Hc rules s u).s ∧ FrameG s (tvisit H Hc rules s u).s := by
  have hu : u < s.size := by
    have := (detached_eq_false_iff _ _).mp hatt
    exact (hI.regSound _ _ this).1
  -- the clone
  have hdl : LocalOp s s (.dup u true) := ⟨rfl, hu⟩
  obtain ⟨hI1, hN1⟩ := local_step H Hc hI (NewOnly.refl s) hdl hd
  have hn : s.size ≤ n ∧ n < s1.size := by
    unfold step at hd
    split at hd
    · cases hd
    · simp only at hd
      cases hc : duplicate H Hc (2 * fuelOf s) true (fuelOf s) s u with
      | mk t1 r1 =>
        rw [hc] at hd
        obtain ⟨_, hr⟩ := duplicate_all H Hc _ _ _ s u t1 r1 hI (NewOnly.refl s) hu hc
        cases r1 with
        | error e' => simp [ofNode] at hd
        | ok m =>
          simp only [ofNode, Prod.mk.injEq, LOut.node.injEq] at hd
          obtain ⟨rfl, rfl⟩ := hd
          exact hr m rfl
  have hnew_det : ∀ q, s.size ≤ q → s1.detached q = true := by
    intro q hq
    rw [detached_eq_true_iff]
    intro ha
    unfold Att LState.lookup at ha
    rw [hreg] at ha
    have := (hI.regSound _ _ ha).1
    omega
  have hsub : CloneSub s1 n := by
    have key : ∀ q, Desc s1 n q → s.size ≤ q ∧ q < s1.size := by
      intro q hq
      induction hq with
      | refl => exact hn
      | step _ hkq ih => exact ⟨hN1.closed _ ih.1 ih.2 _ hkq, hI1.closed _ ih.2 _ hkq⟩
    intro q hq
    exact hnew_det q (key q hq).1
  have hb := visitBody_local H Hc hrules (visitGo H Hc rules s.size) (visitGo_tr H Hc rules s.size)
    (visitGo_local H Hc hrules s.size) s1 n hI1 hN1 hn.1 hn.2 hsub
  have htrb := visitBody_tr H Hc rules (visitGo H Hc rules s.size) (visitGo_tr H Hc rules s.size) s1 n
  obtain ⟨hI2, hN2⟩ := after_local H Hc hI1 hN1 htrb hb.1
  have h1 : primNode H Hc s (.dup u true) = ⟨s1, [.dup u true], .ok (some n)⟩ := by
    unfold primNode; rw [hd]
  have hres : tvisit H Hc rules s u =
      ⟨(visitBody H Hc rules (visitGo H Hc rules s.size) s1 n).s,
       [.dup u true] ++ (visitBody H Hc rules (visitGo H Hc rules s.size) s1 n).ops, .error (inTry e)⟩ := by
    unfold tvisit fuelOf visitGo
    rw [if_neg (by simp [hatt]), h1]
    simp only
    cases hvb : visitBody H Hc rules (visitGo H Hc rules s.size) s1 n with
    | mk s2 t2 r2 =>
      rw [hvb] at hfail
      simp only at hfail
      subst hfail
      rfl
  rw [hres]
  exact ⟨rfl, hI2, frameG_of_newOnly hN2⟩

/-! ### `duplicate(as_detached_clone=True)` registers nothing -/

theorem dupList_reg (rec : LState → Nat → LState × Except Err Nat) (hrec : ∀ t c, (rec t c).1.reg = t.reg) :
    ∀ (ks : List Nat) (t : LState), (dupList rec t ks).1.reg = t.reg := by
  intro ks
  induction ks with
  | nil => intro t; rfl
  | cons c cs ih =>
    intro t
    unfold dupList
    have h1 := hrec t c
    split
    · next s1 e heq => rw [heq] at h1; exact h1
    · next s1 c' heq =>
      rw [heq] at h1
      have h2 := ih s1
      split
      · next s2 e heq2 => rw [heq2] at h2; exact h2.trans h1
      · next s2 cs' heq2 => rw [heq2] at h2; exact h2.trans h1

theorem dupFields_reg (rec : LState → Nat → LState × Except Err Nat) (hrec : ∀ t c, (rec t c).1.reg = t.reg) :
    ∀ (fs : List LField) (t : LState), (dupFields rec t fs).1.reg = t.reg := by
  intro fs
  induction fs with
  | nil => intro t; rfl
  | cons f fr ih =>
    intro t
    unfold dupFields
    have h1 := dupList_reg rec hrec f.kids t
    split
    · next s1 e heq => rw [heq] at h1; exact h1
    · next s1 ks heq =>
      rw [heq] at h1
      have h2 := ih s1
      split
      · next s2 e heq2 => rw [heq2] at h2; exact h2.trans h1
      · next s2 fs' heq2 => rw [heq2] at h2; exact h2.trans h1

theorem duplicate_clone_reg (cfuel : Nat) : ∀ (fuel : Nat) (t : LState) (u : Nat),
    (duplicate H Hc cfuel true fuel t u).1.reg = t.reg := by
  intro fuel
  induction fuel with
  | zero => intro t u; rfl
  | succ fuel ih =>
    intro t u
    unfold duplicate
    have h1 := dupFields_reg (duplicate H Hc cfuel true fuel) ih (t.obj u).fields t
    split
    · next s1 e heq => rw [heq] at h1; exact h1
    · next s1 fs heq =>
      rw [heq] at h1
      dsimp only
      split
      · next s2 e hc => exact ((construct_detached_eff H Hc rfl hc).1).trans h1
      · next s2 n hc => exact ((construct_detached_eff H Hc rfl hc).1).trans h1

theorem step_dup_clone_reg {s s1 : LState} {u : Nat} {out : LOut} (h : step H Hc s (.dup u true) = (s1, out)) :
    s1.reg = s.reg := by
  unfold step at h
  split at h
  · cases h; rfl
  · simp only at h
    have := duplicate_clone_reg H Hc (2 * fuelOf s) (fuelOf s) s u
    cases hd : duplicate H Hc (2 * fuelOf s) true (fuelOf s) s u with
    | mk t1 r1 =>
      rw [hd] at h this
      cases r1 <;> (simp only [ofNode, Prod.mk.injEq] at h; obtain ⟨rfl, _⟩ := h; exact this)

/-- **(c)**, without the side hypothesis: `transform` of an attached receiver rejected during the visit of its
clone satisfies the frame (modulo the call's temporaries) and keeps the invariant -/
theorem fail_frame_tvisit_in_visit {rules : List Rule} {s s1 : LState} {u n : Nat} {e : Err} (hI : Inv Hc s)
    (hrules : RulesOk rules) (hatt : s.detached u = false) (hd : step H Hc s (.dup u true) = (s1, .node n))
    (hfail : (visitBody H Hc rules (visitGo H Hc rules s.size) s1 n).res = .error e) :
    (tvisit H Hc rules s u).res = .error (inTry e) ∧
    Inv Hc (tvisit H Hc rules s u).s ∧ FrameG s (tvisit H Hc rules s u).s :=
  tvisit_fail_in_visit_frame H Hc hI hrules hatt hd (step_dup_clone_reg H Hc hd) hfail

/-- … and it is the plain `C19.Frame` when no callback made an attached node (the registry is literally the same) -/
theorem fail_frame_tvisit_in_visit_exact {rules : List Rule} {s s1 : LState} {u n : Nat} {e : Err} (hI : Inv Hc s)
    (hrules : RulesOk rules) (hatt : s.detached u = false) (hd : step H Hc s (.dup u true) = (s1, .node n))
    (hfail : (visitBody H Hc rules (visitGo H Hc rules s.size) s1 n).res = .error e)
    (hr : (tvisit H Hc rules s u).s.reg = s.reg) : Frame s (tvisit H Hc rules s u).s :=
  (fail_frame_tvisit_in_visit H Hc hI hrules hatt hd hfail).2.2.frame_of_reg hr

end

/-! ### non-vacuity -/
section examples
open PyOak.Legacy.Ex PyOak.Legacy.C18T

/-- results are compared by evaluation in the examples -/
@[reducible] def decEqRes : DecidableEq (Except Err (Option Nat))
  | .ok a, .ok b => if h : a = b then isTrue (by rw [h]) else isFalse (fun h' => h (by cases h'; rfl))
  | .error a, .error b => if h : a = b then isTrue (by rw [h]) else isFalse (fun h' => h (by cases h'; rfl))
  | .ok _, .error _ => isFalse (fun h => by cases h)
  | .error _, .ok _ => isFalse (fun h => by cases h)
attribute [local instance] decEqRes

-- the attached tuple of histK (objects 0, 1 under 2); rulesKD: leaf 1 → v = 7 on the clone, leaf 2 → the callback raises
example : RulesOk rulesKD := by decide
example : RulesOk rulesK := by decide
example : Inv id (tvisit id id rulesKD (st histK) 2).s ∧ FrameG (st histK) (tvisit id id rulesKD (st histK) 2).s :=
  (fail_frame_tvisit_in_visit id id (rules := rulesKD) (s := st histK) (s1 := (step id id (st histK) (.dup 2 true)).1)
    (u := 2) (n := 5) (e := .transformError) (C18.inv_run_init_partial id id histK (by decide)) (by decide) (by decide)
    (Prod.ext rfl (by decide)) (by decide)).2
example : (tvisit id id rulesKD (st histK) 2).res = .error .transformError :=
  (fail_frame_tvisit_in_visit id id (rules := rulesKD) (s := st histK) (s1 := (step id id (st histK) (.dup 2 true)).1)
    (u := 2) (n := 5) (e := .transformError) (C18.inv_run_init_partial id id histK (by decide)) (by decide) (by decide)
    (Prod.ext rfl (by decide)) (by decide)).1
example : Frame (st histK) (tvisit id id rulesKD (st histK) 2).s :=
  fail_frame_tvisit_in_visit_exact id id (rules := rulesKD) (s := st histK)
    (s1 := (step id id (st histK) (.dup 2 true)).1) (u := 2) (n := 5) (e := .transformError)
    (C18.inv_run_init_partial id id histK (by decide)) (by decide) (by decide) (Prod.ext rfl (by decide)) (by decide) (by decide)
example : (step id id (st histK) (.dup 2 true)).1.reg = (st histK).reg := step_dup_clone_reg id id (out := .node 5) (Prod.ext rfl (by decide))
-- the callback raises on the receiver itself (the rule matches the clone of the tuple): inner error = the callback's
example : FrameG (st histK) (tvisit id id [⟨"T".toList, none, .raise⟩] (st histK) 2).s :=
  (fail_frame_tvisit_in_visit id id (rules := [⟨"T".toList, none, .raise⟩]) (s := st histK)
    (s1 := (step id id (st histK) (.dup 2 true)).1) (u := 2) (n := 5) (e := .internal)
    (C18.inv_run_init_partial id id histK (by decide)) (by decide) (by decide) (Prod.ext rfl (by decide)) (by decide)).2.2
-- the pieces
example := visitGo_local id id (s := st histK) (rules := rulesKD) (by decide) 4
example : Stable (st histK) (step id id (st histK) (.dup 2 true)).1 :=
  stable_of_reg (by decide) (by decide) (fun v hv => by
    have : v = 0 ∨ v = 1 ∨ v = 2 := by
      have h3 : (st histK).size = 3 := by decide
      omega
    rcases this with rfl | rfl | rfl <;> rfl)

end examples

end PyOak.Legacy.C19T
