/-
C18 for the legacy TRANSFORM VISITOR (`ASTTransformVisitor.transform`) and TRANSFORMER
(`ASTTransformer.execute`), modelled in Model/LegacyTransform.lean as compositions of the primitive
operations of the legacy machine (`stepX`, `LOpX.tvisit / texec`, user callbacks = rule table).

FULL-STRENGTH STATEMENTS (not proved in this generality):

  theorem inv_stepX  : Inv Hc s → stepX H Hc s op = (s', out) → out.isOk → Inv Hc s'
  theorem tvisit_identity :  -- a rule table that matches nothing, attached receiver `u`, `Inv Hc s`
      stepX H Hc s (.tvisit u rules) = stepX-composition [dup u (clone), rwith u (some clone)]

PROVED (all states, rule tables, receivers, fuel):

  tvisit_is_run / texec_is_run     the state after a transformation is `run s ops` for the list `ops` of primitive
                                   operations it performed (Props/LegacyTrace.lean), every one of which returned when
                                   the transformation returned (`tvisit_ok_allOk`, `texec_ok_allOk`)
  inv_tvisit_partial / inv_texec_partial / inv_stepX_partial / inv_runX_partial
                                   (a) a transformation that returns preserves `Inv` whenever each constituent
                                   primitive step lies in the fragment for which `inv_step_*` is proved
                                   (`ProvedRun` = `LOp.proved` at the state in which the step is taken: decidable;
                                   with Props/C18.lean as it is now this is only the well-formedness of the
                                   constituent construct / replace requests — every `replace_with` is covered).
                                   `_partial` because that side condition is a hypothesis, not derived from the
                                   shape of the visitor / transformer.
  texec_unchanged                  (b) `execute` with a rule table that matches no node of the subtree returns the
                                   receiver and the state is literally unchanged (no primitive step at all)
  tvisit_quiet_unchanged           (b) `transform` of a node whose subtree is detached and matched by no rule returns
                                   the node itself, state literally unchanged
  tvisit_clone_swap_partial        (b) `transform` of an ATTACHED receiver with a rule table that matches nothing is NOT
                                   the identity on the state, as coded: the visitor returns the CLONE (nothing changed
                                   ⇒ `generic_visit` returns its argument, which is the clone) and `transform` then
                                   replaces the original by it: the primitive steps are exactly
                                   `[dup u (clone), rwith u (some clone)]`; all other records are those of that
                                   `replace_with`.  `_partial`: the hypothesis that the clone's subtree is detached
                                   and matched by no rule in the state after `duplicate` (decidable, `Quiet`) is what
                                   `duplicate(as_detached_clone=True)` guarantees; that step is not proved here.
-/
import PyOak.Props.LegacyTrace
import PyOak.Props.C18
import PyOak.Props.C18Queries   -- + C18Ranked, C18Acyclic (acyclicity of admissible histories, upward queries)
namespace PyOak.Legacy.C18T
open PyOak PyOak.Legacy LState PyOak.Legacy.C18

section
variable (H Hc : Str → Str)

/-- every primitive step lies in the fragment whose invariant preservation is proved (C18.LOp.proved),
evaluated at the state in which the step is taken -/
def ProvedRun : LState → List LOp → Prop
  | _, [] => True
  | s, op :: r => LOp.proved s op ∧ ProvedRun (step H Hc s op).1 r

def decProvedRun : ∀ (ops : List LOp) (s : LState), Decidable (ProvedRun H Hc s ops)
  | [], _ => isTrue trivial
  | op :: r, s =>
    have := decProvedRun r (step H Hc s op).1
    inferInstanceAs (Decidable (LOp.proved s op ∧ ProvedRun H Hc (step H Hc s op).1 r))

instance (s : LState) (ops : List LOp) : Decidable (ProvedRun H Hc s ops) := decProvedRun H Hc ops s

theorem goodRun_of : ∀ (ops : List LOp) (s : LState), ProvedRun H Hc s ops → AllOk H Hc s ops → GoodRun H Hc s ops := by
  intro ops
  induction ops with
  | nil => intro s _ _; trivial
  | cons op r ih => intro s hp ha; exact ⟨hp.1, ha.1, ih _ hp.2 ha.2⟩

/-- the state after `transform` is the run of its primitive operations -/
theorem tvisit_is_run (rules : List Rule) (s : LState) (u : Nat) :
    (tvisit H Hc rules s u).s = run H Hc s (tvisit H Hc rules s u).ops := (tvisit_tr H Hc rules s u).1

theorem texec_is_run (rules : List Rule) (s : LState) (u : Nat) :
    (texec H Hc rules s u).s = run H Hc s (texec H Hc rules s u).ops := (texec_tr H Hc rules s u).1

/-- a transformation that returns has not swallowed any rejected primitive step -/
theorem tvisit_ok_allOk (rules : List Rule) (s : LState) (u : Nat) (hok : (tvisit H Hc rules s u).ok = true) :
    AllOk H Hc s (tvisit H Hc rules s u).ops := (tvisit_tr H Hc rules s u).2 hok

theorem texec_ok_allOk (rules : List Rule) (s : LState) (u : Nat) (hok : (texec H Hc rules s u).ok = true) :
    AllOk H Hc s (texec H Hc rules s u).ops := (texec_tr H Hc rules s u).2 hok

/-- (a) `ASTTransformVisitor.transform` that returns preserves the invariant, provided each of its
primitive steps lies in the proved fragment -/
theorem inv_tvisit_partial {rules : List Rule} {s : LState} {u : Nat} (hI : Inv Hc s)
    (hok : (tvisit H Hc rules s u).ok = true) (hp : ProvedRun H Hc s (tvisit H Hc rules s u).ops) :
    Inv Hc (tvisit H Hc rules s u).s := by
  rw [tvisit_is_run]
  exact inv_run_partial H Hc _ s hI (goodRun_of H Hc _ s hp (tvisit_ok_allOk H Hc rules s u hok))

/-- (a) `ASTTransformer.execute` likewise -/
theorem inv_texec_partial {rules : List Rule} {s : LState} {u : Nat} (hI : Inv Hc s)
    (hok : (texec H Hc rules s u).ok = true) (hp : ProvedRun H Hc s (texec H Hc rules s u).ops) :
    Inv Hc (texec H Hc rules s u).s := by
  rw [texec_is_run]
  exact inv_run_partial H Hc _ s hI (goodRun_of H Hc _ s hp (texec_ok_allOk H Hc rules s u hok))

/-- the operations of the extended machine whose invariant preservation is proved -/
def LOpX.proved (s : LState) : LOpX → Prop
  | .base op => LOp.proved s op
  | .tvisit u rules => ProvedRun H Hc s (tvisit H Hc rules s u).ops
  | .texec u rules => ProvedRun H Hc s (texec H Hc rules s u).ops

instance (s : LState) (op : LOpX) : Decidable (LOpX.proved H Hc s op) := by
  cases op <;> unfold LOpX.proved <;> infer_instance

theorem ofOptNode_ok {r : TOut (Option Nat)} {s' : LState} {out : LOut} (h : ofOptNode r = (s', out))
    (hok : out.isOk = true) : r.ok = true ∧ s' = r.s := by
  obtain ⟨s, t, res⟩ := r
  cases res with
  | error e => simp [ofOptNode] at h; obtain ⟨_, rfl⟩ := h; simp [LOut.isOk] at hok
  | ok x => cases x <;> (simp [ofOptNode] at h; exact ⟨rfl, h.1.symm⟩)

theorem stepX_tvisit (s : LState) (u : Nat) (rules : List Rule) : stepX H Hc s (.tvisit u rules) =
    if s.size ≤ u then (s, .raised .badRequest) else ofOptNode (tvisit H Hc rules s u) := rfl
theorem stepX_texec (s : LState) (u : Nat) (rules : List Rule) : stepX H Hc s (.texec u rules) =
    if s.size ≤ u then (s, .raised .badRequest) else ofOptNode (texec H Hc rules s u) := rfl

/-- (a) one step of the extended machine -/
theorem inv_stepX_partial {s s' : LState} {op : LOpX} {out : LOut} (hI : Inv Hc s) (hp : LOpX.proved H Hc s op)
    (h : stepX H Hc s op = (s', out)) (hok : out.isOk = true) : Inv Hc s' := by
  cases op with
  | base op => exact inv_step_partial H Hc hI hp h hok
  | tvisit u rules =>
    rw [stepX_tvisit] at h
    split at h
    · cases h; simp [LOut.isOk] at hok
    · obtain ⟨h1, rfl⟩ := ofOptNode_ok h hok
      exact inv_tvisit_partial H Hc hI h1 hp
  | texec u rules =>
    rw [stepX_texec] at h
    split at h
    · cases h; simp [LOut.isOk] at hok
    · obtain ⟨h1, rfl⟩ := ofOptNode_ok h hok
      exact inv_texec_partial H Hc hI h1 hp

/-- a history of the extended machine all of whose steps returned and lie in the proved fragment -/
def GoodRunX : LState → List LOpX → Prop
  | _, [] => True
  | s, op :: r => LOpX.proved H Hc s op ∧ (stepX H Hc s op).2.isOk = true ∧ GoodRunX (stepX H Hc s op).1 r

def decGoodRunX : ∀ (ops : List LOpX) (s : LState), Decidable (GoodRunX H Hc s ops)
  | [], _ => isTrue trivial
  | op :: r, s =>
    have := decGoodRunX r (stepX H Hc s op).1
    inferInstanceAs (Decidable
      (LOpX.proved H Hc s op ∧ (stepX H Hc s op).2.isOk = true ∧ GoodRunX H Hc (stepX H Hc s op).1 r))

instance (s : LState) (ops : List LOpX) : Decidable (GoodRunX H Hc s ops) := decGoodRunX H Hc ops s

/-- (a) lifted over histories that mix primitive operations, visitors and transformers -/
theorem inv_runX_partial : ∀ (ops : List LOpX) (s : LState), Inv Hc s → GoodRunX H Hc s ops →
    Inv Hc (runX H Hc s ops) := by
  intro ops
  induction ops with
  | nil => intro s hI _; exact hI
  | cons op r ih =>
    intro s hI hg
    obtain ⟨hp, hok, hr⟩ := hg
    unfold runX
    simp only [List.foldl_cons]
    exact ih _ (inv_stepX_partial H Hc hI hp rfl hok) hr

/-! ### (b) a rule table that changes nothing -/

/-- `execute` with rules that match no node of the subtree: no primitive step, the receiver is returned -/
theorem texec_unchanged {rules : List Rule} {s : LState} {u : Nat} {l : List Nat}
    (hpo : postOrder (fuelOf s) s u = some l) (hno : ∀ c ∈ l, ruleOf rules (s.obj c) = none) :
    texec H Hc rules s u = ⟨s, [], .ok (some u)⟩ := by
  unfold texec
  rw [hpo]
  have : l.filter (fun c => (ruleOf rules (s.obj c)).isSome) = [] := by
    rw [List.filter_eq_nil_iff]
    intro c hc; rw [hno c hc]; simp
  simp only [this, execLoop]

theorem stepX_texec_unchanged {rules : List Rule} {s : LState} {u : Nat} {l : List Nat} (hu : u < s.size)
    (hpo : postOrder (fuelOf s) s u = some l) (hno : ∀ c ∈ l, ruleOf rules (s.obj c) = none) :
    stepX H Hc s (.texec u rules) = (s, .node u) := by
  rw [stepX_texec, if_neg (by omega), texec_unchanged H Hc hpo hno]
  rfl

/-- the whole subtree (depth < fuel) is detached and no rule applies anywhere in it -/
def Quiet (rules : List Rule) (s : LState) : Nat → Nat → Prop
  | 0, _ => False
  | fuel + 1, u => s.detached u = true ∧ ruleOf rules (s.obj u) = none ∧
      ∀ c ∈ (s.obj u).kidList, Quiet rules s fuel c

def decQuiet (rules : List Rule) (s : LState) : ∀ (fuel u : Nat), Decidable (Quiet rules s fuel u)
  | 0, _ => isFalse (fun h => h)
  | fuel + 1, u =>
    have : ∀ c, Decidable (Quiet rules s fuel c) := decQuiet rules s fuel
    inferInstanceAs (Decidable (s.detached u = true ∧ ruleOf rules (s.obj u) = none ∧
      ∀ c ∈ (s.obj u).kidList, Quiet rules s fuel c))

instance (rules : List Rule) (s : LState) (fuel u : Nat) : Decidable (Quiet rules s fuel u) := decQuiet rules s fuel u

theorem tKids_quiet (rec : LState → Nat → TOut (Option Nat)) (s : LState) :
    ∀ (ks : List Nat), (∀ c ∈ ks, rec s c = ⟨s, [], .ok (some c)⟩) → tKids rec s ks = ⟨s, [], .ok (ks, false)⟩ := by
  intro ks
  induction ks with
  | nil => intro _; rfl
  | cons c cs ih =>
    intro h
    unfold tKids
    rw [h c (List.mem_cons_self ..)]
    simp only [ih (fun x hx => h x (List.mem_cons_of_mem _ hx))]
    simp

theorem tFields_quiet (rec : LState → Nat → TOut (Option Nat)) (s : LState) :
    ∀ (fs : List LField), (∀ c ∈ fs.flatMap (·.kids), rec s c = ⟨s, [], .ok (some c)⟩) →
      tFields rec s fs = ⟨s, [], .ok []⟩ := by
  intro fs
  induction fs with
  | nil => intro _; rfl
  | cons f fr ih =>
    intro h
    unfold tFields
    rw [tKids_quiet rec s f.kids (fun c hc => h c (by simp only [List.flatMap_cons]; exact List.mem_append_left _ hc))]
    simp only [ih (fun c hc => h c (by simp only [List.flatMap_cons]; exact List.mem_append_right _ hc))]
    simp

/-- the library's `generic_visit` on a node no rule matches and whose children come back unchanged -/
theorem visitBody_quiet {rules : List Rule} (rec : LState → Nat → TOut (Option Nat)) {s : LState} {u : Nat}
    (hr : ruleOf rules (s.obj u) = none) (hk : ∀ c ∈ (s.obj u).kidList, rec s c = ⟨s, [], .ok (some c)⟩) :
    visitBody H Hc rules rec s u = ⟨s, [], .ok (some u)⟩ := by
  unfold visitBody
  rw [hr]
  simp only [tFields_quiet rec s (s.obj u).fields hk]
  simp

theorem visitGo_quiet {rules : List Rule} {s : LState} : ∀ (fuel u : Nat), Quiet rules s fuel u →
    visitGo H Hc rules fuel s u = ⟨s, [], .ok (some u)⟩ := by
  intro fuel
  induction fuel with
  | zero => intro u h; exact h.elim
  | succ fuel ih =>
    intro u h
    obtain ⟨hd, hr, hk⟩ := h
    unfold visitGo
    rw [if_pos hd, visitBody_quiet H Hc _ hr (fun c hc => ih c (hk c hc))]

/-- (b) `transform` of a detached subtree that no rule matches: nothing happens, the node is returned -/
theorem tvisit_quiet_unchanged {rules : List Rule} {s : LState} {u : Nat} (hq : Quiet rules s (fuelOf s) u) :
    tvisit H Hc rules s u = ⟨s, [], .ok (some u)⟩ := visitGo_quiet H Hc _ u hq

/-- (b) `transform` of an ATTACHED node with rules that match nothing: the visitor returns the clone
itself and the original is replaced by it — the primitive steps are exactly `duplicate` and
`replace_with(clone)`, and the final state is that of this `replace_with` -/
theorem tvisit_clone_swap_partial {rules : List Rule} {s s1 : LState} {u n : Nat} (hatt : s.detached u = false)
    (hd : step H Hc s (.dup u true) = (s1, .node n))
    (hr : ruleOf rules (s1.obj n) = none) (hq : ∀ c ∈ (s1.obj n).kidList, Quiet rules s1 s.size c) :
    (tvisit H Hc rules s u).ops = [.dup u true, .rwith u (some n)] ∧
    (tvisit H Hc rules s u).s = (step H Hc s1 (.rwith u (some n))).1 := by
  unfold tvisit fuelOf visitGo
  rw [if_neg (by simp [hatt])]
  have h1 : primNode H Hc s (.dup u true) = ⟨s1, [.dup u true], .ok (some n)⟩ := by
    unfold primNode; rw [hd]
  rw [h1]
  simp only
  rw [visitBody_quiet H Hc _ hr (fun c hc => visitGo_quiet H Hc _ c (hq c hc))]
  simp only
  cases hs : step H Hc s1 (.rwith u (some n)) with
  | mk s3 o => cases o <;> simp [primUnit, hs]

end

/-! ### non-vacuity -/
section examples
open PyOak.Legacy.Ex

def setV (v : String) : Act := .set [⟨"v".toList, v.toList, true⟩]
/-- leaves with v = 1 become v = 7; leaves with v = 2 are replaced by a new leaf 9; leaves 3 are removed -/
def rulesA : List Rule :=
  [⟨"L".toList, some ("v".toList, "1".toList), setV "7"⟩,
   ⟨"L".toList, some ("v".toList, "2".toList), .make (leaf "9")⟩,
   ⟨"L".toList, some ("v".toList, "3".toList), .remove⟩]

/-- leaves 1, 2, 3 under a tuple (object 3), a fourth leaf (object 4) under a unary node (object 5) -/
def histT : List LOp :=
  [.new (leaf "1"), .new (leaf "2"), .new (leaf "3"), .new (tup [0, 1, 2]), .new (leaf "4"), .new (un 4)]

abbrev stX (ops : List LOpX) : LState := runX id id init ops
def histX : List LOpX := histT.map .base

-- the visitor on the tuple: clone, three transformed children, replace(items=…) on the clone, replace_with
example : (tvisit id id rulesA (st histT) 3).ops.length = 5 := by decide
example : (tvisit id id rulesA (st histT) 3).ok = true := by decide
example : ProvedRun id id (st histT) (tvisit id id rulesA (st histT) 3).ops := by decide
example : Inv id (tvisit id id rulesA (st histT) 3).s :=
  inv_tvisit_partial id id (C18.inv_run_init_partial id id histT (by decide)) (by decide) (by decide)
example : (tvisit id id rulesA (st histT) 3).s = run id id (st histT) (tvisit id id rulesA (st histT) 3).ops :=
  tvisit_is_run id id rulesA (st histT) 3
example := tvisit_ok_allOk id id rulesA (st histT) 3 (by decide)
-- the transformer on the same tuple with rules that only `replace`: two primitive steps, both in the proved fragment
def rulesB : List Rule :=
  [⟨"L".toList, some ("v".toList, "1".toList), setV "7"⟩, ⟨"L".toList, some ("v".toList, "2".toList), setV "8"⟩]
example : (texec id id rulesB (st histT) 3).ops.length = 2 := by decide
example : Inv id (texec id id rulesB (st histT) 3).s :=
  inv_texec_partial id id (C18.inv_run_init_partial id id histT (by decide)) (by decide) (by decide)
example : (texec id id rulesA (st histT) 3).s = run id id (st histT) (texec id id rulesA (st histT) 3).ops :=
  texec_is_run id id rulesA (st histT) 3
example := texec_ok_allOk id id rulesA (st histT) 3 (by decide)
-- with rulesA the transformer also calls replace_with(<attached new leaf>) and replace_with(None) on children of the tuple
example : (texec id id rulesA (st histT) 3).ops.length = 4 := by decide
example : ProvedRun id id (st histT) (texec id id rulesA (st histT) 3).ops := by decide
example : Inv id (texec id id rulesA (st histT) 3).s :=
  inv_texec_partial id id (C18.inv_run_init_partial id id histT (by decide)) (by decide) (by decide)
-- the tuple really changed: two children left after the visitor / the transformer
example : ((texec id id rulesA (st histT) 3).s.obj 3).kidList.length = 2 := by decide
-- histories of the extended machine
example : GoodRunX id id init (histX ++ [.tvisit 3 rulesA, .texec 5 rulesB, .texec 3 rulesB]) := by decide
example : Inv id (stX (histX ++ [.tvisit 3 rulesA, .texec 5 rulesB, .texec 3 rulesB])) :=
  inv_runX_partial id id _ init (C18.inv_init id) (by decide)
example : Inv id (stepX id id (stX histX) (.tvisit 3 rulesA)).1 :=
  inv_stepX_partial id id (s := stX histX) (op := .tvisit 3 rulesA) (inv_runX_partial id id histX init (C18.inv_init id) (by decide))
    (by decide) rfl (by decide)
-- (b): no rule matches below the unary node 5 (its leaf has v = 4)
example : texec id id rulesA (st histT) 5 = ⟨st histT, [], .ok (some 5)⟩ :=
  texec_unchanged id id (l := [4, 5]) (by decide) (by decide)
example : stepX id id (st histT) (.texec 5 rulesA) = (st histT, .node 5) :=
  stepX_texec_unchanged id id (l := [4, 5]) (by decide) (by decide) (by decide)
-- (b): a detached copy of the unary node (objects 6, 7): the visitor changes nothing
def histD : List LOp := histT ++ [.dup 5 true]
example : Quiet rulesA (st histD) (fuelOf (st histD)) 7 := by decide
example : tvisit id id rulesA (st histD) 7 = ⟨st histD, [], .ok (some 7)⟩ := tvisit_quiet_unchanged id id (by decide)
-- (b): the ATTACHED unary node 5 with rules that match nothing: it is replaced by its clone 7
example : (tvisit id id rulesA (st histT) 5).ops = [.dup 5 true, .rwith 5 (some 7)] :=
  (tvisit_clone_swap_partial id id (s := st histT) (s1 := (step id id (st histT) (.dup 5 true)).1) (u := 5) (n := 7)
    (by decide) (Prod.ext rfl (by decide)) (by decide) (by decide)).1
example : (tvisit id id rulesA (st histT) 5).s.detached 5 = true ∧ (tvisit id id rulesA (st histT) 5).s.detached 7 = false := by
  decide

end examples

end PyOak.Legacy.C18T
