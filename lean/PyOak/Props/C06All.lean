import PyOak.Props.C06
import PyOak.Props.C06Xpath
