import PyOak.Props.C06
import PyOak.Props.C06Xpath
import PyOak.Props.C06Total
import PyOak.Props.C06Follow
import PyOak.Props.C06Order
