/-
C10 — no operation modifies an existing node: frame theorem on the registry machine.
Every record of the heap (class, mro, digest, id, children) is still there, unchanged, after any
operation; the only primitive that rewrites a record (`pForceId`, the tail of `_deserialize`)
touches objects created by the same operation.
-/
import PyOak.Props.C03
namespace PyOak
namespace C10
open RState RegL C03

/-- apart from `as_obj`, the pre-gc state's heap extends the old heap -/
theorem pre_heap_ext {s : RState} {op : ROp} {s1 : RState} (hp : Pre s op s1) (hop : isAsObj op = false) :
    ∃ ext, s1.heap = s.heap ++ ext := by
  cases hp with
  | construct hk => exact ⟨_, rfl⟩
  | duplicate hx h => exact (dupAux_evol _ _ _ _ _ _ _ h).heap_ext
  | duplicateD hx h => exact (dupAux_evol _ _ _ _ _ _ _ h).heap_ext
  | dcReplace hx hk ho => exact ⟨_, rfl⟩
  | @replaceFail v x kids hx hk =>
    refine ⟨[], ?_⟩
    split
    · simp [pRestore, pDetachSelf_fst_heap]
    · simp [pDetachSelf_fst_heap]
  | @replaceOk v x kids tok base o hx hk ho =>
    refine ⟨[{ uid := tok, cls := o.cls, mro := o.mro, base := base,
                id := (s.pDetachSelf x).1.freshId base, kids := kids }], ?_⟩
    show ((s.pDetachSelf x).1.pNew tok o.cls o.mro base kids).heap = _
    simp only [pNew, pDetachSelf_fst_heap]
  | detach hx => exact ⟨[], by simp [detachAll_heap, pDetachSelf_fst_heap]⟩
  | detachSelf hx => exact ⟨[], by simp [pDetachSelf_fst_heap]⟩
  | asObj h => cases hop
  | asObjD h => cases hop
  | alias hu => exact ⟨[], by simp [RState.bind]⟩
  | drop => exact ⟨[], by simp [RState.unbind]⟩

/-- the heap is append-only for every operation but `as_obj` -/
theorem heap_frame_ext (s : RState) (op : ROp) (hop : isAsObj op = false) :
    ∃ ext, (s.step op).1.heap = s.heap ++ ext := by
  rcases step_shape s op with h | ⟨s1, hp, h⟩
  · rw [h]; exact ⟨[], by simp⟩
  · rw [h]; exact pre_heap_ext (s1 := s1) hp hop

/-- every pre-existing record is unchanged (same cls/mro/base/id/kids) -/
theorem heap_frame (s : RState) (op : ROp) (hop : isAsObj op = false) :
    ∀ o ∈ s.heap, o ∈ (s.step op).1.heap := by
  intro o ho
  obtain ⟨ext, he⟩ := heap_frame_ext s op hop
  rw [he]; exact List.mem_append_left _ ho

theorem evol_heap_frame {K L : Nat → Prop} {F C : Bool} {s f s1 f1} (h : Evol K L F C s f s1 f1) {o : RObj} (ho : o ∈ s.heap)
    (hu : o.uid ∉ f.map (·.1)) : o ∈ s1.heap := by
  induction h with
  | refl => exact ho
  | new _ cls mro ks hk hl ih => exact List.mem_append_left _ ih
  | @newForce s1 tok base fr hF hE cls mro ks hk hl sid hC ih =>
    obtain ⟨p, hp⟩ := hE.suffix
    have hne : o.uid ≠ tok := by
      intro e; apply hu; rw [hp, e]; simp
    simp only [pForceId]
    refine List.mem_map.mpr ⟨o, List.mem_append_left _ ih, ?_⟩
    have : (o.uid == tok) = false := by simpa using hne
    simp [this]

/-- `as_obj`: every pre-existing record is unchanged provided its uid is not one of the fresh
tokens (which holds for every record when the operation is admissible, see `heap_frame_asObj'`) -/
theorem heap_frame_asObj (s : RState) (v : Nat) (t : SerTree) (fresh : Fresh) :
    ∀ o ∈ s.heap, o.uid ∉ fresh.map (·.1) → o ∈ (s.step (.asObj v t fresh)).1.heap := by
  intro o ho hu
  rcases step_shape s (.asObj v t fresh) with h | ⟨s1, hp, h⟩
  · rw [h]; exact ho
  · rw [h]
    cases hp with
    | asObj hd => exact evol_heap_frame (deserAux_evol _ _ _ _ _ _ hd) ho hu
    | asObjD hd => exact evol_heap_frame (deserAux_evol _ _ _ _ _ _ hd) ho hu

/-- for an admissible `as_obj` no pre-existing record is touched -/
theorem heap_frame_asObj' (s : RState) (v : Nat) (t : SerTree) (fresh : Fresh)
    (hok : OpOk s (.asObj v t fresh)) : ∀ o ∈ s.heap, o ∈ (s.step (.asObj v t fresh)).1.heap := by
  intro o ho
  apply heap_frame_asObj s v t fresh o ho
  intro hm
  exact hok.2 _ hm (List.mem_map.mpr ⟨o, ho, rfl⟩)

/-- all admissible operations: pre-existing records are unchanged -/
theorem heap_frame_all (s : RState) (op : ROp) (hok : OpOk s op) : ∀ o ∈ s.heap, o ∈ (s.step op).1.heap := by
  cases hop : isAsObj op with
  | false => exact heap_frame s op hop
  | true =>
    cases op with
    | asObj v t fresh => exact heap_frame_asObj' s v t fresh hok
    | _ => cases hop

/-- looked up by identity, an object shows the same record before and after -/
theorem obj_frame {s : RState} {op : ROp} (hI : Inv s) (hok : OpOk s op) {u : Nat} {o : RObj}
    (h : s.obj? u = some o) : (s.step op).1.obj? u = some o := by
  obtain ⟨hm, rfl⟩ := obj?_some h
  exact obj?_of_mem (inv_step hI hok).heapNodup (heap_frame_all s op hok o hm)

/-- over a whole admissible history -/
theorem heap_frame_run : ∀ (ops : List ROp) (s : RState), AllOk s ops → ∀ o ∈ s.heap, o ∈ (run s ops).heap
  | [], _, _, _, ho => ho
  | op :: r, s, hok, o, ho => heap_frame_run r _ hok.2 o (heap_frame_all s op hok.1 o ho)

end C10
end PyOak

#print axioms PyOak.C10.heap_frame
#print axioms PyOak.C10.heap_frame_ext
#print axioms PyOak.C10.heap_frame_asObj
#print axioms PyOak.C10.heap_frame_asObj'
#print axioms PyOak.C10.heap_frame_all
#print axioms PyOak.C10.obj_frame
#print axioms PyOak.C10.heap_frame_run
