/-
C09 — dispatch in terms of the node's own class (`dispatch_own`), no fuel error / the only error is
the visitor's own raise (`T_err`, `transform_no_fuel`), and what the pure model can say about the
raise clause (`raise_propagates`, `raise_no_result`).
-/
import PyOak.Props.C09
import PyOak.Spec.Dispatch
namespace PyOak
namespace C09

/-! ### dispatch_own -/

theorem ownMro_iff (h : Head) : h.ownMro = true ↔ ∃ a t, h.mro = h.cls :: a :: t := by
  unfold Head.ownMro
  split
  · rename_i c a t hm
    constructor
    · intro hc; simp at hc; exact ⟨a, t, by rw [hm, hc]⟩
    · rintro ⟨a', t', e⟩; rw [hm] at e; simp at e; simp [e.1]
  · rename_i hno
    constructor
    · intro hc; cases hc
    · rintro ⟨a, t, e⟩; exact absurd e (hno _ _ _)

/-- **dispatch_own** — the full decision table of `visit()` / `accept`, stated for the node's OWN
class: under `ownMro` (the class is the head of its MRO) the method called is
* `visit_<cls>` when the visitor has it — strict or not;
* otherwise, non-strict: the method of the NEAREST proper base class (in MRO order, `object`
  excluded) that has one;
* otherwise none, i.e. `generic_visit`. -/
theorem dispatch_own (v : Visitor) (h : Head) (hm : h.ownMro = true) :
    v.method h = ownMethod v.strict v.getattr h.cls h.bases := by
  obtain ⟨a, t, e⟩ := (ownMro_iff h).mp hm
  unfold ownMethod Head.bases
  cases hs : v.strict with
  | true =>
    rw [dispatch_strict v h hs]
    cases v.getattr h.cls <;> simp
  | false =>
    rw [dispatch_eq_nearest v h hs, e]
    simp only [List.dropLast_cons_cons, List.tail_cons, nearest]
    cases v.getattr h.cls <;> simp

/-- the same, one level up: what `visitor.visit(node)` ends up doing -/
theorem action_own (v : Visitor) (h : Head) (hm : h.ownMro = true) :
    v.action h = match ownMethod v.strict v.getattr h.cls h.bases with
      | some r => r.act h.uid
      | none => .generic := by
  unfold Visitor.action; rw [dispatch_own v h hm]
  cases ownMethod v.strict v.getattr h.cls h.bases <;> rfl

/-- own class has a method: it is called, strict or not -/
theorem dispatch_own_has (v : Visitor) (h : Head) (hm : h.ownMro = true) (r : Rule)
    (hr : v.getattr h.cls = some r) : v.method h = some r := by
  rw [dispatch_own v h hm]; simp [ownMethod, hr]

/-- own class has none, strict: `generic_visit` -/
theorem dispatch_own_strict_none (v : Visitor) (h : Head) (hm : h.ownMro = true)
    (hs : v.strict = true) (hr : v.getattr h.cls = none) : v.method h = none := by
  rw [dispatch_own v h hm]; simp [ownMethod, hr, hs]

/-- own class has none, non-strict: the nearest proper base class that has one -/
theorem dispatch_own_base (v : Visitor) (h : Head) (hm : h.ownMro = true)
    (hs : v.strict = false) (hr : v.getattr h.cls = none) (r : Rule) :
    v.method h = some r ↔
      ∃ pre b post, h.bases = pre ++ b :: post ∧ v.getattr b = some r ∧ ∀ d ∈ pre, v.getattr d = none := by
  rw [dispatch_own v h hm]; simp only [ownMethod, hr, hs, Bool.false_eq_true, if_false]
  exact nearest_some_iff _ _ _

/-- nobody has one: `generic_visit` -/
theorem dispatch_own_generic (v : Visitor) (h : Head) (hm : h.ownMro = true)
    (hs : v.strict = false) :
    v.method h = none ↔ v.getattr h.cls = none ∧ ∀ b ∈ h.bases, v.getattr b = none := by
  rw [dispatch_own v h hm]; simp only [ownMethod, hs, Bool.false_eq_true, if_false]
  cases hr : v.getattr h.cls with
  | some r => simp
  | none => simp [nearest_none_iff]

/-! ### errors: never fuel, only the visitor's own raise -/

mutual
theorem T_err (v : Visitor) : ∀ (n : Node) (c : Nat) (e : Err), T v n c = .error e → e = .raised
  | .mk h ks, c, e, ht => by
    unfold T at ht
    split at ht
    · simp at ht
    · simp at ht
    · simp at ht
    · simp at ht; exact ht.symm
    · unfold rebuilt at ht
      split at ht
      · rename_i e' hk; simp at ht; subst ht; exact TKids_err v ks c _ hk
      · split at ht <;> simp at ht
    · unfold finishRewrite at ht
      split at ht
      · rename_i e' hk
        simp at ht; subst ht
        unfold rebuilt at hk
        split at hk
        · rename_i e'' hk2; simp at hk; subst hk; exact TKids_err v ks c _ hk2
        · split at hk <;> simp at hk
      · simp at ht; exact ht.symm
      · split at ht
        · simp at ht
        · simp at ht; exact ht.symm
termination_by structural n => n
theorem TKids_err (v : Visitor) : ∀ (ks : List Kid) (c : Nat) (e : Err), TKids v ks c = .error e → e = .raised
  | [], c, e, ht => by simp [TKids] at ht
  | k :: r, c, e, ht => by
    unfold TKids at ht
    split at ht
    · rename_i e' hk; simp at ht; subst ht; exact TKid_err v k c _ hk
    · split at ht
      · rename_i e' hk; simp at ht; subst ht; exact TKids_err v r _ _ hk
      · simp at ht
termination_by structural ks => ks
theorem TKid_err (v : Visitor) : ∀ (k : Kid) (c : Nat) (e : Err), TKid v k c = .error e → e = .raised
  | .mk name coll ns, c, e, ht => by
    unfold TKid at ht
    split at ht
    · rename_i e' hk; simp at ht; subst ht; exact TNodes_err v ns c _ hk
    · simp at ht
termination_by structural k => k
theorem TNodes_err (v : Visitor) : ∀ (ns : List Node) (c : Nat) (e : Err), TNodes v ns c = .error e → e = .raised
  | [], c, e, ht => by simp [TNodes] at ht
  | x :: r, c, e, ht => by
    unfold TNodes at ht
    split at ht
    · rename_i e' hk; simp at ht; subst ht; exact T_err v x c _ hk
    · split at ht
      · rename_i e' hk; simp at ht; subst ht; exact TNodes_err v r _ _ hk
      · simp at ht
termination_by structural ns => ns
end

/-- **transform_no_fuel**: the fuel the model hands to its recursion (the size of the tree) is always
enough — what `Model/Visitor.lean` promises about `Err.fuel`. -/
theorem transform_no_fuel (v : Visitor) (n : Node) (c : Nat) (hw : wf n = true) :
    transform v n c ≠ .error .fuel := by
  rw [transform_eq_spec v n c hw]; intro h; have := T_err v n c _ h; cases this

/-- the only error of `transform` is the visitor's own raise -/
theorem transform_err (v : Visitor) (n : Node) (c : Nat) (hw : wf n = true) (e : Err)
    (h : transform v n c = .error e) : e = .raised := by
  rw [transform_eq_spec v n c hw] at h; exact T_err v n c e h

/-! ### the raise clause -/

/-- `Visited v a d`: the transformation started at `a` calls `visit(d)` unless an exception stops it
before: `d` is `a` or is reached through nodes whose method calls `generic_visit` (actions `generic`
and `rewriteProp`, which `Below` of Props/C09 does not cover) -/
inductive Visited (v : Visitor) : Node → Node → Prop where
  | self (a : Node) : Visited v a a
  | generic {a x d : Node} : v.action a.hd = .generic → x ∈ childrenOf a → Visited v x d → Visited v a d
  | rewrite {a x d : Node} {p : PropV} :
      v.action a.hd = .rewriteProp p → x ∈ childrenOf a → Visited v x d → Visited v a d

theorem TNodes_error_of_mem (v : Visitor) (ns : List Node) (x : Node) (hx : x ∈ ns)
    (hT : ∀ c, T v x c = .error .raised) : ∀ c, TNodes v ns c = .error .raised := by
  induction ns with
  | nil => simp at hx
  | cons y r ih =>
    intro c
    unfold TNodes
    simp only [List.mem_cons] at hx
    cases hy : T v y c with
    | error e => simp [T_err v y c e hy]
    | ok p =>
      rcases hx with rfl | hx
      · rw [hT c] at hy; cases hy
      · simp [ih hx p.2]

theorem TKids_error_of_mem (v : Visitor) (ks : List Kid) (x : Node) (hx : x ∈ ks.flatMap Kid.nodes)
    (hT : ∀ c, T v x c = .error .raised) : ∀ c, TKids v ks c = .error .raised := by
  induction ks with
  | nil => simp at hx
  | cons k r ih =>
    intro c
    unfold TKids
    simp only [List.flatMap_cons, List.mem_append] at hx
    cases hk : TKid v k c with
    | error e => simp [TKid_err v k c e hk]
    | ok p =>
      obtain ⟨k', chg, c1⟩ := p
      rcases hx with hx | hx
      · cases k with
        | mk name coll ns =>
          unfold TKid at hk
          rw [TNodes_error_of_mem v ns x hx hT c] at hk
          simp at hk
      · simp [ih hx c1]

/-- **raise_propagates**: when the method called for some visited node raises, the whole
`transform` raises — whatever was rewritten before (earlier siblings, deeper levels) is discarded,
no partial result is returned, and ancestors' `rewriteProp` / `generic` methods do not swallow it. -/
theorem raise_propagates (v : Visitor) (a d : Node) (hv : Visited v a d)
    (hd : v.action d.hd = .raise) : ∀ c, T v a c = .error .raised := by
  induction hv with
  | self a =>
    intro c; cases a with
    | mk h ks => simp only [Node.hd_mk] at hd; simp [T, hd]
  | @generic a x d ha hx _ ih =>
    intro c
    cases a with
    | mk h ks =>
      simp only [Node.hd_mk] at ha
      have := TKids_error_of_mem v ks x hx (ih hd) c
      unfold T; simp [ha, this, rebuilt]
  | @rewrite a x d p ha hx _ ih =>
    intro c
    cases a with
    | mk h ks =>
      simp only [Node.hd_mk] at ha
      have := TKids_error_of_mem v ks x hx (ih hd) c
      unfold T; simp [ha, this, rebuilt, finishRewrite]

/-- the same for the implementation-shaped model -/
theorem transform_raise_propagates (v : Visitor) (n d : Node) (c : Nat) (hw : wf n = true)
    (hv : Visited v n d) (hd : v.action d.hd = .raise) : transform v n c = .error .raised := by
  rw [transform_eq_spec v n c hw]; exact raise_propagates v n d hv hd c

/-- **raise_no_result**: a call that raises returns nothing — neither a (partial) tree nor a counter.
(`VRes` is a sum type: this is true by typing; it is stated because it is all the PURE model can say
about "the input tree is never modified when a visitor method raises".  The registry machine
`Model/Registry.lean` (`ROp`) has no transform step, so there is no registry-level frame to state for
it; the frame for the steps it has is `C10.heap_frame_run`; the real-code side of the clause is the
harness's snapshot check after every call.) -/
theorem raise_no_result (v : Visitor) (n : Node) (c : Nat) (e : Err) (h : transform v n c = .error e) :
    ∀ p, transform v n c ≠ .ok p := by
  intro p hp; rw [h] at hp; cases hp

/-! ### non-vacuity -/
namespace Ex

example : (leaf2 3).hd.ownMro = true := by decide
example : ownMroTree tree = true := by decide
-- own class `Leaf2` has no method, non-strict: nearest base `Leaf`
example : ∃ r, (vRemove 3).method (leaf2 3).hd = some r :=
  ⟨_, (dispatch_own_base (vRemove 3) (leaf2 3).hd (by decide) rfl (by decide) _).mpr
        ⟨[], sLeaf, [sExpr, sAST], by decide, rfl, by simp⟩⟩
-- own class `Leaf` has one: called, strict and non-strict
example : ∃ r, (vRemove 1 true).method (leaf 1).hd = some r :=
  ⟨_, dispatch_own_has (vRemove 1 true) (leaf 1).hd (by decide) _ rfl⟩
example : ∃ r, (vRemove 1 false).method (leaf 1).hd = some r :=
  ⟨_, dispatch_own_has (vRemove 1 false) (leaf 1).hd (by decide) _ rfl⟩
-- strict, own class without method: generic, although a base class has one
example : (vRemove 3 true).method (leaf2 3).hd = none :=
  dispatch_own_strict_none _ _ (by decide) rfl (by decide)
-- `ownMro` is needed: a head whose `cls` is not the head of its MRO dispatches elsewhere
example : isRemove ((vRemove 3).action (hd 3 sTup [sLeaf, sObj])) = true ∧
    (vRemove 3).getattr sTup = none ∧ (hd 3 sTup [sLeaf, sObj]).bases = [] := by decide

-- raise_propagates: `Leaf2#3` (two levels down, after `Leaf#1` was visited) raises
example : Visited vRaise tree (leaf2 3) :=
  .generic (x := opt 2 [leaf2 3]) rfl (by simp [childrenOf, tree, tup, Kid.nodes])
    (.generic (x := leaf2 3) rfl (by simp [childrenOf, opt, Kid.nodes]) (.self _))
example : transform vRaise tree 10 = .error .raised :=
  transform_raise_propagates vRaise tree (leaf2 3) 10 (by decide)
    (.generic (x := opt 2 [leaf2 3]) rfl (by simp [childrenOf, tree, tup, Kid.nodes])
      (.generic (x := leaf2 3) rfl (by simp [childrenOf, opt, Kid.nodes]) (.self _))) rfl
end Ex

end C09
end PyOak
