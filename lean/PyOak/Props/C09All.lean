/- C09: import-only aggregate (the module the checker builds and audits) -/
import PyOak.Props.C09
import PyOak.Props.C09Rw
import PyOak.Props.C09Dispatch
import PyOak.Props.C09Fresh
