/-
C18 — Legacy parent-aware trees stay structurally consistent through any history.

Model: `PyOak.Legacy.step` (Model/Legacy.lean), the state machine of `AwareASTNode` as coded
(repaired tree).  Invariant: `PyOak.Legacy.Inv` (Props/LegacyBase.lean):

  regSound    the registry maps an id only to an existing object carrying that id
  down        every attached node's children are attached and report it as parent with the right
              field and index
  up          an attached node with a parent is stored in that parent at exactly that position
  cid         the cached content id of an attached node = digest of its own content and the cached
              content ids of its children  (⇒ `cid_eq_spec`: = content id of an independently built
              equal tree, i.e. changes have propagated to all ancestors)
  noDangling  a stored parent id resolves, and only attached nodes store one
  closed      children of existing objects exist

"lookup returns each attached node under its id" is the definition of attached (`Att`) together
with `regSound`; `ancestors`, `get_depth`, `is_ancestor` and the calculated xpath are walks along
`parent`, which by `up` / `down` is the structural parent (`parent_is_holder`, `ancestors_chain`).

PROVED FOR ALL STATES / ARGUMENTS / FUEL (no admissibility hypothesis is needed: the repaired
`_attach` itself rejects a node that would end up at two positions):
  inv_init, inv_step_new, inv_step_attach, inv_step_detach (both `only_self` variants),
  inv_step_dup (both `as_detached_clone` variants),
  inv_step_replace  -- ANY receiver: attached root, detached node, or a child of a parent; in the last
                       case the proof goes through the invariant "with one hole" (Props/LegacyReplace.lean:
                       clearParent_invX opens it, replaceChild_some_inv closes it) and the
                       `_reset_content_id` walk (resetContentId_inv: the single stale content id moves one
                       node up per step until the root is reached = "changes propagate to all ancestors");
  inv_step_rwith  -- **`replace_with(new)`, EVERY receiver and EVERY argument**: receiver = attached root /
                     detached node / child of a parent; new = None / a detached node / an attached root:
      * receiver with a parent, new = None: `_replace_child` REMOVES the child and shifts the indexes of the later
        siblings down (Props/LegacyRemove.lean: kidsPos_removed, removed_invX, replaceChild_none_inv,
        replaceWith_inv_parent_none);
      * new = an ATTACHED ROOT (receiver with or without parent): the new node is popped from the registry, takes
        the receiver's id and is attached again; in between its children's parent ids dangle.  The commit step of
        `_attach` overwrites those slots, so the result equals the result of the regular route `detach_self()` + id
        swap + commit, all of whose states satisfy the invariant (Props/LegacyTakeOver.lean: attach_roots,
        commitOne_takeOver, takeOver_attach_invX); `child.replace_with(its own attached-root parent)` is rejected
        (takeOver_parent_fails);
      * NO acyclicity hypothesis any more: the invariant does not exclude cycles of length >= 2, but on a heap with
        a cycle through the receiver the `detach()` of the receiver's subtree never returns (the model answers
        `hang`), so an answered call had no such cycle (Props/LegacyCycle.lean: detachGo_keeps -- a finished
        `detach()` never unregisters a node of a set of attached nodes each of which has a child in the set,
        because a node is unregistered only after all its children are -- detach_no_cycle, rwith_open);
  inv_step / inv_run / inv_run_init   ALL operations of `LOp`, over histories: the invariant holds after every
                     history each of whose steps returned (no exception), from the empty world.
  The older names are kept: inv_step_rwith_partial, inv_step_rwith_parent_partial (special cases),
  inv_step_partial = inv_step, inv_run_partial = inv_run, inv_run_init_partial = inv_run_init; `LOp.proved` now
  accepts every `.rwith`.
The only side conditions are well-formedness of the request (`LOp.proved`): child-field names of a new
class instance are distinct and a single (required / optional) field holds at most one node (construct /
replace); `replace_with` has no side condition.

STILL OUTSIDE THE LEAN MODEL (unchanged): the transform visitor and `ASTTransformer.execute` are compositions
of these operations driven by user callbacks; they are not modelled in Lean.  They are exercised on every run by
the K1 differential (model = real code, full state dump after every operation) and by the invariant oracle
evaluated on the real objects (harness/props/c18.py).

REMARK (inadmissible argument, not a proof gap): `node.replace_with(r)` where `r` is the attached root of the tree
that contains `node` puts `r` under its own descendant; the `_reset_content_id` walk of `_replace_child` then
never ends (the model answers `hang`, the library loops) -- see `example … = .raised .hang` at the end.
-/
import PyOak.Props.LegacyDetach
import PyOak.Props.LegacyConstruct
import PyOak.Props.LegacyReplace
import PyOak.Props.LegacyRemove
import PyOak.Props.LegacyCycle
import PyOak.Props.LegacyTakeOver
namespace PyOak.Legacy.C18
open PyOak PyOak.Legacy LState

variable (H Hc : Str → Str)

/-- the empty world satisfies the invariant -/
theorem inv_init : Inv Hc init := by
  refine ⟨?_, ?_, ?_, ?_, ?_, ?_, ?_, ?_⟩
  · intro k u h; simp [init, LState.lookup, regGet] at h
  · intro u h; simp [Att, init, LState.lookup, regGet] at h
  · intro u h; simp [Att, init, LState.lookup, regGet] at h
  · intro u h; simp [Att, init, LState.lookup, regGet] at h
  · intro u k h
    have : (init.obj u).pid = none := rfl
    rw [this] at h; cases h
  · intro u hu; simp [init] at hu
  · intro u h
    have : init.parent u = none := rfl
    rw [this] at h; cases h
  · intro u
    have : (init.obj u).fields = [] := rfl
    unfold LObj.wf; rw [this]; simp

/-- the request refers to existing objects only (checked by `step`) -/
theorem refs_lt {s : LState} {op : LOp} (h : (op.refs.any fun u => decide (s.size ≤ u)) = false) :
    ∀ u ∈ op.refs, u < s.size := by
  intro u hu
  have := List.any_eq_false.mp h u hu
  simp at this; omega

/-- construction over existing children (any flags, any kind of children) -/
theorem inv_step_new {s s' : LState} {sp : NewSpec} {out : LOut} (hI : Inv Hc s) (hwf : (newObj sp).wf)
    (h : step H Hc s (.new sp) = (s', out)) (hok : out.isOk = true) : Inv Hc s' := by
  unfold step at h
  split at h
  · cases h; simp [LOut.isOk] at hok
  · next hr =>
    simp only at h
    have hlt := refs_lt (by simpa using hr)
    cases hc : construct H Hc (fuelOf s) s sp with
    | mk s1 res =>
      rw [hc] at h
      cases res with
      | error e => simp [ofNode] at h; obtain ⟨_, rfl⟩ := h; simp [LOut.isOk] at hok
      | ok n =>
        simp [ofNode] at h; obtain ⟨rfl, _⟩ := h
        exact (construct_inv H Hc hI (fun c hc' => hlt c (by simpa [LOp.refs] using hc')) hwf hc).1

/-- `attach()` -/
theorem inv_step_attach {s s' : LState} {u : Nat} {out : LOut} (hI : Inv Hc s)
    (h : step H Hc s (.attach u) = (s', out)) (hok : out.isOk = true) : Inv Hc s' := by
  unfold step at h
  split at h
  · cases h; simp [LOut.isOk] at hok
  · next hr =>
    simp only at h
    have hlt := refs_lt (by simpa using hr)
    split at h
    · cases h; exact hI
    · cases ha : attach Hc (fuelOf s) s u with
      | mk s1 res =>
        rw [ha] at h
        cases res with
        | error e => simp [ofUnit] at h; obtain ⟨_, rfl⟩ := h; simp [LOut.isOk] at hok
        | ok x =>
          cases x
          simp [ofUnit] at h; obtain ⟨rfl, _⟩ := h
          exact (attach_inv Hc hI (hlt u (by simp [LOp.refs])) ha).1

/-- `detach()` and `detach_self()` -/
theorem inv_step_detach {s s' : LState} {u : Nat} {os : Bool} {out : LOut} (hI : Inv Hc s)
    (h : step H Hc s (.detach u os) = (s', out)) (hok : out.isOk = true) : Inv Hc s' := by
  unfold step at h
  split at h
  · cases h; simp [LOut.isOk] at hok
  · simp only at h
    cases hd : detachGo (fuelOf s + 1) os s u with
    | mk s1 res =>
      rw [hd] at h
      cases res with
      | none => simp at h; obtain ⟨_, rfl⟩ := h; simp [LOut.isOk] at hok
      | some b =>
        simp at h; obtain ⟨rfl, _⟩ := h
        exact detachGo_inv Hc hI hd

/-- `duplicate(as_detached_clone)` -/
theorem inv_step_dup {s s' : LState} {u : Nat} {clone : Bool} {out : LOut} (hI : Inv Hc s)
    (h : step H Hc s (.dup u clone) = (s', out)) (hok : out.isOk = true) : Inv Hc s' := by
  unfold step at h
  split at h
  · cases h; simp [LOut.isOk] at hok
  · next hr =>
    simp only at h
    have hlt := refs_lt (by simpa using hr)
    cases hc : duplicate H Hc (2 * fuelOf s) clone (fuelOf s) s u with
    | mk s1 res =>
      rw [hc] at h
      cases res with
      | error e => simp [ofNode] at h; obtain ⟨_, rfl⟩ := h; simp [LOut.isOk] at hok
      | ok n =>
        simp [ofNode] at h; obtain ⟨rfl, _⟩ := h
        exact (duplicate_ok H Hc _ _ _ s u s1 n hI (hlt u (by simp [LOp.refs])) hc).1

/-- `replace(**changes)` on a receiver that has no parent (an attached root or a detached node)
(special case of `inv_step_replace`) -/
theorem inv_step_replace_partial {s s' : LState} {u : Nat} {ch : Changes} {out : LOut} (hI : Inv Hc s)
    (hroot : s.parent u = none) (hwf : ch.wfFor (s.obj u))
    (h : step H Hc s (.replace u ch) = (s', out)) (hok : out.isOk = true) : Inv Hc s' := by
  unfold step at h
  split at h
  · cases h; simp [LOut.isOk] at hok
  · next hr =>
    simp only at h
    have hlt := refs_lt (by simpa using hr)
    have hu : u < s.size := hlt u (by simp [LOp.refs])
    unfold replace at h
    split at h
    · simp [ofNode] at h; obtain ⟨_, rfl⟩ := h; simp [LOut.isOk] at hok
    · simp only [hroot, Option.isSome_none, Bool.false_eq_true, if_false] at h
      -- the state after the optional detach_self
      have hI2 : Inv Hc (if (!s.detached u) = true then (detachGo (fuelOf s + 1) true s u).1 else s) ∧
          (if (!s.detached u) = true then (detachGo (fuelOf s + 1) true s u).1 else s).size = s.size ∧
          (∀ v, ((if (!s.detached u) = true then (detachGo (fuelOf s + 1) true s u).1 else s).obj v).fields
            = (s.obj v).fields) := by
        split
        · cases hd : detachGo (fuelOf s + 1) true s u with
          | mk s1 res =>
            cases res with
            | none =>
              -- only_self never recurses: the walk always ends
              exfalso
              unfold detachGo at hd
              split at hd
              · cases hd
              · split at hd
                · cases hd
                · have : ∀ (ks : List Nat) (t : LState), (detachKids (detachGo (fuelOf s) false) true t ks).2 = true := by
                    intro ks; induction ks with
                    | nil => intro t; rfl
                    | cons c cs ih => intro t; simp only [detachKids, if_true]; exact ih _
                  have h2 := this (s.obj u).kidList s
                  split at hd
                  · next heq => rw [heq] at h2; simp at h2
                  · cases hd
            | some b =>
              have hF := detachGo_facts (fuelOf s + 1) true s u b (by rw [hd])
              rw [hd] at hF
              exact ⟨detachGo_inv Hc hI hd, hF.shr.size, hF.shr.fields_eq⟩
        · exact ⟨hI, rfl, fun _ => rfl⟩
      generalize (if (!s.detached u) = true then (detachGo (fuelOf s + 1) true s u).1 else s) = s2 at h hI2
      obtain ⟨hI2, hsz2, hf2⟩ := hI2
      split at h
      · -- construction failed
        simp [ofNode] at h; obtain ⟨_, rfl⟩ := h; simp [LOut.isOk] at hok
      · next s3 n hc =>
        have hkids : ∀ c ∈ (applyFields (s2.obj u).fields ch.fields).flatMap (·.kids), c < s2.size := by
          intro c hc'
          rw [hsz2]
          obtain ⟨fl, hfl, hcf⟩ := List.mem_flatMap.mp hc'
          unfold applyFields at hfl
          obtain ⟨f0, hf0, rfl⟩ := List.mem_map.mp hfl
          split at hcf
          · next nm ks hfind =>
            have hm := List.mem_of_find?_eq_some hfind
            exact hlt c (by
              simp only [LOp.refs, List.mem_cons]
              right
              exact List.mem_flatMap.mpr ⟨(nm, ks), hm, hcf⟩)
          · have : c ∈ (s.obj u).kidList := by
              unfold LObj.kidList
              rw [← hf2 u]
              exact List.mem_flatMap.mpr ⟨f0, hf0, hcf⟩
            exact hI.closed u hu c this
        have hwf2 : ch.wfFor (s2.obj u) := by unfold Changes.wfFor; rw [hf2 u]; exact hwf
        obtain ⟨hI3, _, _⟩ := construct_inv H Hc hI2 hkids (applyFields_wf (hI2.wf u) hwf2 _ rfl) hc
        have hfin : Inv Hc (s3.modify n fun x => { x with origId := (s3.obj u).origId, collWith := (s3.obj u).collWith }) :=
          inv_modify_meta Hc hI3 n _ _
        simp [ofNode] at h
        obtain ⟨rfl, _⟩ := h
        exact hfin

/-- **`replace(**changes)`**, any receiver: attached root, attached child of a parent (the parent's
field is updated, the change of content id propagates to all ancestors), or detached node -/
theorem inv_step_replace {s s' : LState} {u : Nat} {ch : Changes} {out : LOut} (hI : Inv Hc s)
    (hwf : ch.wfFor (s.obj u))
    (h : step H Hc s (.replace u ch) = (s', out)) (hok : out.isOk = true) : Inv Hc s' := by
  cases hp : s.parent u with
  | none => exact inv_step_replace_partial H Hc hI hp hwf h hok
  | some p =>
    unfold step at h
    split at h
    · cases h; simp [LOut.isOk] at hok
    · next hr =>
      simp only at h
      have hlt := refs_lt (by simpa using hr)
      cases hc : replace H Hc (fuelOf s) s u ch with
      | mk s1 res =>
        rw [hc] at h
        cases res with
        | error e => simp [ofNode] at h; obtain ⟨_, rfl⟩ := h; simp [LOut.isOk] at hok
        | ok n =>
          simp [ofNode] at h; obtain ⟨rfl, _⟩ := h
          exact replace_inv_parent H Hc hI (hlt u (by simp [LOp.refs])) hp
            (fun c hc' => hlt c (by simp only [LOp.refs, List.mem_cons]; exact .inr hc')) hwf hc

/-- `replace_with(new)` on a receiver that has no parent, `new` being `None` or a detached node
(special case of `inv_step_rwith`, kept under its old name) -/
theorem inv_step_rwith_partial {s s' : LState} {u : Nat} {new : Option Nat} {out : LOut} (hI : Inv Hc s)
    (hroot : s.parent u = none) (hnew : ∀ n, new = some n → s.detached n = true)
    (h : step H Hc s (.rwith u new) = (s', out)) (hok : out.isOk = true) : Inv Hc s' := by
  unfold step at h
  split at h
  · cases h; simp [LOut.isOk] at hok
  · next hr =>
    simp only at h
    have hlt := refs_lt (by simpa using hr)
    unfold replaceWith at h
    cases new with
    | none =>
      simp only [Bool.false_eq_true, if_false, hroot] at h
      cases hd : detachGo (fuelOf s + 1) false s u with
      | mk s1 res =>
        rw [hd] at h
        cases res with
        | none => simp [ofUnit] at h; obtain ⟨_, rfl⟩ := h; simp [LOut.isOk] at hok
        | some b =>
          simp [ofUnit] at h; obtain ⟨rfl, _⟩ := h
          exact detachGo_inv Hc hI hd
    | some n =>
      have hnd : s.detached n = true := hnew n rfl
      have hn : n < s.size := hlt n (by simp [LOp.refs])
      have hsub : s.isAttachedSubtree n = false := by simp [LState.isAttachedSubtree, hnd]
      simp only [hsub, Bool.false_eq_true, if_false, hroot] at h
      -- after the optional detach of the receiver
      have hI1 : ∀ s1 b, (if (!s.detached u) = true then detachGo (fuelOf s + 1) false s u else (s, some true))
          = (s1, some b) → Inv Hc s1 ∧ s1.size = s.size ∧ ¬ Att s1 n := by
        intro s1 b hh
        split at hh
        · have hF := detachGo_facts (fuelOf s + 1) false s u b (by rw [hh])
          rw [hh] at hF
          exact ⟨detachGo_inv Hc hI hh, hF.shr.size,
            fun ha => by have := hF.shr.att ha; rw [← detached_eq_false_iff] at this; simp [hnd] at this⟩
        · cases hh
          exact ⟨hI, rfl, by rw [← detached_eq_true_iff]; exact hnd⟩
      cases hd : (if (!s.detached u) = true then detachGo (fuelOf s + 1) false s u else (s, some true)) with
      | mk s1 res =>
        rw [hd] at h
        cases res with
        | none => simp [ofUnit] at h; obtain ⟨_, rfl⟩ := h; simp [LOut.isOk] at hok
        | some b =>
          obtain ⟨hI1, hsz1, hnatt⟩ := hI1 s1 b hd
          simp only at h
          have hdet1 : s1.detached n = true := (detached_eq_true_iff _ _).mpr hnatt
          have hreg : ∀ k, s1.lookup k ≠ some n := by
            intro k hk
            have := (hI1.regSound k n hk).2
            apply hnatt; unfold Att; rw [this]; exact hk
          have hpid : (s1.obj n).pid = none := by
            cases hk : (s1.obj n).pid with
            | none => rfl
            | some k => exact absurd (hI1.noDangling n k hk).1 hnatt
          -- takeOver on a detached node only rewrites that (unregistered) node
          have hto : (takeOver s1 u n).1 = s1.modify n (fun x => { x with origId := some x.id, id := s1.idOf u }) := by
            unfold takeOver; simp [hdet1]
          have hI2 : Inv Hc (takeOver s1 u n).1 := by
            rw [hto]; exact inv_modify_unregistered Hc hI1 hreg _ (.inr rfl) hpid (hI1.wf n) (fun _ _ hx => hx.elim)
          have hsz2 : (takeOver s1 u n).1.size = s1.size := by rw [hto]; rfl
          cases hat : attach Hc (fuelOf s) (takeOver s1 u n).1 n with
          | mk s3 r3 =>
            rw [hat] at h
            cases r3 with
            | ok x =>
              cases x
              simp [ofUnit] at h; obtain ⟨rfl, _⟩ := h
              exact (attach_inv Hc hI2 (by rw [hsz2, hsz1]; exact hn) hat).1
            | error e =>
              simp only at h
              -- every branch of the roll-back ends in an error
              exfalso
              split at h
              · simp [ofUnit] at h; obtain ⟨_, rfl⟩ := h; simp [LOut.isOk] at hok
              · simp [ofUnit] at h; obtain ⟨_, rfl⟩ := h; simp [LOut.isOk] at hok

/-- `replace_with(new)` on a receiver that HAS a parent, `new` a detached node, provided the parent is
not a descendant of the receiver (special case of `inv_step_rwith`, which needs neither hypothesis; kept
under its old name) -/
theorem inv_step_rwith_parent_partial {s s' : LState} {u p n : Nat} {out : LOut} (hI : Inv Hc s)
    (hpar : s.parent u = some p) (hnd : s.detached n = true) (hacyc : ¬ Desc s u p)
    (h : step H Hc s (.rwith u (some n)) = (s', out)) (hok : out.isOk = true) : Inv Hc s' := by
  unfold step at h
  split at h
  · cases h; simp [LOut.isOk] at hok
  · next hr =>
    simp only at h
    have hlt := refs_lt (by simpa using hr)
    cases hc : replaceWith Hc (fuelOf s) s u (some n) with
    | mk s1 res =>
      rw [hc] at h
      cases res with
      | error e => simp [ofUnit] at h; obtain ⟨_, rfl⟩ := h; simp [LOut.isOk] at hok
      | ok x =>
        cases x
        simp [ofUnit] at h; obtain ⟨rfl, _⟩ := h
        exact replaceWith_inv_parent_some Hc hI (hlt u (by simp [LOp.refs])) (hlt n (by simp [LOp.refs]))
          hpar hnd hacyc hc

/-- **`replace_with(new)`**: every receiver (attached root, detached node, child of a parent) and every
argument (`None`, a detached node, an attached root); no side condition -/
theorem inv_step_rwith {s s' : LState} {u : Nat} {new : Option Nat} {out : LOut} (hI : Inv Hc s)
    (h : step H Hc s (.rwith u new) = (s', out)) (hok : out.isOk = true) : Inv Hc s' := by
  unfold step at h
  split at h
  · cases h; simp [LOut.isOk] at hok
  · next hr =>
    simp only at h
    have hlt := refs_lt (by simpa using hr)
    cases hc : replaceWith Hc (fuelOf s) s u new with
    | mk s1 res =>
      rw [hc] at h
      cases res with
      | error e => simp [ofUnit] at h; obtain ⟨_, rfl⟩ := h; simp [LOut.isOk] at hok
      | ok x =>
        cases x
        simp [ofUnit] at h; obtain ⟨rfl, _⟩ := h
        exact replaceWith_inv Hc hI (fun n hn => hlt n (by simp [LOp.refs, hn])) hc

/-- `replace_with` on a child: `new` is a detached node and walking up from the parent reaches a root
without meeting the receiver (computable form of "the parent is not a descendant of the receiver") -/
def rwithParentOk (s : LState) (u : Nat) (new : Option Nat) : Bool :=
  match s.parent u, new with
  | some p, some n => s.detached n && upFree s u (s.size + 1) p
  | _, _ => false

/-- the side conditions under which invariant preservation is proved: well-formedness of the request for
construct / replace, nothing for the other operations (in particular every `replace_with`) -/
def LOp.proved (s : LState) : LOp → Prop
  | .new sp => (newObj sp).wf
  | .attach _ | .detach _ _ | .dup _ _ | .rwith _ _ => True
  | .replace u ch => ch.wfFor (s.obj u)

instance (s : LState) (op : LOp) : Decidable (LOp.proved s op) := by
  cases op <;> unfold LOp.proved <;> infer_instance

/-- one step of a history, for the operations in `proved` -/
theorem inv_step_partial {s s' : LState} {op : LOp} {out : LOut} (hI : Inv Hc s) (hp : LOp.proved s op)
    (h : step H Hc s op = (s', out)) (hok : out.isOk = true) : Inv Hc s' := by
  cases op with
  | new sp => exact inv_step_new H Hc hI hp h hok
  | attach u => exact inv_step_attach H Hc hI h hok
  | detach u os => exact inv_step_detach H Hc hI h hok
  | replace u ch => exact inv_step_replace H Hc hI hp h hok
  | rwith u n => exact inv_step_rwith H Hc hI h hok
  | dup u c => exact inv_step_dup H Hc hI h hok

/-- a history all of whose steps returned and lie in the proved fragment -/
def GoodRun : LState → List LOp → Prop
  | _, [] => True
  | s, op :: r => LOp.proved s op ∧ (step H Hc s op).2.isOk = true ∧ GoodRun (step H Hc s op).1 r

/-- the invariant holds after every such history, from any state that satisfies it -/
theorem inv_run_partial : ∀ (ops : List LOp) (s : LState), Inv Hc s → GoodRun H Hc s ops → Inv Hc (run H Hc s ops) := by
  intro ops
  induction ops with
  | nil => intro s hI _; exact hI
  | cons op r ih =>
    intro s hI hg
    obtain ⟨hp, hok, hr⟩ := hg
    unfold run
    simp only [List.foldl_cons]
    exact ih _ (inv_step_partial H Hc hI hp rfl hok) hr

/-- … in particular from the empty world -/
theorem inv_run_init_partial (ops : List LOp) (hg : GoodRun H Hc init ops) : Inv Hc (run H Hc init ops) :=
  inv_run_partial H Hc ops init (inv_init Hc) hg

/-- **one step, any operation** (the side conditions `LOp.proved` concern construct / replace only) -/
theorem inv_step {s s' : LState} {op : LOp} {out : LOut} (hI : Inv Hc s) (hp : LOp.proved s op)
    (h : step H Hc s op = (s', out)) (hok : out.isOk = true) : Inv Hc s' :=
  inv_step_partial H Hc hI hp h hok

/-- **histories**: the invariant holds after every history all of whose steps returned -/
theorem inv_run (ops : List LOp) (s : LState) (hI : Inv Hc s) (hg : GoodRun H Hc s ops) :
    Inv Hc (run H Hc s ops) := inv_run_partial H Hc ops s hI hg

theorem inv_run_init (ops : List LOp) (hg : GoodRun H Hc init ops) : Inv Hc (run H Hc init ops) :=
  inv_run_init_partial H Hc ops hg

/-! ### what the invariant says about the observables of the property -/

/-- `node.parent` of an attached node is the attached node that stores it, at the reported position -/
theorem parent_is_holder {s : LState} (hI : Inv Hc s) {u p : Nat} (hu : Att s u) (hp : s.parent u = some p) :
    Att s p ∧ ∃ f, (s.obj u).pfield = some f ∧ (u, f, (s.obj u).pindex) ∈ (s.obj p).kidsPos := by
  refine ⟨?_, hI.up u hu p hp⟩
  unfold LState.parent at hp
  cases hk : (s.obj u).pid with
  | none => rw [hk] at hp; cases hp
  | some k =>
    rw [hk] at hp
    obtain ⟨_, hid⟩ := hI.regSound k p hp
    unfold Att; rw [hid]; exact hp

/-- conversely the node stored at a position of an attached node reports that node as its parent -/
theorem holder_is_parent {s : LState} (hI : Inv Hc s) {p : Nat} (hp : Att s p) {e : Nat × Str × Option Nat}
    (he : e ∈ (s.obj p).kidsPos) : s.parent e.1 = some p := by
  obtain ⟨_, hpid, _, _⟩ := hI.down' p hp e he
  unfold LState.parent; rw [hpid]; exact hp

/-- `ancestors()`: the walk along `parent` -/
def ancestors (s : LState) : Nat → Nat → List Nat
  | 0, _ => []
  | fuel + 1, u => match s.parent u with
    | none => []
    | some p => p :: ancestors s fuel p

/-- consecutive elements: each is stored in the next, which is attached -/
def ChainOk (s : LState) : List Nat → Prop
  | [] => True
  | [_] => True
  | x :: p :: r => (Att s p ∧ ∃ f, (x, f, (s.obj x).pindex) ∈ (s.obj p).kidsPos) ∧ ChainOk s (p :: r)

/-- every step of the `ancestors` walk goes from a node to the attached node that stores it
(so `get_depth`, `is_ancestor` and the calculated xpath, which are the same walk, agree with the
structure) -/
theorem ancestors_chain {s : LState} (hI : Inv Hc s) : ∀ (fuel u : Nat), Att s u →
    ChainOk s (u :: ancestors s fuel u) := by
  intro fuel
  induction fuel with
  | zero => intro u _; simp [ancestors, ChainOk]
  | succ fuel ih =>
    intro u hu
    unfold ancestors
    cases hp : s.parent u with
    | none => simp [ChainOk]
    | some p =>
      obtain ⟨hpa, f, _, hm⟩ := parent_is_holder Hc hI hu hp
      exact ⟨⟨hpa, f, hm⟩, ih p hpa⟩

/-- an independently built tree: class, compared properties, children at their positions -/
inductive CTree where
  | mk (cls : Str) (props : List LProp) (kids : List (Str × Option Nat × CTree))

/-- its content id, computed from scratch -/
def CTree.cid (Hc : Str → Str) : CTree → Str
  | .mk cls props kids =>
    Hc (cls ++ propsText (props.filter (·.compare)) ++
      (sortByName (fun e : Str × Option Nat × Str => e.1)
        (kidsCids kids)).flatMap fun e => colon ++ e.1 ++ ['['] ++ idxText e.2.1 ++ "]=".toList ++ e.2.2)
where
  kidsCids : List (Str × Option Nat × CTree) → List (Str × Option Nat × Str)
    | [] => []
    | (f, i, t) :: r => (f, i, CTree.cid Hc t) :: kidsCids r


/-- the subtree of `u` in state `s` has the shape and content of the independently built `t` -/
def Matches (s : LState) : Nat → CTree → Prop
  | u, .mk cls props kids =>
    (s.obj u).cls = cls ∧ (s.obj u).props.filter (·.compare) = props.filter (·.compare) ∧
      kidsMatch (s.obj u).kidsPos kids
where
  kidsMatch : List (Nat × Str × Option Nat) → List (Str × Option Nat × CTree) → Prop
    | [], [] => True
    | e :: er, (f, i, t) :: kr => e.2.1 = f ∧ e.2.2 = i ∧ Matches s e.1 t ∧ kidsMatch er kr
    | _, _ => False

mutual
/-- **content ids**: under the invariant the cached content id of an attached node equals the
content id of an independently built equal tree (so every change below has propagated up) -/
theorem cid_eq_spec {s : LState} (hI : Inv Hc s) : ∀ (t : CTree) (u : Nat), Att s u → Matches s u t →
    (s.obj u).cid = CTree.cid Hc t
  | .mk cls props kids, u, hu, hm => by
    obtain ⟨hc, hp, hk⟩ := hm
    have hkids := kids_eq_spec hI kids (s.obj u).kidsPos (fun e he => (hI.down' u hu e he).1) hk
    rw [hI.cid' u hu]
    unfold CTree.cid cidPre kidsText
    rw [hc, hp, ← hkids]
    congr 2
    have := sortBy_map (fun e : Nat × Str × Option Nat => (e.2.1, e.2.2, (s.obj e.1).cid))
      (fun a b : Str × Option Nat × Str => strLt a.1 b.1) (s.obj u).kidsPos
    unfold sortByName
    rw [this, List.flatMap_map]
theorem kids_eq_spec {s : LState} (hI : Inv Hc s) : ∀ (kids : List (Str × Option Nat × CTree))
    (l : List (Nat × Str × Option Nat)), (∀ e ∈ l, Att s e.1) → Matches.kidsMatch s l kids →
    l.map (fun e => (e.2.1, e.2.2, (s.obj e.1).cid)) = CTree.cid.kidsCids Hc kids
  | [], [], _, _ => rfl
  | [], _ :: _, _, hm => by simp [Matches.kidsMatch] at hm
  | (f, i, t) :: kr, [], _, hm => by simp [Matches.kidsMatch] at hm
  | (f, i, t) :: kr, e :: er, ha, hm => by
    obtain ⟨h1, h2, h3, h4⟩ := hm
    simp only [List.map_cons, CTree.cid.kidsCids]
    rw [cid_eq_spec hI t e.1 (ha e (List.mem_cons_self ..)) h3,
      kids_eq_spec hI kr er (fun x hx => ha x (List.mem_cons_of_mem _ hx)) h4, h1, h2]
end

/-! ### non-vacuity: every theorem is applied to concrete data -/
section examples
open PyOak.Legacy.Ex

/-- a history through every proved kind of step: leaf, parent over it, detach the whole tree,
re-attach it, duplicate it, replace the (root) parent, replace the duplicate root by a detached
clone, detach_self -/
def hist : List LOp :=
  [.new (leaf "1"), .new (un 0), .detach 1 false, .attach 1, .dup 1 false, .replace 1 ⟨[], [], false⟩,
   .dup 3 true, .rwith 3 (some 6), .detach 4 true]

def decGoodRun : ∀ (ops : List LOp) (s : LState), Decidable (GoodRun id id s ops)
  | [], _ => isTrue trivial
  | op :: r, s =>
    have := decGoodRun r (step id id s op).1
    inferInstanceAs (Decidable
      (LOp.proved s op ∧ (step id id s op).2.isOk = true ∧ GoodRun id id (step id id s op).1 r))

instance (s : LState) (ops : List LOp) : Decidable (GoodRun id id s ops) := decGoodRun ops s

example : GoodRun id id init hist := by decide

theorem inv_hist : Inv id (st hist) := inv_run_init_partial id id hist (by decide)

example : Inv id init := inv_init id
example : Inv id (step id id init (.new (leaf "1"))).1 :=
  inv_step_new id id (s := init) (sp := leaf "1") (inv_init id) (by decide) (out := outOf [] (.new (leaf "1"))) rfl
    (by decide)
example : Inv id (step id id (st (hist.take 3)) (.attach 1)).1 :=
  inv_step_attach id id (s := st (hist.take 3)) (u := 1) (inv_run_init_partial id id (hist.take 3) (by decide))
    (out := outOf (hist.take 3) (.attach 1)) rfl (by decide)
example : Inv id (step id id (st (hist.take 2)) (.detach 1 false)).1 :=
  inv_step_detach id id (s := st (hist.take 2)) (u := 1) (os := false)
    (inv_run_init_partial id id (hist.take 2) (by decide))
    (out := outOf (hist.take 2) (.detach 1 false)) rfl (by decide)
example : Inv id (step id id (st (hist.take 2)) (.dup 1 false)).1 :=
  inv_step_dup id id (s := st (hist.take 2)) (u := 1) (clone := false)
    (inv_run_init_partial id id (hist.take 2) (by decide))
    (out := outOf (hist.take 2) (.dup 1 false)) rfl (by decide)
example : Inv id (step id id (st (hist.take 2)) (.replace 1 ⟨[], [], false⟩)).1 :=
  inv_step_replace_partial id id (s := st (hist.take 2)) (u := 1) (ch := ⟨[], [], false⟩)
    (inv_run_init_partial id id (hist.take 2) (by decide)) (by decide) (by decide)
    (out := outOf (hist.take 2) (.replace 1 ⟨[], [], false⟩)) rfl (by decide)
-- replace of a CHILD (node 0 under node 1): the parent's field and content id are updated
example : (st (hist.take 2)).parent 0 = some 1 := by decide
example : Inv id (step id id (st (hist.take 2)) (.replace 0 ⟨[⟨"v".toList, "7".toList, true⟩], [], false⟩)).1 :=
  inv_step_replace id id (s := st (hist.take 2)) (u := 0) (ch := ⟨[⟨"v".toList, "7".toList, true⟩], [], false⟩)
    (inv_run_init_partial id id (hist.take 2) (by decide)) (by decide)
    (out := outOf (hist.take 2) (.replace 0 ⟨[⟨"v".toList, "7".toList, true⟩], [], false⟩)) rfl (by decide)
example : ((step id id (st (hist.take 2)) (.replace 0 ⟨[⟨"v".toList, "7".toList, true⟩], [], false⟩)).1.obj 1).cid ≠
    ((st (hist.take 2)).obj 1).cid := by decide
example : Inv id (step id id (st (hist.take 2)) (.rwith 1 none)).1 :=
  inv_step_rwith_partial id id (s := st (hist.take 2)) (u := 1) (new := none)
    (inv_run_init_partial id id (hist.take 2) (by decide)) (by decide)
    (by intro n h; cases h) (out := outOf (hist.take 2) (.rwith 1 none)) rfl (by decide)
-- replace_with on a CHILD: leaf 0 under node 1 is replaced by the detached leaf 2
def histP : List LOp := [.new (leaf "1"), .new (un 0), .new { leaf "2" with createDetached := true }]
example : (st histP).parent 0 = some 1 ∧ (st histP).detached 2 = true := by decide
example : Inv id (step id id (st histP) (.rwith 0 (some 2))).1 :=
  inv_step_rwith_parent_partial id id (s := st histP) (u := 0) (p := 1) (n := 2)
    (inv_run_init_partial id id histP (by decide)) (by decide) (by decide)
    (fun h => by have := Desc.of_leaf (by decide) h; exact absurd this (by decide))
    (out := outOf histP (.rwith 0 (some 2))) rfl (by decide)
example : ((step id id (st histP) (.rwith 0 (some 2))).1.obj 1).kidList = [2] := by decide
example : GoodRun id id init (histP ++ [.rwith 0 (some 2)]) := by decide

-- replace_with(None) on a CHILD of a tuple field: the later sibling moves down by one index
def histT : List LOp := [.new (leaf "1"), .new (leaf "2"), .new (leaf "3"), .new (tup [0, 1, 2])]
example : (st histT).parent 1 = some 3 ∧ ((st histT).obj 2).pindex = some 2 := by decide
example : Inv id (step id id (st histT) (.rwith 1 none)).1 :=
  inv_step_rwith id id (s := st histT) (u := 1) (new := none)
    (inv_run_init id id histT (by decide)) (out := outOf histT (.rwith 1 none)) rfl (by decide)
example : ((step id id (st histT) (.rwith 1 none)).1.obj 3).kidList = [0, 2] ∧
    ((step id id (st histT) (.rwith 1 none)).1.obj 2).pindex = some 1 ∧
    ((step id id (st histT) (.rwith 1 none)).1.obj 0).pindex = some 0 := by decide
example : GoodRun id id init (histT ++ [.rwith 1 none, .rwith 0 none, .rwith 2 none]) := by decide
-- replace_with(None) on the child in a required field is refused
example : outOf histP (.rwith 0 none) = .raised .replaceWithError := by decide
-- replace_with(an ATTACHED ROOT) on a receiver WITHOUT parent: root 1 (over leaf 0) is replaced by root 3 (over leaf 2)
def histA : List LOp := [.new (leaf "1"), .new (un 0), .new (leaf "2"), .new (un 2)]
example : (st histA).isAttachedRoot 1 = true ∧ (st histA).isAttachedRoot 3 = true := by decide
example : Inv id (step id id (st histA) (.rwith 1 (some 3))).1 :=
  inv_step_rwith id id (s := st histA) (u := 1) (new := some 3)
    (inv_run_init id id histA (by decide)) (out := outOf histA (.rwith 1 (some 3))) rfl (by decide)
example : Att (step id id (st histA) (.rwith 1 (some 3))).1 3 ∧
    (step id id (st histA) (.rwith 1 (some 3))).1.parent 2 = some 3 ∧
    (step id id (st histA) (.rwith 1 (some 3))).1.idOf 3 = (st histA).idOf 1 ∧
    (step id id (st histA) (.rwith 1 (some 3))).1.detached 1 = true := by decide
-- replace_with(an ATTACHED ROOT) on a receiver WITH a parent: leaf 0 under node 1 is replaced by root 3 (over leaf 2)
example : (st histA).parent 0 = some 1 := by decide
example : Inv id (step id id (st histA) (.rwith 0 (some 3))).1 :=
  inv_step_rwith id id (s := st histA) (u := 0) (new := some 3)
    (inv_run_init id id histA (by decide)) (out := outOf histA (.rwith 0 (some 3))) rfl (by decide)
example : ((step id id (st histA) (.rwith 0 (some 3))).1.obj 1).kidList = [3] ∧
    (step id id (st histA) (.rwith 0 (some 3))).1.parent 3 = some 1 ∧
    (step id id (st histA) (.rwith 0 (some 3))).1.parent 2 = some 3 ∧
    ((step id id (st histA) (.rwith 0 (some 3))).1.obj 1).cid ≠ ((st histA).obj 1).cid := by decide
example : GoodRun id id init (histA ++ [.rwith 0 (some 3), .rwith 2 (some 0), .rwith 1 none]) := by decide
-- child.replace_with(its own attached-root parent) is rejected (`takeOver_parent_fails`), nothing changes
example : outOf histA (.rwith 0 (some 1)) = .raised .replaceWithError := by decide
-- an inadmissible argument: replacing a node by the root of its own tree would put the root under its own
-- descendant; the `_reset_content_id` walk does not end (the library loops)
def histC : List LOp := [.new (leaf "1"), .new (un 0), .new (un 1)]
example : outOf histC (.rwith 0 (some 2)) = .raised .hang := by decide
theorem ok_of_toBool {e : Except Err Unit} (h : e.toBool = true) : e = .ok () := by
  cases e with
  | error _ => simp [Except.toBool] at h
  | ok x => cases x; rfl
-- the pieces: no cycle through an answered receiver, the opened state, the removal, the id take-over
example : ¬ Desc (st histA) 0 1 :=
  detach_no_cycle id (s := st histA) (u := 0) (p := 1) (fuel := 6) (b := true)
    (s2 := (detachGo 6 false ((st histA).clearParent 0) 0).1) (inv_run_init id id histA (by decide)) (by decide)
    (by decide) (Prod.ext rfl (by decide))
example : ∃ f, Opened id (st histA) (detachGo 6 false ((st histA).clearParent 0) 0).1 0 1 f :=
  rwith_open id (fuel := 6) (b := true) (inv_run_init id id histA (by decide)) (by decide) (Prod.ext rfl (by decide))
example : Inv id (replaceWith id 5 (st histT) 1 none).1 :=
  replaceWith_inv_parent_none id (s := st histT) (u := 1) (p := 3) (fuel := 5)
    (inv_run_init id id histT (by decide)) (by decide) (Prod.ext rfl (ok_of_toBool (by decide)))
example : Inv id (replaceWith id 5 (st histA) 1 (some 3)).1 :=
  replaceWith_inv_root id (s := st histA) (u := 1) (fuel := 5) (new := some 3)
    (inv_run_init id id histA (by decide)) (by intro n h; cases h; decide) (by decide) (Prod.ext rfl (ok_of_toBool (by decide)))
example : Inv id (replaceWith id 5 (st histA) 0 (some 3)).1 :=
  replaceWith_inv_parent_any id (s := st histA) (u := 0) (p := 1) (n := 3) (fuel := 5)
    (inv_run_init id id histA (by decide)) (by decide) (by decide) (Prod.ext rfl (ok_of_toBool (by decide)))
-- any history whose steps returned: `inv_step`, `inv_run`
example : Inv id (step id id (st histA) (.rwith 0 (some 3))).1 :=
  inv_step id id (s := st histA) (op := .rwith 0 (some 3)) (inv_run id id histA init (inv_init id) (by decide))
    trivial (out := outOf histA (.rwith 0 (some 3))) rfl (by decide)

-- after the history: node 5 is attached, its parent is node 6 (the clone that replaced node 3) …
example : Att (st hist) 5 ∧ (st hist).parent 5 = some 6 := by decide
example := parent_is_holder id inv_hist (u := 5) (p := 6) (by decide) (by decide)
example := holder_is_parent id inv_hist (p := 6) (by decide) (e := (5, "arg".toList, none)) (by decide)
example := ancestors_chain id inv_hist 5 5 (by decide)
example : ancestors (st hist) 5 5 = [6] := by decide
-- … and the content id of node 6 is that of an independently built equal tree
example : ((st hist).obj 6).cid =
    CTree.cid id (.mk "U".toList [] [("arg".toList, none, .mk "L".toList [⟨"v".toList, "1".toList, true⟩] [])]) :=
  cid_eq_spec id inv_hist _ 6 (by decide)
    ⟨by decide, by decide, by decide, by decide, ⟨by decide, by decide, trivial⟩, trivial⟩

end examples

end PyOak.Legacy.C18
