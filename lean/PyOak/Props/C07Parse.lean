/-
C07 / C17 — the text → elements step of the (new) xpath: `parseXPath`.

A *written path* is a non-empty list of steps (`Step`); it is rendered to tokens (`renderToks`)
and the tokens to characters with arbitrary white space between tokens and after the last one
(`renderChars`).  We prove
 (a) `xlex_render`       : the lexer reads the tokens back (white space is irrelevant, maximal
                           munch of names is harmless as soon as a name is separated from a
                           following name / digit by at least one white-space character);
 (b) `parseSteps_render` : the step parser reads the raw elements back;
 (c) `xwalk_spec`        : the transformer's reversed walk yields `elemsOf` (a step is `anywhere`
                           iff a `//` precedes it, `[]` is "no index", a missing class is `ASTNode`,
                           all decimal digits of an index are significant);
 (d) `parseXPath_render` / `parseXPath_render_rel` : the composition, for absolute and relative
                           texts.
-/
import PyOak.Model.XPath
import PyOak.Spec.Content
import PyOak.Lemmas.Framing
import PyOak.Props.C20
namespace PyOak
namespace C07P

open C20 (PStep digitsVal_natStr parseStepBody_render StepEnd pathOfRaw)

/-! ## character classes -/

theorem isWS_cases {c : Char} (h : isWS c = true) :
    c = ' ' ∨ c = '\t' ∨ c = '\x0c' ∨ c = '\r' ∨ c = '\n' := by
  simpa [isWS, or_assoc] using h

theorem not_nameChar_of_ws {c : Char} (h : isWS c = true) : isNameChar c = false := by
  rcases isWS_cases h with rfl | rfl | rfl | rfl | rfl <;> decide

/-- the characters the lexer tests for before it tries a name or a digit -/
def isPunct (c : Char) : Bool := c == '/' || c == '@' || c == '[' || c == ']'

theorem isPunct_cases {c : Char} (h : isPunct c = true) : c = '/' ∨ c = '@' ∨ c = '[' ∨ c = ']' := by
  simpa [isPunct, or_assoc] using h

theorem not_nameChar_of_punct {c : Char} (h : isPunct c = true) : isNameChar c = false := by
  rcases isPunct_cases h with rfl | rfl | rfl | rfl <;> decide

theorem nameChar_not_ws {c : Char} (h : isNameChar c = true) : isWS c = false := by
  cases hw : isWS c with
  | false => rfl
  | true => rw [not_nameChar_of_ws hw] at h; cases h

theorem nameChar_not_punct {c : Char} (h : isNameChar c = true) : isPunct c = false := by
  cases hw : isPunct c with
  | false => rfl
  | true => rw [not_nameChar_of_punct hw] at h; cases h

theorem nameStart_nameChar {c : Char} (h : isNameStart c = true) : isNameChar c = true := by
  simp only [isNameStart, isNameChar, Bool.or_eq_true] at h ⊢
  exact Or.inl h

theorem digit_nameChar {c : Char} (h : isDigitC c = true) : isNameChar c = true := by
  simp only [isNameChar, Bool.or_eq_true]
  exact Or.inr h

theorem nameStart_not_digit {c : Char} (h : isNameStart c = true) : isDigitC c = false := by
  cases hd : isDigitC c with
  | false => rfl
  | true =>
    exfalso
    simp only [isNameStart, isLetter, isDigitC, Bool.or_eq_true, Bool.and_eq_true, decide_eq_true_eq,
      beq_iff_eq, Char.le_def, UInt32.le_iff_toNat_le] at h hd
    rcases h with (h | h) | rfl
    · have : ('a' : Char).val.toNat = 97 := rfl
      have : ('9' : Char).val.toNat = 57 := rfl
      omega
    · have : ('A' : Char).val.toNat = 65 := rfl
      have : ('9' : Char).val.toNat = 57 := rfl
      omega
    · revert hd; decide

theorem punct_split {c : Char} (h : isPunct c = false) :
    (c == '/') = false ∧ (c == '@') = false ∧ (c == '[') = false ∧ (c == ']') = false := by
  simpa [isPunct, and_assoc] using h

/-! ## abstract syntax of a written path -/

/-- one written step: preceded by `//` (`anywhere`) or by `/`, then optionally `@field`,
optionally `[]` (`some none`) / `[n]` (`some (some n)`, `n` in decimal), optionally a class -/
structure Step where
  anywhere : Bool
  field : Option Str
  idx : Option (Option Nat)
  cls : Option Str
  deriving DecidableEq, Repr

/-- a name the lexer reads as one `CNAME`: a letter or `_`, then letters, `_`, digits.
(Strictly stronger than `IdentLike`, which would allow a leading digit: see the example at the
end of the file.) -/
def CNameLike (s : Str) : Prop :=
  ∃ c r, s = c :: r ∧ isNameStart c = true ∧ ∀ x ∈ r, isNameChar x = true

instance (s : Str) : Decidable (CNameLike s) :=
  match s with
  | [] => isFalse (by rintro ⟨c, r, h, _⟩; cases h)
  | c :: r =>
    if h : isNameStart c = true ∧ ∀ x ∈ r, isNameChar x = true then isTrue ⟨c, r, rfl, h.1, h.2⟩
    else isFalse (by
      rintro ⟨c', r', h', h1, h2⟩
      cases h'
      exact h ⟨h1, h2⟩)

theorem CNameLike.identLike {s : Str} (h : CNameLike s) : IdentLike s := by
  obtain ⟨c, r, rfl, h1, h2⟩ := h
  refine ⟨by simp, ?_⟩
  intro x hx
  rcases List.mem_cons.mp hx with rfl | hx
  · exact nameStart_nameChar h1
  · exact h2 x hx

/-- a step that writes something after its slash(es) (an empty one would be read as half a `//`) -/
def Step.NonEmpty (s : Step) : Prop := s.field.isSome ∨ s.idx.isSome ∨ s.cls.isSome

instance (s : Step) : Decidable s.NonEmpty := by unfold Step.NonEmpty; infer_instance

/-- well-formed written path: non-empty, every step writes something, the last one has a class,
names are `CNAME`s, classes are node classes -/
structure PathOK (known : Str → Bool) (path : List Step) : Prop where
  ne : path ≠ []
  nonEmpty : ∀ s ∈ path, s.NonEmpty
  last : ∀ s, path.getLast? = some s → s.cls.isSome
  fields : ∀ s ∈ path, ∀ f, s.field = some f → CNameLike f
  classes : ∀ s ∈ path, ∀ c, s.cls = some c → CNameLike c ∧ known c = true

/-- the part after the slash(es), as a `PStep` of the shared token-level development -/
def Step.pstep (s : Step) : PStep := ⟨s.field, s.idx, s.cls⟩

/-- the empty element between the two slashes of `//` -/
def emptyP : PStep := ⟨none, none, none⟩

/-- the `element`s a step is made of: the empty one of a `//` if any, then the step itself -/
def Step.psteps (s : Step) : List PStep := (if s.anywhere then [emptyP] else []) ++ [s.pstep]

/-- tokens of a step: `/` (`//` if `anywhere`), then `@ field`, `[ digits ]`, class -/
def Step.toks (s : Step) : List XTok :=
  (if s.anywhere then [.slash, .slash] else [.slash]) ++ s.pstep.body

def renderToks (path : List Step) : List XTok := path.flatMap Step.toks

theorem Step.toks_eq (s : Step) : s.toks = s.psteps.flatMap PStep.toks := by
  cases h : s.anywhere <;> simp [Step.toks, Step.psteps, h, PStep.toks, emptyP, PStep.body]

theorem renderToks_eq (path : List Step) :
    renderToks path = (path.flatMap Step.psteps).flatMap PStep.toks := by
  simp only [renderToks, List.flatMap_assoc]
  congr 1
  funext s
  exact s.toks_eq

/-! ## (b) token level: the step parser reads the raw elements back -/

/-- the transformer's `element` result for a written element (new default class `ASTNode`) -/
def rawOf (s : PStep) : RawEl :=
  match s.fld, s.idx, s.cls with
  | none, none, none => none
  | _, _, _ => some (s.fld, s.idx.getD none, s.cls.getD astNodeName)

theorem toks_head (more : List PStep) (last : PStep) :
    ∃ r, more.flatMap PStep.toks ++ last.toks = .slash :: r := by
  cases more with
  | nil => exact ⟨_, rfl⟩
  | cons s m => exact ⟨_, rfl⟩

/-- token-level parse/render for the new parser, over `PStep`s -/
theorem parseSteps_psteps (known : Str → Bool) (steps : List PStep) (last : PStep) (c : Str)
    (hlast : last.cls = some c)
    (hk : ∀ s ∈ steps ++ [last], ∀ c, s.cls = some c → known c = true)
    (fuel : Nat) (hf : steps.length < fuel) :
    parseSteps known fuel (steps.flatMap PStep.toks ++ last.toks) =
      some (steps.map rawOf ++ [rawOf last]) := by
  induction steps generalizing fuel with
  | nil =>
    cases fuel with
    | zero => omega
    | succ f =>
      have h := parseStepBody_render known last [] (hk last (by simp)) (Or.inl rfl)
      simp only [List.append_nil] at h
      simp [parseSteps, PStep.toks, h, hlast, rawOf]
  | cons s more ih =>
    cases fuel with
    | zero => omega
    | succ f =>
      obtain ⟨r, hr⟩ := toks_head more last
      have h := parseStepBody_render known s (more.flatMap PStep.toks ++ last.toks)
        (hk s (by simp)) (Or.inr ⟨r, hr⟩)
      have ih' := ih (fun t ht => hk t (by simp at ht ⊢; rcases ht with h | h <;> simp [h])) f
        (by simp at hf; omega)
      simp only [List.flatMap_cons, PStep.toks, List.cons_append, List.append_assoc, parseSteps]
      simp only [PStep.toks] at h hr ih'
      rw [h]
      generalize List.flatMap PStep.toks more ++ XTok.slash :: last.body = rest at hr ih' ⊢
      subst hr
      simp [ih', rawOf]
      rcases s with ⟨_ | f, _ | i, _ | c⟩ <;> rfl

/-- the raw elements of a written path, in text order -/
def rawsOf (path : List Step) : List RawEl := (path.flatMap Step.psteps).map rawOf

theorem getLast?_flatMap_psteps (path : List Step) (s : Step) (h : path.getLast? = some s) :
    ∃ init, path.flatMap Step.psteps = init ++ [s.pstep] := by
  obtain ⟨pre, rfl⟩ : ∃ pre, path = pre ++ [s] := by
    rcases List.eq_nil_or_concat path with rfl | ⟨pre, b, rfl⟩
    · simp at h
    · simp at h; subst h; exact ⟨pre, by simp⟩
  refine ⟨pre.flatMap Step.psteps ++ (if s.anywhere then [emptyP] else []), ?_⟩
  simp [Step.psteps]

/-- **(b)** the step parser applied to the tokens of a written path returns its raw elements -/
theorem parseSteps_render (known : Str → Bool) (path : List Step) (hp : PathOK known path)
    (fuel : Nat) (hf : (path.flatMap Step.psteps).length ≤ fuel) :
    parseSteps known fuel (renderToks path) = some (rawsOf path) := by
  obtain ⟨s, hs⟩ : ∃ s, path.getLast? = some s := by
    cases h : path.getLast? with
    | none => exact absurd (List.getLast?_eq_none_iff.mp h) hp.ne
    | some s => exact ⟨s, rfl⟩
  obtain ⟨init, hinit⟩ := getLast?_flatMap_psteps path s hs
  have hsmem : s ∈ path := List.mem_of_getLast? hs
  obtain ⟨c, hc⟩ := Option.isSome_iff_exists.mp (hp.last s hs)
  have hk : ∀ t ∈ init ++ [s.pstep], ∀ c, t.cls = some c → known c = true := by
    intro t ht c hc
    rw [← hinit] at ht
    simp only [List.mem_flatMap] at ht
    obtain ⟨st, hst, ht⟩ := ht
    simp only [Step.psteps, List.mem_append, List.mem_singleton] at ht
    rcases ht with ht | rfl
    · split at ht
      · simp only [List.mem_singleton] at ht; subst ht; cases hc
      · cases ht
    · exact (hp.classes st hst c hc).2
  have := parseSteps_psteps known init s.pstep c hc hk fuel (by
    rw [hinit] at hf; simp at hf; omega)
  rw [renderToks_eq, rawsOf, hinit]
  simpa using this

/-! ## (c) the transformer's reversed walk -/

/-- the elements a written path denotes, in text order: class defaulting to `ASTNode`, `[]` = no
index, `anywhere` iff the step is preceded by `//` -/
def elemOf (s : Step) : XElem := ⟨s.cls.getD astNodeName, s.field, s.idx.getD none, s.anywhere⟩

def elemsOf (path : List Step) : List XElem := path.map elemOf

theorem rawOf_emptyP : rawOf emptyP = none := rfl

theorem rawOf_nonEmpty (s : Step) (h : s.NonEmpty) :
    rawOf s.pstep = some (s.field, s.idx.getD none, s.cls.getD astNodeName) := by
  obtain ⟨a, f, i, c⟩ := s
  rcases f with _ | f <;> rcases i with _ | i <;> rcases c with _ | c <;>
    first | rfl | (simp [Step.NonEmpty] at h)

/-- the documented reading (`pathOfRaw`: an element is `anywhere` iff an empty element precedes
it) of the raw elements of a written path is `elemsOf` -/
theorem pathOfRaw_rawsOf_false (path : List Step) (hne : ∀ s ∈ path, s.NonEmpty) :
    pathOfRaw (rawsOf path) false = elemsOf path := by
  induction path with
  | nil => simp [rawsOf, pathOfRaw, elemsOf]
  | cons s r ih =>
    have hs := rawOf_nonEmpty s (hne s (by simp))
    have hr := ih (fun t ht => hne t (by simp [ht]))
    simp only [rawsOf, List.flatMap_cons, List.map_append] at hr ⊢
    cases ha : s.anywhere
    · simp [Step.psteps, ha, hs, pathOfRaw, hr, elemsOf, elemOf]
    · simp [Step.psteps, ha, rawOf_emptyP, hs, pathOfRaw, hr, elemsOf, elemOf]

/-- the reversed walk on any raw list whose last element is a real one computes `pathOfRaw` -/
theorem xwalk_pathOfRaw (init : List RawEl) (r0 : Option Str × Option Nat × Str) :
    xwalk (init ++ [some r0]).reverse [] = some (pathOfRaw (init ++ [some r0]) false).reverse := by
  have h1 := C20.lwalk_agrees r0 init.reverse
  have h2 := C20.legacy_transformer_reads_path (init ++ [some r0])
  simp only [List.reverse_append, List.reverse_cons, List.reverse_nil, List.nil_append,
    List.cons_append] at h1 h2 ⊢
  rw [h1, ← h2, List.reverse_reverse]

/-- **(c)** the transformer's reversed walk over the raw elements of a written path yields
`_elements_reversed = (elemsOf path).reverse` -/
theorem xwalk_spec (path : List Step) (hne : path ≠ []) (hall : ∀ s ∈ path, s.NonEmpty) :
    xwalk (rawsOf path).reverse [] = some (elemsOf path).reverse := by
  obtain ⟨s, hs⟩ : ∃ s, path.getLast? = some s := by
    cases h : path.getLast? with
    | none => exact absurd (List.getLast?_eq_none_iff.mp h) hne
    | some s => exact ⟨s, rfl⟩
  obtain ⟨init, hinit⟩ := getLast?_flatMap_psteps path s hs
  have hraw : rawsOf path = init.map rawOf ++ [some (s.field, s.idx.getD none, s.cls.getD astNodeName)] := by
    rw [rawsOf, hinit, List.map_append, List.map_singleton,
      rawOf_nonEmpty s (hall s (List.mem_of_getLast? hs))]
  have := xwalk_pathOfRaw (init.map rawOf) (s.field, s.idx.getD none, s.cls.getD astNodeName)
  rw [← hraw, pathOfRaw_rawsOf_false path hall] at this
  exact this

/-- "all index digits significant" (re-exported from C20): `[12]` is index 12 -/
theorem digits_significant (n : Nat) : digitsVal (natStr n) = n := digitsVal_natStr n

/-! ## (a) character level: rendering with white space, and the lexer -/

def tokChars : XTok → Str
  | .slash => ['/']
  | .at => ['@']
  | .lsqb => ['[']
  | .rsqb => [']']
  | .cname s => s
  | .digit c => [c]

/-- the tokens, each followed by the white-space string `ws i` (`i` = position of the token) -/
def renderChars : List XTok → (Nat → Str) → Str
  | [], _ => []
  | t :: r, ws => tokChars t ++ ws 0 ++ renderChars r (fun i => ws (i + 1))

/-- two adjacent tokens the lexer would fuse (maximal munch of `CNAME`) when nothing separates them -/
def fuses : XTok → XTok → Bool
  | .cname _, .cname _ => true
  | .cname _, .digit _ => true
  | _, _ => false

/-- the separators are white space, and non-empty between a name and a following name / digit -/
def SepOK : List XTok → (Nat → Str) → Prop
  | [], _ => True
  | [_], ws => ∀ c ∈ ws 0, isWS c = true
  | t :: u :: r, ws =>
    (∀ c ∈ ws 0, isWS c = true) ∧ (fuses t u = true → ws 0 ≠ []) ∧ SepOK (u :: r) (fun i => ws (i + 1))

instance decSepOK : ∀ (toks : List XTok) (ws : Nat → Str), Decidable (SepOK toks ws)
  | [], _ => isTrue trivial
  | [_], ws => inferInstanceAs (Decidable (∀ c ∈ ws 0, isWS c = true))
  | t :: u :: r, ws =>
    have := decSepOK (u :: r) (fun i => ws (i + 1))
    inferInstanceAs (Decidable ((∀ c ∈ ws 0, isWS c = true) ∧ (fuses t u = true → ws 0 ≠ []) ∧
      SepOK (u :: r) (fun i => ws (i + 1))))

/-- tokens the lexer can produce -/
def TokOK : XTok → Prop
  | .cname s => CNameLike s
  | .digit c => isDigitC c = true
  | _ => True

/-- the text is empty or starts with a character that ends a name -/
def NameEnd (r : Str) : Prop := r = [] ∨ ∃ c t, r = c :: t ∧ isNameChar c = false

theorem takeWhile_name (a : Str) (ha : ∀ x ∈ a, isNameChar x = true) (r : Str) (hr : NameEnd r) :
    (a ++ r).takeWhile isNameChar = a ∧ (a ++ r).dropWhile isNameChar = r := by
  induction a with
  | nil =>
    rcases hr with rfl | ⟨c, t, rfl, hc⟩
    · simp
    · simp [hc]
  | cons x a ih =>
    have := ih (fun y hy => ha y (by simp [hy]))
    simp [ha x (by simp), this.1, this.2]

/-- white space is skipped (it costs one unit of fuel per character) -/
theorem xlex_skip_ws (w : Str) (hw : ∀ c ∈ w, isWS c = true) (rest : Str) (fuel : Nat)
    (hf : (w ++ rest).length ≤ fuel) :
    ∃ fuel', rest.length ≤ fuel' ∧ xlex fuel (w ++ rest) = xlex fuel' rest := by
  induction w generalizing fuel with
  | nil => exact ⟨fuel, by simpa using hf, rfl⟩
  | cons c w ih =>
    cases fuel with
    | zero => simp at hf
    | succ f =>
      obtain ⟨f', h1, h2⟩ := ih (fun x hx => hw x (by simp [hx])) f (by simp at hf ⊢; omega)
      refine ⟨f', h1, ?_⟩
      simp only [List.cons_append, xlex, hw c (by simp), if_true, h2]

/-- first character of the rendering of a non-empty token list -/
theorem renderChars_head (t : XTok) (r : List XTok) (ws : Nat → Str) (ht : TokOK t) :
    ∃ c tl, renderChars (t :: r) ws = c :: tl ∧
      (match t with
       | .cname _ => isNameStart c = true
       | .digit _ => isDigitC c = true
       | _ => isPunct c = true) := by
  cases t with
  | slash => exact ⟨'/', _, rfl, rfl⟩
  | «at» => exact ⟨'@', _, rfl, rfl⟩
  | lsqb => exact ⟨'[', _, rfl, rfl⟩
  | rsqb => exact ⟨']', _, rfl, rfl⟩
  | cname s =>
    obtain ⟨c, r', rfl, h1, _⟩ := ht
    exact ⟨c, _, rfl, h1⟩
  | digit c => exact ⟨c, _, rfl, ht⟩

theorem sepOK_ws (t : XTok) (r : List XTok) (ws : Nat → Str) (hs : SepOK (t :: r) ws) :
    ∀ c ∈ ws 0, isWS c = true := by
  cases r with
  | nil => exact hs
  | cons u r' => exact hs.1

theorem sepOK_tail (t : XTok) (r : List XTok) (ws : Nat → Str) (hs : SepOK (t :: r) ws) :
    SepOK r (fun i => ws (i + 1)) := by
  cases r with
  | nil => trivial
  | cons u r' => exact hs.2.2

/-- what follows a name in a rendering ends the name -/
theorem nameEnd_after (s : Str) (r : List XTok) (ws : Nat → Str)
    (hok : ∀ u ∈ r, TokOK u) (hs : SepOK (.cname s :: r) ws) :
    NameEnd (ws 0 ++ renderChars r (fun i => ws (i + 1))) := by
  have hws := sepOK_ws _ _ _ hs
  cases hw : ws 0 with
  | cons c w =>
    right
    exact ⟨c, _, rfl, not_nameChar_of_ws (hws c (by simp [hw]))⟩
  | nil =>
    cases r with
    | nil => left; simp [renderChars]
    | cons u r' =>
      right
      obtain ⟨c, tl, hc, hprop⟩ := renderChars_head u r' (fun i => ws (i + 1)) (hok u (by simp))
      refine ⟨c, tl, by simpa using hc, ?_⟩
      cases u with
      | cname s' => exact absurd hw (hs.2.1 rfl)
      | digit d => exact absurd hw (hs.2.1 rfl)
      | slash => exact not_nameChar_of_punct hprop
      | «at» => exact not_nameChar_of_punct hprop
      | lsqb => exact not_nameChar_of_punct hprop
      | rsqb => exact not_nameChar_of_punct hprop

theorem renderChars_length_cons (t : XTok) (r : List XTok) (ws : Nat → Str) :
    (renderChars (t :: r) ws).length =
      (tokChars t).length + (ws 0).length + (renderChars r (fun i => ws (i + 1))).length := by
  simp [renderChars, Nat.add_assoc]

/-- **(a)** lexing the rendering gives the tokens back: white space between tokens (and after the
last one) is irrelevant, provided a name is separated from a following name or digit. -/
theorem xlex_render (toks : List XTok) (ws : Nat → Str) (hok : ∀ t ∈ toks, TokOK t)
    (hs : SepOK toks ws) (fuel : Nat) (hf : (renderChars toks ws).length ≤ fuel) :
    xlex fuel (renderChars toks ws) = some toks := by
  induction toks generalizing ws fuel with
  | nil => cases fuel <;> simp [renderChars, xlex]
  | cons t r ih =>
    have hws := sepOK_ws _ _ _ hs
    have hst := sepOK_tail _ _ _ hs
    have hokr : ∀ u ∈ r, TokOK u := fun u hu => hok u (by simp [hu])
    rw [renderChars_length_cons] at hf
    -- after the characters of `t`: skip the separator, then the induction hypothesis
    have hrest : ∀ f, (ws 0).length + (renderChars r (fun i => ws (i + 1))).length ≤ f →
        xlex f (ws 0 ++ renderChars r (fun i => ws (i + 1))) = some r := by
      intro f hf'
      obtain ⟨f', h1, h2⟩ := xlex_skip_ws (ws 0) hws (renderChars r (fun i => ws (i + 1))) f
        (by simpa using hf')
      rw [h2]
      exact ih _ hokr hst f' h1
    cases fuel with
    | zero =>
      exfalso
      cases t <;> simp [tokChars] at hf
      rename_i s
      obtain ⟨c, r', rfl, _, _⟩ := hok (.cname s) (by simp)
      simp at hf
    | succ f =>
      cases t with
      | slash =>
        simp only [renderChars, tokChars, List.cons_append, List.nil_append, xlex]
        rw [hrest f (by simp [tokChars] at hf; omega)]
        simp [show isWS '/' = false by decide]
      | «at» =>
        simp only [renderChars, tokChars, List.cons_append, List.nil_append, xlex]
        rw [hrest f (by simp [tokChars] at hf; omega)]
        simp [show isWS '@' = false by decide]
      | lsqb =>
        simp only [renderChars, tokChars, List.cons_append, List.nil_append, xlex]
        rw [hrest f (by simp [tokChars] at hf; omega)]
        simp [show isWS '[' = false by decide]
      | rsqb =>
        simp only [renderChars, tokChars, List.cons_append, List.nil_append, xlex]
        rw [hrest f (by simp [tokChars] at hf; omega)]
        simp [show isWS ']' = false by decide]
      | digit c =>
        have hd : isDigitC c = true := hok (.digit c) (by simp)
        have hnc := digit_nameChar hd
        have h1 := nameChar_not_ws hnc
        obtain ⟨p1, p2, p3, p4⟩ := punct_split (nameChar_not_punct hnc)
        simp only [renderChars, tokChars, List.cons_append, List.nil_append, xlex,
          h1, p1, p2, p3, p4, hd, Bool.false_eq_true, if_false, if_true]
        rw [hrest f (by simp [tokChars] at hf; omega)]
        simp
      | cname s =>
        obtain ⟨c, a, rfl, hc, ha⟩ := hok (.cname (s)) (by simp)
        have hnc := nameStart_nameChar hc
        have h1 := nameChar_not_ws hnc
        have hd := nameStart_not_digit hc
        obtain ⟨p1, p2, p3, p4⟩ := punct_split (nameChar_not_punct hnc)
        have hend := nameEnd_after (c :: a) r ws hokr hs
        obtain ⟨t1, t2⟩ := takeWhile_name a ha _ hend
        simp only [renderChars, tokChars, List.cons_append, List.append_assoc, xlex,
          h1, p1, p2, p3, p4, hd, hc, Bool.false_eq_true, if_false, if_true, t1, t2]
        rw [hrest f (by simp [tokChars] at hf; omega)]
        simp

/-! ## (d) the composition: `parseXPath` on the rendering of a written path -/

theorem isDigitC_of_isDigit {c : Char} (h : c.isDigit = true) : isDigitC c = true := by
  simp only [Char.isDigit, Bool.and_eq_true, decide_eq_true_eq, UInt32.le_iff_toNat_le,
    ge_iff_le] at h
  simp only [isDigitC, Bool.and_eq_true, decide_eq_true_eq, Char.le_def, UInt32.le_iff_toNat_le]
  have : ('0' : Char).val.toNat = 48 := rfl
  have : ('9' : Char).val.toNat = 57 := rfl
  have : (48 : UInt32).toNat = 48 := rfl
  have : (57 : UInt32).toNat = 57 := rfl
  omega

theorem body_tokOK (s : PStep) (hf : ∀ f, s.fld = some f → CNameLike f)
    (hc : ∀ c, s.cls = some c → CNameLike c) : ∀ t ∈ s.body, TokOK t := by
  obtain ⟨fld, idx, cls⟩ := s
  intro t ht
  simp only [PStep.body, List.mem_append] at ht
  rcases ht with (ht | ht) | ht
  · cases fld with
    | none => cases ht
    | some f =>
      simp only [List.mem_cons, List.not_mem_nil, or_false] at ht
      rcases ht with rfl | rfl
      · trivial
      · exact hf f rfl
  · rcases idx with _ | _ | n
    · cases ht
    · simp only [List.mem_cons, List.not_mem_nil, or_false] at ht
      rcases ht with rfl | rfl <;> trivial
    · simp only [List.mem_cons, List.mem_append, List.mem_map, List.not_mem_nil, or_false] at ht
      rcases ht with rfl | ⟨c, hc, rfl⟩ | rfl
      · trivial
      · exact isDigitC_of_isDigit (Framing.natStr_digit n c hc)
      · trivial
  · cases cls with
    | none => cases ht
    | some c =>
      simp only [List.mem_cons, List.not_mem_nil, or_false] at ht
      subst ht
      exact hc c rfl

theorem renderToks_tokOK (known : Str → Bool) (path : List Step) (hp : PathOK known path) :
    ∀ t ∈ renderToks path, TokOK t := by
  intro t ht
  simp only [renderToks, List.mem_flatMap] at ht
  obtain ⟨s, hs, ht⟩ := ht
  simp only [Step.toks, List.mem_append] at ht
  rcases ht with ht | ht
  · split at ht <;> simp at ht <;> subst ht <;> trivial
  · exact body_tokOK s.pstep (hp.fields s hs) (fun c hc => (hp.classes s hs c hc).1) t ht

theorem psteps_length_le (ps : List PStep) : ps.length ≤ (ps.flatMap PStep.toks).length := by
  induction ps with
  | nil => simp
  | cons s r ih =>
    simp only [List.flatMap_cons, List.length_append, List.length_cons, PStep.toks]
    omega

/-- **(d), absolute paths.**  The text of a written path — its tokens with arbitrary white space
between them and at the end — is accepted by `ASTXpath(text)` and yields exactly the elements the
path denotes (`_elements_reversed`, self first). -/
theorem parseXPath_render (known : Str → Bool) (path : List Step) (hp : PathOK known path)
    (ws : Nat → Str) (hs : SepOK (renderToks path) ws) :
    parseXPath known (renderChars (renderToks path) ws) = some (elemsOf path).reverse := by
  obtain ⟨s, r, rfl⟩ : ∃ s r, path = s :: r := by
    cases path with
    | nil => exact absurd rfl hp.ne
    | cons s r => exact ⟨s, r, rfl⟩
  obtain ⟨tl, htl⟩ : ∃ tl, renderChars (renderToks (s :: r)) ws = '/' :: tl := by
    cases h : s.anywhere <;> simp [renderToks, Step.toks, h, renderChars, tokChars]
  have hlex := xlex_render (renderToks (s :: r)) ws (renderToks_tokOK known _ hp) hs
    ((renderChars (renderToks (s :: r)) ws).length + 1) (Nat.le_succ _)
  have hparse := parseSteps_render known (s :: r) hp ((renderToks (s :: r)).length + 1) (by
    rw [renderToks_eq]
    exact Nat.le_succ_of_le (psteps_length_le _))
  have hwalk := xwalk_spec (s :: r) hp.ne hp.nonEmpty
  unfold parseXPath
  rw [htl] at hlex ⊢
  simp only [hlex, hparse, hwalk]

/-! ### relative texts -/

/-- the tokens of a path written without its leading slash(es) -/
def renderRelToks : List Step → List XTok
  | [] => []
  | s :: r => s.pstep.body ++ renderToks r

/-- the path `ASTXpath.__init__` reads a relative text as: the first step is `anywhere` -/
def relPath : List Step → List Step
  | [] => []
  | s :: r => { s with anywhere := true } :: r

theorem parseXPath_prefix (known : Str → Bool) (text : Str) (h : ∀ tl, text ≠ '/' :: tl) :
    parseXPath known text = parseXPath known ('/' :: '/' :: text) := by
  unfold parseXPath
  split
  · rename_i tl; exact absurd rfl (h tl)
  · rfl

/-- the white-space function of `"//" ++ text` -/
def shiftWs (ws : Nat → Str) : Nat → Str
  | 0 => []
  | 1 => []
  | i + 2 => ws i

theorem sepOK_slash (toks : List XTok) (ws : Nat → Str) (h0 : ws 0 = [])
    (h : SepOK toks (fun i => ws (i + 1))) : SepOK (.slash :: toks) ws := by
  cases toks with
  | nil => simp [SepOK, h0]
  | cons u r => exact ⟨by simp [h0], by simp [fuses], h⟩

theorem pathOK_rel (known : Str → Bool) (s : Step) (r : List Step) (hp : PathOK known (s :: r)) :
    PathOK known (relPath (s :: r)) := by
  refine ⟨by simp [relPath], ?_, ?_, ?_, ?_⟩
  · intro t ht
    simp only [relPath, List.mem_cons] at ht
    rcases ht with rfl | ht
    · exact hp.nonEmpty s (by simp)
    · exact hp.nonEmpty t (by simp [ht])
  · intro t ht
    cases r with
    | nil =>
      simp only [relPath, List.getLast?_singleton, Option.some.injEq] at ht
      subst ht
      exact hp.last s rfl
    | cons u r' =>
      simp only [relPath, List.getLast?_cons_cons] at ht
      exact hp.last t (by simpa [List.getLast?_cons_cons] using ht)
  · intro t ht
    simp only [relPath, List.mem_cons] at ht
    rcases ht with rfl | ht
    · exact hp.fields s (by simp)
    · exact hp.fields t (by simp [ht])
  · intro t ht
    simp only [relPath, List.mem_cons] at ht
    rcases ht with rfl | ht
    · exact hp.classes s (by simp)
    · exact hp.classes t (by simp [ht])

theorem rel_not_slash (known : Str → Bool) (s : Step) (r : List Step) (hp : PathOK known (s :: r))
    (ws : Nat → Str) : ∀ tl, renderChars (renderRelToks (s :: r)) ws ≠ '/' :: tl := by
  intro tl
  have hne := hp.nonEmpty s (by simp)
  obtain ⟨a, f, i, c⟩ := s
  rcases f with _ | f
  · rcases i with _ | _ | n
    · rcases c with _ | c
      · simp [Step.NonEmpty] at hne
      · obtain ⟨x, y, rfl, hx, _⟩ := (hp.classes _ (List.mem_cons_self ..) c rfl).1
        simp only [renderRelToks, Step.pstep, PStep.body, List.nil_append, List.cons_append,
          renderChars, tokChars, ne_eq, List.cons.injEq, not_and]
        intro h1
        subst h1
        exact absurd hx (by decide)
    · simp [renderRelToks, Step.pstep, PStep.body, renderChars, tokChars]
    · simp [renderRelToks, Step.pstep, PStep.body, renderChars, tokChars]
  · simp [renderRelToks, Step.pstep, PStep.body, renderChars, tokChars]

/-- **(d), relative paths.**  A text that does not start with a slash is read as the same path
with the first step `anywhere` (`__init__` prepends `//`). -/
theorem parseXPath_render_rel (known : Str → Bool) (path : List Step) (hp : PathOK known path)
    (ws : Nat → Str) (hs : SepOK (renderRelToks path) ws) :
    parseXPath known (renderChars (renderRelToks path) ws) = some (elemsOf (relPath path)).reverse := by
  obtain ⟨s, r, rfl⟩ : ∃ s r, path = s :: r := by
    cases path with
    | nil => exact absurd rfl hp.ne
    | cons s r => exact ⟨s, r, rfl⟩
  rw [parseXPath_prefix known _ (rel_not_slash known s r hp ws)]
  have htoks : renderToks (relPath (s :: r)) = .slash :: .slash :: renderRelToks (s :: r) := by
    simp [renderToks, relPath, Step.toks, renderRelToks, Step.pstep]
  have hchars : '/' :: '/' :: renderChars (renderRelToks (s :: r)) ws =
      renderChars (renderToks (relPath (s :: r))) (shiftWs ws) := by
    rw [htoks]
    simp [renderChars, tokChars, shiftWs]
  rw [hchars]
  apply parseXPath_render known _ (pathOK_rel known s r hp)
  rw [htoks]
  exact sepOK_slash _ _ rfl (sepOK_slash _ _ rfl hs)

/-! ## non-vacuity -/

private def known : Str → Bool := fun c => c == ['R'] || c == ['M'] || c == ['L']

/-- `/R//M/@x[12]L` -/
private def pth : List Step :=
  [⟨false, none, none, some ['R']⟩, ⟨true, none, none, some ['M']⟩,
   ⟨false, some ['x'], some (some 12), some ['L']⟩]

private def ws1 : Nat → Str := fun i => if i == 8 then [' '] else if i == 10 then ['\t', ' '] else []

private theorem pth_ok : PathOK known pth := by
  refine ⟨by decide, by decide, ?_, by decide, by decide⟩
  intro s hs
  simp [pth] at hs
  subst hs
  rfl

-- the hypotheses of the main theorems are satisfiable: the theorems apply to this path
example : parseXPath known (renderChars (renderToks pth) ws1) = some (elemsOf pth).reverse :=
  parseXPath_render known pth pth_ok ws1 (by decide)
example : parseXPath known (renderChars (renderRelToks pth) (fun _ => [' '])) =
    some (elemsOf (relPath pth)).reverse :=
  parseXPath_render_rel known pth pth_ok _ (by decide)

example : SepOK (renderToks pth) ws1 := by decide
example : String.ofList (renderChars (renderToks pth) ws1) = "/R//M/@x[ 12\t ]L" := by decide
example : renderToks pth =
    [.slash, .cname ['R'], .slash, .slash, .cname ['M'], .slash, .at, .cname ['x'], .lsqb,
     .digit '1', .digit '2', .rsqb, .cname ['L']] := by decide
example : elemsOf pth = [⟨['R'], none, none, false⟩, ⟨['M'], none, none, true⟩,
    ⟨['L'], some ['x'], some 12, false⟩] := by decide
example : parseXPath known "/R//M/@x[ 12\t ]L".toList = some (elemsOf pth).reverse := by decide
-- relative: `M/@x[12]L` is `//M/@x[12]L`
example : String.ofList (renderChars (renderRelToks pth.tail) (fun _ => [])) = "M/@x[12]L" := by decide
example : parseXPath known "M/@x[12]L".toList = some (elemsOf (relPath pth.tail)).reverse := by decide
example : (elemsOf (relPath pth.tail)).map (·.anywhere) = [true, false] := by decide
-- `[]` is "no index", a missing class is `ASTNode`
example : parseXPath known "/[]/L".toList =
    some [⟨['L'], none, none, false⟩, ⟨astNodeName, none, none, false⟩] := by decide
-- the separator side condition is necessary: `@x L` without the blank fuses field and class
example : ¬ SepOK [.at, .cname ['x'], .cname ['L']] (fun _ => []) := by decide
example : xlex 10 (renderChars [.at, .cname ['x'], .cname ['L']] (fun _ => [])) =
    some [.at, .cname ['x', 'L']] := by decide
-- `IdentLike` alone is not enough for a name: a leading digit is lexed as a digit token
example : IdentLike ['1', 'a'] ∧ ¬ CNameLike ['1', 'a'] ∧
    xlex 10 (renderChars [.cname ['1', 'a']] (fun _ => [])) = some [.digit '1', .cname ['a']] := by
  refine ⟨⟨by decide, by decide⟩, by decide, by decide⟩
-- an empty step is not a step: `/R//L` written with an empty middle step reads as `//`
example : ¬ (⟨false, none, none, none⟩ : Step).NonEmpty := by decide
-- rejected texts
example : parseXPath known "/R/".toList = none ∧ parseXPath known "/@a".toList = none ∧
    parseXPath known "/Nope".toList = none ∧ parseXPath known "/R[1]".toList = none := by decide

end C07P
end PyOak

#print axioms PyOak.C07P.xlex_render
#print axioms PyOak.C07P.parseSteps_render
#print axioms PyOak.C07P.xwalk_spec
#print axioms PyOak.C07P.digits_significant
#print axioms PyOak.C07P.parseXPath_render
#print axioms PyOak.C07P.parseXPath_render_rel
