/-
C07, additions after the audit (AUDIT.md, C07 §4):

 * `findall_iff_match`   — the property's FIRST sentence, on the entry points themselves:
                           for a tree without repeated objects and every node `n` of it,
                           `n ∈ findall(root)  ↔  match(root, n) = True`
                           (`xmatch` = `ASTXpath.match` including the `is_in_tree` test and the
                           error mapping; `findall` = `ASTXpath.findall`);
   `xmatch_total`        — for a node of the tree `match` never raises;
   `xmatch_foreign`      — for a node outside the tree it raises `ValueError`;
 * `findall_nodup_uid` / `findall_nodup_nodes` — "each once" stated on NODES (the audited
                           `findall_nodup` is about position keys);
 * `xfind`, `xfind_first`, `xfind_none_iff`, `xfind_matches` — `find()` as a definition of its own
                           (first node `findall` yields, or `None`), and its link to `match`;
 * `matchElem_iff`       — the step test spelled out: instance of the class ∧ (field given ⇒ the
                           node hangs under an edge with that field) ∧ (index given ⇒ … with that
                           index); `matchElem_root` — the root (no edge) matches no field / index
                           constraint;
 * `sat_iff_segments`    — a DECLARATIVE reading of the specification `sat` (which is a Bool
                           recursion with a skip branch): the chain is cut into consecutive
                           non-empty segments, one per step; a step matches the LAST member of its
                           segment; a segment has more than one member only under `anywhere`
                           ('//' or a relative path: any number of intermediate levels);
   `sat_absolute_first`  — an absolute first step is aligned with the root itself;
 * `digitsVal_zero_padded` — a zero-padded numeral (`[012]`) denotes its decimal value;
 * `text_findall_iff_match`, `text_match_meaning` — text → meaning composed
                           (`C07P.parseXPath_render` + the above): for every written path, rendered
                           with any admissible white space, the parsed xpath's `findall` and
                           `match` agree, and `match` decides `sat` of the DENOTED path `elemsOf`.
-/
import PyOak.Props.C07Main
import PyOak.Props.C07Parse
namespace PyOak
namespace C07

/-! ## findall ↔ match -/

/-- **`n ∈ findall(root) ↔ match(root, n)`** for every node `n` of a tree without repeated objects.
`els` is `_elements` (root side first); `match` consumes `_elements_reversed`. -/
theorem findall_iff_match (els : List XElem) (root : Node) (h : NoRepeat root) (n : Node)
    (hn : n ∈ allNodes root) :
    n ∈ findall els root ↔ xmatch els.reverse root n = .ok true := by
  have hin : (TreeT.build root).isInTree n = true := (C06.isInTree_iff root n).2 ⟨n, hn, rfl⟩
  constructor
  · intro hf
    simp only [findall, List.mem_map] at hf
    obtain ⟨p, hp, rfl⟩ := hf
    obtain ⟨chain, hc, ⟨pre, rfl, _⟩, hs⟩ := findall_sound els root p hp
    have := match_eq_sat root h pre p.node p.edge els hc
    simp [xmatch, hin, this, hs]
  · intro hm
    obtain ⟨c, oe, hc⟩ := C06.exists_chain root n hn
    have := match_eq_sat root h c n oe els hc
    simp only [xmatch, hin] at hm
    rw [this] at hm
    simp at hm
    have hp := findall_complete_mem els root h (c ++ [(n, oe)]) ⟨n, c.getLast?.map (·.1), oe⟩ hc
      ⟨c, rfl, rfl⟩ hm
    simp only [findall, List.mem_map]
    exact ⟨_, hp, rfl⟩

/-- for a node of the tree `match` returns a Boolean (no exception), namely `sat` of the node's chain -/
theorem xmatch_total (els : List XElem) (root : Node) (h : NoRepeat root) (n : Node)
    (hn : n ∈ allNodes root) :
    ∃ c oe, IsChain root (c ++ [(n, oe)]) ∧ xmatch els.reverse root n = .ok (sat (c ++ [(n, oe)]) els) := by
  have hin : (TreeT.build root).isInTree n = true := (C06.isInTree_iff root n).2 ⟨n, hn, rfl⟩
  obtain ⟨c, oe, hc⟩ := C06.exists_chain root n hn
  refine ⟨c, oe, hc, ?_⟩
  simp [xmatch, hin, match_eq_sat root h c n oe els hc]

/-- `match(root, n)` for an object that is not in the tree: `ValueError` -/
theorem xmatch_foreign (elsRev : List XElem) (root n : Node) (hn : ∀ m ∈ allNodes root, m.uid ≠ n.uid) :
    xmatch elsRev root n = .error .valueError := by
  have hin : (TreeT.build root).isInTree n = false := by
    cases hb : (TreeT.build root).isInTree n with
    | false => rfl
    | true =>
      obtain ⟨m, hm, hu⟩ := (C06.isInTree_iff root n).1 hb
      exact absurd hu (hn m hm)
  simp [xmatch, hin]

/-! ## "each once", on nodes -/

/-- the position of a found entry is determined by its node (table lookup) -/
private def posOf : Except TErr (Option PInfo) → Option Node × Option Edge
  | .ok (some pi) => (some pi.parent, some pi.edge)
  | _ => (none, none)

private theorem pos_det (root : Node) (h : NoRepeat root) (chain : Chain) (p : XPos)
    (hc : IsChain root chain) (hl : lastOf chain p) :
    (p.parent, p.edge) = posOf ((TreeT.build root).getParentInfo p.node) := by
  obtain ⟨pre, rfl, hpar⟩ := hl
  rcases isChain_cases root pre p.node p.edge hc with ⟨rfl, hr, he⟩ | ⟨c', par, pe, e, rfl, he⟩
  · rw [hr, C06.parentInfo_root]; simp [posOf, he, hpar]
  · rw [he] at hc
    rw [C06.parentInfo_chain root h c' par pe p.node e hc]
    simp [posOf, he, hpar]

private theorem nodup_of_map_aux {α β : Type} (f : α → β) (l : List α) (h : (l.map f).Nodup) : l.Nodup := by
  induction l with
  | nil => simp
  | cons a r ih =>
    simp only [List.map_cons, List.nodup_cons, List.mem_map, not_exists, not_and] at h ⊢
    exact ⟨fun hm => h.1 a hm rfl, ih h.2⟩

private theorem nodup_map_on_aux {α β : Type} (f : α → β) (l : List α)
    (hinj : ∀ a ∈ l, ∀ b ∈ l, f a = f b → a = b) (h : l.Nodup) : (l.map f).Nodup := by
  induction l with
  | nil => simp
  | cons a r ih =>
    simp only [List.map_cons, List.nodup_cons, List.mem_map, not_exists, not_and] at h ⊢
    refine ⟨fun b hb hfb => ?_, ih (fun x hx y hy => hinj x (by simp [hx]) y (by simp [hy])) h.2⟩
    have := hinj b (by simp [hb]) a (by simp) hfb
    subst this
    exact h.1 hb

/-- **each once, on node identities**: no object is yielded twice by `findall` -/
theorem findall_nodup_uid (els : List XElem) (root : Node) (h : NoRepeat root) :
    ((findall els root).map (·.uid)).Nodup := by
  have hk := findall_nodup els root
  have hnd : (findallPos els root).Nodup := nodup_of_map_aux _ _ hk
  simp only [findall, List.map_map]
  refine nodup_map_on_aux _ _ ?_ hnd
  intro p hp q hq hpq
  simp only [Function.comp] at hpq
  obtain ⟨cp, hcp, hlp, _⟩ := findall_sound els root p hp
  obtain ⟨cq, hcq, hlq, _⟩ := findall_sound els root q hq
  have hpn : p.node ∈ allNodes root := by
    obtain ⟨pre, rfl, _⟩ := hlp; exact chain_mem_allNodes _ _ _ _ hcp
  have hqn : q.node ∈ allNodes root := by
    obtain ⟨pre, rfl, _⟩ := hlq; exact chain_mem_allNodes _ _ _ _ hcq
  have hn : p.node = q.node := C06.uid_inj root h _ _ hpn hqn hpq
  have h1 := pos_det root h cp p hcp hlp
  have h2 := pos_det root h cq q hcq hlq
  rw [hn] at h1
  rw [← h2] at h1
  obtain ⟨a, b, c⟩ := p
  obtain ⟨a', b', c'⟩ := q
  simp at hn h1
  simp [hn, h1]

/-- **each once, on nodes**: the list `findall` yields has no repetition -/
theorem findall_nodup_nodes (els : List XElem) (root : Node) (h : NoRepeat root) :
    (findall els root).Nodup :=
  nodup_of_map_aux _ _ (findall_nodup_uid els root h)

/-- every node `findall` yields is a node of the tree -/
theorem findall_subset (els : List XElem) (root : Node) (n : Node) (hn : n ∈ findall els root) :
    n ∈ allNodes root := by
  simp only [findall, List.mem_map] at hn
  obtain ⟨p, hp, rfl⟩ := hn
  obtain ⟨c, hc, ⟨pre, rfl, _⟩, _⟩ := findall_sound els root p hp
  exact chain_mem_allNodes _ _ _ _ hc

/-- **the first sentence of C07 in one statement**: `findall(root)` is a repetition-free list whose
members are exactly the nodes `n` of the tree with `match(root, n) = True` -/
theorem findall_exactly_matches (els : List XElem) (root : Node) (h : NoRepeat root) :
    (findall els root).Nodup ∧
      ∀ n, n ∈ findall els root ↔ (n ∈ allNodes root ∧ xmatch els.reverse root n = .ok true) := by
  refine ⟨findall_nodup_nodes els root h, fun n => ⟨fun hn => ?_, fun ⟨hn, hm⟩ => ?_⟩⟩
  · have hmem := findall_subset els root n hn
    exact ⟨hmem, (findall_iff_match els root h n hmem).1 hn⟩
  · exact (findall_iff_match els root h n hn).2 hm

/-! ## find -/

/-- `ASTXpath.find(root)` / `node.find(xpath)`: `next(findall(root), None)`.
(A definition added here: Model/XPath.lean has no `find`; the protocol handler computes exactly this
head.) -/
def xfind (els : List XElem) (root : Node) : Option Node := (findall els root).head?

/-- `find()` returns the first node `findall` yields, or `None` -/
theorem xfind_first (els : List XElem) (root : Node) :
    xfind els root = (match findall els root with | [] => none | n :: _ => some n) := by
  unfold xfind
  cases findall els root <;> rfl

/-- `find()` is `None` exactly when no node of the tree matches -/
theorem xfind_none_iff (els : List XElem) (root : Node) (h : NoRepeat root) :
    xfind els root = none ↔ ∀ n ∈ allNodes root, xmatch els.reverse root n ≠ .ok true := by
  unfold xfind
  rw [List.head?_eq_none_iff]
  constructor
  · intro he n hn hm
    have := (findall_iff_match els root h n hn).2 hm
    rw [he] at this
    cases this
  · intro hall
    cases hf : findall els root with
    | nil => rfl
    | cons n r =>
      have hn : n ∈ findall els root := by rw [hf]; simp
      have hmem := findall_subset els root n hn
      exact absurd ((findall_iff_match els root h n hmem).1 hn) (hall n hmem)

/-- the node `find()` returns is a node of the tree that `match` accepts -/
theorem xfind_matches (els : List XElem) (root : Node) (h : NoRepeat root) (n : Node)
    (hf : xfind els root = some n) : n ∈ allNodes root ∧ xmatch els.reverse root n = .ok true := by
  have hn : n ∈ findall els root := List.mem_of_head? hf
  have hmem := findall_subset els root n hn
  exact ⟨hmem, (findall_iff_match els root h n hmem).1 hn⟩

/-! ## the step test, spelled out -/

/-- **a step matches a node** iff the node is an instance of the named class (`ASTNode` — every
node — when the class is omitted, see `elemOf`), it is stored in the named field when one is given,
and at the given tuple index when one is given -/
theorem matchElem_iff (n : Node) (oe : Option Edge) (el : XElem) :
    matchElem n oe el = true ↔
      n.isInst el.cls = true
        ∧ (∀ f, el.field = some f → ∃ e, oe = some e ∧ e.field = f)
        ∧ (∀ i, el.idx = some i → ∃ e, oe = some e ∧ e.idx = some i) := by
  obtain ⟨cls, fld, idx, aw⟩ := el
  simp only [matchElem, Bool.and_eq_true]
  constructor
  · rintro ⟨⟨hc, hf⟩, hi⟩
    refine ⟨hc, ?_, ?_⟩
    · intro f hfe
      cases hfe
      cases oe with
      | none => simp at hf
      | some e => exact ⟨e, rfl, (by simpa using hf : f = e.field).symm⟩
    · intro i hie
      cases hie
      cases oe with
      | none => simp at hi
      | some e => exact ⟨e, rfl, by simpa using hi⟩
  · rintro ⟨hc, hf, hi⟩
    refine ⟨⟨hc, ?_⟩, ?_⟩
    · cases fld with
      | none => rfl
      | some f =>
        obtain ⟨e, rfl, he⟩ := hf f rfl
        simp [he]
    · cases idx with
      | none => rfl
      | some i =>
        obtain ⟨e, rfl, he⟩ := hi i rfl
        simp [he]

/-- **the root matches no field or index constraint** -/
theorem matchElem_root (n : Node) (el : XElem) :
    matchElem n none el = true ↔ n.isInst el.cls = true ∧ el.field = none ∧ el.idx = none := by
  rw [matchElem_iff]
  constructor
  · rintro ⟨hc, hf, hi⟩
    refine ⟨hc, ?_, ?_⟩
    · cases hfe : el.field with
      | none => rfl
      | some f => obtain ⟨e, he, _⟩ := hf f hfe; cases he
    · cases hie : el.idx with
      | none => rfl
      | some i => obtain ⟨e, he, _⟩ := hi i hie; cases he
  · rintro ⟨hc, hf, hi⟩
    refine ⟨hc, fun f hfe => ?_, fun i hie => ?_⟩
    · rw [hf] at hfe; cases hfe
    · rw [hi] at hie; cases hie

/-! ## declarative reading of `sat` -/

/-- a segment of the chain serves a step: the step matches the segment's LAST member, and the
segment has further (skipped) members above it only when the step is `anywhere` -/
def SegOK (seg : Chain) (el : XElem) : Prop :=
  ∃ pre x, seg = pre ++ [x] ∧ matchElem x.1 x.2 el = true ∧ (el.anywhere = false → pre = [])

/-- one segment per step, in order -/
inductive Segs : List Chain → List XElem → Prop
  | nil : Segs [] []
  | cons {s : Chain} {el : XElem} {ss : List Chain} {els : List XElem} :
      SegOK s el → Segs ss els → Segs (s :: ss) (el :: els)

private theorem sat_to_segments : ∀ (n : Nat) (chain : Chain) (els : List XElem), chain.length = n →
    sat chain els = true → ∃ segs, chain = segs.flatten ∧ Segs segs els := by
  intro n
  induction n with
  | zero =>
    intro chain els hl hs
    have : chain = [] := by simpa using hl
    subst this; simp [sat_nil_left] at hs
  | succ n ih =>
    intro chain els hl hs
    cases chain with
    | nil => simp at hl
    | cons x c =>
      cases els with
      | nil => simp [sat_nil_right] at hs
      | cons el rest =>
        simp only [List.length_cons, Nat.add_right_cancel_iff] at hl
        rw [sat_cons] at hs
        simp only [Bool.or_eq_true, Bool.and_eq_true] at hs
        rcases hs with ⟨hm, h⟩ | ⟨⟨ha, hne⟩, h⟩
        · cases rest with
          | nil =>
            simp at h; subst h
            exact ⟨[[x]], by simp, .cons ⟨[], x, rfl, hm, fun _ => rfl⟩ .nil⟩
          | cons e2 r2 =>
            simp at h
            obtain ⟨segs', hc, hf⟩ := ih c (e2 :: r2) hl h.2
            exact ⟨[x] :: segs', by simp [hc], .cons ⟨[], x, rfl, hm, fun _ => rfl⟩ hf⟩
        · obtain ⟨segs0, hc, hf⟩ := ih c (el :: rest) hl h
          cases hf with
          | cons h0 hf' =>
            rename_i s0 segs'
            obtain ⟨pre, y, rfl, hmy, _⟩ := h0
            refine ⟨(x :: pre ++ [y]) :: segs', by simp [hc], .cons ⟨x :: pre, y, rfl, hmy, ?_⟩ hf'⟩
            intro hf; simp [hf] at ha

private theorem segs_flatten_ne (segs : List Chain) (els : List XElem) (h : Segs segs els) (hne : els ≠ []) :
    segs.flatten ≠ [] := by
  cases h with
  | nil => exact absurd rfl hne
  | cons h0 _ => obtain ⟨pre, y, rfl, _⟩ := h0; simp

private theorem segments_to_sat : ∀ (n : Nat) (segs : List Chain) (els : List XElem), segs.flatten.length = n →
    els ≠ [] → Segs segs els → sat segs.flatten els = true := by
  intro n
  induction n with
  | zero =>
    intro segs els hl hne hf
    have := segs_flatten_ne segs els hf hne
    have h0 : segs.flatten = [] := List.eq_nil_of_length_eq_zero hl
    exact absurd h0 this
  | succ n ih =>
    intro segs els hl hne hf
    cases hf with
    | nil => exact absurd rfl hne
    | cons h0 hf' =>
      rename_i s0 el segs' rest
      obtain ⟨pre, y, rfl, hmy, hpre⟩ := h0
      cases pre with
      | nil =>
        simp only [List.nil_append, List.flatten_cons, List.singleton_append, List.length_cons,
          Nat.add_right_cancel_iff] at hl ⊢
        rw [sat_cons]
        cases rest with
        | nil => cases hf'; simp [hmy]
        | cons e2 r2 =>
          have h1 := ih segs' (e2 :: r2) hl (by simp) hf'
          have h2 := segs_flatten_ne segs' (e2 :: r2) hf' (by simp)
          simp [hmy, h1, h2]
      | cons x pre' =>
        have ha : el.anywhere = true := by
          cases h : el.anywhere with
          | true => rfl
          | false => exact absurd (hpre h) (by simp)
        have hfl : ((x :: pre' ++ [y]) :: segs').flatten = x :: ((pre' ++ [y]) :: segs').flatten := by simp
        rw [hfl] at hl ⊢
        simp only [List.length_cons, Nat.add_right_cancel_iff] at hl
        have h1 := ih ((pre' ++ [y]) :: segs') (el :: rest) hl (by simp)
          (.cons ⟨pre', y, rfl, hmy, fun h => by simp [h] at ha⟩ hf')
        rw [sat_cons]
        have h2 : ((pre' ++ [y]) :: segs').flatten ≠ [] := by simp
        have h2' : ((pre' ++ [y]) :: segs').flatten.isEmpty = false := by simp
        simp only [ha, h1, h2', Bool.not_false, Bool.and_true, Bool.or_true]

/-- **declarative reading of the documented semantics**: `sat chain els` holds iff the root-first
chain of the node splits into consecutive non-empty segments, one per step ("steps separated by
'/'"); each step matches the last member of its segment; a segment contains skipped levels only when
its step is `anywhere` ("'//' (or a path not starting with '/') allowing any number of intermediate
levels"); the last step's segment ends at the node asked about (the chain's last member) and the
first segment starts at the root (the chain's first member). -/
theorem sat_iff_segments (chain : Chain) (els : List XElem) :
    sat chain els = true ↔ els ≠ [] ∧ ∃ segs, chain = segs.flatten ∧ Segs segs els := by
  constructor
  · intro h
    exact ⟨(sat_ne_nil h).2, sat_to_segments _ chain els rfl h⟩
  · rintro ⟨hne, segs, rfl, hf⟩
    exact segments_to_sat _ segs els rfl hne hf

/-- **an absolute first step matches only the root**: when the first step is not `anywhere`, it is
the chain's first member (the root, which hangs under no edge) that it must match -/
theorem sat_absolute_first (x : Node × Option Edge) (c : Chain) (el : XElem) (rest : List XElem)
    (ha : el.anywhere = false) (h : sat (x :: c) (el :: rest) = true) : matchElem x.1 x.2 el = true := by
  rw [sat_cons] at h
  simp only [ha, Bool.false_and, Bool.or_false, Bool.and_eq_true] at h
  exact h.1

/-! ## text → meaning, composed -/

open C07P in
/-- **from the text to the agreement of search and match**: every written path (absolute text,
arbitrary admissible white space after the tokens) is accepted, and for the xpath object so obtained
`findall` and `match` agree on every node of a tree without repeated objects -/
theorem text_findall_iff_match (known : Str → Bool) (path : List Step) (hp : PathOK known path)
    (ws : Nat → Str) (hs : SepOK (renderToks path) ws) (root : Node) (h : NoRepeat root) (n : Node)
    (hn : n ∈ allNodes root) :
    ∃ elsRev, parseXPath known (renderChars (renderToks path) ws) = some elsRev
      ∧ (n ∈ findall elsRev.reverse root ↔ xmatch elsRev root n = .ok true) := by
  refine ⟨_, parseXPath_render known path hp ws hs, ?_⟩
  have := findall_iff_match (elemsOf path) root h n hn
  simp only [List.reverse_reverse]
  exact this

open C07P in
/-- **from the text to the documented meaning**: `match(root, n)` of the parsed text decides `sat`
of the DENOTED path `elemsOf path` (class omitted = `ASTNode`, `[]` = no index, all decimal digits
significant, `//` = anywhere) along the chain of `n`; and `findall` finds exactly the nodes whose
chain satisfies it -/
theorem text_match_meaning (known : Str → Bool) (path : List Step) (hp : PathOK known path)
    (ws : Nat → Str) (hs : SepOK (renderToks path) ws) (root : Node) (h : NoRepeat root) :
    ∃ elsRev, parseXPath known (renderChars (renderToks path) ws) = some elsRev
      ∧ (∀ c n oe, IsChain root (c ++ [(n, oe)]) →
          xmatch elsRev root n = .ok (sat (c ++ [(n, oe)]) (elemsOf path)))
      ∧ (∀ n, n ∈ findall elsRev.reverse root ↔
          ∃ c oe, IsChain root (c ++ [(n, oe)]) ∧ sat (c ++ [(n, oe)]) (elemsOf path) = true) := by
  refine ⟨_, parseXPath_render known path hp ws hs, ?_, ?_⟩
  · intro c n oe hc
    have hmem : n ∈ allNodes root := chain_mem_allNodes root c n oe hc
    have hin : (TreeT.build root).isInTree n = true := (C06.isInTree_iff root n).2 ⟨n, hmem, rfl⟩
    have := match_eq_sat root h c n oe (elemsOf path) hc
    simp [xmatch, hin, this]
  · intro n
    simp only [List.reverse_reverse]
    constructor
    · intro hf
      simp only [findall, List.mem_map] at hf
      obtain ⟨p, hpm, rfl⟩ := hf
      obtain ⟨chain, hc, ⟨pre, rfl, _⟩, hsat⟩ := findall_sound _ root p hpm
      exact ⟨pre, p.edge, hc, hsat⟩
    · rintro ⟨c, oe, hc, hsat⟩
      have hpm := findall_complete_mem (elemsOf path) root h (c ++ [(n, oe)]) ⟨n, c.getLast?.map (·.1), oe⟩ hc
        ⟨c, rfl, rfl⟩ hsat
      simp only [findall, List.mem_map]
      exact ⟨_, hpm, rfl⟩

/-! ## zero-padded indices -/

theorem digitsVal_zero_cons (l : List Char) : digitsVal ('0' :: l) = digitsVal l := by
  simp [digitsVal]

/-- **all digits significant, also after leading zeros**: the numeral `0…0<decimal of n>` (as in `[012]`)
denotes `n` — not its first digit, not an octal number -/
theorem digitsVal_zero_padded (k n : Nat) : digitsVal (List.replicate k '0' ++ natStr n) = n := by
  induction k with
  | zero => simpa using C07P.digits_significant n
  | succ k ih => rw [List.replicate_succ, List.cons_append, digitsVal_zero_cons, ih]

/-! ## non-vacuity: a concrete tree; `//M/L`, `/R//L` -/
section Examples
private def leaf (u : Nat) : Node :=
  .mk { uid := u, cls := ['L'], mro := [['L']], org := ⟨0, []⟩, props := [], truthy := true } []
private def mid : Node :=
  .mk { uid := 2, cls := ['M'], mro := [['M']], org := ⟨0, []⟩, props := [], truthy := false }
    [.mk ['x'] false [leaf 3]]
private def tree : Node :=
  .mk { uid := 0, cls := ['R'], mro := [['R']], org := ⟨0, []⟩, props := [], truthy := true }
    [.mk ['a'] true [leaf 1, mid], .mk ['b'] false [leaf 4]]
/-- `//M/L` -/
private def pML : List XElem := [⟨['M'], none, none, true⟩, ⟨['L'], none, none, false⟩]
/-- `/R//L` -/
private def pRL : List XElem := [⟨['R'], none, none, false⟩, ⟨['L'], none, none, true⟩]
private def chain3 : Chain := [(tree, none), (mid, some ⟨['a'], some 1⟩), (leaf 3, some ⟨['x'], none⟩)]

private def okTrue : Except MErr Bool → Bool
  | .ok true => true
  | _ => false
private def isValueError : Except MErr Bool → Bool
  | .error .valueError => true
  | _ => false

private theorem tree_noRepeat : NoRepeat tree := by unfold NoRepeat; decide
private theorem okTrue_eq {r : Except MErr Bool} (h : okTrue r = true) : r = .ok true := by
  cases r with
  | error e => cases h
  | ok b => cases b <;> first | rfl | cases h
private theorem leaf3_mem : leaf 3 ∈ allNodes tree := by
  have : allNodes tree = [tree, leaf 1, mid, leaf 3, leaf 4] := by rfl
  rw [this]; simp
-- both sides of `findall_iff_match` are true for leaf 3 and `//M/L`, false for leaf 1
example : (findall pML tree).map (·.uid) = [3] := by decide
example : okTrue (xmatch pML.reverse tree (leaf 3)) = true := by decide
example : okTrue (xmatch pML.reverse tree (leaf 1)) = false := by decide
example : leaf 3 ∈ findall pML tree := (findall_iff_match pML tree tree_noRepeat (leaf 3) leaf3_mem).2 (okTrue_eq (by decide))
-- a foreign object: ValueError
example : isValueError (xmatch pML.reverse tree (leaf 9)) = true := by decide
-- find
example : (xfind pRL tree).map (·.uid) = some 1 := by decide
example : (xfind [⟨['Q'], none, none, true⟩] tree).map (·.uid) = none := by decide
-- `Segs` : `//M/L` against the chain of leaf 3 — segments `[root, mid]` (root skipped) and `[leaf 3]`
example : Segs [[(tree, none), (mid, some ⟨['a'], some 1⟩)], [(leaf 3, some ⟨['x'], none⟩)]] pML :=
  .cons ⟨[(tree, none)], (mid, some ⟨['a'], some 1⟩), rfl, by decide, by decide⟩
    (.cons ⟨[], (leaf 3, some ⟨['x'], none⟩), rfl, by decide, fun _ => rfl⟩ .nil)
example : sat chain3 pML = true := by decide
-- a zero-padded index: `/R/@a[01]M` selects element 1
example : parseXPath (fun _ => true) ['/', 'R', '/', '@', 'a', '[', '0', '1', ']', 'M'] =
    some [⟨['M'], some ['a'], some 1, false⟩, ⟨['R'], none, none, false⟩] := by decide
example : (findall [⟨['R'], none, none, false⟩, ⟨['M'], some ['a'], some 1, false⟩] tree).map (·.uid) = [2] := by decide
-- the root matches no field / index constraint
example : matchElem tree none ⟨['R'], some ['a'], none, false⟩ = false := by decide
example : matchElem tree none ⟨['R'], none, none, false⟩ = true := by decide
end Examples

end C07
end PyOak
