/-
C04 (registry half) — `_deserialize` on the registry machine: a serialized node whose id is
registered is answered by the registered original (nothing is created); otherwise a new node is
created, registered under exactly the serialized id, with the serialized class and, as children,
the results of its serialized children in order; the same serialized id always maps to the same
object; and (absent the id clash of defect F19, `clashAux`) no registry entry is overwritten.
-/
import PyOak.Props.C10
namespace PyOak
namespace C04
open RState RegL C03

def SerTree.sid : SerTree → Str
  | .mk sid _ _ _ => sid

/-! ### (1) re-use of registered originals -/

/-- the registered original is returned, nothing is created, the state is unchanged -/
theorem deser_reuse {s : RState} {sid : Str} {u : Nat} (h : s.regGet sid = some u) (cls : Str) (mro : List Str)
    (kids : List SerTree) (fresh : Fresh) : s.deserAux (.mk sid cls mro kids) fresh = some (s, u, fresh) := by
  rw [deserAux_eq, h]

theorem deser_reuse' {s : RState} {t : SerTree} {u : Nat} (h : s.regGet (SerTree.sid t) = some u) (fresh : Fresh) :
    s.deserAux t fresh = some (s, u, fresh) := by
  cases t with
  | mk sid cls mro kids => exact deser_reuse h cls mro kids fresh

/-- every node id of the tree is registered (to a live object, at quiescent points: `RegLive`) -/
def AllRegistered (s : RState) : SerTree → Prop
  | .mk sid _ _ kids => (s.regGet sid).isSome = true ∧ ∀ t ∈ kids, AllRegistered s t

/-- a tree all of whose ids are registered deserializes to the original root, state unchanged
(only the root is ever looked at) -/
theorem deser_reuse_all {s : RState} {t : SerTree} (h : AllRegistered s t) (fresh : Fresh) :
    ∃ u, s.regGet (SerTree.sid t) = some u ∧ s.deserAux t fresh = some (s, u, fresh) := by
  cases t with
  | mk sid cls mro kids =>
    unfold AllRegistered at h
    obtain ⟨u, hu⟩ := Option.isSome_iff_exists.mp h.1
    exact ⟨u, hu, deser_reuse hu cls mro kids fresh⟩

/-- a list of children whose ids are all registered: the registered objects, in order -/
theorem deserKids_reuse {s : RState} : ∀ (ts : List SerTree) (fresh : Fresh),
    (∀ t ∈ ts, (s.regGet (SerTree.sid t)).isSome = true) →
    ∃ us, s.deserKids ts fresh = some (s, us, fresh) ∧ us.map some = ts.map (fun t => s.regGet (SerTree.sid t))
  | [], fresh, _ => ⟨[], deserKids_nil s fresh, rfl⟩
  | t :: r, fresh, h => by
    obtain ⟨u, hu⟩ := Option.isSome_iff_exists.mp (h t (by simp))
    obtain ⟨us, h1, h2⟩ := deserKids_reuse r fresh (fun t' ht' => h t' (List.mem_cons_of_mem _ ht'))
    refine ⟨u :: us, ?_, by simp [hu, h2]⟩
    simp only [deserKids_cons, deser_reuse' hu, h1]

/-! ### persistence of registry entries and records -/

/-- `s'` extends `s`: every registry entry and every record of `s` is in `s'` -/
structure Persist (s s' : RState) : Prop where
  inv : Inv s'
  reg : ∀ e ∈ s.reg, e ∈ s'.reg
  heap : ∀ o ∈ s.heap, o ∈ s'.heap

theorem Persist.refl {s : RState} (h : Inv s) : Persist s s := ⟨h, fun _ h => h, fun _ h => h⟩

theorem Persist.trans {a b c : RState} (h1 : Persist a b) (h2 : Persist b c) : Persist a c :=
  ⟨h2.inv, fun e he => h2.reg e (h1.reg e he), fun o ho => h2.heap o (h1.heap o ho)⟩

theorem Persist.regGet {s s' : RState} (h : Persist s s') {k : Str} {u : Nat} (hg : s.regGet k = some u) :
    s'.regGet k = some u :=
  rget_of_mem h.inv.keysNodup (h.reg _ (rget_some_mem hg))

theorem Persist.mem_reg {s s' : RState} (h : Persist s s') {k : Str} {u : Nat} (hm : (k, u) ∈ s.reg) :
    s'.regGet k = some u :=
  rget_of_mem h.inv.keysNodup (h.reg _ hm)

theorem Persist.obj {s s' : RState} (h : Persist s s') {o : RObj} (ho : o ∈ s.heap) : s'.obj? o.uid = some o :=
  obj?_of_mem h.inv.heapNodup (h.heap o ho)

/-- an evolution without id clash only extends registry and heap -/
theorem evol_persist {K L : Nat → Prop} {F : Bool} {s f s1 f1} (hE : Evol K L F false s f s1 f1)
    (hI : Inv s) (hf : FreshOk s f) : Persist s s1 where
  inv := (evol_good hE hI hf).1
  reg := (evol_cases hE hI hf).2
  heap := by
    intro o ho
    apply C10.evol_heap_frame hE ho
    intro hm
    exact hf.2 _ hm (List.mem_map.mpr ⟨o, ho, rfl⟩)

/-- **(3)** absent an id clash, `_deserialize` overwrites no registry entry: every `(k, u)` of the
registry is still there afterwards (so no live foreign node is evicted), and no record changes -/
theorem deser_persist {s : RState} {t : SerTree} {fresh : Fresh} {s' : RState} {u : Nat} {fr : Fresh}
    (hI : Inv s) (hf : FreshOk s fresh) (hnc : clashAux s t fresh = false)
    (h : s.deserAux t fresh = some (s', u, fr)) : Persist s s' :=
  evol_persist (deserAux_evolK (fun _ => True) t s fresh s' u fr (fun _ _ => trivial) (fun _ _ => trivial) hnc h).1
    hI hf

theorem deser_never_overwrites_live {s : RState} {t : SerTree} {fresh : Fresh} {s' : RState} {u : Nat}
    {fr : Fresh} (hI : Inv s) (hf : FreshOk s fresh) (hnc : clashAux s t fresh = false)
    (h : s.deserAux t fresh = some (s', u, fr)) :
    (∀ k w, (k, w) ∈ s.reg → (k, w) ∈ s'.reg) ∧ (∀ k w, s.regGet k = some w → s'.regGet k = some w) :=
  ⟨fun k w hm => (deser_persist hI hf hnc h).reg (k, w) hm, fun _ _ hg => (deser_persist hI hf hnc h).regGet hg⟩

theorem deserKids_persist {s : RState} {ts : List SerTree} {fresh : Fresh} {s' : RState} {us : List Nat}
    {fr : Fresh} (hI : Inv s) (hf : FreshOk s fresh) (hnc : clashKids s ts fresh = false)
    (h : s.deserKids ts fresh = some (s', us, fr)) : Persist s s' ∧ FreshOk s' fr :=
  have hE := (deserKids_evolK (fun _ => True) ts s fresh s' us fr (fun _ _ => trivial) (fun _ _ => trivial) hnc h).1
  ⟨evol_persist hE hI hf, (evol_good hE hI hf).2⟩

/-! ### (2) what `_deserialize` builds -/

mutual
/-- `Realizes s' si f t u`: deserializing `t` in state `si` (fresh tokens `f`) yields `u`, described
by facts of the **final** state `s'`. -/
inductive Realizes (s' : RState) : RState → Fresh → SerTree → Nat → Prop
  /-- the id was registered when the node was processed: the registered object is returned
  (and is still the one registered under `sid` at the end) -/
  | reuse {si : RState} {f : Fresh} {sid cls : Str} {mro : List Str} {kids : List SerTree} {u : Nat}
      (h : si.regGet sid = some u) (hreg : s'.regGet sid = some u) :
      Realizes s' si f (.mk sid cls mro kids) u
  /-- the id was free: a new object (a fresh token, not an object before) is created; at the end it
  is registered under exactly `sid`, carries `sid`, the serialized class, and its children are the
  results of the serialized children, in order -/
  | create {si : RState} {f : Fresh} {sid cls : Str} {mro : List Str} {kids : List SerTree} {u : Nat}
      {us : List Nat} {o : RObj} {s1 : RState} {base : Str} {fr : Fresh}
      (h : si.regGet sid = none)
      (hk : si.deserKids kids f = some (s1, us, (u, base) :: fr))
      (hkids : RealizesL s' si f kids us)
      (htok : u ∈ f.map (·.1)) (hnew : u ∉ si.heap.map (·.uid))
      (hreg : s'.regGet sid = some u) (ho : s'.obj? u = some o)
      (hid : o.id = sid) (hcls : o.cls = cls) (hmro : o.mro = mro) (hks : o.kids = us) :
      Realizes s' si f (.mk sid cls mro kids) u
inductive RealizesL (s' : RState) : RState → Fresh → List SerTree → List Nat → Prop
  | nil {si : RState} {f : Fresh} : RealizesL s' si f [] []
  | cons {si : RState} {f : Fresh} {t : SerTree} {r : List SerTree} {u : Nat} {us : List Nat}
      {s1 : RState} {f1 : Fresh}
      (ha : si.deserAux t f = some (s1, u, f1)) (h1 : Realizes s' si f t u) (h2 : RealizesL s' s1 f1 r us) :
      RealizesL s' si f (t :: r) (u :: us)
end

mutual
theorem deserAux_realizes : ∀ (t : SerTree) (si : RState) (f : Fresh) (s2 : RState) (u : Nat) (f2 : Fresh),
    Inv si → FreshOk si f → clashAux si t f = false → si.deserAux t f = some (s2, u, f2) →
    ∀ s', Persist s2 s' → Realizes s' si f t u
  | .mk sid cls mro kids, si, f, s2, u, f2, hI, hf, hc, h, s', hP => by
    rcases deserAux_inv h with ⟨hg, rfl, rfl⟩ | ⟨hg, s1, us, base, hk, hs2⟩
    · exact Realizes.reuse hg (hP.regGet hg)
    · have hc' := hc
      rw [clashAux_eq] at hc'
      simp only [hg, hk, Bool.or_eq_false_iff] at hc'
      obtain ⟨hc1, hc2⟩ := hc'
      obtain ⟨hP1, hf1⟩ := deserKids_persist hI hf hc1 hk
      have hI1 := hP1.inv
      have htok1 : u ∉ s1.heap.map (·.uid) := hf1.head
      -- the last step, as a one-step evolution from `s1`
      have hE : Evol (fun _ => True) (fun _ => True) true false s1 ((u, base) :: f2) s2 f2 := by
        rw [hs2]
        split
        · exact Evol.new (Evol.refl _ _) _ _ _ (fun _ _ => trivial) trivial
        · rename_i hne
          refine Evol.newForce rfl (Evol.refl _ _) _ _ _ (fun _ _ => trivial) trivial _ (fun _ => ?_)
          simp only [hne, Bool.not_false, Bool.true_and] at hc2
          rw [← rget_isSome_iff, ← regGet_def]
          simp [hc2]
      have hP12 : Persist s1 s2 := evol_persist hE hI1 hf1
      have hkids := deserKids_realizes kids si f s1 us _ hI hf hc1 hk s' (hP12.trans hP)
      obtain ⟨p, hp⟩ := (deserKids_evolK (fun _ => True) kids si f s1 us _ (fun _ _ => trivial)
        (fun _ _ => trivial) hc1 hk).1.suffix
      have htok : u ∈ f.map (·.1) := by rw [hp]; simp
      have hnew : u ∉ si.heap.map (·.uid) := hf.2 u htok
      -- the record created, in `s2`
      have hrec : ∃ o ∈ s2.heap, o.uid = u ∧ o.id = sid ∧ o.cls = cls ∧ o.mro = mro ∧ o.kids = us ∧
          (sid, u) ∈ s2.reg := by
        rw [hs2]
        split
        · rename_i heq
          have heq' : (s1.pNew u cls mro base us).idOf u = sid := by simpa using heq
          rw [idOf_pNew htok1] at heq'
          refine ⟨_, List.mem_append_right _ (List.mem_singleton.mpr rfl), rfl, heq', rfl, rfl, rfl, ?_⟩
          simp only [pNew]
          rw [heq']
          exact mem_regSet.mpr (Or.inr rfl)
        · refine ⟨{ uid := u, cls := cls, mro := mro, base := base, id := sid, kids := us }, ?_, rfl, rfl, rfl,
            rfl, rfl, ?_⟩
          · simp only [pForceId, pNew]
            refine List.mem_map.mpr ⟨{ uid := u, cls := cls, mro := mro, base := base, id := s1.freshId base, kids := us }, List.mem_append_right _ (List.mem_singleton.mpr rfl), ?_⟩
            simp
          · simp only [pForceId]
            exact mem_regSet.mpr (Or.inr rfl)
      obtain ⟨o, ho, hu, hid, hcls, hmro, hks, hreg⟩ := hrec
      exact Realizes.create hg hk hkids htok hnew (hP.mem_reg hreg) (hu ▸ hP.obj ho) hid hcls hmro hks
theorem deserKids_realizes : ∀ (ts : List SerTree) (si : RState) (f : Fresh) (s2 : RState) (us : List Nat)
    (f2 : Fresh), Inv si → FreshOk si f → clashKids si ts f = false → si.deserKids ts f = some (s2, us, f2) →
    ∀ s', Persist s2 s' → RealizesL s' si f ts us
  | [], si, f, s2, us, f2, _, _, _, h, s', _ => by
    simp [deserKids_nil] at h
    obtain ⟨_, rfl, _⟩ := h
    exact RealizesL.nil
  | t :: r, si, f, s2, us, f2, hI, hf, hc, h, s', hP => by
    obtain ⟨s1, u, f1, us', ha, hk, rfl⟩ := deserKids_cons_inv h
    rw [clashKids_cons] at hc
    simp only [ha, Bool.or_eq_false_iff] at hc
    have hE1 := (deserAux_evolK (fun _ => True) t si f s1 u f1 (fun _ _ => trivial) (fun _ _ => trivial)
      hc.1 ha).1
    obtain ⟨hI1, hf1⟩ := evol_good hE1 hI hf
    obtain ⟨hP12, _⟩ := deserKids_persist hI1 hf1 hc.2 hk
    exact RealizesL.cons ha (deserAux_realizes t si f s1 u f1 hI hf hc.1 ha s' (hP12.trans hP))
      (deserKids_realizes r s1 f1 s2 us' f2 hI1 hf1 hc.2 hk s' hP)
end

/-- **(2)** the result of `_deserialize`, described in the final state -/
theorem deser_fresh_ids {s : RState} {t : SerTree} {fresh : Fresh} {s' : RState} {u : Nat} {fr : Fresh}
    (hI : Inv s) (hf : FreshOk s fresh) (hnc : clashAux s t fresh = false)
    (h : s.deserAux t fresh = some (s', u, fr)) : Realizes s' s fresh t u :=
  deserAux_realizes t s fresh s' u fr hI hf hnc h s' (Persist.refl (deser_persist hI hf hnc h).inv)

/-- every deserialized node — re-used or created — ends up registered under its serialized id and
carries that id -/
theorem Realizes.registered {s' si : RState} {f : Fresh} {t : SerTree} {u : Nat} (hI' : Inv s')
    (h : Realizes s' si f t u) : s'.regGet (SerTree.sid t) = some u ∧ s'.idOf u = SerTree.sid t := by
  cases h with
  | reuse _ hreg => exact ⟨hreg, key_of_mem hI' (rget_some_mem hreg)⟩
  | create _ _ _ _ _ hreg => exact ⟨hreg, key_of_mem hI' (rget_some_mem hreg)⟩

/-- root-level reading of (2) for a node whose id was free -/
theorem deser_root_created {s : RState} {sid cls : Str} {mro : List Str} {kids : List SerTree} {fresh : Fresh}
    {s' : RState} {u : Nat} {fr : Fresh} (hI : Inv s) (hf : FreshOk s fresh)
    (hnc : clashAux s (.mk sid cls mro kids) fresh = false)
    (h : s.deserAux (.mk sid cls mro kids) fresh = some (s', u, fr)) (hfree : s.regGet sid = none) :
    u ∈ fresh.map (·.1) ∧ u ∉ s.heap.map (·.uid) ∧ s'.regGet sid = some u ∧ s'.idOf u = sid ∧
    ∃ o s1 us base, s'.obj? u = some o ∧ o.cls = cls ∧ o.mro = mro ∧ o.kids = us ∧
      s.deserKids kids fresh = some (s1, us, (u, base) :: fr) ∧ RealizesL s' s fresh kids us := by
  have hR := deser_fresh_ids hI hf hnc h
  have hI' := (deser_persist hI hf hnc h).inv
  have hreg := (hR.registered hI')
  cases hR with
  | reuse hg _ => rw [hfree] at hg; cases hg
  | @create _ _ _ _ _ _ _ us o s1 base fr' _ hk hkids htok hnew _ ho _ hcls hmro hks =>
    have : fr' = fr := by
      rcases deserAux_inv h with ⟨hg, _, _⟩ | ⟨_, s1', us', base', hk', _⟩
      · rw [hfree] at hg; cases hg
      · rw [hk] at hk'
        simp only [Option.some.injEq, Prod.mk.injEq, List.cons.injEq] at hk'
        exact hk'.2.2.2
    subst this
    exact ⟨htok, hnew, hreg.1, hreg.2, o, s1, us, base, ho, hcls, hmro, hks, hk, hkids⟩

/-- **sharing**: once a node with id `sid` has been deserialized (re-used or created), any further
serialized node with the same id — whatever its other fields — is answered by that same object,
and nothing is created -/
theorem deser_shared {s : RState} {sid cls : Str} {mro : List Str} {kids : List SerTree} {fresh : Fresh}
    {s' : RState} {u : Nat} {fr : Fresh} (hI : Inv s) (hf : FreshOk s fresh)
    (hnc : clashAux s (.mk sid cls mro kids) fresh = false)
    (h : s.deserAux (.mk sid cls mro kids) fresh = some (s', u, fr))
    (cls' : Str) (mro' : List Str) (kids' : List SerTree) (f' : Fresh) :
    s'.deserAux (.mk sid cls' mro' kids') f' = some (s', u, f') := by
  have hI' := (deser_persist hI hf hnc h).inv
  exact deser_reuse ((deser_fresh_ids hI hf hnc h).registered hI').1 cls' mro' kids' f'

/-- … and this keeps holding after any later clash-free `_deserialize` -/
theorem deser_shared_later {s s' s'' : RState} {t t' : SerTree} {fresh f' : Fresh} {u u' : Nat} {fr fr' : Fresh}
    (hI : Inv s) (hf : FreshOk s fresh) (hnc : clashAux s t fresh = false)
    (h : s.deserAux t fresh = some (s', u, fr))
    (hf' : FreshOk s' f') (hnc' : clashAux s' t' f' = false) (h' : s'.deserAux t' f' = some (s'', u', fr'))
    (f'' : Fresh) : s''.deserAux t f'' = some (s'', u, f'') := by
  have hP := deser_persist hI hf hnc h
  have hP' := deser_persist hP.inv hf' hnc' h'
  exact deser_reuse' (hP'.regGet ((deser_fresh_ids hI hf hnc h).registered hP.inv).1) f''

/-! non-vacuity: a parent with two occurrences of the same child id: one object is created for the
child and shared -/

section Examples
private def A : Str := "A".toList
private def P : Str := "P".toList
private def tree : SerTree :=
  .mk "p".toList P [P] [.mk "c".toList A [A] [], .mk "c".toList A [A] []]
private def toks : Fresh := [(1, "d1".toList), (2, "d2".toList)]

example : clashAux {} tree toks = false := by decide
example : (({} : RState).deserAux tree toks).map (fun r => r.1.reg) =
    some [("c".toList, 1), ("p".toList, 2)] := by decide
example : (({} : RState).deserAux tree toks).map (fun r => r.1.kidsOf 2) = some [1, 1] := by decide
example : (({} : RState).deserAux tree toks).map (fun r => r.2.1) = some 2 := by decide
end Examples

end C04
end PyOak

#print axioms PyOak.C04.deser_reuse
#print axioms PyOak.C04.deser_reuse_all
#print axioms PyOak.C04.deserKids_reuse
#print axioms PyOak.C04.deser_fresh_ids
#print axioms PyOak.C04.deser_root_created
#print axioms PyOak.C04.Realizes.registered
#print axioms PyOak.C04.deser_shared
#print axioms PyOak.C04.deser_shared_later
#print axioms PyOak.C04.deser_persist
#print axioms PyOak.C04.deser_never_overwrites_live
