/-
Bridge for `is_equal`: the hand-written model `isEqual` (Model/Encode.lean) is the definition GENERATED from
`ASTNode.is_equal` (src/pyoak/node.py); hence `C01.isEqual_iff` is a theorem about the source as it is now.
-/
import PyOak.Gen.KernelsIsEq
import PyOak.Model.Encode
namespace PyOak.GenBridge
open PyOak

theorem isEqual_eq_gen (H : Str → Str) (a b : Node) :
    (Except.ok (isEqual H a b) : Except Unit Bool) =
      GenK.is_equal (fun x y => x.cls == y.cls) (cid H) (fun n => n.org.key) (fun _ => ([] : List Node)) a b := by
  unfold isEqual GenK.is_equal
  have hsym : (b.cls == a.cls) = (a.cls == b.cls) := by
    by_cases h : a.cls = b.cls
    · rw [h]
    · have h' : ¬ b.cls = a.cls := fun e => h e.symm
      rw [beq_eq_false_iff_ne.mpr h, beq_eq_false_iff_ne.mpr h']
  simp only [hsym]
  cases (a.cls == b.cls) <;> cases (cid H a == cid H b) <;> (try simp) <;> (try grind)

end PyOak.GenBridge
