/-
C09 — `transform` against the INDEPENDENT rewrite specification `Rw` (Spec/Rewrite.lean).

`T_strip` / `transform_strip`: for every visitor and every tree, the result of the model's
`transform` with all identities erased is the result of the pure bottom-up rewrite `Rw` with all
identities erased; errors coincide as well.  Hypotheses:
* `uidsLt c n` — the counter is fresh (every identity of the input is `< c`);
* `Coh v n` — "an identity has one value": when a method called for a visited child `x` returns a
  node `k` with `k.uid = x.uid` (the model reads this as `k is x`), then `k` and `x` are the same
  value up to identities.
Both are necessary: `T_strip_needs_coh`, `T_strip_needs_fresh` (concrete witnesses).  Neither can be
violated by real objects (an object has one value; a new object's identity differs from all live
ones).
-/
import PyOak.Props.C09
import PyOak.Spec.Rewrite
namespace PyOak
namespace C09

/-! ### small facts about `strip`, `withProp` -/

theorem stripNodes_append (a b : List Node) : stripNodes (a ++ b) = stripNodes a ++ stripNodes b := by
  induction a with
  | nil => simp [stripNodes]
  | cons x r ih => simp [stripNodes, ih]

theorem stripNodes_toList (o : Option Node) : stripNodes o.toList = (o.map strip).toList := by
  cases o <;> simp [stripNodes]

theorem stripNodes_eq_map (ns : List Node) : stripNodes ns = ns.map strip := by
  induction ns with
  | nil => rfl
  | cons x r ih => simp [stripNodes, ih]

theorem hasInitProp_eq (name : Str) (ps : List PropV) :
    hasInitProp name ps = ps.any (fun q => q.name == name && q.init) := by
  induction ps with
  | nil => rfl
  | cons q r ih => simp [hasInitProp, ih]

theorem putProp_eq (p : PropV) (ps : List PropV) :
    putProp p ps = ps.map fun q =>
      if q.name == p.name then { p with compare := q.compare, init := q.init } else q := by
  induction ps with
  | nil => rfl
  | cons q r ih => simp [putProp, ih]

/-- the model's `setProp` is `withProp` on the head plus a fresh identity -/
theorem setProp_eq_withProp (h : Head) (ks : List Kid) (p : PropV) (u : Nat) :
    setProp (.mk h ks) p u = (withProp h p).map fun h' => .mk { h' with uid := u } ks := by
  simp only [setProp, withProp, hasInitProp_eq, putProp_eq, Node.hd_mk, Node.kids_mk]
  split <;> simp_all

theorem withProp_uid (h : Head) (p : PropV) (u : Nat) :
    withProp { h with uid := u } p = (withProp h p).map fun h' => { h' with uid := u } := by
  simp only [withProp]
  split <;> simp

/-! ### the coherence hypothesis -/

/-- if the method called for `x` returns a node with the identity of `x`, it has the value of `x` -/
def SelfOK (v : Visitor) (x : Node) : Prop :=
  ∀ k, v.action x.hd = .replaceBy k → k.uid = x.uid → strip k = strip x

mutual
/-- `SelfOK` for every child that the transformation visits (children of nodes whose method calls
`generic_visit`); nothing is required of the root and of nodes that are never visited -/
def Coh (v : Visitor) : Node → Prop
  | .mk h ks => match v.action h with
    | .generic => CohKids v ks
    | .rewriteProp _ => CohKids v ks
    | _ => True
termination_by structural n => n
def CohKids (v : Visitor) : List Kid → Prop
  | [] => True
  | k :: r => CohKid v k ∧ CohKids v r
termination_by structural ks => ks
def CohKid (v : Visitor) : Kid → Prop
  | .mk _ _ ns => CohNodes v ns
termination_by structural k => k
def CohNodes (v : Visitor) : List Node → Prop
  | [] => True
  | x :: r => SelfOK v x ∧ Coh v x ∧ CohNodes v r
termination_by structural ns => ns
end

mutual
/-- the simple sufficient condition: every sub-node of the input is `SelfOK` -/
theorem coh_of_all (v : Visitor) : ∀ n : Node, (∀ x ∈ subs n, SelfOK v x) → Coh v n
  | .mk h ks, hs => by
    unfold Coh
    have : CohKids v ks := cohKids_of_all v ks (fun x hx => hs x (by simp [subs, hx]))
    split <;> first | exact this | trivial
termination_by structural n => n
theorem cohKids_of_all (v : Visitor) : ∀ ks : List Kid, (∀ x ∈ subsKids ks, SelfOK v x) → CohKids v ks
  | [], _ => by simp [CohKids]
  | k :: r, hs => by
    unfold CohKids
    exact ⟨cohKid_of_all v k (fun x hx => hs x (by simp [subsKids, hx])),
      cohKids_of_all v r (fun x hx => hs x (by simp [subsKids, hx]))⟩
termination_by structural ks => ks
theorem cohKid_of_all (v : Visitor) : ∀ k : Kid, (∀ x ∈ subsKid k, SelfOK v x) → CohKid v k
  | .mk _ _ ns, hs => by
    unfold CohKid
    exact cohNodes_of_all v ns (fun x hx => hs x (by simpa [subsKid] using hx))
termination_by structural k => k
theorem cohNodes_of_all (v : Visitor) : ∀ ns : List Node, (∀ x ∈ subsNodes ns, SelfOK v x) → CohNodes v ns
  | [], _ => by simp [CohNodes]
  | x :: r, hs => by
    unfold CohNodes
    refine ⟨hs x (by simp [subsNodes, self_mem_subs]),
      coh_of_all v x (fun y hy => hs y (by simp [subsNodes, hy])),
      cohNodes_of_all v r (fun y hy => hs y (by simp [subsNodes, hy]))⟩
termination_by structural ns => ns
end

/-! ### the simulation -/

/-- result of `T` for a node vs. result of `Rw` -/
def RelN (v : Visitor) (n : Node) : VRes → Except Err (Option Node) → Prop
  | .error e, .error e' => e = e'
  | .ok (r, _), .ok r' =>
    r.map strip = r'.map strip ∧ (SelfOK v n → sameObj r n = true → r.map strip = some (strip n))
  | _, _ => False

def RelKs (ks : List Kid) : Except Err (List Kid × Bool × Nat) → Except Err (List Kid) → Prop
  | .error e, .error e' => e = e'
  | .ok (ks', chg, _), .ok ks'' => stripKids ks' = stripKids ks'' ∧ (chg = false → ks' = ks)
  | _, _ => False

def RelK (k : Kid) : Except Err (Kid × Bool × Nat) → Except Err Kid → Prop
  | .error e, .error e' => e = e'
  | .ok (k', chg, _), .ok k'' => stripKid k' = stripKid k'' ∧ (chg = false → k' = k)
  | _, _ => False

def RelNs (ns : List Node) : Except Err (List Node × Bool × Nat) → Except Err (List Node) → Prop
  | .error e, .error e' => e = e'
  | .ok (out, chg, _), .ok out' =>
    stripNodes out = stripNodes out' ∧ (chg = false → stripNodes out = stripNodes ns)
  | _, _ => False

theorem TKids_mono (v : Visitor) (ks : List Kid) (c : Nat) (ks' : List Kid) (chg : Bool) (c' : Nat)
    (h : TKids v ks c = .ok (ks', chg, c')) : c ≤ c' := (frame_TKids v ks c ks' chg c' h).1
theorem TKid_mono (v : Visitor) (k : Kid) (c : Nat) (k' : Kid) (chg : Bool) (c' : Nat)
    (h : TKid v k c = .ok (k', chg, c')) : c ≤ c' := (frame_TKid v k c k' chg c' h).1

mutual
theorem sim_T (v : Visitor) : ∀ (n : Node) (c : Nat), uidsLt c n = true → Coh v n →
    RelN v n (T v n c) (Rw v.action n)
  | .mk h ks, c, hu, hc => by
    simp only [uidsLt, Bool.and_eq_true, decide_eq_true_eq] at hu
    unfold Coh at hc
    unfold T Rw
    cases ha : v.action h with
    | keep => simp [RelN]
    | replaceBy k =>
      simp only [RelN, true_and]
      intro hs hso
      simp only [sameObj, Node.uid_mk, beq_iff_eq] at hso
      simp [hs k (by simpa using ha) (by simpa using hso)]
    | remove => simp [RelN, sameObj]
    | raise => simp [RelN]
    | generic =>
      simp only [ha] at hc
      have ih := sim_TKids v ks c hu.2 hc
      cases hk : TKids v ks c with
      | error e =>
        cases hk' : RwKids v.action ks with
        | error e' => simp only [hk, hk', RelKs] at ih; simp [rebuilt, RelN, ih]
        | ok q => simp [hk, hk', RelKs] at ih
      | ok q =>
        obtain ⟨ks', chg, c1⟩ := q
        have hm := TKids_mono v ks c ks' chg c1 hk
        cases hk' : RwKids v.action ks with
        | error e' => simp [hk, hk', RelKs] at ih
        | ok ks'' =>
          simp only [hk, hk', RelKs] at ih
          cases chg with
          | true =>
            simp only [rebuilt, if_true, RelN, Option.map_some, Option.some.injEq, strip, ih.1, true_and]
            intro _ hso
            simp only [sameObj, Node.uid_mk, beq_iff_eq] at hso
            omega
          | false =>
            have := ih.2 rfl; subst this
            simp [rebuilt, RelN, strip, ih.1]
    | rewriteProp p =>
      simp only [ha] at hc
      have ih := sim_TKids v ks c hu.2 hc
      cases hk : TKids v ks c with
      | error e =>
        cases hk' : RwKids v.action ks with
        | error e' => simp only [hk, hk', RelKs] at ih; simp [rebuilt, finishRewrite, RelN, ih]
        | ok q => simp [hk, hk', RelKs] at ih
      | ok q =>
        obtain ⟨ks', chg, c1⟩ := q
        have hm := TKids_mono v ks c ks' chg c1 hk
        cases hk' : RwKids v.action ks with
        | error e' => simp [hk, hk', RelKs] at ih
        | ok ks'' =>
          simp only [hk, hk', RelKs] at ih
          cases chg with
          | true =>
            simp only [rebuilt, if_true, finishRewrite, setProp_eq_withProp, withProp_uid]
            cases hw : withProp h p with
            | none => simp [RelN]
            | some h' =>
              simp only [Option.map_some, RelN, Option.some.injEq, strip, ih.1, true_and]
              intro _ hso
              simp only [sameObj, Node.uid_mk, beq_iff_eq] at hso
              omega
          | false =>
            have := ih.2 rfl; subst this
            simp only [rebuilt, Bool.false_eq_true, if_false, finishRewrite, setProp_eq_withProp]
            cases hw : withProp h p with
            | none => simp [RelN]
            | some h' =>
              simp only [Option.map_some, RelN, Option.some.injEq, strip, ih.1, true_and]
              intro _ hso
              simp only [sameObj, Node.uid_mk, beq_iff_eq] at hso
              omega
termination_by structural n => n
theorem sim_TKids (v : Visitor) : ∀ (ks : List Kid) (c : Nat), uidsLtKids c ks = true → CohKids v ks →
    RelKs ks (TKids v ks c) (RwKids v.action ks)
  | [], c, _, _ => by simp [TKids, RwKids, RelKs, stripKids]
  | k :: r, c, hu, hc => by
    simp only [uidsLtKids, Bool.and_eq_true] at hu
    unfold CohKids at hc
    have ih1 := sim_TKid v k c hu.1 hc.1
    unfold TKids RwKids
    cases hk : TKid v k c with
    | error e =>
      cases hk' : RwKid v.action k with
      | error e' => simp only [hk, hk', RelK] at ih1; simp [RelKs, ih1]
      | ok q => simp [hk, hk', RelK] at ih1
    | ok q =>
      obtain ⟨k', chg1, c1⟩ := q
      cases hk' : RwKid v.action k with
      | error e' => simp [hk, hk', RelK] at ih1
      | ok k'' =>
        simp only [hk, hk', RelK] at ih1
        have hm := TKid_mono v k c k' chg1 c1 hk
        have ih2 := sim_TKids v r c1 (uidsLtKids_mono hm r hu.2) hc.2
        cases hr : TKids v r c1 with
        | error e =>
          cases hr' : RwKids v.action r with
          | error e' => simp only [hr, hr', RelKs] at ih2; simp [hr, RelKs, ih2]
          | ok q => simp [hr, hr', RelKs] at ih2
        | ok q =>
          obtain ⟨r', chg2, c2⟩ := q
          cases hr' : RwKids v.action r with
          | error e' => simp [hr, hr', RelKs] at ih2
          | ok r'' =>
            simp only [hr, hr', RelKs] at ih2
            simp only [hr, RelKs, stripKids, ih1.1, ih2.1, true_and, Bool.or_eq_false_iff]
            rintro ⟨a, b⟩
            rw [ih1.2 a, ih2.2 b]
termination_by structural ks => ks
theorem sim_TKid (v : Visitor) : ∀ (k : Kid) (c : Nat), uidsLtKid c k = true → CohKid v k →
    RelK k (TKid v k c) (RwKid v.action k)
  | .mk name coll ns, c, hu, hc => by
    simp only [uidsLtKid] at hu
    unfold CohKid at hc
    have ih := sim_TNodes v ns c hu hc
    unfold TKid RwKid
    cases hn : TNodes v ns c with
    | error e =>
      cases hn' : RwNodes v.action ns with
      | error e' => simp only [hn, hn', RelNs] at ih; simp [RelK, ih]
      | ok q => simp [hn, hn', RelNs] at ih
    | ok q =>
      obtain ⟨out, chg, c1⟩ := q
      cases hn' : RwNodes v.action ns with
      | error e' => simp [hn, hn', RelNs] at ih
      | ok out' =>
        simp only [hn, hn', RelNs] at ih
        cases chg with
        | true => simp [RelK, stripKid, ih.1]
        | false => simp [RelK, stripKid, ← ih.1, ih.2 rfl]
termination_by structural k => k
theorem sim_TNodes (v : Visitor) : ∀ (ns : List Node) (c : Nat), uidsLtNodes c ns = true → CohNodes v ns →
    RelNs ns (TNodes v ns c) (RwNodes v.action ns)
  | [], c, _, _ => by simp [TNodes, RwNodes, RelNs, stripNodes]
  | x :: r, c, hu, hc => by
    simp only [uidsLtNodes, Bool.and_eq_true] at hu
    unfold CohNodes at hc
    have ih1 := sim_T v x c hu.1 hc.2.1
    unfold TNodes RwNodes
    cases hx : T v x c with
    | error e =>
      cases hx' : Rw v.action x with
      | error e' => simp only [hx, hx', RelN] at ih1; simp [RelNs, ih1]
      | ok q => simp [hx, hx', RelN] at ih1
    | ok q =>
      obtain ⟨rx, c1⟩ := q
      cases hx' : Rw v.action x with
      | error e' => simp [hx, hx', RelN] at ih1
      | ok rx' =>
        simp only [hx, hx', RelN] at ih1
        have hm := counter_mono v x c c1 rx hx
        have ih2 := sim_TNodes v r c1 (uidsLtNodes_mono hm r hu.2) hc.2.2
        cases hr : TNodes v r c1 with
        | error e =>
          cases hr' : RwNodes v.action r with
          | error e' => simp only [hr, hr', RelNs] at ih2; simp [hr, RelNs, ih2]
          | ok q => simp [hr, hr', RelNs] at ih2
        | ok q =>
          obtain ⟨out, chg2, c2⟩ := q
          cases hr' : RwNodes v.action r with
          | error e' => simp [hr, hr', RelNs] at ih2
          | ok out' =>
            simp only [hr, hr', RelNs] at ih2
            simp only [hr, RelNs, stripNodes_append, stripNodes_toList, ih1.1, ih2.1, true_and,
              Bool.or_eq_false_iff, Bool.not_eq_false']
            rintro ⟨a, b⟩
            rw [← ih1.1, ih1.2 hc.1 a, ← ih2.1, ih2.2 b]
            simp [stripNodes]
termination_by structural ns => ns
end

/-- `Rw` never reports anything but the visitor's own raise -/
theorem relN_map (v : Visitor) (n : Node) (a : VRes) (b : Except Err (Option Node)) (h : RelN v n a b) :
    a.map (fun p => p.1.map strip) = b.map (fun r => r.map strip) := by
  cases a with
  | error e => cases b with
    | error e' => simp only [RelN] at h; subst h; rfl
    | ok r' => simp [RelN] at h
  | ok p =>
    obtain ⟨r, c'⟩ := p
    cases b with
    | error e' => simp [RelN] at h
    | ok r' => simp only [RelN] at h; simp [Except.map, h.1]

/-- **T_strip**: for every visitor (rule set, strict or not) and every tree, the result of the
bottom-up rewrite with counter / changed flag / identity test (`T`), identities erased, is the result
of the pure rewrite `Rw`, identities erased — and `T` fails exactly when `Rw` does, with the same
error. -/
theorem T_strip (v : Visitor) (n : Node) (c : Nat) (hu : uidsLt c n = true) (hc : Coh v n) :
    (T v n c).map (fun p => p.1.map strip) = (Rw v.action n).map (fun r => r.map strip) :=
  relN_map v n _ _ (sim_T v n c hu hc)

/-- **transform_strip**: the same for the implementation-shaped model (flat loop, dict, fuel) -/
theorem transform_strip (v : Visitor) (n : Node) (c : Nat) (hw : wf n = true) (hu : uidsLt c n = true)
    (hc : Coh v n) :
    (transform v n c).map (fun p => p.1.map strip) = (Rw v.action n).map (fun r => r.map strip) := by
  rw [transform_eq_spec v n c hw]; exact T_strip v n c hu hc

/-- with the simple form of the coherence hypothesis -/
theorem transform_strip' (v : Visitor) (n : Node) (c : Nat) (hw : wf n = true) (hu : uidsLt c n = true)
    (hc : ∀ x ∈ subs n, ∀ k, v.action x.hd = .replaceBy k → k.uid = x.uid → strip k = strip x) :
    (transform v n c).map (fun p => p.1.map strip) = (Rw v.action n).map (fun r => r.map strip) :=
  transform_strip v n c hw hu (coh_of_all v n hc)

/-- a visitor none of whose methods returns a foreign node is coherent on every tree -/
def noReplace (v : Visitor) : Prop := ∀ h k, v.action h ≠ .replaceBy k

theorem transform_strip_noReplace (v : Visitor) (n : Node) (c : Nat) (hw : wf n = true)
    (hu : uidsLt c n = true) (hn : noReplace v) :
    (transform v n c).map (fun p => p.1.map strip) = (Rw v.action n).map (fun r => r.map strip) :=
  transform_strip' v n c hw hu (fun x _ k hk => absurd hk (hn x.hd k))

/-! ### `Rw` itself: what the specification says, directly -/

mutual
/-- the only error of `Rw` is the visitor's own raise -/
theorem Rw_err (act : Head → Act) : ∀ (n : Node) (e : Err), Rw act n = .error e → e = .raised
  | .mk h ks, e, hr => by
    unfold Rw at hr
    split at hr
    · simp at hr
    · simp at hr
    · simp at hr
    · simp at hr; exact hr.symm
    · split at hr
      · rename_i e' hk; simp at hr; subst hr; exact RwKids_err act ks _ hk
      · simp at hr
    · split at hr
      · rename_i e' hk; simp at hr; subst hr; exact RwKids_err act ks _ hk
      · split at hr
        · simp at hr
        · simp at hr; exact hr.symm
termination_by structural n => n
theorem RwKids_err (act : Head → Act) : ∀ (ks : List Kid) (e : Err), RwKids act ks = .error e → e = .raised
  | [], e, hr => by simp [RwKids] at hr
  | k :: r, e, hr => by
    unfold RwKids at hr
    split at hr
    · rename_i e' hk; simp at hr; subst hr; exact RwKid_err act k _ hk
    · split at hr
      · rename_i e' hk; simp at hr; subst hr; exact RwKids_err act r _ hk
      · simp at hr
termination_by structural ks => ks
theorem RwKid_err (act : Head → Act) : ∀ (k : Kid) (e : Err), RwKid act k = .error e → e = .raised
  | .mk name coll ns, e, hr => by
    unfold RwKid at hr
    split at hr
    · rename_i e' hk; simp at hr; subst hr; exact RwNodes_err act ns _ hk
    · simp at hr
termination_by structural k => k
theorem RwNodes_err (act : Head → Act) : ∀ (ns : List Node) (e : Err), RwNodes act ns = .error e → e = .raised
  | [], e, hr => by simp [RwNodes] at hr
  | x :: r, e, hr => by
    unfold RwNodes at hr
    split at hr
    · rename_i e' hk; simp at hr; subst hr; exact Rw_err act x _ hk
    · split at hr
      · rename_i e' hk; simp at hr; subst hr; exact RwNodes_err act r _ hk
      · simp at hr
termination_by structural ns => ns
end

theorem selfOK_generic {v : Visitor} {x : Node} (h : v.action x.hd = .generic) : SelfOK v x :=
  fun k e _ => by rw [h] at e; cases e
theorem selfOK_self {v : Visitor} {x : Node} (h : v.action x.hd = .replaceBy x) : SelfOK v x :=
  fun k e _ => by rw [h] at e; cases e; rfl
theorem selfOK_other {v : Visitor} {x k : Node} (h : v.action x.hd = .replaceBy k) (hne : k.uid ≠ x.uid) :
    SelfOK v x :=
  fun k' e hu => by rw [h] at e; cases e; exact absurd hu hne
theorem selfOK_remove {v : Visitor} {x : Node} (h : v.action x.hd = .remove) : SelfOK v x :=
  fun k e _ => by rw [h] at e; cases e

/-- removed tuple elements are dropped in order, by `Rw` -/
theorem Rw_nodes_removed (act : Head → Act) (x : Node) (r out : List Node)
    (hx : Rw act x = .ok none) (hr : RwNodes act r = .ok out) : RwNodes act (x :: r) = .ok out := by
  simp [RwNodes, hx, hr]

/-- a removed single child becomes `None`, by `Rw` -/
theorem Rw_single_removed (act : Head → Act) (f : Str) (x : Node) (hx : Rw act x = .ok none) :
    RwKid act (.mk f false [x]) = .ok (.mk f false []) := by
  simp [RwKid, RwNodes, hx]

/-! ### non-vacuity and necessity of the hypotheses -/
namespace Ex

/-- the value of property `v` of every child of the root -/
def kidVals (r : Except Err (Option Node)) : Option (List (List Int)) :=
  match r with
  | .ok (some n) => some ((childrenOf n).map fun x => x.hd.props.map fun p =>
      match p.canon with | .int i => i | _ => 0)
  | _ => none

/-- number of children of every child of the root -/
def kidCounts (r : Except Err (Option Node)) : Option (List Nat) :=
  match r with
  | .ok (some n) => some ((childrenOf n).map fun x => (childrenOf x).length)
  | _ => none

theorem subs_tree : subs tree = [tree, leaf 1, opt 2 [leaf2 3], leaf2 3, leaf 4] := rfl

-- `Coh` holds for: a replacement by a foreign node, by the node itself, removals
example : Coh (vExpr 1 (.replaceBy (leaf 7))) tree := coh_of_all _ _ (by
  rw [subs_tree]; intro x hx
  simp only [List.mem_cons, List.not_mem_nil, or_false] at hx
  rcases hx with rfl | rfl | rfl | rfl | rfl
  · exact selfOK_generic rfl
  · exact selfOK_other (k := leaf 7) rfl (by decide)
  · exact selfOK_generic rfl
  · exact selfOK_generic rfl
  · exact selfOK_generic rfl)
example : Coh (vExpr 1 (.replaceBy (leaf 1))) tree := coh_of_all _ _ (by
  rw [subs_tree]; intro x hx
  simp only [List.mem_cons, List.not_mem_nil, or_false] at hx
  rcases hx with rfl | rfl | rfl | rfl | rfl
  · exact selfOK_generic rfl
  · exact selfOK_self rfl
  · exact selfOK_generic rfl
  · exact selfOK_generic rfl
  · exact selfOK_generic rfl)
theorem coh_vRemove3 : Coh (vRemove 3) tree := coh_of_all _ _ (by
  rw [subs_tree]; intro x hx
  simp only [List.mem_cons, List.not_mem_nil, or_false] at hx
  rcases hx with rfl | rfl | rfl | rfl | rfl
  · exact selfOK_generic rfl
  · exact selfOK_generic rfl
  · exact selfOK_generic rfl
  · exact selfOK_remove rfl
  · exact selfOK_generic rfl)

-- the theorem applied: the removal in an optional single field, two ancestors rebuilt
example : (transform (vRemove 3) tree 10).map (fun p => p.1.map strip) =
    (Rw (vRemove 3).action tree).map (fun r => r.map strip) :=
  transform_strip _ _ _ (by decide) (by decide) coh_vRemove3
-- … and what `Rw` says there: `Opt#2` has lost its child, the siblings are in place
example : kidCounts (Rw (vRemove 3).action tree) = some [0, 0, 0] := by decide
example : kidCounts (Rw (vRemove 1).action tree) = some [1, 0] := by decide
example : kidVals (Rw (vExpr 4 (.rewriteProp (pV 5))).action tree) = some [[0], [], [5]] := by decide

/-- **`Coh` is necessary**: a method that returns, for `Leaf#1(v=0)`, a node `k = Leaf#1(v=9)` with the
SAME identity and another value.  The model (`k is child` by identity) sees no change and returns
the input tree; the rewrite puts `k` in.  Fresh counter, well-formed tree. -/
def kBad : Node := .mk (hd 1 sLeaf [sLeaf, sExpr, sAST, sObj] [pV 9]) []
theorem T_strip_needs_coh :
    wf tree = true ∧ uidsLt 10 tree = true ∧
    ¬ ((T (vExpr 1 (.replaceBy kBad)) tree 10).map (fun p => p.1.map strip) =
       (Rw (vExpr 1 (.replaceBy kBad)).action tree).map (fun r => r.map strip)) := by
  refine ⟨by decide, by decide, fun h => ?_⟩
  have h2 := congrArg kidVals h
  revert h2; decide
/-- the hypothesis that fails there is `SelfOK` of `Leaf#1` -/
example : ¬ SelfOK (vExpr 1 (.replaceBy kBad)) (leaf 1) := fun h => by
  have := congrArg (fun n => n.hd.props.map fun p => match p.canon with | .int i => i | _ => 0)
    (h kBad rfl rfl)
  revert this; decide

/-- **the fresh counter is necessary**: `Opt#10(c=Leaf2#3)` under the root, counter `10`: the rebuilt
`Opt` gets identity `10` — "the same object" as the child it replaces; the root sees no change and
returns the input tree, the rewrite has dropped `Leaf2#3`.  (No `replaceBy` at all: `Coh` holds.) -/
def treeBad : Node := tup 0 [opt 10 [leaf2 3]]
theorem T_strip_needs_fresh :
    wf treeBad = true ∧ uidsLt 10 treeBad = false ∧ uidsLt 11 treeBad = true ∧
    ¬ ((T (vRemove 3) treeBad 10).map (fun p => p.1.map strip) =
       (Rw (vRemove 3).action treeBad).map (fun r => r.map strip)) := by
  refine ⟨by decide, by decide, by decide, fun h => ?_⟩
  have h2 := congrArg kidCounts h
  revert h2; decide
example : Coh (vRemove 3) treeBad := coh_of_all _ _ (by
  have : subs treeBad = [treeBad, opt 10 [leaf2 3], leaf2 3] := rfl
  rw [this]; intro x hx
  simp only [List.mem_cons, List.not_mem_nil, or_false] at hx
  rcases hx with rfl | rfl | rfl
  · exact selfOK_generic rfl
  · exact selfOK_generic rfl
  · exact selfOK_remove rfl)
-- with a fresh counter the same tree is fine
example : kidCounts ((T (vRemove 3) treeBad 11).map (fun p => p.1.map strip)) = some [0] := by decide

end Ex

end C09
end PyOak
