/-
C06 (addition, AUDIT item #9) — foreign nodes, uniqueness of THE parent chain, `is_root`.

  * `*_foreign`   EVERY query of `Tree` whose node argument is outside the tree raises KeyError
                  (`C06.parentInfo_foreign` covered `get_parent_info` only): `get_xpath`,
                  `get_parent`, `get_ancestors`, `is_ancestor` (any second argument),
                  `get_depth` (any `relative_to`, both `check_ancestor`), `get_first_ancestor_of_type`;
                  and `in` answers False.  `keyError_iff_foreign`: conversely a member never gets one.
  * `chain_unique` under `NoRepeat` a node has exactly ONE root-first chain (members AND edges),
                  so the `*_chain` theorems of C06.lean (each conditional on a GIVEN chain) describe
                  well-defined values; `queries_total` packs existence + uniqueness + all the
                  chain-based answers for every `n ∈ allNodes root`.
  * `isRoot_chain` `is_root(n)` ⇔ the chain of `n` has no proper ancestors; `parentInfo_none_iff`
                  `get_parent_info(n) == (None, None, None)` ⇔ `is_root(n)` (no hypothesis).
-/
import PyOak.Props.C06
namespace PyOak
namespace C06

section Foreign
variable (root : Node)

/-- `n` is not an object of the tree -/
def Foreign (n : Node) : Prop := ∀ m ∈ allNodes root, m.uid ≠ n.uid

theorem isInTree_foreign (n : Node) (hn : Foreign root n) : (TreeT.build root).isInTree n = false := by
  cases hh : (TreeT.build root).isInTree n
  · rfl
  · obtain ⟨m, hm, e⟩ := (isInTree_iff root n).mp hh
    exact absurd e (hn m hm)

theorem isRoot_foreign (n : Node) (hn : Foreign root n) : (TreeT.build root).isRoot n = false := by
  have hne : root.uid ≠ n.uid := hn root (by simp [allNodes])
  simp [TreeT.isRoot, build_root, hne]

/-- `tree.get_xpath(foreign)` raises KeyError -/
theorem getXpath_foreign (n : Node) (hn : Foreign root n) :
    (TreeT.build root).getXpath n = .error .keyError := by
  have := isInTree_foreign root n hn
  unfold TreeT.isInTree at this
  rw [any_key_eq] at this
  unfold TreeT.getXpath
  cases hg : dictGet? (TreeT.build root).xpath n.uid with
  | none => rfl
  | some v => simp [hg] at this

/-- `tree.get_parent(foreign)` raises KeyError -/
theorem getParent_foreign (n : Node) (hn : Foreign root n) :
    (TreeT.build root).getParent n = .error .keyError := by
  simp [TreeT.getParent, parentInfo_foreign root n hn, Except.map]

theorem root_size_succ : ∃ k, root.size = k + 1 := ⟨root.size - 1, by have := root.size_pos; omega⟩

/-- `tree.get_ancestors(foreign)` raises KeyError (on the first `next`) -/
theorem getAncestors_foreign (n : Node) (hn : Foreign root n) :
    (TreeT.build root).getAncestors n = .error .keyError := by
  unfold TreeT.getAncestors
  rw [build_root]
  obtain ⟨k, hk⟩ := root_size_succ root
  rw [hk]
  simp [TreeT.ancestorsAux, getParent_foreign root n hn]

/-- `tree.is_ancestor(foreign, anything)` raises KeyError -/
theorem isAncestor_foreign (n a : Node) (hn : Foreign root n) :
    (TreeT.build root).isAncestor n a = .error .keyError := by
  simp [TreeT.isAncestor, getAncestors_foreign root n hn, Except.map]

/-- `tree.get_depth(foreign, relative_to, check_ancestor)` raises KeyError for every
`relative_to` (None, a member, a foreign node) and both values of `check_ancestor` -/
theorem getDepth_foreign (n : Node) (rel : Option Node) (chk : Bool) (hn : Foreign root n) :
    (TreeT.build root).getDepth n rel chk = .error .keyError := by
  have hd : (TreeT.build root).depthAux rel (TreeT.build root).root.size n = .error .keyError := by
    rw [build_root]
    obtain ⟨k, hk⟩ := root_size_succ root
    rw [hk]
    simp [TreeT.depthAux, getParent_foreign root n hn]
  cases rel with
  | none => simp [TreeT.getDepth, hd]
  | some r => cases chk <;> simp [TreeT.getDepth, hd, isAncestor_foreign root n r hn]

/-- `tree.get_first_ancestor_of_type(foreign, …)` raises KeyError -/
theorem firstAncestorOfType_foreign (n : Node) (classes : List Str) (exact : Bool) (hn : Foreign root n) :
    (TreeT.build root).firstAncestorOfType n classes exact = .error .keyError := by
  simp [TreeT.firstAncestorOfType, getAncestors_foreign root n hn, Except.map]

/-- all upward queries at once -/
theorem foreign_all_keyError (n : Node) (hn : Foreign root n) :
    (TreeT.build root).isInTree n = false ∧
    (TreeT.build root).getParentInfo n = .error .keyError ∧
    (TreeT.build root).getParent n = .error .keyError ∧
    (TreeT.build root).getXpath n = .error .keyError ∧
    (TreeT.build root).getAncestors n = .error .keyError ∧
    (∀ a, (TreeT.build root).isAncestor n a = .error .keyError) ∧
    (∀ rel chk, (TreeT.build root).getDepth n rel chk = .error .keyError) ∧
    (∀ cs ex, (TreeT.build root).firstAncestorOfType n cs ex = .error .keyError) :=
  ⟨isInTree_foreign root n hn, parentInfo_foreign root n hn, getParent_foreign root n hn,
    getXpath_foreign root n hn, getAncestors_foreign root n hn,
    fun a => isAncestor_foreign root n a hn, fun rel chk => getDepth_foreign root n rel chk hn,
    fun cs ex => firstAncestorOfType_foreign root n cs ex hn⟩

/-- KeyError EXACTLY for foreign nodes (`get_xpath`; no `NoRepeat` needed): a member always gets a path -/
theorem getXpath_keyError_iff (n : Node) :
    (TreeT.build root).getXpath n = .error .keyError ↔ Foreign root n := by
  constructor
  · intro h m hm e
    have hin : (TreeT.build root).isInTree n = true := (isInTree_iff root n).mpr ⟨m, hm, e⟩
    unfold TreeT.isInTree at hin
    rw [any_key_eq] at hin
    unfold TreeT.getXpath at h
    cases hg : dictGet? (TreeT.build root).xpath n.uid with
    | none => simp [hg] at hin
    | some v => simp [hg] at h
  · exact getXpath_foreign root n

/-- same for `get_parent_info` -/
theorem parentInfo_keyError_iff (n : Node) :
    (TreeT.build root).getParentInfo n = .error .keyError ↔ Foreign root n := by
  constructor
  · intro h m hm e
    unfold TreeT.getParentInfo at h
    by_cases hr : (TreeT.build root).isRoot n = true
    · simp [hr] at h
    · simp only [hr, Bool.false_eq_true, if_false] at h
      have hne : ¬ root.uid = n.uid := by simpa [TreeT.isRoot, build_root] using hr
      rw [allNodes_eq] at hm
      rcases List.mem_cons.mp hm with rfl | hm
      · exact hne e
      · obtain ⟨it, hit, rfl⟩ := List.mem_map.mp hm
        have : (dictGet? (TreeT.build root).pinfo n.uid).isSome = true :=
          (pinfo_isSome root n.uid).mpr ⟨it, hit, e⟩
        cases hg : dictGet? (TreeT.build root).pinfo n.uid with
        | none => simp [hg] at this
        | some v => simp [hg] at h
  · exact parentInfo_foreign root n

end Foreign

section Unique
variable (root : Node)

/-- **the** parent chain: under `NoRepeat` a node has at most one root-first chain — the same
members, stored under the same edges (field and index) -/
theorem chain_unique (h : NoRepeat root) :
    ∀ (c1 : Chain) (n : Node) (o1 : Option Edge), IsChain root (c1 ++ [(n, o1)]) →
    ∀ (c2 : Chain) (o2 : Option Edge), IsChain root (c2 ++ [(n, o2)]) → c1 = c2 ∧ o1 = o2 := by
  apply chain_rec
  · intro c2 o2 h2
    rcases chain_inv root c2 root o2 h2 with ⟨a, _, b⟩ | ⟨c', p, pe, e, rfl, rfl, h3, h4⟩
    · exact ⟨a.symm, b.symm⟩
    · have := parentInfo_chain root h c' p pe root e h2
      rw [parentInfo_root] at this
      cases this
  · intro c p pe n e h1 hm ih c2 o2 h2
    have hc := IsChain.snoc c p pe n e h1 hm
    have q1 := parentInfo_chain root h c p pe n e hc
    rcases chain_inv root c2 n o2 h2 with ⟨_, rfl, _⟩ | ⟨c', p', pe', e', rfl, rfl, h3, h4⟩
    · rw [parentInfo_root] at q1; cases q1
    · have q2 := parentInfo_chain root h c' p' pe' n e' h2
      rw [q1] at q2
      injection q2 with q2
      injection q2 with q2
      injection q2 with qa qb
      subst qa; subst qb
      obtain ⟨r1, r2⟩ := ih c' pe' h3
      subst r1; subst r2
      exact ⟨rfl, rfl⟩

/-- the same for two objects with the same identity -/
theorem chain_unique_uid (h : NoRepeat root) (c1 c2 : Chain) (n1 n2 : Node) (o1 o2 : Option Edge)
    (h1 : IsChain root (c1 ++ [(n1, o1)])) (h2 : IsChain root (c2 ++ [(n2, o2)]))
    (e : n1.uid = n2.uid) : c1 = c2 ∧ n1 = n2 ∧ o1 = o2 := by
  have m1 := chain_mem root _ h1 (n1, o1) (by simp)
  have m2 := chain_mem root _ h2 (n2, o2) (by simp)
  have := uid_inj root h _ _ m1 m2 e
  subst this
  obtain ⟨a, b⟩ := chain_unique root h c1 n1 o1 h1 c2 o2 h2
  exact ⟨a, rfl, b⟩

/-- every node of a `NoRepeat` tree has exactly one chain -/
theorem exists_unique_chain (h : NoRepeat root) (n : Node) (hn : n ∈ allNodes root) :
    ∃ c oe, IsChain root (c ++ [(n, oe)]) ∧
      ∀ c' oe', IsChain root (c' ++ [(n, oe')]) → c' = c ∧ oe' = oe := by
  obtain ⟨c, oe, hc⟩ := exists_chain root n hn
  exact ⟨c, oe, hc, fun c' oe' hc' => chain_unique root h c' n oe' hc' c oe hc⟩

/-- `is_root(n)` ⇔ the object is the root -/
theorem isRoot_iff (n : Node) : (TreeT.build root).isRoot n = true ↔ root.uid = n.uid := by
  simp [TreeT.isRoot, build_root]

/-- `is_root` agrees with the downward structure: a chain member is the root iff it has no
proper ancestors (its chain is the one-element chain) -/
theorem isRoot_chain (h : NoRepeat root) (c : Chain) (n : Node) (oe : Option Edge)
    (hc : IsChain root (c ++ [(n, oe)])) : (TreeT.build root).isRoot n = true ↔ c = [] := by
  rw [isRoot_iff]
  constructor
  · intro e
    exact ((chain_unique_uid root h [] c root n none oe IsChain.root hc e).1).symm
  · rintro rfl
    rcases chain_inv root [] n oe hc with ⟨-, rfl, -⟩ | ⟨c', p, pe, e, h1, -⟩
    · rfl
    · simp at h1

/-- … and then it is stored nowhere: `oe = none` -/
theorem isRoot_chain_edge (h : NoRepeat root) (c : Chain) (n : Node) (oe : Option Edge)
    (hc : IsChain root (c ++ [(n, oe)])) : (TreeT.build root).isRoot n = true ↔ oe = none := by
  rw [isRoot_chain root h c n oe hc]
  rcases chain_inv root c n oe hc with ⟨a, -, b⟩ | ⟨c', p, pe, e, rfl, rfl, -, -⟩
  · simp [a, b]
  · simp

/-- `get_parent_info(n) == (None, None, None)` ⇔ `is_root(n)` — for every node, member or not -/
theorem parentInfo_none_iff (n : Node) :
    (TreeT.build root).getParentInfo n = .ok none ↔ (TreeT.build root).isRoot n = true := by
  unfold TreeT.getParentInfo
  by_cases hr : (TreeT.build root).isRoot n = true
  · simp [hr]
  · simp only [hr, Bool.false_eq_true, if_false, iff_false]
    cases dictGet? (TreeT.build root).pinfo n.uid <;> simp

/-- totality: for EVERY node of a `NoRepeat` tree there is exactly one chain and every upward
query answers with it: parent info = the last link, ancestors = the chain reversed, depth = its
length, xpath = its spelling, `is_root` ⇔ it is empty, `is_ancestor(n, a)` ⇔ `a` is on it -/
theorem queries_total (h : NoRepeat root) (n : Node) (hn : n ∈ allNodes root) :
    ∃ c oe, IsChain root (c ++ [(n, oe)]) ∧
      (∀ c' oe', IsChain root (c' ++ [(n, oe')]) → c' = c ∧ oe' = oe) ∧
      (TreeT.build root).isInTree n = true ∧
      ((TreeT.build root).isRoot n = true ↔ c = []) ∧
      (TreeT.build root).getParentInfo n =
        .ok (match c.getLast?, oe with | some (p, _), some e => some ⟨p, e⟩ | _, _ => none) ∧
      (TreeT.build root).getAncestors n = .ok (c.reverse.map (·.1)) ∧
      (∀ a, (TreeT.build root).isAncestor n a = .ok (c.any (·.1.uid == a.uid))) ∧
      (∀ chk, (TreeT.build root).getDepth n none chk = .ok c.length) ∧
      (TreeT.build root).getXpath n = .ok (spellChain (c ++ [(n, oe)])) := by
  obtain ⟨c, oe, hc, hu⟩ := exists_unique_chain root h n hn
  refine ⟨c, oe, hc, hu, (isInTree_iff root n).mpr ⟨n, hn, rfl⟩, isRoot_chain root h c n oe hc, ?_,
    ancestors_chain root h c n oe hc, fun a => isAncestor_chain root h c n a oe hc,
    fun chk => depth_chain root h c n oe hc chk, xpath_chain root h c n oe hc⟩
  rcases chain_inv root c n oe hc with ⟨rfl, rfl, rfl⟩ | ⟨c', p, pe, e, rfl, rfl, -, -⟩
  · simpa using parentInfo_root _
  · simpa using parentInfo_chain root h c' p pe n e hc

end Unique

/-! ### non-vacuity -/

namespace DemoT

def leaf (u : Nat) : Node :=
  .mk { uid := u, cls := ['L'], mro := [['L'], ['N']], org := ⟨0, []⟩, props := [], truthy := true } []
def mid : Node :=
  .mk { uid := 2, cls := ['M'], mro := [['M'], ['N']], org := ⟨0, []⟩, props := [], truthy := false }
    [.mk ['x'] false [leaf 3]]
def tree : Node :=
  .mk { uid := 0, cls := ['R'], mro := [['R'], ['N']], org := ⟨0, []⟩, props := [], truthy := true }
    [.mk ['a'] true [leaf 1, mid], .mk ['b'] false [leaf 4]]

def errOf {α : Type} : Except TErr α → Option TErr | .ok _ => none | .error e => some e

theorem noRepeat_tree : NoRepeat tree := by unfold NoRepeat; decide
/-- `leaf 9` is foreign; so is a content-identical twin of a member (`leaf 3` rebuilt as another
object, uid 7): identity, not content, decides -/
theorem foreign9 : Foreign tree (leaf 9) := by unfold Foreign; decide
theorem foreign_twin : Foreign tree (leaf 7) := by unfold Foreign; decide

example : errOf ((TreeT.build tree).getXpath (leaf 9)) = some .keyError := by decide
example : errOf ((TreeT.build tree).getDepth (leaf 9) (some mid) true) = some .keyError := by decide
example : errOf ((TreeT.build tree).getDepth (leaf 7) (some (leaf 9)) false) = some .keyError := by decide
example : errOf ((TreeT.build tree).firstAncestorOfType (leaf 7) [['R']] true) = some .keyError := by decide
example : (TreeT.build tree).isAncestor (leaf 9) tree = .error .keyError :=
  isAncestor_foreign tree (leaf 9) tree foreign9
-- a foreign SECOND argument is no error (only the first argument is looked up)
example : errOf ((TreeT.build tree).isAncestor (leaf 3) (leaf 9)) = none := by decide

theorem chain3 : IsChain tree ([(tree, none), (mid, some ⟨['a'], some 1⟩)] ++ [(leaf 3, some ⟨['x'], none⟩)]) :=
  IsChain.snoc [(tree, none)] mid _ (leaf 3) _
    (IsChain.snoc [] tree none mid _ IsChain.root (List.Mem.tail _ (List.Mem.head _))) (List.Mem.head _)
-- `chain_unique`, `isRoot_chain` apply
example : ∀ c' oe', IsChain tree (c' ++ [(leaf 3, oe')]) →
    c' = [(tree, none), (mid, some ⟨['a'], some 1⟩)] ∧ oe' = some ⟨['x'], none⟩ :=
  fun c' oe' hc' => chain_unique tree noRepeat_tree c' _ oe' hc' _ _ chain3
example : (TreeT.build tree).isRoot (leaf 3) = false ∧ (TreeT.build tree).isRoot tree = true := by decide

/-- `NoRepeat` is needed in `chain_unique`: a shared object has two chains -/
def shared : Node :=
  .mk { uid := 0, cls := ['R'], mro := [['R'], ['N']], org := ⟨0, []⟩, props := [], truthy := true }
    [.mk ['a'] true [leaf 1, leaf 1]]
theorem chain_unique_needs_noRepeat :
    IsChain shared ([(shared, none)] ++ [(leaf 1, some ⟨['a'], some 0⟩)]) ∧
    IsChain shared ([(shared, none)] ++ [(leaf 1, some ⟨['a'], some 1⟩)]) :=
  ⟨IsChain.snoc [] _ _ _ _ IsChain.root (List.Mem.head _),
   IsChain.snoc [] _ _ _ _ IsChain.root (List.Mem.tail _ (List.Mem.head _))⟩

end DemoT

end C06
end PyOak
