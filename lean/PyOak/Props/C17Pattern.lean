/-
C17, pattern grammar at the text level: every string derived from `PATTERN_DEF_GRAMMAR`, written
with arbitrary white space in front of every token (and after the last one), is parsed back to
exactly the syntax tree it was derived from (`parse_render`), hence accepted by
`compilePattern` whenever the tree is well-formed (`pattern_accepts_rendering`).

A derivation with its white space is a *concrete syntax tree* (`CPat` …): the abstract tree of
Model/Pattern.lean plus one WS string in front of each token.
-/
import PyOak.Props.C17
namespace PyOak
namespace PM

/-! ### concrete syntax trees: the grammar's derivations with their white space -/

/-- `capture?` : `w1 "->" w2 CAPTURE_KEY` -/
inductive CCap where
  | none
  | some (w1 w2 : Str) (key : Str)

/-- `w1 "|" w2 CLASS` -/
structure CAlt where
  w1 : Str
  w2 : Str
  name : Str

/-- `class_spec` : `w "*"` or `w CLASS (w1 "|" w2 CLASS)*` -/
inductive CClass where
  | any (w : Str)
  | names (w : Str) (first : Str) (rest : List CAlt)

mutual
/-- `w1 "(" class_spec field_spec* w2 ")"` -/
inductive CPat where
  | mk (w1 : Str) (cls : CClass) (fields : CFields) (w2 : Str)
/-- `w1 "@" w2 FIELD_NAME spec capture?`, repeated -/
inductive CFields where
  | nil
  | cons (w1 w2 : Str) (name : Str) (spec : CFSpec) (cap : CCap) (rest : CFields)
inductive CFSpec where
  | any
  | val (w : Str) (v : CPVal)                                   -- `w "=" value`
  /-- `w1 "=" w2 "[" items (wt "*" capture?)? w3 "]"` -/
  | seq (w1 w2 : Str) (items : CItems) (tail : Option (Str × CCap)) (w3 : Str)
inductive CItems where
  | nil
  | cons (v : CPVal) (cap : CCap) (rest : CItems)
inductive CPVal where
  | tree (p : CPat)
  | var (w1 w2 : Str) (x : Str)       -- `w1 "$" w2 CAPTURE_KEY`
  | none (w : Str)                    -- `w "None"`
  | re (w : Str) (body : Str)         -- `w "\"" body "\""`
end

/-! rendering -/
def CCap.render : CCap → Str
  | .none => []
  | .some w1 w2 k => w1 ++ ('-' :: '>' :: (w2 ++ k))

def renderAlts : List CAlt → Str
  | [] => []
  | a :: r => a.w1 ++ ('|' :: (a.w2 ++ (a.name ++ renderAlts r)))

def CClass.render : CClass → Str
  | .any w => w ++ ['*']
  | .names w f rest => w ++ (f ++ renderAlts rest)

def renderTail : Option (Str × CCap) → Str
  | none => []
  | some (w, cap) => w ++ ('*' :: cap.render)

mutual
def CPat.render : CPat → Str
  | .mk w1 cls fs w2 => w1 ++ ('(' :: (cls.render ++ (fs.render ++ (w2 ++ [')']))))
def CFields.render : CFields → Str
  | .nil => []
  | .cons w1 w2 name spec cap rest => w1 ++ ('@' :: (w2 ++ (name ++ (spec.render ++ (cap.render ++ rest.render)))))
def CFSpec.render : CFSpec → Str
  | .any => []
  | .val w v => w ++ ('=' :: v.render)
  | .seq w1 w2 items tail w3 => w1 ++ ('=' :: (w2 ++ ('[' :: (items.render ++ (renderTail tail ++ (w3 ++ [']']))))))
def CItems.render : CItems → Str
  | .nil => []
  | .cons v cap rest => v.render ++ (cap.render ++ rest.render)
def CPVal.render : CPVal → Str
  | .tree p => p.render
  | .var w1 w2 x => w1 ++ ('$' :: (w2 ++ x))
  | .none w => w ++ ['N', 'o', 'n', 'e']
  | .re w body => w ++ ('"' :: (body ++ ['"']))
end

/-! the abstract syntax tree of a derivation -/
def CCap.strip : CCap → Option Str
  | .none => Option.none
  | .some _ _ k => Option.some k

def CClass.strip : CClass → ClassSpec
  | .any _ => .any
  | .names _ f rest => .names f (rest.map (·.name))

def stripTail : Option (Str × CCap) → Option (Option Str)
  | none => none
  | some (_, cap) => some cap.strip

mutual
def CPat.strip : CPat → Pat
  | .mk _ cls fs _ => .mk cls.strip fs.strip
def CFields.strip : CFields → Fields
  | .nil => .nil
  | .cons _ _ name spec cap rest => .cons name spec.strip cap.strip rest.strip
def CFSpec.strip : CFSpec → FSpec
  | .any => .any
  | .val _ v => .val v.strip
  | .seq _ _ items tail _ => .seq items.strip (stripTail tail)
def CItems.strip : CItems → Items
  | .nil => .nil
  | .cons v cap rest => .cons v.strip cap.strip rest.strip
def CPVal.strip : CPVal → PVal
  | .tree p => .tree p.strip
  | .var _ _ x => .var x
  | .none _ => .none
  | .re _ body => .re body
end

/-! lexical validity of the words of a derivation -/

def AllWS (w : Str) : Prop := ∀ c ∈ w, isWS c = true

/-- a CNAME -/
def ValidCName (s : Str) : Prop := ∃ c r, s = c :: r ∧ isNameStart c = true ∧ ∀ d ∈ r, isNameChar d = true

/-- a CAPTURE_KEY: `[a-z_]*[a-z]` -/
def ValidKey (s : Str) : Prop := ∃ r c, s = r ++ [c] ∧ isLower c = true ∧ ∀ d ∈ r, isKeyChar d = true

/-- the body of an ESCAPED_STRING (`".*?(?<!\\)(\\\\)*?"`): plain characters other than quote, backslash
and newline, and backslash escapes of any character but newline -/
inductive EscBody : Str → Prop where
  | nil : EscBody []
  | plain (c : Char) (rest : Str) (h : c ≠ '"' ∧ c ≠ '\\' ∧ c ≠ '\n') : EscBody rest → EscBody (c :: rest)
  | esc (c : Char) (rest : Str) (h : c ≠ '\n') : EscBody rest → EscBody ('\\' :: c :: rest)

def CCap.OK : CCap → Prop
  | .none => True
  | .some w1 w2 k => AllWS w1 ∧ AllWS w2 ∧ ValidKey k

def altsOK : List CAlt → Prop
  | [] => True
  | a :: r => AllWS a.w1 ∧ AllWS a.w2 ∧ ValidCName a.name ∧ altsOK r

def CClass.OK : CClass → Prop
  | .any w => AllWS w
  | .names w f rest => AllWS w ∧ ValidCName f ∧ altsOK rest

def tailOK : Option (Str × CCap) → Prop
  | none => True
  | some (w, cap) => AllWS w ∧ cap.OK

mutual
def CPat.OK : CPat → Prop
  | .mk w1 cls fs w2 => AllWS w1 ∧ cls.OK ∧ fs.OK ∧ AllWS w2
def CFields.OK : CFields → Prop
  | .nil => True
  | .cons w1 w2 name spec cap rest => AllWS w1 ∧ AllWS w2 ∧ ValidCName name ∧ spec.OK ∧ cap.OK ∧ rest.OK
def CFSpec.OK : CFSpec → Prop
  | .any => True
  | .val w v => AllWS w ∧ v.OK
  | .seq w1 w2 items tail w3 => AllWS w1 ∧ AllWS w2 ∧ items.OK ∧ tailOK tail ∧ AllWS w3
def CItems.OK : CItems → Prop
  | .nil => True
  | .cons v cap rest => v.OK ∧ cap.OK ∧ rest.OK
def CPVal.OK : CPVal → Prop
  | .tree p => p.OK
  | .var w1 w2 x => AllWS w1 ∧ AllWS w2 ∧ ValidKey x
  | .none w => AllWS w
  | .re w body => AllWS w ∧ EscBody body
end

/-! number of parser calls a derivation needs (fuel) -/
mutual
def CPat.size : CPat → Nat
  | .mk _ _ fs _ => fs.size + 1
def CFields.size : CFields → Nat
  | .nil => 0
  | .cons _ _ _ spec _ rest => spec.size + rest.size + 1
def CFSpec.size : CFSpec → Nat
  | .any => 0
  | .val _ v => v.size + 1
  | .seq _ _ items _ _ => items.size + 1
def CItems.size : CItems → Nat
  | .nil => 0
  | .cons v _ rest => v.size + rest.size + 1
def CPVal.size : CPVal → Nat
  | .tree p => p.size + 1
  | .var _ _ _ => 0
  | .none _ => 0
  | .re _ _ => 0
end

/-- the next significant character -/
def peek (s : Str) : Option Char := (skipWS s).head?

/-- `s` does not begin with a character satisfying `p` -/
def NextNot (p : Char → Bool) : Str → Prop
  | c :: _ => p c = false
  | [] => True

end PM
namespace C17
open PM

/-- as `char_arith`, knowing the pattern grammar's punctuation as well -/
macro "char_arith2" : tactic => `(tactic| (
  simp only [isNameStart, isNameChar, isLetter, isWS, isDigitC, isLower, isKeyChar, beq_char, char_le_iff, char_eq_iff,
    Bool.or_eq_true, Bool.and_eq_true, decide_eq_true_eq, ne_eq, Bool.or_eq_false_iff, Bool.and_eq_false_iff,
    decide_eq_false_iff_not] at *
  simp only [show 'a'.toNat = 97 from rfl, show 'z'.toNat = 122 from rfl, show 'A'.toNat = 65 from rfl,
    show 'Z'.toNat = 90 from rfl, show '_'.toNat = 95 from rfl, show ' '.toNat = 32 from rfl, show '\t'.toNat = 9 from rfl,
    show '\x0c'.toNat = 12 from rfl, show '\r'.toNat = 13 from rfl, show '\n'.toNat = 10 from rfl,
    show '0'.toNat = 48 from rfl, show '9'.toNat = 57 from rfl, show '-'.toNat = 45 from rfl, show '>'.toNat = 62 from rfl,
    show '('.toNat = 40 from rfl, show ')'.toNat = 41 from rfl, show '|'.toNat = 124 from rfl, show '='.toNat = 61 from rfl,
    show '@'.toNat = 64 from rfl, show '['.toNat = 91 from rfl, show ']'.toNat = 93 from rfl, show '*'.toNat = 42 from rfl,
    show '$'.toNat = 36 from rfl, show '"'.toNat = 34 from rfl, show 'N'.toNat = 78 from rfl, show '\\'.toNat = 92 from rfl] at *
  omega))

theorem nextNot_match (p : Char → Bool) : ∀ t : Str, NextNot p t →
    (match t with | c :: _ => p c = false | [] => True)
  | [], _ => trivial
  | _ :: _, h => h

theorem skipWS_ws : ∀ (w : Str), AllWS w → ∀ t, skipWS (w ++ t) = skipWS t
  | [], _, t => rfl
  | c :: w, h, t => by
    have hc := h c (by simp)
    have ih := skipWS_ws w (fun d hd => h d (by simp [hd])) t
    simpa [skipWS, List.dropWhile, hc] using ih

theorem skipWS_cons (c : Char) (t : Str) (hc : isWS c = false) : skipWS (c :: t) = c :: t := by
  simp [skipWS, List.dropWhile, hc]

theorem skipWS_tok (w : Str) (c : Char) (t : Str) (hw : AllWS w) (hc : isWS c = false) :
    skipWS (w ++ c :: t) = c :: t := by
  rw [skipWS_ws w hw, skipWS_cons c t hc]

theorem peek_tok (w : Str) (c : Char) (t : Str) (hw : AllWS w) (hc : isWS c = false) : peek (w ++ c :: t) = some c := by
  simp [peek, skipWS_tok w c t hw hc]

theorem expectC_tok (w : Str) (c : Char) (t : Str) (hw : AllWS w) (hc : isWS c = false) :
    expectC c (w ++ c :: t) = some t := by
  simp [expectC, skipWS_tok w c t hw hc]

theorem nextNot_of_peek (p : Char → Bool) (hp : ∀ c, isWS c = true → p c = false) (s : Str)
    (h : ∀ c, peek s = some c → p c = false) : NextNot p s := by
  cases s with
  | nil => trivial
  | cons c t =>
    by_cases hc : isWS c = true
    · exact hp c hc
    · have hc' : isWS c = false := by simpa using hc
      exact h c (by simp [peek, skipWS_cons c t hc'])

theorem ws_not_key (c : Char) (h : isWS c = true) : isKeyChar c = false := by char_arith2

theorem lexCName_tok (w name t : Str) (hw : AllWS w) (hn : ValidCName name) (ht : NextNot isNameChar t) :
    lexCName (w ++ (name ++ t)) = some (name, t) := by
  obtain ⟨c, r, hs, hc, hr⟩ := hn
  subst hs
  have hws : isWS c = false := (nameStart_facts c hc).1
  have hh := nextNot_match isNameChar t ht
  obtain ⟨h1, h2⟩ := takeWhile_split isNameChar r t hr hh
  simp only [lexCName, List.cons_append, skipWS_tok w c (r ++ t) hw hws, hc, if_true, h1, h2]

theorem lexKey_tok (w key t : Str) (hw : AllWS w) (hk : ValidKey key) (ht : NextNot isKeyChar t) :
    lexKey (w ++ (key ++ t)) = some (key, t) := by
  obtain ⟨r, c, hs, hc, hr⟩ := hk
  have hck : isKeyChar c = true := by simp [isKeyChar, hc]
  have hall : ∀ d ∈ key, isKeyChar d = true := by
    intro d hd
    rw [hs] at hd
    simp only [List.mem_append, List.mem_singleton] at hd
    rcases hd with hd | hd
    · exact hr d hd
    · rw [hd]; exact hck
  have hh := nextNot_match isKeyChar t ht
  obtain ⟨h1, h2⟩ := takeWhile_split isKeyChar key t hall hh
  -- the key does not start with white space
  have hskip : skipWS (w ++ (key ++ t)) = key ++ t := by
    rw [skipWS_ws w hw]
    cases hkey : key with
    | nil => rw [hkey] at hs; simp at hs
    | cons d key' =>
      have hd : isKeyChar d = true := hall d (by rw [hkey]; simp)
      have : isWS d = false := by
        cases hws : isWS d with
        | false => rfl
        | true => rw [ws_not_key d hws] at hd; cases hd
      exact skipWS_cons d (key' ++ t) this
  have hnot : (c == '_') = false := by char_arith2
  have htrim : trimKey key = (key, []) := by
    simp only [trimKey, hs, List.reverse_append, List.reverse_cons, List.reverse_nil, List.nil_append,
      List.cons_append, List.takeWhile, hnot, List.length_nil, Nat.sub_zero]
    rw [List.take_of_length_le (by simp)]
  simp only [lexKey, hskip, h1, h2, htrim]
  have : key ≠ [] := by rw [hs]; simp
  simp [this]

theorem scanStr_body (body : Str) (hb : EscBody body) : ∀ (t acc : Str),
    scanStr (body ++ '"' :: t) acc = some (acc.reverse ++ body, t) := by
  induction hb with
  | nil => intro t acc; simp [scanStr]
  | plain c b h _ ih =>
    intro t acc
    obtain ⟨h1, h2, h3⟩ := h
    have ih' := ih t (c :: acc)
    simp only [List.cons_append]
    unfold scanStr
    split
    · rename_i heq; cases heq
    · rename_i heq; injection heq with heq _; exact absurd heq h3
    · rename_i heq; injection heq with heq _; exact absurd heq h1
    · rename_i heq; injection heq with heq _; exact absurd heq h2
    · rename_i c' r' acc' _ _ _ heq
      injection heq with e1 e2
      subst e1; subst e2
      rw [ih']; simp
  | esc c b h _ ih =>
    intro t acc
    have ih' := ih t (c :: '\\' :: acc)
    have hc : (c == '\n') = false := by simpa using h
    simp only [List.cons_append]
    unfold scanStr
    split
    · rename_i heq; cases heq
    · rename_i heq; injection heq with heq _; exact absurd heq (by decide)
    · rename_i heq; injection heq with heq _; exact absurd heq (by decide)
    · rename_i c' r' acc' heq
      injection heq with _ e2
      injection e2 with e2 e3
      subst e2; subst e3
      simp only [hc, Bool.false_eq_true, if_false]
      rw [ih']; simp
    · rename_i h1 h2 h3 h4
      injection h4 with e1 e2
      exact absurd e2.symm (h3 c (b ++ '"' :: t) e1.symm)

theorem parseCapture_none (s : Str) (h : peek s ≠ some '-') : parseCapture s = some (none, s) := by
  unfold parseCapture
  split
  · rename_i heq; exact absurd (by simp [peek, heq]) h
  · rename_i heq; exact absurd (by simp [peek, heq]) h
  · rfl

theorem parseCapture_some (w1 w2 key t : Str) (h1 : AllWS w1) (h2 : AllWS w2) (hk : ValidKey key)
    (ht : NextNot isKeyChar t) :
    parseCapture (w1 ++ ('-' :: '>' :: (w2 ++ (key ++ t)))) = some (some key, t) := by
  simp only [parseCapture, skipWS_tok w1 '-' _ h1 (by decide), lexKey_tok w2 key t h2 hk ht]

theorem parseCapture_cap (cap : CCap) (t : Str) (hok : cap.OK) (hp : peek t ≠ some '-') (ht : NextNot isKeyChar t) :
    parseCapture (cap.render ++ t) = some (cap.strip, t) := by
  cases cap with
  | none => exact parseCapture_none t hp
  | some w1 w2 k =>
    obtain ⟨h1, h2, hk⟩ := hok
    simpa [CCap.render, CCap.strip, List.append_assoc] using parseCapture_some w1 w2 k t h1 h2 hk ht

theorem nextNot_tok (p : Char → Bool) (hp : ∀ c, isWS c = true → p c = false) (w : Str) (c : Char) (t : Str)
    (hw : AllWS w) (hc : p c = false) : NextNot p (w ++ c :: t) := by
  cases w with
  | nil => exact hc
  | cons d w' => exact hp d (hw d (by simp))

theorem alts_length : ∀ alts : List CAlt, alts.length ≤ (renderAlts alts).length
  | [] => by simp
  | a :: r => by
    have := alts_length r
    simp only [renderAlts, List.length_cons, List.length_append]
    omega

theorem parseAlts_alts : ∀ (alts : List CAlt) (t : Str) (fuel : Nat), altsOK alts → alts.length < fuel →
    NextNot isNameChar t → peek t ≠ some '|' →
    parseAlts fuel (renderAlts alts ++ t) = some (alts.map (·.name), t)
  | [], t, fuel, _, hf, _, hp => by
    cases fuel with
    | zero => simp at hf
    | succ f =>
      simp only [renderAlts, List.nil_append]
      unfold parseAlts
      split
      · rename_i heq; exact absurd (by simp [peek, heq]) hp
      · rfl
  | a :: r, t, fuel, hok, hf, hn, hp => by
    obtain ⟨h1, h2, hname, hr⟩ := hok
    cases fuel with
    | zero => simp at hf
    | succ f =>
      have hnext : NextNot isNameChar (renderAlts r ++ t) := by
        cases r with
        | nil => exact hn
        | cons b r' =>
          obtain ⟨hb1, -⟩ := hr
          simp only [renderAlts, List.append_assoc, List.cons_append]
          exact nextNot_tok isNameChar ws_not_name b.w1 '|' _ hb1 (by decide)
      have ih := parseAlts_alts r t f hr (by simp at hf; omega) hn hp
      simp only [renderAlts, List.append_assoc, List.cons_append, parseAlts, skipWS_tok a.w1 '|' _ h1 (by decide),
        lexCName_tok a.w2 a.name _ h2 hname hnext, ih, List.map_cons]

theorem parseClassSpec_cls (cls : CClass) (t : Str) (hok : cls.OK) (hn : NextNot isNameChar t) (hp : peek t ≠ some '|') :
    parseClassSpec (cls.render ++ t) = some (cls.strip, t) := by
  cases cls with
  | any w =>
    have hw : AllWS w := hok
    simp only [CClass.render, List.append_assoc, List.cons_append, List.nil_append, parseClassSpec,
      skipWS_tok w '*' t hw (by decide), CClass.strip]
  | names w f rest =>
    obtain ⟨hw, hf, hr⟩ := hok
    obtain ⟨c, r', hs, hc, hr'⟩ := id hf
    have hcw : isWS c = false := (nameStart_facts c hc).1
    have hstar : c ≠ '*' := by
      intro h; subst h; revert hc; decide
    have hnext : NextNot isNameChar (renderAlts rest ++ t) := by
      cases rest with
      | nil => exact hn
      | cons b r'' =>
        obtain ⟨hb1, -⟩ := hr
        simp only [renderAlts, List.append_assoc, List.cons_append]
        exact nextNot_tok isNameChar ws_not_name b.w1 '|' _ hb1 (by decide)
    have hskip : skipWS (w ++ (f ++ (renderAlts rest ++ t))) = f ++ (renderAlts rest ++ t) := by
      rw [hs]; exact skipWS_tok w c _ hw hcw
    have hlex : lexCName (f ++ (renderAlts rest ++ t)) = some (f, renderAlts rest ++ t) := by
      have := lexCName_tok [] f (renderAlts rest ++ t) (by intro d hd; cases hd) hf hnext
      simpa using this
    have halts := parseAlts_alts rest t ((renderAlts rest ++ t).length + 1) hr
      (by have := alts_length rest; simp only [List.length_append]; omega) hn hp
    simp only [CClass.render, List.append_assoc, CClass.strip]
    unfold parseClassSpec
    rw [hskip]
    split
    · rename_i heq
      rw [hs] at heq
      injection heq with heq _
      exact absurd heq hstar
    · simp only [hlex, halts]

/-! ### the first significant character of a rendering -/

def ValStart (c : Char) : Prop := c = '(' ∨ c = '$' ∨ c = '"' ∨ c = 'N'

theorem peek_ws (w t : Str) (hw : AllWS w) : peek (w ++ t) = peek t := by
  simp [peek, skipWS_ws w hw]

theorem peek_cap (cap : CCap) (t : Str) (hok : cap.OK) :
    peek (cap.render ++ t) = (match cap with | .none => peek t | .some _ _ _ => some '-') := by
  cases cap with
  | none => rfl
  | some w1 w2 k =>
    obtain ⟨h1, -, -⟩ := hok
    simp only [CCap.render, List.append_assoc, List.cons_append]
    exact peek_tok w1 '-' _ h1 (by decide)

theorem peek_val (v : CPVal) (t : Str) (hok : v.OK) : ∃ c, peek (v.render ++ t) = some c ∧ ValStart c := by
  cases v with
  | tree p =>
    cases p with
    | mk w1 cls fs w2 =>
      have hw : AllWS w1 := by
        simp only [CPVal.OK, CPat.OK] at hok; exact hok.1
      refine ⟨'(', ?_, Or.inl rfl⟩
      simp only [CPVal.render, CPat.render, List.append_assoc, List.cons_append]
      exact peek_tok w1 '(' _ hw (by decide)
  | var w1 w2 x =>
    have hw : AllWS w1 := by simp only [CPVal.OK] at hok; exact hok.1
    refine ⟨'$', ?_, Or.inr (Or.inl rfl)⟩
    simp only [CPVal.render, List.append_assoc, List.cons_append]
    exact peek_tok w1 '$' _ hw (by decide)
  | none w =>
    have hw : AllWS w := by simp only [CPVal.OK] at hok; exact hok
    refine ⟨'N', ?_, Or.inr (Or.inr (Or.inr rfl))⟩
    simp only [CPVal.render, List.append_assoc, List.cons_append]
    exact peek_tok w 'N' _ hw (by decide)
  | re w body =>
    have hw : AllWS w := by simp only [CPVal.OK] at hok; exact hok.1
    refine ⟨'"', ?_, Or.inr (Or.inr (Or.inl rfl))⟩
    simp only [CPVal.render, List.append_assoc, List.cons_append]
    exact peek_tok w '"' _ hw (by decide)

theorem peek_fields (fs : CFields) (t : Str) (hok : fs.OK) :
    peek (fs.render ++ t) = (match fs with | .nil => peek t | .cons _ _ _ _ _ _ => some '@') := by
  cases fs with
  | nil => rfl
  | cons w1 w2 name spec cap rest =>
    have hw : AllWS w1 := by simp only [CFields.OK] at hok; exact hok.1
    simp only [CFields.render, List.append_assoc, List.cons_append]
    exact peek_tok w1 '@' _ hw (by decide)

theorem peek_items (items : CItems) (t : Str) (hok : items.OK) :
    (match items with
     | .nil => peek (items.render ++ t) = peek t
     | .cons _ _ _ => ∃ c, peek (items.render ++ t) = some c ∧ ValStart c) := by
  cases items with
  | nil => rfl
  | cons v cap rest =>
    have hv : v.OK := by simp only [CItems.OK] at hok; exact hok.1
    simp only [CItems.render, List.append_assoc]
    exact peek_val v _ hv

theorem peek_spec (spec : CFSpec) (t : Str) (hok : spec.OK) :
    peek (spec.render ++ t) = (match spec with | .any => peek t | _ => some '=') := by
  cases spec with
  | any => rfl
  | val w v =>
    have hw : AllWS w := by simp only [CFSpec.OK] at hok; exact hok.1
    simp only [CFSpec.render, List.append_assoc, List.cons_append]
    exact peek_tok w '=' _ hw (by decide)
  | seq w1 w2 items tail w3 =>
    have hw : AllWS w1 := by simp only [CFSpec.OK] at hok; exact hok.1
    simp only [CFSpec.render, List.append_assoc, List.cons_append]
    exact peek_tok w1 '=' _ hw (by decide)

theorem valStart_facts (c : Char) (h : ValStart c) :
    isKeyChar c = false ∧ c ≠ '-' ∧ c ≠ '*' ∧ c ≠ ']' ∧ c ≠ '[' := by
  rcases h with h | h | h | h <;> subst h <;> decide

theorem startsValue_of_peek (s : Str) (c : Char) (h : peek s = some c) (hv : ValStart c) : startsValue s = true := by
  simp only [peek] at h
  cases hs : skipWS s with
  | nil => rw [hs] at h; cases h
  | cons d r =>
    rw [hs] at h
    simp only [List.head?_cons, Option.some.injEq] at h
    subst h
    rcases hv with h | h | h | h <;> subst h <;> simp [startsValue, hs]

theorem startsValue_false (s : Str) (h : peek s = some '*' ∨ peek s = some ']') : startsValue s = false := by
  simp only [peek] at h
  cases hs : skipWS s with
  | nil => rw [hs] at h; rcases h with h | h <;> cases h
  | cons d r =>
    rw [hs] at h
    simp only [List.head?_cons, Option.some.injEq] at h
    rcases h with h | h <;> subst h <;> simp [startsValue, hs]

theorem parseTree_skip (fuel : Nat) (w s : Str) (hw : AllWS w) : parseTree fuel (w ++ s) = parseTree fuel s := by
  cases fuel with
  | zero => simp [parseTree]
  | succ f => simp only [parseTree, expectC, skipWS_ws w hw]

/-- facts about a string whose next significant character is known -/
theorem follow_facts (s : Str) (c : Char) (h : peek s = some c) :
    (isNameChar c = false → NextNot isNameChar s) ∧ (isKeyChar c = false → NextNot isKeyChar s)
      ∧ (∀ d, c ≠ d → peek s ≠ some d) := by
  refine ⟨fun hc => ?_, fun hc => ?_, fun d hd he => ?_⟩
  · exact nextNot_of_peek isNameChar ws_not_name s (fun x hx => by rw [h] at hx; injection hx with hx; rw [← hx]; exact hc)
  · exact nextNot_of_peek isKeyChar ws_not_key s (fun x hx => by rw [h] at hx; injection hx with hx; rw [← hx]; exact hc)
  · rw [h] at he; injection he with he; exact hd he

theorem peek_fields_close (fs : CFields) (w t : Str) (hok : fs.OK) (hw : AllWS w) :
    peek (fs.render ++ (w ++ ')' :: t)) = some '@' ∨ peek (fs.render ++ (w ++ ')' :: t)) = some ')' := by
  rw [peek_fields fs _ hok]
  cases fs with
  | nil => exact Or.inr (peek_tok w ')' t hw (by decide))
  | cons _ _ _ _ _ _ => exact Or.inl rfl

theorem peek_fields_follow (fs : CFields) (t : Str) (hok : fs.OK) (ht : peek t = some ')') :
    peek (fs.render ++ t) = some '@' ∨ peek (fs.render ++ t) = some ')' := by
  rw [peek_fields fs _ hok]
  cases fs with
  | nil => exact Or.inr ht
  | cons _ _ _ _ _ _ => exact Or.inl rfl

theorem peek_cap_fields (cap : CCap) (fs : CFields) (t : Str) (hc : cap.OK) (hok : fs.OK) (ht : peek t = some ')') :
    peek (cap.render ++ (fs.render ++ t)) = some '-' ∨ peek (cap.render ++ (fs.render ++ t)) = some '@'
      ∨ peek (cap.render ++ (fs.render ++ t)) = some ')' := by
  rw [peek_cap cap _ hc]
  cases cap with
  | none => exact Or.inr (peek_fields_follow fs t hok ht)
  | some _ _ _ => exact Or.inl rfl

theorem peek_items_follow (items : CItems) (t : Str) (hok : items.OK) (ht : peek t = some '*' ∨ peek t = some ']') :
    ∃ c, peek (items.render ++ t) = some c ∧ (ValStart c ∨ c = '*' ∨ c = ']') := by
  have := peek_items items t hok
  cases items with
  | nil =>
    simp only at this
    rcases ht with h | h
    · exact ⟨'*', by rw [this, h], Or.inr (Or.inl rfl)⟩
    · exact ⟨']', by rw [this, h], Or.inr (Or.inr rfl)⟩
  | cons v cap rest =>
    obtain ⟨c, hc, hv⟩ := this
    exact ⟨c, hc, Or.inl hv⟩

theorem itemsFollow_facts (c : Char) (h : ValStart c ∨ c = '*' ∨ c = ']') : isKeyChar c = false ∧ c ≠ '-' := by
  rcases h with h | h | h
  · exact ⟨(valStart_facts c h).1, (valStart_facts c h).2.1⟩
  · subst h; decide
  · subst h; decide

/-! ### the parser inverts the rendering -/

mutual
theorem pat_parse : ∀ (p : CPat) (t : Str) (fuel : Nat), p.OK → p.size < fuel →
    parseTree fuel (p.render ++ t) = some (p.strip, t)
  | .mk w1 cls fs w2, t, fuel, hok, hf => by
    obtain ⟨h1, hcls, hfs, h2⟩ := hok
    cases fuel with
    | zero => simp at hf
    | succ f =>
      have hfs_size : fs.size < f := by simp only [CPat.size] at hf; omega
      have hR1 := peek_fields_close fs w2 t hfs h2
      have hcs : parseClassSpec (cls.render ++ (fs.render ++ (w2 ++ ')' :: t))) = some (cls.strip, fs.render ++ (w2 ++ ')' :: t)) := by
        rcases hR1 with h | h
        · obtain ⟨a, -, c⟩ := follow_facts _ _ h
          exact parseClassSpec_cls cls _ hcls (a (by decide)) (c '|' (by decide))
        · obtain ⟨a, -, c⟩ := follow_facts _ _ h
          exact parseClassSpec_cls cls _ hcls (a (by decide)) (c '|' (by decide))
      have hpf := fields_parse fs (w2 ++ ')' :: t) f hfs hfs_size (peek_tok w2 ')' t h2 (by decide))
      simp only [CPat.render, List.append_assoc, List.cons_append, List.nil_append, parseTree,
        expectC_tok w1 '(' _ h1 (by decide), hcs, hpf, expectC_tok w2 ')' t h2 (by decide), CPat.strip]
theorem fields_parse : ∀ (fs : CFields) (t : Str) (fuel : Nat), fs.OK → fs.size < fuel → peek t = some ')' →
    parseFields fuel (fs.render ++ t) = some (fs.strip, t)
  | .nil, t, fuel, _, hf, ht => by
    cases fuel with
    | zero => simp at hf
    | succ f =>
      simp only [CFields.render, List.nil_append, CFields.strip]
      unfold parseFields
      split
      · rename_i heq
        have : peek t = some '@' := by simp [peek, heq]
        rw [ht] at this; cases this
      · rfl
  | .cons w1 w2 name spec cap rest, t, fuel, hok, hf, ht => by
    obtain ⟨h1, h2, hname, hspec, hcap, hrest⟩ := hok
    cases fuel with
    | zero => simp at hf
    | succ f =>
      have hs1 : spec.size < f := by simp only [CFields.size] at hf; omega
      have hs2 : rest.size < f := by simp only [CFields.size] at hf; omega
      have hR3 := peek_fields_follow rest t hrest ht
      have hR2 := peek_cap_fields cap rest t hcap hrest ht
      -- what follows the field name
      have hR1 : NextNot isNameChar (spec.render ++ (cap.render ++ (rest.render ++ t))) := by
        have hp := peek_spec spec (cap.render ++ (rest.render ++ t)) hspec
        cases spec with
        | any =>
          simp only at hp
          simp only [CFSpec.render, List.nil_append]
          rcases hR2 with h | h | h <;> exact (follow_facts _ _ h).1 (by decide)
        | val w v => exact (follow_facts _ _ hp).1 (by decide)
        | seq a b c d e => exact (follow_facts _ _ hp).1 (by decide)
      have hspec_p := fspec_parse spec (cap.render ++ (rest.render ++ t)) f hspec hs1 hR2
      have hcap_p : parseCapture (cap.render ++ (rest.render ++ t)) = some (cap.strip, rest.render ++ t) := by
        rcases hR3 with h | h
        · obtain ⟨-, b, c⟩ := follow_facts _ _ h
          exact parseCapture_cap cap _ hcap (c '-' (by decide)) (b (by decide))
        · obtain ⟨-, b, c⟩ := follow_facts _ _ h
          exact parseCapture_cap cap _ hcap (c '-' (by decide)) (b (by decide))
      have hrest_p := fields_parse rest t f hrest hs2 ht
      simp only [CFields.render, List.append_assoc, List.cons_append, parseFields, skipWS_tok w1 '@' _ h1 (by decide),
        lexCName_tok w2 name _ h2 hname hR1, hspec_p, hcap_p, hrest_p, CFields.strip]
theorem fspec_parse : ∀ (spec : CFSpec) (t : Str) (fuel : Nat), spec.OK → spec.size < fuel →
    (peek t = some '-' ∨ peek t = some '@' ∨ peek t = some ')') →
    parseFSpec fuel (spec.render ++ t) = some (spec.strip, t)
  | .any, t, fuel, _, hf, ht => by
    cases fuel with
    | zero => simp at hf
    | succ f =>
      simp only [CFSpec.render, List.nil_append, CFSpec.strip]
      unfold parseFSpec
      split
      · rename_i heq
        have : peek t = some '=' := by simp [peek, heq]
        rcases ht with h | h | h <;> (rw [h] at this; cases this)
      · rfl
  | .val w v, t, fuel, hok, hf, ht => by
    obtain ⟨hw, hv⟩ := hok
    cases fuel with
    | zero => simp at hf
    | succ f =>
      have hvs : v.size < f := by simp only [CFSpec.size] at hf; omega
      have hkey : ∀ c, peek t = some c → isKeyChar c = false := by
        intro c hc
        rcases ht with h | h | h <;> (rw [h] at hc; injection hc with hc; subst hc; decide)
      have hvp := val_parse v t f hv hvs hkey
      obtain ⟨c, hc, hvs'⟩ := peek_val v t hv
      simp only [CFSpec.render, List.append_assoc, List.cons_append, CFSpec.strip]
      unfold parseFSpec
      rw [skipWS_tok w '=' _ hw (by decide)]
      simp only []
      split
      · rename_i heq
        have : peek (v.render ++ t) = some '[' := by simp [peek, heq]
        rw [hc] at this; injection this with this
        exact absurd this (valStart_facts c hvs').2.2.2.2
      · simp only [hvp]
  | .seq w1 w2 items tail w3, t, fuel, hok, hf, ht => by
    obtain ⟨h1, h2, hitems, htail, h3⟩ := hok
    cases fuel with
    | zero => simp at hf
    | succ f =>
      have his : items.size < f := by simp only [CFSpec.size] at hf; omega
      cases tail with
      | none =>
        have hip := items_parse items (w3 ++ ']' :: t) f hitems his (Or.inr (peek_tok w3 ']' t h3 (by decide)))
        simp only [CFSpec.render, renderTail, List.append_assoc, List.cons_append, List.nil_append, parseFSpec,
          skipWS_tok w1 '=' _ h1 (by decide), skipWS_tok w2 '[' _ h2 (by decide), hip,
          skipWS_tok w3 ']' t h3 (by decide), CFSpec.strip, stripTail]
      | some tc =>
        obtain ⟨wt, cap⟩ := tc
        obtain ⟨hwt, hcap⟩ := htail
        have hip := items_parse items (wt ++ '*' :: (cap.render ++ (w3 ++ ']' :: t))) f hitems his
          (Or.inl (peek_tok wt '*' _ hwt (by decide)))
        have hclose : peek (w3 ++ ']' :: t) = some ']' := peek_tok w3 ']' t h3 (by decide)
        obtain ⟨-, b, c⟩ := follow_facts _ _ hclose
        have hcp := parseCapture_cap cap (w3 ++ ']' :: t) hcap (c '-' (by decide)) (b (by decide))
        simp only [CFSpec.render, renderTail, List.append_assoc, List.cons_append, List.nil_append, parseFSpec,
          skipWS_tok w1 '=' _ h1 (by decide), skipWS_tok w2 '[' _ h2 (by decide), hip,
          skipWS_tok wt '*' _ hwt (by decide), hcp, expectC_tok w3 ']' t h3 (by decide), CFSpec.strip, stripTail]
theorem items_parse : ∀ (items : CItems) (t : Str) (fuel : Nat), items.OK → items.size < fuel →
    (peek t = some '*' ∨ peek t = some ']') →
    parseItems fuel (items.render ++ t) = some (items.strip, t)
  | .nil, t, fuel, _, hf, ht => by
    cases fuel with
    | zero => simp at hf
    | succ f =>
      simp only [CItems.render, List.nil_append, parseItems, startsValue_false t ht, CItems.strip]
      simp
  | .cons v cap rest, t, fuel, hok, hf, ht => by
    obtain ⟨hv, hcap, hrest⟩ := hok
    cases fuel with
    | zero => simp at hf
    | succ f =>
      have hs1 : v.size < f := by simp only [CItems.size] at hf; omega
      have hs2 : rest.size < f := by simp only [CItems.size] at hf; omega
      obtain ⟨c3, hc3, hk3⟩ := peek_items_follow rest t hrest ht
      obtain ⟨hkey3, hdash3⟩ := itemsFollow_facts c3 hk3
      obtain ⟨-, b3, n3⟩ := follow_facts _ _ hc3
      have hcp := parseCapture_cap cap (rest.render ++ t) hcap (n3 '-' hdash3) (b3 hkey3)
      have hkey2 : ∀ c, peek (cap.render ++ (rest.render ++ t)) = some c → isKeyChar c = false := by
        intro c hc
        rw [peek_cap cap _ hcap] at hc
        cases cap with
        | none => simp only at hc; rw [hc3] at hc; injection hc with hc; rw [← hc]; exact hkey3
        | some _ _ _ => simp only at hc; injection hc with hc; rw [← hc]; decide
      have hvp := val_parse v (cap.render ++ (rest.render ++ t)) f hv hs1 hkey2
      have hrp := items_parse rest t f hrest hs2 ht
      obtain ⟨c1, hc1, hv1⟩ := peek_val v (cap.render ++ (rest.render ++ t)) hv
      have hsv := startsValue_of_peek _ c1 hc1 hv1
      simp only [CItems.render, List.append_assoc, parseItems, hsv, if_true, hvp, hcp, hrp, CItems.strip]
theorem val_parse : ∀ (v : CPVal) (t : Str) (fuel : Nat), v.OK → v.size < fuel →
    (∀ c, peek t = some c → isKeyChar c = false) →
    parseValue fuel (v.render ++ t) = some (v.strip, t)
  | .tree p, t, fuel, hok, hf, _ => by
    cases fuel with
    | zero => simp at hf
    | succ f =>
      have hp : p.OK := hok
      have hps : p.size < f := by simp only [CPVal.size] at hf; omega
      have ih := pat_parse p t f hp hps
      cases p with
      | mk w1 cls fs w2 =>
        have h1 : AllWS w1 := by simp only [CPat.OK] at hp; exact hp.1
        simp only [CPVal.render, CPat.render, List.append_assoc, List.cons_append, List.nil_append] at ih ⊢
        rw [parseTree_skip f w1 _ h1] at ih
        simp only [parseValue, skipWS_tok w1 '(' _ h1 (by decide), ih, CPVal.strip]
  | .var w1 w2 x, t, fuel, hok, hf, ht => by
    obtain ⟨h1, h2, hx⟩ := hok
    cases fuel with
    | zero => simp at hf
    | succ f =>
      have hn : NextNot isKeyChar t := nextNot_of_peek isKeyChar ws_not_key t ht
      simp only [CPVal.render, List.append_assoc, List.cons_append, parseValue, skipWS_tok w1 '$' _ h1 (by decide),
        lexKey_tok w2 x t h2 hx hn, CPVal.strip]
  | .none w, t, fuel, hok, hf, _ => by
    have hw : AllWS w := hok
    cases fuel with
    | zero => simp at hf
    | succ f =>
      simp only [CPVal.render, List.append_assoc, List.cons_append, List.nil_append, parseValue,
        skipWS_tok w 'N' _ hw (by decide), CPVal.strip]
  | .re w body, t, fuel, hok, hf, _ => by
    obtain ⟨hw, hb⟩ := hok
    cases fuel with
    | zero => simp at hf
    | succ f =>
      have hsc := scanStr_body body hb t []
      simp only [List.reverse_nil, List.nil_append] at hsc
      simp only [CPVal.render, List.append_assoc, List.cons_append, List.nil_append, parseValue,
        skipWS_tok w '"' _ hw (by decide), hsc, CPVal.strip]
end

/-! ### the fuel handed to the parser by `parsePattern` is sufficient -/

mutual
theorem pat_size : ∀ p : CPat, p.size + 3 ≤ 2 * p.render.length
  | .mk w1 cls fs w2 => by
    have := fields_size fs
    simp only [CPat.size, CPat.render, List.length_append, List.length_cons, List.length_nil]
    omega
theorem fields_size : ∀ fs : CFields, fs.size ≤ 2 * fs.render.length
  | .nil => by simp [CFields.size]
  | .cons w1 w2 name spec cap rest => by
    have := fspec_size spec
    have := fields_size rest
    simp only [CFields.size, CFields.render, List.length_append, List.length_cons]
    omega
theorem fspec_size : ∀ spec : CFSpec, spec.size ≤ 2 * spec.render.length
  | .any => by simp [CFSpec.size]
  | .val w v => by
    have := val_size v
    simp only [CFSpec.size, CFSpec.render, List.length_append, List.length_cons]
    omega
  | .seq w1 w2 items tail w3 => by
    have := items_size items
    simp only [CFSpec.size, CFSpec.render, List.length_append, List.length_cons, List.length_nil]
    omega
theorem items_size : ∀ items : CItems, items.size ≤ 2 * items.render.length
  | .nil => by simp [CItems.size]
  | .cons v cap rest => by
    have := val_size v
    have := items_size rest
    simp only [CItems.size, CItems.render, List.length_append]
    omega
theorem val_size : ∀ v : CPVal, v.size + 1 ≤ 2 * v.render.length
  | .tree p => by
    have := pat_size p
    simp only [CPVal.size, CPVal.render]
    omega
  | .var w1 w2 x => by simp only [CPVal.size, CPVal.render, List.length_append, List.length_cons]; omega
  | .none w => by simp only [CPVal.size, CPVal.render, List.length_append, List.length_cons, List.length_nil]; omega
  | .re w body => by simp only [CPVal.size, CPVal.render, List.length_append, List.length_cons, List.length_nil]; omega
end

theorem skipWS_all : ∀ w : Str, AllWS w → skipWS w = []
  | [], _ => rfl
  | c :: w, h => by
    have hc := h c (by simp)
    have ih := skipWS_all w (fun d hd => h d (by simp [hd]))
    simpa [skipWS, List.dropWhile, hc] using ih

/-- **parse ∘ render = id**: a derivation of the pattern grammar, written with any white space in
front of its tokens and after the last one, is parsed back to its own syntax tree -/
theorem parse_render (p : CPat) (wEnd : Str) (hok : p.OK) (hw : AllWS wEnd) :
    parsePattern (p.render ++ wEnd) = some p.strip := by
  have hsz := pat_size p
  have hfuel : p.size < 5 * (p.render ++ wEnd).length + 8 := by
    simp only [List.length_append]; omega
  simp only [parsePattern, pat_parse p wEnd _ hok hfuel, skipWS_all wEnd hw, List.isEmpty_nil, if_true]

/-- **every string of the pattern grammar whose tree is well-formed is accepted, whatever white
space surrounds its tokens**, and it compiles to the matcher of its syntax tree -/
theorem pattern_accepts_rendering (K : CEnv) (p : CPat) (wEnd : Str) (hok : p.OK) (hw : AllWS wEnd)
    (hwf : p.strip.WF K []) :
    ∃ m, compilePattern K (p.render ++ wEnd) = .ok m ∧ compile K p.strip = .ok m := by
  obtain ⟨m, hm⟩ := accepts_wellformed K p.strip hwf
  exact ⟨m, by simp only [compilePattern, parse_render p wEnd hok hw, hm], hm⟩

/-- **white space between tokens never changes the meaning**: two renderings of the same syntax
tree compile to the same result (accepted or rejected alike) -/
theorem pattern_ws_irrelevant (K : CEnv) (p q : CPat) (wp wq : Str) (hp : p.OK) (hq : q.OK) (hwp : AllWS wp)
    (hwq : AllWS wq) (h : p.strip = q.strip) :
    compilePattern K (p.render ++ wp) = compilePattern K (q.render ++ wq) := by
  simp only [compilePattern, parse_render p wp hp hwp, parse_render q wq hq hwq, h]

/-! non-vacuity: `( T @i = [ (L)->a $a * -> r ] -> c )` with assorted white space -/
section Examples
def exC : CPat :=
  .mk [' '] (.names [] ['T'] []) (.cons [' '] [] ['i']
    (.seq ['\t'] [] (.cons (.tree (.mk [] (.names [] ['L'] [⟨[' '], [], ['T']⟩]) .nil [])) (.some [] [' '] ['a'])
      (.cons (.var [' '] [] ['a']) .none .nil)) (some ([' '], .some [' '] [] ['r'])) ['\n'])
    (.some [] [] ['c']) .nil) [' ']
-- the text is  " (T @i\t=[(L |T)-> a $a * ->r\n]->c ) "
example : exC.OK := by
  simp [exC, CPat.OK, CFields.OK, CFSpec.OK, CItems.OK, CPVal.OK, CClass.OK, CCap.OK, altsOK, tailOK, AllWS, isWS]
  exact ⟨⟨'T', [], by decide⟩, ⟨'i', [], by decide⟩,
    ⟨⟨⟨⟨'L', [], by decide⟩, ⟨'T', [], by decide⟩⟩, ⟨[], 'a', by decide⟩⟩, ⟨[], 'r', by decide⟩⟩, ⟨[], 'c', by decide⟩⟩
example : outcome (compilePattern C08.exK (exC.render ++ [' '])) = 0 := by decide
end Examples

end C17
end PyOak
