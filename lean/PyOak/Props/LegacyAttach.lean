/-
`_attach` preserves the invariant.

The repaired `_attach` first plans (`_attach_plan`: no side effect) and then commits the planned
nodes one by one, children before parents.  Every single commit step attaches one detached node
whose children are, at that moment, all attached roots -- a step that takes a state satisfying
the full invariant to a state satisfying the full invariant (`commitOne_inv`).  The plan facts
(`attachPlan_facts`) guarantee that the precondition of the step holds each time.
-/
import PyOak.Props.LegacyBase
namespace PyOak.Legacy
open LState

/-! ### `reparent` -/

theorem reparent_reg (n : Nat) : ∀ (l : List (Nat × Str × Option Nat)) (s : LState), (reparent n s l).reg = s.reg := by
  intro l; induction l with
  | nil => intro s; rfl
  | cons e r ih => intro s; obtain ⟨c, f, i⟩ := e; simp [reparent, ih]

theorem reparent_size (n : Nat) : ∀ (l : List (Nat × Str × Option Nat)) (s : LState), (reparent n s l).size = s.size := by
  intro l; induction l with
  | nil => intro s; rfl
  | cons e r ih => intro s; obtain ⟨c, f, i⟩ := e; simp [reparent, ih]

theorem reparent_lookup (n : Nat) (l : List (Nat × Str × Option Nat)) (s : LState) (k : Str) :
    (reparent n s l).lookup k = s.lookup k := by
  unfold LState.lookup; rw [reparent_reg]

theorem reparent_idOf (n : Nat) : ∀ (l : List (Nat × Str × Option Nat)) (s : LState) (v : Nat),
    (reparent n s l).idOf v = s.idOf v := by
  intro l; induction l with
  | nil => intro s v; rfl
  | cons e r ih => intro s v; obtain ⟨c, f, i⟩ := e; simp [reparent, ih]

theorem reparent_obj_not_mem (n : Nat) : ∀ (l : List (Nat × Str × Option Nat)) (s : LState) (x : Nat),
    x ∉ l.map (·.1) → (reparent n s l).obj x = s.obj x := by
  intro l; induction l with
  | nil => intro s x _; rfl
  | cons e r ih =>
    intro s x hx
    obtain ⟨c, f, i⟩ := e
    simp only [List.map_cons, List.mem_cons, not_or] at hx
    simp only [reparent]
    rw [ih _ _ hx.2, setParent_obj]
    simp [hx.1]

theorem reparent_obj_mem (n : Nat) : ∀ (l : List (Nat × Str × Option Nat)) (s : LState),
    (l.map (·.1)).Nodup → ∀ e ∈ l,
      (reparent n s l).obj e.1 = { s.obj e.1 with pid := some (s.idOf n), pfield := some e.2.1, pindex := e.2.2 } := by
  intro l; induction l with
  | nil => intro s _ e he; cases he
  | cons a r ih =>
    intro s hnd e he
    obtain ⟨c, f, i⟩ := a
    simp only [List.map_cons, List.nodup_cons] at hnd
    simp only [reparent]
    rcases List.mem_cons.mp he with rfl | he
    · rw [reparent_obj_not_mem _ _ _ _ hnd.1, setParent_obj]; simp
    · have hne : e.1 ≠ c := by
        intro h; apply hnd.1; rw [← h]; exact List.mem_map.mpr ⟨e, he, rfl⟩
      rw [ih _ hnd.2 e he, setParent_obj, setParent_idOf]
      simp [hne]

/-- `reparent` touches the parent slots only -/
theorem reparent_same (n : Nat) : ∀ (l : List (Nat × Str × Option Nat)) (s : LState) (x : Nat),
    SameButParent (s.obj x) ((reparent n s l).obj x) := by
  intro l; induction l with
  | nil => intro s x; exact SameButParent.refl _
  | cons e r ih =>
    intro s x
    obtain ⟨c, f, i⟩ := e
    simp only [reparent]
    refine SameButParent.trans ?_ (ih _ x)
    rw [setParent_obj]; split
    · next h => subst h; exact ⟨rfl, rfl, rfl, rfl, rfl, rfl, rfl, rfl, rfl⟩
    · exact SameButParent.refl _

/-! ### one commit step -/

section
variable (Hc : Str → Str)

theorem setContentId_obj (s : LState) (u v : Nat) :
    (s.setContentId Hc u).obj v = if v = u then { s.obj u with cid := Hc (cidPre s (s.obj u)) } else s.obj v := rfl

@[simp] theorem setContentId_lookup (s : LState) (u : Nat) (k : Str) : (s.setContentId Hc u).lookup k = s.lookup k := rfl
@[simp] theorem setContentId_size (s : LState) (u : Nat) : (s.setContentId Hc u).size = s.size := rfl
@[simp] theorem setContentId_idOf (s : LState) (u v : Nat) : (s.setContentId Hc u).idOf v = s.idOf v := by
  unfold LState.idOf; rw [setContentId_obj]; split <;> simp_all

/-- the state after `commitOne`, object by object -/
theorem commitOne_obj (s : LState) (n x : Nat) (hnk : n ∉ (s.obj n).kidList)
    (hnd : (s.obj n).kidList.Nodup) :
    (commitOne Hc s n).obj x =
      if x = n then { s.obj n with cid := Hc (cidPre (reparent n s (s.obj n).kidsPos) (s.obj n)) }
      else match (s.obj n).kidsPos.find? (·.1 = x) with
        | some e => { s.obj x with pid := some (s.idOf n), pfield := some e.2.1, pindex := e.2.2 }
        | none => s.obj x := by
  unfold commitOne
  rw [register_obj, setContentId_obj]
  have hn : (reparent n s (s.obj n).kidsPos).obj n = s.obj n :=
    reparent_obj_not_mem n _ s n (by rw [kidsPos_map_fst]; exact hnk)
  by_cases hx : x = n
  · subst hx; simp [hn]
  · simp only [hx, if_false]
    cases hf : (s.obj n).kidsPos.find? (·.1 = x) with
    | none =>
      apply reparent_obj_not_mem
      intro hmem
      obtain ⟨e, he, he1⟩ := List.mem_map.mp hmem
      have := List.find?_eq_none.mp hf e he
      simp [he1] at this
    | some e =>
      have he := List.mem_of_find?_eq_some hf
      have he1 : e.1 = x := by simpa using List.find?_some hf
      have := reparent_obj_mem n _ s (by rw [kidsPos_map_fst]; exact hnd) e he
      rw [he1] at this
      exact this


theorem commitOne_lookup (s : LState) (n : Nat) (k : Str) :
    (commitOne Hc s n).lookup k = if s.idOf n = k then some n else s.lookup k := by
  unfold commitOne
  rw [register_lookup, setContentId_idOf, reparent_idOf, setContentId_lookup, reparent_lookup]

theorem commitOne_size (s : LState) (n : Nat) : (commitOne Hc s n).size = s.size := by
  unfold commitOne; rw [register_size, setContentId_size, reparent_size]

/-- attaching one detached node whose children are all attached roots preserves the invariant -/
theorem commitOne_inv {X : Nat → (Nat × Str × Option Nat) → Prop} {Y : Nat → Prop} {s : LState} {n : Nat}
    (hI : InvX Hc X Y s) (hn : n < s.size)
    (hfree : s.lookup (s.idOf n) = none)
    (hkids : ∀ c ∈ (s.obj n).kidList, Att s c ∧ (s.obj c).pid = none)
    (hnd : (s.obj n).kidList.Nodup) (hXn : ∀ q e, X q e → e.1 ≠ n) : InvX Hc X Y (commitOne Hc s n) := by
  have hnatt : ¬ Att s n := by unfold Att; rw [hfree]; simp
  have hnk : n ∉ (s.obj n).kidList := fun h => hnatt (hkids n h).1
  have hpidn : (s.obj n).pid = none := by
    cases h : (s.obj n).pid with
    | none => rfl
    | some k => exact absurd (hI.noDangling n k h).1 hnatt
  have hobj := fun x => commitOne_obj Hc s n x hnk hnd
  have hlk := commitOne_lookup Hc s n
  -- what find? says
  have find_some : ∀ x e, (s.obj n).kidsPos.find? (·.1 = x) = some e → e ∈ (s.obj n).kidsPos ∧ e.1 = x := by
    intro x e hf
    exact ⟨List.mem_of_find?_eq_some hf, by simpa using List.find?_some hf⟩
  have find_none : ∀ x, (s.obj n).kidsPos.find? (·.1 = x) = none → x ∉ (s.obj n).kidList := by
    intro x hf hx
    obtain ⟨e, he, he1⟩ := (mem_kidList_iff _ _).mp hx
    have := List.find?_eq_none.mp hf e he
    simp [he1] at this
  -- a member of kidsPos is what find? returns (first components are distinct)
  have find_mem : ∀ e ∈ (s.obj n).kidsPos, (s.obj n).kidsPos.find? (·.1 = e.1) = some e := by
    intro e he
    cases hf : (s.obj n).kidsPos.find? (·.1 = e.1) with
    | none => exact absurd ((mem_kidList_iff _ _).mpr ⟨e, he, rfl⟩) (find_none _ hf)
    | some e' =>
      obtain ⟨he', he'1⟩ := find_some _ _ hf
      have hnd' : ((s.obj n).kidsPos.map (·.1)).Nodup := by rw [kidsPos_map_fst]; exact hnd
      have := eq_of_nodup_map (·.1) _ hnd' e' he' e he he'1
      rw [this]
  -- ids and fields are untouched
  have hsame : ∀ x, ((commitOne Hc s n).obj x).id = (s.obj x).id ∧ ((commitOne Hc s n).obj x).fields = (s.obj x).fields := by
    intro x
    rw [hobj x]; split
    · next h => subst h; exact ⟨rfl, rfl⟩
    · split <;> exact ⟨rfl, rfl⟩
  have hid : ∀ x, (commitOne Hc s n).idOf x = s.idOf x := fun x => (hsame x).1
  have hkp : ∀ x, ((commitOne Hc s n).obj x).kidsPos = (s.obj x).kidsPos := by
    intro x; unfold LObj.kidsPos; rw [(hsame x).2]
  have hkl : ∀ x, ((commitOne Hc s n).obj x).kidList = (s.obj x).kidList := by
    intro x; unfold LObj.kidList; rw [(hsame x).2]
  have hatt : ∀ v, Att (commitOne Hc s n) v ↔ v = n ∨ Att s v := by
    intro v
    unfold Att
    rw [hid, hlk]
    by_cases h : s.idOf n = s.idOf v
    · simp only [h, if_true]
      constructor
      · intro hh; exact .inl (Option.some.inj hh).symm
      · rintro (rfl | hv)
        · rfl
        · rw [← h, hfree] at hv; cases hv
    · simp only [h, if_false]
      constructor
      · intro hh; exact .inr hh
      · rintro (rfl | hv)
        · exact absurd rfl h
        · exact hv
  -- old attached nodes that are not children of n are untouched
  have old_obj : ∀ x, x ≠ n → x ∉ (s.obj n).kidList → (commitOne Hc s n).obj x = s.obj x := by
    intro x hx hxk
    rw [hobj x]; simp only [hx, if_false]
    cases hf : (s.obj n).kidsPos.find? (·.1 = x) with
    | none => rfl
    | some e => exact absurd (by rw [← (find_some _ _ hf).2]; exact (mem_kidList_iff _ _).mpr ⟨e, (find_some _ _ hf).1, rfl⟩) hxk
  -- cids of everything but n are untouched
  have hcid : ∀ x, x ≠ n → ((commitOne Hc s n).obj x).cid = (s.obj x).cid := by
    intro x hx
    rw [hobj x]; simp only [hx, if_false]
    split <;> rfl
  refine ⟨?_, ?_, ?_, ?_, ?_, ?_, ?_, ?_⟩
  · -- regSound
    intro k v hk
    rw [hlk] at hk
    rw [commitOne_size, hid]
    split at hk
    · next h => cases hk; exact ⟨hn, h⟩
    · exact hI.regSound k v hk
  · -- down
    intro v hv e he hx
    rw [hkp] at he
    rcases (hatt v).mp hv with rfl | hvs
    · -- the new node
      have hc := hkids e.1 ((mem_kidList_iff _ _).mpr ⟨e, he, rfl⟩)
      have hne : e.1 ≠ v := fun h => hnatt (h ▸ hc.1)
      refine ⟨(hatt _).mpr (.inr hc.1), ?_⟩
      rw [hobj e.1]; simp only [hne, if_false]
      rw [find_mem e he, hid]
      exact ⟨rfl, rfl, rfl⟩
    · obtain ⟨hca, hcp, hcf, hci⟩ := hI.down v hvs e he hx
      have hne : e.1 ≠ n := fun h => hnatt (h ▸ hca)
      have hnk' : e.1 ∉ (s.obj n).kidList := by
        intro h; rw [(hkids _ h).2] at hcp; cases hcp
      rw [KidOk, old_obj _ hne hnk', hid]
      exact ⟨(hatt _).mpr (.inr hca), hcp, hcf, hci⟩
  · -- up
    intro x hx p hp
    rw [hkp]
    unfold LState.parent at hp
    rcases (hatt x).mp hx with rfl | hxs
    · rw [hobj x] at hp; simp [hpidn] at hp
    · have hxn : x ≠ n := fun h => hnatt (h ▸ hxs)
      by_cases hxk : x ∈ (s.obj n).kidList
      · obtain ⟨e, he, he1⟩ := (mem_kidList_iff _ _).mp hxk
        subst he1
        rw [hobj e.1] at hp ⊢
        simp only [hxn, if_false] at hp ⊢
        rw [find_mem e he] at hp ⊢
        simp only at hp ⊢
        rw [hlk] at hp
        simp only [if_true] at hp
        cases hp
        exact ⟨e.2.1, rfl, he⟩
      · rw [old_obj x hxn hxk] at hp ⊢
        cases hk : (s.obj x).pid with
        | none => rw [hk] at hp; cases hp
        | some k =>
          rw [hk] at hp; simp only at hp
          rw [hlk] at hp
          obtain ⟨_, hks⟩ := hI.noDangling x k hk
          have hps : s.lookup k = some p := by
            split at hp
            · next h => rw [← h, hfree] at hks; cases hks
            · exact hp
          have : s.parent x = some p := by unfold LState.parent; rw [hk]; exact hps
          exact hI.up x hxs p this
  · -- cid
    intro x hx hy
    rcases (hatt x).mp hx with rfl | hxs
    · rw [hobj x]; simp only [if_true]
      congr 1
      apply cidPre_congr rfl rfl rfl
      intro c hc
      have hcn : c ≠ x := fun h => hnk (h ▸ hc)
      rw [hcid c hcn]
      exact ((reparent_same x _ s c).cid).symm
    · have hxn : x ≠ n := fun h => hnatt (h ▸ hxs)
      rw [hcid x hxn, hI.cid x hxs hy]
      congr 1
      symm
      apply cidPre_congr
      · rw [hobj x]; simp only [hxn, if_false]; split <;> rfl
      · rw [hobj x]; simp only [hxn, if_false]; split <;> rfl
      · exact (hsame x).2
      · intro c hc
        obtain ⟨e, he, he1⟩ := (mem_kidList_iff _ _).mp hc
        by_cases hxe : X x e
        · exact hcid c (he1 ▸ hXn x e hxe)
        · have hca := (hI.down x hxs e he hxe).1
          rw [he1] at hca
          exact hcid c (fun h => hnatt (h ▸ hca))
  · -- noDangling
    intro x k hk
    by_cases hxn : x = n
    · subst hxn; rw [hobj x] at hk; simp [hpidn] at hk
    · by_cases hxk : x ∈ (s.obj n).kidList
      · obtain ⟨e, he, he1⟩ := (mem_kidList_iff _ _).mp hxk
        subst he1
        rw [hobj e.1] at hk
        simp only [hxn, if_false] at hk
        rw [find_mem e he] at hk
        simp only at hk
        cases hk
        refine ⟨(hatt _).mpr (.inr (hkids _ hxk).1), ?_⟩
        rw [hlk]; simp
      · rw [old_obj x hxn hxk] at hk
        obtain ⟨hxs, hks⟩ := hI.noDangling x k hk
        refine ⟨(hatt _).mpr (.inr hxs), ?_⟩
        rw [hlk]; split
        · rfl
        · exact hks
  · -- closed
    intro v hv c hc
    rw [commitOne_size] at hv ⊢
    rw [hkl] at hc
    exact hI.closed v hv c hc
  · -- noSelf
    intro x hx
    unfold LState.parent at hx
    by_cases hxn : x = n
    · subst hxn; rw [hobj x] at hx; simp [hpidn] at hx
    · by_cases hxk : x ∈ (s.obj n).kidList
      · obtain ⟨e, he, he1⟩ := (mem_kidList_iff _ _).mp hxk
        subst he1
        rw [hobj e.1] at hx
        simp only [hxn, if_false] at hx
        rw [find_mem e he] at hx
        simp only at hx
        rw [hlk] at hx
        simp only [if_true] at hx
        exact hxn (Option.some.inj hx).symm
      · rw [old_obj x hxn hxk] at hx
        apply hI.noSelf x
        unfold LState.parent
        cases hk : (s.obj x).pid with
        | none => rw [hk] at hx; cases hx
        | some k =>
          rw [hk] at hx; simp only at hx ⊢
          rw [hlk] at hx
          split at hx
          · exact absurd (Option.some.inj hx).symm hxn
          · exact hx
  · -- wf
    intro v
    unfold LObj.wf; rw [(hsame v).2]; exact hI.wf v

end

/-! ### what a successful `_attach_plan` guarantees -/

def Plan.keys (pl : Plan) : List Str := pl.pending.map (·.1)
def Plan.seenKids (pl : Plan) : List Nat := pl.seen.map (·.1)

/-- all child occurrences of the nodes of `seg` -/
def kidsOf (s : LState) (seg : List Nat) : List Nat := seg.flatMap fun n => (s.obj n).kidList

/-- an attached root -/
def RootOk (s : LState) (c : Nat) : Prop := Att s c ∧ s.parent c = none

/-- children come before parents: every child of a node of the list is an attached root or
occurs earlier (in `pre` or in the list) -/
def OrderOk (s : LState) : List Nat → List Nat → Prop
  | _, [] => True
  | pre, n :: r => (∀ c ∈ (s.obj n).kidList, c ∈ pre ∨ RootOk s c) ∧ OrderOk s (pre ++ [n]) r

theorem OrderOk.mono {s : LState} : ∀ (l : List Nat) {pre pre' : List Nat}, (∀ x ∈ pre, x ∈ pre') →
    OrderOk s pre l → OrderOk s pre' l := by
  intro l; induction l with
  | nil => intro _ _ _ _; trivial
  | cons n r ih =>
    intro pre pre' hsub h
    refine ⟨fun c hc => (h.1 c hc).imp (hsub c) id, ih (fun x hx => ?_) h.2⟩
    rcases List.mem_append.mp hx with hx | hx
    · exact List.mem_append_left _ (hsub x hx)
    · exact List.mem_append_right _ hx

theorem OrderOk.append {s : LState} : ∀ (a : List Nat) {pre b : List Nat},
    OrderOk s pre a → OrderOk s (pre ++ a) b → OrderOk s pre (a ++ b) := by
  intro a; induction a with
  | nil => intro pre b _ hb; simpa using hb
  | cons n r ih =>
    intro pre b ha hb
    refine ⟨ha.1, ih ha.2 ?_⟩
    simpa [List.append_assoc] using hb

theorem regGet_isSome_iff (r : Reg) (k : Str) : (regGet r k).isSome ↔ k ∈ r.map (·.1) := by
  induction r with
  | nil => simp [regGet]
  | cons e r ih =>
    obtain ⟨a, b⟩ := e
    by_cases h : a = k
    · simp [regGet, h]
    · have h' : ¬ k = a := fun e => h e.symm
      simp [regGet, h, h', ih]

theorem kidsOf_append (s : LState) (a b : List Nat) : kidsOf s (a ++ b) = kidsOf s a ++ kidsOf s b := by
  simp [kidsOf, List.flatMap_append]

theorem kidsOf_singleton (s : LState) (n : Nat) : kidsOf s [n] = (s.obj n).kidList := by
  simp [kidsOf]

structure SegFacts (s : LState) (pl pl' : Plan) (seg : List Nat) : Prop where
  order : pl'.order = pl.order ++ seg
  keys : pl'.keys.Perm (seg.map s.idOf ++ pl.keys)
  seen : pl'.seenKids.Perm (kidsOf s seg ++ pl.seenKids)
  free : ∀ n ∈ seg, s.lookup (s.idOf n) = none
  keysNodup : pl.keys.Nodup → pl'.keys.Nodup
  seenNodup : pl.seenKids.Nodup → pl'.seenKids.Nodup
  orderOk : OrderOk s [] seg

structure KidsFacts (s : LState) (pl pl' : Plan) (ks seg : List Nat) : Prop where
  order : pl'.order = pl.order ++ seg
  keys : pl'.keys.Perm (seg.map s.idOf ++ pl.keys)
  seen : pl'.seenKids.Perm ((ks ++ kidsOf s seg) ++ pl.seenKids)
  free : ∀ n ∈ seg, s.lookup (s.idOf n) = none
  keysNodup : pl.keys.Nodup → pl'.keys.Nodup
  seenNodup : pl.seenKids.Nodup → pl'.seenKids.Nodup
  orderOk : OrderOk s [] seg
  ksOk : ∀ c ∈ ks, c ∈ seg ∨ RootOk s c

theorem planKids_facts (s : LState) (rec : Nat → Plan → Except Err (Plan × Collision)) (u : Nat)
    (hrec : ∀ c pl pl', rec c pl = .ok (pl', none) → ∃ seg, SegFacts s pl pl' seg ∧ c ∈ seg) :
    ∀ (ks : List Nat) (pl pl' : Plan), planKids s rec u ks pl = .ok (pl', none) →
      ∃ seg, KidsFacts s pl pl' ks seg := by
  intro ks
  induction ks with
  | nil =>
    intro pl pl' h
    simp only [planKids, Except.ok.injEq, Prod.mk.injEq, and_true] at h
    subst h
    exact ⟨[], ⟨by simp, by simp, by simp [kidsOf], by simp, id, id, trivial, by simp⟩⟩
  | cons c cs ih =>
    intro pl pl' h
    unfold planKids at h
    cases hf : pl.seen.find? (fun e => e.1 = c) with
    | some e => rw [hf] at h; obtain ⟨a, b⟩ := e; simp at h
    | none =>
      rw [hf] at h
      simp only at h
      have hcfresh : c ∉ pl.seenKids := by
        intro hm
        obtain ⟨e, he, he1⟩ := List.mem_map.mp hm
        have := List.find?_eq_none.mp hf e he
        simp [he1] at this
      -- the plan after recording c
      generalize hpl1 : ({ pl with seen := (c, u) :: pl.seen } : Plan) = pl1 at h
      have hk1 : pl1.keys = pl.keys := by subst hpl1; rfl
      have ho1 : pl1.order = pl.order := by subst hpl1; rfl
      have hs1 : pl1.seenKids = c :: pl.seenKids := by subst hpl1; rfl
      by_cases hd : s.detached c = true
      · simp only [hd, if_true] at h
        cases hr : rec c pl1 with
        | error e => rw [hr] at h; simp at h
        | ok res =>
          obtain ⟨pl2, col⟩ := res
          rw [hr] at h
          cases col with
          | some col => simp at h
          | none =>
            simp only at h
            obtain ⟨segc, hc, hcmem⟩ := hrec c pl1 pl2 hr
            obtain ⟨segr, hrr⟩ := ih pl2 pl' h
            refine ⟨segc ++ segr, ⟨?_, ?_, ?_, ?_, ?_, ?_, ?_, ?_⟩⟩
            · rw [hrr.order, hc.order, ho1, List.append_assoc]
            · -- keys
              refine hrr.keys.trans ?_
              refine (List.Perm.append_left _ hc.keys).trans ?_
              rw [hk1, List.map_append, List.append_assoc]
              rw [← List.append_assoc, ← List.append_assoc]
              exact List.Perm.append_right _ List.perm_append_comm
            · -- seen
              refine hrr.seen.trans ?_
              refine (List.Perm.append_left _ hc.seen).trans ?_
              rw [hs1, kidsOf_append]
              -- (cs ++ kR) ++ (kC ++ c :: S)  ~  ((c :: cs) ++ (kC ++ kR)) ++ S
              have e1 : ((cs ++ kidsOf s segr) ++ (kidsOf s segc ++ c :: pl.seenKids)).Perm
                  (c :: ((cs ++ kidsOf s segr) ++ (kidsOf s segc ++ pl.seenKids))) := by
                rw [← List.append_assoc, ← List.append_assoc (cs ++ kidsOf s segr)]
                exact List.perm_middle
              refine e1.trans ?_
              simp only [List.cons_append]
              refine List.Perm.cons c ?_
              simp only [List.append_assoc]
              refine List.Perm.append_left cs ?_
              rw [← List.append_assoc, ← List.append_assoc]
              exact List.Perm.append_right _ List.perm_append_comm
            · intro n hn
              rcases List.mem_append.mp hn with hn | hn
              · exact hc.free n hn
              · exact hrr.free n hn
            · intro hnd; exact hrr.keysNodup (hc.keysNodup (by rw [hk1]; exact hnd))
            · intro hnd
              refine hrr.seenNodup (hc.seenNodup ?_)
              rw [hs1]; exact List.nodup_cons.mpr ⟨hcfresh, hnd⟩
            · exact OrderOk.append segc hc.orderOk (OrderOk.mono segr (by simp) hrr.orderOk)
            · intro x hx
              rcases List.mem_cons.mp hx with rfl | hx
              · exact .inl (List.mem_append_left _ hcmem)
              · exact (hrr.ksOk x hx).imp (List.mem_append_right _) id
      · simp only [hd, Bool.false_eq_true, if_false] at h
        by_cases hroot : (!s.isAttachedRoot c) = true
        · simp [hroot] at h
        · simp only [hroot, Bool.false_eq_true, if_false] at h
          obtain ⟨segr, hrr⟩ := ih pl1 pl' h
          have hcroot : RootOk s c := by
            constructor
            · rw [← detached_eq_false_iff]; cases hh : s.detached c <;> simp_all
            · unfold LState.isAttachedRoot at hroot
              cases hp : s.parent c with
              | none => rfl
              | some p => simp [hp] at hroot
          refine ⟨segr, ⟨?_, ?_, ?_, hrr.free, ?_, ?_, hrr.orderOk, ?_⟩⟩
          · rw [hrr.order, ho1]
          · rw [← hk1]; exact hrr.keys
          · refine hrr.seen.trans ?_
            rw [hs1]
            simp only [List.cons_append]
            exact List.perm_middle
          · intro hnd; exact hrr.keysNodup (by rw [hk1]; exact hnd)
          · intro hnd
            refine hrr.seenNodup ?_
            rw [hs1]; exact List.nodup_cons.mpr ⟨hcfresh, hnd⟩
          · intro x hx
            rcases List.mem_cons.mp hx with rfl | hx
            · exact .inr hcroot
            · exact hrr.ksOk x hx

theorem attachPlan_facts (s : LState) : ∀ (fuel u : Nat) (pl pl' : Plan),
    attachPlan s fuel u pl = .ok (pl', none) → ∃ seg, SegFacts s pl pl' seg ∧ u ∈ seg ∧ seg.getLast? = some u := by
  intro fuel
  induction fuel with
  | zero => intro u pl pl' h; simp [attachPlan] at h
  | succ fuel ih =>
    intro u pl pl' h
    unfold attachPlan at h
    simp only at h
    by_cases hcol : ((s.lookup (s.idOf u)).isSome || (regGet pl.pending (s.idOf u)).isSome) = true
    · simp [hcol] at h
    · simp only [hcol, Bool.false_eq_true, if_false] at h
      have hfree : s.lookup (s.idOf u) = none := by
        cases hh : s.lookup (s.idOf u) <;> simp_all
      have hkey : s.idOf u ∉ pl.keys := by
        intro hm
        have := (regGet_isSome_iff pl.pending (s.idOf u)).mpr hm
        simp_all
      generalize hpl0 : ({ pl with pending := (s.idOf u, u) :: pl.pending } : Plan) = pl0 at h
      have hk0 : pl0.keys = s.idOf u :: pl.keys := by subst hpl0; rfl
      have ho0 : pl0.order = pl.order := by subst hpl0; rfl
      have hs0 : pl0.seenKids = pl.seenKids := by subst hpl0; rfl
      cases hr : planKids s (attachPlan s fuel) u (s.obj u).kidList pl0 with
      | error e => rw [hr] at h; simp at h
      | ok res =>
        obtain ⟨pl1, col⟩ := res
        rw [hr] at h
        cases col with
        | some col => simp at h
        | none =>
          simp only [Except.ok.injEq, Prod.mk.injEq, and_true] at h
          obtain ⟨segk, hk⟩ := planKids_facts s (attachPlan s fuel) u
            (fun c pl pl' hc => by obtain ⟨sg, a, b, _⟩ := ih c pl pl' hc; exact ⟨sg, a, b⟩) _ _ _ hr
          have hkeys' : pl'.keys = pl1.keys := by subst h; rfl
          have hseen' : pl'.seenKids = pl1.seenKids := by subst h; rfl
          have horder' : pl'.order = pl1.order ++ [u] := by subst h; rfl
          refine ⟨segk ++ [u], ⟨?_, ?_, ?_, ?_, ?_, ?_, ?_⟩, by simp, by simp⟩
          · rw [horder', hk.order, ho0, List.append_assoc]
          · rw [hkeys']
            refine hk.keys.trans ?_
            rw [hk0, List.map_append, List.append_assoc]
            exact List.Perm.append_left _ (by simp)
          · rw [hseen']
            refine hk.seen.trans ?_
            rw [hs0, kidsOf_append, kidsOf_singleton]
            exact List.Perm.append_right _ List.perm_append_comm
          · intro n hn
            rcases List.mem_append.mp hn with hn | hn
            · exact hk.free n hn
            · simp at hn; subst hn; exact hfree
          · intro hnd
            rw [hkeys']
            exact hk.keysNodup (by rw [hk0]; exact List.nodup_cons.mpr ⟨hkey, hnd⟩)
          · intro hnd; rw [hseen']; exact hk.seenNodup (by rw [hs0]; exact hnd)
          · refine OrderOk.append segk hk.orderOk ?_
            simp only [List.nil_append]
            exact ⟨fun c hc => hk.ksOk c hc, trivial⟩

/-! ### committing the plan -/

theorem OrderOk.flat {s : LState} : ∀ (seg : List Nat) {pre : List Nat}, OrderOk s pre seg →
    ∀ l1 n l2, seg = l1 ++ n :: l2 → ∀ c ∈ (s.obj n).kidList, c ∈ pre ∨ c ∈ l1 ∨ RootOk s c := by
  intro seg
  induction seg with
  | nil => intro pre _ l1 n l2 h; cases l1 <;> simp at h
  | cons m r ih =>
    intro pre hok l1 n l2 h c hc
    cases l1 with
    | nil =>
      simp only [List.nil_append, List.cons.injEq] at h
      obtain ⟨rfl, _⟩ := h
      rcases hok.1 c hc with h1 | h1
      · exact .inl h1
      · exact .inr (.inr h1)
    | cons a l1 =>
      simp only [List.cons_append, List.cons.injEq] at h
      obtain ⟨rfl, hr⟩ := h
      rcases ih hok.2 l1 n l2 hr c hc with h1 | h1 | h1
      · rcases List.mem_append.mp h1 with h2 | h2
        · exact .inl h2
        · simp at h2; subst h2; exact .inr (.inl (by simp))
      · exact .inr (.inl (List.mem_cons_of_mem _ h1))
      · exact .inr (.inr h1)

section
variable (Hc : Str → Str)

theorem commitOne_same (s : LState) (n x : Nat) :
    ((commitOne Hc s n).obj x).id = (s.obj x).id ∧ ((commitOne Hc s n).obj x).fields = (s.obj x).fields := by
  unfold commitOne
  rw [register_obj, setContentId_obj]
  have h := reparent_same n (s.obj n).kidsPos s
  split
  · next hx => subst hx; exact ⟨(h x).id.symm, (h x).fields.symm⟩
  · exact ⟨(h x).id.symm, (h x).fields.symm⟩

theorem commitOne_other (s : LState) (n x : Nat) (hxn : x ≠ n) (hx : x ∉ (s.obj n).kidList) :
    (commitOne Hc s n).obj x = s.obj x := by
  unfold commitOne
  rw [register_obj, setContentId_obj]
  simp only [hxn, if_false]
  exact reparent_obj_not_mem n _ s x (by rw [kidsPos_map_fst]; exact hx)

theorem commitOne_pid (s : LState) (n x : Nat) (hx : x ∉ (s.obj n).kidList) :
    ((commitOne Hc s n).obj x).pid = (s.obj x).pid := by
  unfold commitOne
  rw [register_obj, setContentId_obj]
  have h : (reparent n s (s.obj n).kidsPos).obj x = s.obj x :=
    reparent_obj_not_mem n _ s x (by rw [kidsPos_map_fst]; exact hx)
  split
  · next hxn => subst hxn; rw [h]
  · rw [h]

/-- the state reached after committing a prefix `done` of the plan, relative to the start `s` -/
structure Committed (X : Nat → (Nat × Str × Option Nat) → Prop) (Y : Nat → Prop) (s t : LState) (done : List Nat) :
    Prop where
  inv : InvX Hc X Y t
  size : t.size = s.size
  same : ∀ x, t.idOf x = s.idOf x ∧ (t.obj x).fields = (s.obj x).fields
  regNew : ∀ v ∈ done, t.lookup (s.idOf v) = some v
  regOld : ∀ k, k ∉ done.map s.idOf → t.lookup k = s.lookup k
  pid : ∀ x, x ∉ kidsOf s done → (t.obj x).pid = (s.obj x).pid
  other : ∀ x, x ∉ done → x ∉ kidsOf s done → t.obj x = s.obj x

theorem commit_prefix {X : Nat → (Nat × Str × Option Nat) → Prop} {Y : Nat → Prop} {s : LState}
    (hI : InvX Hc X Y s) (seg : List Nat)
    (hlt : ∀ n ∈ seg, n < s.size) (hfree : ∀ n ∈ seg, s.lookup (s.idOf n) = none)
    (hids : (seg.map s.idOf).Nodup) (hkids : (kidsOf s seg).Nodup) (hord : OrderOk s [] seg)
    (hXseg : ∀ q e, X q e → e.1 ∉ seg) :
    ∀ (todo done : List Nat), seg = done ++ todo → Committed Hc X Y s (done.foldl (commitOne Hc) s) done →
      Committed Hc X Y s (seg.foldl (commitOne Hc) s) seg := by
  intro todo
  induction todo with
  | nil => intro done hseg hC; simp at hseg; subst hseg; exact hC
  | cons n rest ih =>
    intro done hseg hC
    have hseg' : seg = (done ++ [n]) ++ rest := by rw [hseg]; simp
    apply ih (done ++ [n]) hseg'
    rw [List.foldl_append]
    simp only [List.foldl_cons, List.foldl_nil]
    generalize ht : done.foldl (commitOne Hc) s = t at hC ⊢
    have hnseg : n ∈ seg := by rw [hseg]; simp
    have hkl : ∀ x, (t.obj x).kidList = (s.obj x).kidList := by
      intro x; unfold LObj.kidList; rw [(hC.same x).2]
    -- ids of done and n are distinct
    have hnid : s.idOf n ∉ done.map s.idOf := by
      rw [hseg, List.map_append, List.map_cons] at hids
      intro hm
      exact (List.nodup_append.mp hids).2.2 _ hm _ (List.mem_cons_self ..) rfl
    -- kids of n are not kids of done nodes
    have hkdisj : ∀ c ∈ (s.obj n).kidList, c ∉ kidsOf s done := by
      intro c hc hm
      rw [hseg, kidsOf_append] at hkids
      have : c ∈ kidsOf s (n :: rest) := by
        unfold kidsOf; simp only [List.flatMap_cons]; exact List.mem_append_left _ hc
      exact (List.nodup_append.mp hkids).2.2 _ hm _ this rfl
    have hkn : (s.obj n).kidList.Nodup := by
      rw [hseg, kidsOf_append] at hkids
      have := (List.nodup_append.mp hkids).2.1
      unfold kidsOf at this; simp only [List.flatMap_cons] at this
      exact (List.nodup_append.mp this).1
    have hfree_t : t.lookup (t.idOf n) = none := by
      rw [(hC.same n).1, hC.regOld _ hnid]; exact hfree n hnseg
    have hkids_t : ∀ c ∈ (t.obj n).kidList, Att t c ∧ (t.obj c).pid = none := by
      intro c hc
      rw [hkl] at hc
      have hpid : (t.obj c).pid = (s.obj c).pid := hC.pid c (hkdisj c hc)
      rcases OrderOk.flat seg hord done n rest hseg c hc with h | h | h
      · cases h
      · -- committed earlier
        have hcs : c ∈ seg := by rw [hseg]; exact List.mem_append_left _ h
        refine ⟨by unfold Att; rw [(hC.same c).1]; exact hC.regNew c h, ?_⟩
        rw [hpid]
        cases hp : (s.obj c).pid with
        | none => rfl
        | some k =>
          have := (hI.noDangling c k hp).1
          unfold Att at this; rw [hfree c hcs] at this; cases this
      · -- an attached root of the start state
        have hca : Att s c := h.1
        have hnm : s.idOf c ∉ done.map s.idOf := by
          intro hm
          obtain ⟨v, hv, hvid⟩ := List.mem_map.mp hm
          have hvs : v ∈ seg := by rw [hseg]; exact List.mem_append_left _ hv
          have := hfree v hvs
          rw [hvid] at this
          unfold Att at hca; rw [this] at hca; cases hca
        refine ⟨by unfold Att; rw [(hC.same c).1, hC.regOld _ hnm]; exact hca, ?_⟩
        rw [hpid]
        cases hp : (s.obj c).pid with
        | none => rfl
        | some k =>
          obtain ⟨_, hk⟩ := hI.noDangling c k hp
          have : s.parent c = (s.lookup k) := by unfold LState.parent; rw [hp]
          rw [h.2] at this
          rw [← this] at hk; cases hk
    have hInv := commitOne_inv Hc hC.inv (by rw [hC.size]; exact hlt n hnseg) hfree_t hkids_t
      (by rw [hkl]; exact hkn) (fun q e hx h => hXseg q e hx (h ▸ hnseg))
    refine ⟨hInv, by rw [commitOne_size, hC.size], ?_, ?_, ?_, ?_, ?_⟩
    rotate_right
    · intro x hxd hxk
      rw [List.mem_append, not_or] at hxd
      rw [kidsOf_append, List.mem_append, not_or, kidsOf_singleton] at hxk
      rw [commitOne_other Hc t n x (by simpa using hxd.2) (by rw [hkl]; exact hxk.2)]
      exact hC.other x hxd.1 hxk.1
    · intro x
      have h1 := commitOne_same Hc t n x
      exact ⟨by unfold LState.idOf at *; rw [h1.1]; exact (hC.same x).1, by rw [h1.2]; exact (hC.same x).2⟩
    · intro v hv
      rw [commitOne_lookup, (hC.same n).1]
      rcases List.mem_append.mp hv with hv | hv
      · have hne : s.idOf n ≠ s.idOf v := fun e => hnid (e ▸ List.mem_map.mpr ⟨v, hv, rfl⟩)
        simp only [hne, if_false]
        exact hC.regNew v hv
      · simp at hv; subst hv; simp
    · intro k hk
      rw [List.map_append, List.mem_append, not_or] at hk
      rw [commitOne_lookup, (hC.same n).1]
      have hne : s.idOf n ≠ k := fun e => hk.2 (by simp [e])
      simp only [hne, if_false]
      exact hC.regOld k hk.1
    · intro x hx
      rw [kidsOf_append, List.mem_append, not_or, kidsOf_singleton] at hx
      rw [commitOne_pid Hc t n x (by rw [hkl]; exact hx.2)]
      exact hC.pid x hx.1

end

/-! ### planned nodes exist -/

theorem planKids_lt (s : LState) (rec : Nat → Plan → Except Err (Plan × Collision)) (u : Nat)
    (hrec : ∀ c pl pl' col, rec c pl = .ok (pl', col) → c < s.size → (∀ n ∈ pl.order, n < s.size) →
      ∀ n ∈ pl'.order, n < s.size) :
    ∀ (ks : List Nat) (pl pl' : Plan) (col : Collision), planKids s rec u ks pl = .ok (pl', col) →
      (∀ c ∈ ks, c < s.size) → (∀ n ∈ pl.order, n < s.size) → ∀ n ∈ pl'.order, n < s.size := by
  intro ks
  induction ks with
  | nil =>
    intro pl pl' col h _ hpl
    simp only [planKids, Except.ok.injEq, Prod.mk.injEq] at h
    obtain ⟨rfl, _⟩ := h; exact hpl
  | cons c cs ih =>
    intro pl pl' col h hks hpl
    unfold planKids at h
    cases hf : pl.seen.find? (fun e => e.1 = c) with
    | some e =>
      rw [hf] at h; obtain ⟨a, b⟩ := e
      simp only [Except.ok.injEq, Prod.mk.injEq] at h
      obtain ⟨rfl, _⟩ := h; exact hpl
    | none =>
      rw [hf] at h
      simp only at h
      by_cases hd : s.detached c = true
      · simp only [hd, if_true] at h
        cases hr : rec c { pl with seen := (c, u) :: pl.seen } with
        | error e => rw [hr] at h; simp at h
        | ok res =>
          obtain ⟨pl2, col2⟩ := res
          rw [hr] at h
          have h2 := hrec c _ pl2 col2 hr (hks c (List.mem_cons_self ..)) hpl
          cases col2 with
          | some cc =>
            simp only [Except.ok.injEq, Prod.mk.injEq] at h
            obtain ⟨rfl, _⟩ := h; exact h2
          | none =>
            exact ih pl2 pl' col h (fun x hx => hks x (List.mem_cons_of_mem _ hx)) h2
      · simp only [hd, Bool.false_eq_true, if_false] at h
        by_cases hroot : (!s.isAttachedRoot c) = true
        · simp only [hroot, if_true, Except.ok.injEq, Prod.mk.injEq] at h
          obtain ⟨rfl, _⟩ := h; exact hpl
        · simp only [hroot, Bool.false_eq_true, if_false] at h
          exact ih _ pl' col h (fun x hx => hks x (List.mem_cons_of_mem _ hx)) hpl

theorem attachPlan_lt (s : LState) (hclosed : ∀ v, v < s.size → ∀ c ∈ (s.obj v).kidList, c < s.size) :
    ∀ (fuel u : Nat) (pl pl' : Plan) (col : Collision), attachPlan s fuel u pl = .ok (pl', col) →
      u < s.size → (∀ n ∈ pl.order, n < s.size) → ∀ n ∈ pl'.order, n < s.size := by
  intro fuel
  induction fuel with
  | zero => intro u pl pl' col h; simp [attachPlan] at h
  | succ fuel ih =>
    intro u pl pl' col h hu hpl
    unfold attachPlan at h
    simp only at h
    by_cases hcol : ((s.lookup (s.idOf u)).isSome || (regGet pl.pending (s.idOf u)).isSome) = true
    · simp [hcol] at h
    · simp only [hcol, Bool.false_eq_true, if_false] at h
      cases hr : planKids s (attachPlan s fuel) u (s.obj u).kidList
          { pl with pending := (s.idOf u, u) :: pl.pending } with
      | error e => rw [hr] at h; simp at h
      | ok res =>
        obtain ⟨pl1, col1⟩ := res
        rw [hr] at h
        have h1 := planKids_lt s (attachPlan s fuel) u (fun c pl pl' col hc => ih c pl pl' col hc) _ _ _ _ hr
          (hclosed u hu) hpl
        cases col1 with
        | some cc =>
          simp only [Except.ok.injEq, Prod.mk.injEq] at h
          obtain ⟨rfl, _⟩ := h; exact h1
        | none =>
          simp only [Except.ok.injEq, Prod.mk.injEq] at h
          obtain ⟨rfl, _⟩ := h
          intro n hn
          rcases List.mem_append.mp hn with hn | hn
          · exact h1 n hn
          · simp at hn; subst hn; exact hu

/-! ### `_attach` -/

/-- `_attach` that succeeds preserves the invariant (and attaches the node) -/
theorem attach_invX (Hc : Str → Str) {X : Nat → (Nat × Str × Option Nat) → Prop} {Y : Nat → Prop}
    {s s' : LState} {u fuel : Nat} (hI : InvX Hc X Y s) (hu : u < s.size)
    (hXu : ∀ q e, X q e → e.1 ≠ u ∧ s.idOf e.1 = s.idOf u)
    (h : attach Hc fuel s u = (s', .ok ())) :
    InvX Hc X Y s' ∧ Att s' u ∧ s'.size = s.size ∧ Grows s s' ∧ (s'.obj u).pid = (s.obj u).pid := by
  unfold attach at h
  cases hp : attachPlan s fuel u {} with
  | error e => rw [hp] at h; simp at h
  | ok res =>
    obtain ⟨pl, col⟩ := res
    rw [hp] at h
    cases col with
    | some cc => simp at h
    | none =>
      simp only [Prod.mk.injEq, and_true] at h
      obtain ⟨seg, hF, huseg, hlast⟩ := attachPlan_facts s fuel u {} pl hp
      have hseg : pl.order = seg := by have := hF.order; simpa using this
      have hlt := attachPlan_lt s hI.closed fuel u {} pl none hp hu (by intro n hn; cases hn)
      rw [hseg] at hlt h
      have hids : (seg.map s.idOf).Nodup := by
        have := hF.keysNodup (by simp [Plan.keys])
        have hperm : pl.keys.Perm (seg.map s.idOf) := by simpa [Plan.keys] using hF.keys
        exact hperm.nodup_iff.mp this
      have hkids : (kidsOf s seg).Nodup := by
        have := hF.seenNodup (by simp [Plan.seenKids])
        have hperm : pl.seenKids.Perm (kidsOf s seg) := by simpa [Plan.seenKids] using hF.seen
        exact hperm.nodup_iff.mp this
      have hXseg : ∀ q e, X q e → e.1 ∉ seg := by
        intro q e hx hm
        obtain ⟨hne, hid⟩ := hXu q e hx
        exact hne (eq_of_nodup_map s.idOf seg hids e.1 hm u huseg hid)
      have hC := commit_prefix Hc hI seg hlt hF.free hids hkids hF.orderOk hXseg seg [] (by simp)
        ⟨hI, rfl, fun _ => ⟨rfl, rfl⟩, (fun v hv => by cases hv), fun _ _ => rfl, fun _ _ => rfl, fun _ _ _ => rfl⟩
      rw [← h]
      refine ⟨hC.inv, by unfold Att; rw [(hC.same u).1]; exact hC.regNew u huseg, hC.size,
        ⟨Nat.le_of_eq hC.size.symm, fun x _ => hC.same x, ?_⟩, ?_⟩
      rotate_left
      · -- the attached node itself is nobody's child among the planned nodes: it comes last
        apply hC.pid u
        intro hmem
        obtain ⟨m, hm, hum⟩ := List.mem_flatMap.mp hmem
        obtain ⟨l1, l2, hdec⟩ := List.append_of_mem hm
        have hseg_nd : seg.Nodup := by
          exact nodup_of_nodup_map s.idOf seg hids
        rcases OrderOk.flat seg hF.orderOk l1 m l2 hdec u hum with h0 | h0 | h0
        · cases h0
        · have hu2 : u ∈ m :: l2 := by
            rw [hdec, List.getLast?_append] at hlast
            cases hh : (m :: l2).getLast? with
            | none => simp at hh
            | some x => rw [hh] at hlast; simp at hlast; subst hlast; exact List.mem_of_getLast? hh
          rw [hdec] at hseg_nd
          exact (List.nodup_append.mp hseg_nd).2.2 u h0 u hu2 rfl
        · have := hF.free u huseg
          have h1 := h0.1
          unfold Att at h1; rw [this] at h1; cases h1
      intro k v hk
      rw [hC.regOld k ?_]; exact hk
      intro hm
      obtain ⟨w, hw, hwk⟩ := List.mem_map.mp hm
      have := hF.free w hw
      rw [hwk, hk] at this; cases this

theorem attach_inv (Hc : Str → Str) {s s' : LState} {u fuel : Nat} (hI : Inv Hc s) (hu : u < s.size)
    (h : attach Hc fuel s u = (s', .ok ())) : Inv Hc s' ∧ Att s' u ∧ s'.size = s.size := by
  obtain ⟨a, b, c, _, _⟩ := attach_invX Hc hI hu (fun _ _ hx => hx.elim) h
  exact ⟨a, b, c⟩

/-- a rejected `_attach` changes nothing at all (C19) -/
theorem attach_fail_frame (Hc : Str → Str) (s : LState) (u fuel : Nat) (e : Err)
    (s' : LState) (h : attach Hc fuel s u = (s', .error e)) : s' = s := by
  unfold attach at h
  cases hp : attachPlan s fuel u {} with
  | error e' => rw [hp] at h; simp at h; exact h.1.symm
  | ok res =>
    obtain ⟨pl, col⟩ := res
    rw [hp] at h
    cases col with
    | some cc => simp at h; exact h.1.symm
    | none => simp at h

end PyOak.Legacy
