/-
C20 — the heap-level theorems OVER HISTORIES, and non-vacuity.

  heap_walks_run     after ANY admissible history of legacy operations from the empty world, from every live object:
                     legacy `dfs` / `bfs` / `gather` on the heap = the successor's walks on the represented tree
                     (+ the start node), and `calculate_xpath` of a live root = the successor's `Tree.get_xpath`
  (legacy_match_heap_run is in Props/C20ParentClean.lean)

The examples run the theorems on the state after `C18.histAdm.take 10` (construct, replace of a child, a rejected
constructor, replace_with by a detached node and by an attached root): the live tree is
`3:U(arg = 4:U(arg = 7:U(arg = 0:L)))`, objects 1, 2, 6 are detached, 5 is the garbage of the rejected call.
-/
import PyOak.Props.C20HeapWalk
import PyOak.Props.C20ParentClean
namespace PyOak
namespace C20
open Legacy Legacy.C18 LState

variable (H Hc : Str → Str)

/-- **targets 3 and 4 over histories** -/
theorem heap_walks_run (ops : List LOp) (hg : AdmRun H Hc init ops) {u : Nat} (hu : Att (run H Hc init ops) u)
    (p f : Nat → Bool) :
    let s := run H Hc init ops
    (∀ bu, hdfsImpl s p f bu true u = (dfsImpl (onUid p) (onUid f) bu (treeOf s u)).map (·.node.uid)) ∧
    hbfsImpl s p f true u = (bfsImpl (onUid p) (onUid f) (treeOf s u)).map (·.node.uid) ∧
    (∀ classes exact, hgatherImpl s classes exact f p true u =
      (gatherImpl classes exact (onUid f) (onUid p) (treeOf s u)).map (·.uid)) ∧
    (s.parent u = none → ∃ l, hcalcXpath s u = .ok l ∧
      ∀ x str, (x, str) ∈ l → (TreeT.build (treeOf s u)).getXpath (treeOf s x) = .ok str) := by
  intro s
  obtain ⟨hI, hR, _⟩ := reachable_ok H Hc ops hg
  refine ⟨fun bu => (heap_dfs_successor Hc hI hR hu p f bu).1, (heap_bfs_successor Hc hI hR hu p f).1,
    fun classes exact => heap_gather_successor Hc hI hR hu classes exact f p, fun hp => ?_⟩
  obtain ⟨l, h1, _, h3⟩ := heap_calc_eq_get_xpath Hc hI hR hu hp
  exact ⟨l, h1, fun x str hm => (h3 x str hm).2⟩

/-! ## non-vacuity -/
section Examples
open PyOak.Legacy.Ex

private abbrev sA : LState := st (histAdm.take 10)
private theorem okA : Inv id sA ∧ Ranked sA ∧ ParentClean sA :=
  reachable_ok id id _ (admRun_of_B id id _ init (by decide))

-- the live tree and the parent pointers
example : Att sA 0 ∧ Att sA 7 ∧ Att sA 4 ∧ Att sA 3 ∧ ¬ Att sA 1 ∧ ¬ Att sA 2 ∧ ¬ Att sA 6 := by decide
example : Legacy.ancestors sA 0 = some [7, 4, 3] := by decide
private theorem chainA : UpChain sA 0 [7, 4, 3] :=
  .step (by decide) (.step (by decide) (.step (by decide) (.root (by decide))))
example : topOf 0 [7, 4, 3] = 3 := rfl
example : (treeOf sA 3).size = 4 ∧ descU sA 3 = [3, 4, 7, 0] := by decide
example : (heapChain sA 0 [7, 4, 3]).map (fun x => (x.1.uid, x.2)) =
    [(3, none), (4, some ⟨"arg".toList, none⟩), (7, some ⟨"arg".toList, none⟩), (0, some ⟨"arg".toList, none⟩)] := by
  decide
-- target 1 applied
example : IsChain (treeOf sA 3) (heapChain sA 0 [7, 4, 3]) :=
  heapChain_isChain id okA.1 okA.2.1 okA.2.2 (by decide) chainA
example : NoRepeat (treeOf sA 3) := treeOf_noRepeat id okA.1 okA.2.1 (by decide)
example := heapChain_unique id okA.1 okA.2.1 okA.2.2 (u := 0) (by decide) chainA
example := (mem_allNodes_treeOf okA.2.1 okA.1.closed (u := 3) (by decide) (treeOf sA 0)).mpr
  ⟨0, (topOf_spec id okA.1 (by decide) chainA).2.2, rfl⟩

-- target 2 applied: `//U/@arg L` (legacy element list: self first, the leading `//` as a separate entry)
private def lUL : List LElem :=
  [.el ⟨"L".toList, some "arg".toList, none, false⟩, .el ⟨"U".toList, none, none, false⟩, .anyw]
-- `/U/U//L`
private def lUUL : List LElem :=
  [.el ⟨"L".toList, none, none, false⟩, .el ⟨"U".toList, none, none, true⟩, .el ⟨"U".toList, none, none, false⟩]
example : HeadOK lUL ∧ HeadOK lUUL := by decide
example : lxmatchH sA lUL 0 = some true ∧ lxmatchH sA lUL 7 = some false ∧ lxmatchH sA lUUL 0 = some true ∧
    lxmatchH sA lUUL 4 = some false ∧ lxmatchH sA lUL 1 = some false := by decide
example := legacy_match_heap id okA.1 okA.2.1 okA.2.2 (u := 0) (by decide) lUL (by decide)
example := legacy_match_heap_successor id okA.1 okA.2.1 okA.2.2 (u := 0) (by decide) lUUL (by decide)
example := (findall_heap id okA.1 okA.2.1 okA.2.2 (r := 3) (by decide) (by decide) lUL (by decide) (treeOf sA 0)).mpr
  ⟨0, (topOf_spec id okA.1 (by decide) chainA).2.2, by decide, rfl, by decide⟩
example := legacy_match_heap_detached id okA.1 okA.2.2 (u := 1) (by decide) (by decide) lUL (by decide)
example : lxmatchH sA [.el ⟨"L".toList, none, none, false⟩] 1 = some true := by decide   -- `/L` on the detached leaf 1
example := legacy_match_heap_run id id (histAdm.take 10) (admRun_of_B id id _ init (by decide)) (u := 0) (by decide)
  lUL (by decide)
example : sat (heapChain sA 0 [7, 4, 3]) (shift lUUL).reverse = true ∧
    sat (heapChain sA 7 [4, 3]) (shift lUL).reverse = false := by decide
private def knownA : Str → Bool := fun c => c == "L".toList || c == "U".toList
example : lparseXPath knownA "//U/@arg L".toList = some lUL := by decide
example := legacy_match_heap_text id okA.1 okA.2.1 okA.2.2 (u := 0) (by decide) knownA "//U/@arg L".toList lUL (by decide)

-- the heap walk and the chain-level model agree even without the invariant; with a dirty root slot (a `parent_field` on a
-- node without parent — excluded by `ParentClean`) the heap matcher would look at it: the hypothesis is needed
example : ParentClean sA := parentClean_run_init id id _
example : ¬ ParentClean (sA.modify 3 fun o => { o with pfield := some "arg".toList }) := fun h => by
  have := (h 3).1 (by decide)
  revert this
  decide

-- … and without it the conclusion fails: on the dirty state legacy `match` accepts `/@arg U` at the root 3, the documented
-- semantics along the chain of the root position (which has no field) does not
private abbrev sDirty : LState := sA.modify 3 fun o => { o with pfield := some "arg".toList }
private def lArgU : List LElem := [.el ⟨"U".toList, some "arg".toList, none, false⟩]
theorem legacy_match_heap_dirty_fails : lxmatchH sDirty lArgU 3 = some true ∧
    sat [(treeOf sDirty 3, none)] (shift lArgU).reverse = false ∧ UpChain sDirty 3 [] ∧ HeadOK lArgU := by
  refine ⟨by decide, by decide, .root (by decide), by decide⟩

-- target 3 applied
example : hdfsImpl sA (fun _ => false) (fun _ => true) false false 3 = [3, 4, 7, 0] ∧
    hdfsImpl sA (fun _ => false) (fun _ => true) true false 3 = [0, 7, 4, 3] ∧
    hdfsImpl sA (fun _ => false) (fun _ => true) false true 4 = [7, 0] ∧
    hdfsImpl sA (fun x => x == 7) (fun x => x != 4) false false 3 = [3, 7] ∧
    hbfsImpl sA (fun _ => false) (fun _ => true) false 3 = [3, 4, 7, 0] ∧
    hgatherImpl sA ["L".toList] false (fun _ => true) (fun _ => false) false 3 = [0] := by decide
example := heap_dfs_of_size okA.2.1 okA.1.closed (u := 2) (by decide) (by decide) (fun n => n.uid == 7) (fun _ => true)
  (fun x => x == 7) (fun _ => true) (fun _ => by simp) (fun _ => rfl) false false   -- from the detached node 2
example := heap_dfs_successor id okA.1 okA.2.1 (u := 3) (by decide) (fun x => x == 7) (fun x => x != 4) false
example := heap_bfs_successor id okA.1 okA.2.1 (u := 3) (by decide) (fun x => x == 7) (fun x => x != 4)
example := heap_gather_successor id okA.1 okA.2.1 (u := 3) (by decide) ["L".toList] false (fun _ => true) (fun _ => false)
example := heap_walks_run id id (histAdm.take 10) (admRun_of_B id id _ init (by decide)) (u := 3) (by decide)
  (fun x => x == 7) (fun x => x != 4)
example : ∃ x, x ∈ dfsImpl (fun _ => false) (fun _ => true) false (treeOf sA 3) ∧ x.node.uid = 0 ∧ x.parent.uid = 7 := by
  decide
example := heap_items_agree id okA.1 okA.2.1 (u := 3) (by decide) (fun _ => false) (fun _ => true)

-- target 4 applied
example : (match hcalcXpath sA 3 with
    | .ok l => l.map fun p => (p.1, String.ofList p.2)
    | _ => []) =
    [(3, "/@root[0]U"), (4, "/@root[0]U/@arg[0]U"), (7, "/@root[0]U/@arg[0]U/@arg[0]U"),
     (0, "/@root[0]U/@arg[0]U/@arg[0]U/@arg[0]L")] := by decide
example : (match hcalcXpath sA 4 with | .refused => true | _ => false) = true := by decide
example := heap_calc_xpath id okA.1 okA.2.1 (u := 3) (by decide) (by decide)
example := heap_calc_eq_get_xpath id okA.1 okA.2.1 (u := 3) (by decide) (by decide)

end Examples

end C20
end PyOak
