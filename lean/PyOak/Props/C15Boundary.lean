/-
C15 (additions, targets 4 and 5) — two boundaries of the property.

Target 4, "never nested": for FLAT operands the result is flat (`merge_flat`, `add_flat`, `concat_flat`,
`merge_valid`, `add_ok`, `concat_ok`).  For a user-built NESTED MultiOrigin operand (a MultiOrigin listing a MultiOrigin
or NoOrigin — constructible, `MultiOrigin.__post_init__` does not look at the classes of its members) the result is
NOT flat: `merge_origins` splices one level only.  `merge_keeps_nonleaf` (general) and the `decide`/`rfl` witness
`nested_operand_stays_nested`; the real code agrees at the witness (see the final report; ASSUMPTIONS of c15.py declare
nested operands outside the property).

Target 5, `slice` and `Int.toNat`: every range accepted by the constructor kernels (`mkPoint`, `mkPoint`, `mkRange`, i.e.
the GENERATED `CodePoint.valid` / `CodeRange.valid`) has `0 ≤ start.index ≤ end.index`, there `Int.toNat` is the identity
and `getRaw` is Python's `text[start:end]` (`pySlice`, Model/PySlice.lean: the full CPython index adjustment, compared with
the real `str.__getitem__` by the correspondence).  Outside that domain `slice` differs from Python
(`slice_negative_fails`) — unreachable through the constructors (`accepted_range_nonneg`).
-/
import PyOak.Props.C15Total
import PyOak.Model.PySlice
namespace PyOak.C15
open PyOak.Gen PyOak.OriginAlg

/-! ## Target 4 — nested operands -/

/-- `merge_origins` splices one level: whatever a MultiOrigin operand lists is listed by the result AS IT IS.  So a
listed origin that is itself a MultiOrigin or NoOrigin survives, and the result is not flat. -/
theorem merge_keeps_nonleaf (os : List Origin) (h1 : os.length ≠ 1) (x : Origin) (hx : x ∈ os.flatMap leaves)
    (hnl : x.isLeaf = false) (h2 : 2 ≤ (os.flatMap leaves).length) (r : Origin) (h : merge os = .ok r) :
    x ∈ leaves r ∧ ¬ Flat r := by
  rw [merge_spec os h1] at h
  match hl : os.flatMap leaves, h2 with
  | a :: b :: t, _ =>
    rw [hl, pack_many, mkMulti_spec] at h
    cases h
    rw [hl] at hx
    refine ⟨hx, ?_⟩
    intro hf
    have := hf.1 x hx
    rw [hnl] at this; cases this

/-- the flat inner multi-origin `MultiOrigin([c02, xB])`, as the constructor builds it -/
def innerM : Origin :=
  .multi (.set [sA, sB]) (.set [.code ⟨⟨0, 1, 0⟩, ⟨2, 1, 2⟩⟩, .xml ['/', 'r', '/', 'x']]) [c02, xB]
/-- the user-built nested `MultiOrigin([MultiOrigin([c02, xB]), c57])`, as the constructor builds it -/
def nestedM : Origin :=
  .multi (.set [.set [sA, sB], sA])
    (.set [.set [.code ⟨⟨0, 1, 0⟩, ⟨2, 1, 2⟩⟩, .xml ['/', 'r', '/', 'x']], .code ⟨⟨5, 1, 5⟩, ⟨7, 1, 7⟩⟩]) [innerM, c57]

theorem nested_built : mkMulti [c02, xB] = .ok innerM ∧ mkMulti [innerM, c57] = .ok nestedM := ⟨rfl, rfl⟩

/-- **boundary of "never nested"**: with the nested operand `MultiOrigin([MultiOrigin([c02, xB]), c57])`, `merge_origins`,
`+` and `concat_origins` all return the multi-origin listing `[MultiOrigin([c02, xB]), c57, c24]` — the inner MultiOrigin
stays a member.  (The operand is not flat, so `merge_flat` / `add_flat` / `concat_flat` do not apply.) -/
theorem nested_operand_stays_nested :
    Flat innerM ∧ ¬ Flat nestedM ∧
    ∃ m, merge [nestedM, c24] = .ok m ∧ add nestedM c24 = .ok m ∧ concat nestedM [c24, .none] = .ok m ∧
      leaves m = [innerM, c57, c24] ∧ innerM.isMulti = true ∧ ¬ Flat m ∧
      m.fqn = ("SourceSet(SourceSet(a||b)||a||a)::PositionSet(PositionSet(0-2||/r/x)||5-7||2-4)".toList) := by
  refine ⟨⟨by decide, rfl⟩, ?_, _, rfl, rfl, rfl, rfl, rfl, ?_, by decide⟩
  · intro h; exact absurd (h.1 innerM (by simp)) (by decide)
  · intro h; exact absurd (h.1 innerM (by simp)) (by decide)

/-- likewise a user-built `MultiOrigin([NoOrigin, c02])` keeps its NoOrigin member through `merge_origins` -/
theorem nested_none_stays :
    ∃ mn m, mkMulti [.none, c02] = .ok mn ∧ merge [mn, c24] = .ok m ∧
      (leaves m).map Origin.isNone = [true, false, false] ∧ ¬ Flat m := by
  refine ⟨_, _, rfl, rfl, rfl, ?_⟩
  intro h; exact absurd (h.1 .none (by simp)) (by decide)

/-! ## Target 5 — `slice`, `Int.toNat` and Python's slicing -/

/-- a well-formed range has non-negative, ordered indices -/
theorem rangeWF_nonneg (r : CodeRange) (h : rangeWF r) :
    0 ≤ r.start.index ∧ r.start.index ≤ r.end_.index ∧ 0 ≤ r.end_.index := by
  obtain ⟨h1, _, h3⟩ := h
  have a := (point_valid_iff r.start).mp h1
  have b := (range_valid_iff r).mp h3
  omega

/-- **what the constructor kernels accept**: if `CodePoint(i, l, c)`, `CodePoint(i', l', c')` and `CodeRange(p, q)` all
return (no hypothesis other than that), the range is the record of the two points, is well-formed, and
`0 ≤ i ≤ i'` — so `Int.toNat` is the identity on both indices -/
theorem accepted_range_nonneg (i l c i' l' c' : Int) (p q : CodePoint) (r : CodeRange)
    (hp : mkPoint i l c = .ok p) (hq : mkPoint i' l' c' = .ok q) (hr : mkRange p q = .ok r) :
    r = ⟨⟨i, l, c⟩, ⟨i', l', c'⟩⟩ ∧ rangeWF r ∧ 0 ≤ i ∧ i ≤ i' ∧
      ((r.start.index.toNat : Int) = r.start.index) ∧ ((r.end_.index.toNat : Int) = r.end_.index) := by
  have v1 : (CodePoint.mk i l c).valid = true := by
    by_cases v : (CodePoint.mk i l c).valid = true
    · exact v
    · simp [mkPoint, v] at hp
  have v2 : (CodePoint.mk i' l' c').valid = true := by
    by_cases v : (CodePoint.mk i' l' c').valid = true
    · exact v
    · simp [mkPoint, v] at hq
  have ep : p = ⟨i, l, c⟩ := by simp [mkPoint, v1] at hp; exact hp.symm
  have eq : q = ⟨i', l', c'⟩ := by simp [mkPoint, v2] at hq; exact hq.symm
  subst ep; subst eq
  have v3 : (CodeRange.mk ⟨i, l, c⟩ ⟨i', l', c'⟩).valid = true := by
    by_cases v : (CodeRange.mk ⟨i, l, c⟩ ⟨i', l', c'⟩).valid = true
    · exact v
    · simp [mkRange, v] at hr
  have er : r = ⟨⟨i, l, c⟩, ⟨i', l', c'⟩⟩ := by simp [mkRange, v3] at hr; exact hr.symm
  subst er
  have wf : rangeWF ⟨⟨i, l, c⟩, ⟨i', l', c'⟩⟩ := ⟨v1, v2, v3⟩
  have nn := rangeWF_nonneg _ wf
  simp only at nn
  refine ⟨rfl, wf, nn.1, nn.2.1, ?_, ?_⟩
  · show ((i.toNat : Nat) : Int) = i; omega
  · show ((i'.toNat : Nat) : Int) = i'; omega

/-- on non-negative bounds the model's `slice` IS Python's slice (clamping at the end of the text included) -/
theorem slice_eq_pySlice (t : Str) (lo hi : Int) (h0 : 0 ≤ lo) (h1 : 0 ≤ hi) : slice t lo hi = pySlice t lo hi := by
  obtain ⟨a, rfl⟩ := Int.eq_ofNat_of_zero_le h0
  obtain ⟨b, rfl⟩ := Int.eq_ofNat_of_zero_le h1
  apply List.ext_getElem?
  intro k
  have e1 : pyClamp t.length (a : Int) = min a t.length := by
    unfold pyClamp
    have : ¬ ((a : Int) < 0) := by omega
    rw [if_neg this]
    split <;> omega
  have e2 : pyClamp t.length (b : Int) = min b t.length := by
    unfold pyClamp
    have : ¬ ((b : Int) < 0) := by omega
    rw [if_neg this]
    split <;> omega
  simp only [slice, pySlice, e1, e2, Int.toNat_natCast, List.getElem?_take, List.getElem?_drop]
  by_cases c1 : k < b - a
  · by_cases c2 : k < min b t.length - min a t.length
    · rw [if_pos c1, if_pos c2]
      have : min a t.length = a := by omega
      rw [this]
    · rw [if_pos c1, if_neg c2]
      exact List.getElem?_eq_none (by omega)
  · have c2 : ¬ k < min b t.length - min a t.length := by omega
    rw [if_neg c1, if_neg c2]

/-- Python's slice for `0 ≤ lo ≤ hi ≤ len`: exactly the characters at positions `lo ≤ k < hi` -/
theorem pySlice_inside (t : Str) (lo hi : Nat) (h1 : lo ≤ hi) (h2 : hi ≤ t.length) :
    pySlice t lo hi = (t.drop lo).take (hi - lo) ∧ (pySlice t lo hi).length = hi - lo ∧
      ∀ k, k < hi - lo → (pySlice t lo hi)[k]? = t[lo + k]? := by
  rw [← slice_eq_pySlice t lo hi (by omega) (by omega)]
  refine ⟨by simp [slice], by rw [slice_length]; omega, ?_⟩
  intro k hk
  rw [slice_getElem?, if_pos hk]

/-- **`get_raw()` of a code origin with a well-formed range over a text source is Python's `text[start.index:end.index]`**;
with `lo = start.index`, `hi = end.index` as naturals it is `(text.drop lo).take (hi - lo)`, `lo ≤ hi` -/
theorem getRaw_pySlice (s : Src) (t : Str) (r : CodeRange) (h : s.raw = .text t) (hw : rangeWF r) :
    getRaw (.code false (.one s) r) = some (pySlice t r.start.index r.end_.index) ∧
    ∃ lo hi : Nat, (lo : Int) = r.start.index ∧ (hi : Int) = r.end_.index ∧ lo ≤ hi ∧
      getRaw (.code false (.one s) r) = some ((t.drop lo).take (hi - lo)) := by
  have nn := rangeWF_nonneg r hw
  rw [getRaw_code s t r h, slice_eq_pySlice t _ _ nn.1 nn.2.2]
  refine ⟨rfl, r.start.index.toNat, r.end_.index.toNat, by omega, by omega, by omega, ?_⟩
  rw [← slice_eq_pySlice t _ _ nn.1 nn.2.2]; rfl

/-- the same from the constructors alone -/
theorem getRaw_constructed (s : Src) (t : Str) (h : s.raw = .text t) (i l c i' l' c' : Int) (p q : CodePoint)
    (r : CodeRange) (hp : mkPoint i l c = .ok p) (hq : mkPoint i' l' c' = .ok q) (hr : mkRange p q = .ok r) :
    getRaw (.code false (.one s) r) = some (pySlice t i i') := by
  obtain ⟨rfl, wf, _⟩ := accepted_range_nonneg i l c i' l' c' p q r hp hq hr
  exact (getRaw_pySlice s t _ h wf).1

/-- the fused origin of two valid fusable code origins reads Python's slice over the hull of the LEFT text -/
theorem add_get_raw_pySlice (ga gb : Bool) (s : Src) (sb : SrcV) (t : Str) (ra rb : CodeRange) (h : s.raw = .text t)
    (hm : mergeable (.code ga (.one s) ra) (.code gb sb rb) = true) (ha : rangeWF ra) (hb : rangeWF rb) :
    ∃ o, add (.code ga (.one s) ra) (.code gb sb rb) = .ok o ∧
      getRaw o = some (pySlice t (min ra.start.index rb.start.index) (max ra.end_.index rb.end_.index)) := by
  refine ⟨_, add_fuse ga gb _ sb ra rb hm, ?_⟩
  rw [(getRaw_pySlice s t _ h (rangeWF_add ra rb ha hb)).1, (add_index ra rb).1, (add_index ra rb).2]

/-- outside the constructors' domain the hand-written `slice` is NOT Python's slice: `"abc"[-1:3]` is `"c"`, `slice` gives
`"abc"` (`toNat (-1) = 0`).  Unreachable: `accepted_range_nonneg`. -/
theorem slice_negative_fails :
    slice ['a', 'b', 'c'] (-1) 3 = ['a', 'b', 'c'] ∧ pySlice ['a', 'b', 'c'] (-1) 3 = ['c'] ∧
    mkPoint (-1) 1 0 = .error .valueError := ⟨by decide, by decide, rfl⟩

/-! ### non-vacuity -/
example : rangeWF ⟨⟨2, 1, 2⟩, ⟨7, 1, 7⟩⟩ ∧ pySlice "hello world".toList 2 7 = "llo w".toList ∧
    pySlice ['a', 'b', 'c'] 2 9 = ['c'] ∧ pySlice ['a', 'b', 'c'] 5 9 = [] ∧ pySlice ['a', 'b', 'c'] (-2) (-1) = ['b'] ∧
    pySlice ['a', 'b', 'c'] (-9) 1 = ['a'] ∧ pySlice ['a', 'b', 'c'] 2 1 = [] := by decide
example : ∃ p q r, mkPoint 2 1 2 = .ok p ∧ mkPoint 7 1 7 = .ok q ∧ mkRange p q = .ok r := ⟨_, _, _, rfl, rfl, rfl⟩

end PyOak.C15
