/-
C11, "the verdict is the same for plain and postponed (string) annotations".

After `typing.get_type_hints` the two spellings are the same type term; what a spelling CAN change is
whether the annotation can be evaluated when the class is defined: a name that is not bound yet raises
NameError, `check_annotations` gives up (`defCheck = .skipped`) and the class is only judged at first use.
The model keeps that difference in the constructors `.node c` (exists at definition time) / `.fwd c` (defined
later).  Proved here, for every annotation / class / chain:

* `classify_mapRef`, `classify_resolveFwd`, `classify_deferAll`   the verdict of an annotation does not
  depend on which of the referenced node classes exist at definition time (nor on WHICH node classes they are)
* `classOutcome_mapRef`, `classOutcome_resolveFwd`, `chainOutcome_mapRef`   … so the outcome of a class / of
  every class of a chain (rejected or the per-field verdicts) does not either, although the definition-time
  check may behave differently (`defCheck_deferAll`: skipped; `defCheck_resolveAll_*`: decided)
* `reject_moves_to_definition`   a class is rejected (at whatever time) iff the same class with every forward
  reference resolved is rejected AT DEFINITION; `accepted_iff_resolved_passes` the dual
-/
import PyOak.Spec.AnnotFwd
import PyOak.Props.C11
namespace PyOak
namespace C11
open Annot Annot.Ty

theorem mapRefL_eq (g : Bool → Nat → Bool × Nat) (l : List Ty) : mapRefL g l = l.map (mapRef g) := by
  induction l with
  | nil => rfl
  | cons t r ih => simp [mapRefL, ih]

theorem ref_cases (b : Bool) (c : Nat) : Ty.ref b c = .fwd c ∨ Ty.ref b c = .node c := by
  cases b <;> simp [Ty.ref]

theorem hasNode_ref (b : Bool) (c : Nat) : hasNode (Ty.ref b c) = true := by
  cases b <;> rfl
theorem validProp_ref (b : Bool) (c : Nat) : validProp (Ty.ref b c) = true := by
  cases b <;> rfl
theorem validChild_ref (s b : Bool) (c : Nat) : validChild s (Ty.ref b c) = true := by
  cases b <;> simp [Ty.ref, validChild]
theorem isNone_ref (b : Bool) (c : Nat) : (Ty.ref b c).isNone = false := by
  cases b <;> rfl
theorem unwrap_isNodeClass_ref (b : Bool) (c : Nat) : (Ty.ref b c).unwrap.isNodeClass = true := by
  cases b <;> rfl

theorem isNone_mapRef (g : Bool → Nat → Bool × Nat) (t : Ty) : (mapRef g t).isNone = t.isNone := by
  cases t with
  | node c => simp only [mapRef, isNone_ref]; rfl
  | fwd c => simp only [mapRef, isNone_ref]; rfl
  | _ => rfl

theorem isNodeClass_mapRef (g : Bool → Nat → Bool × Nat) :
    ∀ t, (mapRef g t).unwrap.isNodeClass = t.unwrap.isNodeClass := by
  intro t
  induction t using Ty.induct with
  | hnode c => simp only [mapRef, unwrap_isNodeClass_ref]; rfl
  | hfwd c => simp only [mapRef, unwrap_isNodeClass_ref]; rfl
  | hnt t ih => simpa [mapRef, unwrap] using ih
  | _ => rfl

theorem unionMemberOk_mapRef (g : Bool → Nat → Bool × Nat) (t : Ty) :
    unionMemberOk (mapRef g t) = unionMemberOk t := by
  simp only [unionMemberOk, isNone_mapRef, isNodeClass_mapRef]

theorem hasNode_mapRef (g : Bool → Nat → Bool × Nat) : ∀ t, hasNode (mapRef g t) = hasNode t := by
  intro t
  induction t using Ty.induct with
  | hnode c => simp [mapRef, hasNode_ref, hasNode]
  | hfwd c => simp [mapRef, hasNode_ref, hasNode]
  | hnt t ih => simpa [mapRef, hasNode] using ih
  | hunion m ms ihm ihms =>
    simp only [mapRef, hasNode, hasNodeL_eq, mapRefL_eq, ihm, List.any_map]
    congr 1
    exact any_congr_mem fun x hx => ihms x hx
  | hvt t ih => simpa [mapRef, hasNode] using ih
  | hcoll k args ih =>
    simp only [mapRef, hasNode, hasNodeL_eq, mapRefL_eq, List.any_map]
    exact any_congr_mem fun x hx => ih x hx
  | _ => rfl

theorem validProp_mapRef (g : Bool → Nat → Bool × Nat) : ∀ t, validProp (mapRef g t) = validProp t := by
  intro t
  induction t using Ty.induct with
  | hnode c => simp [mapRef, validProp_ref, validProp]
  | hfwd c => simp [mapRef, validProp_ref, validProp]
  | hnt t ih => simpa [mapRef, validProp] using ih
  | hunion m ms ihm ihms =>
    simp only [mapRef, validProp, validPropL_eq, mapRefL_eq, ihm, List.all_map]
    congr 1
    exact all_congr_mem fun x hx => ihms x hx
  | hvt t ih => simpa [mapRef, validProp] using ih
  | hcoll k args ih =>
    simp only [mapRef, validProp, validPropL_eq, mapRefL_eq, List.all_map]
    congr 1
    exact all_congr_mem fun x hx => ih x hx
  | _ => rfl

theorem validChild_mapRef (g : Bool → Nat → Bool × Nat) :
    ∀ t b, validChild b (mapRef g t) = validChild b t := by
  intro t
  induction t using Ty.induct with
  | hnode c => intro b; simp [mapRef, validChild_ref, validChild]
  | hfwd c => intro b; simp [mapRef, validChild_ref, validChild]
  | hnt t ih => intro b; simpa [mapRef, validChild] using ih b
  | hunion m ms _ _ =>
    intro b
    have e1 : (mapRef g m :: mapRefL g ms) = (m :: ms).map (mapRef g) := by simp [mapRefL_eq]
    simp only [mapRef, validChild, e1, List.any_map, List.all_map]
    rw [any_congr_mem (f := isNone ∘ mapRef g) (g := isNone) (fun x _ => isNone_mapRef g x),
        all_congr_mem (f := unionMemberOk ∘ mapRef g) (g := unionMemberOk)
          (fun x _ => unionMemberOk_mapRef g x)]
  | hvt t ih => intro b; simp only [mapRef, validChild, ih false]
  | hcoll k args ih =>
    intro b
    cases k <;> simp only [mapRef, validChild]
    simp only [validChildL_eq, mapRefL_eq, List.all_map, List.isEmpty_map]
    congr 2
    exact all_congr_mem fun x hx => ih x hx false
  | _ => intro _; rfl

theorem classifyRaw_mapRef (g : Bool → Nat → Bool × Nat) (t : Ty) :
    classifyRaw (mapRef g t) = classifyRaw t := by
  unfold classifyRaw
  rw [hasNode_mapRef, validProp_mapRef, validChild_mapRef]

/-- the verdict of an annotation depends neither on which of the node classes it names exist when the
annotated class is defined, nor on which node classes they are -/
theorem classify_mapRef (g : Bool → Nat → Bool × Nat) (t : Ty) : classify (mapRef g t) = classify t := by
  rw [classify_eq_classifyRaw, classify_eq_classifyRaw, classifyRaw_mapRef]

/-- resolving forward references (`.fwd c ↦ .node c` for the classes of the class table) keeps the verdict -/
theorem classify_resolveFwd (known : Nat → Bool) (t : Ty) : classify (resolveFwd known t) = classify t :=
  classify_mapRef _ t

theorem classify_resolveAll (t : Ty) : classify (resolveAll t) = classify t := classify_mapRef _ t

/-- … and so does turning every reference into a forward reference -/
theorem classify_deferAll (t : Ty) : classify (deferAll t) = classify t := classify_mapRef _ t

/-- what `resolveFwd` does on a reference (the rest of the term is copied) -/
theorem resolveFwd_fwd (known : Nat → Bool) (c : Nat) :
    resolveFwd known (.fwd c) = if known c then .node c else .fwd c := by
  cases h : known c <;> simp [resolveFwd, mapRef, Ty.ref, h]
theorem resolveFwd_node (known : Nat → Bool) (c : Nat) : resolveFwd known (.node c) = .node c := by
  simp [resolveFwd, mapRef, Ty.ref]

theorem hasFwd_ref (b : Bool) (c : Nat) : hasFwd (Ty.ref b c) = b := by
  cases b <;> rfl

theorem hasFwd_resolveAll : ∀ t, hasFwd (resolveAll t) = false := by
  intro t
  induction t using Ty.induct with
  | hnode c => simp [resolveAll, resolveFwd, mapRef, hasFwd_ref]
  | hfwd c => simp [resolveAll, resolveFwd, mapRef, hasFwd_ref]
  | hnt t ih => simpa [resolveAll, resolveFwd, mapRef, hasFwd] using ih
  | hunion m ms ihm ihms =>
    simp only [resolveAll, resolveFwd] at ihm ihms ⊢
    simp only [mapRef, hasFwd, hasFwdL_eq, mapRefL_eq, ihm, List.any_map, Bool.false_or]
    rw [List.any_eq_false]
    intro x hx
    simpa using ihms x hx
  | hvt t ih => simpa [resolveAll, resolveFwd, mapRef, hasFwd] using ih
  | hcoll k args ih =>
    simp only [resolveAll, resolveFwd] at ih ⊢
    simp only [mapRef, hasFwd, hasFwdL_eq, mapRefL_eq, List.any_map]
    rw [List.any_eq_false]
    intro x hx
    simpa using ih x hx
  | _ => rfl

theorem hasFwd_deferAll : ∀ t, hasFwd (deferAll t) = hasNode t := by
  intro t
  induction t using Ty.induct with
  | hnode c => simp [deferAll, mapRef, hasFwd_ref, hasNode]
  | hfwd c => simp [deferAll, mapRef, hasFwd_ref, hasNode]
  | hnt t ih => simpa [deferAll, mapRef, hasFwd, hasNode] using ih
  | hunion m ms ihm ihms =>
    simp only [deferAll] at ihm ihms ⊢
    simp only [mapRef, hasFwd, hasNode, hasFwdL_eq, hasNodeL_eq, mapRefL_eq, ihm, List.any_map]
    congr 1
    exact any_congr_mem fun x hx => ihms x hx
  | hvt t ih => simpa [deferAll, mapRef, hasFwd, hasNode] using ih
  | hcoll k args ih =>
    simp only [deferAll] at ih ⊢
    simp only [mapRef, hasFwd, hasNode, hasFwdL_eq, hasNodeL_eq, mapRefL_eq, List.any_map]
    exact any_congr_mem fun x hx => ih x hx
  | _ => rfl

/-! ### classes and chains -/

theorem addField_map (F : Field → Field) (hF : ∀ f, (F f).name = f.name) (acc : List Field) (f : Field) :
    addField (acc.map F) (F f) = (addField acc f).map F := by
  unfold addField
  have hany : (acc.map F).any (fun g => g.name == (F f).name) = acc.any (fun g => g.name == f.name) := by
    rw [List.any_map]
    exact any_congr_mem fun g _ => by simp [hF]
  rw [hany]
  split
  · rw [List.map_map, List.map_map]
    apply List.map_congr_left
    intro g _
    simp only [Function.comp, hF]
    split <;> rfl
  · simp

theorem foldl_addField_map (F : Field → Field) (hF : ∀ f, (F f).name = f.name) (lvl acc : List Field) :
    (lvl.map F).foldl addField (acc.map F) = (lvl.foldl addField acc).map F := by
  induction lvl generalizing acc with
  | nil => rfl
  | cons f r ih => simp only [List.map_cons, List.foldl_cons, addField_map F hF, ih]

/-- `dataclasses.fields` commutes with any rewriting of the annotations that keeps the field names -/
theorem effective_map (F : Field → Field) (hF : ∀ f, (F f).name = f.name) (ls : List Level) :
    effective (ls.map fun lvl => lvl.map F) = (effective ls).map F := by
  unfold effective
  suffices ∀ acc : List Field,
      (ls.map fun lvl => lvl.map F).foldl (fun acc lvl => lvl.foldl addField acc) (acc.map F) =
        (ls.foldl (fun acc lvl => lvl.foldl addField acc) acc).map F from this []
  induction ls with
  | nil => intro acc; rfl
  | cons lvl r ih =>
    intro acc
    simp only [List.map_cons, List.foldl_cons, foldl_addField_map F hF, ih]

theorem effective_mapLevels (F : Ty → Ty) (ls : List Level) :
    effective (mapLevels F ls) = (effective ls).map (mapField F) :=
  effective_map (mapField F) (fun _ => rfl) ls

/-- a verdict-preserving rewriting of the annotations of a class does not change what
`process_node_fields` makes of the class -/
theorem processNodeFields_mapLevels (F : Ty → Ty) (hF : ∀ t, classify (F t) = classify t) (ls : List Level) :
    processNodeFields (mapLevels F ls) = processNodeFields ls := by
  unfold processNodeFields
  simp only [effective_mapLevels, List.map_map]
  have : ((fun f : Field => (f.name, f.ty.classify)) ∘ mapField F) = fun f => (f.name, f.ty.classify) := by
    funext f; simp [mapField, hF]
  rw [this]

theorem classOutcome_mapLevels (F : Ty → Ty) (hF : ∀ t, classify (F t) = classify t) (ls : List Level) :
    classOutcome (mapLevels F ls) = classOutcome ls := by
  rw [classOutcome_eq, classOutcome_eq, processNodeFields_mapLevels F hF]

theorem mapLevels_append (F : Ty → Ty) (a b : List Level) :
    mapLevels F (a ++ b) = mapLevels F a ++ mapLevels F b := by
  simp [mapLevels]

theorem chainFrom_mapLevels (F : Ty → Ty) (hF : ∀ t, classify (F t) = classify t) (done ls : List Level) :
    chainFrom (mapLevels F done) (mapLevels F ls) = chainFrom done ls := by
  induction ls generalizing done with
  | nil => rfl
  | cons lvl r ih =>
    have e : mapLevels F (lvl :: r) = lvl.map (mapField F) :: mapLevels F r := rfl
    have e1 : mapLevels F done ++ [lvl.map (mapField F)] = mapLevels F (done ++ [lvl]) := by
      simp [mapLevels]
    rw [e]
    unfold chainFrom
    rw [e1, classOutcome_mapLevels F hF, ih]

/-- the outcome of a class — rejected, or the verdict of each of its fields — is the same whether the node
classes its annotations name exist at definition time or only later (the only thing the choice between
plain and postponed / string annotations can change once `get_type_hints` evaluates them) -/
theorem classOutcome_mapRef (g : Bool → Nat → Bool × Nat) (ls : List Level) :
    classOutcome (mapLevels (mapRef g) ls) = classOutcome ls :=
  classOutcome_mapLevels _ (classify_mapRef g) ls

theorem classOutcome_resolveFwd (known : Nat → Bool) (ls : List Level) :
    classOutcome (mapLevels (resolveFwd known) ls) = classOutcome ls :=
  classOutcome_mapLevels _ (classify_resolveFwd known) ls

theorem classOutcome_deferAll (ls : List Level) : classOutcome (mapLevels deferAll ls) = classOutcome ls :=
  classOutcome_mapLevels _ classify_deferAll ls

/-- … and so is what the driver prints for a whole chain of classes -/
theorem chainOutcome_mapRef (g : Bool → Nat → Bool × Nat) (ls : List Level) :
    chainOutcome (mapLevels (mapRef g) ls) = chainOutcome ls :=
  chainFrom_mapLevels _ (classify_mapRef g) [] ls

theorem chainOutcome_resolveFwd (known : Nat → Bool) (ls : List Level) :
    chainOutcome (mapLevels (resolveFwd known) ls) = chainOutcome ls :=
  chainFrom_mapLevels _ (classify_resolveFwd known) [] ls

/-! ### which phase reports -/

theorem noFwd_resolveAll (ls : List Level) :
    (mapLevels resolveAll ls).any (fun lvl => lvl.any fun f => f.ty.hasFwd) = false := by
  rw [List.any_eq_false]
  intro lvl hl
  obtain ⟨l0, _, rfl⟩ := List.mem_map.1 hl
  simp only [Bool.not_eq_true]
  rw [List.any_eq_false]
  intro f hf
  obtain ⟨f0, _, rfl⟩ := List.mem_map.1 hf
  simp [mapField, hasFwd_resolveAll]

/-- without unresolved forward references the definition-time check decides: it raises iff the class is
rejected at all -/
theorem defCheck_raised_iff_of_noFwd (ls : List Level)
    (hnf : ls.any (fun lvl => lvl.any fun f => f.ty.hasFwd) = false) :
    defCheck ls = .raised ↔ classOutcome ls = Option.none := by
  constructor
  · intro h
    rw [classOutcome_eq]
    exact defCheck_raised_sound ls h
  · intro h
    obtain ⟨f, hf, hr⟩ := (classOutcome_none_iff ls).1 h
    unfold defCheck
    rw [hnf]
    simp only [Bool.false_eq_true, if_false]
    rw [if_pos]
    rw [List.any_eq_true]
    exact ⟨f, hf, by rw [← classify_eq_classifyRaw, hr]; rfl⟩

theorem defCheck_ne_skipped_of_noFwd (ls : List Level)
    (hnf : ls.any (fun lvl => lvl.any fun f => f.ty.hasFwd) = false) : defCheck ls ≠ .skipped := by
  unfold defCheck
  rw [hnf]
  simp only [Bool.false_eq_true, if_false]
  split <;> simp

/-- a class is rejected (at definition or at first use, whichever comes first) iff the same class, written
where all the node classes it names are already defined, is rejected AT DEFINITION -/
theorem reject_moves_to_definition (ls : List Level) :
    classOutcome ls = Option.none ↔ defCheck (mapLevels resolveAll ls) = .raised := by
  rw [defCheck_raised_iff_of_noFwd _ (noFwd_resolveAll ls)]
  unfold resolveAll
  rw [classOutcome_resolveFwd]

/-- … and it is accepted iff that class passes the definition-time check -/
theorem accepted_iff_resolved_passes (ls : List Level) :
    classOutcome ls ≠ Option.none ↔ defCheck (mapLevels resolveAll ls) = .passed := by
  rw [Ne, reject_moves_to_definition]
  have h := defCheck_ne_skipped_of_noFwd _ (noFwd_resolveAll ls)
  cases hd : defCheck (mapLevels resolveAll ls) <;> simp_all

/-- a class all of whose node references are unresolved at definition time is never checked there
(provided it mentions a node class at all) -/
theorem defCheck_deferAll (ls : List Level) (f : Field) (lvl : Level) (hl : lvl ∈ ls) (hf : f ∈ lvl)
    (hn : MentionsNode f.ty) : defCheck (mapLevels deferAll ls) = .skipped := by
  unfold defCheck
  rw [if_pos]
  rw [List.any_eq_true]
  refine ⟨lvl.map (mapField deferAll), List.mem_map.2 ⟨lvl, hl, rfl⟩, ?_⟩
  rw [List.any_eq_true]
  exact ⟨mapField deferAll f, List.mem_map.2 ⟨f, hf, rfl⟩, by
    simp only [mapField, hasFwd_deferAll]; exact (hasNode_iff _).2 hn⟩

/-! ### non-vacuity -/

-- `tuple["Later0", ...]` vs `tuple[N0, ...]`; a partial class table resolves only some names
example : resolveFwd (fun c => c == 0) (.coll .tuple [.fwd 0, .fwd 1, .node 2]) =
    .coll .tuple [.node 0, .fwd 1, .node 2] := by rfl
example : resolveAll (.union (.newtype (.fwd 3)) [.none]) = .union (.newtype (.node 3)) [.none] := by rfl
-- the two phases really differ on the two layouts, the outcome does not
example : defCheck [[⟨['x'], .coll .list [.fwd 0]⟩]] = .skipped ∧
    defCheck (mapLevels resolveAll [[⟨['x'], .coll .list [.fwd 0]⟩]]) = .raised ∧
    classOutcome [[⟨['x'], .coll .list [.fwd 0]⟩]] = Option.none := by decide
example : defCheck [[⟨['x'], .vtuple (.node 0)⟩]] = .passed ∧
    defCheck (mapLevels deferAll [[⟨['x'], .vtuple (.node 0)⟩]]) = .skipped ∧
    classOutcome (mapLevels deferAll [[⟨['x'], .vtuple (.node 0)⟩]]) = some [(['x'], .child)] := by decide

end C11
end PyOak
