/- protocol handlers for the accessor model (C12) — glue

  request ::= (acc-<op> (cls (lvl fdecl…)…) (inst ("name" val)…) [(flags b b b b b)] [(sort b)])
            | (acc-world (ops (def none|<k>…) | (call <k>) …))     (def lists the MRO below the new class)
  fdecl   ::= ("name" p|c1|ct <compare> <init> <kw_only>)
  val     ::= (p <tok>) | none | (n <uid> <truthy>) | (t (<uid> <truthy>)…)
  flags   ::= skip_id skip_origin skip_content_id skip_non_compare skip_non_init
-/
import PyOak.Sexp
import PyOak.Model.Accessors
namespace PyOak
open Sexp
open PyOak.Acc

def decodeFDecl : Sexp → Option FDecl
  | .list [n, k, c, i, kw] => do
      let kind ← match k with
        | .atom "p" => some FKind.prop
        | .atom "c1" => some FKind.childOne
        | .atom "ct" => some FKind.childTuple
        | _ => none
      pure ⟨← asStr? n, kind, ← asBool? c, ← asBool? i, ← asBool? kw⟩
  | _ => none

def decodeNd : Sexp → Option Nd
  | .list [u, t] => do pure ⟨← asNat? u, ← asBool? t⟩
  | _ => none

def decodeFVal : Sexp → Option FVal
  | .atom "none" => some .none
  | .list [.atom "p", t] => (asNat? t).map .prop
  | .list [.atom "n", u, t] => do pure (.node ⟨← asNat? u, ← asBool? t⟩)
  | .list (.atom "t" :: ns) => (ns.mapM decodeNd).map .tuple
  | _ => none

def decodeClass (args : List Sexp) : Option ClassDecl := do
  let lv ← field? args "cls"
  let levels ← lv.mapM fun l => match l with
    | .list (.atom "lvl" :: fs) => fs.mapM decodeFDecl
    | _ => none
  pure ⟨levels⟩

def decodeInst (args : List Sexp) : Option Inst := do
  let xs ← field? args "inst"
  xs.mapM fun x => match x with
    | .list [n, v] => do pure (← asStr? n, ← decodeFVal v)
    | _ => none

def decodeFlags (args : List Sexp) : Option Flags := do
  match ← field? args "flags" with
  | [a, b, c, d, e] => pure ⟨← asBool? a, ← asBool? b, ← asBool? c, ← asBool? d, ← asBool? e⟩
  | _ => none

def kindAtom : FKind → Sexp
  | .prop => .atom "p"
  | .childOne => .atom "c1"
  | .childTuple => .atom "ct"

def fvalSexp : FVal → Sexp
  | .prop t => ofNat t
  | .none => .atom "none"
  | .node n => .list [.atom "n", ofNat n.uid]
  | .tuple ns => .list (.atom "t" :: ns.map (ofNat ·.uid))

def handleAccessors (cmd : String) (args : List Sexp) : Option Sexp := do
  if cmd == "acc-world" then
    let ops ← field? args "ops"
    let (_, out) ← ops.foldlM (fun (st : World × List Sexp) op =>
      match op with
      | .list [.atom "def", .atom "none"] => some (st.1.defineClass [], st.2)
      | .list (.atom "def" :: ps) => (ps.mapM asNat?).map fun m => (st.1.defineClass m, st.2)
      | .list [.atom "call", k] => (asNat? k).map fun k =>
          let r := st.1.call k
          (r.2, st.2 ++ [ofNat r.1])
      | _ => none) ((⟨[], []⟩ : World), [])
    pure (app "ok" out)
  else
  let c ← decodeClass args
  match cmd with
  | "acc-fields" =>
    pure (app "ok" (c.fields.map fun d =>
      .list [ofStr d.name, kindAtom d.kind, ofBool d.compare, ofBool d.init, ofBool d.kwOnly]))
  | "acc-child-fields" => pure (app "ok" ((getChildFields c).map (ofStr ·.name)))
  | "acc-prop-fields" =>
    let fl ← decodeFlags args
    pure (app "ok" ((getPropertyFields c fl).map (ofStr ·.name)))
  | _ =>
  let i ← decodeInst args
  match cmd with
  | "acc-children" => pure (app "ok" ((children c i).map (ofNat ·.uid)))
  | "acc-dict" =>
    pure (app "ok" ((sortByName (·.1) (toPropertiesDict c i)).map fun e => .list [ofStr e.1, fvalSexp e.2]))
  | "acc-props" =>
    let fl ← decodeFlags args
    let s ← asBool? (← field1? args "sort")
    pure (app "ok" ((getProperties c i fl s).map fun p => .list [ofStr p.2.name, fvalSexp p.1]))
  | _ =>
  let s ← asBool? (← field1? args "sort")
  match cmd with
  | "acc-nodes" => pure (app "ok" ((getChildNodes c i s).map (ofNat ·.uid)))
  | "acc-wf" =>
    pure (app "ok" ((getChildNodesWithField c i s).map fun x =>
      .list [ofNat x.1.uid, ofStr x.2.1.name, ofOptNat x.2.2]))
  | "acc-iter" =>
    pure (app "ok" ((iterChildFields c i s).map fun x => .list [ofStr x.2.name, fvalSexp x.1]))
  | _ => none

end PyOak
