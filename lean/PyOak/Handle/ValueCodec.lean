/-
Protocol handler for the property-value codec (value half of C04; glue, not referenced by theorems).

  sc   ::= null | (b true|false) | (i <int>) | (f "float.hex token") | (s "text")
  atom ::= int | float | bool | str | none | (lit sc…) | (enum "Name" ("member" sc)…) | path
  ty   ::= atom | (opt ty) | (union atom…) | (tvar ty) | (tfix ty…) | (fset ty)
  V    ::= sc | (e "Class" "member" sc) | (p "posix text") | (t V…) | (fs V…)
  J    ::= sc | (l J…) | (m ("key" J)…) | (py V)            -- (py V): an object handed through unserialized

  (vc-enc ty V)   ⇒ (ok J (rt b) (wt b) (json b)) | (raise (rt b) (wt b)) | (unmodelled (rt b) (wt b))
                     `Cls(x=V).as_dict()["x"]`; request: a frozenset in ITERATION order;
                     rt = `Ty.rt ty`, wt = `wt ty V`, json = `J.jsonLike`
  (vc-dec ty J)   ⇒ (ok V) | (raise) | (unmodelled)          `Cls.as_obj({... "x": J}).x`; answer: the elements of a
                     frozenset sorted by their rendering, `==` elements reduced to the first (as `frozenset(list)` does)
  (vc-node "Cls" "id" "content_id" J ("field" ty V)…)  ⇒ (ok (m ("key" J)…)) | (raise) | (unmodelled)
-/
import PyOak.Model.ValueCodec
namespace PyOak
open Sexp VC

namespace ValueCodecH

def decSc : Sexp → Option Sc
  | .atom "null" => some .null
  | .list [.atom "b", x] => (asBool? x).map .bool
  | .list [.atom "i", x] => (asInt? x).map .int
  | .list [.atom "f", x] => (asStr? x).map .flt
  | .list [.atom "s", x] => (asStr? x).map .str
  | _ => none

def encSc : Sc → Sexp
  | .null => sym "null"
  | .bool b => app "b" [ofBool b]
  | .int i => app "i" [ofInt i]
  | .flt t => app "f" [ofStr t]
  | .str s => app "s" [ofStr s]

def decAtom? : Sexp → Option Atom
  | .atom "int" => some .int
  | .atom "float" => some .float
  | .atom "bool" => some .bool
  | .atom "str" => some .str
  | .atom "none" => some .none
  | .atom "path" => some .path
  | .list (.atom "lit" :: xs) => (xs.mapM decSc).map .lit
  | .list (.atom "enum" :: n :: ms) => do
      let ms ← ms.mapM (fun (kv : Sexp) => match kv with
        | Sexp.list [k, v] => do pure (← asStr? k, ← decSc v)
        | _ => none)
      pure (.enum { name := ← asStr? n, members := ms })
  | _ => none

partial def decTy : Sexp → Option Ty
  | .list [.atom "opt", t] => (decTy t).map .opt
  | .list (.atom "union" :: ms) => (ms.mapM decAtom?).map .union
  | .list [.atom "tvar", t] => (decTy t).map .tupleVar
  | .list (.atom "tfix" :: ts) => (ts.mapM decTy).map .tupleFix
  | .list [.atom "fset", t] => (decTy t).map .fset
  | x => (decAtom? x).map .atom

partial def decV : Sexp → Option V
  | .list [.atom "e", c, m, v] => do pure (.enum (← asStr? c) (← asStr? m) (← decSc v))
  | .list [.atom "p", s] => (asStr? s).map .path
  | .list (.atom "t" :: xs) => (xs.mapM decV).map .tuple
  | .list (.atom "fs" :: xs) => (xs.mapM decV).map .fset
  | x => (decSc x).map .sc

partial def decJ : Sexp → Option J
  | .list (.atom "l" :: xs) => (xs.mapM decJ).map .list
  | .list (.atom "m" :: kvs) =>
      (kvs.mapM (fun (kv : Sexp) => match kv with
        | Sexp.list [k, v] => do pure (← asStr? k, ← decJ v)
        | _ => none)).map J.dict
  | .list [.atom "py", v] => (decV v).map .obj
  | x => (decSc x).map .sc

/-- keep the first of the elements that share a key (what `frozenset([...])` does with elements that are `==`) -/
def dedupFirst : List String → List (String × Sexp × Sexp) → List (Sexp × Sexp)
  | _, [] => []
  | seen, (k, x) :: r => if seen.contains k then dedupFirst seen r else x :: dedupFirst (k :: seen) r

/-- a value in canonical form (first component) and a key under which values that are `==` in Python coincide
(`True` ↦ `1`; float against int is not decided): the elements of a frozenset are reduced to the first of each
`==`-class, as `frozenset(list)` does, and sorted by their rendering (the order of the payload is irrelevant) -/
partial def encVK : V → Sexp × Sexp
  | .sc (.bool b) => (encSc (.bool b), encSc (.int (b2i b)))
  | .sc s => (encSc s, encSc s)
  | .enum c m v => let x := app "e" [ofStr c, ofStr m, encSc v]; (x, x)
  | .path s => let x := app "p" [ofStr s]; (x, x)
  | .tuple xs => let rs := xs.map encVK; (app "t" (rs.map (·.1)), app "t" (rs.map (·.2)))
  | .fset xs =>
      let rs := (xs.map encVK).map fun (x, k) => (toString k, x, k)
      let ds := dedupFirst [] rs
      let sorted := (ds.map fun (x, k) => (toString x, x, k)).mergeSort fun a b => decide (a.1 ≤ b.1)
      let ks := (ds.map fun (_, k) => (toString k, k)).mergeSort fun a b => decide (a.1 ≤ b.1)
      (app "fs" (sorted.map (·.2.1)), app "fs" (ks.map (·.2)))

def encV (v : V) : Sexp := (encVK v).1

partial def encJ : J → Sexp
  | .sc s => encSc s
  | .list xs => app "l" (xs.map encJ)
  | .dict kvs => app "m" (kvs.map fun (k, v) => .list [ofStr k, encJ v])
  | .obj v => app "py" [encV v]

def flags (t : Ty) (v : V) : List Sexp := [app "rt" [ofBool t.rt], app "wt" [ofBool (wt t v)]]

def encErr (extra : List Sexp) : Err → Sexp
  | .raise => app "raise" extra
  | .unmodelled => app "unmodelled" extra

def decField : Sexp → Option FieldV
  | .list [n, t, v] => do pure { name := ← asStr? n, ty := ← decTy t, val := ← decV v }
  | _ => none

end ValueCodecH

open ValueCodecH in
def handleValueCodec (cmd : String) (args : List Sexp) : Option Sexp :=
  match cmd, args with
  | "vc-enc", [t, v] => do
      let t ← decTy t
      let v ← decV v
      pure (match enc t v with
        | .ok j => app "ok" ([encJ j] ++ flags t v ++ [app "json" [ofBool j.jsonLike]])
        | .error e => encErr (flags t v) e)
  | "vc-dec", [t, j] => do
      pure (match dec (← decTy t) (← decJ j) with
        | .ok v => app "ok" [encV v]
        | .error e => encErr [] e)
  | "vc-node", cls :: id :: cid :: org :: fs => do
      pure (match encNode (← asStr? cls) (← asStr? id) (← asStr? cid) (← decJ org) (← fs.mapM decField) with
        | .ok d => app "ok" [encJ (.dict d)]
        | .error e => encErr [] e)
  | _, _ => none

end PyOak
