/- protocol handler for the legacy state machine (glue: decoding, token bookkeeping, weak-value
   collection of dead temporaries, the state dump).  Nothing here is referenced by a theorem. -/
import PyOak.Model.Legacy
import PyOak.Model.LegacyTransform
namespace PyOak
open Sexp Legacy

namespace LegacyH

/-- the idealised digests of the driver: injective renderings (the harness' alphabet for ids,
property texts and fqns contains neither `<` nor `>`) -/
def Hd (pre : Str) : Str := '<' :: pre ++ ['>']
def Hcd (pre : Str) : Str := '{' :: pre ++ ['}']

structure ClassInfo where
  name : Str
  mro : List Str
  fields : List (Str × FKind × List Str)

def decodeKind : Sexp → Option FKind
  | .atom "one" => some .one
  | .atom "opt" => some .opt
  | .atom "tup" => some .tup
  | .atom "lst" => some .lst
  | _ => none

def strs (xs : List Sexp) : List Str := xs.filterMap asStr?

def decodeClass : Sexp → Option ClassInfo
  | .list [n, .list mro, .list fs] => do
    let fs ← fs.mapM fun f => match f with
      | .list [fname, k, .list al] => do pure ((← asStr? fname), (← decodeKind k), strs al)
      | _ => none
    pure { name := ← asStr? n, mro := strs mro, fields := fs }
  | _ => none

def decodeProps (xs : List Sexp) : Option (List LProp) :=
  xs.mapM fun p => match p with
    | .list [n, t, c] => do pure { name := ← asStr? n, txt := ← asStr? t, compare := ← asBool? c }
    | _ => none

/-- `(kids (fname tok…)…)` with tokens translated to uids -/
def decodeKids (toks : Array Nat) (xs : List Sexp) : Option (List (Str × List Nat)) :=
  xs.mapM fun k => match k with
    | .list (fname :: ts) => do
      let ts ← ts.mapM fun t => do let i ← asNat? t; toks[i]?
      pure ((← asStr? fname), ts)
    | _ => none

def optStr? : Sexp → Option (Option Str)
  | .atom "none" => some none
  | x => (asStr? x).map some

def decodeOp (classes : List ClassInfo) (toks : Array Nat) : Sexp → Option LOp
  | .list [.atom "new", cls, .list props, idArg, fqn, eu, asdup, det, .list (.atom "kids" :: kids)] => do
    let cls ← asStr? cls
    let ci ← classes.find? (·.name = cls)
    let ks ← decodeKids toks kids
    let fields := ci.fields.map fun (f, k, al) =>
      { name := f, kind := k, allowed := al, kids := ((ks.find? (·.1 = f)).map (·.2)).getD [] : LField }
    pure (.new { cls := cls, mro := ci.mro, fqn := ← asStr? fqn, props := ← decodeProps props,
                 idArg := ← optStr? idArg, ensureUnique := ← asBool? eu, asDuplicate := ← asBool? asdup,
                 createDetached := ← asBool? det, fields := fields })
  | .list [.atom "attach", t] => do pure (.attach (← toks[(← asNat? t)]?))
  | .list [.atom "detach", t, b] => do pure (.detach (← toks[(← asNat? t)]?) (← asBool? b))
  | .list [.atom "replace", t, .list props, .list (.atom "kids" :: kids), .list (.atom "bad" :: bad)] => do
    pure (.replace (← toks[(← asNat? t)]?)
      { props := ← decodeProps props, fields := ← decodeKids toks kids, bad := !bad.isEmpty })
  | .list [.atom "rwith", t, n] => do
    let n ← match n with
      | .atom "none" => pure none
      | x => do pure (some (← toks[(← asNat? x)]?))
    pure (.rwith (← toks[(← asNat? t)]?) n)
  | .list [.atom "dup", t, b] => do pure (.dup (← toks[(← asNat? t)]?) (← asBool? b))
  | _ => none

/-- `(rules (cls v|none act)…)`, act = `remove` | `raise` | `(set (name txt compare)…)` | `(make <new request>)` -/
def decodeRule (classes : List ClassInfo) (toks : Array Nat) : Sexp → Option Rule
  | .list [cls, pv, act] => do
    let prop ← match pv with
      | .atom "none" => pure none
      | .list [n, t] => do pure (some ((← asStr? n), (← asStr? t)))
      | _ => none
    let act ← match act with
      | .atom "remove" => pure Act.remove
      | .atom "raise" => pure Act.raise
      | .list [.atom "set", .list props] => do pure (Act.set (← decodeProps props))
      | .list [.atom "make", req] => do
        match ← decodeOp classes toks req with
        | .new spec => pure (Act.make spec)
        | _ => none
      | _ => none
    pure { cls := ← asStr? cls, prop := prop, act := act }
  | _ => none

def decodeOpX (classes : List ClassInfo) (toks : Array Nat) : Sexp → Option LOpX
  | .list [.atom "tvisit", t, .list (.atom "rules" :: rs)] => do
    pure (.tvisit (← toks[(← asNat? t)]?) (← rs.mapM (decodeRule classes toks)))
  | .list [.atom "texec", t, .list (.atom "rules" :: rs)] => do
    pure (.texec (← toks[(← asNat? t)]?) (← rs.mapM (decodeRule classes toks)))
  | x => (decodeOp classes toks x).map .base

/-- discovery of new objects in the harness' order: the result first, then the closure of the
known objects under child links (scanning the growing table) -/
partial def discover (s : LState) (toks : Array Nat) (i : Nat) : Array Nat :=
  if h : i < toks.size then
    let toks' := (s.obj toks[i]).kidList.foldl (fun acc c => if acc.contains c then acc else acc.push c) toks
    discover s toks' (i + 1)
  else toks

/-- weak values: a registered object created by this operation that the harness cannot reach is
dead when the operation returns -/
def gcNew (s : LState) (n0 : Nat) (toks : Array Nat) : LState :=
  (List.range (s.size - n0)).foldl (fun s d =>
    let u := n0 + d
    if !toks.contains u && !s.detached u then s.unregister (s.idOf u) else s) s

def errName : Err → String
  | .dupChildren => "ASTNodeDuplicateChildrenError"
  | .idCollision => "ASTNodeIDCollisionError"
  | .parentCollision => "ASTNodeParentCollisionError"
  | .registryCollision => "ASTNodeRegistryCollisionError"
  | .replaceError => "ASTNodeReplaceError"
  | .replaceWithError => "ASTNodeReplaceWithError"
  | .transformError => "ASTTransformError"
  | .hang => "hang"
  | .internal => "Other-internal"
  | .badRequest => "bad-request"

def tokOf (toks : Array Nat) (u : Nat) : Sexp :=
  match toks.toList.idxOf? u with
  | some i => ofNat i
  | none => sym "?"

def outSexp (toks : Array Nat) : LOut → Sexp
  | .none => app "ok" [sym "none"]
  | .bool b => app "ok" [ofBool b]
  | .node u => app "ok" [tokOf toks u]
  | .raised .hang => app "hang" []
  | .raised e => app "raise" [sym (errName e)]

/-- first-occurrence numbering of strings -/
def number (tab : Array Str) (x : Str) : Array Str × Nat :=
  match tab.toList.idxOf? x with
  | some i => (tab, i)
  | none => (tab.push x, tab.size)

def numberOpt (tab : Array Str) : Option Str → Array Str × Sexp
  | none => (tab, sym "none")
  | some x => let (t, i) := number tab x; (t, ofNat i)

def optTok (toks : Array Nat) : Option Nat → Sexp
  | none => sym "none"
  | some u => tokOf toks u

def propTxt (o : LObj) (n : String) : Sexp :=
  match o.props.find? (·.name = n.toList) with
  | some p => ofStr p.txt
  | none => .str ""

def dump (s : LState) (toks : Array Nat) (ids cids : Array Str) : Array Str × Array Str × List Sexp :=
  let (ids, cids, rows, _) := toks.foldl (fun (acc : Array Str × Array Str × List Sexp × Nat) u =>
    let (ids, cids, rows, k) := acc
    let o := s.obj u
    let (ids, idn) := number ids o.id
    let (ids, oid) := numberOpt ids o.origId
    let (ids, cw) := numberOpt ids o.collWith
    let (cids, cn) := number cids o.cid
    let row := Sexp.list [
      ofNat k, ofBool (!s.detached u), optTok toks (s.parent u),
      (match o.pfield with | some f => ofStr f | none => sym "none"), ofOptNat o.pindex,
      ofNat idn, oid, cw, ofNat cn, optTok toks (s.lookup o.id),
      propTxt o "v", propTxt o "tag",
      .list (o.fields.map fun f => .list (ofStr f.name :: f.kids.map (tokOf toks)))]
    (ids, cids, row :: rows, k + 1)) (ids, cids, [], 0)
  (ids, cids, rows.reverse)

/-- the heap is a function: flatten the update closures of one operation into a table -/
def tabulate (s : LState) : LState :=
  let arr := Array.ofFn (n := s.size) fun i => s.heap i.val
  { s with heap := fun v => arr[v]?.getD default }

structure HState where
  s : LState := {}
  toks : Array Nat := #[]
  ids : Array Str := #[]
  cids : Array Str := #[]
  out : List Sexp := []

def runOp (classes : List ClassInfo) (h : HState) (req : Sexp) : Option HState := do
  let op ← decodeOpX classes h.toks req
  let n0 := h.s.size
  let (s1, out) := stepX Hd Hcd h.s op
  let toks1 := match out with
    | .node u => if h.toks.contains u then h.toks else h.toks.push u
    | _ => h.toks
  let toks2 := discover s1 toks1 0
  let s2 := gcNew s1 n0 toks2
  let (ids, cids, rows) := dump s2 toks2 h.ids h.cids
  pure { s := tabulate s2, toks := toks2, ids := ids, cids := cids,
         out := .list [outSexp toks2 out, .list rows] :: h.out }

end LegacyH

/-- `(legacy (lclasses …) (ops op…))` -/
def handleLegacy (args : List Sexp) : Option Sexp := do
  let classes ← ((field? args "lclasses").getD []).mapM LegacyH.decodeClass
  let ops ← field? args "ops"
  let h ← ops.foldlM (LegacyH.runOp classes) {}
  pure (app "ok" h.out.reverse)

end PyOak
