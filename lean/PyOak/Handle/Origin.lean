/-
Protocol handlers for the origin algebra (glue, not referenced by theorems).

  point  ::= (<index> <line> <column>)
  range  ::= (point point)
  raw    ::= none | other | (s "text")
  src    ::= (<key> "fqn" raw) | (set src…)
  pos    ::= nopos | entire | (xml "path") | (code range) | (set pos…)
  origin ::= none | (code <generated> src range) | (xml src "path") | (base src pos) | (multi origin…)

Answers: `(ok …)` or `(raise ValueError)`.  Origins are printed as
  NoOrigin | (CodeOrigin src range) | (GeneratedCodeOrigin src range) | (XMLFileOrigin src pos)
  | (Origin src pos) | (MultiOrigin src pos origin…)          with src printed as `(src key)` / `(set …)`.
-/
import PyOak.Model.Origin
import PyOak.Model.PySlice
namespace PyOak
open Sexp OriginAlg Gen

namespace OriginH

def decPointRaw : Sexp → Option (Int × Int × Int)
  | .list [i, l, c] => do pure (← asInt? i, ← asInt? l, ← asInt? c)
  | _ => none

/-- points / ranges are decoded *unchecked*: validity is what some commands ask about -/
def decPoint (s : Sexp) : Option CodePoint := do
  let (i, l, c) ← decPointRaw s
  pure { index := i, line := l, column := c }

def decRange : Sexp → Option CodeRange
  | .list [a, b] => do pure { start := ← decPoint a, end_ := ← decPoint b }
  | _ => none

def decRaw : Sexp → Option Raw
  | .atom "none" => some .none
  | .atom "other" => some .other
  | .list [.atom "s", t] => (asStr? t).map .text
  | _ => none

partial def decSrc : Sexp → Option SrcV
  | .list (.atom "set" :: ms) => (ms.mapM decSrc).map .set
  | .list [k, f, r] => do pure (.one { key := ← asNat? k, fqn := ← asStr? f, raw := ← decRaw r })
  | _ => none

partial def decPos : Sexp → Option PosV
  | .atom "nopos" => some .noPos
  | .atom "entire" => some .entire
  | .list [.atom "xml", p] => (asStr? p).map .xml
  | .list [.atom "code", r] => (decRange r).map .code
  | .list (.atom "set" :: ps) => (ps.mapM decPos).map .set
  | _ => none

partial def decOrigin : Sexp → Option Origin
  | .atom "none" => some .none
  | .list [.atom "code", g, s, r] => do pure (.code (← asBool? g) (← decSrc s) (← decRange r))
  | .list [.atom "xml", s, p] => do pure (.other .xml (← decSrc s) (.xml (← asStr? p)))
  | .list [.atom "base", s, p] => do pure (.other .base (← decSrc s) (← decPos p))
  | .list (.atom "multi" :: os) => do
      let os ← os.mapM decOrigin
      match mkMulti os with
      | .ok m => pure m
      | .error _ => none
  | _ => none

def encPoint (full : Bool) (p : CodePoint) : Sexp :=
  if full then .list [ofInt p.index, ofInt p.line, ofInt p.column] else ofInt p.index

def encRange (full : Bool) (r : CodeRange) : Sexp := .list [encPoint full r.start, encPoint full r.end_]

partial def encSrc : SrcV → Sexp
  | .one s => app "src" [ofNat s.key]
  | .set ms => app "set" (ms.map encSrc)

partial def encPos : PosV → Sexp
  | .noPos => sym "nopos"
  | .entire => sym "entire"
  | .xml p => app "xml" [ofStr p]
  | .code r => app "code" [encRange true r]
  | .set ps => app "set" (ps.map encPos)

partial def encOrigin : Origin → Sexp
  | .none => sym "NoOrigin"
  | .code g s r => app (if g then "GeneratedCodeOrigin" else "CodeOrigin") [encSrc s, encRange true r]
  | .other .xml s p => app "XMLFileOrigin" [encSrc s, encPos p]
  | .other .base s p => app "Origin" [encSrc s, encPos p]
  | .multi s p os => app "MultiOrigin" ([encSrc s, encPos p] ++ os.map encOrigin)

def raiseV : Sexp := app "raise" [sym "ValueError"]

def answer : Except Err Origin → Sexp
  | .error _ => raiseV
  | .ok o =>
    let raw := if o.isMulti then sym "multi" else
      match getRaw o with
      | some t => ofStr t
      | none => sym "none"
    app "ok" [encOrigin o, ofStr o.fqn, raw]

def fullFlag : Sexp → Option Bool
  | .atom "full" => some true
  | .atom "idx" => some false
  | _ => none

def encExceptRange (full : Bool) : Except Err CodeRange → Sexp
  | .ok r => encRange full r
  | .error _ => raiseV

end OriginH

open OriginH in
def handleOrigin (cmd : String) (args : List Sexp) : Option Sexp :=
  match cmd, args with
  | "o-point", [i, l, c] => do
      match mkPoint (← asInt? i) (← asInt? l) (← asInt? c) with
      | .ok _ => pure (app "ok" [])
      | .error _ => pure raiseV
  | "o-range", [a, b] => do
      let (ai, al, ac) ← decPointRaw a
      let (bi, bl, bc) ← decPointRaw b
      let r := do
        let p ← mkPoint ai al ac
        let q ← mkPoint bi bl bc
        mkRange p q
      match r with
      | .ok _ => pure (app "ok" [])
      | .error _ => pure raiseV
  | "o-gcr", [ai, al, ac, bi, bl, bc] => do
      -- get_code_range: the two CodePoint constructors run first, then CodeRange
      let ai ← asInt? ai; let al ← asInt? al; let ac ← asInt? ac
      let bi ← asInt? bi; let bl ← asInt? bl; let bc ← asInt? bc
      let r : Except Err CodeRange := do
        let _ ← mkPoint ai al ac
        let _ ← mkPoint bi bl bc
        let g := get_code_range ai al ac bi bl bc
        if g.valid then pure g else throw .valueError
      pure (match r with
        | .ok g => app "ok" [encRange true g]
        | .error _ => raiseV)
  | "o-rel", [f, a, b] => do
      let full ← fullFlag f
      let a ← decRange a
      let b ← decRange b
      pure (app "ok" [ofBool (a.overlaps b), ofBool (a.contains b), ofBool (a.lt b), ofBool (a.le b),
                       encExceptRange full (rangeAdd a b)])
  | "o-hull3", [f, a, b, c] => do
      let full ← fullFlag f
      let a ← decRange a
      let b ← decRange b
      let c ← decRange c
      pure (app "ok" [encExceptRange full (rangeAdd a b >>= fun ab => rangeAdd ab c),
                       encExceptRange full (rangeAdd b c >>= fun bc => rangeAdd a bc)])
  | "o-empty", [] => pure (app "ok" [encRange true EMPTY_CODE_RANGE])
  | "o-narrow", [] => pure (app "ok" [.str CodeOrigin.add_narrow])
  | "o-merge", os => do pure (answer (merge (← os.mapM decOrigin)))
  | "o-concat", o :: os => do pure (answer (concat (← decOrigin o) (← os.mapM decOrigin)))
  | "o-add", [a, b] => do pure (answer (add (← decOrigin a) (← decOrigin b)))
  | "o-mk", os => do pure (answer (mkMulti (← os.mapM decOrigin)))
  | "o-raw", [raw, r] => do
      let raw ← decRaw raw
      let r ← decRange r
      pure (app "ok" [match getRaw (.code false (.one { key := 1, fqn := [], raw := raw }) r) with
        | some t => ofStr t
        | none => sym "none"])
  | "o-pyslice", [t, lo, hi] => do
      -- Python `text[lo:hi]` for arbitrary ints (Model/PySlice.lean; = the `slice` of `getRaw` for 0 ≤ lo, 0 ≤ hi)
      let t ← asStr? t
      let lo ← asInt? lo
      let hi ← asInt? hi
      pure (app "ok" [ofStr (pySlice t lo hi)])
  | _, _ => none

end PyOak
