/- protocol handlers for the legacy walkers / legacy xpath / calculate_xpath models (glue) -/
import PyOak.Decode
import PyOak.Model.LegacyTraverse
import PyOak.Model.LegacyXPath
namespace PyOak
open Sexp

/-- all root-first chains of the tree, pre-order (`c` is the chain down to and including `n`) -/
partial def allChainsFrom (c : List (Node × Option Edge)) (n : Node) : List (List (Node × Option Edge)) :=
  c :: n.edges.flatMap fun (ch, e) => allChainsFrom (c ++ [(ch, some e)]) ch

def lelemSexp : LElem → Sexp
  | .anyw => sym "anywhere"
  | .el e => .list [ofStr e.cls, (match e.field with | some f => ofStr f | none => sym "none"),
                    ofOptNat e.idx, ofBool e.anywhere]

def uidPred (xs : List Sexp) : Node → Bool :=
  let us := xs.filterMap asNat?
  fun n => us.contains n.uid

def okNodes (ns : List Node) : Sexp := app "ok" (ns.map (ofNat ·.uid))

def handleLegacyC20 (cmd : String) (args : List Sexp) : Option Sexp := do
  let env := decodeEnv args
  match cmd with
  | "ldfs" | "lbfs" | "lgather" =>
    let t ← decodeTree env (← field1? args "tree")
    let prune := uidPred ((field? args "prune").getD [])
    let filt : Node → Bool := match field? args "filter" with
      | some ks => uidPred ks
      | none => fun _ => true
    let skip ← asBool? (← field1? args "skip_self")
    if cmd == "ldfs" then
      let bu ← asBool? (← field1? args "bottom_up")
      pure (okNodes (ldfsImpl prune filt bu skip t))
    else if cmd == "lbfs" then
      pure (okNodes (lbfsImpl prune filt skip t))
    else
      let classes := ((field? args "gclasses").getD []).filterMap asStr?
      let exact ← asBool? (← field1? args "exact")
      pure (okNodes (lgatherImpl classes exact filt prune skip t))
  | "lcalc" =>
    let t ← decodeTree env (← field1? args "tree")
    pure (app "ok" ((calcXpath t).map fun (n, s) => .list [ofNat n.uid, ofStr s]))
  | "lxpath" =>
    let text ← asStr? (← field1? args "text")
    let known : Str → Bool := fun c => env.classes.any (fun e => e.1 == c && e.2.contains awareName)
    match lparseXPath known text with
    | none => pure (app "raise" [sym "ASTXpathDefinitionError"])
    | some els =>
      match field1? args "tree" with
      | none => pure (app "ok" (els.map lelemSexp))
      | some ts =>
        let root ← decodeTree env ts
        let ms := (allChainsFrom [(root, none)] root).filterMap fun c =>
          match c.getLast? with
          | some (n, _) => some (.list [ofNat n.uid, ofBool (lxmatch els c.reverse)])
          | none => none
        pure (app "ok" ms)
  | _ => none

end PyOak
