/- protocol handlers for the traversal model (glue) -/
import PyOak.Decode
import PyOak.Model.Traverse
namespace PyOak
open Sexp

def itemKey (it : Item) : Sexp :=
  .list [ofNat it.node.uid, ofNat it.parent.uid, ofStr it.edge.field, ofOptNat it.edge.idx]

structure ItemK where
  u : Nat
  p : Nat
  f : Str
  i : Option Nat
  deriving DecidableEq

def decodeItemK : Sexp → Option ItemK
  | .list [u, p, f, i] => do pure ⟨← asNat? u, ← asNat? p, ← asStr? f, ← asOptNat? i⟩
  | _ => none

def Item.key (it : Item) : ItemK := ⟨it.node.uid, it.parent.uid, it.edge.field, it.edge.idx⟩

def predOf (ks : List ItemK) : Item → Bool := fun it => ks.contains it.key

def okItems (its : List Item) : Sexp := app "ok" (its.map itemKey)

def handleTraverse (cmd : String) (args : List Sexp) : Option Sexp := do
  let env := decodeEnv args
  let t ← decodeTree env (← field1? args "tree")
  let prune := ((field? args "prune").getD []).filterMap decodeItemK
  let filt := match field? args "filter" with
    | some ks => predOf (ks.filterMap decodeItemK)
    | none => fun _ => true
  match cmd with
  | "dfs" =>
    let bu ← asBool? (← field1? args "bottom_up")
    pure (okItems (dfsImpl (predOf prune) filt bu t))
  | "bfs" => pure (okItems (bfsImpl (predOf prune) filt t))
  | "gather" =>
    let classes := ((field? args "gclasses").getD []).filterMap asStr?
    let exact ← asBool? (← field1? args "exact")
    pure (app "ok" ((gatherImpl classes exact filt (predOf prune) t).map (ofNat ·.uid)))
  | "edges" =>
    let sorted ← asBool? (← field1? args "sorted")
    let es := if sorted then t.edgesSorted else t.edges
    pure (app "ok" (es.map fun (c, e) => .list [ofNat c.uid, ofStr e.field, ofOptNat e.idx]))
  | _ => none

end PyOak
