/-
Protocol handlers for the origin / source codec and the source registry (origin half of C04; glue, not
referenced by theorems).

  raw    ::= none | other | (s "text")
  src    ::= nosrc | (plain <text> "uri" "type" raw) | (memory "uri" raw) | (file <text> "rel" raw)
           | (zipped "rel" "zip" raw) | (set src…)                       <text> ::= true|false
  pos    ::= nopos | entire | (xml "path") | (code range) | (set pos…)   range ::= ((i l c) (i l c))
  origin ::= none | (code <generated> src range) | (xml src pos) | (base src pos)
           | (multi origin…)                 -- request: source / position derived as `__post_init__` does
           | (multi src pos origin…)         -- answer: the derived fields are printed
  reg    ::= (reg src…)                      -- registered instances in index order
  J      ::= null | (b true|false) | (i <int>) | (s "text") | (l J…) | (m ("key" J)…)

  (oc-enc <optimized> reg origin)   ⇒ (ok J)                  `origin.as_dict(serialization_options={SOURCE_OPTIMIZED: …})`
  (oc-dec reg J)                    ⇒ (ok reg origin)         `Origin.as_obj(J)` and the registry afterwards
  (oc-encsrc <optimized> reg src)   ⇒ (ok J)
  (oc-decsrc reg J)                 ⇒ (ok reg src)            `Source.as_obj(J)`
  (oc-encpos pos)                   ⇒ (ok J)
  (oc-decpos "DefaultClass" J)      ⇒ (ok pos)                `DefaultClass.as_obj(J)`
  (oc-all reg)                      ⇒ (ok J…)                 `Source.all_as_dict()`
  (oc-load reg J…)                  ⇒ (ok reg)                `Source.load_serialized_sources([J…])`
  (oc-mk reg origin…)               ⇒ (ok reg origin)         `MultiOrigin(origins=[…])` and the registry afterwards
  any failure                       ⇒ (raise value|missing|key|unmodelled)
-/
import PyOak.Model.OriginCodec
import PyOak.Handle.Origin
namespace PyOak
open Sexp OriginAlg Gen OC

namespace OriginCodecH

partial def decJ : Sexp → Option J
  | .atom "null" => some .null
  | .list [.atom "b", x] => (asBool? x).map .bool
  | .list [.atom "i", x] => (asInt? x).map .int
  | .list [.atom "s", x] => (asStr? x).map .str
  | .list (.atom "l" :: xs) => (xs.mapM decJ).map .list
  | .list (.atom "m" :: kvs) =>
      (kvs.mapM (fun (kv : Sexp) => match kv with
        | Sexp.list [k, v] => do pure (← asStr? k, ← decJ v)
        | _ => none)).map J.map
  | _ => none

partial def encJ : J → Sexp
  | .null => sym "null"
  | .bool b => app "b" [ofBool b]
  | .int i => app "i" [ofInt i]
  | .str s => app "s" [ofStr s]
  | .list xs => app "l" (xs.map encJ)
  | .map kvs => app "m" (kvs.map fun (k, v) => .list [ofStr k, encJ v])

partial def decSrc : Sexp → Option Source
  | .atom "nosrc" => some .noSource
  | .list [.atom "plain", t, u, ty, r] => do
      pure (.plain (← asBool? t) (← asStr? u) (← asStr? ty) (← OriginH.decRaw r))
  | .list [.atom "memory", u, r] => do pure (.memory (← asStr? u) (← OriginH.decRaw r))
  | .list [.atom "file", t, p, r] => do pure (.file (← asBool? t) (← asStr? p) (← OriginH.decRaw r))
  | .list [.atom "zipped", p, z, r] => do pure (.zipped (← asStr? p) (← asStr? z) (← OriginH.decRaw r))
  | .list (.atom "set" :: ms) => (ms.mapM decSrc).map .set
  | _ => none

def encRaw : Raw → Sexp
  | .none => sym "none"
  | .other => sym "other"
  | .text t => app "s" [ofStr t]

partial def encSrc : Source → Sexp
  | .noSource => sym "nosrc"
  | .plain t u ty r => app "plain" [ofBool t, ofStr u, ofStr ty, encRaw r]
  | .memory u r => app "memory" [ofStr u, encRaw r]
  | .file t p r => app "file" [ofBool t, ofStr p, encRaw r]
  | .zipped p z r => app "zipped" [ofStr p, ofStr z, encRaw r]
  | .set ms => app "set" (ms.map encSrc)

def decReg : Sexp → Option SrcReg
  | .list (.atom "reg" :: ss) => ss.mapM decSrc
  | _ => none

def encReg (reg : SrcReg) : Sexp := app "reg" (reg.map encSrc)

partial def decOrg : Sexp → Option Org
  | .atom "none" => some .none
  | .list [.atom "code", g, s, r] => do pure (.code (← asBool? g) (← decSrc s) (← OriginH.decRange r))
  | .list [.atom "xml", s, p] => do pure (.other .xml (← decSrc s) (← OriginH.decPos p))
  | .list [.atom "base", s, p] => do pure (.other .base (← decSrc s) (← OriginH.decPos p))
  | .list (.atom "multi" :: os) => do
      let os ← os.mapM decOrg
      if os.length < 2 then none
      else pure (.multi (deriveSrc (os.map Org.source)) (.set (os.map Org.position)) os)
  | _ => none

partial def encOrg : Org → Sexp
  | .none => sym "none"
  | .code g s r => app "code" [ofBool g, encSrc s, OriginH.encRange true r]
  | .other .xml s p => app "xml" [encSrc s, OriginH.encPos p]
  | .other .base s p => app "base" [encSrc s, OriginH.encPos p]
  | .multi s p os => app "multi" ([encSrc s, OriginH.encPos p] ++ os.map encOrg)

def encErr : OC.Err → Sexp
  | .value => app "raise" [sym "value"]
  | .missing => app "raise" [sym "missing"]
  | .key => app "raise" [sym "key"]
  | .unmodelled => app "raise" [sym "unmodelled"]

def answer {α : Type} (f : α → List Sexp) : Except OC.Err α → Sexp
  | .ok a => app "ok" (f a)
  | .error e => encErr e

end OriginCodecH

open OriginCodecH in
def handleOriginCodec (cmd : String) (args : List Sexp) : Option Sexp :=
  match cmd, args with
  | "oc-enc", [opt, reg, o] => do
      pure (answer (fun j => [encJ j]) (encOrigin (← asBool? opt) (← decReg reg) (← decOrg o)))
  | "oc-dec", [reg, j] => do
      pure (answer (fun (r, o) => [encReg r, encOrg o]) (decOrigin (← decReg reg) (← decJ j)))
  | "oc-encsrc", [opt, reg, s] => do
      pure (answer (fun j => [encJ j]) (encSource (← asBool? opt) (← decReg reg) (← decSrc s)))
  | "oc-decsrc", [reg, j] => do
      pure (answer (fun (r, s) => [encReg r, encSrc s]) (decSource (← decReg reg) (← decJ j)))
  | "oc-encpos", [p] => do pure (app "ok" [encJ (encPosition (← OriginH.decPos p))])
  | "oc-decpos", [d, j] => do
      pure (answer (fun p => [OriginH.encPos p]) (decPosition (← asStr? d) (← decJ j)))
  | "oc-all", [reg] => do pure (app "ok" ((allAsDict (← decReg reg)).map encJ))
  | "oc-load", reg :: js => do
      pure (answer (fun r => [encReg r]) (loadSerializedSources (← decReg reg) (← js.mapM decJ)))
  | "oc-mk", reg :: os => do
      pure (answer (fun (r, o) => [encReg r, encOrg o]) (mkMultiC (← decReg reg) (← os.mapM decOrg)))
  | _, _ => none

end PyOak
