/- protocol handler for the serialization-options model, property C16 (glue)

  request  ::= (c16 (objs sobj…) (calls call…))
  call     ::= (call kind opts md input)
  kind     ::= as_dict | to_json | to_msgpck | to_yaml | as_obj | from_json | from_msgpck | from_yaml
  opts     ::= none | (o skip sort src ast)         skip/sort/src ::= none|true|false  ast ::= none|explorer|test
  md       ::= none | orjson | msgpack | custom
  input    ::= (ser <index into objs>) | (deser dj) | (unparsable)
  sobj     ::= (e) | (o kind "Cls" idx (f ("name" sval)…) (c "child"…))
  sval     ::= (a scalar scalar) | (q sval…) | sobj | (bomb)
  scalar   ::= (s "text") | (l "text")
  dj       ::= p | (i true|false) | bad | (n probe dj…)
  answer   ::= (res (wf true|false) (outcome state)…)      wf: side conditions of the theorems hold of all objs
  outcome  ::= (ok J) | (seen state…) | (raise)      state ::= (g opts md)
  J        ::= (s "text") | (l "text") | (a J…) | (m ("key" J)…)
`to_yaml` output is compared modulo key order (PyYAML sorts keys itself): both sides sort.
-/
import PyOak.Decode
import PyOak.Model.SerOpts
namespace PyOak
namespace SerOpts
open Sexp

def decOB : Sexp → Option (Option Bool)
  | .atom "none" => some none
  | x => (asBool? x).map some

def decAst : Sexp → Option (Option AstDialect)
  | .atom "none" => some none
  | .atom "explorer" => some (some .explorer)
  | .atom "test" => some (some .test)
  | _ => none

def decOpts : Sexp → Option (Option Opts)
  | .atom "none" => some none
  | .list [.atom "o", a, b, c, d] => do
      pure (some { skip := ← decOB a, sort := ← decOB b, src := ← decOB c, ast := ← decAst d })
  | _ => none

def decMd : Sexp → Option (Option MD)
  | .atom "none" => some none
  | .atom "orjson" => some (some .orjson)
  | .atom "msgpack" => some (some .msgpack)
  | .atom "custom" => some (some .custom)
  | _ => none

def decKind : Sexp → Option CallKind
  | .atom "as_dict" => some .asDict
  | .atom "to_json" => some .toJson
  | .atom "to_msgpck" => some .toMsgpck
  | .atom "to_yaml" => some .toYaml
  | .atom "as_obj" => some .asObj
  | .atom "from_json" => some .fromJson
  | .atom "from_msgpck" => some .fromMsgpck
  | .atom "from_yaml" => some .fromYaml
  | _ => none

def decOKind : Sexp → Option Kind
  | .atom "node" => some .node
  | .atom "origin" => some .origin
  | .atom "source" => some .source
  | .atom "position" => some .position
  | .atom "point" => some .point
  | .atom "other" => some .other
  | _ => none

def decScalar : Sexp → Option Scalar
  | .list [.atom "s", x] => (asStr? x).map .str
  | .list [.atom "l", x] => (asStr? x).map .lit
  | _ => none

mutual
partial def decSVal : Sexp → Option SVal
  | .list [.atom "a", d, c] => do pure (.atom (← decScalar d) (← decScalar c))
  | .list (.atom "q" :: xs) => (xs.mapM decSVal).map .seq
  | .list [.atom "bomb"] => some .bomb
  | x => (decSObj x).map .obj
partial def decSObj : Sexp → Option SObj
  | .list [.atom "e"] => some .empty
  | .list [.atom "o", k, c, i, .list (.atom "f" :: fs), .list (.atom "c" :: cn)] => do
      let fs ← fs.mapM fun
        | .list [n, v] => do pure (SField.mk (← asStr? n) (← decSVal v))
        | _ => none
      pure (.mk (← decOKind k) (← asStr? c) (← asNat? i) fs (cn.filterMap asStr?))
  | _ => none
end

partial def decDJ : Sexp → Option DJ
  | .atom "p" => some .plain
  | .atom "bad" => some .bad
  | .list [.atom "i", b] => (asBool? b).map .int
  | .list (.atom "n" :: p :: xs) => do pure (.node (← asBool? p) (← xs.mapM decDJ))
  | _ => none

def decInput (objs : List SObj) : Sexp → Option Input
  | .list [.atom "ser", i] => do
      let i ← asNat? i
      (objs[i]?).map .ser
  | .list [.atom "deser", d] => (decDJ d).map .deser
  | .list [.atom "unparsable"] => some .unparsable
  | _ => none

def decCall (objs : List SObj) : Sexp → Option Call
  | .list [.atom "call", k, o, m, i] => do
      pure { kind := ← decKind k, opts := ← decOpts o, md := ← decMd m, input := ← decInput objs i }
  | _ => none

def encOB : Option Bool → Sexp
  | none => sym "none"
  | some b => ofBool b

def encOpts (o : Opts) : Sexp :=
  app "o" [encOB o.skip, encOB o.sort, encOB o.src,
    match o.ast with | none => sym "none" | some .explorer => sym "explorer" | some .test => sym "test"]

def encG (g : G) : Sexp :=
  app "g" [encOpts g.opts,
    match g.md with | none => sym "none" | some .orjson => sym "orjson" | some .msgpack => sym "msgpack"
                    | some .custom => sym "custom"]

mutual
partial def encJ : J → Sexp
  | .str s => app "s" [ofStr s]
  | .lit s => app "l" [ofStr s]
  | .arr xs => app "a" (xs.map encJ)
  | .map fs => app "m" (fs.map fun f => .list [ofStr f.key, encJ f.val])
end

/-- recursive key sorting (what `yaml.dump` does on its own) -/
partial def sortAll : J → J
  | .arr xs => .arr (xs.map sortAll)
  | .map fs => .map (sortKeys (fs.map fun f => .mk f.key (sortAll f.val)))
  | x => x

def dedupG : List G → List G
  | [] => []
  | g :: r => if r.contains g then dedupG r else g :: dedupG r

def encOut (k : CallKind) : Except Unit Out → Sexp
  | .error _ => app "raise" []
  | .ok (.j j) => app "ok" [encJ (if k = .toYaml then sortAll j else j)]
  | .ok (.seen l) => app "seen" ((dedupG l).map encG)

def handleC16 (args : List Sexp) : Option Sexp := do
  let objs ← ((field? args "objs").getD []).mapM decSObj
  let calls ← ((field? args "calls").getD []).mapM (decCall objs)
  let (outs, _) := runSeq {} calls
  pure (app "res" (app "wf" [ofBool (objs.all wellFormed)] ::
    (calls.zip outs).map fun (c, (o, g)) => .list [encOut c.kind o, encG g]))

end SerOpts
end PyOak
