/- protocol handlers for Tree and XPath models (glue) -/
import PyOak.Decode
import PyOak.Model.XPath
namespace PyOak
open Sexp

def errSexp : TErr → Sexp
  | .keyError => app "raise" [sym "KeyError"]
  | .valueError => app "raise" [sym "ValueError"]

def exc {α : Type} (f : α → Sexp) : Except TErr α → Sexp
  | .ok a => app "ok" [f a]
  | .error e => errSexp e

def optNode : Option Node → Sexp
  | some n => ofNat n.uid
  | none => sym "none"

def elemSexp (e : XElem) : Sexp :=
  .list [ofStr e.cls, (match e.field with | some f => ofStr f | none => sym "none"), ofOptNat e.idx, ofBool e.anywhere]

/-- find a node (first occurrence, pre-order) by uid in a decoded tree -/
def findUid (root : Node) (u : Nat) : Option Node :=
  if root.uid == u then some root
  else ((dfsImpl (fun _ => false) (fun _ => true) false root).find? (·.node.uid == u)).map (·.node)

/-- `(tree-queries env (tree t) (foreign node…) (q …)…)` : one answer per query -/
def handleTreeQ (args : List Sexp) : Option Sexp := do
  let env := decodeEnv args
  let root ← decodeTree env (← field1? args "tree")
  let foreign := ((field? args "foreign").getD []).filterMap (decodeTree env)
  let t := TreeT.build root
  let look (u : Nat) : Option Node :=
    match findUid root u with
    | some n => some n
    | none => foreign.find? (·.uid == u)
  let qs := (field? args "queries").getD []
  let answers ← qs.mapM fun q => match q with
    | .list [.atom "in", u] => do
        let n ← look (← asNat? u); pure (app "ok" [ofBool (t.isInTree n)])
    | .list [.atom "root", u] => do
        let n ← look (← asNat? u); pure (app "ok" [ofBool (t.isRoot n)])
    | .list [.atom "parent", u] => do
        let n ← look (← asNat? u); pure (exc optNode (t.getParent n))
    | .list [.atom "pinfo", u] => do
        let n ← look (← asNat? u)
        pure (exc (fun (p : Option PInfo) => match p with
          | some p => .list [ofNat p.parent.uid, ofStr p.edge.field, ofOptNat p.edge.idx]
          | none => .list [sym "none", sym "none", sym "none"]) (t.getParentInfo n))
    | .list [.atom "anc", u] => do
        let n ← look (← asNat? u)
        pure (exc (fun (l : List Node) => .list (l.map (ofNat ·.uid))) (t.getAncestors n))
    | .list [.atom "isanc", u, a] => do
        let n ← look (← asNat? u); let a ← look (← asNat? a)
        pure (exc ofBool (t.isAncestor n a))
    | .list [.atom "depth", u, rel, chk] => do
        let n ← look (← asNat? u)
        let rel ← match rel with
          | .atom "none" => pure none
          | r => do let x ← look (← asNat? r); pure (some x)
        pure (exc ofNat (t.getDepth n rel (← asBool? chk)))
    | .list (.atom "fanc" :: u :: ex :: cls) => do
        let n ← look (← asNat? u)
        pure (exc optNode (t.firstAncestorOfType n (cls.filterMap asStr?) (← asBool? ex)))
    | .list [.atom "xpath", u] => do
        let n ← look (← asNat? u); pure (exc ofStr (t.getXpath n))
    | _ => none
  pure (.list answers)

/-- `(xpath env (text "…") (tree t))` : parse, findall, match for every node -/
def handleXPath (args : List Sexp) : Option Sexp := do
  let env := decodeEnv args
  let text ← asStr? (← field1? args "text")
  let known : Str → Bool := fun c => env.classes.any (fun e => e.1 == c && e.2.contains astNodeName)
  match parseXPath known text with
  | none => pure (app "raise" [sym "ASTXpathDefinitionError"])
  | some elsRev =>
    match field1? args "tree" with
    | none => pure (app "ok" [.list (elsRev.map elemSexp)])
    | some ts => do
      let root ← decodeTree env ts
      let els := elsRev.reverse
      let found := findall els root
      let nodes := root :: (dfsImpl (fun _ => false) (fun _ => true) false root).map (·.node)
      -- `xmatch` with the Tree built once for all nodes (same definitions: isInTree, matchUpT)
      let t := TreeT.build root
      let ms := nodes.map fun n =>
        if !t.isInTree n then .list [ofNat n.uid, sym "raise"]
        else match matchUpT t (root.size + 1) n elsRev with
          | .ok b => .list [ofNat n.uid, ofBool b]
          | .error _ => .list [ofNat n.uid, sym "raise"]
      pure (app "ok" [.list (elsRev.map elemSexp), .list (found.map (ofNat ·.uid)),
                      (match found with | n :: _ => ofNat n.uid | [] => sym "none"), .list ms])

end PyOak
