/- protocol handlers for the visitor model (glue)

  (transform env (tree node) (extra node…) (strict b) (ctr N)
             (rules ("Cls" act (uid act)…)…))
      act ::= generic | keep | remove | raise | (rewrite prop) | (replace uid)
    → (ok none) | (ok out) | (raise)
      | (precondition-failed)   -- not wf / counter not fresh / some node's class is not the head of its MRO
      | (rw-mismatch)           -- model ≠ independent rewrite `Rw` up to identities (excluded by C09.transform_strip)
      out ::= (old uid) | (new k "Cls" orgkey (p ("name" "type" "text")…) (k ("name" coll out…)…)) | (newref k)
      (new objects are numbered by first occurrence, pre-order)

  (dispatch (strict b) (names "Cls"…) (mro "Cls"… "object") (cls "Cls"))
    → (ok "Cls") | (ok generic)
      | (precondition-failed)   -- cls is not the head of mro (hypothesis of C09.dispatch_own)
      | (own-mismatch)          -- lookup ≠ decision table `ownMethod` (excluded by C09.dispatch_own)
-/
import PyOak.Decode
import PyOak.Model.Visitor
import PyOak.Spec.Visitor
import PyOak.Spec.Rewrite
import PyOak.Spec.Dispatch
namespace PyOak
open Sexp

def decodeAct (tbl : List (Nat × Node)) : Sexp → Option Act
  | .atom "generic" => some .generic
  | .atom "keep" => some .keep
  | .atom "remove" => some .remove
  | .atom "raise" => some .raise
  | .list [.atom "rewrite", p] => (decodeProp p).map .rewriteProp
  | .list [.atom "replace", u] => do
      let u ← asNat? u
      let (_, n) ← tbl.find? (·.1 == u)
      pure (.replaceBy n)
  | _ => none

def decodeRule (tbl : List (Nat × Node)) : Sexp → Option (Str × Rule)
  | .list (c :: d :: per) => do
      let c ← asStr? c
      let d ← decodeAct tbl d
      let per ← per.mapM fun
        | .list [u, a] => do pure (← asNat? u, ← decodeAct tbl a)
        | _ => none
      pure (c, { dflt := d, per := per })
  | _ => none

partial def canonOut (ctr : Nat) (n : Node) : StateM (List Nat) Sexp := do
  if n.uid < ctr then
    pure (app "old" [ofNat n.uid])
  else
    let seen ← get
    match seen.idxOf? n.uid with
    | some i => pure (app "newref" [ofNat i])
    | none =>
      let k := seen.length
      set (seen ++ [n.uid])
      let ks ← n.kids.mapM fun kd => do
        let xs ← kd.nodes.mapM (canonOut ctr)
        pure (Sexp.list (ofStr kd.name :: ofBool kd.coll :: xs))
      pure (app "new" [ofNat k, ofStr n.cls, ofNat n.org.key,
        app "p" (n.hd.props.map fun p => .list [ofStr p.name, ofStr p.ty, ofStr p.txt]),
        app "k" ks])

/-- a tree value without identities (every node printed structurally) -/
partial def structOut (n : Node) : Sexp :=
  app "n" [ofStr n.cls, ofNat n.org.key,
    app "p" (n.hd.props.map fun p => .list [ofStr p.name, ofStr p.ty, ofStr p.txt]),
    app "k" (n.kids.map fun kd => Sexp.list (ofStr kd.name :: ofBool kd.coll :: kd.nodes.map structOut))]

/-- the outcome of a transformation up to identities: used to compare the model with the independent
rewrite specification `Rw` (Spec/Rewrite.lean) on every input (`Props/C09Rw.lean` proves they agree) -/
def structRes : Except Err (Option Node) → Sexp
  | .error .raised => app "raise" []
  | .error .fuel => app "fuel" []
  | .ok none => app "ok" [sym "none"]
  | .ok (some n) => app "ok" [structOut n]

def handleTransform (args : List Sexp) : Option Sexp := do
  let env := decodeEnv args
  let ts ← field1? args "tree"
  let extras := (field? args "extra").getD []
  let dec : DecM Node := do
    let t ← decodeNode env ts
    let _ ← extras.mapM (decodeNode env)
    pure t
  let (root, tbl) ← dec.run []
  let strict ← asBool? (← field1? args "strict")
  let ctr ← asNat? (← field1? args "ctr")
  let rules ← ((field? args "rules").getD []).mapM (decodeRule tbl)
  let v : Visitor := { strict := strict, rules := rules }
  -- the hypotheses of the theorems of Props/C09 are checked on every input
  if !(wf root && uidsLt ctr root && ownMroTree root) then pure (app "precondition-failed" []) else
  -- the independent specification must agree with the model up to identities
  if (structRes ((transform v root ctr).map (·.1))).render != (structRes (Rw v.action root)).render then
    pure (app "rw-mismatch" []) else
  match transform v root ctr with
  | .error .raised => pure (app "raise" [])
  | .error .fuel => pure (app "fuel" [])
  | .ok (none, _) => pure (app "ok" [sym "none"])
  | .ok (some n, _) => pure (app "ok" [(canonOut ctr n).run' []])

def handleDispatch (args : List Sexp) : Option Sexp := do
  let strict ← asBool? (← field1? args "strict")
  let names := ((field? args "names").getD []).filterMap asStr?
  let mro := ((field? args "mro").getD []).filterMap asStr?
  let cls ← asStr? (← field1? args "cls")
  let marker (nm : Str) : PropV := { name := nm, ty := [], txt := [], canon := .none, compare := true, init := true }
  let v : Visitor := { strict := strict, rules := names.map fun nm => (nm, { dflt := .rewriteProp (marker nm) }) }
  let h : Head := { uid := 0, cls := cls, mro := mro, org := default, props := [], truthy := true }
  -- the hypothesis of `C09.dispatch_own`, and its decision table next to the model's lookup
  if !h.ownMro then pure (app "precondition-failed" []) else
  if (v.method h).isSome != (ownMethod strict v.getattr cls h.bases).isSome then
    pure (app "own-mismatch" []) else
  match v.action h with
  | .rewriteProp p => pure (app "ok" [ofStr p.name])
  | _ => pure (app "ok" [sym "generic"])

end PyOak
