/-
protocol handlers for the runtime type checker model (glue)

  value ::= (b true|false) | (i <int>) | (f "token" none|<int>) | (s "text") | (by <nat>…) | none
          | (e "Cls" "member") | (o <uid> "Cls" "Base"…) | (t value…) | (l value…) | (fs value…)
          | (d (value value)…)
  ty    ::= int | float | str | bool | bytes | any | none | tuple | frozenset | sequence | mapping
          | (lit litv…) | (cls "Name") | (nt "Name" ty) | (u ty…) | (tf ty…) | (tv ty) | (fset ty)
          | (seq ty) | (map ty ty)
  litv  ::= (i <int>) | (b true|false) | (s "text") | none | (e "Cls" "member")

  (isinst value ty)                          -> (ok true|false) | (dontcare)
  (construct <gate> (fields ("name" ty value)…)) -> (ok) | (raise InvalidTypes "name"…) | (dontcare)
-/
import PyOak.Decode
import PyOak.Spec.Conforms
namespace PyOak
open Sexp RT

partial def decodePyVal : Sexp → Option PyVal
  | .atom "none" => some .none
  | .list [.atom "b", x] => (asBool? x).map .bool
  | .list [.atom "i", x] => (asInt? x).map .int
  | .list [.atom "f", tok, .atom "none"] => do pure (.float (← asStr? tok) Option.none)
  | .list [.atom "f", tok, n] => do pure (.float (← asStr? tok) (some (← asInt? n)))
  | .list [.atom "s", x] => (asStr? x).map .str
  | .list (.atom "by" :: xs) => (xs.mapM asNat?).map .bytes
  | .list [.atom "e", c, m] => do pure (.enum (← asStr? c) (← asStr? m))
  | .list (.atom "o" :: u :: mro) => do pure (.obj (← asNat? u) (← mro.mapM asStr?))
  | .list (.atom "t" :: xs) => (xs.mapM decodePyVal).map .tuple
  | .list (.atom "l" :: xs) => (xs.mapM decodePyVal).map .list
  | .list (.atom "fs" :: xs) => (xs.mapM decodePyVal).map .fset
  | .list (.atom "d" :: kvs) =>
      (kvs.mapM fun (kv : Sexp) => match kv with
        | .list [k, v] => do pure (← decodePyVal k, ← decodePyVal v)
        | _ => Option.none).map .dict
  | _ => Option.none

def decodeLit : Sexp → Option Lit
  | .atom "none" => some .none
  | .list [.atom "i", x] => (asInt? x).map .int
  | .list [.atom "b", x] => (asBool? x).map .bool
  | .list [.atom "s", x] => (asStr? x).map .str
  | .list [.atom "e", c, m] => do pure (.enum (← asStr? c) (← asStr? m))
  | _ => Option.none

partial def decodeTy : Sexp → Option Ty
  | .atom "int" => some .int
  | .atom "float" => some .float
  | .atom "str" => some .str
  | .atom "bool" => some .bool
  | .atom "bytes" => some .bytes
  | .atom "any" => some .any
  | .atom "none" => some .none
  | .atom "tuple" => some .tupleAny
  | .atom "frozenset" => some .fsetAny
  | .atom "sequence" => some .seqAny
  | .atom "mapping" => some .mapAny
  | .list (.atom "lit" :: ms) => (ms.mapM decodeLit).map .lit
  | .list [.atom "cls", c] => (asStr? c).map .cls
  | .list [.atom "nt", n, t] => do pure (.newtype (← asStr? n) (← decodeTy t))
  | .list (.atom "u" :: ts) => (ts.mapM decodeTy).map .union
  | .list (.atom "tf" :: ts) => (ts.mapM decodeTy).map .tupleFix
  | .list [.atom "tv", t] => (decodeTy t).map .tupleVar
  | .list [.atom "fset", t] => (decodeTy t).map .fset
  | .list [.atom "seq", t] => (decodeTy t).map .seq
  | .list [.atom "map", k, v] => do pure (.map (← decodeTy k) (← decodeTy v))
  | _ => Option.none

def decodeFieldV : Sexp → Option FieldV
  | .list [n, t, v] => do pure { name := ← asStr? n, ty := ← decodeTy t, val := ← decodePyVal v }
  | _ => Option.none

def handleIsInst (args : List Sexp) : Option Sexp :=
  match args with
  | [v, t] => do
    let v ← decodePyVal v
    let t ← decodeTy t
    if dontCare v t then pure (app "dontcare" [])
    else pure (app "ok" [ofBool (isInstance v t)])
  | _ => Option.none

def handleConstruct (args : List Sexp) : Option Sexp :=
  match args with
  | [g, .list (.atom "fields" :: fs)] => do
    let g ← asBool? g
    let fs ← fs.mapM decodeFieldV
    if g && fs.any (fun f => f.checked && dontCare f.val (unwrapNewtype f.ty)) then pure (app "dontcare" [])
    else
      match construct g fs with
      | .ok _ => pure (app "ok" [])
      | .error bad => pure (app "raise" (sym "InvalidTypes" :: (sortByName id bad).map ofStr))
  | _ => Option.none

end PyOak
