/- protocol handlers for the pattern-matching model (glue): request decoding, the concrete
instances of the semantic parameters (`re` sub-language, content equality through the digest
model, `==` on property values), answer encoding. -/
import PyOak.Decode
import PyOak.Model.PatternParse
import PyOak.Model.PatternMulti
import PyOak.Handle.Encode
import PyOak.Handle.XPath
namespace PyOak
open Sexp
namespace PM

/-! ### the regex sub-language the correspondence uses
literals, `.`, `\d`, `\<punctuation>`, a trailing `*` on any of those, `$` -/

inductive RAtom where
  | lit (c : Char) | dot | digit | eol
  deriving Repr

def rxSpecial (c : Char) : Bool := "^*+?{}[]|()".toList.contains c

def parseRx : Nat → Str → Option (List (RAtom × Bool))
  | 0, _ => none
  | _, [] => some []
  | fuel + 1, c :: r =>
    let atomr : Option (RAtom × Str) :=
      if c == '\\' then
        match r with
        | d :: r' => if d == 'd' then some (.digit, r')
                     else if d.isAlphanum then none else some (.lit d, r')
        | [] => none
      else if c == '.' then some (.dot, r)
      else if c == '$' then some (.eol, r)
      else if rxSpecial c then none
      else some (.lit c, r)
    match atomr with
    | none => none
    | some (a, r1) =>
      match r1 with
      | '*' :: r2 =>
        (match a with
         | .eol => none
         | _ => (parseRx fuel r2).map ((a, true) :: ·))
      | _ => (parseRx fuel r1).map ((a, false) :: ·)

def atomOk : RAtom → Char → Bool
  | .lit c, d => c == d
  | .dot, d => d != '\n'
  | .digit, d => d.isDigit
  | .eol, _ => false

partial def rxHere : List (RAtom × Bool) → Str → Bool
  | [], _ => true
  | (.eol, _) :: rest, t => (t.isEmpty || t == ['\n']) && rxHere rest t
  | (a, true) :: rest, t =>
    rxHere rest t || (match t with
      | d :: t' => atomOk a d && rxHere ((a, true) :: rest) t'
      | [] => false)
  | (a, false) :: rest, t =>
    match t with
    | d :: t' => atomOk a d && rxHere rest t'
    | [] => false

/-- `re.compile(p).match(t) is not None` for `p` in the sub-language (false outside it) -/
def rxMatch (p t : Str) : Bool :=
  match parseRx (p.length + 1) p with
  | none => false
  | some items => rxHere items t

/-! ### `==` on property values -/

mutual
partial def valPyEq : Val → Val → Bool
  | .int i, .int j => i == j
  | .bool a, .bool b => a == b
  | .int i, .bool b => i == (if b then 1 else 0)
  | .bool b, .int i => i == (if b then 1 else 0)
  | .none, .none => true
  | .str a, .str b => a == b
  | .enum c m, .enum d n => c == d && m == n
  | .opaque t s, .opaque u r => t == u && s == r
  | .tuple xs, .tuple ys => valsPyEq xs ys
  | .fset xs, .fset ys => xs.all (fun x => ys.any (valPyEq x)) && ys.all (fun y => xs.any (valPyEq y))
  | _, _ => false
partial def valsPyEq : List Val → List Val → Bool
  | [], [] => true
  | x :: xs, y :: ys => valPyEq x y && valsPyEq xs ys
  | _, _ => false
end

def cidEqNodes (a b : Node) : Bool :=
  let (ca, cb) := (do let x ← cidI a; let y ← cidI b; pure (x, y) : StateM (List Str) (Str × Str)).run' []
  ca == cb

def theSem : Sem where
  rx := rxMatch
  ceq := fun a b => a.cls == b.cls && cidEqNodes a b
  neq := fun a b => match eqCore (cidEqNodes a b) a b with
    | .ok v => v
    | .error _ => false
  aeq := valPyEq

/-! ### encoding of answers -/

partial def valSexp : Val → Sexp
  | .int i => .list [sym "i", ofInt i]
  | .bool b => .list [sym "b", ofBool b]
  | .none => sym "none"
  | .str s => .list [sym "s", ofStr s]
  | .enum c m => .list [sym "e", ofStr c, ofStr m]
  | .opaque t s => .list [sym "o", ofStr t, ofStr s]
  | .tuple xs => .list (sym "t" :: xs.map valSexp)
  | .fset xs => .list (sym "fs" :: xs.map valSexp)

partial def objSexp : MVal → Sexp
  | .node n => .list [sym "n", ofNat n.uid]
  | .tup xs => .list (sym "t" :: xs.map objSexp)
  | .atom _ v => .list [sym "v", valSexp v]
  | .none => sym "none"

/-- the capture dict as a name-sorted list (shadowed entries dropped) -/
def capsSexp (c : Ctx) : Sexp :=
  let dedup := c.foldl (fun acc e => if acc.any (·.1 == e.1) then acc else acc ++ [e]) ([] : Ctx)
  let sorted := sortBy (fun a b => strLt a.1 b.1) dedup
  .list (sorted.map fun e => .list [ofStr e.1, objSexp e.2])

def resSexp : Res → Sexp
  | .error _ => app "raise" [sym "ASTPatternDefinitionError"]
  | .ok (b, c) => app "ok" [ofBool b, capsSexp c]

def strList (args : List Sexp) (key : String) : List Str :=
  ((field? args key).getD []).filterMap asStr?

def envOf (args : List Sexp) : Env × CEnv :=
  let env := decodeEnv args
  let nonnode := strList args "nonnode"
  let bad := strList args "rxbad"
  (env, { cls := fun c =>
            if env.classes.any (fun e => e.1 == c && e.2.contains astNodeName) then .node
            else if nonnode.contains c then .notNode else .unknown,
          rxOk := fun s => !bad.contains s })

def defErr : Sexp := app "raise" [sym "ASTPatternDefinitionError"]

/-- `(pmatch env (tree t) (text "…") (node uid))`: `NodeMatcher.from_pattern(text)[0].match(node)` -/
def handlePMatch (args : List Sexp) : Option Sexp := do
  let (env, K) := envOf args
  let text ← asStr? (← field1? args "text")
  match compilePattern K text with
  | .error _ => pure defErr
  | .ok m =>
    let root ← decodeTree env (← field1? args "tree")
    let n ← findUid root (← asNat? (← field1? args "node"))
    pure (resSexp (matchNode theSem m n))

/-- `(pmulti env (tree t) (rules ("name" "text")…) [(order "name"…)] (node uid))` -/
def handlePMulti (args : List Sexp) : Option Sexp := do
  let (env, K) := envOf args
  let rules ← ((field? args "rules").getD []).mapM fun
    | .list [n, t] => do pure ((← asStr? n), (← asStr? t))
    | _ => none
  -- `MultiPatternMatcher.__init__` (Model/PatternMulti.lean): unique names, every definition compiles
  match multiInit K rules with
  | none => pure defErr
  | some tbl =>
  let order := ruleOrder tbl ((field? args "order").map (·.filterMap asStr?))
  let root ← decodeTree env (← field1? args "tree")
  let n ← findUid root (← asNat? (← field1? args "node"))
  match multiMatch theSem tbl order n with
  | .error .keyError => pure (app "raise" [sym "KeyError"])
  | .error .defError => pure defErr
  | .ok none => pure (app "ok" [sym "none"])
  | .ok (some (r, caps)) => pure (app "ok" [ofStr r, capsSexp caps])

/-- `(pcompile env (text "…") (probes tree…))`: accept / reject, and the behaviour of the compiled
matcher on the roots of the probe trees -/
def handlePCompile (args : List Sexp) : Option Sexp := do
  let (env, K) := envOf args
  let text ← asStr? (← field1? args "text")
  match compilePattern K text with
  | .error _ => pure defErr
  | .ok m =>
    let probes ← ((field? args "probes").getD []).mapM (decodeTree env)
    pure (app "ok" (probes.map fun n => resSexp (matchNode theSem m n)))

def handlePattern (cmd : String) (args : List Sexp) : Option Sexp :=
  if cmd == "pmatch" then handlePMatch args
  else if cmd == "pmulti" then handlePMulti args
  else if cmd == "pcompile" then handlePCompile args
  else none

end PM
end PyOak
