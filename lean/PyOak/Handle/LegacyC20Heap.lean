/- protocol handler `lhxpath`: a legacy HISTORY (run with the `legacy` machinery of Handle/Legacy.lean), then
   the heap-level legacy queries of Model/LegacyHeapWalk.lean on the final state, for EVERY object the harness
   knows: `ASTXpath(text).match(obj)` for every text, `obj.ancestors()`, `obj.dfs(…)` (4 variants), `obj.bfs(…)`
   (2 variants), `obj.gather(…)`, `obj.calculate_xpath()`.  Glue only; nothing here is referenced by a theorem. -/
import PyOak.Handle.Legacy
import PyOak.Model.LegacyHeapWalk
namespace PyOak
open Sexp Legacy

namespace LegacyHeapH

def optBool : Option Bool → Sexp
  | none => sym "hang"
  | some b => ofBool b

def tokSet (toks : Array Nat) (xs : List Sexp) : Nat → Bool :=
  let us := xs.filterMap fun x => do let i ← asNat? x; toks[i]?
  fun u => us.contains u

def calcSexp (tk : Nat → Sexp) : CalcOut → Sexp
  | .refused => sym "refused"
  | .failed => sym "failed"
  | .ok l => app "ok" (l.map fun p => .list [tk p.1, ofStr p.2])

end LegacyHeapH

/-- `(lhxpath (lclasses …) (ops op…) (texts "…"…) (prune tok…) (filter tok…) (gclasses name…) (exact b))` -/
def handleLegacyHeap (args : List Sexp) : Option Sexp := do
  let classes ← ((field? args "lclasses").getD []).mapM LegacyH.decodeClass
  let ops ← field? args "ops"
  let h ← ops.foldlM (LegacyH.runOp classes) {}
  let s := h.s
  let toks := h.toks.toList
  let tk := LegacyH.tokOf h.toks
  -- `check_and_get_ast_node_type`: a name of the class table (or of one of its bases) that is a legacy node class
  let known : Str → Bool := fun c => classes.any fun ci => ci.mro.contains c && ci.mro.contains awareName
  let texts := ((field? args "texts").getD []).filterMap asStr?
  let xs := texts.map fun text =>
    match lparseXPath known text with
    | none => app "raise" [sym "ASTXpathDefinitionError"]
    | some els => app "m" (toks.map fun u => LegacyHeapH.optBool (lxmatchH s els u))
  let prune := LegacyHeapH.tokSet h.toks ((field? args "prune").getD [])
  let filt : Nat → Bool := match field? args "filter" with
    | some ks => LegacyHeapH.tokSet h.toks ks
    | none => fun _ => true
  let gclasses := ((field? args "gclasses").getD []).filterMap asStr?
  let exact := ((field1? args "exact").bind asBool?).getD false
  let walks := toks.map fun u => Sexp.list [
    (match ancestors s u with
     | none => sym "hang"
     | some l => .list (l.map tk)),
    .list ((hdfsImpl s prune filt false false u).map tk),
    .list ((hdfsImpl s prune filt true false u).map tk),
    .list ((hdfsImpl s prune filt false true u).map tk),
    .list ((hdfsImpl s prune filt true true u).map tk),
    .list ((hbfsImpl s prune filt false u).map tk),
    .list ((hbfsImpl s prune filt true u).map tk),
    .list ((hgatherImpl s gclasses exact filt prune false u).map tk),
    LegacyHeapH.calcSexp tk (hcalcXpath s u)]
  pure (app "ok" [.list xs, .list walks])

end PyOak
