/- protocol handler for the annotation classifier model (glue)

  ty    ::= (atom int|str|bool|float|bytes|Any|Literal|Enum) | none | (node <i>) | (fwd <i>)
          | (nt ty) | (union ty ty…) | (vtuple ty)
          | (coll tuple|frozenset|sequence|mapping|list|dict|set ty…)
  (c11-chain (level (<field> ty)…) …)   classes of one inheritance chain, base first
     → (ok <class>…)   <class> ::= (reject) | (ok (<field> child|prop)…), up to the first rejected class
  (c11-classify ty) → (ok child|prop|reject)
  (c11-fkind ty)    → (ok reject|prop|one|tuple)   what `process_node_fields` stores (Model/AnnotAcc.lean)
-/
import PyOak.Model.Annot
import PyOak.Model.AnnotAcc
namespace PyOak
open Sexp Annot

def decodeAtom : String → Option Atom
  | "int" => some .int | "str" => some .str | "bool" => some .bool | "float" => some .float
  | "bytes" => some .bytes | "Any" => some .any | "Literal" => some .literal | "Enum" => some .enum
  | _ => none

def decodeKind : String → Option CollKind
  | "tuple" => some .tuple | "frozenset" => some .frozenset | "sequence" => some .sequence
  | "mapping" => some .mapping | "list" => some .list | "dict" => some .dict | "set" => some .set
  | _ => none

partial def decodeAnnotTy : Sexp → Option Ty
  | .atom "none" => some .none
  | .list [.atom "atom", .atom a] => (decodeAtom a).map .atom
  | .list [.atom "node", i] => (asNat? i).map .node
  | .list [.atom "fwd", i] => (asNat? i).map .fwd
  | .list [.atom "nt", t] => (decodeAnnotTy t).map .newtype
  | .list [.atom "vtuple", t] => (decodeAnnotTy t).map .vtuple
  | .list (.atom "union" :: m :: ms) => do
      let m ← decodeAnnotTy m
      let ms ← ms.mapM decodeAnnotTy
      pure (.union m ms)
  | .list (.atom "coll" :: .atom k :: args) => do
      let k ← decodeKind k
      let args ← args.mapM decodeAnnotTy
      pure (.coll k args)
  | _ => none

def decodeField : Sexp → Option Field
  | .list [n, t] => do pure ⟨← asStr? n, ← decodeAnnotTy t⟩
  | _ => none

def decodeLevel : Sexp → Option Level
  | .list (.atom "level" :: fs) => fs.mapM decodeField
  | _ => none

def verdictSexp : Verdict → Sexp
  | .child => sym "child" | .prop => sym "prop" | .reject => sym "reject"

def classSexp : Option (List (Str × Verdict)) → Sexp
  | none => app "reject" []
  | some vs => app "ok" (vs.map fun (n, v) => .list [.atom (String.ofList n), verdictSexp v])

def handleAnnot (cmd : String) (args : List Sexp) : Option Sexp :=
  match cmd with
  | "c11-chain" => do
      let levels ← args.mapM decodeLevel
      pure (app "ok" ((chainOutcome levels).map classSexp))
  | "c11-classify" =>
      match args with
      | [t] => do pure (app "ok" [verdictSexp (← decodeAnnotTy t).classify])
      | _ => none
  | "c11-fkind" =>
      match args with
      | [t] => do
          let k := fkind (← decodeAnnotTy t)
          pure (app "ok" [sym (match k with
            | none => "reject" | some .prop => "prop" | some .childOne => "one" | some .childTuple => "tuple")])
      | _ => none
  | _ => none

end PyOak
