/- protocol handlers for the digest model (glue) -/
import PyOak.Decode
import PyOak.Model.Encode
import PyOak.Model.Equality
namespace PyOak
open Sexp

def allNodesOf (root : Node) : List Node :=
  root :: (dfsImpl (fun _ => false) (fun _ => true) false root).map (·.node)

/-- `(cid-pre env (tree t) (digests (uid "content_id")…))`: the pre-images of content_id and id of
every node, the children's content ids being taken from the table of *observed* digests -/
def handleCidPre (args : List Sexp) : Option Sexp := do
  let env := decodeEnv args
  let root ← decodeTree env (← field1? args "tree")
  let tbl : List (Nat × Str) := ((field? args "digests").getD []).filterMap fun
    | .list [u, d] => do pure (← asNat? u, ← asStr? d)
    | _ => none
  let look (u : Nat) : Str := ((tbl.find? (·.1 == u)).map (·.2)).getD []
  let kidsOf (n : Node) : List KidD :=
    n.kids.map fun k => (k.name, k.coll, k.nodes.map fun c => ⟨look c.uid, c.org.fqn⟩)
  let nodes := (allNodesOf root).foldl (fun acc n => if acc.any (·.uid == n.uid) then acc else acc ++ [n]) []
  pure (app "ok" (nodes.map fun n =>
    .list [ofNat n.uid, ofStr (cidInputOf n.hd (kidsOf n)), ofStr (idInputOf n.hd (kidsOf n))]))

/-- interning digest: an injective `H` built on the fly (equal pre-images ⇔ equal digests) -/
def intern (s : Str) : StateM (List Str) Str := do
  let tbl ← get
  match tbl.findIdx? (· == s) with
  | some i => pure ('h' :: natStr i)
  | none => do set (tbl ++ [s]); pure ('h' :: natStr tbl.length)

partial def cidI (n : Node) : StateM (List Str) Str := do
  let kids ← n.kids.mapM fun k => do
    let ds ← k.nodes.mapM fun c => do pure (⟨← cidI c, c.org.fqn⟩ : KidDigest)
    pure ((k.name, k.coll, ds) : KidD)
  intern (cidInputOf n.hd kids)

/-- `(cid-eq env (tree a) (tree2 b))` -/
def handleCidEq (args : List Sexp) : Option Sexp := do
  let env := decodeEnv args
  let a ← decodeTree env (← field1? args "tree")
  let b ← decodeTree env (← field1? args "tree2")
  let (ca, cb) := (do let x ← cidI a; let y ← cidI b; pure (x, y) : StateM (List Str) (Str × Str)).run' []
  pure (app "ok" [ofBool (ca == cb), ofBool (a.cls == b.cls && ca == cb)])

/-- `(node-eq env (tree a) (tree2 b))` : `a == b`, `b == a` -/
def handleNodeEq (args : List Sexp) : Option Sexp := do
  let env := decodeEnv args
  let a ← decodeTree env (← field1? args "tree")
  let b ← decodeTree env (← field1? args "tree2")
  let (ca, cb) := (do let x ← cidI a; let y ← cidI b; pure (x, y) : StateM (List Str) (Str × Str)).run' []
  let r (x : Except Unit Bool) : Sexp := match x with
    | .ok v => ofBool v
    | .error _ => sym "raise"
  pure (app "ok" [r (eqCore (ca == cb) a b), r (eqCore (cb == ca) b a)])

end PyOak
