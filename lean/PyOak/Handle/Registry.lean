/- protocol handler for the registry state machine (glue) -/
import PyOak.Decode
import PyOak.Model.Registry
import PyOak.Model.RegistrySer
namespace PyOak
open Sexp

def decodeFresh (xs : List Sexp) : Fresh :=
  ((field? xs "fresh").getD []).filterMap fun
    | .list [t, b] => do pure (← asNat? t, ← asStr? b)
    | _ => none

def decodeNats (xs : List Sexp) (key : String) : List Nat :=
  ((field? xs key).getD []).filterMap asNat?

partial def decodeSer : Sexp → Option SerTree
  | .list (.atom "st" :: sid :: cls :: .list mro :: kids) => do
      pure (.mk (← asStr? sid) (← asStr? cls) (mro.filterMap asStr?) (← kids.mapM decodeSer))
  | _ => none

def decodeROp : Sexp → Option ROp
  | .list (.atom "construct" :: v :: cls :: .list mro :: r) => do
      pure (.construct (← asNat? v) (← asStr? cls) (mro.filterMap asStr?) (decodeNats r "kids") (decodeFresh r))
  | .list (.atom "duplicate" :: v :: x :: r) => do pure (.duplicate (← asNat? v) (← asNat? x) (decodeFresh r))
  | .list (.atom "dcreplace" :: v :: x :: r) => do
      pure (.dcReplace (← asNat? v) (← asNat? x) (decodeNats r "kids") (decodeFresh r))
  | .list (.atom "replace" :: v :: x :: f :: r) => do
      pure (.replace (← asNat? v) (← asNat? x) (decodeNats r "kids") (← asBool? f) (decodeFresh r))
  | .list [.atom "detach", x] => do pure (.detach (← asNat? x))
  | .list [.atom "detachself", x] => do pure (.detachSelf (← asNat? x))
  | .list (.atom "asobj" :: v :: t :: r) => do pure (.asObj (← asNat? v) (← decodeSer t) (decodeFresh r))
  | .list [.atom "alias", v, u] => do pure (.alias (← asNat? v) (← asNat? u))
  | .list [.atom "drop", v] => do pure (.drop (← asNat? v))
  | _ => none

def outSexp : ROut → Sexp
  | .ok r f => app "ok" [ofOptNat r, (match f with | some b => ofBool b | none => sym "none")]
  | .raised => app "raise" []
  | .desync => app "desync" []
  | .badOp => app "bad-op" []

def insertSorted (x : Nat) : List Nat → List Nat
  | [] => [x]
  | y :: r => if x ≤ y then x :: y :: r else y :: insertSorted x r

def stateDump (s : RState) (gets : List Sexp) : List Sexp :=
  let reg := sortBy (fun a b => strLt a.1 b.1) s.reg
  let live := s.live.foldl (fun acc u => insertSorted u acc) []
  let g := gets.map fun q => match q with
    | .list [c, k, st] =>
      (match asStr? c, asStr? k, asBool? st with
       | some c, some k, some st => ofOptNat (s.get c k st)
       | _, _, _ => sym "bad")
    | _ => sym "bad"
  [app "reg" (reg.map fun e => .list [ofStr e.1, ofNat e.2]), app "live" (live.map ofNat), app "gets" g]

partial def encodeSer : SerTree → Sexp
  | .mk sid cls mro kids =>
    .list (.atom "st" :: ofStr sid :: ofStr cls :: .list (mro.map ofStr) :: kids.map encodeSer)

/-- `(registry-history (op <op> (gets …) [(serof tok)])…)`; with `(serof tok)` the answer of the step
carries `(serof <st>)`: the model's serializer `RState.serOf` applied to object `tok` in the state
BEFORE the step (tie of `serOf` to the real `as_dict`) -/
def handleRegistry (args : List Sexp) : Option Sexp := do
  let steps := args.filterMap fun a => match a with
    | .list (.atom "op" :: o :: r) =>
      some (o, (field? r "gets").getD [], (match field? r "serof" with
                                           | some [t] => asNat? t
                                           | _ => none))
    | _ => none
  let (_, outs) := steps.foldl (fun (acc : RState × List Sexp) (st : Sexp × List Sexp × Option Nat) =>
    match decodeROp st.1 with
    | none => (acc.1, acc.2 ++ [app "bad-request" []])
    | some op =>
      let (s', out) := acc.1.step op
      let ser := match st.2.2 with
        | some tok => [app "serof" [encodeSer (acc.1.serOf acc.1.heap.length tok)]]
        | none => []
      (s', acc.2 ++ [.list (outSexp out :: stateDump s' st.2.1 ++ ser)])) (({} : RState), [])
  pure (.list outs)

end PyOak
