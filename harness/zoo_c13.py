"""Annotation / value universe for C13 (runtime type checking).

The harness keeps its *own* description of an annotation (`Ty`, nested tuples) and renders it
into a real `typing` object for pyoak on one side and into the protocol for the Lean model on the
other; values are real Python objects, encoded for the model from the harness' own inspection.

  ty ::= ("int",) ("float",) ("str",) ("bool",) ("bytes",) ("any",) ("none",)
       | ("tuple",) ("frozenset",) ("sequence", flavour) ("mapping", flavour)
       | ("lit", (members…)) | ("cls", "Name") | ("nt", "Name", ty) | ("u", (ty…), spelling)
       | ("tf", (ty…), flavour) | ("tv", ty, flavour) | ("fset", ty, flavour) | ("seq", ty, flavour)
       | ("map", ty, ty, flavour)
"""
from __future__ import annotations

import collections.abc as cabc
import dataclasses
import decimal
import enum
import fractions
import functools
import itertools
import operator
import random
import typing
from typing import Any, FrozenSet, Literal, NewType, Optional, Tuple, Union

from pyoak.node import ASTNode
from pyoak.origin import NO_ORIGIN, CodeOrigin, MemoryTextSource, NoOrigin, Origin, get_code_range

from proto import A
import zoo
from zoo import Color


class Shade(enum.Enum):
    RED = 1          # same member name and value as Color.RED, other class
    DARK = "dark"


NoneType = type(None)
_SRC = MemoryTextSource("alpha beta", source_uri="c13mem")
CODE_ORIGIN = CodeOrigin(_SRC, get_code_range(0, 1, 0, 3, 1, 3))

# classes an annotation may name; names are unique, so "C.__name__ in the MRO names" is isinstance
CLASSES: dict[str, type] = {c.__name__: c for c in
                            [ASTNode, Color, Shade, Origin, NoOrigin, CodeOrigin] + zoo.ALL_CLASSES}
NODE_CLASS_NAMES = [c.__name__ for c in zoo.ALL_CLASSES]
assert len(CLASSES) == 6 + len(zoo.ALL_CLASSES)

SCALARS = ["int", "float", "str", "bool", "bytes", "any", "none"]
BARE = {"tuple": tuple, "frozenset": frozenset}
_nt_counter = itertools.count()


# ------------------------------------------------------------------ rendering

def render(ty) -> Any:
    k = ty[0]
    if k == "int":
        return int
    if k == "float":
        return float
    if k == "str":
        return str
    if k == "bool":
        return bool
    if k == "bytes":
        return bytes
    if k == "any":
        return Any
    if k == "none":
        return NoneType
    if k == "tuple":
        return tuple
    if k == "frozenset":
        return frozenset
    if k == "sequence":
        return typing.Sequence if ty[1] else cabc.Sequence
    if k == "mapping":
        return typing.Mapping if ty[1] else cabc.Mapping
    if k == "lit":
        return Literal.__getitem__(tuple(ty[1]))
    if k == "cls":
        return CLASSES[ty[1]]
    if k == "nt":
        return NewType(ty[1], render(ty[2]))
    if k == "u":
        parts = [render(t) for t in ty[1]]
        sp = ty[2]
        if sp == "opt" and len(parts) == 2 and parts[1] is NoneType:
            return Optional[parts[0]]
        if sp == "bar":
            try:
                return functools.reduce(operator.or_, parts)
            except TypeError:
                pass
        return Union.__getitem__(tuple(parts))
    if k == "tf":
        parts = tuple(render(t) for t in ty[1])
        if not parts:
            return tuple[()] if ty[2] else Tuple[()]
        return tuple.__class_getitem__(parts) if ty[2] else Tuple.__getitem__(parts)
    if k == "tv":
        return tuple[render(ty[1]), ...] if ty[2] else Tuple[render(ty[1]), ...]
    if k == "fset":
        return frozenset[render(ty[1])] if ty[2] else FrozenSet[render(ty[1])]
    if k == "seq":
        return typing.Sequence[render(ty[1])] if ty[2] else cabc.Sequence[render(ty[1])]
    if k == "map":
        a, b = render(ty[1]), render(ty[2])
        return typing.Mapping[a, b] if ty[3] else cabc.Mapping[a, b]
    raise ValueError(ty)


def enc_lit(m):
    if isinstance(m, bool):
        return [A("b"), m]
    if isinstance(m, int):
        return [A("i"), A(str(m))]
    if isinstance(m, str):
        return [A("s"), m]
    if m is None:
        return A("none")
    if isinstance(m, enum.Enum):
        return [A("e"), type(m).__name__, m.name]
    raise ValueError(m)


def enc_ty(ty):
    k = ty[0]
    if k in SCALARS or k in ("tuple", "frozenset", "sequence", "mapping"):
        return A(k)
    if k == "lit":
        return [A("lit")] + [enc_lit(m) for m in ty[1]]
    if k == "cls":
        return [A("cls"), ty[1]]
    if k == "nt":
        return [A("nt"), ty[1], enc_ty(ty[2])]
    if k == "u":
        return [A("u")] + [enc_ty(t) for t in ty[1]]
    if k == "tf":
        return [A("tf")] + [enc_ty(t) for t in ty[1]]
    if k in ("tv", "fset", "seq"):
        return [A(k), enc_ty(ty[1])]
    if k == "map":
        return [A("map"), enc_ty(ty[1]), enc_ty(ty[2])]
    raise ValueError(ty)


def show_ty(ty) -> str:
    k = ty[0]
    if k == "lit":
        return "Literal[" + ", ".join(str(m) if isinstance(m, enum.Enum) else repr(m) for m in ty[1]) + "]"
    if k == "cls":
        return ty[1]
    if k == "nt":
        return f"NewType({ty[1]!r}, {show_ty(ty[2])})"
    if k == "u":
        if ty[2] == "opt" and len(ty[1]) == 2:
            return f"Optional[{show_ty(ty[1][0])}]"
        if ty[2] == "bar":
            return " | ".join(show_ty(t) for t in ty[1])
        return "Union[" + ", ".join(show_ty(t) for t in ty[1]) + "]"
    if k == "tf":
        return ("tuple" if ty[2] else "Tuple") + "[" + (", ".join(show_ty(t) for t in ty[1]) or "()") + "]"
    if k == "tv":
        return ("tuple" if ty[2] else "Tuple") + f"[{show_ty(ty[1])}, ...]"
    if k == "fset":
        return ("frozenset" if ty[2] else "FrozenSet") + f"[{show_ty(ty[1])}]"
    if k == "seq":
        return f"Sequence[{show_ty(ty[1])}]"
    if k == "map":
        return f"Mapping[{show_ty(ty[1])}, {show_ty(ty[2])}]"
    return {"any": "Any", "none": "None", "sequence": "Sequence", "mapping": "Mapping"}.get(k, k)


def shape(ty, depth: int = 2) -> str:
    """shallow shape used in signatures"""
    k = ty[0]
    if depth == 0:
        return "_"
    if k == "lit":
        return "Literal"
    if k == "cls":
        return "enum" if ty[1] in ("Color", "Shade") else "cls"
    if k == "nt":
        return f"NewType({shape(ty[2], depth - 1)})"
    if k == "u":
        return "Union[" + ",".join(sorted({shape(t, depth - 1) for t in ty[1]})) + "]"
    if k == "tf":
        return "tuple[" + ",".join(shape(t, depth - 1) for t in ty[1]) + "]"
    if k == "tv":
        return f"tuple[{shape(ty[1], depth - 1)},...]"
    if k in ("fset", "seq"):
        return f"{k}[{shape(ty[1], depth - 1)}]"
    if k == "map":
        return f"map[{shape(ty[1], depth - 1)},{shape(ty[2], depth - 1)}]"
    return k


def ty_depth(ty) -> int:
    k = ty[0]
    if k in ("nt",):
        return 1 + ty_depth(ty[2])
    if k in ("u", "tf"):
        return 1 + max([ty_depth(t) for t in ty[1]] or [0])
    if k in ("tv", "fset", "seq"):
        return 1 + ty_depth(ty[1])
    if k == "map":
        return 1 + max(ty_depth(ty[1]), ty_depth(ty[2]))
    return 0


# ------------------------------------------------------------------ values

class ObjTokens:
    def __init__(self):
        self.by_id: dict[int, int] = {}
        self.keep: list = []

    def tok(self, o) -> int:
        k = self.by_id.get(id(o))
        if k is None:
            k = len(self.keep)
            self.by_id[id(o)] = k
            self.keep.append(o)
        return k


def vkind(v) -> str:
    if isinstance(v, bool):
        return "bool"
    if isinstance(v, enum.Enum):
        return "enum"
    for t, n in ((int, "int"), (float, "float"), (str, "str"), (bytes, "bytes"), (tuple, "tuple"), (list, "list"),
                 (frozenset, "frozenset"), (dict, "dict")):
        if type(v) is t:
            return n
    if v is None:
        return "None"
    if isinstance(v, ASTNode):
        return "node"
    return "obj"


def enc_val(v, toks: ObjTokens):
    k = vkind(v)
    if k == "bool":
        return [A("b"), v]
    if k == "int":
        return [A("i"), A(str(v))]
    if k == "float":
        return [A("f"), repr(v), A(str(int(v))) if v.is_integer() else None]
    if k == "str":
        return [A("s"), v]
    if k == "bytes":
        return [A("by")] + [A(str(b)) for b in v]
    if k == "None":
        return A("none")
    if k == "enum":
        return [A("e"), type(v).__name__, v.name]
    if k == "tuple":
        return [A("t")] + [enc_val(x, toks) for x in v]
    if k == "list":
        return [A("l")] + [enc_val(x, toks) for x in v]
    if k == "frozenset":
        return [A("fs")] + [enc_val(x, toks) for x in v]
    if k == "dict":
        return [A("d")] + [[enc_val(a, toks), enc_val(b, toks)] for a, b in v.items()]
    return [A("o"), toks.tok(v)] + [c.__name__ for c in type(v).__mro__]


def show_val(v) -> str:
    k = vkind(v)
    if k == "node":
        return f"<{type(v).__name__}>"
    if k == "obj":
        return f"<obj {type(v).__name__}>"
    if k == "enum":
        return str(v)
    if k == "tuple":
        return "(" + ", ".join(show_val(x) for x in v) + ("," if len(v) == 1 else "") + ")"
    if k == "list":
        return "[" + ", ".join(show_val(x) for x in v) + "]"
    if k == "frozenset":
        return "frozenset({" + ", ".join(show_val(x) for x in v) + "})"
    if k == "dict":
        return "{" + ", ".join(f"{show_val(a)}: {show_val(b)}" for a, b in v.items()) + "}"
    return repr(v)


def _num(v):
    """the integer a bool / int / integral float is == to"""
    if isinstance(v, bool):
        return int(v)
    if type(v) is int:
        return v
    if type(v) is float and v.is_integer():
        return int(v)
    return None


def _seq_elems(v):
    if type(v) in (tuple, list):
        return list(v)
    if type(v) is str:
        return list(v)
    if type(v) is bytes:
        return list(v)
    return None


def dont_care(v, ty) -> bool:
    """the pair reaches a point the property leaves open: a bool offered for float, or a Literal
    member that is == to the value without being of the same kind (True/1, 1.0/1)"""
    k = ty[0]
    if k == "float":
        return isinstance(v, bool)
    if k == "lit":
        a = _num(v)
        if a is None:
            return False
        for m in ty[1]:
            if isinstance(m, (bool, int)) and int(m) == a and type(m) is not type(v):
                return True
        return False
    if k == "nt":
        return dont_care(v, ty[2])
    if k == "u":
        return any(dont_care(v, t) for t in ty[1])
    if k == "tf":
        return type(v) is tuple and any(dont_care(x, t) for x, t in zip(v, ty[1]))
    if k == "tv":
        return type(v) is tuple and any(dont_care(x, ty[1]) for x in v)
    if k == "fset":
        return type(v) is frozenset and any(dont_care(x, ty[1]) for x in v)
    if k == "seq":
        xs = _seq_elems(v)
        return xs is not None and any(dont_care(x, ty[1]) for x in xs)
    if k == "map":
        return type(v) is dict and any(dont_care(a, ty[1]) or dont_care(b, ty[2]) for a, b in v.items())
    return False


class Values:
    """seeded pool of values: both booleans, 0/1, floats, strings, bytes, None, enum members, nodes of
    every zoo class, origins, and tuples / lists / frozensets / dicts of these"""

    def __init__(self, rng: random.Random):
        self.rng = rng
        g = zoo.Gen(rng, origins=False)
        nodes = {}
        for _ in range(60):
            n = g.tree(rng.choice([1, 2, 4]))
            nodes.setdefault(type(n), n)
        for c in zoo.ALL_CLASSES:
            if c not in nodes:
                if c in (zoo.Un, zoo.UnPlus):
                    nodes[c] = c(zoo.Leaf())
                elif c is zoo.Bin:
                    nodes[c] = zoo.Bin(zoo.Leaf(), zoo.Leaf2())
                elif c is zoo.Fix2:
                    nodes[c] = zoo.Fix2((zoo.Leaf(), zoo.Expr()))
                elif c is zoo.Mixed:
                    nodes[c] = zoo.Mixed(zoo.Leaf(), ())
                elif c is zoo.MixedR:
                    nodes[c] = zoo.MixedR((), zoo.Leaf())
                else:
                    nodes[c] = c()
        self.nodes = nodes
        self.node_list = list(nodes.values())
        self.atoms = [True, False, 0, 1, 2, -1, 7, 1.5, 0.0, 1.0, 2.0, "", "a", "b", "ab", "1", b"", b"a", b"\x01\x02",
                      None, Color.RED, Color.GREEN, Shade.RED, Shade.DARK, NO_ORIGIN, CODE_ORIGIN,
                      # members of the numeric tower that are neither int nor float (only ints and floats conform to `float`)
                      fractions.Fraction(1, 2), decimal.Decimal("1.5")] + self.node_list
        self.hashable_atoms = list(self.atoms)

    def node_of(self, name: str, exact: bool = False):
        c = CLASSES[name]
        cands = [n for n in self.node_list if (type(n) is c if exact else isinstance(n, c))]
        return self.rng.choice(cands) if cands else None

    def atom(self):
        return self.rng.choice(self.atoms)

    def any_value(self, depth: int = 2):
        r = self.rng
        k = r.random()
        if depth == 0 or k < 0.55:
            return self.atom()
        n = r.choice([0, 1, 1, 2, 2, 3])
        if k < 0.75:
            return tuple(self.any_value(depth - 1) for _ in range(n))
        if k < 0.85:
            return [self.any_value(depth - 1) for _ in range(n)]
        if k < 0.93:
            return frozenset(self.hashable(depth - 1) for _ in range(n))
        return {self.hashable(depth - 1): self.any_value(depth - 1) for _ in range(n)}

    def hashable(self, depth: int = 1):
        r = self.rng
        if depth == 0 or r.random() < 0.8:
            return self.atom()
        return tuple(self.hashable(depth - 1) for _ in range(r.choice([0, 1, 2])))

    # -- a value that conforms to `ty` as the property reads it (None when the generator gives up)
    def conforming(self, ty, depth: int = 3):
        r = self.rng
        k = ty[0]
        if k == "int":
            return r.choice([0, 1, 2, -1, 7])
        if k == "float":
            return r.choice([1.5, 0.0, 2.0, 1, 0])
        if k == "str":
            return r.choice(["", "a", "ab", "1"])
        if k == "bool":
            return r.choice([True, False])
        if k == "bytes":
            return r.choice([b"", b"a"])
        if k == "any":
            return self.any_value(1)
        if k == "none":
            return None
        if k == "lit":
            return r.choice(ty[1]) if ty[1] else _GIVE_UP
        if k == "cls":
            c = CLASSES[ty[1]]
            if issubclass(c, enum.Enum):
                return r.choice(list(c))
            if issubclass(c, ASTNode):
                n = self.node_of(ty[1])
                return n if n is not None else _GIVE_UP
            if c is CodeOrigin:
                return CODE_ORIGIN
            if c is NoOrigin:
                return NO_ORIGIN
            return r.choice([NO_ORIGIN, CODE_ORIGIN])
        if k == "nt":
            return self.conforming(ty[2], depth)
        if k == "u":
            return self.conforming(r.choice(ty[1]), depth) if ty[1] else _GIVE_UP
        if k == "tf":
            xs = [self.conforming(t, depth - 1) for t in ty[1]]
            return _GIVE_UP if any(x is _GIVE_UP for x in xs) else tuple(xs)
        n = r.choice([0, 1, 2, 2, 3])
        if k == "tuple":
            return tuple(self.any_value(1) for _ in range(n))
        if k == "frozenset":
            return frozenset(self.hashable(1) for _ in range(n))
        if k == "sequence":
            return r.choice([tuple, list])(self.any_value(1) for _ in range(n))
        if k == "mapping":
            return {self.hashable(0): self.any_value(1) for _ in range(n)}
        if k == "tv":
            xs = [self.conforming(ty[1], depth - 1) for _ in range(n)]
            return _GIVE_UP if any(x is _GIVE_UP for x in xs) else tuple(xs)
        if k == "fset":
            xs = [self.conforming(ty[1], depth - 1) for _ in range(n)]
            if any(x is _GIVE_UP or not _hashable(x) for x in xs):
                return frozenset()
            return frozenset(xs)
        if k == "seq":
            if ty[1][0] == "str" and r.random() < 0.2:
                return r.choice(["", "ab"])
            xs = [self.conforming(ty[1], depth - 1) for _ in range(n)]
            if any(x is _GIVE_UP for x in xs):
                return ()
            return r.choice([tuple, list])(xs)
        if k == "map":
            out = {}
            for _ in range(n):
                a, b = self.conforming(ty[1], depth - 1), self.conforming(ty[2], depth - 1)
                if a is _GIVE_UP or b is _GIVE_UP or not _hashable(a):
                    continue
                out[a] = b
            return out
        raise ValueError(ty)

    # -- one-point damage of a value (the adversarial shapes the property names)
    def near_miss(self, v):
        r = self.rng
        k = vkind(v)
        if k == "bool":
            return r.choice([int(v), not v, None])
        if k == "int":
            return r.choice([bool(v) if v in (0, 1) else True, float(v), str(v), None, v + 1])
        if k == "float":
            return r.choice([True, str(v), None])
        if k == "str":
            return r.choice([v.encode(), None, 0, (v,), v + "x"])
        if k == "None":
            return r.choice([0, False, "", ()])
        if k == "enum":
            return r.choice([v.value, v.name, Shade.RED if type(v) is Color else Color.RED, None])
        if k in ("node", "obj"):
            return r.choice([self.rng.choice(self.node_list), None, (v,), NO_ORIGIN])
        if k in ("tuple", "list"):
            xs = list(v)
            c = r.random()
            if c < 0.2:
                return list(xs) if k == "tuple" else tuple(xs)           # other container
            if c < 0.4 or not xs:
                return type(v)(xs + [r.choice(xs) if xs else self.atom()])  # one longer
            if c < 0.55:
                return type(v)(xs[:-1])                                   # one shorter
            if c < 0.65 and len(xs) > 1:
                return type(v)(xs[1:] + xs[:1])                           # rotated
            i = r.randrange(len(xs))
            xs[i] = self.near_miss(xs[i])
            return type(v)(xs)
        if k == "frozenset":
            xs = list(v)
            c = r.random()
            if c < 0.25:
                return tuple(xs)
            return frozenset(xs + [self.atom()])
        if k == "dict":
            items = list(v.items())
            c = r.random()
            if c < 0.2:
                return tuple(v)
            if items and c < 0.6:
                a, b = items[r.randrange(len(items))]
                d = dict(v)
                d[a] = self.near_miss(b)
                return d
            d = dict(v)
            d[self.atom()] = self.atom()
            return d
        return None


class _GiveUp:
    def __repr__(self):
        return "<no conforming value>"


_GIVE_UP = _GiveUp()
GIVE_UP = _GIVE_UP


def _hashable(x) -> bool:
    try:
        hash(x)
        return True
    except TypeError:
        return False


# ------------------------------------------------------------------ annotations

LIT_POOL = [0, 1, 2, True, False, "a", "b", "", None, Color.RED, Color.GREEN, Shade.RED]


def gen_lit(rng: random.Random):
    n = rng.choice([1, 1, 2, 2, 3])
    ms = []
    for _ in range(n):
        m = rng.choice(LIT_POOL)
        if not any(type(m) is type(x) and m == x for x in ms):
            ms.append(m)
    return ("lit", tuple(ms))


def gen_atom_ty(rng: random.Random, nodes: bool = True, origin: bool = True):
    k = rng.random()
    if k < 0.5:
        return (rng.choice(["int", "int", "float", "str", "bool", "bool", "bytes", "any", "none"]),)
    if k < 0.65:
        return gen_lit(rng)
    if k < 0.75:
        return ("cls", rng.choice(["Color", "Shade"]))
    if k < 0.9 and nodes:
        return ("cls", rng.choice(["Expr", "Leaf", "Leaf2", "Bin", "Tup", "ASTNode", "Falsy", "Un"]))
    if k < 0.93 and origin:
        return ("cls", rng.choice(["Origin", "NoOrigin", "CodeOrigin"]))
    return rng.choice([("tuple",), ("frozenset",), ("sequence", rng.random() < 0.5), ("mapping", rng.random() < 0.5)])


def gen_ty(rng: random.Random, depth: int, nodes: bool = True, origin: bool = True):
    """an annotation of the accepted grammar, nesting depth <= depth"""
    if depth == 0 or rng.random() < 0.25:
        return gen_atom_ty(rng, nodes, origin)
    sub = lambda: gen_ty(rng, depth - 1, nodes, origin)  # noqa
    fl = rng.random() < 0.6
    k = rng.random()
    if k < 0.3:
        n = rng.choice([2, 2, 3])
        ts = [sub() for _ in range(n)]
        sp = rng.choice(["bar", "union", "opt"])
        if sp == "opt" or rng.random() < 0.3:
            ts = [t for t in ts if t[0] != "none"][: max(1, n - 1)] or [("int",)]
            ts.append(("none",))
            if len(ts) != 2 and sp == "opt":
                sp = "union"
        return ("u", tuple(ts), sp)
    if k < 0.48:
        return ("tf", tuple(sub() for _ in range(rng.choice([0, 1, 2, 2, 3]))), fl)
    if k < 0.62:
        return ("tv", sub(), fl)
    if k < 0.72:
        return ("fset", sub(), fl)
    if k < 0.82:
        return ("seq", sub(), fl)
    if k < 0.92:
        return ("map", rng.choice([("str",), ("int",), sub()]), sub(), fl)
    return ("nt", f"NT{next(_nt_counter)}", sub())


def gen_child_ty(rng: random.Random):
    """annotation of a child field: node class, union of node classes (+ None), tuple of those"""
    def one():
        return ("cls", rng.choice(["Expr", "Leaf", "Leaf2", "Bin", "Un", "Tup", "Falsy", "Opt"]))

    def alt():
        if rng.random() < 0.6:
            return one()
        a, b = one(), one()
        return ("u", (a, b), rng.choice(["bar", "union"])) if a != b else a

    k = rng.random()
    if k < 0.3:
        return one()
    if k < 0.55:
        t = alt()
        ts = (t[1] if t[0] == "u" else (t,)) + (("none",),)
        sp = rng.choice(["bar", "union", "opt"])
        return ("u", ts, sp if len(ts) == 2 or sp != "opt" else "union")
    if k < 0.8:
        return ("tv", alt(), rng.random() < 0.7)
    return ("tf", tuple(alt() for _ in range(rng.choice([1, 2, 2, 3]))), rng.random() < 0.7)


def mentions_node(ty) -> bool:
    k = ty[0]
    if k == "cls":
        c = CLASSES[ty[1]]
        return issubclass(c, ASTNode)
    if k == "nt":
        return mentions_node(ty[2])
    if k in ("u", "tf"):
        return any(mentions_node(t) for t in ty[1])
    if k in ("tv", "fset", "seq"):
        return mentions_node(ty[1])
    if k == "map":
        return mentions_node(ty[1]) or mentions_node(ty[2])
    return False


# ------------------------------------------------------------------ generated node classes

_cls_counter = itertools.count()


def make_node_class(fields_spec, base=ASTNode):
    """fields_spec: list of (name, annotation object, init: bool, default or MISSING)"""
    name = f"C13Gen{next(_cls_counter)}"
    fl = []
    for fname, ann, init, default in fields_spec:
        if init:
            fl.append((fname, ann))
        else:
            fl.append((fname, ann, dataclasses.field(default=default, init=False)))
    return dataclasses.make_dataclass(name, fl, bases=(base,), frozen=True)


def make_node_class_flags(name, fields_spec, base=ASTNode):
    """fields_spec: list of (name, annotation object, init, compare, kw_only, has_default, default); the class name
    is given by the caller (the same name may be used for several classes)"""
    fl = []
    for fname, ann, init, compare, kw_only, has_default, default in fields_spec:
        kw = {"compare": compare}
        if not init:
            kw.update(init=False, default=default)
        else:
            if kw_only:
                kw["kw_only"] = True
            if has_default:
                kw["default"] = default
        fl.append((fname, ann, dataclasses.field(**kw)))
    # the same thing as `@dataclass(frozen=True) class <name>(base): f: ann = field(...)` written in this module
    # (pyoak refuses a second class of the same name only when it comes from another module)
    ns = {"__module__": __name__, "__qualname__": name, "__annotations__": {f: a for f, a, _ in fl}}
    ns.update({f: d for f, _, d in fl})
    return dataclasses.dataclass(frozen=True)(type(name, (base,), ns))
