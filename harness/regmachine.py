"""Random histories of the public registry-affecting operations on real pyoak nodes, rendered at
the same time as requests for the Lean registry state machine (lean/PyOak/Model/Registry.lean).
Shared by C03, C14, C10 and the registry half of C04.

The harness holds strong references only through `self.vars`; every node ever created gets a
token in a wrapper around `ASTNode.__post_init__` (installed from outside, nothing in /repo is
touched), which also records the digest of the id pre-image ("base") of each construction."""
from __future__ import annotations

import dataclasses
import gc
import random
import weakref

import pyoak.config as pconfig
import pyoak.node as pnode
from pyoak.node import NODE_REGISTRY, ASTNode

from proto import A, dumps
import zoo


class _Rec:
    def __init__(self, real):
        self.real = real
        self.last = None

    def blake2b(self, data, digest_size):
        h = self.real.blake2b(data, digest_size=digest_size)
        self.last = h.hexdigest()
        return h

    def __getattr__(self, k):
        return getattr(self.real, k)


_BASE_BY_KEY: dict = {}     # digest of the id pre-image per (digest size, class, origin, content, children): a pure function


class Machine:
    NVARS = 6

    def __init__(self, rng: random.Random, digest_size: int = 8, profile: str = "registry"):
        self.rng = rng
        self.profile = profile
        self.digest_size = digest_size
        self.vars: dict[int, ASTNode] = {}
        self.tok_by_id: dict[int, int] = {}
        self.refs: dict[int, weakref.ref] = {}
        self.ntok = 0
        self.fresh: list[tuple[int, str]] = []
        self.dicts: list = []      # (dict, SerTree sexp, class) snapshots taken by "serialize"
        self.ops: list = []        # op sexps
        self.obs: list = []        # real observations (sexp per op)
        self.descr: list[str] = []
        self.frame_fail: str | None = None
        self.before_observe = None   # hook run after the operation, before liveness is observed
        self.detached_toks: set[int] = set()
        self.base_by_key: dict = {}
        self.lr_fail: tuple[str, str] | None = None   # (signature, message) of the live-registered oracle

    # ---- installation
    def __enter__(self):
        self._old_size = pconfig.ID_DIGEST_SIZE
        pconfig.ID_DIGEST_SIZE = self.digest_size
        self._rec = _Rec(pnode.hashlib)
        pnode.hashlib = self._rec
        self._orig_post = ASTNode.__post_init__
        m = self

        def wrapped(node):
            m._orig_post(node)
            m._register(node, m._rec.last)

        ASTNode.__post_init__ = wrapped
        gc.collect()
        NODE_REGISTRY.clear()
        return self

    def __exit__(self, *a):
        ASTNode.__post_init__ = self._orig_post
        pnode.hashlib = self._rec.real
        pconfig.ID_DIGEST_SIZE = self._old_size
        self.vars.clear()
        self.dicts.clear()
        gc.collect()

    def _register(self, node, base):
        t = self.ntok
        self.ntok += 1
        i = id(node)
        self.tok_by_id[i] = t

        def dead(_r, i=i, t=t, m=self):
            if m.tok_by_id.get(i) == t:
                del m.tok_by_id[i]

        self.refs[t] = weakref.ref(node, dead)
        self.fresh.append((t, base))
        # "same id every time": the digest of the id pre-image is a function of class, origin, comparable content and
        # direct children (content id + origin) — evaluated on the harness' own canonical description
        try:
            key = (type(node).__name__, node.origin.fqn,
                   tuple(sorted((f.name, zoo.stable_text(getattr(node, f.name)), str(type(getattr(node, f.name))))
                                for f in zoo.prop_fields(type(node)) if f.compare)),
                   tuple((nm, i, c.content_id, c.origin.fqn) for nm, coll, ns in zoo.kid_lists(node) for i, c in enumerate(ns)))
            old = _BASE_BY_KEY.setdefault((self.digest_size,) + key, base)
            if old != base and self.frame_fail is None:
                self.frame_fail = (f"two {type(node).__name__} nodes with the same class, origin, comparable content and direct "
                                   f"children got different id digests ({old} vs {base})")
        except KeyError:
            pass

    def tok(self, node) -> int:
        return self.tok_by_id[id(node)]

    # ---- helpers
    def live_objects(self) -> list[ASTNode]:
        seen, out = set(), []
        stack = [self.vars[k] for k in sorted(self.vars)]
        while stack:
            n = stack.pop()
            if id(n) in seen:
                continue
            seen.add(id(n))
            out.append(n)
            for _name, _coll, ns in zoo.kid_lists(n):
                stack.extend(ns)
        return out

    def kids_tokens(self, n) -> list[int]:
        return [self.tok(c) for _n, _c, ns in zoo.kid_lists(n) for c in ns]

    def ser_tree(self, n):
        return [A("st"), n.id, type(n).__name__, [k.__name__ for k in type(n).__mro__]] + \
            [self.ser_tree(c) for _n, _c, ns in zoo.kid_lists(n) for c in ns]

    def dict_tree(self, d):
        """(id, class, mro, children in order) read off the REAL `as_dict()` output (nested node dicts, dict order)"""
        from pyoak.serialize import TYPE_KEY, TYPES
        cls = TYPES[d[TYPE_KEY]]
        kids = []
        for k, val in d.items():
            if k == "origin":
                continue
            if isinstance(val, dict) and "content_id" in val:
                kids.append(val)
            elif isinstance(val, (list, tuple)):
                kids.extend(x for x in val if isinstance(x, dict) and "content_id" in x)
        return [A("st"), d["id"], cls.__name__, [k.__name__ for k in cls.__mro__]] + [self.dict_tree(c) for c in kids]

    def _fresh_sexp(self):
        return [A("fresh")] + [[t, b] for t, b in self.fresh]

    def _observe(self, out, gets):
        gc.collect()
        # a registered node this history never created (kept alive by somebody else) is reported as token -1
        reg = sorted(((k, self.tok_by_id.get(id(v), -1)) for k, v in list(NODE_REGISTRY.items())), key=lambda e: e[0])
        live = sorted(t for t, r in self.refs.items() if r() is not None)
        # the property itself on the real objects: a live node that has not itself been detached /
        # replaced away is returned (the identical object) by lookup under its id
        if self.lr_fail is None:
            for t in live:
                if t in self.detached_toks:
                    continue
                o = self.refs[t]()
                if o is not None and NODE_REGISTRY.get(o.id) is not o:
                    kind = self.descr_kind(self._last_descr)
                    self.lr_fail = (f"live-not-registered|op={kind}|ds={self.digest_size}",
                                    f"live, never detached node #{t} is not returned by lookup under its id "
                                    f"after `{self._last_descr}` (ID_DIGEST_SIZE={self.digest_size})")
                del o
        gres = []
        for cname, k, strict in gets:
            r = zoo._BY_NAME[cname].get(k, strict=strict) if cname != "ASTNode" else ASTNode.get(k, strict=strict)
            gres.append(None if r is None else self.tok_by_id.get(id(r), -1))
            del r
        return [out, [A("reg")] + [[k, t] for k, t in reg], [A("live")] + live, [A("gets")] + gres]

    def _gets(self):
        rng = self.rng
        ids = list(NODE_REGISTRY.keys())
        out = []
        for _ in range(min(4, len(ids) + 1)):
            k = rng.choice(ids) if ids and rng.random() < 0.85 else "feedbeef"
            out.append((rng.choice(["Leaf", "Leaf2", "Expr", "Tup", "Bin", "ASTNode", "Un"]), k, rng.random() < 0.5))
        return out

    @staticmethod
    def descr_kind(d: str) -> str:
        for k, pat in (("asobj", "as_obj"), ("duplicate", ".duplicate()"), ("dcreplace", "dataclasses.replace"),
                       ("replace-raises", "raises"), ("replace", ".replace("), ("detach_self", ".detach_self()"),
                       ("detach", ".detach()"), ("del", "del v"), ("construct", "(...)"), ("readonly", "read-only")):
            if pat in d:
                return k
        return "alias"

    def _push(self, op, out, descr):
        self._last_descr = descr
        gets = self._gets()
        serof, self._serof = getattr(self, "_serof", None), None
        self.ops.append([A("op"), op, [A("gets")] + [[c, k, s] for c, k, s in gets]]
                        + ([[A("serof"), serof[0]]] if serof else []))
        self.obs.append(self._observe(out, gets) + ([[A("serof"), serof[1]]] if serof else []))
        self.descr.append(descr)

    # ---- operations
    def new_leaf(self):
        r = self.rng
        k = r.random()
        o = zoo.gen_origin(r) if r.random() < 0.25 else zoo.NO_ORIGIN
        if k < 0.7:
            return zoo.Leaf(v=r.randint(0, 2), tag=r.choice(["", "t"]), origin=o), "Leaf"
        if k < 0.82:
            return zoo.Leaf2(v=r.randint(0, 1), origin=o), "Leaf2"
        if k < 0.88:
            return zoo.Picky(v=r.randint(0, 1), origin=o), "Picky"
        if k < 0.93:
            return zoo.PickyLate(v=r.randint(0, 1), origin=o), "PickyLate"
        if k < 0.95:
            return zoo.Falsy(n=r.randint(0, 1), origin=o), "Falsy"
        # nested frozensets built in a random insertion order: equal contents must give equal base digests
        inner = r.choice([[0, 8], [8, 0], [0, 8, 16], [16, 0, 8], [1]])
        return zoo.PropZoo(nfs=frozenset([frozenset(inner)]), fs=frozenset(r.sample([0, 8, 16], 3)), origin=o), "PropZoo"

    def op_construct(self):
        r = self.rng
        v = r.randrange(self.NVARS)
        live = self.live_objects()
        self.fresh = []
        k = r.random()
        if k < 0.45 or not live:
            n, d = self.new_leaf()
            kids = []
        elif k < 0.6:
            c = r.choice(live)
            n, d, kids = zoo.Un(c), "Un", [c]
        elif k < 0.75:
            a, b = r.choice(live), r.choice(live)
            n, d, kids = zoo.Bin(a, b), "Bin", [a, b]
        elif k < 0.9:
            cs = [r.choice(live) for _ in range(r.randint(0, 3))]
            n, d, kids = zoo.Tup(tuple(cs)), "Tup", cs
        elif k < 0.92:
            c = r.choice(live) if r.random() < 0.7 else None
            n, d, kids = zoo.Opt(c), "Opt", ([c] if c is not None else [])
        elif k < 0.99:
            cls = r.choice([zoo.MLeft, zoo.MBoth, zoo.MBoth])
            a = r.choice(live) if r.random() < 0.8 else None
            b = r.choice(live) if r.random() < 0.8 else None
            if cls is zoo.MLeft:
                n, d, kids = zoo.MLeft(lv=r.randint(0, 1), lk=a), "MLeft", ([a] if a is not None else [])
            else:
                n, d = zoo.MBoth(lv=r.randint(0, 1), lk=a, rv=r.randint(0, 1), rk=b), "MBoth"
                kids = ([b] if b is not None else []) + ([a] if a is not None else [])     # declaration order: rk, lk
        else:
            # a child field typed as a union of unrelated node classes, holding a non-first member when possible
            cands = [x for x in live if type(x) is zoo.Bin] or [x for x in live if type(x) is zoo.Leaf]
            c = r.choice(cands) if cands else None
            n, d, kids = zoo.UnionKid(c), "UnionKid", ([c] if c is not None else [])
        op = [A("construct"), v, type(n).__name__, [c.__name__ for c in type(n).__mro__],
              [A("kids")] + [self.tok(c) for c in kids], self._fresh_sexp()]
        self.vars[v] = n
        t = self.tok(n)
        del n, kids
        return (op, [A("ok"), t, None], f"v{v} = {d}(...) -> #{t}")

    def op_duplicate(self):
        live = self.live_objects()
        if not live:
            return self.op_construct()
        r = self.rng
        x = r.choice(live)
        v = r.randrange(self.NVARS)
        self.fresh = []
        tx = self.tok(x)
        n = x.duplicate()
        # C14 oracle on the real objects
        self._dup_oracle(x, n)
        op = [A("duplicate"), v, tx, self._fresh_sexp()]
        self.vars[v] = n
        t = self.tok(n)
        del n, x, live
        return (op, [A("ok"), t, None], f"v{v} = #{tx}.duplicate() -> #{t}")

    def _dup_oracle(self, x, n):
        if self.frame_fail:
            return
        if not (n == x) or n.content_id != x.content_id:
            self.frame_fail = "duplicate is not == / content-equal to the original"
            return
        orig_ids = {id(o) for o in [x] + [c for c, *_ in zoo.positions(x)]}
        reg_orig_ids = {o.id for o in [x] + [c for c, *_ in zoo.positions(x)] if NODE_REGISTRY.get(o.id) is o}
        pa = [(x, None)] + [(c, f) for c, p, f, i in zoo.positions(x)]
        pb = [(n, None)] + [(c, f) for c, p, f, i in zoo.positions(n)]
        if len(pa) != len(pb):
            self.frame_fail = "duplicate has another shape"
            return
        for (a, _), (b, _) in zip(pa, pb):
            if id(b) in orig_ids:
                self.frame_fail = "duplicate shares a node object with the original"
            elif NODE_REGISTRY.get(b.id) is not b:
                self.frame_fail = "a duplicated node is not registered"
            elif b.id in reg_orig_ids:
                self.frame_fail = "a duplicated node carries the id of a registered original"
            elif type(a) is not type(b) or a.content_id != b.content_id or not (type(a.origin) is type(b.origin) and a.origin == b.origin):
                self.frame_fail = "duplicate differs in class/content_id/origin at some position"
            else:
                for f in zoo.prop_fields(type(a)):
                    if not zoo.val_eq(getattr(a, f.name), getattr(b, f.name)):
                        self.frame_fail = f"duplicate differs in property {f.name}"

    def _changes(self, x, live):
        """random kwargs for dataclasses.replace and the resulting children"""
        r = self.rng
        kw = {}
        cls = type(x)
        kl = zoo.kid_lists(x)
        if r.random() < 0.5 and any(f.name in ("v", "tag", "n") for f in zoo.prop_fields(cls)):
            for f in zoo.prop_fields(cls):
                if f.name == "tag" and r.random() < 0.6:
                    kw["tag"] = r.choice(["", "t", "u"])
                elif f.name in ("v", "n") and r.random() < 0.5:
                    kw[f.name] = r.randint(0, 2)
        if kl and live and r.random() < 0.6:
            name, coll, ns = r.choice(kl)
            if coll and cls is not zoo.Fix2:
                new = list(ns)
                if new and r.random() < 0.5:
                    new[r.randrange(len(new))] = r.choice(live)
                else:
                    new.append(r.choice(live))
                kw[name] = tuple(new)
            elif not coll:
                kw[name] = r.choice(live)
        if r.random() < 0.15:
            kw["origin"] = zoo.gen_origin(r)
        return kw

    def _kids_after(self, x, kw):
        out = []
        for name, coll, ns in zoo.kid_lists(x):
            if name in kw:
                v = kw[name]
                out += list(v) if coll else ([] if v is None else [v])
            else:
                out += ns
        return out

    def op_dcreplace(self):
        live = self.live_objects()
        if not live:
            return self.op_construct()
        r = self.rng
        x = r.choice(live)
        # a new parent must not be built over x itself's ancestors: any live object is fine (DAG stays acyclic
        # because the new node is fresh)
        kw = self._changes(x, live)
        v = r.randrange(self.NVARS)
        self.fresh = []
        tx = self.tok(x)
        kids = [self.tok(c) for c in self._kids_after(x, kw)]
        was_reg = NODE_REGISTRY.get(x.id) is x
        n = dataclasses.replace(x, **kw)
        self._replace_oracle(x, n, kw, False, was_reg)
        op = [A("dcreplace"), v, tx, [A("kids")] + kids, self._fresh_sexp()]
        self.vars[v] = n
        t = self.tok(n)
        del n, x, live, kw
        return (op, [A("ok"), t, None], f"v{v} = dataclasses.replace(#{tx}, …) -> #{t}")

    def _replace_oracle(self, x, n, kw, is_method, was_reg):
        if self.frame_fail:
            return
        if type(n) is not type(x):
            self.frame_fail = "replace changed the class"
            return
        for f in dataclasses.fields(x):
            if not f.init:
                continue
            a, b = getattr(x, f.name), getattr(n, f.name)
            if f.name in kw:
                if b is not kw[f.name] and b != kw[f.name]:
                    self.frame_fail = f"replace: field {f.name} does not hold the given value"
            elif a is not b and not (isinstance(a, (int, str, bool, float, tuple, frozenset, type(None))) and a == b):
                self.frame_fail = f"replace: unchanged field {f.name} is not the very same object"
        if is_method:
            if NODE_REGISTRY.get(x.id) is x:
                self.frame_fail = "ASTNode.replace left the original registered"
        else:
            if was_reg and NODE_REGISTRY.get(x.id) is not x:
                self.frame_fail = "dataclasses.replace unregistered the original"
            if was_reg and n.id == x.id:
                self.frame_fail = "dataclasses.replace gave the new node the id of the registered original"
        if NODE_REGISTRY.get(n.id) is not n:
            self.frame_fail = "the new node is not registered"

    def op_replace(self):
        live = self.live_objects()
        if not live:
            return self.op_construct()
        r = self.rng
        x = r.choice(live)
        kw = self._changes(x, live)
        fails = r.random() < 0.3
        kids = [self.tok(c) for c in self._kids_after(x, kw)]
        type_check = False
        late = False
        if fails:
            # the ways a replace() can fail: unknown field (TypeError), init=False field (ValueError), the node
            # class' own validation (RuntimeError), runtime type checking (InvalidTypes)
            route = r.choice(["nofield", "id", "own-validation", "runtime-types"])
            if isinstance(x, zoo.PickyLate) and r.random() < 0.7:
                # fails after the would-be new node was registered (possibly under the original's id)
                kw = {"note": "bad"} if r.random() < 0.6 else dict(kw, note="bad")
                late = True
            elif route == "own-validation" and isinstance(x, zoo.Picky):
                kw["v"] = 13
            elif route == "runtime-types" and any(f.name in ("v", "n") for f in zoo.prop_fields(type(x))):
                kw["v" if hasattr(x, "v") else "n"] = "not an int"
                type_check = True
            else:
                kw[r.choice(["nofield", "id"]) if not hasattr(x, "cnt") else r.choice(["nofield", "cnt", "id"])] = 3
        v = r.randrange(self.NVARS)
        self.fresh = []
        tx = self.tok(x)
        was_reg = NODE_REGISTRY.get(x.id) is x
        before = dict(NODE_REGISTRY.items())
        old_tc = pconfig.RUNTIME_TYPE_CHECK
        pconfig.RUNTIME_TYPE_CHECK = type_check
        try:
            n = x.replace(**kw)
            raised = False
        except Exception:  # noqa
            raised = True
            n = None
        finally:
            pconfig.RUNTIME_TYPE_CHECK = old_tc
        if raised:
            after = dict(NODE_REGISTRY.items())
            if not self.frame_fail and (set(before) != set(after) or any(before[k] is not after[k] for k in before)):
                self.frame_fail = "a replace() that raised changed the registry"
            del before, after
            op = [A("replace"), v, tx, True, [A("kids")] + kids, self._fresh_sexp()]
            del x, live, kw
            if late:
                # the rejected node was constructed (and is garbage now): the model has no such operation and its
                # state is unaffected; the real-code oracles (registry unchanged, frame) have run
                self.descr.append(f"#{tx}.replace(note='bad') raises after registration")
                self.descr.pop()
                return None
            return (op, [A("raise")], f"#{tx}.replace(…) raises")
            return
        del before
        self._replace_oracle(x, n, kw, True, was_reg)
        if was_reg:
            self.detached_toks.add(tx)
        op = [A("replace"), v, tx, False, [A("kids")] + kids, self._fresh_sexp()]
        self.vars[v] = n
        t = self.tok(n)
        del n, x, live, kw
        return (op, [A("ok"), t, None], f"v{v} = #{tx}.replace(…) -> #{t}")

    def op_detach(self, only_self: bool):
        live = self.live_objects()
        if not live:
            return self.op_construct()
        x = self.rng.choice(live)
        tx = self.tok(x)
        if only_self:
            res = x.detach_self()
            if res:
                self.detached_toks.add(tx)
            del x, live
            return ([A("detachself"), tx], [A("ok"), None, bool(res)], f"#{tx}.detach_self() -> {res}")
        else:
            for o in [x] + [c for c, *_ in zoo.positions(x)]:
                if NODE_REGISTRY.get(o.id) is o:
                    self.detached_toks.add(self.tok(o))
            del o
            x.detach()
            del x, live
            return ([A("detach"), tx], [A("ok"), None, None], f"#{tx}.detach()")

    def op_serialize(self):
        live = self.live_objects()
        if not live:
            return
        x = self.rng.choice(live)
        self.dicts.append((x.as_dict(), self.ser_tree(x), type(x), self.tok(x)))

    def op_asobj(self):
        if not self.dicts:
            return self.op_serialize()
        d, st, cls, tx = self.rng.choice(self.dicts)
        v = self.rng.randrange(self.NVARS)
        self.fresh = []
        # the entry point may be the node's own class, a base class or an unrelated sibling class
        via = self.rng.choice([cls, cls, zoo.Expr, ASTNode, zoo.Leaf, zoo.Tup])
        n = via.as_obj(d)
        op = [A("asobj"), v, st, self._fresh_sexp()]
        # tie of the model's serializer: `RState.serOf` of object #tx (driver) = the real as_dict() payload, projected
        self._serof = (tx, self.dict_tree(d))
        self.vars[v] = n
        t = self.tok(n)
        del n
        return (op, [A("ok"), t, None], f"v{v} = as_obj(as_dict(#{tx})) -> #{t}")

    def op_alias(self):
        live = self.live_objects()
        if not live:
            return self.op_construct()
        x = self.rng.choice(live)
        v = self.rng.randrange(self.NVARS)
        t = self.tok(x)
        self.vars[v] = x
        del x, live
        return ([A("alias"), v, t], [A("ok"), t, None], f"v{v} = #{t}")

    def op_readonly(self):
        """library calls that must not affect the registry nor keep anything alive"""
        if not self.vars:
            return self.op_construct()
        from pyoak.match.xpath import ASTXpath
        v = self.rng.choice(sorted(self.vars))
        x = self.vars[v]
        t = self.tok(x)
        what = "?"
        try:
            k = self.rng.randrange(5)
            if k == 0:
                tr = x.to_tree()
                for n in [x] + [c for c, *_ in zoo.positions(x)][:5]:
                    tr.get_parent_info(n)
                del tr
                what = "to_tree"
            elif k == 1:
                xp = ASTXpath(self.rng.choice(["//Leaf", "//Expr", "/Tup//Leaf"]))
                found = list(xp.findall(x))
                for n in found[:3]:
                    xp.match(x, n)
                del found
                what = "xpath"
            elif k == 2:
                list(x.dfs()); list(x.bfs()); list(x.gather(zoo.Leaf)); x.children
                what = "traverse"
            elif k == 3:
                x.as_dict(); x.to_json(); hash(x); (x == x); x.__rich__()
                what = "serialize"
            else:
                x.is_equal(x); x.to_properties_dict(); list(x.get_properties())
                what = "accessors"
        except Exception as e:  # noqa  a read-only library call on a well-formed live tree must not raise
            if self.frame_fail is None:
                self.frame_fail = f"read-only library call raised {type(e).__name__} on a live tree"
        del x
        return ([A("alias"), v, t], [A("ok"), t, None], f"read-only {what} on #{t}")

    def op_drop(self):
        if not self.vars:
            return self.op_construct()
        v = self.rng.choice(sorted(self.vars))
        del self.vars[v]
        return ([A("drop"), v], [A("ok"), None, None], f"del v{v}")

    def random_op(self):
        k = self.rng.random()
        if self.profile == "copy":
            # C14: mostly duplicate / replace / dataclasses.replace over a few constructed trees
            k = {True: k * 0.28, False: 0.28 + (k - 0.25) / 0.75 * 0.30 if k < 0.8 else 0.58 + (k - 0.8) / 0.2 * 0.42}[k < 0.25]
        if self.profile == "serial":
            # C04: many serialize / as_obj / drop
            if k < 0.3:
                k = k / 0.3 * 0.28
            elif k < 0.65:
                k = 0.75 + (k - 0.3) / 0.35 * 0.12
            elif k < 0.8:
                k = 0.93
            else:
                k = 0.28 + (k - 0.8) / 0.2 * 0.47
        if k < 0.28:
            r = self.op_construct()
        elif k < 0.38:
            r = self.op_duplicate()
        elif k < 0.47:
            r = self.op_dcreplace()
        elif k < 0.58:
            r = self.op_replace()
        elif k < 0.65:
            r = self.op_detach(False)
        elif k < 0.75:
            r = self.op_detach(True)
        elif k < 0.8:
            r = self.op_serialize()
        elif k < 0.87:
            r = self.op_asobj()
        elif k < 0.90:
            r = self.op_alias()
        elif k < 0.94:
            r = self.op_readonly()
        else:
            r = self.op_drop()
        # the op methods have returned: none of their locals holds a node any more
        self.last_op = str(r[0][0]) if r is not None else "noop"
        if self.before_observe is not None:
            self.before_observe()
        if r is not None:
            self._push(*r)

    def request(self) -> str:
        return dumps([A("registry-history")] + self.ops)

    def observation(self) -> str:
        return dumps(self.obs)
