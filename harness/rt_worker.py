"""Fresh-process half of the C04 round trip: deserializes payloads produced by another
interpreter (none of the original nodes exists here) and checks every position against the
pickled snapshot.  Prints a JSON list of failure messages (null = position-wise identical)."""
import gc
import json
import pickle
import sys

import zoo  # noqa: F401  (registers the zoo classes)
from pyoak.node import NODE_REGISTRY

from props.c04 import check_positions, deserialize

from pyoak.origin import SOURCE_OPTIMIZED_SERIALIZATION_KEY, Source

items = pickle.load(open(sys.argv[1], "rb"))
out = []
idx_ready = False
b = None
for fmt, cname, payload, snap in items:
    # the tree of the previous item must be gone before the next payload is read: a node of it that holds an id of the
    # next payload ("another live node has taken over the id") would be returned instead of a new node
    b = None
    gc.collect()
    NODE_REGISTRY.clear()
    try:
        if fmt == "sources":
            out.append(None)
            sources = payload
            continue
        if fmt.startswith("idx:"):
            if not idx_ready:
                # documented protocol: the separately serialized sources are loaded (into an empty source
                # registry, in serialization order) before the objects that refer to them by index
                Source.clear_registry()
                Source.load_serialized_sources(sources)
                idx_ready = True
            b = zoo._BY_NAME[cname].from_json(payload, serialization_options={SOURCE_OPTIMIZED_SERIALIZATION_KEY: True})
            out.append(check_positions(snap, b, originals=None))
            continue
        b = deserialize(zoo._BY_NAME[cname], fmt, payload)
        out.append(check_positions(snap, b, originals=None))
    except Exception as e:  # noqa
        out.append(f"deserialization raised {type(e).__name__}: {e}")
print(json.dumps(out))
