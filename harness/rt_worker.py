"""Fresh-process half of the C04 round trip: deserializes payloads produced by another
interpreter (none of the original nodes exists here) and checks every position against the
pickled snapshot.  Prints a JSON list of failure messages (null = position-wise identical)."""
import json
import pickle
import sys

import zoo  # noqa: F401  (registers the zoo classes)
from pyoak.node import NODE_REGISTRY

from props.c04 import check_positions, deserialize

items = pickle.load(open(sys.argv[1], "rb"))
out = []
for fmt, cname, payload, snap in items:
    try:
        b = deserialize(zoo._BY_NAME[cname], fmt, payload)
        out.append(check_positions(snap, b, originals=None))
    except Exception as e:  # noqa
        out.append(f"deserialization raised {type(e).__name__}: {e}")
print(json.dumps(out))
