"""py2lean_k — Python-AST -> Lean 4 translator for the *decision kernels* of pyoak that are not plain arithmetic
(those are handled by py2lean.py for C15): functions whose body is a decision tree over Optional-typed record
attributes, possibly recursive over a list parameter.

Regenerated on every run of the checks that use it (C07, C12) from the source files of the tree under examination:

  src/pyoak/match/xpath.py   _NodeTraversalInfo, ASTXpathElement (record types, from their annotations)
                             _match_node_element     -> GenK.match_node_element
                             _match_node_xpath       -> GenK.match_node_xpath   (structural recursion on `elements`)
  src/pyoak/node.py          ASTNode.get_property_fields (loop body)  -> GenK.get_property_fields_keep

The bridge theorems (Props/GenBridge.lean) prove the hand-written model functions equal to the generated ones, so the
C07 / C12 property theorems are theorems about what the source says *now*: a semantic change of one of these functions
changes the generated definition and breaks the bridge (then the correspondence / oracles look for the failing input);
a harmless rewrite (reordered independent tests, De Morgan, early returns instead of one big condition, `any(...)`
instead of a for loop) generates an equivalent definition and the bridge re-proves (`grind` / `simp` proofs).

Accepted subset (anything else: `Unsupported` naming the function and the construct -- never silently skipped):

  stmt ::= docstring | `x = e` | `a, b, c = e` (e of a product type) | `x = L[0]` + `y = L[1:]` for a list parameter L
           (becomes `match L with | [] => <raises: false> | x :: y => ..`) | `if c: .. [elif/else ..]` | `return e`
         | `for v in e: if c: return True`  (-> `if e.any (fun v => c) then true else ..`)
         | inside a loop body: `continue` (-> false) and a final `yield v` (-> true)
  e    ::= name | e.attr | True | False | None | int / str literal | `not e` | `e and e` | `e or e`
         | `e is None` | `e is not None` | `e == e` | `e != e` | `len(e) == 0` | `len(e) > 0` | `any(g for v in e)`
         | `isinstance(e, e)` (abstract parameter) | `obj.method(args)` for the declared abstract methods
         | `Record(e, ..)` | call of another translated function

Python semantics that the translation respects / totalises (stated here because they are part of the trusted base):
  * `x is None` / `x is not None` on an Optional value; after `if x is None: <returns>` (or inside `x is not None and ..`)
    the name is narrowed to the underlying type (`match x with | none => .. | some x => ..`);
  * `a == b` between `Optional[T]` and `T` (or two Optionals) is equality of the underlying values with `None` equal only to
    `None`  (`some a == b`, `a == some b`);
  * attribute access on an Optional receiver that is NOT narrowed (`x.name` where x may be None) raises AttributeError in
    Python; it is translated as `x.map (·.name)` (an Optional result) -- a guard removed in the source therefore shows up as a
    changed definition AND, on the real code, as an exception that the correspondence observes;
  * `L[0]` on an empty list raises IndexError; the generated `match` answers `false` there (the model does the same, and
    no caller passes an empty list: `ASTXpath` always has at least one element).
"""
from __future__ import annotations

import ast
from pathlib import Path


class Unsupported(Exception):
    def __init__(self, where: str, why: str):
        super().__init__(f"{where}: {why}")
        self.where, self.why = where, why


# ---- Lean types: ("opt", t) | ("list", t) | ("prod", [t..]) | ("rec", name) | "N" | "C" | "Int" | "Str" | "Bool" | "FieldR"

def lean_ty(t) -> str:
    if isinstance(t, tuple):
        if t[0] == "opt":
            return f"(Option {lean_ty(t[1])})"
        if t[0] == "list":
            return f"(List {lean_ty(t[1])})"
        if t[0] == "prod":
            return "(" + " × ".join(lean_ty(x) for x in t[1]) + ")"
        if t[0] == "rec":
            return {"NodeTraversalInfo": "(NodeTraversalInfo N)", "ASTXpathElement": "(ASTXpathElement C)"}.get(t[1], t[1])
    return t


def ann_ty(a: ast.expr, where: str):
    """annotation -> type"""
    if isinstance(a, ast.Constant) and a.value is None:
        return "None"
    if isinstance(a, ast.Name):
        m = {"ASTNode": "N", "Field": "FieldR", "int": "Int", "str": "Str", "bool": "Bool"}
        if a.id in m:
            return m[a.id]
    if isinstance(a, ast.BinOp) and isinstance(a.op, ast.BitOr):
        l, r = ann_ty(a.left, where), ann_ty(a.right, where)
        if r == "None":
            return ("opt", l)
        if l == "None":
            return ("opt", r)
    if isinstance(a, ast.Subscript) and isinstance(a.value, ast.Name):
        if a.value.id in ("type", "Type") and isinstance(a.slice, ast.Name) and a.slice.id == "ASTNode":
            return "C"
        if a.value.id == "Optional":
            return ("opt", ann_ty(a.slice, where))
        if a.value.id == "list":
            return ("list", ann_ty(a.slice, where))
    raise Unsupported(where, f"annotation {ast.unparse(a)}")


def str_lit(s: str) -> str:
    return "[" + ", ".join("'" + (c if c not in "'\\" else "\\" + c) + "'" for c in s) + "]"


class K:
    """one source file"""

    def __init__(self, path: Path):
        self.path = path
        self.mod = ast.parse(path.read_text(), str(path))
        self.classes = {s.name: s for s in self.mod.body if isinstance(s, ast.ClassDef)}
        self.funcs = {s.name: s for s in self.mod.body if isinstance(s, ast.FunctionDef)}

    def record(self, pyname: str) -> list[tuple[str, object]]:
        c = self.classes.get(pyname)
        if c is None:
            raise Unsupported(pyname, "class not found")
        out = []
        for st in c.body:
            if isinstance(st, ast.AnnAssign) and isinstance(st.target, ast.Name):
                out.append((st.target.id, ann_ty(st.annotation, f"{pyname}.{st.target.id}")))
            elif isinstance(st, ast.Expr) and isinstance(st.value, ast.Constant):
                continue
            elif isinstance(st, ast.Pass):
                continue
            else:
                raise Unsupported(pyname, f"class body statement {type(st).__name__}")
        return out


class Fn:
    """translation of one function body into a Lean Bool term"""

    def __init__(self, name: str, env: dict, records: dict, abstract: dict, known_fns: dict, self_name: str | None = None,
                 rec_args: list[str] | None = None, loop_mode: bool = False):
        self.name = name
        self.env = dict(env)            # python name -> type
        self.lean = {k: k for k in env}   # python name -> lean term (changes under narrowing)
        self.records = records          # python record name -> (lean record name, [(field, type)])
        self.abstract = abstract        # "isinstance" / "tree.get_parent_info" .. -> (lean name, [arg types], result type)
        self.known = known_fns          # python function name -> (lean call prefix, result type)
        self.self_name = self_name
        self.rec_args = rec_args or []
        self.loop_mode = loop_mode
        self.fresh = 0

    def bad(self, node, why=""):
        raise Unsupported(self.name, f"{why or 'construct'}: {ast.unparse(node) if isinstance(node, ast.AST) else node}"[:200])

    # ------------------------------------------------------------ expressions -> (term, type)
    def expr(self, e: ast.expr):
        if isinstance(e, ast.Name):
            if e.id in self.env:
                return self.lean[e.id], self.env[e.id]
            self.bad(e, "unknown name")
        if isinstance(e, ast.Constant):
            if e.value is True:
                return "true", "Bool"
            if e.value is False:
                return "false", "Bool"
            if e.value is None:
                return "none", ("opt", "?")
            if isinstance(e.value, int):
                return f"({e.value} : Int)", "Int"
            if isinstance(e.value, str):
                return f"({str_lit(e.value)} : Str)", "Str"
        if isinstance(e, ast.Attribute):
            base, bt = self.expr(e.value)
            opt = isinstance(bt, tuple) and bt[0] == "opt"
            rt = bt[1] if opt else bt
            fields = None
            if isinstance(rt, tuple) and rt[0] == "rec":
                fields = dict(self.records[rt[1]][1])
            elif rt == "FieldR":
                fields = {"name": "Str"}
            elif rt == "PField":
                fields = {"name": "Str", "compare": "Bool", "init": "Bool"}
            if fields is None or e.attr not in fields:
                self.bad(e, "attribute of an unknown type")
            ft = fields[e.attr]
            if not opt:
                return f"{base}.{e.attr}", ft
            if isinstance(ft, tuple) and ft[0] == "opt":
                return f"({base}.bind (·.{e.attr}))", ft
            return f"({base}.map (·.{e.attr}))", ("opt", ft)
        if isinstance(e, ast.UnaryOp) and isinstance(e.op, ast.Not):
            t, ty = self.boolean(e.operand)
            return f"(!{t})", "Bool"
        if isinstance(e, ast.BoolOp):
            return self.boolop(e)
        if isinstance(e, ast.Compare) and len(e.ops) == 1:
            return self.compare(e.left, e.ops[0], e.comparators[0])
        if isinstance(e, ast.Call):
            return self.call(e)
        if isinstance(e, ast.IfExp):
            c, _ = self.boolean(e.test)
            a, ta = self.expr(e.body)
            b, tb = self.expr(e.orelse)
            return f"(if {c} then {a} else {b})", ta
        self.bad(e)

    def boolean(self, e):
        t, ty = self.expr(e)
        if ty != "Bool":
            self.bad(e, f"truthiness of a non-bool ({ty}) is not translated")
        return t, ty

    def boolop(self, e: ast.BoolOp):
        """`and` / `or` with left-to-right narrowing: in `x is not None and P` (resp. `x is None or P`) P sees x narrowed"""
        is_and = isinstance(e.op, ast.And)
        vals = list(e.values)

        def go(i):
            if i == len(vals) - 1:
                return self.boolean(vals[i])[0]
            v = vals[i]
            nm = self.none_test(v)
            if nm is not None and nm[1] == (not is_and) and isinstance(self.env.get(nm[0]), tuple) and self.env[nm[0]][0] == "opt":
                # and: `x is not None and REST`  -> match x with | none => false | some x => REST
                # or : `x is None or REST`       -> match x with | none => true  | some x => REST
                name = nm[0]
                cur = self.lean[name]
                saved = (self.env[name], self.lean[name])
                self.fresh += 1
                nv = f"{name}_{self.fresh}"
                self.env[name], self.lean[name] = saved[0][1], nv
                rest = go(i + 1)
                self.env[name], self.lean[name] = saved
                return f"(match {cur} with | none => {'false' if is_and else 'true'} | some {nv} => {rest})"
            t = self.boolean(v)[0]
            rest = go(i + 1)
            return f"({t} {'&&' if is_and else '||'} {rest})"
        return go(0), "Bool"

    def none_test(self, e):
        """-> (name, is_none: bool) for `NAME is None` / `NAME is not None`"""
        if isinstance(e, ast.Compare) and len(e.ops) == 1 and isinstance(e.comparators[0], ast.Constant) \
                and e.comparators[0].value is None and isinstance(e.left, ast.Name) and isinstance(e.ops[0], (ast.Is, ast.IsNot)):
            return e.left.id, isinstance(e.ops[0], ast.Is)
        return None

    def compare(self, l, op, r):
        if isinstance(op, (ast.Is, ast.IsNot)):
            if isinstance(r, ast.Constant) and r.value is None:
                t, ty = self.expr(l)
                if isinstance(ty, tuple) and ty[0] == "opt":
                    return (f"{t}.isNone" if isinstance(op, ast.Is) else f"{t}.isSome"), "Bool"
                return ("false" if isinstance(op, ast.Is) else "true"), "Bool"     # a narrowed (non-optional) value
            self.bad(l, "`is` between values")
        if isinstance(op, (ast.Eq, ast.NotEq)):
            # len(x) == 0
            if isinstance(l, ast.Call) and isinstance(l.func, ast.Name) and l.func.id == "len" and isinstance(r, ast.Constant) and r.value == 0:
                t, ty = self.expr(l.args[0])
                if not (isinstance(ty, tuple) and ty[0] == "list"):
                    self.bad(l, "len of a non-list")
                return (f"{t}.isEmpty" if isinstance(op, ast.Eq) else f"(!{t}.isEmpty)"), "Bool"
            a, ta = self.expr(l)
            b, tb = self.expr(r)
            oa, ob = isinstance(ta, tuple) and ta[0] == "opt", isinstance(tb, tuple) and tb[0] == "opt"
            if oa and not ob:
                b = f"(some {b})"
            elif ob and not oa:
                a = f"(some {a})"
            t = f"({a} == {b})"
            return (t if isinstance(op, ast.Eq) else f"(!{t})"), "Bool"
        if isinstance(op, (ast.Gt,)) and isinstance(l, ast.Call) and isinstance(l.func, ast.Name) and l.func.id == "len" \
                and isinstance(r, ast.Constant) and r.value == 0:
            t, ty = self.expr(l.args[0])
            return f"(!{t}.isEmpty)", "Bool"
        self.bad(l, f"comparison {type(op).__name__}")

    def call(self, e: ast.Call):
        f = e.func
        if isinstance(f, ast.Name):
            if f.id == "isinstance" and "isinstance" in self.abstract:
                a, _ = self.expr(e.args[0])
                b, _ = self.expr(e.args[1])
                return f"(isinstance {a} {b})", "Bool"
            if f.id == "any" and len(e.args) == 1 and isinstance(e.args[0], ast.GeneratorExp):
                g = e.args[0]
                if len(g.generators) != 1 or g.generators[0].ifs or not isinstance(g.generators[0].target, ast.Name):
                    self.bad(e, "generator shape")
                return self.any_over(g.generators[0].target.id, g.generators[0].iter, g.elt), "Bool"
            if f.id in self.records:
                lname, fields = self.records[f.id]
                if e.keywords or len(e.args) != len(fields):
                    self.bad(e, "record constructor arguments")
                parts = []
                for (fn, ft), a in zip(fields, e.args):
                    t, ty = self.expr(a)
                    if isinstance(ft, tuple) and ft[0] == "opt" and not (isinstance(ty, tuple) and ty[0] == "opt"):
                        t = f"(some {t})"
                    parts.append(f"{fn} := {t}")
                return "{ " + ", ".join(parts) + " }", ("rec", f.id)
            if f.id == self.self_name or f.id in self.known:
                prefix, rty, ptypes = (self.known[f.id] if f.id in self.known else (None, None, None))
                if f.id == self.self_name:
                    prefix, rty, ptypes = self.self_call
                args = []
                skipped = 0
                for a, pt in zip(e.args, ptypes):
                    if pt is None:        # an argument that became abstract parameters (e.g. `tree`)
                        continue
                    t, ty = self.expr(a)
                    if isinstance(ty, tuple) and ty[0] == "opt" and not (isinstance(pt, tuple) and pt[0] == "opt"):
                        self.bad(a, "an Optional value passed where the callee expects a plain one (not narrowed)")
                    args.append(t)
                return f"({prefix} {' '.join(args)})", rty
        if isinstance(f, ast.Attribute) and isinstance(f.value, ast.Name):
            key = f"{f.value.id}.{f.attr}"
            if key in self.abstract:
                lname, atys, rty = self.abstract[key]
                args = [self.expr(a)[0] for a in e.args]
                return f"({lname} {' '.join(args)})", rty
        self.bad(e, "call")

    def any_over(self, var: str, it: ast.expr, cond: ast.expr) -> str:
        t, ty = self.expr(it)
        if not (isinstance(ty, tuple) and ty[0] == "list"):
            self.bad(it, "iteration over a non-list")
        saved = (self.env.get(var), self.lean.get(var))
        self.env[var], self.lean[var] = ty[1], var
        c, _ = self.boolean(cond)
        if saved[0] is None:
            del self.env[var], self.lean[var]
        else:
            self.env[var], self.lean[var] = saved
        return f"({t}.any (fun {var} => {c}))"

    # ------------------------------------------------------------ statements -> Bool term
    def block(self, stmts: list[ast.stmt], k: str | None) -> str:
        """k: the term for falling off the end of `stmts` (None: falling off is an error of the subset)"""
        if not stmts:
            if k is None:
                raise Unsupported(self.name, "a path falls off the end of the function")
            return k
        s, rest = stmts[0], stmts[1:]
        if isinstance(s, ast.Expr) and isinstance(s.value, ast.Constant) and isinstance(s.value.value, str):
            return self.block(rest, k)
        if isinstance(s, ast.Return):
            if s.value is None:
                self.bad(s, "bare return")
            return self.boolean(s.value)[0]
        if self.loop_mode and isinstance(s, ast.Continue):
            return "false"
        if self.loop_mode and isinstance(s, ast.Expr) and isinstance(s.value, ast.Yield):
            if rest:
                self.bad(s, "statements after yield")
            return "true"
        if isinstance(s, ast.If):
            nm = self.none_test(s.test)
            body_returns = self.always_exits(s.body)
            if nm is not None and isinstance(self.env.get(nm[0]), tuple) and self.env[nm[0]][0] == "opt" and not s.orelse \
                    and body_returns and nm[1]:
                # `if x is None: <exits>` ; rest sees x narrowed
                name = nm[0]
                cur = self.lean[name]
                none_branch = self.block(s.body, None)
                saved = (self.env[name], self.lean[name])
                self.fresh += 1
                nv = f"{name}_{self.fresh}"
                self.env[name], self.lean[name] = saved[0][1], nv
                some_branch = self.block(rest, k)
                self.env[name], self.lean[name] = saved
                return f"(match {cur} with\n      | none => {none_branch}\n      | some {nv} => {some_branch})"
            c, _ = self.boolean(s.test)
            kk = self.block(rest, k) if (rest or k is not None) else None
            a = self.block(s.body, kk)
            b = self.block(s.orelse, kk) if s.orelse else kk
            if b is None:
                raise Unsupported(self.name, "a path falls off the end of the function")
            return f"(if {c} then {a}\n     else {b})"
        if isinstance(s, ast.For):
            # for v in it: if c: return True
            if (isinstance(s.target, ast.Name) and not s.orelse and len(s.body) == 1 and isinstance(s.body[0], ast.If)
                    and not s.body[0].orelse and len(s.body[0].body) == 1 and isinstance(s.body[0].body[0], ast.Return)
                    and isinstance(s.body[0].body[0].value, ast.Constant) and s.body[0].body[0].value.value is True):
                a = self.any_over(s.target.id, s.iter, s.body[0].test)
                kk = self.block(rest, k)
                return f"(if {a} then true\n     else {kk})"
            self.bad(s, "for loop shape")
        if isinstance(s, ast.Assign) and len(s.targets) == 1:
            tg = s.targets[0]
            if isinstance(tg, ast.Name):
                t, ty = self.expr(s.value)
                self.env[tg.id], self.lean[tg.id] = ty, tg.id
                return f"(let {tg.id} := {t}\n     {self.block(rest, k)})"
            if isinstance(tg, ast.Tuple) and all(isinstance(x, ast.Name) for x in tg.elts):
                t, ty = self.expr(s.value)
                if not (isinstance(ty, tuple) and ty[0] == "prod" and len(ty[1]) == len(tg.elts)):
                    self.bad(s, "tuple unpacking of a non-product")
                self.fresh += 1
                r = f"r_{self.fresh}"
                lets = [f"let {r} := {t}"]
                n = len(tg.elts)
                for i, (x, xt) in enumerate(zip(tg.elts, ty[1])):
                    proj = r + ".2" * i + (".1" if i < n - 1 else "")
                    lets.append(f"let {x.id} := {proj}")
                    self.env[x.id], self.lean[x.id] = xt, x.id
                return "(" + "\n     ".join(lets) + f"\n     {self.block(rest, k)})"
        self.bad(s, "statement")

    def always_exits(self, stmts) -> bool:
        if not stmts:
            return False
        s = stmts[-1]
        if isinstance(s, (ast.Return, ast.Continue, ast.Raise)):
            return True
        if isinstance(s, ast.If) and s.orelse:
            return self.always_exits(s.body) and self.always_exits(s.orelse)
        return False


HEADER = """/- GENERATED by harness/py2lean_k.py from src/pyoak/match/xpath.py and src/pyoak/node.py on every run of
   `./check C07` / `./check C12`.  Do not edit: Props/GenBridge.lean proves the hand-written model equal to exactly
   these definitions. -/
import PyOak.Model.Core
namespace PyOak.GenK
open PyOak

/-- `dataclasses.Field` as far as the xpath matcher looks at it -/
structure FieldR where
  name : Str
  deriving DecidableEq, Repr

/-- `dataclasses.Field` as far as `get_property_fields` looks at it -/
structure PField where
  name : Str
  compare : Bool
  init : Bool
  deriving DecidableEq, Repr
"""


def gen_record(lname: str, params: str, fields) -> str:
    out = [f"structure {lname} {params} where"]
    for fn, ft in fields:
        out.append(f"  {fn} : {lean_ty(ft)}")
    return "\n".join(out) + "\n"


def split_head_tail(fn: ast.FunctionDef, lst: str):
    """finds `x = L[0]` and `y = L[1:]` among the top-level statements; returns (x, y, remaining statements)"""
    head = tail = None
    rest = []
    for s in fn.body:
        if isinstance(s, ast.Assign) and len(s.targets) == 1 and isinstance(s.targets[0], ast.Name) \
                and isinstance(s.value, ast.Subscript) and isinstance(s.value.value, ast.Name) and s.value.value.id == lst:
            sl = s.value.slice
            if isinstance(sl, ast.Constant) and sl.value == 0 and head is None:
                head = s.targets[0].id
                continue
            if isinstance(sl, ast.Slice) and isinstance(sl.lower, ast.Constant) and sl.lower.value == 1 and sl.upper is None \
                    and sl.step is None and tail is None:
                tail = s.targets[0].id
                continue
        rest.append(s)
    return head, tail, rest


def uses_name(stmts, name: str) -> bool:
    return any(isinstance(n, ast.Name) and n.id == name for s in stmts for n in ast.walk(s))


HEADER_X = """/- GENERATED by harness/py2lean_k.py from src/pyoak/match/xpath.py on every run of `./check C07`.
   Do not edit: Props/GenBridgeXPath.lean proves the hand-written model `matchUpT` equal to exactly this definition
   (an OPTIONAL obligation: when this function leaves the translated subset or the bridge does not re-prove, C07 falls
   back on the correspondence between the hand-written model and the code, and says so in its evidence). -/
import PyOak.Gen.Kernels
namespace PyOak.GenK
open PyOak
"""


def _xpath_records(xp: K):
    info = xp.record("_NodeTraversalInfo")
    elem = xp.record("ASTXpathElement")
    records = {"_NodeTraversalInfo": ("NodeTraversalInfo", info), "NodeTraversalInfo": ("NodeTraversalInfo", info),
               "ASTXpathElement": ("ASTXpathElement", elem)}
    return info, elem, records


def generate(src: Path) -> str:
    """the REQUIRED kernels: record types, `_match_node_element`, loop body of `ASTNode.get_property_fields`"""
    out = [HEADER]
    xp = K(src / "pyoak" / "match" / "xpath.py")
    info, elem, records = _xpath_records(xp)
    out.append(gen_record("NodeTraversalInfo", "(N : Type)", info))
    out.append(gen_record("ASTXpathElement", "(C : Type)", elem))
    # ---- _match_node_element
    fn = xp.funcs.get("_match_node_element")
    if fn is None:
        raise Unsupported("_match_node_element", "function not found")
    pn = [a.arg for a in fn.args.args]
    if len(pn) != 2:
        raise Unsupported("_match_node_element", "expects (n_info, element)")
    f = Fn("_match_node_element", {pn[0]: ("rec", "_NodeTraversalInfo"), pn[1]: ("rec", "ASTXpathElement")}, records,
           {"isinstance": ("isinstance", [], "Bool")}, {})
    body = f.block(fn.body, None)
    out.append(f"/-- `_match_node_element` (src/pyoak/match/xpath.py) -/\n"
               f"def match_node_element {{N C : Type}} (isinstance : N → C → Bool) ({pn[0]} : NodeTraversalInfo N) "
               f"({pn[1]} : ASTXpathElement C) : Bool :=\n  {body}\n")
    # ---- ASTNode.get_property_fields
    nd = K(src / "pyoak" / "node.py")
    cls = nd.classes.get("ASTNode")
    meth = None if cls is None else next((s for s in cls.body if isinstance(s, ast.FunctionDef) and s.name == "get_property_fields"), None)
    if meth is None:
        raise Unsupported("ASTNode.get_property_fields", "method not found")
    flags = [a.arg for a in meth.args.args[1:]]
    want = ["skip_id", "skip_origin", "skip_content_id", "skip_non_compare", "skip_non_init"]
    if flags != want:
        raise Unsupported("ASTNode.get_property_fields", f"parameters {flags} (expected {want})")
    loops = [s for s in meth.body if isinstance(s, ast.For)]
    others = [s for s in meth.body if not isinstance(s, ast.For) and not (isinstance(s, ast.Expr) and isinstance(s.value, ast.Constant))]
    if len(loops) != 1 or others or not isinstance(loops[0].target, ast.Name):
        raise Unsupported("ASTNode.get_property_fields", "body is not a single for loop")
    it = loops[0].iter
    if not (isinstance(it, ast.Call) and isinstance(it.func, ast.Name) and it.func.id == "get_cls_props"):
        raise Unsupported("ASTNode.get_property_fields", f"iterates over {ast.unparse(it)} (expected get_cls_props(cls))")
    v = loops[0].target.id
    f = Fn("ASTNode.get_property_fields", dict({v: "PField"}, **{x: "Bool" for x in flags}), {}, {}, {}, loop_mode=True)
    body = f.block(loops[0].body, None)
    out.append("/-- body of the loop of `ASTNode.get_property_fields` (src/pyoak/node.py): `true` = the field is yielded -/\n"
               f"def get_property_fields_keep ({v} : PField) ({' '.join(flags)} : Bool) : Bool :=\n  {body}\n")
    out.append("end PyOak.GenK\n")
    return "\n".join(out)


def generate_xpath(src: Path) -> str:
    """the OPTIONAL kernel: `_match_node_xpath` (recursive, over the Tree tables)"""
    out = [HEADER_X]
    xp = K(src / "pyoak" / "match" / "xpath.py")
    _info, _elem, records = _xpath_records(xp)
    fn = xp.funcs.get("_match_node_xpath")
    if fn is None:
        raise Unsupported("_match_node_xpath", "function not found")
    pn = [a.arg for a in fn.args.args]
    if len(pn) != 3:
        raise Unsupported("_match_node_xpath", "expects (tree, node, elements)")
    tree, node, els = pn
    pinfo_ty = ("prod", [("opt", "N"), ("opt", "FieldR"), ("opt", "Int")])
    abstract = {"isinstance": ("isinstance", [], "Bool"),
                f"{tree}.get_parent_info": ("get_parent_info", ["N"], pinfo_ty),
                f"{tree}.get_ancestors": ("get_ancestors", ["N"], ("list", "N")),
                f"{tree}.get_parent": ("(fun n => (get_parent_info n).1)", ["N"], ("opt", "N"))}
    head, tail, rest = split_head_tail(fn, els)
    self_call = ("match_node_xpath isinstance get_parent_info get_ancestors", "Bool", [None, "N", ("list", ("rec", "ASTXpathElement"))])
    known = {"_match_node_element": ("match_node_element isinstance", "Bool", [("rec", "_NodeTraversalInfo"), ("rec", "ASTXpathElement")])}
    sig = (f"def match_node_xpath {{N C : Type}} (isinstance : N → C → Bool)\n    (get_parent_info : N → {lean_ty(pinfo_ty)}) "
           f"(get_ancestors : N → List N)\n    ({node} : N) ({els} : List (ASTXpathElement C)) : Bool :=\n")
    if head is None or tail is None:
        raise Unsupported("_match_node_xpath", f"no `x = {els}[0]` / `y = {els}[1:]` decomposition found")
    if uses_name(rest, els):
        raise Unsupported("_match_node_xpath", f"`{els}` used other than through `{els}[0]` / `{els}[1:]`")
    env2 = {node: "N", head: ("rec", "ASTXpathElement"), tail: ("list", ("rec", "ASTXpathElement"))}
    f = Fn("_match_node_xpath", env2, records, abstract, known, self_name="_match_node_xpath")
    f.self_call = self_call
    body = f.block(rest, None)
    out.append("/-- `_match_node_xpath` (src/pyoak/match/xpath.py): structural recursion on `elements` -/\n" + sig +
               f"  match {els} with\n  | [] => false\n  | {head} :: {tail} =>\n    {body}\n")
    out.append("end PyOak.GenK\n")
    return "\n".join(out)


# ------------------------------------------------------------------------------------------------ _eq_fn (C02, optional)

HEADER_EQ = """/- GENERATED by harness/py2lean_k.py from `_eq_fn` (src/pyoak/node.py) on every run of `./check C02`.
   Do not edit: Props/GenBridgeEq.lean proves the hand-written model `eqImpl` equal to exactly this definition (an OPTIONAL
   obligation, see harness/kernels_tie.py). -/
namespace PyOak.GenK

/-- `for a, b in zip(xs, ys, strict=True): if P(a, b): <exit>`: `ok true` = some pair satisfied P (the loop exits there,
before a later length mismatch could be noticed), `ok false` = both streams ended together, `error` = the ValueError of
`zip(strict=True)` when one stream ends before the other -/
def zipStrictFind {A : Type} (P : A → A → Bool) : List A → List A → Except Unit Bool
  | [], [] => .ok false
  | x :: xs, y :: ys => if P x y then .ok true else zipStrictFind P xs ys
  | _, _ => .error ()
"""


class EqFn:
    """translation of `_eq_fn(self, other)`: the result is an `Except Unit Bool` term over the abstract operations
    same_class / content_id / origin / dfs (a list of nodes; `item.node` of a traversal item is the node itself)"""

    def __init__(self, fn: ast.FunctionDef):
        self.fn = fn
        ps = [a.arg for a in fn.args.args]
        if len(ps) != 2:
            raise Unsupported("_eq_fn", "expects (self, other)")
        self.nodes = set(ps)          # names bound to nodes
        self.items: set[str] = set()  # names bound to traversal items (loop variables)

    def bad(self, node, why=""):
        raise Unsupported("_eq_fn", f"{why or 'construct'}: {ast.unparse(node)}"[:200])

    def klass(self, e):
        """`x.__class__` / `type(x)` -> x"""
        if isinstance(e, ast.Attribute) and e.attr == "__class__" and isinstance(e.value, ast.Name) and e.value.id in self.nodes:
            return e.value.id
        if isinstance(e, ast.Call) and isinstance(e.func, ast.Name) and e.func.id == "type" and len(e.args) == 1 \
                and isinstance(e.args[0], ast.Name) and e.args[0].id in self.nodes:
            return e.args[0].id
        return None

    def val(self, e):
        """-> (term, kind) for content_id / origin values"""
        if isinstance(e, ast.Attribute) and e.attr in ("content_id", "origin"):
            b = e.value
            if isinstance(b, ast.Call) and isinstance(b.func, ast.Name) and b.func.id == "cast" and len(b.args) == 2:
                b = b.args[1]          # typing.cast(T, x) is x
            if isinstance(b, ast.Name) and b.id in self.nodes:
                return f"({e.attr} {b.id})", e.attr
            if isinstance(b, ast.Attribute) and b.attr == "node" and isinstance(b.value, ast.Name) and b.value.id in self.items:
                return f"({e.attr} {b.value.id})", e.attr
            if isinstance(b, ast.Name) and b.id in self.items:
                self.bad(e, "attribute of a traversal item (expected item.node.<attr>)")
        self.bad(e, "value")

    def stream(self, e):
        if isinstance(e, ast.Call) and isinstance(e.func, ast.Attribute) and e.func.attr == "dfs" and not e.args and not e.keywords \
                and isinstance(e.func.value, ast.Name) and e.func.value.id in self.nodes:
            return f"(dfs {e.func.value.id})"
        self.bad(e, "stream (expected <node>.dfs())")

    def zipcall(self, e):
        """zip(A, B, strict=True) -> (A, B)"""
        if isinstance(e, ast.Call) and isinstance(e.func, ast.Name) and e.func.id == "zip" and len(e.args) == 2 \
                and len(e.keywords) == 1 and e.keywords[0].arg == "strict" and isinstance(e.keywords[0].value, ast.Constant) \
                and e.keywords[0].value.value is True:
            return self.stream(e.args[0]), self.stream(e.args[1])
        self.bad(e, "expected zip(<a>.dfs(), <b>.dfs(), strict=True)")

    def pure(self, e) -> str:
        """a Bool term without effects (no zip)"""
        if isinstance(e, ast.Constant) and isinstance(e.value, bool):
            return "true" if e.value else "false"
        if isinstance(e, ast.UnaryOp) and isinstance(e.op, ast.Not):
            return f"(!{self.pure(e.operand)})"
        if isinstance(e, ast.BoolOp):
            op = " && " if isinstance(e.op, ast.And) else " || "
            return "(" + op.join(self.pure(v) for v in e.values) + ")"
        if isinstance(e, ast.Compare) and len(e.ops) == 1:
            l, r, op = e.left, e.comparators[0], e.ops[0]
            kl, kr = self.klass(l), self.klass(r)
            if kl is not None and kr is not None and isinstance(op, (ast.Is, ast.IsNot, ast.Eq, ast.NotEq)):
                t = f"(same_class {kl} {kr})"
                return t if isinstance(op, (ast.Is, ast.Eq)) else f"(!{t})"
            if isinstance(op, (ast.Eq, ast.NotEq)):
                a, ka = self.val(l)
                b, kb = self.val(r)
                if ka != kb:
                    self.bad(e, "comparison of a content_id with an origin")
                t = f"({a} == {b})"
                return t if isinstance(op, ast.Eq) else f"(!{t})"
        self.bad(e, "condition")

    def pair_pred(self, target, cond) -> str:
        if not (isinstance(target, ast.Tuple) and len(target.elts) == 2 and all(isinstance(x, ast.Name) for x in target.elts)):
            self.bad(target, "loop target (expected two names)")
        a, b = target.elts[0].id, target.elts[1].id
        self.items |= {a, b}
        t = self.pure(cond)
        self.items -= {a, b}
        return f"(fun {a} {b} => {t})"

    def result(self, e) -> str:
        """an expression in return position: may be `not any(.. for a, b in zip(..))` / `all(..)` / pure"""
        neg = False
        x = e
        if isinstance(x, ast.UnaryOp) and isinstance(x.op, ast.Not):
            neg, x = True, x.operand
        if isinstance(x, ast.Call) and isinstance(x.func, ast.Name) and x.func.id in ("any", "all") and len(x.args) == 1 \
                and isinstance(x.args[0], ast.GeneratorExp) and len(x.args[0].generators) == 1 and not x.args[0].generators[0].ifs:
            g = x.args[0]
            xs, ys = self.zipcall(g.generators[0].iter)
            is_all = x.func.id == "all"
            cond = ast.UnaryOp(op=ast.Not(), operand=g.elt) if is_all else g.elt
            pred = self.pair_pred(g.generators[0].target, cond)
            # any: found -> True; all: found a counterexample -> False
            found, none = ("true", "false") if not is_all else ("false", "true")
            if neg:
                found, none = none, found
            return (f"(match zipStrictFind {pred} {xs} {ys} with\n      | .error u => .error u\n      | .ok true => .ok {found}"
                    f"\n      | .ok false => .ok {none})")
        if isinstance(e, ast.BoolOp) and isinstance(e.op, ast.And) and len(e.values) >= 2:
            # `cheap and cheap and <zip part>`: short-circuit
            head = ast.BoolOp(op=ast.And(), values=e.values[:-1]) if len(e.values) > 2 else e.values[0]
            try:
                h = self.pure(head)
            except Unsupported:
                h = None
            if h is not None:
                return f"(if {h} then {self.result(e.values[-1])} else .ok false)"
        return f".ok {self.pure(e)}"

    def block(self, stmts, k) -> str:
        if not stmts:
            if k is None:
                raise Unsupported("_eq_fn", "a path falls off the end of the function")
            return k
        s, rest = stmts[0], stmts[1:]
        if isinstance(s, ast.Expr) and isinstance(s.value, ast.Constant) and isinstance(s.value.value, str):
            return self.block(rest, k)
        if isinstance(s, ast.Return):
            if s.value is None:
                self.bad(s, "bare return")
            return self.result(s.value)
        if isinstance(s, ast.If):
            c = self.pure(s.test)
            kk = self.block(rest, k) if (rest or k is not None) else None
            a = self.block(s.body, kk)
            b = self.block(s.orelse, kk) if s.orelse else kk
            if b is None:
                raise Unsupported("_eq_fn", "a path falls off the end of the function")
            return f"(if {c} then {a}\n     else {b})"
        if isinstance(s, ast.For):
            if s.orelse or len(s.body) != 1 or not isinstance(s.body[0], ast.If) or s.body[0].orelse \
                    or len(s.body[0].body) != 1 or not isinstance(s.body[0].body[0], ast.Return):
                self.bad(s, "loop shape (expected `for a, b in zip(..): if c: return <const>`)")
            xs, ys = self.zipcall(s.iter)
            pred = self.pair_pred(s.target, s.body[0].test)
            exit_ = self.result(s.body[0].body[0].value)
            kk = self.block(rest, k)
            return (f"(match zipStrictFind {pred} {xs} {ys} with\n      | .error u => .error u\n      | .ok true => {exit_}"
                    f"\n      | .ok false => {kk})")
        self.bad(s, "statement")


def generate_eq(src: Path) -> str:
    nd = K(src / "pyoak" / "node.py")
    fn = nd.funcs.get("_eq_fn")
    if fn is None:
        raise Unsupported("_eq_fn", "function not found")
    t = EqFn(fn)
    ps = [a.arg for a in fn.args.args]
    body = t.block(fn.body, None)
    return (HEADER_EQ + "\n/-- `_eq_fn` (src/pyoak/node.py): `a == b` -/\n"
            "def eq_fn {N O : Type} [BEq O] (same_class : N → N → Bool) (content_id : N → List Char) (origin : N → O)\n"
            f"    (dfs : N → List N) ({ps[0]} {ps[1]} : N) : Except Unit Bool :=\n  {body}\n\nend PyOak.GenK\n")


HEADER_ISEQ = """/- GENERATED by harness/py2lean_k.py from `ASTNode.is_equal` (src/pyoak/node.py) on every run of `./check C01`.
   Do not edit: Props/GenBridgeIsEq.lean proves the hand-written model `isEqual` equal to exactly this definition (an OPTIONAL
   obligation, see harness/kernels_tie.py). -/
import PyOak.Gen.KernelsEq
namespace PyOak.GenK
"""


def generate_is_equal(src: Path) -> str:
    nd = K(src / "pyoak" / "node.py")
    cls = nd.classes.get("ASTNode")
    fn = None if cls is None else next((x for x in cls.body if isinstance(x, ast.FunctionDef) and x.name == "is_equal"), None)
    if fn is None:
        raise Unsupported("ASTNode.is_equal", "method not found")
    t = EqFn(fn)
    ps = [a.arg for a in fn.args.args]
    body = t.block(fn.body, None)
    return (HEADER_ISEQ + "\n/-- `ASTNode.is_equal` (src/pyoak/node.py) -/\n"
            "def is_equal {N O : Type} [BEq O] (same_class : N → N → Bool) (content_id : N → List Char) (origin : N → O)\n"
            f"    (dfs : N → List N) ({ps[0]} {ps[1]} : N) : Except Unit Bool :=\n  {body}\n\nend PyOak.GenK\n")


def write_if_changed(src: Path, dest: Path) -> tuple[bool, str]:
    text = generate(src)
    if dest.exists() and dest.read_text() == text:
        return False, text
    dest.write_text(text)
    return True, text


if __name__ == "__main__":
    import sys
    root = Path(sys.argv[1] if len(sys.argv) > 1 else "/repo/src")
    print(generate(root))
    print(generate_xpath(root))
    print(generate_eq(root))
    print(generate_is_equal(root))
