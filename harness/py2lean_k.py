"""py2lean_k — Python-AST -> Lean 4 translator for the *decision kernels* of pyoak that are not plain arithmetic
(those are handled by py2lean.py for C15): functions whose body is a decision tree over Optional-typed record
attributes, possibly recursive over a list parameter.

Regenerated on every run of the checks that use it (C07, C12) from the source files of the tree under examination:

  src/pyoak/match/xpath.py   _NodeTraversalInfo, ASTXpathElement (record types, from their annotations)
                             _match_node_element     -> GenK.match_node_element
                             _match_node_xpath       -> GenK.match_node_xpath   (structural recursion on `elements`)
  src/pyoak/node.py          ASTNode.get_property_fields (loop body)  -> GenK.get_property_fields_keep
  src/pyoak/legacy/match/xpath.py   _match_node_xpath (LEGACY; C20, optional) -> GenK.LX.match_node_xpath  (class `LFn`, idiom
                             table LEGACY_IDIOMS; abstract node primitives, fuel)

The bridge theorems (Props/GenBridge.lean) prove the hand-written model functions equal to the generated ones, so the
C07 / C12 property theorems are theorems about what the source says *now*: a semantic change of one of these functions
changes the generated definition and breaks the bridge (then the correspondence / oracles look for the failing input);
a harmless rewrite (reordered independent tests, De Morgan, early returns instead of one big condition, `any(...)`
instead of a for loop) generates an equivalent definition and the bridge re-proves (`grind` / `simp` proofs).

Accepted subset (anything else: `Unsupported` naming the function and the construct -- never silently skipped):

  stmt ::= docstring | `x = e` | `a, b, c = e` (e of a product type) | `x = L[0]` + `y = L[1:]` for a list parameter L
           (becomes `match L with | [] => <raises: false> | x :: y => ..`) | `if c: .. [elif/else ..]` | `return e`
         | `for v in e: if c: return True`  (-> `if e.any (fun v => c) then true else ..`)
         | inside a loop body: `continue` (-> false) and a final `yield v` (-> true)
  e    ::= name | e.attr | True | False | None | int / str literal | `not e` | `e and e` | `e or e`
         | `e is None` | `e is not None` | `e == e` | `e != e` | `len(e) == 0` | `len(e) > 0` | `any(g for v in e)`
         | `isinstance(e, e)` (abstract parameter) | `obj.method(args)` for the declared abstract methods
         | `Record(e, ..)` | call of another translated function

Python semantics that the translation respects / totalises (stated here because they are part of the trusted base):
  * `x is None` / `x is not None` on an Optional value; after `if x is None: <returns>` (or inside `x is not None and ..`)
    the name is narrowed to the underlying type (`match x with | none => .. | some x => ..`);
  * `a == b` between `Optional[T]` and `T` (or two Optionals) is equality of the underlying values with `None` equal only to
    `None`  (`some a == b`, `a == some b`);
  * attribute access on an Optional receiver that is NOT narrowed (`x.name` where x may be None) raises AttributeError in
    Python; it is translated as `x.map (·.name)` (an Optional result) -- a guard removed in the source therefore shows up as a
    changed definition AND, on the real code, as an exception that the correspondence observes;
  * `L[0]` on an empty list raises IndexError; the generated `match` answers `false` there (the model does the same, and
    no caller passes an empty list: `ASTXpath` always has at least one element).
"""
from __future__ import annotations

import ast
from pathlib import Path


class Unsupported(Exception):
    def __init__(self, where: str, why: str):
        super().__init__(f"{where}: {why}")
        self.where, self.why = where, why


# ---- Lean types: ("opt", t) | ("list", t) | ("prod", [t..]) | ("rec", name) | "N" | "C" | "Int" | "Str" | "Bool" | "FieldR"

def lean_ty(t) -> str:
    if isinstance(t, tuple):
        if t[0] == "opt":
            return f"(Option {lean_ty(t[1])})"
        if t[0] == "list":
            return f"(List {lean_ty(t[1])})"
        if t[0] == "prod":
            return "(" + " × ".join(lean_ty(x) for x in t[1]) + ")"
        if t[0] == "rec":
            return {"NodeTraversalInfo": "(NodeTraversalInfo N)", "ASTXpathElement": "(ASTXpathElement C)"}.get(t[1], t[1])
    return t


def ann_ty(a: ast.expr, where: str):
    """annotation -> type"""
    if isinstance(a, ast.Constant) and a.value is None:
        return "None"
    if isinstance(a, ast.Name):
        m = {"ASTNode": "N", "Field": "FieldR", "int": "Int", "str": "Str", "bool": "Bool"}
        if a.id in m:
            return m[a.id]
    if isinstance(a, ast.BinOp) and isinstance(a.op, ast.BitOr):
        l, r = ann_ty(a.left, where), ann_ty(a.right, where)
        if r == "None":
            return ("opt", l)
        if l == "None":
            return ("opt", r)
    if isinstance(a, ast.Subscript) and isinstance(a.value, ast.Name):
        if a.value.id in ("type", "Type") and isinstance(a.slice, ast.Name) and a.slice.id == "ASTNode":
            return "C"
        if a.value.id == "Optional":
            return ("opt", ann_ty(a.slice, where))
        if a.value.id == "list":
            return ("list", ann_ty(a.slice, where))
    raise Unsupported(where, f"annotation {ast.unparse(a)}")


def str_lit(s: str) -> str:
    return "[" + ", ".join("'" + (c if c not in "'\\" else "\\" + c) + "'" for c in s) + "]"


class K:
    """one source file"""

    def __init__(self, path: Path):
        self.path = path
        self.mod = ast.parse(path.read_text(), str(path))
        self.classes = {s.name: s for s in self.mod.body if isinstance(s, ast.ClassDef)}
        self.funcs = {s.name: s for s in self.mod.body if isinstance(s, ast.FunctionDef)}

    def record(self, pyname: str) -> list[tuple[str, object]]:
        c = self.classes.get(pyname)
        if c is None:
            raise Unsupported(pyname, "class not found")
        out = []
        for st in c.body:
            if isinstance(st, ast.AnnAssign) and isinstance(st.target, ast.Name):
                out.append((st.target.id, ann_ty(st.annotation, f"{pyname}.{st.target.id}")))
            elif isinstance(st, ast.Expr) and isinstance(st.value, ast.Constant):
                continue
            elif isinstance(st, ast.Pass):
                continue
            else:
                raise Unsupported(pyname, f"class body statement {type(st).__name__}")
        return out


class Fn:
    """translation of one function body into a Lean Bool term"""

    def __init__(self, name: str, env: dict, records: dict, abstract: dict, known_fns: dict, self_name: str | None = None,
                 rec_args: list[str] | None = None, loop_mode: bool = False):
        self.name = name
        self.env = dict(env)            # python name -> type
        self.lean = {k: k for k in env}   # python name -> lean term (changes under narrowing)
        self.records = records          # python record name -> (lean record name, [(field, type)])
        self.abstract = abstract        # "isinstance" / "tree.get_parent_info" .. -> (lean name, [arg types], result type)
        self.known = known_fns          # python function name -> (lean call prefix, result type)
        self.self_name = self_name
        self.rec_args = rec_args or []
        self.loop_mode = loop_mode
        self.fresh = 0

    def bad(self, node, why=""):
        raise Unsupported(self.name, f"{why or 'construct'}: {ast.unparse(node) if isinstance(node, ast.AST) else node}"[:200])

    # ------------------------------------------------------------ expressions -> (term, type)
    def expr(self, e: ast.expr):
        if isinstance(e, ast.Name):
            if e.id in self.env:
                return self.lean[e.id], self.env[e.id]
            self.bad(e, "unknown name")
        if isinstance(e, ast.Constant):
            if e.value is True:
                return "true", "Bool"
            if e.value is False:
                return "false", "Bool"
            if e.value is None:
                return "none", ("opt", "?")
            if isinstance(e.value, int):
                return f"({e.value} : Int)", "Int"
            if isinstance(e.value, str):
                return f"({str_lit(e.value)} : Str)", "Str"
        if isinstance(e, ast.Attribute):
            base, bt = self.expr(e.value)
            opt = isinstance(bt, tuple) and bt[0] == "opt"
            rt = bt[1] if opt else bt
            fields = None
            if isinstance(rt, tuple) and rt[0] == "rec":
                fields = dict(self.records[rt[1]][1])
            elif rt == "FieldR":
                fields = {"name": "Str"}
            elif rt == "PField":
                fields = {"name": "Str", "compare": "Bool", "init": "Bool"}
            if fields is None or e.attr not in fields:
                self.bad(e, "attribute of an unknown type")
            ft = fields[e.attr]
            if not opt:
                return f"{base}.{e.attr}", ft
            if isinstance(ft, tuple) and ft[0] == "opt":
                return f"({base}.bind (·.{e.attr}))", ft
            return f"({base}.map (·.{e.attr}))", ("opt", ft)
        if isinstance(e, ast.UnaryOp) and isinstance(e.op, ast.Not):
            t, ty = self.boolean(e.operand)
            return f"(!{t})", "Bool"
        if isinstance(e, ast.BoolOp):
            return self.boolop(e)
        if isinstance(e, ast.Compare) and len(e.ops) == 1:
            return self.compare(e.left, e.ops[0], e.comparators[0])
        if isinstance(e, ast.Call):
            return self.call(e)
        if isinstance(e, ast.IfExp):
            c, _ = self.boolean(e.test)
            a, ta = self.expr(e.body)
            b, tb = self.expr(e.orelse)
            return f"(if {c} then {a} else {b})", ta
        self.bad(e)

    def boolean(self, e):
        t, ty = self.expr(e)
        if ty != "Bool":
            self.bad(e, f"truthiness of a non-bool ({ty}) is not translated")
        return t, ty

    def boolop(self, e: ast.BoolOp):
        """`and` / `or` with left-to-right narrowing: in `x is not None and P` (resp. `x is None or P`) P sees x narrowed"""
        is_and = isinstance(e.op, ast.And)
        vals = list(e.values)

        def go(i):
            if i == len(vals) - 1:
                return self.boolean(vals[i])[0]
            v = vals[i]
            nm = self.none_test(v)
            if nm is not None and nm[1] == (not is_and) and isinstance(self.env.get(nm[0]), tuple) and self.env[nm[0]][0] == "opt":
                # and: `x is not None and REST`  -> match x with | none => false | some x => REST
                # or : `x is None or REST`       -> match x with | none => true  | some x => REST
                name = nm[0]
                cur = self.lean[name]
                saved = (self.env[name], self.lean[name])
                self.fresh += 1
                nv = f"{name}_{self.fresh}"
                self.env[name], self.lean[name] = saved[0][1], nv
                rest = go(i + 1)
                self.env[name], self.lean[name] = saved
                return f"(match {cur} with | none => {'false' if is_and else 'true'} | some {nv} => {rest})"
            t = self.boolean(v)[0]
            rest = go(i + 1)
            return f"({t} {'&&' if is_and else '||'} {rest})"
        return go(0), "Bool"

    def none_test(self, e):
        """-> (name, is_none: bool) for `NAME is None` / `NAME is not None`"""
        if isinstance(e, ast.Compare) and len(e.ops) == 1 and isinstance(e.comparators[0], ast.Constant) \
                and e.comparators[0].value is None and isinstance(e.left, ast.Name) and isinstance(e.ops[0], (ast.Is, ast.IsNot)):
            return e.left.id, isinstance(e.ops[0], ast.Is)
        return None

    def compare(self, l, op, r):
        if isinstance(op, (ast.Is, ast.IsNot)):
            if isinstance(r, ast.Constant) and r.value is None:
                t, ty = self.expr(l)
                if isinstance(ty, tuple) and ty[0] == "opt":
                    return (f"{t}.isNone" if isinstance(op, ast.Is) else f"{t}.isSome"), "Bool"
                return ("false" if isinstance(op, ast.Is) else "true"), "Bool"     # a narrowed (non-optional) value
            self.bad(l, "`is` between values")
        if isinstance(op, (ast.Eq, ast.NotEq)):
            # len(x) == 0
            if isinstance(l, ast.Call) and isinstance(l.func, ast.Name) and l.func.id == "len" and isinstance(r, ast.Constant) and r.value == 0:
                t, ty = self.expr(l.args[0])
                if not (isinstance(ty, tuple) and ty[0] == "list"):
                    self.bad(l, "len of a non-list")
                return (f"{t}.isEmpty" if isinstance(op, ast.Eq) else f"(!{t}.isEmpty)"), "Bool"
            a, ta = self.expr(l)
            b, tb = self.expr(r)
            oa, ob = isinstance(ta, tuple) and ta[0] == "opt", isinstance(tb, tuple) and tb[0] == "opt"
            if oa and not ob:
                b = f"(some {b})"
            elif ob and not oa:
                a = f"(some {a})"
            t = f"({a} == {b})"
            return (t if isinstance(op, ast.Eq) else f"(!{t})"), "Bool"
        if isinstance(op, (ast.Gt,)) and isinstance(l, ast.Call) and isinstance(l.func, ast.Name) and l.func.id == "len" \
                and isinstance(r, ast.Constant) and r.value == 0:
            t, ty = self.expr(l.args[0])
            return f"(!{t}.isEmpty)", "Bool"
        self.bad(l, f"comparison {type(op).__name__}")

    def call(self, e: ast.Call):
        f = e.func
        if isinstance(f, ast.Name):
            if f.id == "isinstance" and "isinstance" in self.abstract:
                a, _ = self.expr(e.args[0])
                b, _ = self.expr(e.args[1])
                return f"(isinstance {a} {b})", "Bool"
            if f.id == "any" and len(e.args) == 1 and isinstance(e.args[0], ast.GeneratorExp):
                g = e.args[0]
                if len(g.generators) != 1 or g.generators[0].ifs or not isinstance(g.generators[0].target, ast.Name):
                    self.bad(e, "generator shape")
                return self.any_over(g.generators[0].target.id, g.generators[0].iter, g.elt), "Bool"
            if f.id in self.records:
                lname, fields = self.records[f.id]
                if e.keywords or len(e.args) != len(fields):
                    self.bad(e, "record constructor arguments")
                parts = []
                for (fn, ft), a in zip(fields, e.args):
                    t, ty = self.expr(a)
                    if isinstance(ft, tuple) and ft[0] == "opt" and not (isinstance(ty, tuple) and ty[0] == "opt"):
                        t = f"(some {t})"
                    parts.append(f"{fn} := {t}")
                return "{ " + ", ".join(parts) + " }", ("rec", f.id)
            if f.id == self.self_name or f.id in self.known:
                prefix, rty, ptypes = (self.known[f.id] if f.id in self.known else (None, None, None))
                if f.id == self.self_name:
                    prefix, rty, ptypes = self.self_call
                args = []
                skipped = 0
                for a, pt in zip(e.args, ptypes):
                    if pt is None:        # an argument that became abstract parameters (e.g. `tree`)
                        continue
                    t, ty = self.expr(a)
                    if isinstance(ty, tuple) and ty[0] == "opt" and not (isinstance(pt, tuple) and pt[0] == "opt"):
                        self.bad(a, "an Optional value passed where the callee expects a plain one (not narrowed)")
                    args.append(t)
                return f"({prefix} {' '.join(args)})", rty
        if isinstance(f, ast.Attribute) and isinstance(f.value, ast.Name):
            key = f"{f.value.id}.{f.attr}"
            if key in self.abstract:
                lname, atys, rty = self.abstract[key]
                args = [self.expr(a)[0] for a in e.args]
                return f"({lname} {' '.join(args)})", rty
        self.bad(e, "call")

    def any_over(self, var: str, it: ast.expr, cond: ast.expr) -> str:
        t, ty = self.expr(it)
        if not (isinstance(ty, tuple) and ty[0] == "list"):
            self.bad(it, "iteration over a non-list")
        saved = (self.env.get(var), self.lean.get(var))
        self.env[var], self.lean[var] = ty[1], var
        c, _ = self.boolean(cond)
        if saved[0] is None:
            del self.env[var], self.lean[var]
        else:
            self.env[var], self.lean[var] = saved
        return f"({t}.any (fun {var} => {c}))"

    # ------------------------------------------------------------ statements -> Bool term
    def block(self, stmts: list[ast.stmt], k: str | None) -> str:
        """k: the term for falling off the end of `stmts` (None: falling off is an error of the subset)"""
        if not stmts:
            if k is None:
                raise Unsupported(self.name, "a path falls off the end of the function")
            return k
        s, rest = stmts[0], stmts[1:]
        if isinstance(s, ast.Expr) and isinstance(s.value, ast.Constant) and isinstance(s.value.value, str):
            return self.block(rest, k)
        if isinstance(s, ast.Return):
            if s.value is None:
                self.bad(s, "bare return")
            return self.boolean(s.value)[0]
        if self.loop_mode and isinstance(s, ast.Continue):
            return "false"
        if self.loop_mode and isinstance(s, ast.Expr) and isinstance(s.value, ast.Yield):
            if rest:
                self.bad(s, "statements after yield")
            return "true"
        if isinstance(s, ast.If):
            nm = self.none_test(s.test)
            body_returns = self.always_exits(s.body)
            if nm is not None and isinstance(self.env.get(nm[0]), tuple) and self.env[nm[0]][0] == "opt" and not s.orelse \
                    and body_returns and nm[1]:
                # `if x is None: <exits>` ; rest sees x narrowed
                name = nm[0]
                cur = self.lean[name]
                none_branch = self.block(s.body, None)
                saved = (self.env[name], self.lean[name])
                self.fresh += 1
                nv = f"{name}_{self.fresh}"
                self.env[name], self.lean[name] = saved[0][1], nv
                some_branch = self.block(rest, k)
                self.env[name], self.lean[name] = saved
                return f"(match {cur} with\n      | none => {none_branch}\n      | some {nv} => {some_branch})"
            c, _ = self.boolean(s.test)
            kk = self.block(rest, k) if (rest or k is not None) else None
            a = self.block(s.body, kk)
            b = self.block(s.orelse, kk) if s.orelse else kk
            if b is None:
                raise Unsupported(self.name, "a path falls off the end of the function")
            return f"(if {c} then {a}\n     else {b})"
        if isinstance(s, ast.For):
            # for v in it: if c: return True
            if (isinstance(s.target, ast.Name) and not s.orelse and len(s.body) == 1 and isinstance(s.body[0], ast.If)
                    and not s.body[0].orelse and len(s.body[0].body) == 1 and isinstance(s.body[0].body[0], ast.Return)
                    and isinstance(s.body[0].body[0].value, ast.Constant) and s.body[0].body[0].value.value is True):
                a = self.any_over(s.target.id, s.iter, s.body[0].test)
                kk = self.block(rest, k)
                return f"(if {a} then true\n     else {kk})"
            self.bad(s, "for loop shape")
        if isinstance(s, ast.Assign) and len(s.targets) == 1:
            tg = s.targets[0]
            if isinstance(tg, ast.Name):
                t, ty = self.expr(s.value)
                self.env[tg.id], self.lean[tg.id] = ty, tg.id
                return f"(let {tg.id} := {t}\n     {self.block(rest, k)})"
            if isinstance(tg, ast.Tuple) and all(isinstance(x, ast.Name) for x in tg.elts):
                t, ty = self.expr(s.value)
                if not (isinstance(ty, tuple) and ty[0] == "prod" and len(ty[1]) == len(tg.elts)):
                    self.bad(s, "tuple unpacking of a non-product")
                self.fresh += 1
                r = f"r_{self.fresh}"
                lets = [f"let {r} := {t}"]
                n = len(tg.elts)
                for i, (x, xt) in enumerate(zip(tg.elts, ty[1])):
                    proj = r + ".2" * i + (".1" if i < n - 1 else "")
                    lets.append(f"let {x.id} := {proj}")
                    self.env[x.id], self.lean[x.id] = xt, x.id
                return "(" + "\n     ".join(lets) + f"\n     {self.block(rest, k)})"
        self.bad(s, "statement")

    def always_exits(self, stmts) -> bool:
        if not stmts:
            return False
        s = stmts[-1]
        if isinstance(s, (ast.Return, ast.Continue, ast.Raise)):
            return True
        if isinstance(s, ast.If) and s.orelse:
            return self.always_exits(s.body) and self.always_exits(s.orelse)
        return False


HEADER = """/- GENERATED by harness/py2lean_k.py from src/pyoak/match/xpath.py and src/pyoak/node.py on every run of
   `./check C07` / `./check C12`.  Do not edit: Props/GenBridge.lean proves the hand-written model equal to exactly
   these definitions. -/
import PyOak.Model.Core
namespace PyOak.GenK
open PyOak

/-- `dataclasses.Field` as far as the xpath matcher looks at it -/
structure FieldR where
  name : Str
  deriving DecidableEq, Repr

/-- `dataclasses.Field` as far as `get_property_fields` looks at it -/
structure PField where
  name : Str
  compare : Bool
  init : Bool
  deriving DecidableEq, Repr
"""


def gen_record(lname: str, params: str, fields) -> str:
    out = [f"structure {lname} {params} where"]
    for fn, ft in fields:
        out.append(f"  {fn} : {lean_ty(ft)}")
    return "\n".join(out) + "\n"


def split_head_tail(fn: ast.FunctionDef, lst: str):
    """finds `x = L[0]` and `y = L[1:]` among the top-level statements; returns (x, y, remaining statements)"""
    head = tail = None
    rest = []
    for s in fn.body:
        if isinstance(s, ast.Assign) and len(s.targets) == 1 and isinstance(s.targets[0], ast.Name) \
                and isinstance(s.value, ast.Subscript) and isinstance(s.value.value, ast.Name) and s.value.value.id == lst:
            sl = s.value.slice
            if isinstance(sl, ast.Constant) and sl.value == 0 and head is None:
                head = s.targets[0].id
                continue
            if isinstance(sl, ast.Slice) and isinstance(sl.lower, ast.Constant) and sl.lower.value == 1 and sl.upper is None \
                    and sl.step is None and tail is None:
                tail = s.targets[0].id
                continue
        rest.append(s)
    return head, tail, rest


def uses_name(stmts, name: str) -> bool:
    return any(isinstance(n, ast.Name) and n.id == name for s in stmts for n in ast.walk(s))


HEADER_X = """/- GENERATED by harness/py2lean_k.py from src/pyoak/match/xpath.py on every run of `./check C07`.
   Do not edit: Props/GenBridgeXPath.lean proves the hand-written model `matchUpT` equal to exactly this definition
   (an OPTIONAL obligation: when this function leaves the translated subset or the bridge does not re-prove, C07 falls
   back on the correspondence between the hand-written model and the code, and says so in its evidence). -/
import PyOak.Gen.Kernels
namespace PyOak.GenK
open PyOak
"""


def _xpath_records(xp: K):
    info = xp.record("_NodeTraversalInfo")
    elem = xp.record("ASTXpathElement")
    records = {"_NodeTraversalInfo": ("NodeTraversalInfo", info), "NodeTraversalInfo": ("NodeTraversalInfo", info),
               "ASTXpathElement": ("ASTXpathElement", elem)}
    return info, elem, records


def generate(src: Path) -> str:
    """the REQUIRED kernels: record types, `_match_node_element`, loop body of `ASTNode.get_property_fields`"""
    out = [HEADER]
    xp = K(src / "pyoak" / "match" / "xpath.py")
    info, elem, records = _xpath_records(xp)
    out.append(gen_record("NodeTraversalInfo", "(N : Type)", info))
    out.append(gen_record("ASTXpathElement", "(C : Type)", elem))
    # ---- _match_node_element
    fn = xp.funcs.get("_match_node_element")
    if fn is None:
        raise Unsupported("_match_node_element", "function not found")
    pn = [a.arg for a in fn.args.args]
    if len(pn) != 2:
        raise Unsupported("_match_node_element", "expects (n_info, element)")
    f = Fn("_match_node_element", {pn[0]: ("rec", "_NodeTraversalInfo"), pn[1]: ("rec", "ASTXpathElement")}, records,
           {"isinstance": ("isinstance", [], "Bool")}, {})
    body = f.block(fn.body, None)
    out.append(f"/-- `_match_node_element` (src/pyoak/match/xpath.py) -/\n"
               f"def match_node_element {{N C : Type}} (isinstance : N → C → Bool) ({pn[0]} : NodeTraversalInfo N) "
               f"({pn[1]} : ASTXpathElement C) : Bool :=\n  {body}\n")
    # ---- ASTNode.get_property_fields
    nd = K(src / "pyoak" / "node.py")
    cls = nd.classes.get("ASTNode")
    meth = None if cls is None else next((s for s in cls.body if isinstance(s, ast.FunctionDef) and s.name == "get_property_fields"), None)
    if meth is None:
        raise Unsupported("ASTNode.get_property_fields", "method not found")
    flags = [a.arg for a in meth.args.args[1:]]
    want = ["skip_id", "skip_origin", "skip_content_id", "skip_non_compare", "skip_non_init"]
    if flags != want:
        raise Unsupported("ASTNode.get_property_fields", f"parameters {flags} (expected {want})")
    loops = [s for s in meth.body if isinstance(s, ast.For)]
    others = [s for s in meth.body if not isinstance(s, ast.For) and not (isinstance(s, ast.Expr) and isinstance(s.value, ast.Constant))]
    if len(loops) != 1 or others or not isinstance(loops[0].target, ast.Name):
        raise Unsupported("ASTNode.get_property_fields", "body is not a single for loop")
    it = loops[0].iter
    if not (isinstance(it, ast.Call) and isinstance(it.func, ast.Name) and it.func.id == "get_cls_props"):
        raise Unsupported("ASTNode.get_property_fields", f"iterates over {ast.unparse(it)} (expected get_cls_props(cls))")
    v = loops[0].target.id
    f = Fn("ASTNode.get_property_fields", dict({v: "PField"}, **{x: "Bool" for x in flags}), {}, {}, {}, loop_mode=True)
    body = f.block(loops[0].body, None)
    out.append("/-- body of the loop of `ASTNode.get_property_fields` (src/pyoak/node.py): `true` = the field is yielded -/\n"
               f"def get_property_fields_keep ({v} : PField) ({' '.join(flags)} : Bool) : Bool :=\n  {body}\n")
    out.append("end PyOak.GenK\n")
    return "\n".join(out)


def generate_xpath(src: Path) -> str:
    """the OPTIONAL kernel: `_match_node_xpath` (recursive, over the Tree tables)"""
    out = [HEADER_X]
    xp = K(src / "pyoak" / "match" / "xpath.py")
    _info, _elem, records = _xpath_records(xp)
    fn = xp.funcs.get("_match_node_xpath")
    if fn is None:
        raise Unsupported("_match_node_xpath", "function not found")
    pn = [a.arg for a in fn.args.args]
    if len(pn) != 3:
        raise Unsupported("_match_node_xpath", "expects (tree, node, elements)")
    tree, node, els = pn
    pinfo_ty = ("prod", [("opt", "N"), ("opt", "FieldR"), ("opt", "Int")])
    abstract = {"isinstance": ("isinstance", [], "Bool"),
                f"{tree}.get_parent_info": ("get_parent_info", ["N"], pinfo_ty),
                f"{tree}.get_ancestors": ("get_ancestors", ["N"], ("list", "N")),
                f"{tree}.get_parent": ("(fun n => (get_parent_info n).1)", ["N"], ("opt", "N"))}
    head, tail, rest = split_head_tail(fn, els)
    self_call = ("match_node_xpath isinstance get_parent_info get_ancestors", "Bool", [None, "N", ("list", ("rec", "ASTXpathElement"))])
    known = {"_match_node_element": ("match_node_element isinstance", "Bool", [("rec", "_NodeTraversalInfo"), ("rec", "ASTXpathElement")])}
    sig = (f"def match_node_xpath {{N C : Type}} (isinstance : N → C → Bool)\n    (get_parent_info : N → {lean_ty(pinfo_ty)}) "
           f"(get_ancestors : N → List N)\n    ({node} : N) ({els} : List (ASTXpathElement C)) : Bool :=\n")
    if head is None or tail is None:
        raise Unsupported("_match_node_xpath", f"no `x = {els}[0]` / `y = {els}[1:]` decomposition found")
    if uses_name(rest, els):
        raise Unsupported("_match_node_xpath", f"`{els}` used other than through `{els}[0]` / `{els}[1:]`")
    env2 = {node: "N", head: ("rec", "ASTXpathElement"), tail: ("list", ("rec", "ASTXpathElement"))}
    f = Fn("_match_node_xpath", env2, records, abstract, known, self_name="_match_node_xpath")
    f.self_call = self_call
    body = f.block(rest, None)
    out.append("/-- `_match_node_xpath` (src/pyoak/match/xpath.py): structural recursion on `elements` -/\n" + sig +
               f"  match {els} with\n  | [] => false\n  | {head} :: {tail} =>\n    {body}\n")
    out.append("end PyOak.GenK\n")
    return "\n".join(out)


# ------------------------------------------------------------------------------------------------ legacy xpath (C20, optional)

# THE table of legacy-specific idioms (part of the trusted base; everything else goes through `Fn`).  A node of the legacy
# module is an abstract value of type N; what `_match_node_xpath` reads of it are these primitives, which the bridge
# (Props/GenBridgeLegacyXPath.lean) instantiates with the heap model's `LState.parent`, `LObj.pfield`, `LObj.pindex`,
# `LObj.mro` and `Legacy.ancestors`.
LEGACY_NODE_ATTRS = {               # `node.<attr>` on a node that is known not to be None
    "parent": ("parent", ("opt", "N")),                   # AwareASTNode.parent         : AwareASTNode | None
    "parent_field": ("parent_field", ("opt", "FieldR")),  # AwareASTNode.parent_field   : Field | None
    "parent_index": ("parent_index", ("opt", "Int")),     # AwareASTNode.parent_index   : int | None
}
LEGACY_NODE_METHODS = {             # `node.<method>()`, no arguments
    "ancestors": ("ancestors", ("list", "N")),            # list(node.ancestors()), nearest first
}
LEGACY_SENTINEL = "ASTXpathAnywhereElement"               # isinstance(x, <sentinel>)  ->  constructor test on LegacyEl
LEGACY_TRUTHY_OPT = {"FieldR"}                            # `if x` / `x if .. else ..` on Optional[Field]: a Field is always truthy
T_LEL = "(LegacyEl C)"                                    # ASTXpathElement | ASTXpathAnywhereElement
LEGACY_IDIOMS = [
    ("node: ASTNode | None", "Option N; `node is None` narrows (match .. | none | some ..); an attribute of a node that may be None: Unsupported"),
    ("node.parent / node.parent_field / node.parent_index", "abstract primitives parent / parent_field / parent_index : N -> Option .."),
    ("node.parent_field.name", "FieldR.name (on the un-narrowed Optional: Option.map, as in Fn)"),
    ("X if node.parent_field else Y", "truthiness of Optional[Field] = isSome (dataclasses.Field defines neither __bool__ nor __len__)"),
    ("for a in node.ancestors(): if P(a): return True", "(ancestors node).any P, ancestors : N -> List N (nearest first)"),
    ("isinstance(x, ASTXpathAnywhereElement)", "constructor test on LegacyEl (the sentinel class must have an empty body); as an `if` test it narrows x to ASTXpathElement"),
    ("isinstance(node, element.ast_class)", "abstract isinstance : N -> C -> Bool (as in Fn)"),
    ("len(elements) == 0, elements[0], elements[1:], elements", "one case split `match elements with | [] | e :: t` at the top of the function; the body is translated once per case with the tests on the list decided (dead branches are not translated; `elements[0]` reachable on the empty list: Unsupported)"),
    ("_match_node_xpath(a, es) (self call)", "call with one unit of fuel less; a plain node argument is wrapped in `some`; out of fuel = false"),
]

HEADER_LX = """/- GENERATED by harness/py2lean_k.py (`generate_legacy_xpath`) from `_match_node_xpath`, `ASTXpathElement` and
   `ASTXpathAnywhereElement` of src/pyoak/legacy/match/xpath.py on every run of `./check C20`.
   Do not edit: Props/GenBridgeLegacyXPath.lean proves the hand-written heap-level model `Legacy.lmatchH` equal to exactly this
   definition (an OPTIONAL obligation, see harness/kernels_tie.py). -/
import PyOak.Model.Core
set_option linter.unusedVariables false
namespace PyOak.GenK.LX
open PyOak

/-- `dataclasses.Field` as far as the legacy xpath matcher looks at it -/
structure FieldR where
  name : Str
  deriving DecidableEq, Repr
"""


class LFn(Fn):
    """`Fn` + the legacy idioms of LEGACY_IDIOMS; `mode` is the case of the list parameter (`nil` / `cons`)"""

    def __init__(self, name, env, records, self_call, lst, mode, head, tl):
        super().__init__(name, env, records, {"isinstance": ("isinstance", [], "Bool")}, {}, self_name=name)
        self.self_call = self_call
        self.lst, self.mode, self.head, self.tl = lst, mode, head, tl
        self.env[lst] = ("list", T_LEL)
        self.lean[lst] = f"({head} :: {tl})" if mode == "cons" else f"([] : List {T_LEL})"

    def is_lst(self, e):
        return isinstance(e, ast.Name) and e.id == self.lst

    def is_len_lst(self, e):
        return isinstance(e, ast.Call) and isinstance(e.func, ast.Name) and e.func.id == "len" and len(e.args) == 1 and self.is_lst(e.args[0])

    def sentinel_test(self, e):
        """-> the tested expression of `isinstance(<e>, ASTXpathAnywhereElement)`"""
        if isinstance(e, ast.Call) and isinstance(e.func, ast.Name) and e.func.id == "isinstance" and len(e.args) == 2 \
                and not e.keywords and isinstance(e.args[1], ast.Name) and e.args[1].id == LEGACY_SENTINEL:
            return e.args[0]
        return None

    def expr(self, e):
        if isinstance(e, ast.Subscript) and self.is_lst(e.value):
            sl = e.slice
            if isinstance(sl, ast.Constant) and sl.value == 0:
                if self.mode == "nil":
                    self.bad(e, "reachable when the list is empty (IndexError)")
                return self.head, T_LEL
            if isinstance(sl, ast.Slice) and isinstance(sl.lower, ast.Constant) and sl.lower.value == 1 and sl.upper is None and sl.step is None:
                return (self.tl if self.mode == "cons" else f"([] : List {T_LEL})"), ("list", T_LEL)
            self.bad(e, "subscript of the element list")
        if isinstance(e, ast.Attribute):
            base, bt = self.expr(e.value)
            if bt == "N":
                if e.attr not in LEGACY_NODE_ATTRS:
                    self.bad(e, "node attribute outside LEGACY_NODE_ATTRS")
                ln, ty = LEGACY_NODE_ATTRS[e.attr]
                return f"({ln} {base})", ty
            if bt == ("opt", "N"):
                self.bad(e, "attribute of a node that may be None (AttributeError)")
            if bt == T_LEL:
                self.bad(e, "attribute of an element that may be the sentinel (not narrowed)")
        if isinstance(e, ast.UnaryOp) and isinstance(e.op, ast.Not):
            t, _ = self.boolean(e.operand)
            return {"true": "false", "false": "true"}.get(t, f"(!{t})"), "Bool"
        if isinstance(e, ast.IfExp):
            c, _ = self.boolean(e.test)
            a, ta = self.expr(e.body)
            b, tb = self.expr(e.orelse)
            ty = ta if not (isinstance(ta, tuple) and ta[0] == "opt" and ta[1] == "?") else tb
            norm = lambda t: t[1] if isinstance(t, tuple) and t[0] == "opt" else t   # noqa: E731
            if norm(ta) != "?" and norm(tb) != "?" and norm(ta) != norm(tb):
                self.bad(e, "branches of different types")
            oa, ob = isinstance(ta, tuple) and ta[0] == "opt", isinstance(tb, tuple) and tb[0] == "opt"
            if oa and not ob:
                b = f"(some {b})"
            elif ob and not oa:
                a, ty = f"(some {a})", tb if tb[1] != "?" else ("opt", ta)
            return f"(if {c} then {a} else {b})", ty
        return super().expr(e)

    def boolean(self, e):
        t, ty = self.expr(e)
        if isinstance(ty, tuple) and ty[0] == "opt" and ty[1] in LEGACY_TRUTHY_OPT:
            return f"{t}.isSome", "Bool"
        if ty != "Bool":
            self.bad(e, f"truthiness of a non-bool ({ty}) is not translated")
        return t, ty

    def compare(self, l, op, r):
        if self.is_len_lst(l) and isinstance(r, ast.Constant) and r.value == 0 and isinstance(op, (ast.Eq, ast.NotEq, ast.Gt)):
            empty = self.mode == "nil"
            return ("true" if empty == isinstance(op, ast.Eq) else "false"), "Bool"
        return super().compare(l, op, r)

    def call(self, e):
        f = e.func
        x = self.sentinel_test(e)
        if x is not None:
            t, ty = self.expr(x)
            if ty == T_LEL:
                return f"(LegacyEl.isAnywhere {t})", "Bool"
            if ty == ("rec", "ASTXpathElement"):
                return "false", "Bool"
            self.bad(e, "sentinel test on a value that is not an element")
        if isinstance(f, ast.Name) and f.id == "isinstance":
            if len(e.args) != 2 or e.keywords:
                self.bad(e, "isinstance arguments")
            a, ta = self.expr(e.args[0])
            b, tb = self.expr(e.args[1])
            if ta != "N" or tb != "C":
                self.bad(e, "isinstance other than (node, class)")
            return f"(isinstance {a} {b})", "Bool"
        if isinstance(f, ast.Attribute) and f.attr in LEGACY_NODE_METHODS and not e.args and not e.keywords:
            base, bt = self.expr(f.value)
            if bt != "N":
                self.bad(e, "method of a value that is not a (narrowed) node")
            ln, ty = LEGACY_NODE_METHODS[f.attr]
            return f"({ln} {base})", ty
        if isinstance(f, ast.Name) and f.id == self.self_name:
            prefix, rty, ptypes = self.self_call
            if e.keywords or len(e.args) != len(ptypes):
                self.bad(e, "self call arguments")
            args = []
            for a, pt in zip(e.args, ptypes):
                t, ty = self.expr(a)
                if pt == ("opt", "N") and ty == "N":
                    t = f"(some {t})"
                elif ty != pt:
                    self.bad(a, f"self call argument of type {ty} (expected {pt})")
                args.append(t)
            return f"({prefix} {' '.join(args)})", rty
        self.bad(e, "call")

    def boolop(self, e):
        """as Fn.boolop, with the constants decided (a decided left operand hides the right one, as in Python)"""
        is_and = isinstance(e.op, ast.And)
        vals = list(e.values)
        stop, unit = ("false", "true") if is_and else ("true", "false")

        def go(i):
            if i == len(vals) - 1:
                return self.boolean(vals[i])[0]
            v = vals[i]
            nm = self.none_test(v)
            if nm is not None and nm[1] == (not is_and) and isinstance(self.env.get(nm[0]), tuple) and self.env[nm[0]][0] == "opt":
                name = nm[0]
                cur = self.lean[name]
                saved = (self.env[name], self.lean[name])
                self.fresh += 1
                nv = f"{name}_{self.fresh}"
                self.env[name], self.lean[name] = saved[0][1], nv
                rest = go(i + 1)
                self.env[name], self.lean[name] = saved
                return f"(match {cur} with | none => {stop} | some {nv} => {rest})"
            t = self.boolean(v)[0]
            if t == stop:
                return stop
            rest = go(i + 1)
            if t == unit:
                return rest
            return f"({t} {'&&' if is_and else '||'} {rest})"
        return go(0), "Bool"

    def narrow_test(self, test):
        """-> (kind, name, special_when_true): kind `none` (`x is None`) / `sentinel` (`isinstance(x, <sentinel>)`), under `not`s"""
        flip = False
        while isinstance(test, ast.UnaryOp) and isinstance(test.op, ast.Not):
            test, flip = test.operand, not flip
        nm = self.none_test(test)
        if nm is not None and isinstance(self.env.get(nm[0]), tuple) and self.env[nm[0]][0] == "opt":
            return "none", nm[0], nm[1] != flip
        x = self.sentinel_test(test)
        if x is not None and isinstance(x, ast.Name) and self.env.get(x.id) == T_LEL:
            return "sentinel", x.id, not flip
        return None

    def block(self, stmts, k):
        if stmts and isinstance(stmts[0], ast.If):
            s, rest = stmts[0], stmts[1:]

            def branch(first):
                return self.block(first, None) if self.always_exits(first) else self.block(list(first) + list(rest), k)
            nt = self.narrow_test(s.test)
            if nt is not None:
                kind, name, special_when_true = nt
                special, other = (s.body, s.orelse) if special_when_true else (s.orelse, s.body)
                cur = self.lean[name]
                sp = branch(special)
                saved = (self.env[name], self.lean[name])
                self.fresh += 1
                nv = f"{name}_{self.fresh}"
                self.env[name], self.lean[name] = (saved[0][1] if kind == "none" else ("rec", "ASTXpathElement")), nv
                ot = branch(other)
                self.env[name], self.lean[name] = saved
                if kind == "none":
                    return f"(match {cur} with\n      | none => {sp}\n      | some {nv} => {ot})"
                return f"(match {cur} with\n      | .anywhereElement => {sp}\n      | .element {nv} => {ot})"
            c, _ = self.boolean(s.test)
            if c == "true":
                return branch(s.body)
            if c == "false":
                return branch(s.orelse)
        return super().block(stmts, k)


def generate_legacy_xpath(src: Path) -> str:
    """C20, OPTIONAL: `_match_node_xpath` of the LEGACY module (the per-element test is inline there: one function)"""
    where = "legacy._match_node_xpath"
    xp = K(src / "pyoak" / "legacy" / "match" / "xpath.py")
    elem = xp.record("ASTXpathElement")
    if xp.record(LEGACY_SENTINEL):
        raise Unsupported(LEGACY_SENTINEL, "the sentinel class has fields")
    if any(b for c in (xp.classes[LEGACY_SENTINEL],) for b in c.bases):
        raise Unsupported(LEGACY_SENTINEL, "the sentinel class has base classes")
    records = {"ASTXpathElement": ("ASTXpathElement", elem)}
    fn = xp.funcs.get("_match_node_xpath")
    if fn is None:
        raise Unsupported(where, "function not found")
    a = fn.args
    if a.vararg or a.kwarg or a.kwonlyargs or a.defaults or a.posonlyargs or len(a.args) != 2 or fn.decorator_list:
        raise Unsupported(where, "expects plain parameters (node, elements)")
    node, els = [x.arg for x in a.args]
    # the annotations decide the types: `ASTNode | None` and `list[ASTXpathElement | ASTXpathAnywhereElement]`
    want = {f"{node}: ASTNode | None", f"{els}: list[ASTXpathElement | {LEGACY_SENTINEL}]"}
    got = {f"{x.arg}: {ast.unparse(x.annotation) if x.annotation else '?'}" for x in a.args}
    if got != want:
        raise Unsupported(where, f"parameter annotations {sorted(got)} (expected {sorted(want)})")
    for n in ast.walk(fn):
        if isinstance(n, (ast.Assign, ast.AugAssign, ast.AnnAssign, ast.NamedExpr, ast.For)):
            tg = [n.target] if not isinstance(n, ast.Assign) else n.targets
            if any(isinstance(x, ast.Name) and x.id in (els, node) for t in tg for x in ast.walk(t)):
                raise Unsupported(where, f"a parameter is re-assigned: {ast.unparse(n)[:80]}")
    prims = "isinstance parent parent_field parent_index ancestors"
    self_call = (f"match_node_xpath {prims} fuel", "Bool", [("opt", "N"), ("list", T_LEL)])
    head, tl = f"{els}_0", f"{els}_tl"
    bodies = {}
    for mode in ("nil", "cons"):
        env = {node: ("opt", "N")}
        if mode == "cons":
            env[head] = T_LEL
        f = LFn("_match_node_xpath", env, records, self_call, els, mode, head, tl)
        f.name = where
        bodies[mode] = f.block(fn.body, None)
    out = [HEADER_LX]
    out.append(gen_record("ASTXpathElement", "(C : Type)", elem))
    out.append("/-- an entry of the element list: `ASTXpathElement | ASTXpathAnywhereElement` -/\n"
               "inductive LegacyEl (C : Type) where\n  | element (e : ASTXpathElement C)\n  | anywhereElement\n\n"
               f"/-- `isinstance(x, {LEGACY_SENTINEL})` -/\n"
               "def LegacyEl.isAnywhere {C : Type} : LegacyEl C → Bool\n  | .anywhereElement => true\n  | .element _ => false\n")
    out.append("/-- `_match_node_xpath(node, elements)` (src/pyoak/legacy/match/xpath.py).  One unit of fuel per call depth (the Python\n"
               "recursion climbs `parent` pointers; out of fuel = `false`) -/\n"
               "def match_node_xpath {N C : Type} (isinstance : N → C → Bool) (parent : N → Option N)\n"
               "    (parent_field : N → Option FieldR) (parent_index : N → Option Int) (ancestors : N → List N) :\n"
               f"    Nat → Option N → List {T_LEL} → Bool\n"
               "  | 0, _, _ => false\n"
               f"  | fuel + 1, {node}, {els} =>\n"
               f"    match {els} with\n"
               f"    | [] =>\n      {bodies['nil']}\n"
               f"    | {head} :: {tl} =>\n      {bodies['cons']}\n")
    out.append("end PyOak.GenK.LX\n")
    return "\n".join(out)


# ------------------------------------------------------------------------------------------------ _eq_fn (C02, optional)

HEADER_EQ = """/- GENERATED by harness/py2lean_k.py from `_eq_fn` (src/pyoak/node.py) on every run of `./check C02`.
   Do not edit: Props/GenBridgeEq.lean proves the hand-written model `eqImpl` equal to exactly this definition (an OPTIONAL
   obligation, see harness/kernels_tie.py). -/
namespace PyOak.GenK

/-- `for a, b in zip(xs, ys, strict=True): if P(a, b): <exit>`: `ok true` = some pair satisfied P (the loop exits there,
before a later length mismatch could be noticed), `ok false` = both streams ended together, `error` = the ValueError of
`zip(strict=True)` when one stream ends before the other -/
def zipStrictFind {A : Type} (P : A → A → Bool) : List A → List A → Except Unit Bool
  | [], [] => .ok false
  | x :: xs, y :: ys => if P x y then .ok true else zipStrictFind P xs ys
  | _, _ => .error ()
"""


class EqFn:
    """translation of `_eq_fn(self, other)`: the result is an `Except Unit Bool` term over the abstract operations
    same_class / content_id / origin / dfs (a list of nodes; `item.node` of a traversal item is the node itself)"""

    def __init__(self, fn: ast.FunctionDef):
        self.fn = fn
        ps = [a.arg for a in fn.args.args]
        if len(ps) != 2:
            raise Unsupported("_eq_fn", "expects (self, other)")
        self.nodes = set(ps)          # names bound to nodes
        self.items: set[str] = set()  # names bound to traversal items (loop variables)

    def bad(self, node, why=""):
        raise Unsupported("_eq_fn", f"{why or 'construct'}: {ast.unparse(node)}"[:200])

    def klass(self, e):
        """`x.__class__` / `type(x)` -> x"""
        if isinstance(e, ast.Attribute) and e.attr == "__class__" and isinstance(e.value, ast.Name) and e.value.id in self.nodes:
            return e.value.id
        if isinstance(e, ast.Call) and isinstance(e.func, ast.Name) and e.func.id == "type" and len(e.args) == 1 \
                and isinstance(e.args[0], ast.Name) and e.args[0].id in self.nodes:
            return e.args[0].id
        return None

    def val(self, e):
        """-> (term, kind) for content_id / origin values"""
        if isinstance(e, ast.Attribute) and e.attr in ("content_id", "origin"):
            b = e.value
            if isinstance(b, ast.Call) and isinstance(b.func, ast.Name) and b.func.id == "cast" and len(b.args) == 2:
                b = b.args[1]          # typing.cast(T, x) is x
            if isinstance(b, ast.Name) and b.id in self.nodes:
                return f"({e.attr} {b.id})", e.attr
            if isinstance(b, ast.Attribute) and b.attr == "node" and isinstance(b.value, ast.Name) and b.value.id in self.items:
                return f"({e.attr} {b.value.id})", e.attr
            if isinstance(b, ast.Name) and b.id in self.items:
                self.bad(e, "attribute of a traversal item (expected item.node.<attr>)")
        self.bad(e, "value")

    def stream(self, e):
        if isinstance(e, ast.Call) and isinstance(e.func, ast.Attribute) and e.func.attr == "dfs" and not e.args and not e.keywords \
                and isinstance(e.func.value, ast.Name) and e.func.value.id in self.nodes:
            return f"(dfs {e.func.value.id})"
        self.bad(e, "stream (expected <node>.dfs())")

    def zipcall(self, e):
        """zip(A, B, strict=True) -> (A, B)"""
        if isinstance(e, ast.Call) and isinstance(e.func, ast.Name) and e.func.id == "zip" and len(e.args) == 2 \
                and len(e.keywords) == 1 and e.keywords[0].arg == "strict" and isinstance(e.keywords[0].value, ast.Constant) \
                and e.keywords[0].value.value is True:
            return self.stream(e.args[0]), self.stream(e.args[1])
        self.bad(e, "expected zip(<a>.dfs(), <b>.dfs(), strict=True)")

    def pure(self, e) -> str:
        """a Bool term without effects (no zip)"""
        if isinstance(e, ast.Constant) and isinstance(e.value, bool):
            return "true" if e.value else "false"
        if isinstance(e, ast.UnaryOp) and isinstance(e.op, ast.Not):
            return f"(!{self.pure(e.operand)})"
        if isinstance(e, ast.BoolOp):
            op = " && " if isinstance(e.op, ast.And) else " || "
            return "(" + op.join(self.pure(v) for v in e.values) + ")"
        if isinstance(e, ast.Compare) and len(e.ops) == 1:
            l, r, op = e.left, e.comparators[0], e.ops[0]
            kl, kr = self.klass(l), self.klass(r)
            if kl is not None and kr is not None and isinstance(op, (ast.Is, ast.IsNot, ast.Eq, ast.NotEq)):
                t = f"(same_class {kl} {kr})"
                return t if isinstance(op, (ast.Is, ast.Eq)) else f"(!{t})"
            if isinstance(op, (ast.Eq, ast.NotEq)):
                a, ka = self.val(l)
                b, kb = self.val(r)
                if ka != kb:
                    self.bad(e, "comparison of a content_id with an origin")
                t = f"({a} == {b})"
                return t if isinstance(op, ast.Eq) else f"(!{t})"
        self.bad(e, "condition")

    def pair_pred(self, target, cond) -> str:
        if not (isinstance(target, ast.Tuple) and len(target.elts) == 2 and all(isinstance(x, ast.Name) for x in target.elts)):
            self.bad(target, "loop target (expected two names)")
        a, b = target.elts[0].id, target.elts[1].id
        self.items |= {a, b}
        t = self.pure(cond)
        self.items -= {a, b}
        return f"(fun {a} {b} => {t})"

    def result(self, e) -> str:
        """an expression in return position: may be `not any(.. for a, b in zip(..))` / `all(..)` / pure"""
        neg = False
        x = e
        if isinstance(x, ast.UnaryOp) and isinstance(x.op, ast.Not):
            neg, x = True, x.operand
        if isinstance(x, ast.Call) and isinstance(x.func, ast.Name) and x.func.id in ("any", "all") and len(x.args) == 1 \
                and isinstance(x.args[0], ast.GeneratorExp) and len(x.args[0].generators) == 1 and not x.args[0].generators[0].ifs:
            g = x.args[0]
            xs, ys = self.zipcall(g.generators[0].iter)
            is_all = x.func.id == "all"
            cond = ast.UnaryOp(op=ast.Not(), operand=g.elt) if is_all else g.elt
            pred = self.pair_pred(g.generators[0].target, cond)
            # any: found -> True; all: found a counterexample -> False
            found, none = ("true", "false") if not is_all else ("false", "true")
            if neg:
                found, none = none, found
            return (f"(match zipStrictFind {pred} {xs} {ys} with\n      | .error u => .error u\n      | .ok true => .ok {found}"
                    f"\n      | .ok false => .ok {none})")
        if isinstance(e, ast.BoolOp) and isinstance(e.op, ast.And) and len(e.values) >= 2:
            # `cheap and cheap and <zip part>`: short-circuit
            head = ast.BoolOp(op=ast.And(), values=e.values[:-1]) if len(e.values) > 2 else e.values[0]
            try:
                h = self.pure(head)
            except Unsupported:
                h = None
            if h is not None:
                return f"(if {h} then {self.result(e.values[-1])} else .ok false)"
        return f".ok {self.pure(e)}"

    def block(self, stmts, k) -> str:
        if not stmts:
            if k is None:
                raise Unsupported("_eq_fn", "a path falls off the end of the function")
            return k
        s, rest = stmts[0], stmts[1:]
        if isinstance(s, ast.Expr) and isinstance(s.value, ast.Constant) and isinstance(s.value.value, str):
            return self.block(rest, k)
        if isinstance(s, ast.Return):
            if s.value is None:
                self.bad(s, "bare return")
            return self.result(s.value)
        if isinstance(s, ast.If):
            c = self.pure(s.test)
            kk = self.block(rest, k) if (rest or k is not None) else None
            a = self.block(s.body, kk)
            b = self.block(s.orelse, kk) if s.orelse else kk
            if b is None:
                raise Unsupported("_eq_fn", "a path falls off the end of the function")
            return f"(if {c} then {a}\n     else {b})"
        if isinstance(s, ast.For):
            if s.orelse or len(s.body) != 1 or not isinstance(s.body[0], ast.If) or s.body[0].orelse \
                    or len(s.body[0].body) != 1 or not isinstance(s.body[0].body[0], ast.Return):
                self.bad(s, "loop shape (expected `for a, b in zip(..): if c: return <const>`)")
            xs, ys = self.zipcall(s.iter)
            pred = self.pair_pred(s.target, s.body[0].test)
            exit_ = self.result(s.body[0].body[0].value)
            kk = self.block(rest, k)
            return (f"(match zipStrictFind {pred} {xs} {ys} with\n      | .error u => .error u\n      | .ok true => {exit_}"
                    f"\n      | .ok false => {kk})")
        self.bad(s, "statement")


def generate_eq(src: Path) -> str:
    nd = K(src / "pyoak" / "node.py")
    fn = nd.funcs.get("_eq_fn")
    if fn is None:
        raise Unsupported("_eq_fn", "function not found")
    t = EqFn(fn)
    ps = [a.arg for a in fn.args.args]
    body = t.block(fn.body, None)
    return (HEADER_EQ + "\n/-- `_eq_fn` (src/pyoak/node.py): `a == b` -/\n"
            "def eq_fn {N O : Type} [BEq O] (same_class : N → N → Bool) (content_id : N → List Char) (origin : N → O)\n"
            f"    (dfs : N → List N) ({ps[0]} {ps[1]} : N) : Except Unit Bool :=\n  {body}\n\nend PyOak.GenK\n")


HEADER_ISEQ = """/- GENERATED by harness/py2lean_k.py from `ASTNode.is_equal` (src/pyoak/node.py) on every run of `./check C01`.
   Do not edit: Props/GenBridgeIsEq.lean proves the hand-written model `isEqual` equal to exactly this definition (an OPTIONAL
   obligation, see harness/kernels_tie.py). -/
import PyOak.Gen.KernelsEq
namespace PyOak.GenK
"""


def generate_is_equal(src: Path) -> str:
    nd = K(src / "pyoak" / "node.py")
    cls = nd.classes.get("ASTNode")
    fn = None if cls is None else next((x for x in cls.body if isinstance(x, ast.FunctionDef) and x.name == "is_equal"), None)
    if fn is None:
        raise Unsupported("ASTNode.is_equal", "method not found")
    t = EqFn(fn)
    ps = [a.arg for a in fn.args.args]
    body = t.block(fn.body, None)
    return (HEADER_ISEQ + "\n/-- `ASTNode.is_equal` (src/pyoak/node.py) -/\n"
            "def is_equal {N O : Type} [BEq O] (same_class : N → N → Bool) (content_id : N → List Char) (origin : N → O)\n"
            f"    (dfs : N → List N) ({ps[0]} {ps[1]} : N) : Except Unit Bool :=\n  {body}\n\nend PyOak.GenK\n")


# ------------------------------------------------------------------------------------------------ match/pattern.py (C08, optional)
#
# `BaseMatcher.match` and the `_match` methods of the six matcher classes  ->  Gen/KernelsMatch.lean, over the TYPES of the
# hand-written model (Model/Pattern.lean: `PM.Matcher` / `Matchers` / `Content`, `PM.MVal`, `PM.Ctx`, `PM.Res`, `PM.Sem`).
# Props/GenBridgeMatch.lean proves `PM.Matcher.run` (hand-written) equal to the generated `matcher_match`.
#
# Everything the translation ASSUMES is in the two tables below (the trusted base of this tie); the rest is syntax-directed:
# `if` / early `return` / `raise` -> if-then-else / `.ok` / `.error ()`;  `a, b = call` -> `match call with | .error e => .error e
# | .ok (a, b) => ..`;  `x = e`, `d.update(e)` -> shadowing `let`;  a `for` loop with early `return` -> a recursive helper over
# the matcher list (member of one `mutual` block with the dispatcher) whose result is `.inl r` (returned `r` inside the loop)
# or `.inr state` (the loop ended; `state` = the local dicts the body updates);  dynamic dispatch of `self._match` -> one
# generated function per class + one dispatcher arm per constructor of `PM.Matcher`.

# (1) REPRESENTATION: Python matcher class -> constructor(s) of `PM.Matcher`; dataclass fields in constructor order.
#     `const`: a field that the constructor fixes to a value (the interpreter only ever builds `ValueMatcher(value=None)` and
#     `ValueMatcher(value=())`);  `derived`: an `init=False` field computed in `__post_init__` (checked textually).
#     `SequenceMatcher.tail_matcher: AnyMatcher | None` is carried as the optional NAME of that AnyMatcher (its only field),
#     calls on it are dispatched statically to `AnyMatcher._match` (checked: AnyMatcher has no subclass in the module).
MATCH_CLASSES = {
    "AnyMatcher": {"fields": [], "ctors": [(".any", {})]},
    "ValueMatcher": {"fields": [("value", "MVal")],
                     "ctors": [(".valNone", {"value": "MVal.none"}), (".valEmpty", {"value": "(MVal.tup [])"})]},
    "RegexMatcher": {"fields": [("_re_str", "Str")], "ctors": [(".regex", {})],
                     "derived": {"pattern": ("_re_str", "object.__setattr__(self, 'pattern', re.compile(self._re_str))")}},
    "VarMatcher": {"fields": [("var_name", "Str")], "ctors": [(".var", {})]},
    "SequenceMatcher": {"fields": [("matchers", "Matchers"), ("tail_matcher", "OptAny")], "ctors": [(".seq", {})]},
    "NodeMatcher": {"fields": [("types", "Types"), ("content", "Content")], "ctors": [(".node", {})]},
}

# (2) PRIMITIVES: Python idiom -> model-level term (what each row claims about CPython / pyoak is part of the trusted base)
MATCH_PRIMITIVES = [
    ("isinstance(v, ASTNode)",            "v is `MVal.node n` (narrowing `match`); as a Bool: `isASTNode v`"),
    ("isinstance(v, Sequence)",           "v is `MVal.tup xs` (narrowing); str / bytes values are a listed don't-care of C08"),
    ("isinstance(v, self.types)",         "v is `MVal.node n` and `types.any (PM.instOf n)`"),
    ("a.is_equal(b)   (a: a node)",       "`nodeIsEqual S a b`: `S.ceq a b'` when b is a node b', else false (node.py: type test first)"),
    ("a == b / a != b (field values)",    "`PM.pyEq S a b` (left operand first); on lengths: Nat equality"),
    ("len(x), <, <=, >, >=",              "`List.length` / `PM.Matchers.length`, Nat order"),
    ("dict(d) | {} | {k: v, **e} | d | e", "`d` | `[]` | `PM.Ctx.update [(k, v)] e` | `PM.Ctx.update d e`   (association lists, first entry wins)"),
    ("d.update(e)   (d a LOCAL dict)",    "`let d := PM.Ctx.update d e`"),
    ("k in d / k not in d / d[k]",        "`d.lookup k` is some / none / its value (only after a membership guard)"),
    ("hasattr(n, f) / getattr(n, f)",     "`PM.getField n f` is some / its value (only after a hasattr guard)"),
    ("str(v)",                            "`PM.MVal.strText v`"),
    ("self.pattern.match(t) is not None", "`S.rx self._re_str t`   (`pattern = re.compile(_re_str)`; also its truthiness)"),
    ("xs[n:] / xs[:n]  (xs a tuple value)", "`MVal.tup (xs.drop n)` / `MVal.tup (xs.take n)`"),
    ("zip(self.matchers, xs, strict=False)", "lock-step recursion over `PM.Matchers` and the list, stops at the shorter one"),
    ("for f, m in self.content",          "recursion over `PM.Content`"),
    ("m.match(v, c)  (m a sub-matcher)",  "`matcher_match S m v (some c)` (the generated dispatcher); `ctx=None` -> `none`"),
    ("raise <any exception>",             "`.error ()`"),
    ("x is None / x is not None / truthiness of an Optional dataclass instance", "`Option` tests (narrowing `match`)"),
]

_M_LEAN_TY = {"MVal": "MVal", "Node": "Node", "ListMVal": "(List MVal)", "Ctx": "Ctx", "OptCtx": "(Option Ctx)", "Bool": "Bool",
              "Nat": "Nat", "Str": "Str", "OptStr": "(Option Str)", "OptAny": "(Option (Option Str))", "AnyM": "(Option Str)",
              "Matcher": "Matcher", "Matchers": "Matchers", "Content": "Content", "Types": "(List Str)", "Pair": "(Bool × Ctx)",
              "Res": "Res", "Regex": None}
_M_OPT = {"OptStr": "Str", "OptAny": "AnyM", "OptCtx": "Ctx"}
_LEAN_KEYWORDS = {"at", "from", "fun", "end", "open", "match", "then", "else", "if", "do", "in", "let", "have", "show", "with", "by",
                  "type", "Type", "def", "where", "for", "return", "mut", "instance", "class", "structure", "using", "local", "e", "r", "S"}

HEADER_MATCH = """/- GENERATED by harness/py2lean_k.py (`generate_match`) from `BaseMatcher.match` and the `_match` methods of the matcher
   classes of src/pyoak/match/pattern.py on every run of `./check C08`.  Do not edit: Props/GenBridgeMatch.lean proves the
   hand-written model `PM.Matcher.run` equal to exactly these definitions (an OPTIONAL obligation, see
   harness/kernels_tie.py).  Only the TYPES and the primitives listed in `MATCH_PRIMITIVES` (py2lean_k.py) are taken from
   Model/Pattern.lean. -/
import PyOak.Model.Pattern
set_option linter.unusedVariables false
namespace PyOak.GenK.PMatch
open PyOak PyOak.PM

/-- outcome of a `for` loop whose body may `return`: `.inl r` = the function returned `r` from inside the loop,
`.inr s` = the loop ran to its end with the loop-carried locals `s`; `error` = an exception -/
abbrev Loop (σ : Type) := Except Unit ((Bool × Ctx) ⊕ σ)

/-- `isinstance(v, ASTNode)` -/
def isASTNode : MVal → Bool
  | .node _ => true
  | _ => false

/-- `isinstance(v, Sequence)` (tuples; str / bytes: don't care) -/
def isSequence : MVal → Bool
  | .tup _ => true
  | _ => false

/-- `a.is_equal(other)` for a node `a`: `type(other) is not type(self)` first, then the content ids -/
def nodeIsEqual (S : Sem) (a : Node) (other : MVal) : Bool :=
  match other with
  | .node b => S.ceq a b
  | _ => false
"""


def _ind(text: str, n: int = 2) -> str:
    pad = " " * n
    return "\n".join(pad + l if l else l for l in text.split("\n"))


def _lean_name(py: str) -> str:
    return py + "_" if py in _LEAN_KEYWORDS else py


class MFn:
    """translation of one method body (or one loop body) of pattern.py into a Lean term of type `Res` (resp. `Loop σ`)"""

    def __init__(self, where: str, cls: str | None, counter: list, loops: list):
        self.where = where
        self.cls = cls                  # the matcher class whose `_match` this is (None: BaseMatcher.match)
        self.env: dict[str, tuple[str, str]] = {}       # python local -> (lean term, type)
        self.selfenv: dict[str, tuple[str, str]] = {}   # self.<attr> -> (lean term, type)
        self.local_dicts: set[str] = set()
        self.facts: dict[tuple, tuple[str, str]] = {}
        self.counter = counter          # shared fresh-name counter
        self.loops = loops              # loop helpers generated for this method (appended)
        self.in_loop = None             # (loop name, fallthrough continuation) inside a loop body
        self.self_match = None          # BaseMatcher.match: the lean name of the `self._match` parameter

    # ---------------------------------------------------------------- helpers
    def bad(self, node, why=""):
        txt = ast.unparse(node) if isinstance(node, ast.AST) else str(node)
        line = f" (line {node.lineno})" if isinstance(node, ast.AST) and hasattr(node, "lineno") else ""
        raise Unsupported(self.where, f"{why or 'construct'}{line}: {txt}"[:240])

    def fresh(self, base: str) -> str:
        self.counter[0] += 1
        return f"{base}_{self.counter[0]}"

    def snap(self):
        return dict(self.env), dict(self.selfenv), set(self.local_dicts), dict(self.facts)

    def restore(self, s):
        self.env, self.selfenv, self.local_dicts, self.facts = dict(s[0]), dict(s[1]), set(s[2]), dict(s[3])

    def bind(self, py: str, ty: str, term: str | None = None) -> str:
        """(re)binds a python local; facts that mention the shadowed lean name are dropped"""
        term = term or _lean_name(py)
        import re as _re
        self.facts = {k: v for k, v in self.facts.items() if not any(_re.search(rf"(?<![\w.]){_re.escape(term)}(?![\w])", str(x)) for x in k[1:])}
        self.env[py] = (term, ty)
        return term

    def ret(self, pair: str) -> str:
        return f".ok (.inl {pair})" if self.in_loop else f".ok {pair}"

    def as_mval(self, t: str, ty: str, node) -> str:
        if ty == "MVal":
            return t
        if ty == "ListMVal":
            return f"(MVal.tup {t})"
        if ty == "Node":
            return f"(MVal.node {t})"
        self.bad(node, f"a value of type {ty} used as a field value")

    def is_self_attr(self, e) -> str | None:
        if isinstance(e, ast.Attribute) and isinstance(e.value, ast.Name) and e.value.id == "self":
            return e.attr
        return None

    def subject(self, e):
        """a name or self.<attr> -> (kind, key, term, type)"""
        if isinstance(e, ast.Name) and e.id in self.env:
            return ("env", e.id) + self.env[e.id]
        a = self.is_self_attr(e)
        if a is not None and a in self.selfenv:
            return ("self", a) + self.selfenv[a]
        return None

    def is_regex_match(self, e):
        """`self.pattern.match(T)` -> T"""
        if isinstance(e, ast.Call) and isinstance(e.func, ast.Attribute) and e.func.attr == "match" and len(e.args) == 1 and not e.keywords:
            a = self.is_self_attr(e.func.value)
            if a is not None and a in self.selfenv and self.selfenv[a][1] == "Regex":
                t, ty = self.expr(e.args[0])
                if ty != "Str":
                    self.bad(e, "regex matched against a non-string")
                return f"(S.rx {self.selfenv[a][0]} {t})"
        return None

    # ---------------------------------------------------------------- expressions -> (term, type)
    def expr(self, e):
        if isinstance(e, ast.Name):
            if e.id in self.env:
                return self.env[e.id]
            self.bad(e, "unknown name (not assigned on this path)")
        a = self.is_self_attr(e)
        if a is not None:
            if a in self.selfenv:
                if self.selfenv[a][1] == "Regex":
                    self.bad(e, "the compiled regex used other than through `.match(text)`")
                return self.selfenv[a]
            self.bad(e, "unknown attribute of self")
        if isinstance(e, ast.Constant):
            if e.value is True:
                return "true", "Bool"
            if e.value is False:
                return "false", "Bool"
            if isinstance(e.value, int) and not isinstance(e.value, bool) and e.value >= 0:
                return f"({e.value} : Nat)", "Nat"
            self.bad(e, "constant")
        if isinstance(e, ast.UnaryOp) and isinstance(e.op, ast.Not):
            return f"(!{self.boolean(e.operand)})", "Bool"
        if isinstance(e, ast.BoolOp):
            op = " && " if isinstance(e.op, ast.And) else " || "
            return "(" + op.join(self.boolean(v) for v in e.values) + ")", "Bool"
        if isinstance(e, ast.Compare) and len(e.ops) == 1:
            return self.compare(e, e.left, e.ops[0], e.comparators[0])
        if isinstance(e, ast.Tuple) and len(e.elts) == 2:
            a0, t0 = self.expr(e.elts[0])
            a1, t1 = self.expr(e.elts[1])
            if (t0, t1) != ("Bool", "Ctx"):
                self.bad(e, f"tuple of ({t0}, {t1}) (expected (bool, dict))")
            return f"({a0}, {a1})", "Pair"
        if isinstance(e, ast.Dict):
            return self.dict_lit(e), "Ctx"
        if isinstance(e, ast.BinOp) and isinstance(e.op, ast.BitOr):
            a0, t0 = self.expr(e.left)
            a1, t1 = self.expr(e.right)
            if (t0, t1) != ("Ctx", "Ctx"):
                self.bad(e, "`|` between non-dicts")
            return f"(Ctx.update {a0} {a1})", "Ctx"
        if isinstance(e, ast.Subscript):
            return self.subscript(e)
        if isinstance(e, ast.Call):
            return self.call(e)
        if isinstance(e, ast.IfExp):
            c = self.boolean(e.test)
            a0, t0 = self.expr(e.body)
            a1, t1 = self.expr(e.orelse)
            if t0 != t1:
                self.bad(e, "conditional expression with branches of different types")
            return f"(if {c} then {a0} else {a1})", t0
        self.bad(e, "expression")

    def boolean(self, e) -> str:
        rx = self.is_regex_match(e)
        if rx is not None:           # a Match object is always truthy
            return rx
        t, ty = self.expr(e)
        if ty == "Bool":
            return t
        if ty == "OptAny":           # Optional dataclass instance (no __bool__ / __len__: checked): truthy iff not None
            return f"{t}.isSome"
        self.bad(e, f"truthiness of a value of type {ty} is not translated")

    def dict_lit(self, e: ast.Dict) -> str:
        acc = None
        for k, v in zip(e.keys, e.values):
            if k is None:
                t, ty = self.expr(v)
                if ty != "Ctx":
                    self.bad(e, "`**` of a non-dict")
                item = t
            else:
                kt, kty = self.expr(k)
                if kty != "Str":
                    self.bad(k, f"dict key of type {kty} (an Optional key must be narrowed by `is None` first)")
                vt, vty = self.expr(v)
                item = f"[({kt}, {self.as_mval(vt, vty, v)})]"
            acc = item if acc is None else f"(Ctx.update {acc} {item})"
        return acc if acc is not None else "[]"

    def subscript(self, e: ast.Subscript):
        base, bty = self.expr(e.value)
        if bty == "Ctx":
            k, kty = self.expr(e.slice)
            f = self.facts.get(("lookup", base, k))
            if f is None:
                self.bad(e, "dict subscript without a preceding membership guard (KeyError possible)")
            return f
        if bty == "ListMVal" and isinstance(e.slice, ast.Slice) and e.slice.step is None:
            lo, up = e.slice.lower, e.slice.upper
            if lo is not None and up is None:
                n, nty = self.expr(lo)
                if nty == "Nat":
                    return f"(MVal.tup ({base}.drop {n}))", "MVal"
            if up is not None and lo is None:
                n, nty = self.expr(up)
                if nty == "Nat":
                    return f"(MVal.tup ({base}.take {n}))", "MVal"
        self.bad(e, "subscript")

    def compare(self, e, l, op, r):
        if isinstance(op, (ast.Is, ast.IsNot)):
            if not (isinstance(r, ast.Constant) and r.value is None):
                self.bad(e, "`is` between values (object identity is not modelled)")
            rx = self.is_regex_match(l)
            if rx is not None:
                return (f"(!{rx})" if isinstance(op, ast.Is) else rx), "Bool"
            t, ty = self.expr(l)
            if ty in _M_OPT:
                return (f"{t}.isNone" if isinstance(op, ast.Is) else f"{t}.isSome"), "Bool"
            if ty in ("Str", "AnyM", "Ctx"):      # narrowed
                return ("false" if isinstance(op, ast.Is) else "true"), "Bool"
            self.bad(e, f"None test of a value of type {ty}")
        if isinstance(op, (ast.In, ast.NotIn)):
            k, kty = self.expr(l)
            d, dty = self.expr(r)
            if (kty, dty) != ("Str", "Ctx"):
                self.bad(e, "membership test other than <str> in <dict>")
            return (f"({d}.lookup {k}).isSome" if isinstance(op, ast.In) else f"({d}.lookup {k}).isNone"), "Bool"
        a, ta = self.expr(l)
        b, tb = self.expr(r)
        vals = ("MVal", "ListMVal", "Node")
        if isinstance(op, (ast.Eq, ast.NotEq)):
            if ta in vals and tb in vals:
                t = f"(pyEq S {self.as_mval(a, ta, l)} {self.as_mval(b, tb, r)})"
            elif ta == tb and ta in ("Nat", "Bool", "Str"):
                t = f"({a} == {b})"
            else:
                self.bad(e, f"== between {ta} and {tb}")
            return (t if isinstance(op, ast.Eq) else f"(!{t})"), "Bool"
        sym = {ast.Lt: "<", ast.LtE: "≤", ast.Gt: ">", ast.GtE: "≥"}.get(type(op))
        if sym is not None and (ta, tb) == ("Nat", "Nat"):
            return f"(decide ({a} {sym} {b}))", "Bool"
        self.bad(e, f"comparison {type(op).__name__} between {ta} and {tb}")

    def call(self, e: ast.Call):
        f = e.func
        if isinstance(f, ast.Name) and not e.keywords:
            if f.id == "len" and len(e.args) == 1:
                t, ty = self.expr(e.args[0])
                if ty == "ListMVal":
                    return f"{t}.length", "Nat"
                if ty == "Matchers":
                    return f"(Matchers.length {t})", "Nat"
                self.bad(e, f"len of a value of type {ty} (a field value must be narrowed by isinstance(.., Sequence) first)")
            if f.id == "dict" and len(e.args) == 1:
                t, ty = self.expr(e.args[0])
                if ty != "Ctx":
                    self.bad(e, "dict() of a non-dict")
                return t, "Ctx"
            if f.id == "dict" and not e.args:
                return "[]", "Ctx"
            if f.id == "str" and len(e.args) == 1:
                t, ty = self.expr(e.args[0])
                if ty != "MVal":
                    self.bad(e, f"str() of a value of type {ty}")
                return f"(MVal.strText {t})", "Str"
            if f.id == "isinstance" and len(e.args) == 2:
                t, ty = self.expr(e.args[0])
                k = e.args[1]
                if ty == "MVal" and isinstance(k, ast.Name) and k.id == "ASTNode":
                    return f"(isASTNode {t})", "Bool"
                if ty == "MVal" and isinstance(k, ast.Name) and k.id == "Sequence":
                    return f"(isSequence {t})", "Bool"
                self.bad(e, "isinstance test (supported: ASTNode, Sequence; self.types only as an `if` test)")
            if f.id == "hasattr" and len(e.args) == 2:
                t, ty = self.expr(e.args[0])
                n, nty = self.expr(e.args[1])
                if (ty, nty) != ("Node", "Str"):
                    self.bad(e, "hasattr of a value that is not known to be a node")
                return f"(getField {t} {n}).isSome", "Bool"
            if f.id == "getattr" and len(e.args) == 2:
                t, ty = self.expr(e.args[0])
                n, nty = self.expr(e.args[1])
                fct = self.facts.get(("getattr", t, n))
                if fct is None:
                    self.bad(e, "getattr without a preceding hasattr guard (AttributeError possible)")
                return fct
            if f.id == "cast" and len(e.args) == 2:
                return self.expr(e.args[1])
        if isinstance(f, ast.Attribute):
            if f.attr == "_match" and isinstance(f.value, ast.Name) and f.value.id == "self" and self.self_match and len(e.args) == 2 and not e.keywords:
                v, vty = self.expr(e.args[0])
                c, cty = self.expr(e.args[1])
                if cty != "Ctx":
                    self.bad(e, f"self._match called with a context of type {cty} (None not excluded)")
                return f"({self.self_match} {self.as_mval(v, vty, e.args[0])} {c})", "Res"
            if f.attr == "is_equal" and len(e.args) == 1 and not e.keywords:
                a, ta = self.expr(f.value)
                b, tb = self.expr(e.args[0])
                if ta != "Node":
                    self.bad(e, "is_equal on a receiver that is not known to be a node (narrow it with isinstance(.., ASTNode))")
                return f"(nodeIsEqual S {a} {self.as_mval(b, tb, e.args[0])})", "Bool"
            if f.attr == "match" and len(e.args) in (1, 2) and not e.keywords:
                if self.is_regex_match(e) is not None:
                    self.bad(e, "a regex Match object used as a value")
                m, mty = self.expr(f.value)
                v, vty = self.expr(e.args[0])
                v = self.as_mval(v, vty, e.args[0])
                if len(e.args) == 2:
                    c, cty = self.expr(e.args[1])
                    if cty == "Ctx":
                        c = f"(some {c})"
                    elif cty != "OptCtx":
                        self.bad(e, "context argument")
                else:
                    c = "none"
                if mty == "Matcher":
                    if not self.in_loop:
                        self.bad(e, "`.match` on a sub-matcher outside a loop over the sub-matchers")
                    return f"(matcher_match S {m} {v} {c})", "Res"
                if mty == "AnyM":
                    return f"(BaseMatcher_match {m} (fun value ctx => AnyMatcher__match S value ctx) {v} {c})", "Res"
                self.bad(e, f"`.match` on a receiver of type {mty} (an Optional matcher must be narrowed first)")
        self.bad(e, "call")

    # ---------------------------------------------------------------- narrowing tests
    def narrowing(self, test):
        """-> None | dict(positive, scrut, pat, apply(), resid)   `apply` installs the narrowed binding / fact"""
        pos = True
        while isinstance(test, ast.UnaryOp) and isinstance(test.op, ast.Not):
            pos, test = not pos, test.operand
        if isinstance(test, ast.Call) and isinstance(test.func, ast.Name) and len(test.args) == 2 and not test.keywords:
            fn, a0, a1 = test.func.id, test.args[0], test.args[1]
            if fn == "isinstance":
                sub = self.subject(a0)
                if sub is None or sub[3] != "MVal":
                    return None
                kind, key, cur, _ = sub
                nv = self.fresh(cur)
                if isinstance(a1, ast.Name) and a1.id in ("ASTNode", "Sequence"):
                    ctor, nty = (".node", "Node") if a1.id == "ASTNode" else (".tup", "ListMVal")
                    return {"positive": pos, "scrut": cur, "pat": f"{ctor} {nv}", "other": "_", "resid": None,
                            "apply": lambda: self._narrow(kind, key, nv, nty)}
                ts = self.subject(a1)
                if ts is not None and ts[3] == "Types":
                    return {"positive": pos, "scrut": cur, "pat": f".node {nv}", "other": "_", "resid": f"({ts[2]}.any (instOf {nv}))",
                            "apply": lambda: self._narrow(kind, key, nv, "Node")}
                return None
            if fn == "hasattr":
                t, ty = self.expr(a0)
                n, nty = self.expr(a1)
                if (ty, nty) != ("Node", "Str"):
                    self.bad(test, "hasattr of a value that is not known to be a node")
                nv = self.fresh("attr")
                return {"positive": pos, "scrut": f"(getField {t} {n})", "pat": f"some {nv}", "other": "none", "resid": None,
                        "apply": lambda: self.facts.__setitem__(("getattr", t, n), (nv, "MVal"))}
        if isinstance(test, ast.Compare) and len(test.ops) == 1:
            op, l, r = test.ops[0], test.left, test.comparators[0]
            if isinstance(op, (ast.Is, ast.IsNot)) and isinstance(r, ast.Constant) and r.value is None:
                sub = self.subject(l)
                if sub is not None and sub[3] in _M_OPT:
                    kind, key, cur, ty = sub
                    nv = self.fresh(cur)
                    p = pos if isinstance(op, ast.IsNot) else not pos
                    return {"positive": p, "scrut": cur, "pat": f"some {nv}", "other": "none", "resid": None,
                            "apply": lambda: self._narrow(kind, key, nv, _M_OPT[ty])}
                return None
            if isinstance(op, (ast.In, ast.NotIn)):
                k, kty = self.expr(l)
                d, dty = self.expr(r)
                if (kty, dty) != ("Str", "Ctx"):
                    return None
                nv = self.fresh("item")
                p = pos if isinstance(op, ast.In) else not pos
                return {"positive": p, "scrut": f"({d}.lookup {k})", "pat": f"some {nv}", "other": "none", "resid": None,
                        "apply": lambda: self.facts.__setitem__(("lookup", d, k), (nv, "MVal"))}
        sub = self.subject(test)
        if sub is not None and sub[3] == "OptAny":        # truthiness of an Optional dataclass instance
            kind, key, cur, ty = sub
            nv = self.fresh(cur)
            return {"positive": pos, "scrut": cur, "pat": f"some {nv}", "other": "none", "resid": None,
                    "apply": lambda: self._narrow(kind, key, nv, _M_OPT[ty])}
        return None

    def _narrow(self, kind, key, term, ty):
        if kind == "env":
            self.env[key] = (term, ty)
        else:
            self.selfenv[key] = (term, ty)

    # ---------------------------------------------------------------- statements -> term
    def block(self, stmts, k) -> str:
        """k: None (falling off the end is outside the subset) or a thunk producing the continuation in the CURRENT env"""
        if not stmts:
            if k is None:
                raise Unsupported(self.where, "a path falls off the end of the method (implicit `return None`)")
            return k()
        s, rest = stmts[0], stmts[1:]
        if isinstance(s, ast.Expr) and isinstance(s.value, ast.Constant) and isinstance(s.value.value, str):
            return self.block(rest, k)
        if isinstance(s, ast.Pass):
            return self.block(rest, k)
        if isinstance(s, ast.Return):
            if s.value is None:
                self.bad(s, "bare return")
            t, ty = self.expr(s.value)
            if ty == "Pair":
                return self.ret(t)
            if ty == "Res":
                if not self.in_loop:
                    return t
                return f"(match {t} with\n  | .error e => .error e\n  | .ok r => .ok (.inl r))"
            self.bad(s, f"return of a value of type {ty}")
        if isinstance(s, ast.Raise):
            return ".error ()"
        if isinstance(s, ast.Continue) and self.in_loop:
            return self.in_loop[1]()
        if isinstance(s, ast.If):
            return self.stmt_if(s, rest, k)
        if isinstance(s, ast.AnnAssign) and isinstance(s.target, ast.Name) and s.value is not None:
            return self.assign(s, s.target, s.value, rest, k)
        if isinstance(s, ast.Assign) and len(s.targets) == 1:
            return self.assign(s, s.targets[0], s.value, rest, k)
        if isinstance(s, ast.Expr) and isinstance(s.value, ast.Call) and isinstance(s.value.func, ast.Attribute) \
                and s.value.func.attr == "update" and isinstance(s.value.func.value, ast.Name) and len(s.value.args) == 1 and not s.value.keywords:
            d = s.value.func.value.id
            if d not in self.env or self.env[d][1] != "Ctx":
                self.bad(s, "update of something that is not a dict")
            if d not in self.local_dicts:
                self.bad(s, "update of a dict that was not created in this method (the caller would see the mutation)")
            cur = self.env[d][0]
            t, ty = self.expr(s.value.args[0])
            if ty != "Ctx":
                self.bad(s, "update with a non-dict")
            nm = self.bind(d, "Ctx")
            return f"(let {nm} : Ctx := (Ctx.update {cur} {t});\n{self.block(rest, k)})"
        if isinstance(s, ast.For):
            return self.stmt_for(s, rest, k)
        self.bad(s, "statement")

    def assign(self, s, tg, value, rest, k) -> str:
        if isinstance(tg, ast.Name):
            t, ty = self.expr(value)
            if ty == "Res":
                self.bad(s, "a (bool, dict) result bound to one name")
            lty = _M_LEAN_TY.get(ty)
            if lty is None:
                self.bad(s, f"assignment of a value of type {ty}")
            is_new_dict = isinstance(value, ast.Dict) or (isinstance(value, ast.Call) and isinstance(value.func, ast.Name) and value.func.id == "dict") \
                or (isinstance(value, ast.BinOp))
            nm = self.bind(tg.id, ty)
            if ty == "Ctx" and is_new_dict:
                self.local_dicts.add(tg.id)
            else:
                self.local_dicts.discard(tg.id)
            return f"(let {nm} : {lty} := {t};\n{self.block(rest, k)})"
        if isinstance(tg, ast.Tuple) and len(tg.elts) == 2 and all(isinstance(x, ast.Name) for x in tg.elts):
            t, ty = self.expr(value)
            names = []
            for x, xt in zip(tg.elts, ("Bool", "Ctx")):
                if x.id == "_":
                    names.append("_")
                else:
                    names.append(self.bind(x.id, xt))
                    self.local_dicts.discard(x.id)
            body = self.block(rest, k)
            if ty == "Res":
                return f"(match {t} with\n  | .error e => .error e\n  | .ok ({names[0]}, {names[1]}) =>\n{_ind(body, 4)})"
            if ty == "Pair":
                return f"(match {t} with\n  | ({names[0]}, {names[1]}) =>\n{_ind(body, 4)})"
            self.bad(s, f"unpacking of a value of type {ty}")
        self.bad(s, "assignment target")

    def stmt_if(self, s: ast.If, rest, k) -> str:
        kk = (lambda: self.block(rest, k)) if (rest or k is not None) else None
        # default-argument normalisation: `if x is None: x = E`
        if not s.orelse and len(s.body) == 1 and isinstance(s.body[0], ast.Assign) and len(s.body[0].targets) == 1 \
                and isinstance(s.body[0].targets[0], ast.Name) and isinstance(s.test, ast.Compare) and len(s.test.ops) == 1 \
                and isinstance(s.test.ops[0], ast.Is) and isinstance(s.test.left, ast.Name) and s.test.left.id == s.body[0].targets[0].id \
                and isinstance(s.test.comparators[0], ast.Constant) and s.test.comparators[0].value is None \
                and s.test.left.id in self.env and self.env[s.test.left.id][1] in _M_OPT:
            x = s.test.left.id
            cur, oty = self.env[x]
            t, ty = self.expr(s.body[0].value)
            if ty != _M_OPT[oty]:
                self.bad(s, "default value of another type")
            nv = self.fresh(cur)
            nm = self.bind(x, ty)
            if ty == "Ctx":
                self.local_dicts.discard(x)
            return f"(let {nm} : {_M_LEAN_TY[ty]} := (match {cur} with | none => {t} | some {nv} => {nv});\n{self.block(rest, k)})"
        nar = self.narrowing(s.test)
        base = self.snap()
        if nar is not None:
            pos_stmts, neg_stmts = (s.body, s.orelse) if nar["positive"] else (s.orelse, s.body)
            nar["apply"]()
            narrowed = self.snap()
            a = self.block(pos_stmts, kk)
            self.restore(base)
            b = self.block(neg_stmts, kk)
            if nar["resid"] is not None:
                # the residual test failed: the un-narrowed branch, but the subject IS a node there; neg_stmts / rest must
                # not depend on that (they are translated in the base env)
                self.restore(base)
                b2 = self.block(neg_stmts, kk)
                a = f"(if {nar['resid']} then\n{_ind(a)}\nelse\n{_ind(b2)})"
            self.restore(base)
            return f"(match {nar['scrut']} with\n  | {nar['pat']} =>\n{_ind(a, 4)}\n  | {nar['other']} =>\n{_ind(b, 4)})"
        c = self.boolean(s.test)
        a = self.block(s.body, kk)
        self.restore(base)
        b = self.block(s.orelse, kk)
        self.restore(base)
        return f"(if {c} then\n{_ind(a)}\nelse\n{_ind(b)})"

    def stmt_for(self, s: ast.For, rest, k) -> str:
        if self.in_loop:
            self.bad(s, "nested loop")
        if s.orelse:
            self.bad(s, "for/else")
        # ---- what is iterated
        it = s.iter
        zipped = None
        if isinstance(it, ast.Call) and isinstance(it.func, ast.Name) and it.func.id == "zip" and len(it.args) == 2:
            kws = {kw.arg: kw.value for kw in it.keywords}
            if set(kws) - {"strict"} or ("strict" in kws and not (isinstance(kws["strict"], ast.Constant) and kws["strict"].value is False)):
                self.bad(it, "zip keywords (only strict=False)")
            it, zipped = it.args[0], it.args[1]
        coll, cty = self.expr(it)
        if cty not in ("Matchers", "Content") or (cty == "Content" and zipped is not None) or (cty == "Matchers" and zipped is None):
            self.bad(s, "loop shape (expected `for m, v in zip(self.matchers, <tuple value>, strict=False)` or `for f, m in self.content`)")
        if not (isinstance(s.target, ast.Tuple) and len(s.target.elts) == 2 and all(isinstance(x, ast.Name) for x in s.target.elts)):
            self.bad(s.target, "loop target (expected two names)")
        t0, t1 = (_lean_name(x.id) for x in s.target.elts)
        zt = None
        if zipped is not None:
            zt, zty = self.expr(zipped)
            if zty != "ListMVal":
                self.bad(zipped, f"zip over a value of type {zty} (narrow it with isinstance(.., Sequence) first)")
        # ---- loop-carried state: local names (re)bound in the body that exist before the loop
        assigned, used_names, used_attrs = [], set(), set()
        for st in s.body:
            for n in ast.walk(st):
                if isinstance(n, ast.Name):
                    (assigned.append(n.id) if isinstance(n.ctx, ast.Store) else used_names.add(n.id))
                if isinstance(n, ast.Call) and isinstance(n.func, ast.Attribute) and n.func.attr == "update" and isinstance(n.func.value, ast.Name):
                    assigned.append(n.func.value.id)
                a = self.is_self_attr(n)
                if a is not None:
                    used_attrs.add(a)
        targets = {x.id for x in s.target.elts}
        for x in targets:
            if x in self.env:        # after the loop Python would see the last element, the translation the old binding
                self.bad(s.target, f"loop target `{x}` shadows a local of the method")
        state = [x for x in self.env if x in assigned and x not in targets]
        carried = [x for x in self.env if x in used_names and x not in state and x not in targets]
        cattrs = [a for a in self.selfenv if a in used_attrs and self.selfenv[a][1] != "Regex"]
        for x in state + carried:
            if _M_LEAN_TY.get(self.env[x][1]) is None:
                self.bad(s, f"loop uses `{x}` of type {self.env[x][1]}")
        idx = len(self.loops) + 1
        lname = f"{self.cls}__match_loop_{idx}"
        # ---- the body, in a sub-translator
        sub = MFn(f"{self.where} (loop body)", self.cls, self.counter, self.loops)
        sub.self_match = None
        params = []          # (lean name, lean type) after the structural argument(s)
        for a in cattrs:
            term, ty = self.selfenv[a]
            sub.selfenv[a] = (term, ty)
            params.append((term, _M_LEAN_TY[ty]))
        for x in carried:
            term, ty = self.env[x]
            sub.env[x] = (term, ty)
            params.append((term, _M_LEAN_TY[ty]))
        state_terms = []
        for x in state:
            term, ty = self.env[x]
            nm = _lean_name(x)
            sub.env[x] = (nm, ty)
            if x in self.local_dicts:
                sub.local_dicts.add(x)
            state_terms.append((nm, _M_LEAN_TY[ty], term))
        carried_names = [p[0] for p in params]
        st_names = [p[0] for p in state_terms]
        st_tuple = "(" + ", ".join(st_names) + ")" if len(st_names) != 1 else st_names[0]
        st_type = "(" + " × ".join(p[1] for p in state_terms) + ")" if len(state_terms) > 1 else (state_terms[0][1] if state_terms else "Unit")
        if cty == "Matchers":
            sub.env[s.target.elts[0].id] = (t0, "Matcher")
            sub.env[s.target.elts[1].id] = (t1, "MVal")
            again = lambda: f"({lname} S rest_ vals_ {' '.join(carried_names + [sub.env[x][0] for x in state])})".replace("  ", " ")
        else:
            sub.env[s.target.elts[0].id] = (t0, "Str")
            sub.env[s.target.elts[1].id] = (t1, "Matcher")
            again = lambda: f"({lname} S rest_ {' '.join(carried_names + [sub.env[x][0] for x in state])})".replace("  ", " ")
        sub.in_loop = (lname, again)
        body = sub.block(s.body, again)
        done = f".ok (.inr {st_tuple})"
        tail_pats = ", ".join(carried_names + st_names)
        sep = ", " if tail_pats else ""
        arg_tys = [p[1] for p in params] + [p[1] for p in state_terms]
        if cty == "Matchers":
            sig = " → ".join(["Matchers", "(List MVal)"] + arg_tys + [f"Loop {st_type}"])
            arms = (f"  | .nil, _{sep}{tail_pats} => {done}\n  | .cons _ _, []{sep}{tail_pats} => {done}\n"
                    f"  | .cons {t0} rest_, {t1} :: vals_{sep}{tail_pats} =>\n{_ind(body, 4)}")
            clos_tys = ["(List MVal)"] + arg_tys
        else:
            sig = " → ".join(["Content"] + arg_tys + [f"Loop {st_type}"])
            arms = (f"  | .nil{sep}{tail_pats} => {done}\n"
                    f"  | .cons {t0} {t1} rest_{sep}{tail_pats} =>\n{_ind(body, 4)}")
            clos_tys = arg_tys
        doc = ast.unparse(ast.For(target=s.target, iter=s.iter, body=[ast.Expr(ast.Constant(...))], orelse=[], lineno=0, col_offset=0)).split("\n")[0]
        self.loops.append({"name": lname, "def": f"/-- `{doc}` of `{self.cls}._match` -/\ndef {lname} (S : Sem) : {sig}\n{arms}",
                           "param": f"loop_{idx}", "ptype": " → ".join(clos_tys + [f"Loop {st_type}"]), "coll": coll, "nargs": len(clos_tys)})
        # ---- the call, and what follows the loop
        call_args = ([zt] if zt is not None else []) + carried_names + [p[2] for p in state_terms]
        for x in state:
            self.bind(x, self.env[x][1])
        after = self.block(rest, k)
        return (f"(match (loop_{idx} {' '.join(call_args)}) with\n  | .error e => .error e\n  | .ok (.inl r) => {self.ret('r')}\n"
                f"  | .ok (.inr {st_tuple}) =>\n{_ind(after, 4)})")


def _method(cls: ast.ClassDef, name: str):
    return next((x for x in cls.body if isinstance(x, ast.FunctionDef) and x.name == name), None)


def _class_fields(cls: ast.ClassDef) -> list[str]:
    return [st.target.id for st in cls.body if isinstance(st, ast.AnnAssign) and isinstance(st.target, ast.Name)]


def generate_match(src: Path) -> str:
    """OPTIONAL kernel of C08: `BaseMatcher.match` + `_match` of every matcher class"""
    pk = K(src / "pyoak" / "match" / "pattern.py")
    base = pk.classes.get("BaseMatcher")
    if base is None:
        raise Unsupported("BaseMatcher", "class not found")
    if _class_fields(base) != ["name"]:
        raise Unsupported("BaseMatcher", f"fields {_class_fields(base)} (expected ['name'])")

    def bases(c):
        return [b.id for b in c.bases if isinstance(b, ast.Name)] + [ast.unparse(b) for b in c.bases if not isinstance(b, ast.Name)]
    family = {"BaseMatcher"}
    changed = True
    while changed:
        changed = False
        for n, c in pk.classes.items():
            if n not in family and any(b in family for b in bases(c)):
                family.add(n)
                changed = True
    subs = family - {"BaseMatcher"}
    if subs != set(MATCH_CLASSES):
        raise Unsupported("pattern.py", f"matcher classes {sorted(subs)} (the model has constructors for {sorted(MATCH_CLASSES)})")
    for n in subs:
        c = pk.classes[n]
        if bases(c) != ["BaseMatcher"]:
            raise Unsupported(n, f"bases {bases(c)} (expected a direct subclass of BaseMatcher)")
        spec = MATCH_CLASSES[n]
        want = [f for f, _ in spec["fields"]] + list(spec.get("derived", {}))
        if _class_fields(c) != want:
            raise Unsupported(n, f"fields {_class_fields(c)} (expected {want})")
        for special in ("match", "__bool__", "__len__", "__eq__", "__getattribute__", "__getattr__"):
            if _method(c, special) is not None:
                raise Unsupported(n, f"defines {special}")
        for d, (_src_field, text) in spec.get("derived", {}).items():
            pi = _method(c, "__post_init__")
            got = None if pi is None else "\n".join(ast.unparse(x) for x in pi.body)
            if got != text:
                raise Unsupported(f"{n}.__post_init__", f"`{d}` is not set by exactly `{text}`: {got!r}"[:240])
    out = [HEADER_MATCH]
    # ---- BaseMatcher.match
    fn = _method(base, "match")
    if fn is None:
        raise Unsupported("BaseMatcher.match", "method not found")
    ps = [a.arg for a in fn.args.args]
    if len(ps) != 3 or fn.args.vararg or fn.args.kwarg or fn.args.kwonlyargs or len(fn.args.defaults) != 1 \
            or not (isinstance(fn.args.defaults[0], ast.Constant) and fn.args.defaults[0].value is None):
        raise Unsupported("BaseMatcher.match", "expects (self, value, ctx=None)")
    if fn.decorator_list:
        raise Unsupported("BaseMatcher.match", "decorated")
    t = MFn("BaseMatcher.match", None, [0], [])
    t.self_match = "self__match"
    t.selfenv["name"] = ("self_name", "OptStr")
    v, c = _lean_name(ps[1]), _lean_name(ps[2])
    t.env[ps[1]] = (v, "MVal")
    t.env[ps[2]] = (c, "OptCtx")
    body = t.block(fn.body, None)
    out.append("/-- `BaseMatcher.match`; `self._match` is the parameter `self__match` (dispatched by `matcher_match` below) -/\n"
               f"def BaseMatcher_match (self_name : Option Str) (self__match : MVal → Ctx → Res) ({v} : MVal) ({c} : Option Ctx) : Res :=\n"
               f"{_ind(body)}\n")
    # ---- the `_match` methods
    arms, loop_defs = [], []
    for n, spec in MATCH_CLASSES.items():
        cdef = pk.classes[n]
        fn = _method(cdef, "_match")
        if fn is None:
            raise Unsupported(f"{n}._match", "method not found")
        ps = [a.arg for a in fn.args.args]
        if len(ps) != 3 or fn.args.vararg or fn.args.kwarg or fn.args.kwonlyargs or fn.args.defaults or fn.decorator_list:
            raise Unsupported(f"{n}._match", "expects (self, value, ctx)")
        loops: list = []
        t = MFn(f"{n}._match", n, [0], loops)
        fparams = []
        for f, ty in spec["fields"]:
            t.selfenv[f] = (f"self_{f}", ty)
            fparams.append(f"(self_{f} : {_M_LEAN_TY[ty]})")
        for d, (src_field, _text) in spec.get("derived", {}).items():
            t.selfenv[d] = (f"self_{src_field}", "Regex")
        v, c = _lean_name(ps[1]), _lean_name(ps[2])
        t.env[ps[1]] = (v, "MVal")
        t.env[ps[2]] = (c, "Ctx")
        body = t.block(fn.body, None)
        lparams = [f"({l['param']} : {l['ptype']})" for l in loops]
        out.append(f"/-- `{n}._match` -/\ndef {n}__match (S : Sem) {' '.join(lparams + fparams)} ({v} : MVal) ({c} : Ctx) : Res :=\n".replace("  (", " (")
                   + f"{_ind(body)}\n")
        loop_defs += [l["def"] for l in loops]
        for ctor, consts in spec["ctors"]:
            pat_fields = [f"self_{f}" for f, _ in spec["fields"] if f not in consts]
            closures = []
            for l in loops:
                xs = [f"a{i}" for i in range(l["nargs"])]
                closures.append(f"(fun {' '.join(xs)} => {l['name']} S {l['coll']} {' '.join(xs)})")
            args = closures + [consts.get(f, f"self_{f}") for f, _ in spec["fields"]]
            arms.append(f"  | {' '.join([ctor, 'self_name'] + pat_fields)}, value, ctx =>\n"
                        f"    BaseMatcher_match self_name (fun value ctx => {' '.join([n + '__match', 'S'] + args)} value ctx) value ctx")
    out.append("mutual\n/-- `matcher.match(value, ctx)`: `BaseMatcher.match` with `self._match` dispatched on the class of the matcher -/\n"
               "def matcher_match (S : Sem) : Matcher → MVal → Option Ctx → Res\n" + "\n".join(arms) + "\n" + "\n".join(loop_defs) + "\nend\n")
    out.append("end PyOak.GenK.PMatch\n")
    return "\n".join(out)


def write_if_changed(src: Path, dest: Path) -> tuple[bool, str]:
    text = generate(src)
    if dest.exists() and dest.read_text() == text:
        return False, text
    dest.write_text(text)
    return True, text


if __name__ == "__main__":
    import sys
    root = Path(sys.argv[1] if len(sys.argv) > 1 else "/repo/src")
    print(generate(root))
    print(generate_xpath(root))
    print(generate_eq(root))
    print(generate_is_equal(root))
    print(generate_match(root))
    print(generate_legacy_xpath(root))
