"""node classes for the C05 "consumer process" scenario: a process that never CONSTRUCTS nodes of these classes (it only
unpickles trees built elsewhere) traverses them; importing this module creates no instance"""
from __future__ import annotations

from dataclasses import dataclass

from pyoak.node import ASTNode


@dataclass(frozen=True)
class W05Name(ASTNode):
    ident: str


@dataclass(frozen=True)
class W05Call(ASTNode):
    func: W05Name
    args: tuple[ASTNode, ...]
    star: W05Name | None = None


@dataclass(frozen=True)
class W05Block(ASTNode):
    stmts: tuple[ASTNode, ...]
    last: W05Call | None = None
