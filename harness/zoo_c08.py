"""Extra node classes for C08 / C17 and the configuration variants under which cases are re-run.

`BytesLeaf` carries an (empty or not) bytes property next to str / tuple properties, so that the empty
bracketed sequence `[]` can be matched against every kind of empty value ("[] only the empty tuple").
The class is registered in zoo's own field tables (in this process only), which is all `zoo.enc_tree`
needs; `zoo.py` itself is not edited."""
from __future__ import annotations

import contextlib
import logging
from dataclasses import dataclass

import enum
import typing
import pyoak.config

import zoo


@dataclass(frozen=True)
class BytesLeaf(zoo.Expr):
    data: bytes = b""
    text: str = ""
    words: tuple[str, ...] = ()
    kids: tuple[zoo.Expr, ...] = ()
    opt: zoo.Expr | None = None


zoo.CHILD_FIELDS[BytesLeaf] = [("kids", True), ("opt", False)]


class Vis(str, enum.Enum):
    """an enum whose members ARE strings: str(member) is 'Vis.PUBLIC', the string payload is 'pub'"""
    PUBLIC = "pub"
    PRIVATE = "priv"


class Marked(str):
    """a str subclass with its own __str__"""
    def __str__(self):
        return "<" + str.__str__(self) + ">"


@dataclass(frozen=True)
class StrKinds(zoo.Expr):
    vis: Vis = Vis.PUBLIC
    anyv: typing.Any = None
    plain: str = ""


zoo.CHILD_FIELDS[StrKinds] = []


def register_leaf_class(cls: type) -> None:
    """a class defined at run time that adds no child field to its zoo base class"""
    for base in cls.__mro__[1:]:
        if base in zoo.CHILD_FIELDS:
            zoo.CHILD_FIELDS[cls] = list(zoo.CHILD_FIELDS[base])
            return
    raise KeyError(cls)


def class_row(cls: type) -> list[str]:
    return [k.__name__ for k in cls.__mro__]


_NULL = logging.NullHandler()
LOGGERS = ["pyoak.match.pattern", "pyoak.match.xpath", "pyoak.match.helpers", "pyoak.node", "pyoak"]
CONFIGS = ["plain", "debug", "trace", "debug+trace"]


@contextlib.contextmanager
def configured(cfg: str):
    """run a block with library logging / tracing switched on (nothing is printed); configuration must never
    change an outcome"""
    saved = []
    old_trace = pyoak.config.TRACE_LOGGING
    try:
        if "debug" in cfg:
            for name in LOGGERS:
                lg = logging.getLogger(name)
                saved.append((lg, lg.level, lg.propagate))
                lg.addHandler(_NULL)
                lg.setLevel(logging.DEBUG)
                lg.propagate = False
        if "trace" in cfg:
            pyoak.config.TRACE_LOGGING = True
        yield
    finally:
        pyoak.config.TRACE_LOGGING = old_trace
        for lg, level, prop in saved:
            lg.setLevel(level)
            lg.propagate = prop
            lg.removeHandler(_NULL)


def pick_config(rng) -> str:
    return rng.choice(["plain", "plain", "plain", "debug", "debug", "trace", "debug+trace"])
